(* C01 — lemmas about Model/C01.v (beacon GJKR).  Property statements are in Props/C01.v. *)
From Coq Require Import ZArith NArith List Bool Lia Permutation.
From KV Require Import Common.Verdict Model.C01.
Import ListNotations.
Open Scope N_scope.

(* ================================================================================= *)
(* 1. The property as a Prop, and soundness of its executable form [spec01]          *)
(* ================================================================================= *)

(* on the implementation's observables *)
Definition obs_agreement (o : list (N * obs)) : Prop :=
  forall i j a d k key sh ps a' d' k' key' sh' ps',
    In (i, OFinished a d k key sh ps) o -> In (j, OFinished a' d' k' key' sh' ps') o ->
    k = k' /\ (forall m, In m (a ++ d) <-> In m (a' ++ d')).
Definition obs_never_marked (honest : list N) (o : list (N * obs)) : Prop :=
  forall i a d k key sh ps m,
    In (i, OFinished a d k key sh ps) o -> In m (a ++ d) -> ~ In m honest.

(* on the model's outcomes *)
Definition agreement (r : list (N * outcome)) : Prop :=
  forall i j a d k sh ps a' d' k' sh' ps',
    In (i, Finished a d k sh ps) r -> In (j, Finished a' d' k' sh' ps') r ->
    k = k' /\ (forall m, In m (a ++ d) <-> In m (a' ++ d')).
Definition never_marked (honest : list N) (r : list (N * outcome)) : Prop :=
  forall i a d k sh ps m,
    In (i, Finished a d k sh ps) r -> In m (a ++ d) -> ~ In m honest.

Lemma memN_In : forall x l, memN x l = true <-> In x l.
Proof.
  intros x l. unfold memN. rewrite existsb_exists. split.
  - intros [y [Hy He]]. apply N.eqb_eq in He. subst. exact Hy.
  - intros H. exists x. split; [exact H | apply N.eqb_refl].
Qed.

Lemma insert_sorted_In : forall x y l, In y (insert_sorted x l) <-> y = x \/ In y l.
Proof.
  intros x y l. induction l as [|z r IH]; cbn [insert_sorted].
  - cbn. intuition.
  - destruct (N.ltb x z) eqn:E1.
    + cbn. intuition.
    + destruct (N.eqb x z) eqn:E2.
      * apply N.eqb_eq in E2. subst. cbn. intuition.
      * cbn. rewrite IH. intuition.
Qed.

Lemma sort_set_In : forall y l, In y (sort_set l) <-> In y l.
Proof.
  intros y l. unfold sort_set. induction l as [|x r IH]; cbn [fold_right].
  - reflexivity.
  - rewrite insert_sorted_In, IH. cbn. intuition.
Qed.

Lemma listN_eqb_eq : forall a b, listN_eqb a b = true <-> a = b.
Proof.
  induction a as [|x a IH]; destruct b as [|y b]; cbn [listN_eqb]; try (split; [discriminate|discriminate]).
  - split; reflexivity.
  - rewrite andb_true_iff, N.eqb_eq, IH. split.
    + intros [-> ->]. reflexivity.
    + intros E. inversion E. auto.
Qed.

Lemma all_same_pairwise :
  forall (A B : Type) (eqb : A -> A -> bool) (P : A -> B),
    (forall a b, eqb a b = true <-> P a = P b) ->
    forall l, all_same eqb l = true -> forall x y, In x l -> In y l -> P x = P y.
Proof.
  intros A B eqb P Hspec l.
  assert (Hhd : forall a r, all_same eqb (a :: r) = true -> forall y, In y r -> P a = P y).
  { intros a r. revert a. induction r as [|b r IH]; intros a H y Hy.
    - destruct Hy.
    - cbn [all_same] in H. apply andb_true_iff in H. destruct H as [Hab Hr].
      apply Hspec in Hab. destruct Hy as [<-|Hy]; [exact Hab|].
      rewrite Hab. apply IH; assumption. }
  induction l as [|a r IH]; intros H x y Hx Hy.
  - destruct Hx.
  - assert (Hr : all_same eqb r = true).
    { destruct r as [|b r']; [reflexivity|]. cbn [all_same] in H. apply andb_true_iff in H. apply H. }
    destruct Hx as [<-|Hx]; destruct Hy as [<-|Hy].
    + reflexivity.
    + apply Hhd with (r := r); assumption.
    + symmetry. apply Hhd with (r := r); assumption.
    + apply IH; assumption.
Qed.

Lemma finished_In :
  forall o i a d k key sh ps,
    In (i, OFinished a d k key sh ps) o -> In (i, (a, d, k, key, sh, ps)) (finished o).
Proof.
  intros o i a d k key sh ps H. unfold finished. apply in_flat_map.
  exists (i, OFinished a d k key sh ps). split; [exact H|]. cbn. left. reflexivity.
Qed.

Lemma spec01_sound :
  forall cs, spec01 cs = true -> covered (c_in cs) = true ->
    obs_agreement (c_obs cs) /\ obs_never_marked (honest_ids (c_in cs)) (c_obs cs).
Proof.
  intros cs H Hc. unfold spec01 in H. rewrite Hc in H. cbn [negb] in H.
  apply andb_true_iff in H. destruct H as [Hsame Hmark]. split.
  - intros i j a d k key sh ps a' d' k' key' sh' ps' Hi Hj.
    apply finished_In in Hi. apply finished_In in Hj.
    apply (in_map snd) in Hi. apply (in_map snd) in Hj. cbn [snd] in Hi, Hj.
    assert (Hp : (f_kid (a, d, k, key, sh, ps), f_marked (a, d, k, key, sh, ps))
                 = (f_kid (a', d', k', key', sh', ps'), f_marked (a', d', k', key', sh', ps'))).
    { refine (all_same_pairwise _ _
                (fun a b => N.eqb (f_kid a) (f_kid b) && listN_eqb (f_marked a) (f_marked b))
                (fun x => (f_kid x, f_marked x)) _ _ Hsame _ _ Hi Hj).
      intros x y. rewrite andb_true_iff, N.eqb_eq, listN_eqb_eq. split.
      - intros [E1 E2]. rewrite E1, E2. reflexivity.
      - intros E. inversion E. auto. }
    unfold f_kid, f_marked, f_ia, f_dq in Hp. injection Hp as Hk Hm. split; [exact Hk|].
    intros m. rewrite <- (sort_set_In m (a ++ d)), <- (sort_set_In m (a' ++ d')).
    rewrite Hm. reflexivity.
  - intros i a d k key sh ps m Hi Hm Hh.
    apply finished_In in Hi. apply (in_map snd) in Hi. cbn [snd] in Hi.
    rewrite forallb_forall in Hmark. specialize (Hmark _ Hi).
    rewrite forallb_forall in Hmark.
    assert (Hin : In m (f_marked (a, d, k, key, sh, ps))).
    { unfold f_marked, f_ia, f_dq. apply sort_set_In. exact Hm. }
    specialize (Hmark _ Hin). apply negb_true_iff in Hmark.
    apply memN_In in Hh. congruence.
Qed.

