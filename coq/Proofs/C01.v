(* C01 — lemmas about Model/C01.v (beacon GJKR).  Property statements are in Props/C01.v. *)
From Coq Require Import ZArith NArith List Bool Lia Permutation.
From KV Require Import Common.Verdict Model.C01.
Import ListNotations.
Open Scope N_scope.

(* ================================================================================= *)
(* 1. The property as a Prop, and soundness of its executable form [spec01]          *)
(* ================================================================================= *)

(* on the implementation's observables *)
Definition obs_agreement (o : list (N * obs)) : Prop :=
  forall i j a d k key sh ps a' d' k' key' sh' ps',
    In (i, OFinished a d k key sh ps) o -> In (j, OFinished a' d' k' key' sh' ps') o ->
    k = k' /\ (forall m, In m (a ++ d) <-> In m (a' ++ d')).
Definition obs_never_marked (honest : list N) (o : list (N * obs)) : Prop :=
  forall i a d k key sh ps m,
    In (i, OFinished a d k key sh ps) o -> In m (a ++ d) -> ~ In m honest.

(* on the model's outcomes *)
Definition agreement (r : list (N * outcome)) : Prop :=
  forall i j a d k sh ps a' d' k' sh' ps',
    In (i, Finished a d k sh ps) r -> In (j, Finished a' d' k' sh' ps') r ->
    k = k' /\ (forall m, In m (a ++ d) <-> In m (a' ++ d')).
Definition never_marked (honest : list N) (r : list (N * outcome)) : Prop :=
  forall i a d k sh ps m,
    In (i, Finished a d k sh ps) r -> In m (a ++ d) -> ~ In m honest.

Lemma memN_In : forall x l, memN x l = true <-> In x l.
Proof.
  intros x l. unfold memN. rewrite existsb_exists. split.
  - intros [y [Hy He]]. apply N.eqb_eq in He. subst. exact Hy.
  - intros H. exists x. split; [exact H | apply N.eqb_refl].
Qed.

Lemma insert_sorted_In : forall x y l, In y (insert_sorted x l) <-> y = x \/ In y l.
Proof.
  intros x y l. induction l as [|z r IH]; cbn [insert_sorted].
  - cbn. intuition.
  - destruct (N.ltb x z) eqn:E1.
    + cbn. intuition.
    + destruct (N.eqb x z) eqn:E2.
      * apply N.eqb_eq in E2. subst. cbn. intuition.
      * cbn. rewrite IH. intuition.
Qed.

Lemma sort_set_In : forall y l, In y (sort_set l) <-> In y l.
Proof.
  intros y l. unfold sort_set. induction l as [|x r IH]; cbn [fold_right].
  - reflexivity.
  - rewrite insert_sorted_In, IH. cbn. intuition.
Qed.

Lemma listN_eqb_eq : forall a b, listN_eqb a b = true <-> a = b.
Proof.
  induction a as [|x a IH]; destruct b as [|y b]; cbn [listN_eqb]; try (split; [discriminate|discriminate]).
  - split; reflexivity.
  - rewrite andb_true_iff, N.eqb_eq, IH. split.
    + intros [-> ->]. reflexivity.
    + intros E. inversion E. auto.
Qed.

Lemma all_same_pairwise :
  forall (A B : Type) (eqb : A -> A -> bool) (P : A -> B),
    (forall a b, eqb a b = true <-> P a = P b) ->
    forall l, all_same eqb l = true -> forall x y, In x l -> In y l -> P x = P y.
Proof.
  intros A B eqb P Hspec l.
  assert (Hhd : forall a r, all_same eqb (a :: r) = true -> forall y, In y r -> P a = P y).
  { intros a r. revert a. induction r as [|b r IH]; intros a H y Hy.
    - destruct Hy.
    - cbn [all_same] in H. apply andb_true_iff in H. destruct H as [Hab Hr].
      apply Hspec in Hab. destruct Hy as [<-|Hy]; [exact Hab|].
      rewrite Hab. apply IH; assumption. }
  induction l as [|a r IH]; intros H x y Hx Hy.
  - destruct Hx.
  - assert (Hr : all_same eqb r = true).
    { destruct r as [|b r']; [reflexivity|]. cbn [all_same] in H. apply andb_true_iff in H. apply H. }
    destruct Hx as [<-|Hx]; destruct Hy as [<-|Hy].
    + reflexivity.
    + apply Hhd with (r := r); assumption.
    + symmetry. apply Hhd with (r := r); assumption.
    + apply IH; assumption.
Qed.

Lemma finished_In :
  forall o i a d k key sh ps,
    In (i, OFinished a d k key sh ps) o -> In (i, (a, d, k, key, sh, ps)) (finished o).
Proof.
  intros o i a d k key sh ps H. unfold finished. apply in_flat_map.
  exists (i, OFinished a d k key sh ps). split; [exact H|]. cbn. left. reflexivity.
Qed.

Lemma spec01_sound :
  forall cs, spec01 cs = true -> covered (c_in cs) = true ->
    obs_agreement (c_obs cs) /\ obs_never_marked (honest_ids (c_in cs)) (c_obs cs).
Proof.
  intros cs H Hc. unfold spec01 in H. rewrite Hc in H. cbn [negb] in H.
  apply andb_true_iff in H. destruct H as [Hsame Hmark]. split.
  - intros i j a d k key sh ps a' d' k' key' sh' ps' Hi Hj.
    apply finished_In in Hi. apply finished_In in Hj.
    apply (in_map snd) in Hi. apply (in_map snd) in Hj. cbn [snd] in Hi, Hj.
    assert (Hp : (f_kid (a, d, k, key, sh, ps), f_marked (a, d, k, key, sh, ps))
                 = (f_kid (a', d', k', key', sh', ps'), f_marked (a', d', k', key', sh', ps'))).
    { refine (all_same_pairwise _ _
                (fun a b => N.eqb (f_kid a) (f_kid b) && listN_eqb (f_marked a) (f_marked b))
                (fun x => (f_kid x, f_marked x)) _ _ Hsame _ _ Hi Hj).
      intros x y. rewrite andb_true_iff, N.eqb_eq, listN_eqb_eq. split.
      - intros [E1 E2]. rewrite E1, E2. reflexivity.
      - intros E. inversion E. auto. }
    unfold f_kid, f_marked, f_ia, f_dq in Hp. injection Hp as Hk Hm. split; [exact Hk|].
    intros m. rewrite <- (sort_set_In m (a ++ d)), <- (sort_set_In m (a' ++ d')).
    rewrite Hm. reflexivity.
  - intros i a d k key sh ps m Hi Hm Hh.
    apply finished_In in Hi. apply (in_map snd) in Hi. cbn [snd] in Hi.
    rewrite forallb_forall in Hmark. specialize (Hmark _ Hi).
    rewrite forallb_forall in Hmark.
    assert (Hin : In m (f_marked (a, d, k, key, sh, ps))).
    { unfold f_marked, f_ia, f_dq. apply sort_set_In. exact Hm. }
    specialize (Hmark _ Hin). apply negb_true_iff in Hmark.
    apply memN_In in Hh. congruence.
Qed.

(* ================================================================================= *)
(* 2. The faithful model violates agreement: DESIGN section 7, C01-a                 *)
(*    n = 5, t = 2, only member 1 corrupt; it behaves honestly except that it        *)
(*    publishes the points of f + 7 (x-2)(x-3) in phase 7.                           *)
(* ================================================================================= *)

Definition wit_cfg : cfg := {| q := bn254_order; gn := 5; gt := 2; csess := 1; ops := [1; 2; 3; 4; 5] |}.
Definition wit_a : list Z := [3; 1; 4]%Z.
Definition wit_b : list Z := [1; 5; 9]%Z.
Definition wit_script : script :=
  let Q := bn254_order in
  {| adv1 := [wrap wit_cfg (EphPub 1 1 (map (fun j => (j, ek 1 j)) [2; 3; 4; 5]))];
     adv3 := [wrap wit_cfg (Shares 1 1 (map (fun j => (j, Enc (ecdh (ek 1 j) (ek j 1)) (eval Q wit_a j) (eval Q wit_b j)))
                                            [2; 3; 4; 5]));
              wrap wit_cfg (Commits 1 1 (combine wit_a wit_b))];
     adv4 := [wrap wit_cfg (SAccuse 1 1 [])];
     (* 3 + x + 4x^2 + 7(x-2)(x-3) = 45 - 34x + 11x^2 *)
     adv7 := [wrap wit_cfg (Points 1 1 [45; (-34) mod Q; 11]%Z)];
     adv8 := [wrap wit_cfg (PAccuse 1 1 [])];
     adv10 := [wrap wit_cfg (Reveal 1 1 [])];
     order := [] |}.
Definition wit_input : input :=
  {| i_cfg := wit_cfg;
     i_honest := [ {| h_id := 2; h_coefA := [11; 12; 13]%Z; h_coefB := [21; 22; 23]%Z |};
                   {| h_id := 3; h_coefA := [31; 32; 33]%Z; h_coefB := [41; 42; 43]%Z |};
                   {| h_id := 4; h_coefA := [51; 52; 53]%Z; h_coefB := [61; 62; 63]%Z |};
                   {| h_id := 5; h_coefA := [71; 72; 73]%Z; h_coefB := [81; 82; 83]%Z |} ];
     i_script := wit_script |}.

(* the two groups of honest members end with different keys, and 4, 5 disqualify 2, 3 *)
Lemma wit_keys :
  exists a2 d2 k2 s2 p2 a4 d4 k4 s4 p4,
    In (2, Finished a2 d2 k2 s2 p2) (run wit_input) /\
    In (4, Finished a4 d4 k4 s4 p4) (run wit_input) /\
    k2 <> k4 /\ In 2 (a4 ++ d4) /\ In 3 (a4 ++ d4).
Proof.
  remember (run wit_input) as r eqn:E. vm_compute in E. subst r.
  do 10 eexists. split; [left; reflexivity|]. split; [right; right; left; reflexivity|].
  split; [discriminate|]. split; cbn; auto.
Qed.

Lemma agreement_refuted :
  exists i : input,
    well_formed {| c_in := i; c_obs := map (fun h => (h_id h, OFailed)) (i_honest i) |} = true /\
    corrupt_count i = 1 /\ covered i = true /\
    ~ agreement (run i) /\ ~ never_marked (honest_ids i) (run i).
Proof.
  exists wit_input. split; [vm_compute; reflexivity|]. split; [reflexivity|]. split; [reflexivity|].
  destruct wit_keys as (a2 & d2 & k2 & s2 & p2 & a4 & d4 & k4 & s4 & p4 & H2 & H4 & Hk & Hm2 & Hm3).
  split.
  - intros Hag. destruct (Hag _ _ _ _ _ _ _ _ _ _ _ _ H2 H4) as [E _]. exact (Hk E).
  - intros Hnm. apply (Hnm _ _ _ _ _ _ 2 H4 Hm2). cbn. auto.
Qed.
