(* C03 — the model of big.Int.ModInverse (extended Euclid on fuel) is correct and complete. *)
From Coq Require Import ZArith Znumtheory List Bool Lia.
From KV Require Import Model.C03.
Open Scope Z_scope.

Lemma div_eucl_eq a b : Z.div_eucl a b = (a / b, a mod b).
Proof. unfold Z.div, Z.modulo. destruct (Z.div_eucl a b); reflexivity. Qed.

(* invariant: the result is the gcd and a multiple of g modulo m *)
Lemma egcdn_spec (g m : Z) : forall n a b u v,
  0 <= a -> 0 <= b ->
  (a - u * g) mod m = 0 -> (b - v * g) mod m = 0 ->
  forall d x, egcdn n a b u v = Some (d, x) ->
  d = Z.gcd a b /\ (d - x * g) mod m = 0.
Proof.
  induction n as [|n IH]; intros a b u v Ha Hb Hu Hv d x E; cbn [egcdn] in E; [discriminate|].
  destruct a as [|pa|pa]; [| |discriminate].
  - injection E as <- <-. rewrite Z.abs_eq by assumption. split; [|assumption].
    symmetry. apply Z.gcd_0_l_nonneg. assumption.
  - rewrite div_eucl_eq in E.
    assert (Hpos : 0 < Z.pos pa) by lia.
    pose proof (Z.mod_pos_bound b (Z.pos pa) Hpos) as Hb'.
    apply IH in E; try lia.
    + destruct E as [E1 E2]. split; [|assumption].
      rewrite E1. apply Z.gcd_mod. lia.
    + (* b mod a - (v - q u) g = (b - v g) - q (a - u g) *)
      rewrite (Z.mod_eq b (Z.pos pa)) by lia.
      replace (b - Z.pos pa * (b / Z.pos pa) - (v - b / Z.pos pa * u) * g)
        with ((b - v * g) + (- (b / Z.pos pa)) * (Z.pos pa - u * g)) by ring.
      rewrite Zplus_mod, Hv, Zmult_mod, Hu, Z.mul_0_r. reflexivity.
Qed.

(* the remainder at least halves every two steps *)
Lemma egcdn_fuel : forall k n a b u v,
  0 <= a < 2 ^ Z.of_nat k -> 0 <= b -> (2 * k + 1 <= n)%nat ->
  egcdn n a b u v <> None.
Proof.
  induction k as [|k IH]; intros n a b u v Ha Hb Hn.
  - assert (a = 0) by (cbn in Ha; lia). subst a.
    destruct n; [lia|]. cbn. discriminate.
  - destruct n as [|n]; [lia|]. cbn [egcdn].
    destruct a as [|pa|pa]; [discriminate| |lia].
    rewrite div_eucl_eq.
    assert (Hpos : 0 < Z.pos pa) by lia.
    pose proof (Z.mod_pos_bound b (Z.pos pa) Hpos) as H1.
    set (a1 := b mod Z.pos pa) in *.
    destruct n as [|n]; [lia|]. cbn [egcdn].
    destruct a1 as [|p1|p1] eqn:Ea1; [discriminate| |lia].
    rewrite div_eucl_eq.
    assert (Hpos1 : 0 < Z.pos p1) by lia.
    pose proof (Z.mod_pos_bound (Z.pos pa) (Z.pos p1) Hpos1) as H2.
    apply IH; try lia.
    split; [lia|].
    pose proof (Z.div_mod (Z.pos pa) (Z.pos p1) ltac:(lia)) as Hd.
    assert (1 <= Z.pos pa / Z.pos p1) by (apply Z.div_le_lower_bound; lia).
    rewrite Nat2Z.inj_succ, Z.pow_succ_r in Ha by lia.
    nia.
Qed.

Lemma inv_fuel_enough a : 0 <= a ->
  exists k, 0 <= a < 2 ^ Z.of_nat k /\ (2 * k + 1 <= inv_fuel a)%nat.
Proof.
  intros Ha. exists (Z.to_nat (Z.log2 a + 1)).
  pose proof (Z.log2_nonneg a).
  rewrite Z2Nat.id by lia. unfold inv_fuel. split; [|lia].
  destruct (Z.eq_dec a 0) as [->|Hn]; [cbn; lia|].
  pose proof (Z.log2_spec a ltac:(lia)). unfold Z.succ in *. lia.
Qed.

(* soundness: a returned value is the inverse, reduced *)
Lemma mod_inverse_sound g m inv : 0 < m ->
  mod_inverse g m = Some inv -> (g * inv) mod m = 1 mod m /\ 0 <= inv < m.
Proof.
  intros Hm. unfold mod_inverse.
  destruct (egcdn _ _ _ _ _) as [[d x]|] eqn:E; [|discriminate].
  destruct (Z.eqb_spec d 1) as [->|]; [|discriminate].
  intros [= <-].
  pose proof (Z.mod_pos_bound g m Hm).
  apply (egcdn_spec g m) in E; try lia.
  - destruct E as [_ E]. split; [|apply Z.mod_pos_bound; assumption].
    rewrite Zmult_mod_idemp_r.
    replace (g * x) with (1 - (1 - x * g)) by ring.
    rewrite Zminus_mod, E, Z.sub_0_r, Z.mod_mod by lia. reflexivity.
  - replace (g mod m - 1 * g) with (- (g - g mod m)) by ring.
    rewrite Z.mod_opp_l_z; try lia. rewrite Zminus_mod_idemp_r, Z.sub_diag. apply Z.mod_0_l. lia.
  - rewrite Z.mul_0_l, Z.sub_0_r. apply Z.mod_same. lia.
Qed.

(* completeness: modulo a prime every non-zero residue has an inverse *)
Lemma mod_inverse_complete g r : prime r -> g mod r <> 0 ->
  exists inv, mod_inverse g r = Some inv.
Proof.
  intros Hp Hg. pose proof (prime_ge_2 r Hp) as Hr.
  unfold mod_inverse.
  pose proof (Z.mod_pos_bound g r ltac:(lia)) as Hb.
  destruct (inv_fuel_enough (g mod r) ltac:(lia)) as [k [Hk1 Hk2]].
  destruct (egcdn (inv_fuel (g mod r)) (g mod r) r 1 0) as [[d x]|] eqn:E.
  - apply (egcdn_spec g r) in E; try lia.
    + destruct E as [E _].
      assert (d = 1).
      { rewrite E. apply Zgcd_1_rel_prime. apply rel_prime_sym.
        apply prime_rel_prime; [assumption|].
        intros Hd. apply Hg. apply Z.mod_divide in Hd; [|lia]. rewrite Z.mod_mod in Hd; lia. }
      subst d. rewrite H, Z.eqb_refl. eexists. reflexivity.
    + replace (g mod r - 1 * g) with (- (g - g mod r)) by ring.
      rewrite Z.mod_opp_l_z; try lia. rewrite Zminus_mod_idemp_r, Z.sub_diag. apply Z.mod_0_l. lia.
    + rewrite Z.mul_0_l, Z.sub_0_r. apply Z.mod_same. lia.
  - exfalso. eapply egcdn_fuel; [exact Hk1| |exact Hk2|exact E]. lia.
Qed.
