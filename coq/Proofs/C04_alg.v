(* C04 — algebra behind the encoding theorems, over plain Z and the model's own mul2:
   powers in a commutative "monoid up to normal form", Lagrange's theorem for a finite
   cancellative one (product-of-all-elements argument), Fermat's little theorem modulo a prime,
   square roots for p = 3 mod 4, -1 is a non-residue, F_p[i] has no zero divisors, Fermat in
   F_p[i], a^2 = b^2 -> a = +-b.  Everything follows from [prime p] (Znumtheory). *)
From Coq Require Import ZArith Znumtheory Zpow_facts List Bool Lia Permutation FinFun Setoid Morphisms.
From KV Require Import Model.C04.
Import ListNotations.
Open Scope Z_scope.

(* ------------------------------------------------------------------ *)
Section Monoid.
  Context {T : Type}.
  Variable mul : T -> T -> T.
  Hypothesis mulA : forall a b c, mul a (mul b c) = mul (mul a b) c.
  Hypothesis mulC : forall a b, mul a b = mul b a.

  Definition pw (a : T) (n : positive) : T := Pos.iter_op mul n a.

  Lemma pw_1 a : pw a 1 = a.
  Proof. reflexivity. Qed.
  Lemma pw_succ a n : pw a (Pos.succ n) = mul a (pw a n).
  Proof. apply Pos.iter_op_succ. exact mulA. Qed.
  Lemma pw_add a m n : pw a (m + n) = mul (pw a m) (pw a n).
  Proof.
    induction m as [|m IH] using Pos.peano_ind.
    - rewrite Pos.add_1_l, pw_succ. reflexivity.
    - rewrite Pos.add_succ_l, !pw_succ, IH, mulA. reflexivity.
  Qed.
  Lemma pw_xO a n : pw a n~0 = pw (mul a a) n.
  Proof. reflexivity. Qed.
  Lemma pw_xI a n : pw a n~1 = mul a (pw (mul a a) n).
  Proof. reflexivity. Qed.
  Lemma mul4 a b c d : mul (mul a b) (mul c d) = mul (mul a c) (mul b d).
  Proof. rewrite <- !mulA. f_equal. rewrite !mulA. f_equal. apply mulC. Qed.
  Lemma pw_mulb a b n : pw (mul a b) n = mul (pw a n) (pw b n).
  Proof.
    induction n as [|n IH] using Pos.peano_ind; [reflexivity|].
    rewrite !pw_succ, IH. apply mul4.
  Qed.
  Lemma pw_pw a m n : pw (pw a m) n = pw a (m * n).
  Proof.
    induction n as [|n IH] using Pos.peano_ind.
    - rewrite Pos.mul_1_r. reflexivity.
    - rewrite pw_succ, IH, Pos.mul_succ_r, pw_add. reflexivity.
  Qed.

  Variable one : T.
  Definition lprod (l : list T) : T := fold_right mul one l.

  Lemma lprod_perm l l' : Permutation l l' -> lprod l = lprod l'.
  Proof.
    induction 1 as [|x l l' _ IH|x y l|l l' l'' _ IH1 _ IH2]; cbn.
    - reflexivity.
    - f_equal. exact IH.
    - rewrite !mulA, (mulC y x). reflexivity.
    - congruence.
  Qed.

  Lemma lprod_map w l : l <> [] ->
    lprod (map (mul w) l) = mul (pw w (Pos.of_nat (length l))) (lprod l).
  Proof.
    induction l as [|a l IH]; [congruence|]. intros _.
    destruct l as [|b l].
    - cbn. rewrite mulA. reflexivity.
    - specialize (IH ltac:(discriminate)).
      change (lprod (map (mul w) (a :: b :: l)))
        with (mul (mul w a) (lprod (map (mul w) (b :: l)))).
      change (lprod (a :: b :: l)) with (mul a (lprod (b :: l))).
      change (Pos.of_nat (length (a :: b :: l))) with (Pos.succ (Pos.of_nat (length (b :: l)))).
      rewrite IH, pw_succ. apply mul4.
  Qed.

  Lemma nodup_map_on (f : T -> T) l : NoDup l ->
    (forall a b, In a l -> In b l -> f a = f b -> a = b) -> NoDup (map f l).
  Proof.
    induction 1 as [|a l Ha Hl IH]; intros Hinj; cbn; constructor.
    - intros Hin. apply in_map_iff in Hin. destruct Hin as [b [Hb1 Hb2]].
      apply Ha. rewrite (Hinj a b); auto; [left; reflexivity | right; assumption].
    - apply IH. intros x y Hx Hy. apply Hinj; right; assumption.
  Qed.

  (* Lagrange for a finite commutative cancellative monoid given as a duplicate-free list *)
  Variable G : list T.
  Hypothesis G_nodup : NoDup G.
  Hypothesis G_closed : forall a b, In a G -> In b G -> In (mul a b) G.
  Hypothesis G_cancel : forall w a b, In w G -> In a G -> In b G -> mul w a = mul w b -> a = b.
  Hypothesis G_one : In one G.
  Hypothesis one_r : forall a, In a G -> mul a one = a.

  Lemma pw_in a n : In a G -> In (pw a n) G.
  Proof.
    intros Ha. induction n as [|n IH] using Pos.peano_ind; [exact Ha|].
    rewrite pw_succ. apply G_closed; assumption.
  Qed.
  Lemma lprod_in l : incl l G -> In (lprod l) G.
  Proof.
    induction l as [|a l IH]; intros Hi; cbn; [exact G_one|].
    apply G_closed; [apply Hi; left; reflexivity|].
    apply IH. intros x Hx. apply Hi. right. exact Hx.
  Qed.

  Theorem lagrange w : In w G -> pw w (Pos.of_nat (length G)) = one.
  Proof.
    intros Hw.
    assert (HP : Permutation (map (mul w) G) G).
    { apply NoDup_Permutation_bis.
      - apply nodup_map_on; [exact G_nodup|]. intros a b Ha Hb. apply G_cancel; assumption.
      - rewrite map_length. apply le_n.
      - intros x Hx. apply in_map_iff in Hx. destruct Hx as [a [<- Ha]]. apply G_closed; assumption. }
    apply lprod_perm in HP.
    rewrite lprod_map in HP by (intros E; rewrite E in G_one; exact G_one).
    apply (G_cancel (lprod G)).
    - apply lprod_in. apply incl_refl.
    - apply pw_in. exact Hw.
    - exact G_one.
    - rewrite mulC, HP, one_r; [reflexivity|]. apply lprod_in. apply incl_refl.
  Qed.
End Monoid.

Lemma nodup_app {A} (l l' : list A) :
  NoDup l -> NoDup l' -> (forall x, In x l -> ~ In x l') -> NoDup (l ++ l').
Proof.
  induction 1 as [|a l Ha Hl IH]; intros Hl' Hd; cbn; [exact Hl'|].
  constructor.
  - rewrite in_app_iff. intros [H|H]; [exact (Ha H)|]. apply (Hd a); [left; reflexivity|exact H].
  - apply IH; [exact Hl'|]. intros x Hx. apply Hd. right. exact Hx.
Qed.

Lemma nodup_list_prod {A B} (l : list A) (l' : list B) :
  NoDup l -> NoDup l' -> NoDup (list_prod l l').
Proof.
  induction 1 as [|a l Ha Hl IH]; intros Hl'; cbn; [constructor|].
  apply nodup_app.
  - apply Injective_map_NoDup; [|exact Hl']. intros x y E. injection E. auto.
  - apply IH. exact Hl'.
  - intros [x y] Hx Hin. apply in_map_iff in Hx. destruct Hx as [b [E _]]. injection E as <- <-.
    apply in_prod_iff in Hin. apply Ha. apply Hin.
Qed.

Lemma Zpos_of_nat_to_nat z : 0 < z -> Z.pos (Pos.of_nat (Z.to_nat z)) = z.
Proof.
  intros Hz. rewrite <- positive_nat_Z, Nat2Pos.id by lia. rewrite Z2Nat.id; lia.
Qed.
Lemma Pos_of_nat_to_nat z : 0 < z -> Pos.of_nat (Z.to_nat z) = Z.to_pos z.
Proof.
  intros Hz. pose proof (Zpos_of_nat_to_nat z Hz) as E.
  destruct z as [|q|q]; [lia| |lia]. injection E as E. exact E.
Qed.

(* the residues 0 .. n-1 *)
Definition zrange (n : Z) : list Z := map Z.of_nat (seq 0 (Z.to_nat n)).
Lemma in_zrange n a : 0 <= n -> (In a (zrange n) <-> 0 <= a < n).
Proof.
  intros Hn. unfold zrange. rewrite in_map_iff. split.
  - intros [k [<- Hk]]. apply in_seq in Hk. lia.
  - intros Ha. exists (Z.to_nat a). split; [apply Z2Nat.id; lia|]. apply in_seq. lia.
Qed.
Lemma zrange_nodup n : NoDup (zrange n).
Proof. apply Injective_map_NoDup; [|apply seq_NoDup]. intros x y. apply Nat2Z.inj. Qed.
Lemma zrange_length n : length (zrange n) = Z.to_nat n.
Proof. unfold zrange. rewrite map_length, seq_length. reflexivity. Qed.

(* removing one element of a duplicate-free list *)
Lemma nodup_remove_one {A} (L : list A) (z : A) : NoDup L -> In z L ->
  exists G, NoDup G /\ (forall x, In x G <-> In x L /\ x <> z) /\ length L = S (length G).
Proof.
  intros HL Hz. destruct (in_split _ _ Hz) as [l1 [l2 ->]].
  exists (l1 ++ l2). apply NoDup_remove in HL. destruct HL as [H1 H2].
  split; [exact H1|]. split.
  - intros x. split.
    + intros Hx. split; [|intros ->; exact (H2 Hx)].
      apply in_app_iff in Hx. apply in_app_iff. destruct Hx; [left|right; right]; assumption.
    + intros [Hx Hn]. apply in_elt_inv in Hx. destruct Hx as [E|Hx]; [congruence|exact Hx].
  - rewrite !app_length. cbn. lia.
Qed.

(* ------------------------------------------------------------------ *)
(* congruence modulo p as a setoid (kept opaque so that rewriting goes through the morphisms) *)
Section Cong.
  Variable p : Z.
  Definition cg (a b : Z) : Prop := a mod p = b mod p.
  Global Instance cg_equiv : Equivalence cg.
  Proof. split; unfold cg; congruence. Qed.
  Global Instance cg_add : Proper (cg ==> cg ==> cg) Z.add.
  Proof. unfold cg. intros a b H c d H'. rewrite Zplus_mod, H, H', <- Zplus_mod. reflexivity. Qed.
  Global Instance cg_sub : Proper (cg ==> cg ==> cg) Z.sub.
  Proof. unfold cg. intros a b H c d H'. rewrite Zminus_mod, H, H', <- Zminus_mod. reflexivity. Qed.
  Global Instance cg_mul : Proper (cg ==> cg ==> cg) Z.mul.
  Proof. unfold cg. intros a b H c d H'. rewrite Zmult_mod, H, H', <- Zmult_mod. reflexivity. Qed.
  Global Instance cg_opp : Proper (cg ==> cg) Z.opp.
  Proof. intros a b H. change (cg (0 - a) (0 - b)). rewrite H. reflexivity. Qed.
  Lemma cg_mod a : cg (a mod p) a.
  Proof. unfold cg. apply Zmod_mod. Qed.
  Lemma cg_ring a b : a = b -> cg a b.
  Proof. intros ->. reflexivity. Qed.
  Lemma cg_I a b : a mod p = b mod p -> cg a b.
  Proof. exact (fun H => H). Qed.
  Lemma cg_E a b : cg a b -> a mod p = b mod p.
  Proof. exact (fun H => H). Qed.
  Lemma pair_cg (a b c d : Z) : cg a c -> cg b d -> (a mod p, b mod p) = (c mod p, d mod p).
  Proof. unfold cg. intros -> ->. reflexivity. Qed.
End Cong.
Global Opaque cg.

(* ------------------------------------------------------------------ *)
Section Fp.
  Variable p : Z.
  Hypothesis Hp : prime p.

  Let p_ge_2 : 2 <= p := prime_ge_2 p Hp.


  Definition mulm (a b : Z) : Z := (a * b) mod p.
  Lemma mulmA a b c : mulm a (mulm b c) = mulm (mulm a b) c.
  Proof. unfold mulm. rewrite Zmult_mod_idemp_r, Zmult_mod_idemp_l. f_equal. ring. Qed.
  Lemma mulmC a b : mulm a b = mulm b a.
  Proof. unfold mulm. f_equal. ring. Qed.

  Lemma pwm_spec a n : (pw mulm a n) mod p = (a ^ Z.pos n) mod p.
  Proof.
    induction n as [|n IH] using Pos.peano_ind.
    - rewrite Z.pow_1_r. reflexivity.
    - rewrite (pw_succ mulm mulmA). unfold mulm at 1.
      rewrite Z.mod_mod by lia. rewrite <- Zmult_mod_idemp_r, IH, Zmult_mod_idemp_r.
      rewrite Pos2Z.inj_succ, Z.pow_succ_r by lia. reflexivity.
  Qed.

  Lemma nz_mul a b : a mod p <> 0 -> b mod p <> 0 -> (a * b) mod p <> 0.
  Proof.
    intros Ha Hb E. apply Z.mod_divide in E; [|lia].
    apply prime_mult in E; [|exact Hp].
    destruct E as [E|E]; apply Z.mod_divide in E; lia.
  Qed.
  Lemma mod_mul_zero a b : (a * b) mod p = 0 -> a mod p = 0 \/ b mod p = 0.
  Proof.
    intros E. destruct (Z.eq_dec (a mod p) 0) as [|Ha]; [left; assumption|].
    destruct (Z.eq_dec (b mod p) 0) as [|Hb]; [right; assumption|].
    exfalso. exact (nz_mul a b Ha Hb E).
  Qed.

  Definition units : list Z := map Z.of_nat (seq 1 (Z.to_nat (p - 1))).
  Lemma in_units a : In a units <-> 1 <= a < p.
  Proof.
    unfold units. rewrite in_map_iff. split.
    - intros [k [<- Hk]]. apply in_seq in Hk. lia.
    - intros Ha. exists (Z.to_nat a). split; [apply Z2Nat.id; lia|]. apply in_seq. lia.
  Qed.

  Theorem fermat_units a : 1 <= a < p -> (a ^ (p - 1)) mod p = 1.
  Proof.
    intros Ha.
    assert (L : pw mulm a (Pos.of_nat (length units)) = 1).
    { apply (lagrange mulm mulmA mulmC 1 units).
      - apply Injective_map_NoDup; [|apply seq_NoDup]. intros x y. apply Nat2Z.inj.
      - intros x y Hx Hy. apply in_units in Hx, Hy. apply in_units.
        pose proof (Z.mod_pos_bound (x * y) p ltac:(lia)).
        assert ((x * y) mod p <> 0); [|unfold mulm; lia].
        apply nz_mul; rewrite Z.mod_small; lia.
      - intros w x y Hw Hx Hy E. apply in_units in Hw, Hx, Hy. unfold mulm in E.
        assert (D : (w * (x - y)) mod p = 0).
        { replace (w * (x - y)) with (w * x - w * y) by ring.
          rewrite Zminus_mod, E, Z.sub_diag. apply Z.mod_0_l. lia. }
        apply mod_mul_zero in D. destruct D as [D|D].
        + rewrite Z.mod_small in D; lia.
        + apply Z.mod_divide in D; [|lia]. destruct D as [k D].
          assert (k = 0) by nia. lia.
      - apply in_units. lia.
      - intros x Hx. apply in_units in Hx. unfold mulm. rewrite Z.mul_1_r. apply Z.mod_small. lia.
      - apply in_units. exact Ha. }
    apply (f_equal (fun z => z mod p)) in L. rewrite pwm_spec in L.
    unfold units in L. rewrite map_length, seq_length, Zpos_of_nat_to_nat in L by lia.
    rewrite L. apply Z.mod_small. lia.
  Qed.

  Theorem fermat a : a mod p <> 0 -> (a ^ (p - 1)) mod p = 1.
  Proof.
    intros Ha. rewrite Zpower_mod by lia. apply fermat_units.
    pose proof (Z.mod_pos_bound a p ltac:(lia)). lia.
  Qed.

  Lemma inverse_exists b : b mod p <> 0 -> exists i, (b * i) mod p = 1.
  Proof.
    intros Hb. exists (b ^ (p - 2)).
    replace (b * b ^ (p - 2)) with (b ^ (p - 1)); [apply fermat; exact Hb|].
    replace (p - 1) with (Z.succ (p - 2)) by lia. rewrite Z.pow_succ_r by lia. reflexivity.
  Qed.

  Hypothesis Hp4 : p mod 4 = 3.

  (* c^((p+1)/4) is a square root of every square c *)
  Theorem sqrt_3mod4 y :
    let c := (y * y) mod p in
    let s := (c ^ ((p + 1) / 4)) mod p in
    (s * s) mod p = c.
  Proof.
    intros c s. subst s.
    set (k := p / 4).
    assert (Hk : p = 4 * k + 3) by (pose proof (Z.div_mod p 4 ltac:(lia)); subst k; lia).
    assert (He : (p + 1) / 4 = k + 1).
    { rewrite Hk. replace (4 * k + 3 + 1) with ((k + 1) * 4) by ring. apply Z.div_mul. lia. }
    assert (Hk0 : 0 <= k) by lia.
    rewrite He.
    rewrite <- Zmult_mod, <- Z.pow_add_r by lia.
    subst c. rewrite <- Zpower_mod by lia.
    rewrite <- Z.pow_2_r, <- Z.pow_mul_r by lia.
    destruct (Z.eq_dec (y mod p) 0) as [Hy|Hy].
    - rewrite Zpower_mod, Hy by lia. rewrite (Zpower_mod y 2), Hy by lia.
      rewrite !Z.pow_0_l by lia. reflexivity.
    - replace (2 * (k + 1 + (k + 1))) with ((p - 1) + 2) by lia.
      rewrite Z.pow_add_r by lia.
      rewrite Zmult_mod, (fermat y Hy), Z.mul_1_l, Z.mod_mod by lia. reflexivity.
  Qed.

  (* -1 is not a square *)
  Theorem neg1_nonresidue a : (a * a + 1) mod p <> 0.
  Proof.
    intros E.
    set (k := p / 4).
    assert (Hk : p = 4 * k + 3) by (pose proof (Z.div_mod p 4 ltac:(lia)); subst k; lia).
    assert (Hk0 : 0 <= k) by lia.
    assert (Ha : a mod p <> 0).
    { intros Ha. assert (E1 : (a * a + 1) mod p = 1); [|lia].
      rewrite Zplus_mod, Zmult_mod, Ha, Z.mul_0_l, Z.mod_0_l, Z.add_0_l, Z.mod_mod, Z.mod_small by lia.
      reflexivity. }
    assert (E2 : (a * a) mod p = (-1) mod p).
    { replace (a * a) with ((a * a + 1) + -1) by ring. rewrite Zplus_mod, E, Z.add_0_l, Z.mod_mod; lia. }
    pose proof (fermat a Ha) as F.
    replace (p - 1) with (2 * (2 * k + 1)) in F by lia.
    rewrite Z.pow_mul_r, Z.pow_2_r, Zpower_mod, E2, <- Zpower_mod in F by lia.
    assert (Hm : (-1) ^ (2 * k + 1) = -1).
    { change (-1) with (Z.opp 1). rewrite Z.pow_opp_odd by (exists k; lia).
      rewrite Z.pow_1_l by lia. reflexivity. }
    rewrite Hm in F.
    assert (Hm1 : (-1) mod p = p - 1) by (symmetry; apply Z.mod_unique with (-1); lia).
    lia.
  Qed.

  (* a^2 + b^2 = 0 only for a = b = 0 *)
  Theorem sum_squares_zero a b : (a * a + b * b) mod p = 0 -> a mod p = 0 /\ b mod p = 0.
  Proof.
    intros E.
    assert (Hb : b mod p = 0).
    { destruct (Z.eq_dec (b mod p) 0) as [|Hb]; [assumption|exfalso].
      destruct (inverse_exists b Hb) as [i Hi].
      apply (neg1_nonresidue (a * i)).
      assert (E1 : (b * i * (b * i)) mod p = 1) by (rewrite Zmult_mod, Hi, Z.mul_1_l, Z.mod_small; lia).
      assert (T : (a * i * (a * i) + 1) mod p = (a * i * (a * i) + b * i * (b * i)) mod p).
      { rewrite (Zplus_mod _ (b * i * (b * i))), E1, (Zplus_mod _ 1), (Z.mod_small 1 p) by lia.
        reflexivity. }
      rewrite T.
      replace (a * i * (a * i) + b * i * (b * i)) with ((a * a + b * b) * (i * i)) by ring.
      rewrite Zmult_mod, E, Z.mul_0_l, Z.mod_0_l; lia. }
    split; [|exact Hb].
    assert (Ea : (a * a) mod p = 0).
    { rewrite Zplus_mod, (Zmult_mod b b), Hb, Z.mul_0_l, Z.mod_0_l, Z.add_0_r, Z.mod_mod in E by lia.
      exact E. }
    apply mod_mul_zero in Ea. tauto.
  Qed.

  (* two square roots of the same residue *)
  Lemma sqr_eq_mod a b : (a * a) mod p = (b * b) mod p ->
    a mod p = b mod p \/ a mod p = (- b) mod p.
  Proof.
    intros E.
    assert (D : ((a - b) * (a + b)) mod p = 0).
    { replace ((a - b) * (a + b)) with (a * a - b * b) by ring.
      rewrite Zminus_mod, E, Z.sub_diag. apply Z.mod_0_l. lia. }
    apply mod_mul_zero in D. destruct D as [D|D]; [left|right].
    - replace a with ((a - b) + b) by ring. rewrite Zplus_mod, D, Z.add_0_l, Z.mod_mod; lia.
    - replace a with ((a + b) + - b) by ring. rewrite Zplus_mod, D, Z.add_0_l, Z.mod_mod; lia.
  Qed.

  (* ---------------- F_p[i] on the model's pairs ---------------- *)
  Notation m2 := (mul2 p).
  Definition ok2 (z : gfp2) : Prop := 0 <= fst z < p /\ 0 <= snd z < p.
  Definition neg2 (z : gfp2) : gfp2 := ((- fst z) mod p, (- snd z) mod p).
  Definition one2 : gfp2 := (1, 0).
  Definition zero2 : gfp2 := (0, 0).

  Lemma mul2_eq a b :
    m2 a b = ((fst a * fst b - snd a * snd b) mod p, (fst a * snd b + snd a * fst b) mod p).
  Proof. unfold mul2. rewrite <- Zminus_mod, <- Zplus_mod. reflexivity. Qed.


  Lemma mul2A a b c : m2 a (m2 b c) = m2 (m2 a b) c.
  Proof.
    rewrite (mul2_eq b c), (mul2_eq a b), !mul2_eq. cbn [fst snd].
    apply (pair_cg p); rewrite !(cg_mod p); apply cg_ring; ring.
  Qed.
  Lemma mul2C a b : m2 a b = m2 b a.
  Proof. rewrite !mul2_eq. f_equal; f_equal; ring. Qed.
  Lemma mul2_ok a b : ok2 (m2 a b).
  Proof. rewrite mul2_eq. split; cbn [fst snd]; apply Z.mod_pos_bound; lia. Qed.
  Lemma mul2_1_r a : ok2 a -> m2 a one2 = a.
  Proof.
    intros [H1 H2]. rewrite mul2_eq. destruct a as [x y]. cbn [fst snd one2] in *.
    f_equal; [replace (x * 1 - y * 0) with x by ring|replace (x * 0 + y * 1) with y by ring];
      apply Z.mod_small; assumption.
  Qed.
  Lemma neg2_ok a : ok2 (neg2 a).
  Proof. split; cbn [fst snd neg2]; apply Z.mod_pos_bound; lia. Qed.
  Lemma neg2_neg2 a : ok2 a -> neg2 (neg2 a) = a.
  Proof.
    intros [H1 H2]. destruct a as [x y]. unfold neg2. cbn [fst snd] in *.
    f_equal.
    - rewrite <- (Z.mod_small x p) at 2 by assumption.
      apply cg_E. rewrite (cg_mod p). apply cg_ring. ring.
    - rewrite <- (Z.mod_small y p) at 2 by assumption.
      apply cg_E. rewrite (cg_mod p). apply cg_ring. ring.
  Qed.

  Definition nrm (z : gfp2) : Z := fst z * fst z + snd z * snd z.
  Lemma nrm_mul a b : cg p (nrm (m2 a b)) (nrm a * nrm b).
  Proof.
    rewrite mul2_eq. unfold nrm. cbn [fst snd]. rewrite !(cg_mod p). apply cg_ring. ring.
  Qed.
  Lemma nrm_zero a : ok2 a -> (nrm a) mod p = 0 -> a = zero2.
  Proof.
    intros [H1 H2] E. apply sum_squares_zero in E. destruct E as [E1 E2].
    rewrite Z.mod_small in E1, E2 by assumption. destruct a; cbn [fst snd] in *. subst. reflexivity.
  Qed.

  Theorem mul2_zero a b : ok2 a -> ok2 b -> m2 a b = zero2 -> a = zero2 \/ b = zero2.
  Proof.
    intros Ha Hb E. pose proof (nrm_mul a b) as N. rewrite E in N. apply cg_E in N.
    change (nrm zero2) with 0 in N. rewrite Z.mod_0_l in N by lia. symmetry in N.
    apply mod_mul_zero in N. destruct N as [N|N]; [left|right]; apply nrm_zero; assumption.
  Qed.

  Definition sub2 (a b : gfp2) : gfp2 := ((fst a - fst b) mod p, (snd a - snd b) mod p).
  Lemma sub2_zero a b : ok2 a -> ok2 b -> sub2 a b = zero2 -> a = b.
  Proof.
    intros [A1 A2] [B1 B2] E. unfold sub2, zero2 in E. injection E as E1 E2.
    destruct a as [a1 a2], b as [b1 b2]. cbn [fst snd] in *.
    apply Z.mod_divide in E1, E2; try lia. destruct E1 as [k1 E1], E2 as [k2 E2].
    assert (k1 = 0) by nia. assert (k2 = 0) by nia. f_equal; lia.
  Qed.

  Lemma mul2_cancel w a b : ok2 w -> ok2 a -> ok2 b -> w <> zero2 -> m2 w a = m2 w b -> a = b.
  Proof.
    intros Hw Ha Hb Hnz E.
    assert (D : m2 w (sub2 a b) = zero2).
    { rewrite !mul2_eq in E. injection E as E1 E2.
      rewrite mul2_eq. unfold sub2, zero2. cbn [fst snd].
      rewrite <- (Z.mod_0_l p) by lia.
      apply (pair_cg p); rewrite !(cg_mod p); apply cg_I.
      - replace (fst w * (fst a - fst b) - snd w * (snd a - snd b))
          with ((fst w * fst a - snd w * snd a) - (fst w * fst b - snd w * snd b)) by ring.
        rewrite Zminus_mod, E1, Z.sub_diag. reflexivity.
      - replace (fst w * (snd a - snd b) + snd w * (fst a - fst b))
          with ((fst w * snd a + snd w * fst a) - (fst w * snd b + snd w * fst b)) by ring.
        rewrite Zminus_mod, E2, Z.sub_diag. reflexivity. }
    apply mul2_zero in D; [|exact Hw|split; cbn [fst snd sub2]; apply Z.mod_pos_bound; lia].
    destruct D as [D|D]; [contradiction|]. apply sub2_zero; assumption.
  Qed.

  Theorem sqr2_eq a b : ok2 a -> ok2 b -> m2 a a = m2 b b -> a = b \/ a = neg2 b.
  Proof.
    intros Ha Hb E.
    assert (Hs : ok2 (sub2 a b)) by (split; cbn [fst snd sub2]; apply Z.mod_pos_bound; lia).
    assert (Hn : ok2 (sub2 a (neg2 b))) by (split; cbn [fst snd sub2]; apply Z.mod_pos_bound; lia).
    assert (D : m2 (sub2 a b) (sub2 a (neg2 b)) = zero2).
    { rewrite !mul2_eq in E. injection E as E1 E2.
      rewrite mul2_eq. unfold sub2, neg2, zero2. cbn [fst snd].
      rewrite <- (Z.mod_0_l p) by lia.
      apply (pair_cg p); rewrite !(cg_mod p); apply cg_I.
      - replace ((fst a - fst b) * (fst a - - fst b) - (snd a - snd b) * (snd a - - snd b))
          with ((fst a * fst a - snd a * snd a) - (fst b * fst b - snd b * snd b)) by ring.
        rewrite Zminus_mod, E1, Z.sub_diag. reflexivity.
      - replace ((fst a - fst b) * (snd a - - snd b) + (snd a - snd b) * (fst a - - fst b))
          with ((fst a * snd a + snd a * fst a) - (fst b * snd b + snd b * fst b)) by ring.
        rewrite Zminus_mod, E2, Z.sub_diag. reflexivity. }
    apply mul2_zero in D; [|exact Hs|exact Hn].
    destruct D as [D|D]; [left|right]; apply sub2_zero in D; auto using neg2_ok.
  Qed.

  Theorem fermat2 w : ok2 w -> w <> zero2 -> pw m2 w (Z.to_pos (p * p - 1)) = one2.
  Proof.
    intros Hw Hnz.
    set (L := list_prod (zrange p) (zrange p)).
    assert (HL : forall z, In z L <-> ok2 z).
    { intros [x y]. unfold L. rewrite in_prod_iff, !in_zrange by lia. reflexivity. }
    destruct (nodup_remove_one L zero2) as [G [G1 [G2 G3]]].
    { apply nodup_list_prod; apply zrange_nodup. }
    { apply HL. split; cbn; lia. }
    assert (HG : forall z, In z G <-> ok2 z /\ z <> zero2).
    { intros z. rewrite G2, HL. reflexivity. }
    assert (Hlen : length G = Z.to_nat (p * p - 1)).
    { unfold L in G3. rewrite prod_length, !zrange_length in G3. nia. }
    rewrite <- Pos_of_nat_to_nat, <- Hlen by nia.
    apply (lagrange m2 mul2A mul2C one2 G).
    - exact G1.
    - intros a b Ha Hb. apply HG in Ha, Hb. apply HG. split; [apply mul2_ok|].
      intros E. apply mul2_zero in E; tauto.
    - intros x a b Hx Ha Hb. apply HG in Hx, Ha, Hb. apply mul2_cancel; tauto.
    - apply HG. split; [split; cbn; lia|discriminate].
    - intros a Ha. apply HG in Ha. apply mul2_1_r. tauto.
    - apply HG. tauto.
  Qed.
End Fp.
