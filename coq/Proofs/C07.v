(* Lemmas for C07 (statements of the property theorems are in Props/C07.v). *)
From Coq Require Import ZArith NArith List Bool Lia Sorted.
From Coq Require Import ZifyBool ZifyNat ZifyN.
From KV Require Import Common.Verdict Model.C07.
Import ListNotations.
Open Scope N_scope.

(* ------------------------------------------------------------------ membership *)
Lemma memN_In x l : memN x l = true <-> In x l.
Proof.
  unfold memN. rewrite existsb_exists. split.
  - intros [y [H1 H2]]. apply N.eqb_eq in H2. subst. exact H1.
  - intros H. exists x. split; [exact H | apply N.eqb_refl].
Qed.
Lemma memN_false x l : memN x l = false <-> ~ In x l.
Proof.
  rewrite <- memN_In. destruct (memN x l).
  - split; [discriminate | intros H; exfalso; apply H; reflexivity].
  - split; [intros _ H; discriminate | reflexivity].
Qed.
Lemma memN_app x a b : memN x (a ++ b) = memN x a || memN x b.
Proof. unfold memN. apply existsb_app. Qed.
Lemma memN_cons x a l : memN x (a :: l) = N.eqb x a || memN x l.
Proof. reflexivity. Qed.

(* ------------------------------------------------------------------ group marking *)
Lemma mark_dq_members g e : g_members (mark_dq g e) = g_members g.
Proof. unfold mark_dq. destruct (is_operating g e); reflexivity. Qed.
Lemma mark_dq_ia g e : g_ia (mark_dq g e) = g_ia g.
Proof. unfold mark_dq. destruct (is_operating g e); reflexivity. Qed.

Lemma is_operating_mark_dq g e m :
  is_operating (mark_dq g e) m = is_operating g m && negb (N.eqb m e).
Proof.
  unfold mark_dq. destruct (is_operating g e) eqn:He.
  - unfold is_operating. cbn [g_members g_ia g_dq]. rewrite memN_app, memN_cons.
    replace (memN m []) with false by reflexivity. rewrite orb_false_r.
    destruct (memN m (g_members g)), (memN m (g_ia g)), (memN m (g_dq g)), (N.eqb m e);
      reflexivity.
  - destruct (N.eqb m e) eqn:E.
    + apply N.eqb_eq in E. subst. rewrite He. reflexivity.
    + rewrite andb_true_r. reflexivity.
Qed.

Lemma fold_mark_dq_members l g : g_members (fold_left mark_dq l g) = g_members g.
Proof. revert g. induction l as [|e l IH]; intros g; cbn [fold_left]; [reflexivity|]. rewrite IH. apply mark_dq_members. Qed.
Lemma fold_mark_dq_ia l g : g_ia (fold_left mark_dq l g) = g_ia g.
Proof. revert g. induction l as [|e l IH]; intros g; cbn [fold_left]; [reflexivity|]. rewrite IH. apply mark_dq_ia. Qed.

Lemma is_operating_fold_mark_dq l g m :
  is_operating (fold_left mark_dq l g) m = is_operating g m && negb (memN m l).
Proof.
  revert g. induction l as [|e l IH]; intros g; cbn [fold_left].
  - cbn. rewrite andb_true_r. reflexivity.
  - rewrite IH, is_operating_mark_dq, memN_cons.
    destruct (is_operating g m), (N.eqb m e), (memN m l); reflexivity.
Qed.

Lemma dq_fold l : forall g m,
  In m (g_dq (fold_left mark_dq l g)) <-> In m (g_dq g) \/ (In m l /\ is_operating g m = true).
Proof.
  induction l as [|e l IH]; intros g m; cbn [fold_left].
  - cbn. tauto.
  - rewrite IH. rewrite is_operating_mark_dq.
    assert (Hdq : In m (g_dq (mark_dq g e)) <-> In m (g_dq g) \/ (m = e /\ is_operating g e = true)).
    { unfold mark_dq. destruct (is_operating g e) eqn:He; cbn [g_dq].
      - rewrite in_app_iff. cbn. intuition.
      - intuition congruence. }
    rewrite Hdq. cbn [In].
    destruct (N.eqb m e) eqn:E.
    + apply N.eqb_eq in E. subst e. rewrite andb_false_r. intuition congruence.
    + apply N.eqb_neq in E. rewrite andb_true_r. intuition congruence.
Qed.

Lemma execute_marking_fold self ex g :
  execute_marking self ex g = fold_left mark_dq (filter (fun e => negb (N.eqb e self)) ex) g.
Proof.
  unfold execute_marking. revert g. induction ex as [|a ex IH]; intros g; cbn [fold_left filter].
  - reflexivity.
  - destruct (N.eqb a self); cbn [negb fold_left]; apply IH.
Qed.
Lemma filter_not_self self ex :
  memN self ex = false -> filter (fun e => negb (N.eqb e self)) ex = ex.
Proof.
  induction ex as [|a ex IH]; cbn [filter]; intros H; [reflexivity|].
  rewrite memN_cons in H. apply orb_false_iff in H. destruct H as [H1 H2].
  rewrite N.eqb_sym, H1. cbn [negb]. rewrite IH by exact H2. reflexivity.
Qed.

(* a member that is not excluded marks exactly the excluded list: its group does not depend on
   which member it is *)
Lemma execute_marking_not_excluded self ex g :
  memN self ex = false -> execute_marking self ex g = fold_left mark_dq ex g.
Proof. intros H. rewrite execute_marking_fold, filter_not_self by exact H. reflexivity. Qed.

(* ------------------------------------------------------------------ the initial group *)
Lemma members_small_gen size : forall s, (s + size <= 255)%nat ->
  map member_of_pos (seq s size) = map N.of_nat (seq (S s) size).
Proof.
  induction size as [|n IH]; intros s H; cbn [seq map]; [reflexivity|].
  f_equal.
  - unfold member_of_pos. rewrite N.mod_small by lia. lia.
  - apply IH. lia.
Qed.
Lemma members_small size : (size <= 255)%nat ->
  g_members (new_group 0 size) = map N.of_nat (seq 1 size).
Proof. intros H. cbn. apply members_small_gen. lia. Qed.
Lemma new_group_members t size : g_members (new_group t size) = g_members (new_group 0 size).
Proof. reflexivity. Qed.

Lemma In_range size m : In m (map N.of_nat (seq 1 size)) <-> 1 <= m <= N.of_nat size.
Proof.
  rewrite in_map_iff. split.
  - intros [x [Hx Hin]]. apply in_seq in Hin. lia.
  - intros H. exists (N.to_nat m). split; [lia|]. apply in_seq. lia.
Qed.

Lemma range_sorted n : forall s, StronglySorted N.lt (map N.of_nat (seq s n)).
Proof.
  induction n as [|n IH]; intros s; cbn [seq map]; constructor.
  - apply IH.
  - apply Forall_forall. intros x Hx. apply in_map_iff in Hx. destruct Hx as [y [Hy Hin]].
    apply in_seq in Hin. lia.
Qed.

Lemma SSorted_filter {A} (R : A -> A -> Prop) f l :
  StronglySorted R l -> StronglySorted R (filter f l).
Proof.
  induction 1 as [|a l Hs IH Hf]; cbn [filter]; [constructor|].
  destruct (f a); [|exact IH]. constructor; [exact IH|].
  apply Forall_forall. intros x Hx. apply filter_In in Hx. destruct Hx as [Hx _].
  rewrite Forall_forall in Hf. auto.
Qed.

Lemma keys_sorted seed l :
  StronglySorted N.lt l -> StronglySorted Z.lt (map (party_key seed) l).
Proof.
  induction 1 as [|a l Hs IH Hf]; cbn [map]; constructor; [exact IH|].
  apply Forall_forall. intros x Hx. apply in_map_iff in Hx. destruct Hx as [y [Hy Hin]].
  rewrite Forall_forall in Hf. specialize (Hf y Hin). unfold party_key in *. lia.
Qed.

Lemma sortZ_id l : StronglySorted Z.lt l -> sortZ l = l.
Proof.
  induction 1 as [|a l Hs IH Hf]; [reflexivity|].
  unfold sortZ in *. cbn [fold_right]. rewrite IH.
  destruct l as [|b l]; [reflexivity|]. cbn [insertZ].
  inversion Hf; subst. destruct (Z.leb_spec a b); [reflexivity|lia].
Qed.

(* ------------------------------------------------------------------ sorting N, nodup *)
Lemma In_insertN a l x : In x (insertN a l) <-> x = a \/ In x l.
Proof.
  induction l as [|y l IH]; cbn [insertN In]; [intuition|].
  destruct (a <=? y); cbn [In]; [intuition|]. rewrite IH. intuition.
Qed.
Lemma In_sortN l x : In x (sortN l) <-> In x l.
Proof.
  induction l as [|a l IH]; [reflexivity|]. unfold sortN in *. cbn [fold_right In].
  rewrite In_insertN, IH. intuition.
Qed.
Lemma insertN_sorted a l :
  StronglySorted N.lt l -> ~ In a l -> StronglySorted N.lt (insertN a l).
Proof.
  induction 1 as [|y l Hs IH Hf]; intros Hn; cbn [insertN].
  - constructor; constructor.
  - rewrite Forall_forall in Hf. destruct (N.leb_spec a y) as [Hle|Hgt].
    + assert (a < y) by (assert (a <> y) by (intros ->; apply Hn; left; reflexivity); lia).
      constructor.
      * constructor; [exact Hs | apply Forall_forall; exact Hf].
      * apply Forall_forall. intros x [<-|Hx]; [assumption|]. specialize (Hf x Hx). lia.
    + constructor.
      * apply IH. intros Hin. apply Hn. right. exact Hin.
      * apply Forall_forall. intros x Hx. apply In_insertN in Hx. destruct Hx as [->|Hx]; [lia|auto].
Qed.
Lemma sortN_sorted l : NoDup l -> StronglySorted N.lt (sortN l).
Proof.
  induction 1 as [|a l Hn Hnd IH]; [constructor|].
  unfold sortN in *. cbn [fold_right]. apply insertN_sorted; [exact IH|].
  intros Hin. apply In_sortN in Hin. auto.
Qed.
Lemma In_nodupN l x : In x (nodupN l) <-> In x l.
Proof.
  induction l as [|a l IH]; [reflexivity|]. cbn [nodupN].
  destruct (memN a l) eqn:E; cbn [In]; rewrite IH; [|tauto].
  apply memN_In in E. split; [tauto|]. intros [<-|H]; assumption.
Qed.
Lemma NoDup_nodupN l : NoDup (nodupN l).
Proof.
  induction l as [|a l IH]; [constructor|]. cbn [nodupN].
  destruct (memN a l) eqn:E; [exact IH|]. constructor; [|exact IH].
  rewrite In_nodupN. apply memN_false. exact E.
Qed.

(* ------------------------------------------------------------------ operating set / party ids *)
Definition well_formed (size : nat) (g : group) : Prop :=
  g_members g = map N.of_nat (seq 1 size).

Lemma operating_sorted size g : well_formed size g -> StronglySorted N.lt (operating g).
Proof. intros H. unfold operating. rewrite H. apply SSorted_filter, range_sorted. Qed.

Lemma party_keys_spec size mb :
  well_formed size (mb_group mb) ->
  party_keys mb = map (party_key (mb_seed mb)) (operating (mb_group mb))
  /\ StronglySorted Z.lt (party_keys mb).
Proof.
  intros H. unfold party_keys.
  assert (S := keys_sorted (mb_seed mb) _ (operating_sorted _ _ H)).
  rewrite sortZ_id by exact S. split; [reflexivity|exact S].
Qed.

Lemma execute_member_group size t seed self ex ops s :
  memN self ex = false ->
  mb_group (execute_member size t seed self ex ops s) = fold_left mark_dq ex (new_group t size).
Proof. intros H. cbn. apply execute_marking_not_excluded. exact H. Qed.

Lemma execute_member_wf size t seed self ex ops s :
  (size <= 255)%nat -> well_formed size (mb_group (execute_member size t seed self ex ops s)).
Proof.
  intros H. unfold well_formed. cbn [mb_group execute_member].
  rewrite execute_marking_fold, fold_mark_dq_members, new_group_members. apply members_small. exact H.
Qed.

Lemma is_operating_new t size m :
  is_operating (new_group t size) m = memN m (g_members (new_group 0 size)).
Proof. unfold is_operating. cbn [g_ia g_dq new_group memN existsb negb]. rewrite !andb_true_r. reflexivity. Qed.

Lemma is_operating_execute size t self ex m :
  (size <= 255)%nat ->
  is_operating (execute_marking self ex (new_group t size)) m = true <->
  (1 <= m <= N.of_nat size) /\ (m = self \/ ~ In m ex).
Proof.
  intros Hs. rewrite execute_marking_fold, is_operating_fold_mark_dq, is_operating_new, members_small by exact Hs.
  rewrite andb_true_iff, memN_In, In_range, negb_true_iff, memN_false, filter_In, negb_true_iff, N.eqb_neq.
  destruct (N.eq_dec m self); intuition.
Qed.

(* ------------------------------------------------------------------ main lemmas *)
Lemma same_party_set size t seed i j ex ops_i ops_j s_i s_j :
  memN i ex = false -> memN j ex = false ->
  let mi := execute_member size t seed i ex ops_i s_i in
  let mj := execute_member size t seed j ex ops_j s_j in
  mb_group mi = mb_group mj /\ operating (mb_group mi) = operating (mb_group mj)
  /\ party_keys mi = party_keys mj /\ misbehaved (mb_group mi) = misbehaved (mb_group mj).
Proof.
  intros Hi Hj mi mj.
  assert (E : mb_group mi = mb_group mj).
  { unfold mi, mj. rewrite !execute_member_group by assumption. reflexivity. }
  unfold party_keys. rewrite E. cbn [mb_seed mi mj execute_member]. auto.
Qed.

Lemma operating_exact size t seed i ex ops s :
  (size <= 255)%nat -> memN i ex = false ->
  operating (mb_group (execute_member size t seed i ex ops s))
  = filter (fun m => negb (memN m ex)) (map N.of_nat (seq 1 size)).
Proof.
  intros Hs Hi. rewrite execute_member_group by exact Hi. unfold operating.
  rewrite fold_mark_dq_members, new_group_members, members_small by exact Hs.
  apply filter_ext_in. intros m Hm.
  rewrite is_operating_fold_mark_dq, is_operating_new, members_small by exact Hs.
  apply memN_In in Hm. rewrite Hm. reflexivity.
Qed.

Lemma same_wallet_key {K} (keygen : list Z -> Z -> K) size t seed i j ex ops_i ops_j s_i s_j :
  memN i ex = false -> memN j ex = false ->
  let mi := execute_member size t seed i ex ops_i s_i in
  let mj := execute_member size t seed j ex ops_j s_j in
  keygen (party_keys mi) (honest_threshold (mb_group mi) - 1)%Z
  = keygen (party_keys mj) (honest_threshold (mb_group mj) - 1)%Z.
Proof.
  intros Hi Hj mi mj.
  destruct (same_party_set size t seed i j ex ops_i ops_j s_i s_j Hi Hj) as [E [_ [Ek _]]].
  fold mi mj in E, Ek. rewrite Ek, E. reflexivity.
Qed.

Lemma excluded_listed size t seed i ex ops s :
  (size <= 255)%nat -> memN i ex = false ->
  let g := mb_group (execute_member size t seed i ex ops s) in
  StronglySorted N.lt (misbehaved g)
  /\ forall m, In m (misbehaved g) <-> (In m ex /\ 1 <= m <= N.of_nat size).
Proof.
  intros Hs Hi g. unfold misbehaved. split.
  - apply sortN_sorted, NoDup_nodupN.
  - intros m. rewrite In_sortN, In_nodupN, in_app_iff.
    unfold g. rewrite execute_member_group by exact Hi.
    rewrite fold_mark_dq_ia, dq_fold. cbn [g_ia g_dq new_group In].
    rewrite is_operating_new, members_small, memN_In, In_range by exact Hs. tauto.
Qed.

(* admission *)
Definition accepts (mb : member) (m : msg) : bool :=
  should_accept mb (m_sender m) (m_op m) && N.eqb (mb_session mb) (m_session m).

Lemma receive_all_filter mb ms : forall h, receive_all mb h ms = h ++ filter (accepts mb) ms.
Proof.
  unfold receive_all. induction ms as [|m ms IH]; intros h; cbn [fold_left filter].
  - rewrite app_nil_r. reflexivity.
  - rewrite IH. unfold receive, accepts. destruct (should_accept mb (m_sender m) (m_op m) && _).
    + rewrite <- app_assoc. reflexivity.
    + reflexivity.
Qed.

Lemma positions_spec ops : forall s k o,
  In (k, o) (combine (map N.of_nat (seq s (length ops))) ops) <->
  exists i, nth_error ops i = Some o /\ k = N.of_nat (s + i).
Proof.
  induction ops as [|a ops IH]; intros s k o; cbn [length seq map combine In].
  - split; [tauto|]. intros [i [H _]]. destruct i; discriminate.
  - rewrite IH. split.
    + intros [H|[i [H1 H2]]].
      * inversion H; subst. exists 0%nat. split; [reflexivity|]. f_equal. lia.
      * exists (S i). split; [exact H1|]. rewrite H2. f_equal. lia.
    + intros [i [H1 H2]]. destruct i as [|i]; cbn in H1.
      * left. inversion H1; subst. f_equal. f_equal. lia.
      * right. exists i. split; [exact H1|]. rewrite H2. f_equal. lia.
Qed.

Lemma valid_membership_spec ops sender op :
  valid_membership ops sender op = true <->
  nth_error ops (N.to_nat ((sender + 255) mod 256)) = Some op.
Proof.
  unfold valid_membership, positions. rewrite existsb_exists. split.
  - intros [[k o] [Hin Hb]]. cbn [fst snd] in Hb. apply andb_true_iff in Hb.
    destruct Hb as [H1 H2]. apply N.eqb_eq in H1, H2. subst.
    apply positions_spec in Hin. destruct Hin as [i [Hn Hk]]. rewrite Hk. cbn.
    rewrite Nat2N.id. exact Hn.
  - intros H. exists ((sender + 255) mod 256, op). split.
    + apply positions_spec. exists (N.to_nat ((sender + 255) mod 256)). split; [exact H|].
      cbn. rewrite N2Nat.id. reflexivity.
    + cbn [fst snd]. rewrite !N.eqb_refl. reflexivity.
Qed.

Lemma accepts_iff size t seed self ex ops s m :
  (size <= 255)%nat ->
  accepts (execute_member size t seed self ex ops s) m = true <->
  (m_sender m <> self /\ 1 <= m_sender m <= N.of_nat size /\ ~ In (m_sender m) ex
   /\ nth_error ops (N.to_nat (m_sender m - 1)) = Some (m_op m) /\ m_session m = s).
Proof.
  intros Hs. unfold accepts, should_accept. cbn [mb_id mb_ops mb_group mb_session execute_member].
  rewrite !andb_true_iff, negb_true_iff, N.eqb_neq, N.eqb_eq, valid_membership_spec.
  rewrite is_operating_execute by exact Hs.
  split.
  - intros [[[H1 H2] [H3 H4]] H5]. destruct H4 as [H4|H4]; [congruence|].
    replace ((m_sender m + 255) mod 256) with (m_sender m - 1) in H2; [auto|].
    assert (m_sender m + 255 = (m_sender m - 1) + 1 * 256) as -> by lia.
    rewrite N.mod_add by lia. rewrite N.mod_small by lia. reflexivity.
  - intros [H1 [H2 [H3 [H4 H5]]]].
    replace ((m_sender m + 255) mod 256) with (m_sender m - 1); [auto|].
    assert (m_sender m + 255 = (m_sender m - 1) + 1 * 256) as -> by lia.
    rewrite N.mod_add by lia. rewrite N.mod_small by lia. reflexivity.
Qed.

(* first message per sender *)
Lemma dedup_senders_notin seen l x : In x (senders (dedup seen l)) -> ~ In x seen.
Proof.
  revert seen. induction l as [|m l IH]; intros seen; cbn [dedup senders map]; [tauto|].
  destruct (memN (m_sender m) seen) eqn:E.
  - apply IH.
  - cbn [senders map In]. intros [<-|H].
    + apply memN_false. exact E.
    + intros Hs. apply (IH _ H). right. exact Hs.
Qed.
Lemma dedup_nodup l : forall seen, NoDup (senders (dedup seen l)).
Proof.
  induction l as [|m l IH]; intros seen; cbn [dedup senders map]; [constructor|].
  destruct (memN (m_sender m) seen); [apply IH|]. cbn [senders map]. constructor; [|apply IH].
  intros H. apply dedup_senders_notin in H. apply H. left. reflexivity.
Qed.
Lemma dedup_incl l : forall seen m, In m (dedup seen l) -> In m l.
Proof.
  induction l as [|a l IH]; intros seen m; cbn [dedup]; [tauto|].
  destruct (memN (m_sender a) seen); cbn [In]; [right; eauto|]. intros [->|H]; [left; reflexivity|right; eauto].
Qed.
Lemma dedup_covers l : forall seen m, In m l -> In (m_sender m) seen \/ In (m_sender m) (senders (dedup seen l)).
Proof.
  induction l as [|a l IH]; intros seen m; cbn [dedup In]; [tauto|].
  intros [->|H].
  - destruct (memN (m_sender m) seen) eqn:E; [left; apply memN_In; exact E|]. right. left. reflexivity.
  - destruct (memN (m_sender a) seen) eqn:E; [apply IH; exact H|].
    destruct (IH (m_sender a :: seen) m H) as [[<-|H1]|H1]; [right; left; reflexivity|left; exact H1|right; right; exact H1].
Qed.
Lemma dedup_app1 l : forall seen m,
  dedup seen (l ++ [m]) =
  dedup seen l ++ (if memN (m_sender m) seen || memN (m_sender m) (senders (dedup seen l)) then [] else [m]).
Proof.
  induction l as [|a l IH]; intros seen m; cbn [app dedup].
  - cbn [senders map memN existsb]. rewrite orb_false_r. destruct (memN (m_sender m) seen); reflexivity.
  - destruct (memN (m_sender a) seen) eqn:E; [apply IH|].
    rewrite IH. cbn [app senders map]. f_equal. rewrite !memN_cons.
    destruct (N.eqb (m_sender m) (m_sender a)), (memN (m_sender m) seen),
      (memN (m_sender m) (map m_sender (dedup (m_sender a :: seen) l))); reflexivity.
Qed.

Lemma received_nodup h k : NoDup (senders (received h k)).
Proof. apply dedup_nodup. Qed.
Lemma received_incl h k m : In m (received h k) -> In m h /\ m_kind m = k.
Proof.
  intros H. apply dedup_incl in H. unfold all_received in H. apply filter_In in H.
  destruct H as [H1 H2]. apply N.eqb_eq in H2. auto.
Qed.
Lemma received_covers h k m : In m h -> m_kind m = k -> In (m_sender m) (senders (received h k)).
Proof.
  intros H1 H2. destruct (dedup_covers (all_received h k) [] m) as [[]|H]; [|exact H].
  apply filter_In. split; [exact H1|]. apply N.eqb_eq. exact H2.
Qed.
Lemma received_snoc h k m :
  received (h ++ [m]) k =
  if N.eqb (m_kind m) k && negb (memN (m_sender m) (senders (received h k)))
  then received h k ++ [m] else received h k.
Proof.
  unfold received, all_received. rewrite filter_app. cbn [filter].
  destruct (N.eqb (m_kind m) k); cbn [andb].
  - rewrite dedup_app1. cbn [memN existsb orb].
    destruct (memN (m_sender m) (senders (dedup [] (filter (fun m0 => N.eqb (m_kind m0) k) h))));
      cbn [negb]; [rewrite app_nil_r|]; reflexivity.
  - rewrite app_nil_r. reflexivity.
Qed.

(* party id round trip *)
Lemma partyid_roundtrip seed m : m < 256 -> to_member_index seed (party_key seed m) = m.
Proof.
  intros H. unfold to_member_index, party_key.
  destruct (Z.gtb_spec seed (seed + Z.of_N m)); [lia|].
  replace (seed + Z.of_N m - seed)%Z with (Z.of_N m) by lia.
  rewrite Z.mod_small by lia. apply N2Z.id.
Qed.
Lemma partyid_foreign seed key : (key < seed)%Z -> to_member_index seed key = 0.
Proof. intros H. unfold to_member_index. destruct (Z.gtb_spec seed key); [reflexivity|lia]. Qed.

(* hypotheses are satisfiable: a 3-of-5 group, member 1, member 3 excluded *)
Example example_member :
  let mb := execute_member 5 2 200 1 [3] [1; 2; 3; 4; 5] 7 in
  operating (mb_group mb) = [1; 2; 4; 5] /\ party_keys mb = [201; 202; 204; 205]%Z
  /\ misbehaved (mb_group mb) = [3]
  /\ senders (receive_all mb []
       [ {| m_kind := 0; m_sender := 2; m_op := 2; m_session := 7; m_body := 0 |};
         {| m_kind := 0; m_sender := 3; m_op := 3; m_session := 7; m_body := 1 |};
         {| m_kind := 1; m_sender := 4; m_op := 4; m_session := 8; m_body := 2 |};
         {| m_kind := 1; m_sender := 5; m_op := 5; m_session := 7; m_body := 3 |};
         {| m_kind := 0; m_sender := 1; m_op := 1; m_session := 7; m_body := 4 |} ]) = [2; 5].
Proof. vm_compute. repeat split. Qed.
