(* Lemmas for C07 (statements of the property theorems are in Props/C07.v). *)
From Coq Require Import ZArith NArith List Bool Lia Sorted Permutation.
From Coq Require Import ZifyBool ZifyNat ZifyN.
From KV Require Import Common.Verdict Model.C07.
Import ListNotations.
Open Scope N_scope.

(* ------------------------------------------------------------------ membership *)
Lemma memN_In x l : memN x l = true <-> In x l.
Proof.
  unfold memN. rewrite existsb_exists. split.
  - intros [y [H1 H2]]. apply N.eqb_eq in H2. subst. exact H1.
  - intros H. exists x. split; [exact H | apply N.eqb_refl].
Qed.
Lemma memN_false x l : memN x l = false <-> ~ In x l.
Proof.
  rewrite <- memN_In. destruct (memN x l).
  - split; [discriminate | intros H; exfalso; apply H; reflexivity].
  - split; [intros _ H; discriminate | reflexivity].
Qed.
Lemma memN_app x a b : memN x (a ++ b) = memN x a || memN x b.
Proof. unfold memN. apply existsb_app. Qed.
Lemma memN_cons x a l : memN x (a :: l) = N.eqb x a || memN x l.
Proof. reflexivity. Qed.

(* ------------------------------------------------------------------ group marking *)
Lemma mark_dq_members g e : g_members (mark_dq g e) = g_members g.
Proof. unfold mark_dq. destruct (is_operating g e); reflexivity. Qed.
Lemma mark_dq_ia g e : g_ia (mark_dq g e) = g_ia g.
Proof. unfold mark_dq. destruct (is_operating g e); reflexivity. Qed.

Lemma is_operating_mark_dq g e m :
  is_operating (mark_dq g e) m = is_operating g m && negb (N.eqb m e).
Proof.
  unfold mark_dq. destruct (is_operating g e) eqn:He.
  - unfold is_operating. cbn [g_members g_ia g_dq]. rewrite memN_app, memN_cons.
    replace (memN m []) with false by reflexivity. rewrite orb_false_r.
    destruct (memN m (g_members g)), (memN m (g_ia g)), (memN m (g_dq g)), (N.eqb m e);
      reflexivity.
  - destruct (N.eqb m e) eqn:E.
    + apply N.eqb_eq in E. subst. rewrite He. reflexivity.
    + rewrite andb_true_r. reflexivity.
Qed.

Lemma fold_mark_dq_members l g : g_members (fold_left mark_dq l g) = g_members g.
Proof. revert g. induction l as [|e l IH]; intros g; cbn [fold_left]; [reflexivity|]. rewrite IH. apply mark_dq_members. Qed.
Lemma fold_mark_dq_ia l g : g_ia (fold_left mark_dq l g) = g_ia g.
Proof. revert g. induction l as [|e l IH]; intros g; cbn [fold_left]; [reflexivity|]. rewrite IH. apply mark_dq_ia. Qed.

Lemma is_operating_fold_mark_dq l g m :
  is_operating (fold_left mark_dq l g) m = is_operating g m && negb (memN m l).
Proof.
  revert g. induction l as [|e l IH]; intros g; cbn [fold_left].
  - cbn. rewrite andb_true_r. reflexivity.
  - rewrite IH, is_operating_mark_dq, memN_cons.
    destruct (is_operating g m), (N.eqb m e), (memN m l); reflexivity.
Qed.

Lemma dq_fold l : forall g m,
  In m (g_dq (fold_left mark_dq l g)) <-> In m (g_dq g) \/ (In m l /\ is_operating g m = true).
Proof.
  induction l as [|e l IH]; intros g m; cbn [fold_left].
  - cbn. tauto.
  - rewrite IH. rewrite is_operating_mark_dq.
    assert (Hdq : In m (g_dq (mark_dq g e)) <-> In m (g_dq g) \/ (m = e /\ is_operating g e = true)).
    { unfold mark_dq. destruct (is_operating g e) eqn:He; cbn [g_dq].
      - rewrite in_app_iff. cbn. intuition.
      - intuition congruence. }
    rewrite Hdq. cbn [In].
    destruct (N.eqb m e) eqn:E.
    + apply N.eqb_eq in E. subst e. rewrite andb_false_r. intuition congruence.
    + apply N.eqb_neq in E. rewrite andb_true_r. intuition congruence.
Qed.

Lemma execute_marking_fold self ex g :
  execute_marking self ex g = fold_left mark_dq (filter (fun e => negb (N.eqb e self)) ex) g.
Proof.
  unfold execute_marking. revert g. induction ex as [|a ex IH]; intros g; cbn [fold_left filter].
  - reflexivity.
  - destruct (N.eqb a self); cbn [negb fold_left]; apply IH.
Qed.
Lemma filter_not_self self ex :
  memN self ex = false -> filter (fun e => negb (N.eqb e self)) ex = ex.
Proof.
  induction ex as [|a ex IH]; cbn [filter]; intros H; [reflexivity|].
  rewrite memN_cons in H. apply orb_false_iff in H. destruct H as [H1 H2].
  rewrite N.eqb_sym, H1. cbn [negb]. rewrite IH by exact H2. reflexivity.
Qed.

(* a member that is not excluded marks exactly the excluded list: its group does not depend on
   which member it is *)
Lemma execute_marking_not_excluded self ex g :
  memN self ex = false -> execute_marking self ex g = fold_left mark_dq ex g.
Proof. intros H. rewrite execute_marking_fold, filter_not_self by exact H. reflexivity. Qed.

(* ------------------------------------------------------------------ the initial group *)
Lemma members_small_gen size : forall s, (s + size <= 255)%nat ->
  map member_of_pos (seq s size) = map N.of_nat (seq (S s) size).
Proof.
  induction size as [|n IH]; intros s H; cbn [seq map]; [reflexivity|].
  f_equal.
  - unfold member_of_pos. rewrite N.mod_small by lia. lia.
  - apply IH. lia.
Qed.
Lemma members_small size : (size <= 255)%nat ->
  g_members (new_group 0 size) = map N.of_nat (seq 1 size).
Proof. intros H. cbn. apply members_small_gen. lia. Qed.
Lemma new_group_members t size : g_members (new_group t size) = g_members (new_group 0 size).
Proof. reflexivity. Qed.

Lemma In_range size m : In m (map N.of_nat (seq 1 size)) <-> 1 <= m <= N.of_nat size.
Proof.
  rewrite in_map_iff. split.
  - intros [x [Hx Hin]]. apply in_seq in Hin. lia.
  - intros H. exists (N.to_nat m). split; [lia|]. apply in_seq. lia.
Qed.

Lemma range_sorted n : forall s, StronglySorted N.lt (map N.of_nat (seq s n)).
Proof.
  induction n as [|n IH]; intros s; cbn [seq map]; constructor.
  - apply IH.
  - apply Forall_forall. intros x Hx. apply in_map_iff in Hx. destruct Hx as [y [Hy Hin]].
    apply in_seq in Hin. lia.
Qed.

Lemma SSorted_filter {A} (R : A -> A -> Prop) f l :
  StronglySorted R l -> StronglySorted R (filter f l).
Proof.
  induction 1 as [|a l Hs IH Hf]; cbn [filter]; [constructor|].
  destruct (f a); [|exact IH]. constructor; [exact IH|].
  apply Forall_forall. intros x Hx. apply filter_In in Hx. destruct Hx as [Hx _].
  rewrite Forall_forall in Hf. auto.
Qed.

Lemma keys_sorted seed l :
  StronglySorted N.lt l -> StronglySorted Z.lt (map (party_key seed) l).
Proof.
  induction 1 as [|a l Hs IH Hf]; cbn [map]; constructor; [exact IH|].
  apply Forall_forall. intros x Hx. apply in_map_iff in Hx. destruct Hx as [y [Hy Hin]].
  rewrite Forall_forall in Hf. specialize (Hf y Hin). unfold party_key in *. lia.
Qed.

Lemma sortZ_id l : StronglySorted Z.lt l -> sortZ l = l.
Proof.
  induction 1 as [|a l Hs IH Hf]; [reflexivity|].
  unfold sortZ in *. cbn [fold_right]. rewrite IH.
  destruct l as [|b l]; [reflexivity|]. cbn [insertZ].
  inversion Hf; subst. destruct (Z.leb_spec a b); [reflexivity|lia].
Qed.

(* ------------------------------------------------------------------ sorting N, nodup *)
Lemma In_insertN a l x : In x (insertN a l) <-> x = a \/ In x l.
Proof.
  induction l as [|y l IH]; cbn [insertN In]; [intuition|].
  destruct (a <=? y); cbn [In]; [intuition|]. rewrite IH. intuition.
Qed.
Lemma In_sortN l x : In x (sortN l) <-> In x l.
Proof.
  induction l as [|a l IH]; [reflexivity|]. unfold sortN in *. cbn [fold_right In].
  rewrite In_insertN, IH. intuition.
Qed.
Lemma insertN_sorted a l :
  StronglySorted N.lt l -> ~ In a l -> StronglySorted N.lt (insertN a l).
Proof.
  induction 1 as [|y l Hs IH Hf]; intros Hn; cbn [insertN].
  - constructor; constructor.
  - rewrite Forall_forall in Hf. destruct (N.leb_spec a y) as [Hle|Hgt].
    + assert (a < y) by (assert (a <> y) by (intros ->; apply Hn; left; reflexivity); lia).
      constructor.
      * constructor; [exact Hs | apply Forall_forall; exact Hf].
      * apply Forall_forall. intros x [<-|Hx]; [assumption|]. specialize (Hf x Hx). lia.
    + constructor.
      * apply IH. intros Hin. apply Hn. right. exact Hin.
      * apply Forall_forall. intros x Hx. apply In_insertN in Hx. destruct Hx as [->|Hx]; [lia|auto].
Qed.
Lemma sortN_sorted l : NoDup l -> StronglySorted N.lt (sortN l).
Proof.
  induction 1 as [|a l Hn Hnd IH]; [constructor|].
  unfold sortN in *. cbn [fold_right]. apply insertN_sorted; [exact IH|].
  intros Hin. apply Hn. apply (proj1 (In_sortN l a)). exact Hin.
Qed.
Lemma In_nodupN l x : In x (nodupN l) <-> In x l.
Proof.
  induction l as [|a l IH]; [reflexivity|]. cbn [nodupN].
  destruct (memN a l) eqn:E; cbn [In]; rewrite IH; [|tauto].
  apply memN_In in E. split; [tauto|]. intros [<-|H]; assumption.
Qed.
Lemma NoDup_nodupN l : NoDup (nodupN l).
Proof.
  induction l as [|a l IH]; [constructor|]. cbn [nodupN].
  destruct (memN a l) eqn:E; [exact IH|]. constructor; [|exact IH].
  rewrite In_nodupN. apply memN_false. exact E.
Qed.

(* ------------------------------------------------------------------ operating set / party ids *)
Definition well_formed (size : nat) (g : group) : Prop :=
  g_members g = map N.of_nat (seq 1 size).

Lemma operating_sorted size g : well_formed size g -> StronglySorted N.lt (operating g).
Proof. intros H. unfold operating. rewrite H. apply SSorted_filter, range_sorted. Qed.

Lemma party_keys_spec size mb :
  well_formed size (mb_group mb) ->
  party_keys mb = map (party_key (mb_seed mb)) (operating (mb_group mb))
  /\ StronglySorted Z.lt (party_keys mb).
Proof.
  intros H. unfold party_keys.
  assert (S := keys_sorted (mb_seed mb) _ (operating_sorted _ _ H)).
  rewrite sortZ_id by exact S. split; [reflexivity|exact S].
Qed.

Lemma execute_member_group size t seed self ex ops s :
  memN self ex = false ->
  mb_group (execute_member size t seed self ex ops s) = fold_left mark_dq ex (new_group t size).
Proof. intros H. cbn. apply execute_marking_not_excluded. exact H. Qed.

Lemma execute_member_wf size t seed self ex ops s :
  (size <= 255)%nat -> well_formed size (mb_group (execute_member size t seed self ex ops s)).
Proof.
  intros H. unfold well_formed. cbn [mb_group execute_member].
  rewrite execute_marking_fold, fold_mark_dq_members, new_group_members. apply members_small. exact H.
Qed.

Lemma is_operating_new t size m :
  is_operating (new_group t size) m = memN m (g_members (new_group 0 size)).
Proof. unfold is_operating. cbn [g_ia g_dq new_group memN existsb negb]. rewrite !andb_true_r. reflexivity. Qed.

Lemma is_operating_execute size t self ex m :
  (size <= 255)%nat ->
  is_operating (execute_marking self ex (new_group t size)) m = true <->
  (1 <= m <= N.of_nat size) /\ (m = self \/ ~ In m ex).
Proof.
  intros Hs. rewrite execute_marking_fold, is_operating_fold_mark_dq, is_operating_new, members_small by exact Hs.
  rewrite andb_true_iff, memN_In, In_range, negb_true_iff, memN_false, filter_In, negb_true_iff, N.eqb_neq.
  destruct (N.eq_dec m self); intuition.
Qed.

(* ------------------------------------------------------------------ main lemmas *)
Lemma same_party_set size t seed i j ex ops_i ops_j s_i s_j :
  memN i ex = false -> memN j ex = false ->
  let mi := execute_member size t seed i ex ops_i s_i in
  let mj := execute_member size t seed j ex ops_j s_j in
  mb_group mi = mb_group mj /\ operating (mb_group mi) = operating (mb_group mj)
  /\ party_keys mi = party_keys mj /\ misbehaved (mb_group mi) = misbehaved (mb_group mj).
Proof.
  intros Hi Hj mi mj.
  assert (E : mb_group mi = mb_group mj).
  { unfold mi, mj. rewrite !execute_member_group by assumption. reflexivity. }
  unfold party_keys. rewrite E. cbn [mb_seed mi mj execute_member]. auto.
Qed.

Lemma operating_exact size t seed i ex ops s :
  (size <= 255)%nat -> memN i ex = false ->
  operating (mb_group (execute_member size t seed i ex ops s))
  = filter (fun m => negb (memN m ex)) (map N.of_nat (seq 1 size)).
Proof.
  intros Hs Hi. rewrite execute_member_group by exact Hi. unfold operating.
  rewrite fold_mark_dq_members, new_group_members, members_small by exact Hs.
  apply filter_ext_in. intros m Hm.
  rewrite is_operating_fold_mark_dq, is_operating_new, members_small by exact Hs.
  apply memN_In in Hm. rewrite Hm. reflexivity.
Qed.

Lemma excluded_listed size t seed i ex ops s :
  (size <= 255)%nat -> memN i ex = false ->
  let g := mb_group (execute_member size t seed i ex ops s) in
  StronglySorted N.lt (misbehaved g)
  /\ forall m, In m (misbehaved g) <-> (In m ex /\ 1 <= m <= N.of_nat size).
Proof.
  intros Hs Hi g. unfold misbehaved. split.
  - apply sortN_sorted, NoDup_nodupN.
  - intros m. rewrite In_sortN, In_nodupN, in_app_iff.
    unfold g. rewrite execute_member_group by exact Hi.
    rewrite fold_mark_dq_ia, dq_fold. cbn [g_ia g_dq new_group In].
    rewrite is_operating_new, members_small, memN_In, In_range by exact Hs. tauto.
Qed.

(* admission *)
Definition accepts (mb : member) (m : msg) : bool :=
  should_accept mb (m_sender m) (m_op m) && N.eqb (mb_session mb) (m_session m).

Lemma receive_all_filter mb ms : forall h, receive_all mb h ms = h ++ filter (accepts mb) ms.
Proof.
  unfold receive_all. induction ms as [|m ms IH]; intros h; cbn [fold_left filter].
  - rewrite app_nil_r. reflexivity.
  - rewrite IH. unfold receive, accepts. destruct (should_accept mb (m_sender m) (m_op m) && _).
    + rewrite <- app_assoc. reflexivity.
    + reflexivity.
Qed.

Lemma positions_spec (ops : list N) : forall (s : nat) (k o : N),
  In (k, o) (combine (map N.of_nat (seq s (length ops))) ops) <->
  exists i, nth_error ops i = Some o /\ k = N.of_nat (s + i).
Proof.
  induction ops as [|a ops IH]; intros s k o; cbn [length seq map combine In].
  - split; [tauto|]. intros [i [H _]]. destruct i; discriminate.
  - rewrite IH. split.
    + intros [H|[i [H1 H2]]].
      * inversion H; subst. exists 0%nat. split; [reflexivity|]. f_equal. lia.
      * exists (S i). split; [exact H1|]. rewrite H2. f_equal. lia.
    + intros [i [H1 H2]]. destruct i as [|i]; cbn in H1.
      * left. inversion H1; subst. f_equal. f_equal. lia.
      * right. exists i. split; [exact H1|]. rewrite H2. f_equal. lia.
Qed.

Lemma valid_membership_spec ops sender op :
  valid_membership ops sender op = true <->
  nth_error ops (N.to_nat ((sender + 255) mod 256)) = Some op.
Proof.
  unfold valid_membership, positions. rewrite existsb_exists. split.
  - intros [[k o] [Hin Hb]]. cbn [fst snd] in Hb. apply andb_true_iff in Hb.
    destruct Hb as [H1 H2]. apply N.eqb_eq in H1, H2. subst.
    apply positions_spec in Hin. destruct Hin as [i [Hn Hk]]. rewrite Hk. cbn.
    rewrite Nat2N.id. exact Hn.
  - intros H. exists ((sender + 255) mod 256, op). split.
    + apply positions_spec. exists (N.to_nat ((sender + 255) mod 256)). split; [exact H|].
      cbn. rewrite N2Nat.id. reflexivity.
    + cbn [fst snd]. rewrite !N.eqb_refl. reflexivity.
Qed.

Lemma accepts_iff size t seed self ex ops s m :
  (size <= 255)%nat ->
  accepts (execute_member size t seed self ex ops s) m = true <->
  (m_sender m <> self /\ 1 <= m_sender m <= N.of_nat size /\ ~ In (m_sender m) ex
   /\ nth_error ops (N.to_nat (m_sender m - 1)) = Some (m_op m) /\ m_session m = s).
Proof.
  intros Hs. unfold accepts, should_accept. cbn [mb_id mb_ops mb_group mb_session execute_member].
  rewrite !andb_true_iff, negb_true_iff, N.eqb_neq, N.eqb_eq, valid_membership_spec.
  rewrite is_operating_execute by exact Hs.
  split.
  - intros [[[H1 H2] [H3 H4]] H5]. destruct H4 as [H4|H4]; [congruence|].
    replace ((m_sender m + 255) mod 256) with (m_sender m - 1) in H2; [auto|].
    assert (m_sender m + 255 = (m_sender m - 1) + 1 * 256) as -> by lia.
    rewrite N.mod_add by lia. rewrite N.mod_small by lia. reflexivity.
  - intros [H1 [H2 [H3 [H4 H5]]]].
    replace ((m_sender m + 255) mod 256) with (m_sender m - 1); [auto|].
    assert (m_sender m + 255 = (m_sender m - 1) + 1 * 256) as -> by lia.
    rewrite N.mod_add by lia. rewrite N.mod_small by lia. reflexivity.
Qed.

(* first message per sender *)
Lemma dedup_senders_notin seen l x : In x (senders (dedup seen l)) -> ~ In x seen.
Proof.
  revert seen. induction l as [|m l IH]; intros seen; cbn [dedup senders map]; [tauto|].
  destruct (memN (m_sender m) seen) eqn:E.
  - apply IH.
  - cbn [senders map In]. intros [<-|H].
    + apply memN_false. exact E.
    + intros Hs. apply (IH _ H). right. exact Hs.
Qed.
Lemma dedup_nodup l : forall seen, NoDup (senders (dedup seen l)).
Proof.
  induction l as [|m l IH]; intros seen; cbn [dedup senders map]; [constructor|].
  destruct (memN (m_sender m) seen); [apply IH|]. cbn [senders map]. constructor; [|apply IH].
  intros H. apply dedup_senders_notin in H. apply H. left. reflexivity.
Qed.
Lemma dedup_incl l : forall seen m, In m (dedup seen l) -> In m l.
Proof.
  induction l as [|a l IH]; intros seen m; cbn [dedup]; [tauto|].
  destruct (memN (m_sender a) seen); cbn [In]; [right; eauto|]. intros [->|H]; [left; reflexivity|right; eauto].
Qed.
Lemma dedup_covers l : forall seen m, In m l -> In (m_sender m) seen \/ In (m_sender m) (senders (dedup seen l)).
Proof.
  induction l as [|a l IH]; intros seen m; cbn [dedup In]; [tauto|].
  intros [->|H].
  - destruct (memN (m_sender m) seen) eqn:E; [left; apply memN_In; exact E|]. right. left. reflexivity.
  - destruct (memN (m_sender a) seen) eqn:E; [apply IH; exact H|].
    destruct (IH (m_sender a :: seen) m H) as [[<-|H1]|H1]; [right; left; reflexivity|left; exact H1|right; right; exact H1].
Qed.
Lemma dedup_app1 l : forall seen m,
  dedup seen (l ++ [m]) =
  dedup seen l ++ (if memN (m_sender m) seen || memN (m_sender m) (senders (dedup seen l)) then [] else [m]).
Proof.
  induction l as [|a l IH]; intros seen m; cbn [app dedup].
  - cbn [senders map memN existsb]. rewrite orb_false_r. destruct (memN (m_sender m) seen); reflexivity.
  - destruct (memN (m_sender a) seen) eqn:E; [apply IH|].
    rewrite IH. cbn [app]. unfold senders. cbn [map]. rewrite !memN_cons.
    destruct (N.eqb (m_sender m) (m_sender a)), (memN (m_sender m) seen),
      (memN (m_sender m) (map m_sender (dedup (m_sender a :: seen) l))); reflexivity.
Qed.

Lemma received_nodup h k : NoDup (senders (received h k)).
Proof. apply dedup_nodup. Qed.
Lemma received_incl h k m : In m (received h k) -> In m h /\ m_kind m = k.
Proof.
  intros H. apply dedup_incl in H. unfold all_received in H. apply filter_In in H.
  destruct H as [H1 H2]. apply N.eqb_eq in H2. auto.
Qed.
Lemma received_covers h k m : In m h -> m_kind m = k -> In (m_sender m) (senders (received h k)).
Proof.
  intros H1 H2. destruct (dedup_covers (all_received h k) [] m) as [[]|H]; [|exact H].
  apply filter_In. split; [exact H1|]. apply N.eqb_eq. exact H2.
Qed.
Lemma received_snoc h k m :
  received (h ++ [m]) k =
  if N.eqb (m_kind m) k && negb (memN (m_sender m) (senders (received h k)))
  then received h k ++ [m] else received h k.
Proof.
  unfold received, all_received. rewrite filter_app. cbn [filter].
  destruct (N.eqb (m_kind m) k); cbn [andb].
  - rewrite dedup_app1. cbn [memN existsb orb].
    destruct (memN (m_sender m) (senders (dedup [] (filter (fun m0 => N.eqb (m_kind m0) k) h))));
      cbn [negb]; [rewrite app_nil_r|]; reflexivity.
  - rewrite app_nil_r. reflexivity.
Qed.

(* party id round trip *)
Lemma partyid_roundtrip seed m : m < 256 -> to_member_index seed (party_key seed m) = m.
Proof.
  intros H. unfold to_member_index, party_key.
  destruct (Z.gtb_spec seed (seed + Z.of_N m)); [lia|].
  replace (seed + Z.of_N m - seed)%Z with (Z.of_N m) by lia.
  rewrite Z.mod_small by lia. apply N2Z.id.
Qed.
Lemma partyid_foreign seed key : (key < seed)%Z -> to_member_index seed key = 0.
Proof. intros H. unfold to_member_index. destruct (Z.gtb_spec seed key); [reflexivity|lia]. Qed.

(* ================================================================== property-level lemmas *)
Definition not_excluded (size : nat) (ex : list N) : list N :=
  filter (fun m => negb (memN m ex)) (map N.of_nat (seq 1 size)).

Lemma party_set_exact size t seed i ex ops s :
  (size <= 255)%nat -> memN i ex = false ->
  let mb := execute_member size t seed i ex ops s in
  operating (mb_group mb) = not_excluded size ex
  /\ party_keys mb = map (party_key seed) (not_excluded size ex)
  /\ StronglySorted Z.lt (party_keys mb)
  /\ (1 <= i <= N.of_nat size -> own_key mb = Some (party_key seed i) /\ In (party_key seed i) (party_keys mb)).
Proof.
  intros Hs Hi mb.
  assert (Eo : operating (mb_group mb) = not_excluded size ex) by (apply operating_exact; assumption).
  destruct (party_keys_spec size mb (execute_member_wf size t seed i ex ops s Hs)) as [Ek Sk].
  change (mb_seed mb) with seed in Ek.
  split; [exact Eo|]. split; [rewrite Ek, Eo; reflexivity|]. split; [exact Sk|].
  intros Hr.
  assert (Hin : In i (not_excluded size ex)).
  { apply filter_In. split; [apply In_range; exact Hr | rewrite Hi; reflexivity]. }
  split.
  - unfold own_key. rewrite Eo. change (mb_id mb) with i. change (mb_seed mb) with seed.
    rewrite (proj2 (memN_In _ _) Hin). reflexivity.
  - rewrite Ek, Eo. apply in_map. exact Hin.
Qed.

Lemma same_wallet_key (K : Type) (keygen_run : list Z -> Z -> K -> Prop) :
  (forall ps thr k1 k2, keygen_run ps thr k1 -> keygen_run ps thr k2 -> k1 = k2) ->
  forall size t seed i j ex ops_i ops_j s_i s_j ki kj,
    memN i ex = false -> memN j ex = false ->
    let mi := execute_member size t seed i ex ops_i s_i in
    let mj := execute_member size t seed j ex ops_j s_j in
    keygen_run (party_keys mi) (honest_threshold (mb_group mi) - 1)%Z ki ->
    keygen_run (party_keys mj) (honest_threshold (mb_group mj) - 1)%Z kj ->
    ki = kj.
Proof.
  intros Hdet size t seed i j ex ops_i ops_j s_i s_j ki kj Hi Hj mi mj Ri Rj.
  destruct (same_party_set size t seed i j ex ops_i ops_j s_i s_j Hi Hj) as [E [_ [Ek _]]].
  fold mi mj in E, Ek. rewrite Ek, E in Ri. exact (Hdet _ _ _ _ Ri Rj).
Qed.

Lemma misbehaved_same size t seed_i seed_j i j ex ops_i ops_j s_i s_j :
  memN i ex = false -> memN j ex = false ->
  misbehaved (mb_group (execute_member size t seed_i i ex ops_i s_i))
  = misbehaved (mb_group (execute_member size t seed_j j ex ops_j s_j)).
Proof. intros Hi Hj. rewrite !execute_member_group by assumption. reflexivity. Qed.

(* ------------------------------------------------------------------ admission *)
Definition foreign (size : nat) (self : N) (ex ops : list N) (session : N) (m : msg) : Prop :=
  m_sender m = self \/ ~ (1 <= m_sender m <= N.of_nat size) \/ In (m_sender m) ex
  \/ nth_error ops (N.to_nat (m_sender m - 1)) <> Some (m_op m) \/ m_session m <> session.
Definition deliver (mb : member) (h : history) (sm : N * msg) : history := receive mb h (snd sm).

Lemma optN_dec (a b : option N) : {a = b} + {a <> b}.
Proof. decide equality. apply N.eq_dec. Qed.

Lemma accepts_not_foreign size t seed self ex ops s m :
  (size <= 255)%nat ->
  accepts (execute_member size t seed self ex ops s) m = true <-> ~ foreign size self ex ops s m.
Proof.
  intros Hs. rewrite accepts_iff by exact Hs. unfold foreign. split.
  - intros (H1 & H2 & H3 & H4 & H5) [F|[F|[F|[F|F]]]]; [congruence | tauto | tauto | congruence | congruence].
  - intros F. split; [|split; [|split; [|split]]].
    + intros E. apply F. left. exact E.
    + destruct (N.leb_spec 1 (m_sender m)); destruct (N.leb_spec (m_sender m) (N.of_nat size));
        try lia; exfalso; apply F; right; left; lia.
    + intros E. apply F. right. right. left. exact E.
    + destruct (optN_dec (nth_error ops (N.to_nat (m_sender m - 1))) (Some (m_op m))) as [E|E];
        [exact E | exfalso; apply F; tauto].
    + destruct (N.eq_dec (m_session m) s) as [E|E]; [exact E | exfalso; apply F; tauto].
Qed.

Lemma receive_accepts mb h m : receive mb h m = if accepts mb m then h ++ [m] else h.
Proof. reflexivity. Qed.

Lemma deliver_fold mb dels : forall h0,
  fold_left (deliver mb) dels h0 = h0 ++ filter (accepts mb) (map snd dels).
Proof.
  induction dels as [|[st m] dels IH]; intros h0; cbn [fold_left map filter].
  - rewrite app_nil_r. reflexivity.
  - rewrite IH. unfold deliver. cbn [snd]. rewrite receive_accepts.
    destruct (accepts mb m); [rewrite <- app_assoc; reflexivity | reflexivity].
Qed.

Lemma foreign_never_stored size t seed self ex ops session :
  (size <= 255)%nat ->
  let mb := execute_member size t seed self ex ops session in
  (forall h state m, foreign size self ex ops session m -> deliver mb h (state, m) = h)
  /\ (forall (keep : N * msg -> bool) h0 dels,
        (forall sm, In sm dels -> keep sm = false -> foreign size self ex ops session (snd sm)) ->
        fold_left (deliver mb) dels h0 = fold_left (deliver mb) (filter keep dels) h0)
  /\ (forall h0 dels m, In m (fold_left (deliver mb) dels h0) ->
        In m h0 \/ (~ foreign size self ex ops session m /\ exists st, In (st, m) dels)).
Proof.
  intros Hs mb. split; [|split].
  - intros h state m F. unfold deliver. cbn [snd]. rewrite receive_accepts.
    destruct (accepts mb m) eqn:A; [|reflexivity].
    exfalso. apply (accepts_not_foreign size t seed self ex ops session m Hs) in A. exact (A F).
  - intros keep h0 dels H. rewrite !deliver_fold. f_equal.
    induction dels as [|sm dels IH]; cbn [filter map]; [reflexivity|].
    assert (Ht : forall sm0, In sm0 dels -> keep sm0 = false -> foreign size self ex ops session (snd sm0)).
    { intros sm0 Hin. apply H. right. exact Hin. }
    destruct (keep sm) eqn:Kp; cbn [map filter].
    + rewrite (IH Ht). reflexivity.
    + assert (A : accepts mb (snd sm) = false).
      { destruct (accepts mb (snd sm)) eqn:A; [|reflexivity]. exfalso.
        apply (accepts_not_foreign size t seed self ex ops session _ Hs) in A. apply A.
        apply H; [left; reflexivity | exact Kp]. }
      rewrite A. apply IH. exact Ht.
  - intros h0 dels m. rewrite deliver_fold, in_app_iff, filter_In, in_map_iff.
    intros [H|[[sm [E Hin]] A]]; [left; exact H | right]. split.
    + apply (accepts_not_foreign size t seed self ex ops session m Hs). exact A.
    + exists (fst sm). destruct sm as [st m']. cbn [fst snd] in *. subst m'. exact Hin.
Qed.

Lemma history_keeps size t seed self ex ops session :
  (size <= 255)%nat ->
  let mb := execute_member size t seed self ex ops session in
  forall h0 state m later,
    ~ foreign size self ex ops session m ->
    let h := fold_left (deliver mb) later (deliver mb h0 (state, m)) in
    In m (all_received h (m_kind m))
    /\ In (m_sender m) (senders (received h (m_kind m)))
    /\ NoDup (senders (received h (m_kind m))).
Proof.
  intros Hs mb h0 state m later F h.
  apply (accepts_not_foreign size t seed self ex ops session m Hs) in F.
  assert (Hin : In m h).
  { unfold h. rewrite deliver_fold. unfold deliver. cbn [snd]. rewrite receive_accepts.
    fold mb in F. rewrite F. rewrite !in_app_iff. left. right. left. reflexivity. }
  split; [|split].
  - unfold all_received. apply filter_In. split; [exact Hin | apply N.eqb_refl].
  - apply received_covers; [exact Hin | reflexivity].
  - apply received_nodup.
Qed.

(* ------------------------------------------------------------------ delivery order *)
Lemma Permutation_filter' {A} (f : A -> bool) l l' :
  Permutation l l' -> Permutation (filter f l) (filter f l').
Proof.
  induction 1 as [|x l l' H IH|x y l|l l' l'' H1 IH1 H2 IH2]; cbn [filter].
  - constructor.
  - destruct (f x); [constructor|]; exact IH.
  - destruct (f x), (f y); try apply Permutation_refl. apply perm_swap.
  - eapply Permutation_trans; eassumption.
Qed.

Lemma dedup_senders_iff l x : In x (senders (dedup [] l)) <-> In x (senders l).
Proof.
  split.
  - intros H. unfold senders in *. apply in_map_iff in H. destruct H as [m [E Hm]].
    apply dedup_incl in Hm. apply in_map_iff. exists m. auto.
  - intros H. unfold senders in H. apply in_map_iff in H. destruct H as [m [E Hm]].
    destruct (dedup_covers l [] m Hm) as [[]|H']. rewrite <- E. exact H'.
Qed.

Lemma dedup_length_perm l l' : Permutation l l' -> length (dedup [] l) = length (dedup [] l').
Proof.
  intros P.
  rewrite <- (map_length m_sender (dedup [] l)), <- (map_length m_sender (dedup [] l')).
  apply Permutation_length. apply NoDup_Permutation.
  - apply (dedup_nodup l []).
  - apply (dedup_nodup l' []).
  - intros x. fold (senders (dedup [] l)) (senders (dedup [] l')).
    rewrite !dedup_senders_iff. unfold senders.
    split; apply Permutation_in; [|apply Permutation_sym]; apply Permutation_map; exact P.
Qed.

Lemma can_transition_ext mb h h' s :
  (forall k, length (received h k) = length (received h' k)) ->
  can_transition mb h s = can_transition mb h' s.
Proof.
  intros H. unfold can_transition. destruct (state_kind s) as [k|]; [rewrite (H k)|]; reflexivity.
Qed.

Lemma order_irrelevant mb dels dels' s :
  Permutation dels dels' ->
  Permutation (fold_left (deliver mb) dels []) (fold_left (deliver mb) dels' [])
  /\ can_transition mb (fold_left (deliver mb) dels []) s
     = can_transition mb (fold_left (deliver mb) dels' []) s.
Proof.
  intros P. rewrite !deliver_fold. cbn [app].
  assert (P' : Permutation (filter (accepts mb) (map snd dels)) (filter (accepts mb) (map snd dels'))).
  { apply Permutation_filter', Permutation_map, P. }
  split; [exact P'|]. apply can_transition_ext. intros k. unfold received, all_received.
  apply dedup_length_perm, Permutation_filter', P'.
Qed.

(* ================================================================== executable property *)
Lemma list_eqb_eq {A} (eqb : A -> A -> bool) :
  (forall x y, eqb x y = true -> x = y) -> forall a b, list_eqb eqb a b = true -> a = b.
Proof.
  intros He. induction a as [|x a IH]; intros [|y b]; cbn [list_eqb]; try discriminate; [reflexivity|].
  intros H. apply andb_true_iff in H. destruct H as [H1 H2]. f_equal; [apply He, H1 | apply IH, H2].
Qed.
Lemma listN_eqb_eq a b : list_eqb N.eqb a b = true -> a = b.
Proof. apply list_eqb_eq. intros x y. apply N.eqb_eq. Qed.
Lemma listZ_eqb_eq a b : list_eqb Z.eqb a b = true -> a = b.
Proof. apply list_eqb_eq. intros x y. apply Z.eqb_eq. Qed.
Lemma listlistN_eqb_eq a b : list_eqb (list_eqb N.eqb) a b = true -> a = b.
Proof. apply list_eqb_eq. exact listN_eqb_eq. Qed.

Lemma memZ_In x l : memZ x l = true <-> In x l.
Proof.
  unfold memZ. rewrite existsb_exists. split.
  - intros [y [H1 H2]]. apply Z.eqb_eq in H2. subst. exact H1.
  - intros H. exists x. split; [exact H | apply Z.eqb_refl].
Qed.

Lemma sublistN_weaken b : forall a, sublistN a b = true ->
  (forall x a', a = x :: a' -> sublistN a' b = true) /\ (forall y, sublistN a (y :: b) = true).
Proof.
  induction b as [|z b IH]; intros a H.
  - destruct a as [|x a]; [|discriminate]. split; [intros; discriminate | reflexivity].
  - assert (T : forall x a', a = x :: a' -> sublistN a' (z :: b) = true).
    { intros x a' ->. cbn [sublistN] in H. destruct (N.eqb x z).
      - apply (IH a' H).
      - apply (IH a'). apply (proj1 (IH _ H) x a' eq_refl). }
    split; [exact T|]. intros y. destruct a as [|x a]; [reflexivity|].
    cbn [sublistN]. destruct (N.eqb x y); [apply (T x a eq_refl) | exact H].
Qed.
Lemma sublistN_cons_r a b y : sublistN a b = true -> sublistN a (y :: b) = true.
Proof. intros H. apply (sublistN_weaken b a H). Qed.
Lemma sublistN_refl a : sublistN a a = true.
Proof. induction a as [|x a IH]; [reflexivity|]. cbn [sublistN]. rewrite N.eqb_refl. exact IH. Qed.
Lemma sublistN_In a : forall b, sublistN a b = true -> forall x, In x a -> In x b.
Proof.
  induction a as [|y a IH]; intros b H x Hx; [destruct Hx|].
  induction b as [|z b IHb]; [discriminate|]. cbn [sublistN] in H.
  destruct (N.eqb y z) eqn:E.
  - apply N.eqb_eq in E. subst z. destruct Hx as [<-|Hx]; [left; reflexivity | right; apply (IH b H x Hx)].
  - right. apply IHb. exact H.
Qed.
Lemma nodupb_NoDup l : nodupb l = true <-> NoDup l.
Proof.
  induction l as [|x l IH]; cbn [nodupb].
  - split; [constructor | reflexivity].
  - rewrite andb_true_iff, negb_true_iff, memN_false, IH. split.
    + intros [H1 H2]. constructor; assumption.
    + intros H. inversion H; subst. auto.
Qed.
Lemma subsetN_incl a b : subsetN a b = true <-> (forall x, In x a -> In x b).
Proof.
  unfold subsetN. rewrite forallb_forall. split; intros H x Hx.
  - apply memN_In, H, Hx.
  - apply memN_In, H, Hx.
Qed.

Lemma In_kinds k : k < 6 <-> In k kinds.
Proof. cbn. lia. Qed.

Lemma legit_spec c m :
  legit c m = true <->
  (m_sender m <> p_self c /\ 1 <= m_sender m <= p_size c
   /\ ~ In (m_sender m) (p_dq c) /\ ~ In (m_sender m) (p_ia c)
   /\ nth_error (p_ops c) (N.to_nat (m_sender m - 1)) = Some (m_op m)
   /\ m_session m = p_session c).
Proof.
  unfold legit. rewrite !andb_true_iff, !negb_true_iff, N.eqb_neq, !N.leb_le, !memN_false, N.eqb_eq.
  destruct (nth_error (p_ops c) (N.to_nat (m_sender m - 1))) as [o|].
  - rewrite N.eqb_eq. split.
    + intros [[[[[[H1 H2] H3] H4] H5] H6] H7]. subst o. auto 10.
    + intros (H1 & [H2 H3] & H4 & H5 & H6 & H7). inversion H6. auto 10.
  - split.
    + intros [[_ H] _]. discriminate.
    + intros (_ & _ & _ & _ & H & _). discriminate.
Qed.

Lemma spec_probe_sound c : spec_probe c = true ->
  forall k, k < 6 ->
    let hk := nth (N.to_nat k) (o_history c) [] in
    let rk := nth (N.to_nat k) (o_received c) [] in
    (forall x, In x hk -> exists st m, In (st, m) (p_msgs c) /\ m_sender m = x /\ m_kind m = k
        /\ m_sender m <> p_self c /\ 1 <= m_sender m <= p_size c
        /\ ~ In (m_sender m) (p_dq c) /\ ~ In (m_sender m) (p_ia c)
        /\ nth_error (p_ops c) (N.to_nat (m_sender m - 1)) = Some (m_op m)
        /\ m_session m = p_session c)
    /\ NoDup rk /\ (forall x, In x rk <-> In x hk).
Proof.
  intros H k Hk hk rk. unfold spec_probe in H. rewrite !andb_true_iff in H.
  destruct H as [_ H]. rewrite forallb_forall in H. specialize (H k (proj1 (In_kinds k) Hk)).
  fold hk rk in H. rewrite !andb_true_iff in H. destruct H as [[[H1 H2] H3] H4].
  split; [|split].
  - intros x Hx. apply (sublistN_In _ _ H1) in Hx. unfold senders in Hx.
    apply in_map_iff in Hx. destruct Hx as [m [E Hm]]. apply filter_In in Hm.
    destruct Hm as [Hm Hb]. apply andb_true_iff in Hb. destruct Hb as [Hb1 Hb2].
    apply N.eqb_eq in Hb1. apply legit_spec in Hb2. apply in_map_iff in Hm.
    destruct Hm as [[st m'] [E' Hm]]. cbn [snd] in E'. subst m'.
    exists st, m. tauto.
  - apply nodupb_NoDup. exact H2.
  - intros x. split.
    + apply sublistN_In. exact H3.
    + apply subsetN_incl. exact H4.
Qed.

Lemma spec_run_sound c : spec_run c = true ->
  forall o1 o2, In o1 (r_obs c) -> In o2 (r_obs c) -> is_done o1 = true -> is_done o2 = true ->
    mo_key o1 = mo_key o2 /\ mo_mis o1 = mo_mis o2 /\ mo_ks o1 = mo_ks o2
    /\ (forall e, In e (r_excluded c) -> 1 <= e <= r_size c ->
          In e (mo_mis o1) /\ ~ In (party_key (r_seed c) e) (mo_ks o1))
    /\ mo_share o1 = party_key (r_seed c) (mo_member o1) /\ In (mo_share o1) (mo_ks o2).
Proof.
  intros H o1 o2 I1 I2 D1 D2. unfold spec_run in H. rewrite !andb_true_iff in H.
  destruct H as [_ H].
  assert (F1 : In o1 (filter is_done (r_obs c))) by (apply filter_In; auto).
  assert (F2 : In o2 (filter is_done (r_obs c))) by (apply filter_In; auto).
  destruct (filter is_done (r_obs c)) as [|o0 rest] eqn:Dn; [destruct F1|].
  rewrite forallb_forall in H.
  assert (G : forall o, In o (o0 :: rest) ->
     mo_key o = mo_key o0 /\ mo_mis o = mo_mis o0 /\ mo_ks o = mo_ks o0
     /\ (forall e, In e (r_excluded c) -> 1 <= e <= r_size c ->
           In e (mo_mis o) /\ ~ In (party_key (r_seed c) e) (mo_ks o))
     /\ mo_share o = party_key (r_seed c) (mo_member o) /\ In (mo_share o) (mo_ks o0)).
  { intros o Ho. specialize (H o Ho). rewrite !andb_true_iff in H.
    destruct H as [[[[[Ha Hb] Hc] Hd] He] Hf].
    apply N.eqb_eq in Ha. apply listN_eqb_eq in Hb. apply listZ_eqb_eq in Hc.
    apply Z.eqb_eq in He. apply memZ_In in Hf. repeat split; try assumption.
    - rewrite forallb_forall in Hd. specialize (Hd e H). unfold in_group in Hd.
      apply orb_true_iff in Hd. destruct Hd as [Hd|Hd].
      + apply negb_true_iff, andb_false_iff in Hd. destruct Hd as [Hd|Hd]; apply N.leb_gt in Hd; lia.
      + apply andb_true_iff in Hd. apply memN_In, Hd.
    - rewrite forallb_forall in Hd. specialize (Hd e H). unfold in_group in Hd.
      apply orb_true_iff in Hd. destruct Hd as [Hd|Hd].
      + apply negb_true_iff, andb_false_iff in Hd. destruct Hd as [Hd|Hd]; apply N.leb_gt in Hd; lia.
      + apply andb_true_iff in Hd. destruct Hd as [_ Hd]. apply negb_true_iff in Hd.
        intros Hin. apply memZ_In in Hin. congruence. }
  destruct (G o1 F1) as (A1 & B1 & C1 & E1 & S1 & M1).
  destruct (G o2 F2) as (A2 & B2 & C2 & _ & _ & _).
  repeat split; try congruence; apply E1; assumption.
Qed.

(* ------------------------------------------------------------------ model outputs satisfy it *)
Lemma mark_ia_members g e : g_members (mark_ia g e) = g_members g.
Proof. unfold mark_ia. destruct (is_operating g e); reflexivity. Qed.
Lemma is_operating_mark_ia g e m :
  is_operating (mark_ia g e) m = is_operating g m && negb (N.eqb m e).
Proof.
  unfold mark_ia. destruct (is_operating g e) eqn:He.
  - unfold is_operating. cbn [g_members g_ia g_dq]. rewrite memN_app, memN_cons.
    replace (memN m []) with false by reflexivity. rewrite orb_false_r.
    destruct (memN m (g_members g)), (memN m (g_ia g)), (memN m (g_dq g)), (N.eqb m e);
      reflexivity.
  - destruct (N.eqb m e) eqn:E.
    + apply N.eqb_eq in E. subst. rewrite He. reflexivity.
    + rewrite andb_true_r. reflexivity.
Qed.
Lemma is_operating_fold_mark_ia l g m :
  is_operating (fold_left mark_ia l g) m = is_operating g m && negb (memN m l).
Proof.
  revert g. induction l as [|e l IH]; intros g; cbn [fold_left].
  - cbn. rewrite andb_true_r. reflexivity.
  - rewrite IH, is_operating_mark_ia, memN_cons.
    destruct (is_operating g m), (N.eqb m e), (memN m l); reflexivity.
Qed.

Lemma mod_index s : 1 <= s <= 255 -> (s + 255) mod 256 = s - 1.
Proof.
  intros H. assert (s + 255 = (s - 1) + 1 * 256) as -> by lia.
  rewrite N.mod_add by lia. apply N.mod_small. lia.
Qed.

Lemma accepts_probe_legit c m :
  p_size c < 256 -> length (p_ops c) = N.to_nat (p_size c) ->
  accepts (probe_member c) m = legit c m.
Proof.
  intros Hs Hl. apply eq_true_iff_eq. rewrite legit_spec.
  unfold accepts, should_accept, probe_member. cbn [mb_id mb_ops mb_group mb_session].
  rewrite is_operating_fold_mark_ia, is_operating_fold_mark_dq, is_operating_new.
  rewrite members_small by lia.
  rewrite !andb_true_iff, !negb_true_iff, N.eqb_neq, N.eqb_eq, valid_membership_spec,
    memN_In, In_range, !memN_false, N2Nat.id.
  split.
  - intros [[[H1 H2] [[H3 H4] H5]] H6]. rewrite mod_index in H2 by lia. auto 10.
  - intros (H1 & H2 & H3 & H4 & H5 & H6). rewrite mod_index by lia. auto 10.
Qed.

Lemma filter_filter {A} (f g : A -> bool) l :
  filter f (filter g l) = filter (fun x => f x && g x) l.
Proof.
  induction l as [|x l IH]; [reflexivity|]. cbn [filter].
  destruct (g x); cbn [filter]; rewrite ?andb_true_r, ?andb_false_r; [destruct (f x)|]; rewrite IH; reflexivity.
Qed.

Lemma dedup_sublist l : forall seen, sublistN (senders (dedup seen l)) (senders l) = true.
Proof.
  induction l as [|m l IH]; intros seen; [reflexivity|]. cbn [dedup].
  destruct (memN (m_sender m) seen).
  - unfold senders. cbn [map]. apply sublistN_cons_r. apply IH.
  - unfold senders. cbn [map sublistN]. rewrite N.eqb_refl. apply IH.
Qed.

Lemma nth_kinds {B} (F : N -> B) d k : In k kinds -> nth (N.to_nat k) (map F kinds) d = F k.
Proof. cbn. intros [<-|[<-|[<-|[<-|[<-|[<-|[]]]]]]]; reflexivity. Qed.

Lemma model_spec_probe c :
  p_size c < 256 -> length (p_ops c) = N.to_nat (p_size c) ->
  agree_probe c = true -> spec_probe c = true.
Proof.
  intros Hs Hl H. unfold agree_probe in H. rewrite !andb_true_iff in H.
  destruct H as [[[[_ Hh] Hr] _] _]. clear - Hs Hl Hh Hr.
  apply listlistN_eqb_eq in Hh, Hr.
  unfold spec_probe. rewrite Hh, Hr. rewrite !map_length.
  rewrite !andb_true_iff. split; [split; [split|]|]; try reflexivity.
  - apply N.ltb_lt. exact Hs.
  - apply forallb_forall. intros k Hk. rewrite !nth_kinds by exact Hk.
    set (mb := probe_member c). set (l := map snd (p_msgs c)).
    assert (Eh : receive_all mb [] l = filter (accepts mb) l) by (rewrite receive_all_filter; reflexivity).
    rewrite Eh. rewrite !andb_true_iff. split; [split; [split|]|].
    + unfold all_received. rewrite filter_filter.
      rewrite (filter_ext _ (fun m => N.eqb (m_kind m) k && legit c m)).
      * apply sublistN_refl.
      * intros m. unfold mb. rewrite accepts_probe_legit by assumption. reflexivity.
    + apply nodupb_NoDup. apply received_nodup.
    + apply dedup_sublist.
    + apply subsetN_incl. intros x Hx. unfold received. apply dedup_senders_iff. exact Hx.
Qed.

Lemma party_key_inj seed a b : party_key seed a = party_key seed b -> a = b.
Proof. unfold party_key. lia. Qed.

Lemma model_spec_run (keyid : list Z -> N) c :
  r_size c < 256 -> (0 <= r_seed c)%Z ->
  (forall o, In o (r_obs c) ->
     1 <= mo_member o <= r_size c /\ ~ In (mo_member o) (r_excluded c)
     /\ finished_ok o = true /\ mo_key o = keyid (mo_ks o)) ->
  agree_run c = true -> spec_run c = true.
Proof.
  intros Hs Hseed Hobs Ha. unfold agree_run in Ha. rewrite forallb_forall in Ha.
  set (size := N.to_nat (r_size c)) in *.
  assert (Hsz : (size <= 255)%nat) by (unfold size; lia).
  assert (Hsz' : N.of_nat size = r_size c) by (unfold size; lia).
  (* what a finished observation looks like *)
  assert (G : forall o, In o (r_obs c) -> is_done o = true ->
     mo_ks o = map (party_key (r_seed c)) (not_excluded size (r_excluded c))
     /\ mo_mis o = misbehaved (fold_left mark_dq (r_excluded c) (new_group (r_t c) size))
     /\ mo_share o = party_key (r_seed c) (mo_member o)
     /\ In (mo_share o) (mo_ks o)).
  { intros o Ho Hd. specialize (Ha o Ho). rewrite Hd in Ha. cbn [negb orb] in Ha.
    destruct (Hobs o Ho) as (Hr & Hne & _ & _). apply memN_false in Hne.
    destruct (party_set_exact size (r_t c) (r_seed c) (mo_member o) (r_excluded c) [] 0 Hsz Hne)
      as (_ & Ek & _ & Hown).
    rewrite Hsz' in Hown. destruct (Hown Hr) as [Hown1 Hown2].
    rewrite !andb_true_iff in Ha. destruct Ha as [[A1 A2] A3].
    apply listZ_eqb_eq in A1. apply listN_eqb_eq in A2.
    rewrite Hown1 in A3. cbn [optZ_eqb] in A3. apply Z.eqb_eq in A3.
    rewrite Ek in A1. rewrite execute_member_group in A2 by exact Hne.
    repeat split; try assumption. rewrite A3, A1, <- Ek. exact Hown2. }
  unfold spec_run. rewrite !andb_true_iff. split; [split; [split|]|].
  - apply N.ltb_lt. exact Hs.
  - apply Z.leb_le. exact Hseed.
  - apply forallb_forall. intros o Ho. destruct (Hobs o Ho) as (Hr & Hne & Hf & _).
    unfold in_group. rewrite !andb_true_iff, negb_true_iff, !N.leb_le, memN_false. tauto.
  - destruct (filter is_done (r_obs c)) as [|o0 rest] eqn:Dn; [reflexivity|].
    assert (I0 : In o0 (r_obs c) /\ is_done o0 = true).
    { apply filter_In. rewrite Dn. left. reflexivity. }
    destruct (G o0 (proj1 I0) (proj2 I0)) as (K0 & M0 & S0 & P0).
    apply forallb_forall. intros o Ho. rewrite <- Dn in Ho. apply filter_In in Ho.
    destruct Ho as [Ho Hd]. destruct (G o Ho Hd) as (K & M & S & P).
    destruct (Hobs o Ho) as (Hr & Hne & _ & Hk). destruct (Hobs o0 (proj1 I0)) as (_ & _ & _ & Hk0).
    apply memN_false in Hne.
    rewrite !andb_true_iff. repeat split.
    + apply N.eqb_eq. rewrite Hk, Hk0, K, K0. reflexivity.
    + rewrite M, M0. clear. induction (misbehaved _) as [|x l IH]; [reflexivity|].
      cbn [list_eqb]. rewrite N.eqb_refl. exact IH.
    + rewrite K, K0. clear. induction (map _ _) as [|x l IH]; [reflexivity|].
      cbn [list_eqb]. rewrite Z.eqb_refl. exact IH.
    + apply forallb_forall. intros e He. unfold in_group.
      destruct (N.leb 1 e && N.leb e (r_size c)) eqn:Eg; [|reflexivity]. cbn [negb orb].
      apply andb_true_iff in Eg. destruct Eg as [Eg1 Eg2]. apply N.leb_le in Eg1, Eg2.
      rewrite andb_true_iff, negb_true_iff. split.
      * apply memN_In. rewrite M.
        destruct (excluded_listed size (r_t c) (r_seed c) (mo_member o) (r_excluded c) [] 0 Hsz Hne) as [_ Hx].
        rewrite execute_member_group in Hx by exact Hne. apply Hx. split; [exact He | lia].
      * destruct (memZ (party_key (r_seed c) e) (mo_ks o)) eqn:Em; [|reflexivity]. exfalso.
        apply memZ_In in Em. rewrite K in Em. apply in_map_iff in Em. destruct Em as [m [E Hm]].
        apply party_key_inj in E. subst m. apply filter_In in Hm. destruct Hm as [_ Hm].
        apply negb_true_iff, memN_false in Hm. exact (Hm He).
    + apply Z.eqb_eq. exact S.
    + apply memZ_In. rewrite K0, <- K. exact P.
Qed.

(* hypotheses are satisfiable: a 3-of-5 group, member 1, member 3 excluded *)
Example example_member :
  let mb := execute_member 5 2 200 1 [3] [1; 2; 3; 4; 5] 7 in
  operating (mb_group mb) = [1; 2; 4; 5] /\ party_keys mb = [201; 202; 204; 205]%Z
  /\ misbehaved (mb_group mb) = [3]
  /\ senders (receive_all mb []
       [ {| m_kind := 0; m_sender := 2; m_op := 2; m_session := 7; m_body := 0 |};
         {| m_kind := 0; m_sender := 3; m_op := 3; m_session := 7; m_body := 1 |};
         {| m_kind := 1; m_sender := 4; m_op := 4; m_session := 8; m_body := 2 |};
         {| m_kind := 1; m_sender := 5; m_op := 5; m_session := 7; m_body := 3 |};
         {| m_kind := 0; m_sender := 1; m_op := 1; m_session := 7; m_body := 4 |} ]) = [2; 5].
Proof. vm_compute. repeat split. Qed.
