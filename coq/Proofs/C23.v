(* C23 — proofs about the model of watchCoordinationWindows (Model/C23.v). *)
From Coq Require Import ZArith List Bool Lia Sorted.
From Coq Require Import ZifyBool.
From KV Require Import Common.Verdict Gen.Consts_C23 Model.C23.
Import ListNotations.
Open Scope Z_scope.

(* [b] starts a coordination window: a positive multiple of the frequency *)
Definition window_start (f b : Z) : Prop := exists k, 0 < k /\ b = k * f.

Lemma is_window_start_spec f b : 0 < f ->
  (is_window_start f b = true <-> window_start f b).
Proof.
  intros Hf. unfold is_window_start, window_start. split.
  - intros H. apply andb_true_iff in H. destruct H as [Hm Hp].
    apply Z.eqb_eq in Hm. apply Z.ltb_lt in Hp.
    exists (b / f). pose proof (Z_div_mod_eq_full b f) as E. split; nia.
  - intros [k [Hk ->]]. apply andb_true_iff. split.
    + apply Z.eqb_eq. apply Z_mod_mult.
    + apply Z.ltb_lt. nia.
Qed.

Lemma index_pos f b : 0 < f -> (0 <? index f b) = is_window_start f b.
Proof.
  intros Hf. unfold index, is_window_start.
  destruct (b mod f =? 0) eqn:E; cbn [andb]; [|reflexivity].
  apply Z.eqb_eq in E. pose proof (Z_div_mod_eq_full b f) as D.
  destruct (Z.ltb_spec 0 (b / f)), (Z.ltb_spec 0 b); try reflexivity; nia.
Qed.

Lemma list_eqb_eq a : forall b, list_eqb a b = true <-> a = b.
Proof.
  induction a as [|x a IH]; intros [|y b]; cbn [list_eqb]; split; intro H;
    try reflexivity; try discriminate.
  - apply andb_true_iff in H. destruct H as [H1 H2].
    apply Z.eqb_eq in H1. apply IH in H2. subst; reflexivity.
  - inversion H; subst. apply andb_true_iff. split; [apply Z.eqb_refl|apply IH; reflexivity].
Qed.

Lemma lists_eqb_eq a : forall b, lists_eqb a b = true <-> a = b.
Proof.
  induction a as [|x a IH]; intros [|y b]; cbn [lists_eqb]; split; intro H;
    try reflexivity; try discriminate.
  - apply andb_true_iff in H. destruct H as [H1 H2].
    apply list_eqb_eq in H1. apply IH in H2. subst; reflexivity.
  - inversion H; subst. apply andb_true_iff.
    split; [apply list_eqb_eq; reflexivity|apply IH; reflexivity].
Qed.

Lemma map_fst_combine {A B} (a : list A) : forall (b : list B),
  length b = length a -> map fst (combine a b) = a.
Proof.
  induction a as [|x a IH]; intros [|y b] L; cbn in *; try reflexivity; try discriminate.
  f_equal. apply IH. lia.
Qed.
Lemma map_snd_combine {A B} (a : list A) : forall (b : list B),
  length b = length a -> map snd (combine a b) = b.
Proof.
  induction a as [|x a IH]; intros [|y b] L; cbn in *; try reflexivity; try discriminate.
  f_equal. apply IH. lia.
Qed.

Section Generic.
  Variable f : Z.
  Hypothesis Hf : 0 < f.

  (* the block [b] is later than every window start among [seen] *)
  Definition newest (seen : list Z) (b : Z) : Prop :=
    forall x, In x seen -> is_window_start f x = true -> x < b.

  Lemma expected_true seen b :
    is_window_start f b = true -> newest seen b -> expected f seen b = [b].
  Proof.
    intros Hw Hn. unfold expected. rewrite Hw. cbn [andb].
    replace (forallb _ seen) with true; [reflexivity|].
    symmetry. apply forallb_forall. intros x Hx.
    destruct (is_window_start f x) eqn:E; cbn [negb orb]; [|reflexivity].
    apply Z.ltb_lt. apply Hn; assumption.
  Qed.

  Lemma expected_false seen b :
    ~ (is_window_start f b = true /\ newest seen b) -> expected f seen b = [].
  Proof.
    intros Hn. unfold expected.
    destruct (is_window_start f b) eqn:Hw; cbn [andb]; [|reflexivity].
    destruct (forallb _ seen) eqn:Hall; [|reflexivity].
    exfalso. apply Hn. split; [reflexivity|].
    intros x Hx Hwx. rewrite forallb_forall in Hall. specialize (Hall x Hx).
    rewrite Hwx in Hall. cbn [negb orb] in Hall. apply Z.ltb_lt. exact Hall.
  Qed.

  Lemma expected_cases seen b :
    (expected f seen b = [b] /\ is_window_start f b = true /\ newest seen b) \/
    (expected f seen b = [] /\ ~ (is_window_start f b = true /\ newest seen b)).
  Proof.
    destruct (is_window_start f b) eqn:Hw.
    - destruct (forallb (fun x => negb (is_window_start f x) || (x <? b)) seen) eqn:Hall.
      + left. assert (newest seen b) as Hn.
        { intros x Hx Hwx. rewrite forallb_forall in Hall. specialize (Hall x Hx).
          rewrite Hwx in Hall. cbn [negb orb] in Hall. apply Z.ltb_lt. exact Hall. }
        split; [apply expected_true; assumption|split; [reflexivity|exact Hn]].
      + right. split.
        * unfold expected. rewrite Hw, Hall. reflexivity.
        * intros [_ Hn]. rewrite <- Bool.not_true_iff_false in Hall. apply Hall.
          apply forallb_forall. intros x Hx.
          destruct (is_window_start f x) eqn:E; cbn [negb orb]; [|reflexivity].
          apply Z.ltb_lt. apply Hn; assumption.
    - right. split; [unfold expected; rewrite Hw; reflexivity|].
      intros [H _]. discriminate.
  Qed.

  Lemma expected_ext s s' b :
    (forall x, In x s <-> In x s') -> expected f s b = expected f s' b.
  Proof.
    intros Hext.
    destruct (expected_cases s b) as [[E [Hw Hn]]|[E Hn]]; rewrite E; symmetry.
    - apply expected_true; [exact Hw|]. intros x Hx. apply Hn. apply Hext. exact Hx.
    - apply expected_false. intros [Hw Hn']. apply Hn. split; [exact Hw|].
      intros x Hx. apply Hn'. apply Hext. exact Hx.
  Qed.

  (* the watcher's state summarises the blocks consumed so far *)
  Definition Inv (last : option Z) (seen : list Z) : Prop :=
    match last with
    | None => forall x, In x seen -> is_window_start f x = false
    | Some l => is_window_start f l = true /\ In l seen /\
                forall x, In x seen -> is_window_start f x = true -> x <= l
    end.

  Lemma Inv_nil : Inv None [].
  Proof. intros x []. Qed.

  Lemma step_expected last seen b :
    Inv last seen ->
    snd (step f last b) = expected f seen b /\ Inv (fst (step f last b)) (b :: seen).
  Proof.
    intros HI. unfold step. rewrite (index_pos f b Hf).
    destruct (is_window_start f b) eqn:Hw.
    - destruct last as [l|]; cbn [is_after].
      + destruct HI as [Hwl [Hin Hmax]].
        destruct (Z.ltb_spec l b) as [Hlt|Hge]; cbn [fst snd].
        * split.
          -- symmetry. apply expected_true; [exact Hw|].
             intros x Hx Hwx. specialize (Hmax x Hx Hwx). lia.
          -- cbn [Inv]. split; [exact Hw|]. split; [left; reflexivity|].
             intros x [<-|Hx] Hwx; [lia|]. specialize (Hmax x Hx Hwx). lia.
        * split.
          -- symmetry. apply expected_false. intros [_ Hn].
             specialize (Hn l Hin Hwl). lia.
          -- cbn [Inv]. split; [exact Hwl|]. split; [right; exact Hin|].
             intros x [<-|Hx] Hwx; [lia|]. apply Hmax; assumption.
      + cbn [fst snd]. split.
        * symmetry. apply expected_true; [exact Hw|].
          intros x Hx Hwx. rewrite (HI x Hx) in Hwx. discriminate.
        * cbn [Inv]. split; [exact Hw|]. split; [left; reflexivity|].
          intros x [<-|Hx] Hwx; [lia|]. rewrite (HI x Hx) in Hwx. discriminate.
    - cbn [fst snd]. split.
      + symmetry. apply expected_false. intros [H _]. congruence.
      + destruct last as [l|]; cbn [Inv] in *.
        * destruct HI as [Hwl [Hin Hmax]]. split; [exact Hwl|]. split; [right; exact Hin|].
          intros x [<-|Hx] Hwx; [rewrite Hw in Hwx; discriminate|]. apply Hmax; assumption.
        * intros x [<-|Hx]; [exact Hw|]. apply HI; exact Hx.
  Qed.

  Lemma run_from_cons last b t :
    run_from f last (b :: t) = snd (step f last b) :: run_from f (fst (step f last b)) t.
  Proof. cbn [run_from]. destruct (step f last b) as [l o]. reflexivity. Qed.

  Lemma run_from_length last s : length (run_from f last s) = length s.
  Proof.
    revert last. induction s as [|b t IH]; intros last; [reflexivity|].
    rewrite run_from_cons. cbn [length]. rewrite IH. reflexivity.
  Qed.

  Lemma run_from_app s1 : forall last s2,
    run_from f last (s1 ++ s2) =
    run_from f last s1 ++ run_from f (last_after f last s1) s2.
  Proof.
    induction s1 as [|b t IH]; intros last s2; [reflexivity|].
    cbn [app]. rewrite !run_from_cons. cbn [last_after app]. rewrite IH. reflexivity.
  Qed.

  Lemma Inv_after s : forall last seen,
    Inv last seen -> Inv (last_after f last s) (rev s ++ seen).
  Proof.
    induction s as [|b t IH]; intros last seen HI; [exact HI|].
    cbn [last_after rev]. rewrite <- app_assoc. cbn [app].
    apply IH. apply step_expected. exact HI.
  Qed.

  (* the executable property characterises the model's output exactly *)
  Lemma steps_ok_iff steps : forall last seen,
    Inv last seen ->
    (steps_ok f seen steps = true <-> map snd steps = run_from f last (map fst steps)).
  Proof.
    induction steps as [|[b out] t IH]; intros last seen HI.
    - cbn. split; reflexivity.
    - cbn [steps_ok map fst snd]. rewrite run_from_cons.
      destruct (step_expected last seen b HI) as [E HI'].
      rewrite andb_true_iff, list_eqb_eq, (IH _ _ HI'), E.
      split.
      + intros [-> ->]. reflexivity.
      + intros H. inversion H. split; reflexivity.
  Qed.

  (* windows started from state [last]: strictly increasing, later than [last], window
     starts, and blocks of the stream *)
  Lemma fired_from_props s : forall last,
    StronglySorted Z.lt (concat (run_from f last s)) /\
    forall w, In w (concat (run_from f last s)) ->
      match last with Some l => l < w | None => True end /\
      is_window_start f w = true /\ In w s.
  Proof.
    induction s as [|b t IH]; intros last.
    - cbn. split; [constructor|intros w []].
    - rewrite run_from_cons. cbn [concat].
      unfold step. rewrite (index_pos f b Hf).
      destruct (is_window_start f b) eqn:Hw.
      + destruct (is_after b last) eqn:Ha; cbn [fst snd app].
        * destruct (IH (Some b)) as [Hs Hall]. split.
          -- constructor; [exact Hs|]. apply Forall_forall. intros w Hw'.
             apply (Hall w Hw').
          -- intros w [<-|Hin].
             ++ split; [|split; [exact Hw|left; reflexivity]].
                destruct last as [l|]; [|exact I]. cbn in Ha. lia.
             ++ destruct (Hall w Hin) as [Hlt [Hww Hin']].
                split; [|split; [exact Hww|right; exact Hin']].
                destruct last as [l|]; [|exact I]. cbn in Ha. lia.
        * destruct (IH last) as [Hs Hall]. split; [exact Hs|].
          intros w Hin. destruct (Hall w Hin) as [H1 [H2 H3]].
          split; [exact H1|split; [exact H2|right; exact H3]].
      + cbn [fst snd app]. destruct (IH last) as [Hs Hall]. split; [exact Hs|].
        intros w Hin. destruct (Hall w Hin) as [H1 [H2 H3]].
        split; [exact H1|split; [exact H2|right; exact H3]].
  Qed.

  Lemma SSorted_lt_NoDup (l : list Z) : StronglySorted Z.lt l -> NoDup l.
  Proof.
    induction 1 as [|a t _ IH Hall]; constructor; [|exact IH].
    intro Hin. rewrite Forall_forall in Hall. specialize (Hall a Hin). lia.
  Qed.

  Lemma in_split_first (x : Z) (l : list Z) :
    In x l -> exists l1 l2, l = l1 ++ x :: l2 /\ ~ In x l1.
  Proof.
    induction l as [|a t IH]; intros Hin; [destruct Hin|].
    destruct (Z.eq_dec a x) as [->|Hne].
    - exists [], t. split; [reflexivity|intros []].
    - destruct Hin as [E|Hin]; [contradiction|].
      destruct (IH Hin) as [l1 [l2 [-> Hn]]].
      exists (a :: l1), l2. split; [reflexivity|].
      intros [E|H]; [contradiction|exact (Hn H)].
  Qed.

  (* ---- the theorems restated in Props/C23.v (generic in the frequency) ---- *)

  Theorem g_only_window_starts stream w :
    In w (fired f stream) -> window_start f w /\ In w stream.
  Proof.
    intros Hin. destruct (fired_from_props stream None) as [_ Hall].
    destruct (Hall w Hin) as [_ [Hw Hs]]. split; [|exact Hs].
    apply is_window_start_spec; assumption.
  Qed.

  Theorem g_strictly_increasing stream : StronglySorted Z.lt (fired f stream).
  Proof. apply (fired_from_props stream None). Qed.

  Theorem g_step_characterisation pre b post :
    run f (pre ++ b :: post) =
    run f pre ++ expected f pre b :: run_from f (last_after f None (pre ++ [b])) post.
  Proof.
    unfold run. rewrite run_from_app, run_from_cons. f_equal.
    pose proof (Inv_after pre None [] Inv_nil) as HI.
    destruct (step_expected _ _ b HI) as [E _]. rewrite E.
    f_equal.
    - apply expected_ext. intros x. rewrite app_nil_r. symmetry. apply in_rev.
    - f_equal. clear. revert b. generalize (@None Z) as last.
      induction pre as [|a t IH]; intros last b; [reflexivity|].
      cbn [app last_after]. apply IH.
  Qed.

  Theorem g_cancellation_prefix s1 s2 :
    fired f (s1 ++ s2) = fired f s1 ++ concat (run_from f (last_after f None s1) s2).
  Proof. unfold fired, run. rewrite run_from_app, concat_app. reflexivity. Qed.

  (* a window start later than every window start consumed before it is started *)
  Theorem g_new_latest_is_started pre b post :
    window_start f b ->
    (forall x, In x pre -> window_start f x -> x < b) ->
    In b (fired f (pre ++ b :: post)).
  Proof.
    intros Hw Hn. unfold fired. rewrite g_step_characterisation.
    rewrite concat_app. apply in_or_app. right. cbn [concat]. apply in_or_app. left.
    rewrite expected_true; [left; reflexivity| |].
    - apply is_window_start_spec; assumption.
    - intros x Hx Hwx. apply Hn; [exact Hx|]. apply is_window_start_spec; assumption.
  Qed.

  Theorem g_monotone_exactly_once stream w :
    Sorted Z.le stream -> In w stream -> window_start f w ->
    count_occ Z.eq_dec (fired f stream) w = 1%nat.
  Proof.
    intros Hs Hin Hw.
    assert (In w (fired f stream)) as Hfin.
    { destruct (in_split_first w stream Hin) as [l1 [l2 [-> Hn]]].
      apply g_new_latest_is_started; [exact Hw|].
      intros x Hx _.
      apply Sorted_StronglySorted in Hs; [|intros a b c; apply Z.le_trans].
      assert (x <= w).
      { clear Hn Hin. induction l1 as [|a t IH]; [destruct Hx|].
        cbn [app] in Hs. inversion Hs as [|a' t' Hs' Hall]; subst.
        destruct Hx as [<-|Hx]; [|apply IH; assumption].
        rewrite Forall_forall in Hall. apply Hall. apply in_or_app. right. left. reflexivity. }
      assert (x <> w) by (intros ->; exact (Hn Hx)). lia. }
    pose proof (SSorted_lt_NoDup _ (g_strictly_increasing stream)) as Hnd.
    rewrite (NoDup_count_occ Z.eq_dec) in Hnd. specialize (Hnd w).
    apply (count_occ_In Z.eq_dec) in Hfin. lia.
  Qed.

  Theorem g_spec_sound steps :
    steps_ok f [] steps = true ->
    map snd steps = run f (map fst steps) /\
    StronglySorted Z.lt (concat (map snd steps)) /\
    (forall w, In w (concat (map snd steps)) -> window_start f w /\ In w (map fst steps)).
  Proof.
    intros H. apply (steps_ok_iff steps None [] Inv_nil) in H.
    split; [exact H|]. rewrite H. split.
    - apply g_strictly_increasing.
    - intros w. apply g_only_window_starts.
  Qed.

  Theorem g_model_passes_spec stream :
    steps_ok f [] (combine stream (run f stream)) = true.
  Proof.
    apply (steps_ok_iff _ None [] Inv_nil).
    assert (length (run f stream) = length stream) as L by apply run_from_length.
    rewrite map_fst_combine, map_snd_combine by exact L. reflexivity.
  Qed.
  (* ---------- the whole life of one watcher: closed channels ---------- *)
  (* a zero-value read from a closed channel starts nothing and keeps lastWindow *)
  Lemma step_zero last : step f last 0 = (last, []).
  Proof.
    unfold step, index. rewrite Z.mod_0_l by lia. cbn [Z.eqb].
    rewrite Z.div_0_l by lia. reflexivity.
  Qed.

  Lemma life_from_closed h : forall last,
    life_from f last true h = map (fun _ => None) h.
  Proof.
    induction h as [|[b|] t IH]; intros last; [reflexivity| |];
      cbn [life_from map]; rewrite IH; reflexivity.
  Qed.

  Lemma life_from_block last b t :
    life_from f last false (EBlock b :: t) =
    Some (snd (step f last b)) :: life_from f (fst (step f last b)) false t.
  Proof. cbn [life_from]. destruct (step f last b). reflexivity. Qed.

  Lemma life_from_close last t :
    life_from f last false (EClose :: t) = Some [] :: map (fun _ => None) t.
  Proof. cbn [life_from]. rewrite step_zero, life_from_closed. reflexivity. Qed.

  Lemma life_from_length h : forall last c, length (life_from f last c h) = length h.
  Proof.
    induction h as [|[b|] t IH]; intros last c; [reflexivity| |]; destruct c;
      cbn [life_from length]; try destruct (step f last b); try destruct (step f last 0);
      cbn [length]; rewrite IH; reflexivity.
  Qed.

  (* the blocks offered before the first closure: the only subscription there ever is *)
  Fixpoint first_sub (h : list event) : list Z :=
    match h with
    | EBlock b :: t => b :: first_sub t
    | _ => []
    end.

  Lemma started_life_from h : forall last,
    started_all (combine h (life_from f last false h)) = concat (run_from f last (first_sub h)).
  Proof.
    induction h as [|[b|] t IH]; intros last; [reflexivity| |].
    - rewrite life_from_block. cbn [first_sub]. rewrite run_from_cons.
      cbn [combine started_all concat]. rewrite IH. reflexivity.
    - rewrite life_from_close. cbn [first_sub run_from concat combine started_all app].
      clear. induction t as [|e t IH]; [reflexivity|]. cbn [map combine started_all]. exact IH.
  Qed.

  Theorem g_life_shape s rest :
    life f (map EBlock s ++ EClose :: rest) =
    map Some (run f s) ++ Some [] :: map (fun _ => None) rest.
  Proof.
    unfold life, run. generalize (@None Z) as last.
    induction s as [|b t IH]; intros last.
    - cbn [map app run_from]. apply life_from_close.
    - cbn [map app]. rewrite life_from_block, run_from_cons. cbn [map app]. rewrite IH.
      reflexivity.
  Qed.

  Theorem g_life_never_closed s : life f (map EBlock s) = map Some (run f s).
  Proof.
    unfold life, run. generalize (@None Z) as last.
    induction s as [|b t IH]; intros last; [reflexivity|].
    cbn [map]. rewrite life_from_block, run_from_cons. cbn [map]. rewrite IH. reflexivity.
  Qed.

  Theorem g_life_started h :
    started_all (combine h (life f h)) = fired f (first_sub h).
  Proof. apply started_life_from. Qed.

  Lemma first_sub_incl h w : In w (first_sub h) -> In (EBlock w) h.
  Proof.
    induction h as [|[b|] t IH]; cbn [first_sub]; intros H.
    - destruct H.
    - destruct H as [<-|H]; [left; reflexivity|right; apply IH; exact H].
    - destruct H.
  Qed.

  (* the executable whole-life property reduces to the per-stream one on the received blocks *)
  Lemma life_ok_consumed obs : forall seen,
    life_ok f seen obs = true ->
    steps_ok f seen (consumed obs) = true /\
    started_all obs = concat (map snd (consumed obs)).
  Proof.
    induction obs as [|[[b|] [out|]] t IH]; intros seen H; cbn [life_ok] in H.
    - split; reflexivity.
    - apply andb_true_iff in H. destruct H as [H1 H2]. destruct (IH _ H2) as [I1 I2].
      cbn [consumed steps_ok started_all map snd concat]. rewrite H1, I1, I2. split; reflexivity.
    - destruct (IH _ H) as [I1 I2]. cbn [consumed started_all]. split; assumption.
    - apply andb_true_iff in H. destruct H as [H1 H2]. destruct (IH _ H2) as [I1 I2].
      apply list_eqb_eq in H1. subst out.
      cbn [consumed started_all app]. split; assumption.
    - destruct (IH _ H) as [I1 I2]. cbn [consumed started_all]. split; assumption.
  Qed.

  Theorem g_life_spec_sound obs :
    life_ok f [] obs = true ->
    StronglySorted Z.lt (started_all obs) /\
    (forall w, In w (started_all obs) ->
               window_start f w /\ In w (map fst (consumed obs))) /\
    map snd (consumed obs) = run f (map fst (consumed obs)).
  Proof.
    intros H. destruct (life_ok_consumed obs [] H) as [H1 H2].
    destruct (g_spec_sound _ H1) as [E [S W]]. rewrite H2. repeat split; try assumption.
    - apply W; assumption.
    - apply W; assumption.
  Qed.

  Lemma life_model_ok h : forall last closed seen,
    Inv last seen -> life_ok f seen (combine h (life_from f last closed h)) = true.
  Proof.
    induction h as [|[b|] t IH]; intros last closed seen HI; [reflexivity| |]; destruct closed.
    - cbn [life_from combine life_ok]. apply IH; exact HI.
    - rewrite life_from_block. cbn [combine life_ok].
      destruct (step_expected last seen b HI) as [E HI']. rewrite E.
      apply andb_true_iff. split; [apply list_eqb_eq; reflexivity|apply IH; exact HI'].
    - cbn [life_from combine life_ok]. apply IH; exact HI.
    - cbn [life_from]. rewrite step_zero. cbn [combine life_ok list_eqb andb].
      apply IH; exact HI.
  Qed.

  Theorem g_life_model_passes_spec h : life_ok f [] (combine h (life f h)) = true.
  Proof. apply life_model_ok. exact Inv_nil. Qed.
End Generic.

(* ---- instance: the frequency is the generated Go constant ---- *)
Lemma freq_positive : 0 < coordinationFrequencyBlocks.
Proof. reflexivity. Qed.

Definition F := coordinationFrequencyBlocks.

Lemma c_only_window_starts stream w :
  In w (fired F stream) -> (exists k, 0 < k /\ w = k * F) /\ In w stream.
Proof. exact (g_only_window_starts F freq_positive stream w). Qed.

Lemma c_strictly_increasing stream : StronglySorted Z.lt (fired F stream).
Proof. exact (g_strictly_increasing F freq_positive stream). Qed.

Lemma c_at_most_once stream : NoDup (fired F stream).
Proof. apply SSorted_lt_NoDup. apply c_strictly_increasing. Qed.

(* a window started later in the go-statement order is a later window *)
Lemma c_never_earlier stream i j wi wj :
  (i < j)%nat -> nth_error (fired F stream) i = Some wi ->
  nth_error (fired F stream) j = Some wj -> wi < wj.
Proof.
  pose proof (c_strictly_increasing stream) as Hs. revert i j.
  induction Hs as [|a t Hs IH Hall]; intros i j Hij Hi Hj.
  - destruct i; discriminate.
  - destruct j as [|j]; [lia|]. cbn in Hj. destruct i as [|i]; cbn in Hi.
    + inversion Hi; subst. rewrite Forall_forall in Hall. apply Hall.
      eapply nth_error_In; eassumption.
    + apply (IH i j); [lia|assumption|assumption].
Qed.

Lemma c_step_characterisation pre b post :
  exists rest,
    run F (pre ++ b :: post) =
    run F pre ++
    (if is_window_start F b && forallb (fun x => negb (is_window_start F x) || (x <? b)) pre
     then [b] else []) :: rest /\ length rest = length post.
Proof.
  eexists. split; [apply (g_step_characterisation F freq_positive)|].
  apply run_from_length.
Qed.

Lemma c_new_latest_is_started pre b post :
  (exists k, 0 < k /\ b = k * F) ->
  (forall x, In x pre -> (exists k, 0 < k /\ x = k * F) -> x < b) ->
  In b (fired F (pre ++ b :: post)).
Proof. exact (g_new_latest_is_started F freq_positive pre b post). Qed.

Lemma c_cancellation_prefix s1 s2 :
  exists more, fired F (s1 ++ s2) = fired F s1 ++ more.
Proof. eexists. apply g_cancellation_prefix. Qed.

Lemma c_monotone_exactly_once stream w :
  Sorted Z.le stream -> In w stream -> (exists k, 0 < k /\ w = k * F) ->
  count_occ Z.eq_dec (fired F stream) w = 1%nat.
Proof. exact (g_monotone_exactly_once F freq_positive stream w). Qed.

Lemma c_is_window_start_spec b :
  is_window_start F b = true <-> exists k, 0 < k /\ b = k * F.
Proof. exact (is_window_start_spec F b freq_positive). Qed.

Lemma c_spec_sound steps :
  spec_ok F (CStream steps) = true ->
  map snd steps = run F (map fst steps) /\
  StronglySorted Z.lt (concat (map snd steps)) /\
  (forall w, In w (concat (map snd steps)) ->
             (exists k, 0 < k /\ w = k * F) /\ In w (map fst steps)).
Proof. exact (g_spec_sound F freq_positive steps). Qed.

Lemma c_model_passes_spec stream :
  judge (CStream (combine stream (run F stream))) = Agree \/
  judge (CStream (combine stream (run F stream))) = BadCase.
Proof.
  unfold judge, judge_with. destruct (well_formed _); [left|right; reflexivity].
  unfold decide. cbn [spec_ok agree].
  change freq with F.
  rewrite (g_model_passes_spec F freq_positive stream).
  assert (length (run F stream) = length stream) as L by apply run_from_length.
  rewrite map_fst_combine, map_snd_combine by exact L.
  replace (lists_eqb _ _) with true; [reflexivity|].
  symmetry. apply lists_eqb_eq. reflexivity.
Qed.

(* ---- the whole life of one watcher (closed channels, further subscriptions) ---- *)
Lemma opt_lists_eqb_refl l : opt_lists_eqb l l = true.
Proof.
  induction l as [|[x|] t IH]; [reflexivity| |]; cbn [opt_lists_eqb opt_list_eqb]; rewrite IH.
  - rewrite (proj2 (list_eqb_eq x x) eq_refl). reflexivity.
  - reflexivity.
Qed.

Lemma c_life_shape s rest :
  life F (map EBlock s ++ EClose :: rest) =
  map Some (run F s) ++ Some [] :: map (fun _ => None) rest.
Proof. exact (g_life_shape F freq_positive s rest). Qed.

Lemma c_life_never_closed s : life F (map EBlock s) = map Some (run F s).
Proof. exact (g_life_never_closed F s). Qed.

Lemma c_life_increasing h :
  StronglySorted Z.lt (started_all (combine h (life F h))) /\
  forall w, In w (started_all (combine h (life F h))) ->
            (exists k, 0 < k /\ w = k * F) /\ In (EBlock w) h.
Proof.
  rewrite (g_life_started F freq_positive h). split.
  - apply c_strictly_increasing.
  - intros w Hw. destruct (c_only_window_starts _ _ Hw) as [H1 H2].
    split; [exact H1|apply first_sub_incl; exact H2].
Qed.

Lemma c_life_spec_sound obs :
  spec_ok F (CLife obs) = true ->
  StronglySorted Z.lt (started_all obs) /\
  (forall w, In w (started_all obs) ->
             (exists k, 0 < k /\ w = k * F) /\ In w (map fst (consumed obs))) /\
  map snd (consumed obs) = run F (map fst (consumed obs)).
Proof. exact (g_life_spec_sound F freq_positive obs). Qed.

Lemma c_life_model_passes_spec h :
  judge (CLife (combine h (life F h))) = Agree \/
  judge (CLife (combine h (life F h))) = BadCase.
Proof.
  unfold judge, judge_with. destruct (well_formed _); [left|right; reflexivity].
  unfold decide. cbn [spec_ok agree]. change freq with F.
  rewrite (g_life_model_passes_spec F freq_positive h).
  assert (length (life F h) = length h) as L by apply life_from_length.
  rewrite map_fst_combine, map_snd_combine by exact L.
  rewrite opt_lists_eqb_refl. reflexivity.
Qed.

(* a watcher that re-subscribed and KEPT its watermark would still be covered by the
   all-streams theorems (its received stream is the concatenation); one that forgets the
   watermark at a re-subscription is not: a replayed window start is started again *)
Lemma c_kept_watermark s1 s2 :
  fired F (s1 ++ s2) = fired F s1 ++ concat (run_from F (last_after F None s1) s2).
Proof. exact (g_cancellation_prefix F s1 s2). Qed.

Lemma c_forgotten_watermark_refuted :
  exists s1 s2, ~ StronglySorted Z.lt (fired F s1 ++ fired F s2).
Proof.
  exists [F], [F]. vm_compute. intros H. inversion H as [|a l _ Hall]; subst.
  inversion Hall as [|x y Hlt _]; subst. vm_compute in Hlt. discriminate.
Qed.

Example life_example :
  life F [EBlock F; EBlock (2 * F); EClose; EBlock F; EBlock (3 * F); EClose; EBlock (4 * F)] =
  [Some [F]; Some [2 * F]; Some []; None; None; None; None].
Proof. vm_compute. reflexivity. Qed.

(* the pure functions *)
Lemma c_index_spec b :
  0 <= b ->
  (0 < index F b <-> exists k, 0 < k /\ b = k * F) /\
  (0 < index F b -> index F b * F = b) /\ 0 <= index F b.
Proof.
  intros Hb. pose proof freq_positive as Hf. fold F in Hf.
  pose proof (index_pos F b Hf) as E.
  pose proof (is_window_start_spec F b Hf) as S.
  split; [|split].
  - rewrite <- S, <- E. symmetry. apply Z.ltb_lt.
  - unfold index. destruct (b mod F =? 0) eqn:M; [|lia].
    apply Z.eqb_eq in M. pose proof (Z_div_mod_eq_full b F). nia.
  - unfold index. destruct (b mod F =? 0); [|lia]. apply Z.div_pos; lia.
Qed.

(* hypotheses are satisfiable / the model computes: duplicates, a gap and a regression
   (stated relative to F so that it survives a change of the constant) *)
Example run_example :
  run F [F; F; 3 * F; 2 * F; 3 * F; 0; 4 * F] =
  [[F]; []; [3 * F]; []; []; []; [4 * F]]
  /\ Sorted Z.le [F; F; 2 * F] /\ (exists k, 0 < k /\ 2 * F = k * F).
Proof.
  split; [vm_compute; reflexivity|]. split.
  - repeat constructor; vm_compute; discriminate.
  - exists 2. split; reflexivity.
Qed.
