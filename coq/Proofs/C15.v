(* C15 — proofs about the model of the message-driven state machine (Model/C15.v). *)
From Coq Require Import ZArith NArith List Bool Lia Arith.
From KV Require Import Common.Verdict Model.C15.
Import ListNotations.
Open Scope N_scope.

(* ------------------------------------------------------------------ generic list facts *)
Lemma run_from_app : forall types prog a b s,
  run_from types prog s (a ++ b) =
  match run_from types prog s a with Some s' => run_from types prog s' b | None => None end.
Proof.
  induction a as [|e a IH]; intros b s; cbn [run_from app]; [reflexivity|].
  destruct (step types prog s e); [apply IH | reflexivity].
Qed.

Lemma run_split : forall types prog pre e post s,
  run types prog (pre ++ e :: post) = Some s ->
  exists s1 s2, run types prog pre = Some s1 /\ step types prog s1 e = Some s2 /\
                run_from types prog s2 post = Some s.
Proof.
  unfold run. intros types prog pre e post s H. rewrite run_from_app in H.
  destruct (run_from types prog init_state pre) as [s1|]; [|discriminate].
  cbn [run_from] in H. destruct (step types prog s1 e) as [s2|] eqn:E; [|discriminate].
  exists s1, s2. auto.
Qed.

Lemma all_ok_intro : forall f rest pre,
  (forall p e q, rest = p ++ e :: q -> f (pre ++ p) e = true) -> all_ok f pre rest = true.
Proof.
  induction rest as [|e t IH]; intros pre H; cbn [all_ok]; [reflexivity|].
  apply andb_true_intro; split.
  - specialize (H [] e t eq_refl). now rewrite app_nil_r in H.
  - apply IH. intros p e' q ->. rewrite <- app_assoc. cbn [app]. apply (H (e :: p) e' q). reflexivity.
Qed.

Lemma all_ok_elim : forall f rest pre,
  all_ok f pre rest = true -> forall p e q, rest = p ++ e :: q -> f (pre ++ p) e = true.
Proof.
  induction rest as [|e t IH]; intros pre H p e' q E.
  - destruct p; discriminate.
  - cbn [all_ok] in H. apply andb_prop in H as [H1 H2]. destruct p as [|x p]; cbn [app] in E.
    + injection E as -> _. now rewrite app_nil_r.
    + injection E as -> ->. specialize (IH _ H2 p e' q eq_refl).
      now rewrite <- app_assoc in IH.
Qed.

Lemma nth_flat_map_split : forall (A B : Type) (f : A -> list B),
  (forall a, (length (f a) <= 1)%nat) ->
  forall l i x, nth_error (flat_map f l) i = Some x ->
  exists pre a post, l = pre ++ a :: post /\ length (flat_map f pre) = i /\ f a = [x].
Proof.
  intros A B f Hf. induction l as [|a l IH]; intros i x H; cbn [flat_map] in H.
  - destruct i; discriminate.
  - specialize (Hf a) as Ha. destruct (f a) as [|y [|z r]] eqn:E; cbn [length] in Ha; [| |lia].
    + cbn [app] in H. destruct (IH _ _ H) as (pre & b & post & -> & L & F).
      exists (a :: pre), b, post. cbn [flat_map app]. rewrite E. cbn [app]. auto.
    + cbn [app] in H. destruct i as [|i]; cbn [nth_error] in H.
      * injection H as ->. exists [], a, l. cbn. auto.
      * destruct (IH _ _ H) as (pre & b & post & -> & L & F).
        exists (a :: pre), b, post. cbn [flat_map app]. rewrite E. cbn [app length]. auto.
Qed.

Lemma nth_id_seq : forall (l : list nat) b,
  (forall i k, nth_error l i = Some k -> k = (b + i)%nat) -> l = seq b (length l).
Proof.
  induction l as [|x l IH]; intros b H; cbn [length seq]; [reflexivity|].
  f_equal.
  - rewrite (H 0%nat x eq_refl). lia.
  - apply IH. intros i k Hi. rewrite (H (S i) k Hi). lia.
Qed.

(* ------------------------------------------------------------------ boolean equalities *)
Lemma msg_eqb_eq : forall a b, msg_eqb a b = true -> a = b.
Proof.
  intros [t1 i1 v1] [t2 i2 v2] H. unfold msg_eqb in H. cbn [mty mid mvalid] in H.
  apply andb_prop in H as [H H3]. apply andb_prop in H as [H1 H2].
  apply N.eqb_eq in H1, H2. apply Bool.eqb_prop in H3. subst. reflexivity.
Qed.
Lemma msg_eqb_refl : forall a, msg_eqb a a = true.
Proof. intros [t i v]. unfold msg_eqb. cbn. rewrite !N.eqb_refl, Bool.eqb_reflx. reflexivity. Qed.

Lemma listN_eqb_eq : forall a b, listN_eqb a b = true -> a = b.
Proof.
  induction a as [|x a IH]; destruct b as [|y b]; cbn [listN_eqb]; intros H; try discriminate; auto.
  apply andb_prop in H as [H1 H2]. apply N.eqb_eq in H1. subst. f_equal. now apply IH.
Qed.
Lemma listN_eqb_refl : forall a, listN_eqb a a = true.
Proof. induction a; cbn [listN_eqb]; [reflexivity|]. now rewrite N.eqb_refl, IHa. Qed.
Lemma snap_eqb_eq : forall a b, snap_eqb a b = true -> a = b.
Proof.
  induction a as [|x a IH]; destruct b as [|y b]; cbn [snap_eqb]; intros H; try discriminate; auto.
  apply andb_prop in H as [H1 H2]. apply listN_eqb_eq in H1. subst. f_equal. now apply IH.
Qed.
Lemma snap_eqb_refl : forall a, snap_eqb a a = true.
Proof. induction a; cbn [snap_eqb]; [reflexivity|]. now rewrite listN_eqb_refl, IHa. Qed.

Lemma outcome_eqb_eq : forall a b, outcome_eqb a b = true -> a = b.
Proof.
  intros [x|x|x|] [y|y|y|]; cbn [outcome_eqb]; intros H; try discriminate; auto;
    apply Nat.eqb_eq in H; now subst.
Qed.

(* ------------------------------------------------------------------ observations and append *)
Lemma inits_app : forall a b, inits (a ++ b) = inits a ++ inits b.
Proof. intros; apply flat_map_app. Qed.
Lemma initrets_app : forall a b, initrets (a ++ b) = initrets a ++ initrets b.
Proof. intros; apply flat_map_app. Qed.
Lemma nexts_app : forall a b, nexts (a ++ b) = nexts a ++ nexts b.
Proof. intros; apply flat_map_app. Qed.
Lemma recvs_app : forall a b, recvs (a ++ b) = recvs a ++ recvs b.
Proof. intros; apply flat_map_app. Qed.
Lemma accepted_app : forall a b, accepted (a ++ b) = accepted a ++ accepted b.
Proof. intros; apply flat_map_app. Qed.
Lemma dones_app : forall a b, dones (a ++ b) = dones a ++ dones b.
Proof. intros; apply flat_map_app. Qed.
Lemma admitted_app : forall a b, admitted (a ++ b) = admitted a ++ admitted b.
Proof. intros; apply flat_map_app. Qed.
Lemma signalled_app : forall k a b, signalled k (a ++ b) = signalled k a || signalled k b.
Proof. intros; apply existsb_app. Qed.
Lemma cancel_seen_app : forall a b, cancel_seen (a ++ b) = cancel_seen a || cancel_seen b.
Proof. intros; apply existsb_app. Qed.

Ltac obs_app :=
  rewrite ?inits_app, ?initrets_app, ?nexts_app, ?recvs_app, ?accepted_app, ?dones_app,
          ?admitted_app, ?signalled_app, ?cancel_seen_app;
  cbn [inits initrets nexts recvs accepted dones admitted signalled cancel_seen flat_map existsb app];
  rewrite ?app_nil_r, ?app_length, ?orb_false_r; cbn [length]; rewrite ?Nat.add_1_r, ?Nat.add_0_r.

(* ------------------------------------------------------------------ the invariant *)
Definition sig_of (p : phase) : bool := match p with PSignalled => true | _ => false end.

Definition ph_inv (prog : program) (evs : list event) (k : nat) (p : phase) : Prop :=
  signalled k evs = sig_of p /\
  match p with
  | PSpawned => length (inits evs) = k /\ length (initrets evs) = k
  | PInitiating => length (inits evs) = S k /\ length (initrets evs) = k
  | PInitFailed => length (inits evs) = S k /\ length (initrets evs) = S k /\
                   a_init_err (nth_ast prog k) = true
  | PPolling | PSignalled => length (inits evs) = S k /\ length (initrets evs) = S k /\
                             a_init_err (nth_ast prog k) = false
  end.

Definition mach_inv (prog : program) (evs : list event) (s : astate) : Prop :=
  match mach_ s with
  | Running =>
      dones evs = [] /\ length (nexts evs) = cur s /\ ph_inv prog evs (cur s) (ph s) /\
      (forall j, (cur s < j)%nat -> signalled j evs = false)
  | Exiting o =>
      dones evs = [] /\ length (nexts evs) = S (cur s) /\ ph s = PSignalled /\
      ((o = AErrNext (cur s) /\ a_next_err (nth_ast prog (cur s)) = true) \/
       (o = AFinal (cur s) /\ S (cur s) = length prog /\ a_next_err (nth_ast prog (cur s)) = false))
  | Done => dones evs <> []
  end.

Record Inv (prog : program) (evs : list event) (s : astate) : Prop := {
  i_hist : hist s = admitted evs;
  i_buf : map snd (recvs evs) ++ abuf s = accepted evs;
  i_cancel : cancelled s = cancel_seen evs;
  i_cnt : (length (nexts evs) <= length (inits evs) <= S (length (nexts evs)))%nat;
  i_mach : mach_inv prog evs s }.

Lemma inv_init : forall prog, Inv prog [] init_state.
Proof.
  intros. split; cbn; auto. unfold mach_inv, ph_inv. cbn. repeat split; auto.
Qed.

Ltac destr_if H :=
  match type of H with
  | (if ?c then _ else _) = Some _ =>
      let E := fresh "E" in destruct c eqn:E; [|discriminate H]
  end.

Ltac bools :=
  repeat match goal with
  | H : _ && _ = true |- _ => apply andb_prop in H; destruct H
  | H : Nat.eqb _ _ = true |- _ => apply Nat.eqb_eq in H
  | H : Nat.ltb _ _ = true |- _ => apply Nat.ltb_lt in H
  | H : N.eqb _ _ = true |- _ => apply N.eqb_eq in H
  | H : negb _ = true |- _ => apply negb_true_iff in H
  | H : Bool.eqb _ _ = true |- _ => apply Bool.eqb_prop in H
  | H : msg_eqb _ _ = true |- _ => apply msg_eqb_eq in H
  | H : snap_eqb _ _ = true |- _ => apply snap_eqb_eq in H
  | H : outcome_eqb _ _ = true |- _ => apply outcome_eqb_eq in H
  end.

Lemma signalled_other : forall k k' b, k <> k' ->
  (match MCan k' b with MCan k'' true => Nat.eqb k k'' | _ => false end) = false.
Proof. intros k k' [] H; [apply Nat.eqb_neq; exact H | reflexivity]. Qed.

Lemma mach_inv_env : forall prog pre e s s',
  (forall m a, e = EDeliver m a \/ e = ECancel -> True) ->
  match e with EDeliver _ _ | ECancel => True | _ => False end ->
  mach_ s' = mach_ s -> cur s' = cur s -> ph s' = ph s ->
  mach_inv prog pre s -> mach_inv prog (pre ++ [e]) s'.
Proof.
  intros prog pre e s s' _ He E1 E2 E3 Hm. unfold mach_inv in *. rewrite E1, E2, E3.
  destruct e; try contradiction; destruct (mach_ s).
  all: try (destruct Hm as (A & B & C & D); unfold ph_inv in *; obs_app;
            repeat split; auto; try (intros j Hj; obs_app; auto); tauto).
  all: obs_app; auto.
Qed.

Lemma step_inv : forall types prog pre s e s',
  Inv prog pre s -> step types prog s e = Some s' -> Inv prog (pre ++ [e]) s'.
Proof.
  intros types prog pre s e s' [Hh Hb Hc Hn Hm] Hs.
  destruct e as [m acc| |k snap|k|k b|k m|k snap|o]; cbn [step] in Hs.
  - (* EDeliver *)
    assert (Hkeep : Inv prog (pre ++ [EDeliver m false]) s).
    { split; obs_app; auto. apply (mach_inv_env prog pre _ s s); cbn; auto. }
    assert (Hpush : Inv prog (pre ++ [EDeliver m true])
              {| cur := cur s; ph := ph s; mach_ := mach_ s; cancelled := cancelled s;
                 abuf := abuf s ++ [m]; hist := hist s |}).
    { split; cbn [hist abuf cancelled]; obs_app; auto.
      - rewrite app_assoc, Hb. reflexivity.
      - apply (mach_inv_env prog pre _ s); cbn; auto. }
    destruct (mach_ s) eqn:Em.
    + destruct (cancelled s).
      * destruct acc; [discriminate|]. injection Hs as <-. exact Hkeep.
      * destruct acc.
        -- injection Hs as <-. exact Hpush.
        -- destr_if Hs. injection Hs as <-. exact Hkeep.
    + destruct (cancelled s && acc); [discriminate|]. injection Hs as <-.
      destruct acc; [exact Hpush | exact Hkeep].
    + destruct acc; [discriminate|]. injection Hs as <-. exact Hkeep.
  - (* ECancel *)
    injection Hs as <-. split; cbn [hist abuf cancelled]; obs_app; auto.
    + now rewrite orb_true_r.
    + apply (mach_inv_env prog pre _ s); cbn; auto.
  - (* MInit *)
    unfold mach_inv in Hm. destruct (mach_ s) eqn:Em; cbn [is_done] in Hs; try discriminate.
    + destruct (ph s) eqn:Ep; try discriminate. destr_if Hs. bools. subst k. injection Hs as <-.
      destruct Hm as (A & B & (C0 & C1 & C2) & D).
      split; cbn [hist abuf cancelled]; obs_app; auto; try lia.
      unfold mach_inv. cbn [mach_ cur ph]. obs_app. unfold ph_inv. obs_app. cbn [sig_of] in *.
      repeat split; auto; try lia. intros j Hj. obs_app. auto.
    + destruct Hm as (_ & _ & Ep & _). rewrite Ep in Hs. discriminate.
  - (* MInitRet *)
    unfold mach_inv in Hm. destruct (mach_ s) eqn:Em; cbn [is_done] in Hs; try discriminate.
    + destruct (ph s) eqn:Ep; try discriminate. destr_if Hs. bools. subst k. injection Hs as <-.
      destruct Hm as (A & B & (C0 & C1 & C2) & D).
      split; cbn [hist abuf cancelled]; obs_app; auto.
      unfold mach_inv. cbn [mach_ cur ph]. obs_app. unfold ph_inv. obs_app. cbn [sig_of] in *.
      destruct (a_init_err (nth_ast prog (cur s))) eqn:Ei; cbn [sig_of];
        (repeat split; auto; try lia; intros j Hj; obs_app; auto).
    + destruct Hm as (_ & _ & Ep & _). rewrite Ep in Hs. discriminate.
  - (* MCan *)
    unfold mach_inv in Hm. destruct (mach_ s) eqn:Em; cbn [is_done] in Hs; try discriminate.
    + destruct (ph s) eqn:Ep; try discriminate. destr_if Hs. bools. subst k. injection Hs as <-.
      destruct Hm as (A & B & (C0 & C1 & C2 & C3) & D).
      split; cbn [hist abuf cancelled]; obs_app; auto.
      unfold mach_inv. cbn [mach_ cur ph]. obs_app. unfold ph_inv. cbn [sig_of] in *.
      destruct b; cbn [sig_of]; obs_app; rewrite ?Nat.eqb_refl, ?orb_true_r, ?orb_false_r;
        (repeat split; auto; intros j Hj; obs_app;
         rewrite ?orb_false_r; auto; rewrite (D j Hj); cbn [orb]; apply Nat.eqb_neq; lia).
    + destruct Hm as (_ & _ & Ep & _). rewrite Ep in Hs. discriminate.
  - (* MRecv *)
    unfold mach_inv in Hm. destruct (mach_ s) eqn:Em; try discriminate.
    destruct (abuf s) as [|m' rest] eqn:Eb; [discriminate|]. destr_if Hs. bools. subst.
    injection Hs as <-. destruct Hm as (A & B & C & D).
    split; cbn [hist abuf cancelled]; obs_app; auto.
    + unfold receive_to_history. rewrite Hh. destruct (mvalid m'); [reflexivity | now rewrite app_nil_r].
    + rewrite map_app. cbn [map snd]. rewrite <- app_assoc. exact Hb.
    + unfold mach_inv. cbn [mach_ cur ph]. obs_app. split; [exact A|]. split; [exact B|]. split.
      * unfold ph_inv in *. obs_app. exact C.
      * intros j Hj. obs_app. auto.
  - (* MNext *)
    unfold mach_inv in Hm. destruct (mach_ s) eqn:Em; try discriminate.
    destruct (ph s) eqn:Ep; try discriminate. destr_if Hs. bools. subst k.
    destruct Hm as (A & B & (C0 & C1 & C2 & C3) & D).
    destruct (a_next_err (nth_ast prog (cur s))) eqn:En;
      [|destruct (Nat.eqb (S (cur s)) (length prog)) eqn:El]; injection Hs as <-;
      (split; cbn [hist abuf cancelled]; obs_app; auto; try lia);
      unfold mach_inv; cbn [mach_ cur ph]; obs_app.
    + repeat split; auto.
    + apply Nat.eqb_eq in El. repeat split; auto.
    + unfold ph_inv. cbn [sig_of]. obs_app.
      repeat match goal with |- _ /\ _ => split end;
        first [assumption | lia | (apply D; lia) | (intros j Hj; obs_app; apply D; lia)].
  - (* MDone *)
    unfold mach_inv in Hm.
    assert (Hfin : Inv prog (pre ++ [MDone o])
              {| cur := cur s; ph := ph s; mach_ := Done; cancelled := cancelled s;
                 abuf := abuf s; hist := hist s |}).
    { split; cbn [hist abuf cancelled]; obs_app; auto.
      unfold mach_inv. cbn [mach_]. obs_app. intros E. apply app_eq_nil in E as [_ E]. discriminate. }
    destruct (mach_ s) eqn:Em.
    + destruct o; try discriminate.
      * destruct (ph s); try discriminate. destr_if Hs. injection Hs as <-. exact Hfin.
      * destr_if Hs. injection Hs as <-. exact Hfin.
    + destr_if Hs. injection Hs as <-. exact Hfin.
    + discriminate.
Qed.

Lemma run_from_inv : forall types prog evs pre s s',
  Inv prog pre s -> run_from types prog s evs = Some s' -> Inv prog (pre ++ evs) s'.
Proof.
  induction evs as [|e evs IH]; intros pre s s' HI H; cbn [run_from] in H.
  - injection H as <-. now rewrite app_nil_r.
  - destruct (step types prog s e) as [s1|] eqn:E; [|discriminate].
    replace (pre ++ e :: evs) with ((pre ++ [e]) ++ evs) by (rewrite <- app_assoc; reflexivity).
    eapply IH; [|eassumption]. eapply step_inv; eassumption.
Qed.

Lemma run_inv : forall types prog evs s, run types prog evs = Some s -> Inv prog evs s.
Proof. intros. apply (run_from_inv types prog evs [] init_state s (inv_init _) H). Qed.

(* ------------------------------------------------------------------ every step of a valid trace
   satisfies the executable property *)
Lemma step_ev_ok : forall types prog pre s e s',
  Inv prog pre s -> step types prog s e = Some s' -> ev_ok types prog pre e = true.
Proof.
  intros types prog pre s e s' [Hh Hb Hc Hn Hm] Hs. unfold mach_inv in Hm.
  destruct e as [m acc| |k snap|k|k b|k m|k snap|o]; cbn [step] in Hs; cbn [ev_ok]; auto.
  - (* MInit *)
    destruct (mach_ s) eqn:Em; cbn [is_done] in Hs; try discriminate.
    + destruct (ph s) eqn:Ep; try discriminate. destr_if Hs. bools. subst.
      destruct Hm as (A & B & (C0 & C1 & C2) & D). rewrite A, B, C1, C2, <- Hh. cbn [is_nil andb].
      rewrite ?Nat.eqb_refl, snap_eqb_refl. cbn [andb].
      match goal with H : (cur s < length prog)%nat |- _ => apply Nat.ltb_lt in H; rewrite H end.
      reflexivity.
    + destruct Hm as (_ & _ & Ep & _). rewrite Ep in Hs. discriminate.
  - (* MInitRet *)
    destruct (mach_ s) eqn:Em; cbn [is_done] in Hs; try discriminate.
    + destruct (ph s) eqn:Ep; try discriminate. destr_if Hs. bools. subst.
      destruct Hm as (A & B & (C0 & C1 & C2) & D). rewrite A, C1, C2. cbn [is_nil andb].
      now rewrite ?Nat.eqb_refl.
    + destruct Hm as (_ & _ & Ep & _). rewrite Ep in Hs. discriminate.
  - (* MCan *)
    destruct (mach_ s) eqn:Em; cbn [is_done] in Hs; try discriminate.
    + destruct (ph s) eqn:Ep; try discriminate. destr_if Hs. bools. subst.
      destruct Hm as (A & B & (C0 & C1 & C2 & C3) & D). rewrite A, B, C2, C3, C0, <- Hh.
      cbn [is_nil andb sig_of negb]. rewrite ?Nat.eqb_refl. cbn [andb]. apply eqb_reflx.
    + destruct Hm as (_ & _ & Ep & _). rewrite Ep in Hs. discriminate.
  - (* MRecv *)
    destruct (mach_ s) eqn:Em; try discriminate.
    destruct (abuf s) as [|m' rest] eqn:Eb; [discriminate|]. destr_if Hs. bools. subst.
    destruct Hm as (A & B & C & D). rewrite A, B. cbn [is_nil andb]. rewrite Nat.eqb_refl. cbn [andb].
    rewrite <- Hb. rewrite nth_error_app2 by (rewrite map_length; lia).
    rewrite map_length, Nat.sub_diag. cbn [nth_error]. apply msg_eqb_refl.
  - (* MNext *)
    destruct (mach_ s) eqn:Em; try discriminate.
    destruct (ph s) eqn:Ep; try discriminate. destr_if Hs. bools. subst.
    destruct Hm as (A & B & (C0 & C1 & C2 & C3) & D). rewrite A, B, C2, C0, <- Hh.
    cbn [is_nil andb sig_of]. rewrite ?Nat.eqb_refl, snap_eqb_refl. reflexivity.
  - (* MDone *)
    destruct (mach_ s) eqn:Em.
    + destruct Hm as (A & B & (C0 & C) & D). rewrite A. cbn [is_nil andb].
      destruct o; try discriminate.
      * destruct (ph s) eqn:Ep; try discriminate. destr_if Hs. bools. subst.
        destruct C as (C1 & C2 & C3). rewrite C2, B, C3. now rewrite ?Nat.eqb_refl.
      * destr_if Hs. now rewrite <- Hc.
    + destr_if Hs. bools. subst. destruct Hm as (A & B & Ep & [[-> C]|[-> [C1 C2]]]); rewrite A, B;
        cbn [is_nil andb]; rewrite ?Nat.eqb_refl; cbn [andb].
      * exact C.
      * rewrite C1, Nat.eqb_refl, C2. reflexivity.
    + discriminate.
Qed.

Definition ok_trace (types : list N) (prog : program) (evs : list event) : Prop :=
  forall pre e post, evs = pre ++ e :: post -> ev_ok types prog pre e = true.

Lemma valid_ok_trace : forall types prog evs s,
  run types prog evs = Some s -> ok_trace types prog evs.
Proof.
  intros types prog evs s H pre e post ->.
  destruct (run_split _ _ _ _ _ _ H) as (s1 & s2 & H1 & H2 & _).
  eapply step_ev_ok; eauto using run_inv.
Qed.

Lemma spec_ok_trace : forall c, spec_ok c = true -> ok_trace (c_types c) (c_prog c) (c_events c).
Proof. intros c H pre e post E. exact (all_ok_elim _ _ _ H pre e post E). Qed.

Lemma model_passes_spec : forall types prog evs s settled,
  run types prog evs = Some s ->
  spec_ok {| c_types := types; c_prog := prog; c_settled := settled; c_events := evs |} = true.
Proof.
  intros. unfold spec_ok. cbn. apply all_ok_intro. intros p e q E. cbn [app].
  eapply valid_ok_trace; eauto.
Qed.

Lemma ok_prefix : forall types prog pre post,
  ok_trace types prog (pre ++ post) -> ok_trace types prog pre.
Proof.
  intros types prog pre post H p e q ->. apply (H p e (q ++ post)).
  rewrite <- app_assoc. reflexivity.
Qed.

Lemma is_nil_true : forall A (l : list A), is_nil l = true -> l = [].
Proof. destruct l; [reflexivity|discriminate]. Qed.

Ltac bools2 :=
  repeat match goal with
  | H : _ && _ = true |- _ => apply andb_prop in H; destruct H
  | H : is_nil _ = true |- _ => apply is_nil_true in H
  | H : Nat.eqb _ _ = true |- _ => apply Nat.eqb_eq in H
  | H : Nat.ltb _ _ = true |- _ => apply Nat.ltb_lt in H
  | H : N.eqb _ _ = true |- _ => apply N.eqb_eq in H
  | H : negb _ = true |- _ => apply negb_true_iff in H
  | H : Bool.eqb _ _ = true |- _ => apply Bool.eqb_prop in H
  | H : msg_eqb _ _ = true |- _ => apply msg_eqb_eq in H
  | H : snap_eqb _ _ = true |- _ => apply snap_eqb_eq in H
  end.

Lemma signalled_split : forall k evs, signalled k evs = true ->
  exists p q, evs = p ++ MCan k true :: q.
Proof.
  intros k evs H. unfold signalled in H. apply existsb_exists in H as (e & Hin & He).
  destruct e as [| | | |k' b| | |]; try discriminate. destruct b; [|discriminate].
  apply Nat.eqb_eq in He. subst k'. apply in_split in Hin as (p & q & ->). eauto.
Qed.

(* advance_only_after_init_and_can_transition *)
Lemma ok_advance : forall types prog pre k snap post,
  ok_trace types prog (pre ++ MNext k snap :: post) ->
  length (nexts pre) = k /\ length (initrets pre) = S k /\ dones pre = [] /\
  exists p q, pre = p ++ MCan k true :: q /\
              length (initrets p) = S k /\ a_init_err (nth_ast prog k) = false /\
              can_transition (nth_ast prog k) (admitted p) = true.
Proof.
  intros types prog pre k snap post H.
  pose proof (H _ _ _ eq_refl) as E. cbn [ev_ok] in E. bools2.
  repeat split; auto.
  match goal with Hs : signalled k pre = true |- _ => destruct (signalled_split _ _ Hs) as (p & q & ->) end.
  exists p, q. split; [reflexivity|].
  assert (Hp : ok_trace types prog (p ++ MCan k true :: q)).
  { eapply ok_prefix. rewrite <- app_assoc. cbn [app]. rewrite <- app_assoc in H. exact H. }
  pose proof (Hp _ _ _ eq_refl) as E2. cbn [ev_ok] in E2. bools2. repeat split; auto.
  all: try (match goal with Hc : true = can_transition _ _ |- _ => now rewrite <- Hc end).
Qed.

(* CanTransition is never asked before Initiate returned, never after a failed Initiate, and its
   answer is the one the admitted messages determine *)
Lemma ok_can : forall types prog pre k b post,
  ok_trace types prog (pre ++ MCan k b :: post) ->
  length (initrets pre) = S k /\ length (nexts pre) = k /\ a_init_err (nth_ast prog k) = false /\
  b = can_transition (nth_ast prog k) (admitted pre).
Proof.
  intros types prog pre k b post H.
  pose proof (H _ _ _ eq_refl) as E. cbn [ev_ok] in E. bools2. auto.
Qed.

(* history_monotone *)
Lemma hist_is_admitted : forall types prog evs s,
  run types prog evs = Some s -> hist s = admitted evs.
Proof. intros. apply (i_hist _ _ _ (run_inv _ _ _ _ H)). Qed.

Lemma fifo_no_loss : forall types prog evs s,
  run types prog evs = Some s -> map snd (recvs evs) ++ abuf s = accepted evs.
Proof. intros. apply (i_buf _ _ _ (run_inv _ _ _ _ H)). Qed.

Lemma of_type_app : forall ty a b, of_type ty (a ++ b) = of_type ty a ++ of_type ty b.
Proof. intros. unfold of_type. now rewrite filter_app, map_app. Qed.

Lemma ok_snapshots : forall types prog pre k snap post,
  (ok_trace types prog (pre ++ MInit k snap :: post) \/
   ok_trace types prog (pre ++ MNext k snap :: post)) ->
  snap = snapshot_of types (admitted pre).
Proof.
  intros types prog pre k snap post [H|H]; pose proof (H _ _ _ eq_refl) as E; cbn [ev_ok] in E;
    bools2; assumption.
Qed.

Lemma ok_recv : forall types prog pre k m post,
  ok_trace types prog (pre ++ MRecv k m :: post) ->
  length (nexts pre) = k /\ nth_error (accepted pre) (length (recvs pre)) = Some m /\ dones pre = [].
Proof.
  intros types prog pre k m post H.
  pose proof (H _ _ _ eq_refl) as E. cbn [ev_ok] in E. bools2.
  destruct (nth_error (accepted pre) (length (recvs pre))) as [m'|]; [|discriminate].
  bools2. subst. auto.
Qed.

(* a message admitted by any state is in every later snapshot: later states see it *)
Lemma later_states_see : forall types prog pre1 j m mid_ k snap post,
  (ok_trace types prog (pre1 ++ MRecv j m :: mid_ ++ MInit k snap :: post) \/
   ok_trace types prog (pre1 ++ MRecv j m :: mid_ ++ MNext k snap :: post)) ->
  mvalid m = true ->
  forall i ty, nth_error types i = Some ty -> mty m = ty ->
  exists l, nth_error snap i = Some l /\ In (C15.mid m) l.
Proof.
  intros types prog pre1 j m mid_ k snap post H Hv i ty Hi Ht.
  assert (Hs : snap = snapshot_of types (admitted (pre1 ++ MRecv j m :: mid_))).
  { destruct H as [H|H]; [eapply (ok_snapshots types prog _ k snap post); left
                         | eapply (ok_snapshots types prog _ k snap post); right];
      rewrite <- app_assoc; cbn [app]; exact H. }
  subst snap. unfold snapshot_of. rewrite nth_error_map, Hi. cbn [option_map].
  eexists; split; [reflexivity|].
  rewrite admitted_app. cbn [admitted flat_map]. rewrite Hv. cbn [app].
  rewrite !of_type_app. apply in_or_app. right. unfold of_type at 1. cbn [filter].
  rewrite Ht, N.eqb_refl. cbn [map]. left. reflexivity.
Qed.

(* ends_final_or_error_or_cancel *)
Lemma ok_done : forall types prog pre o post,
  ok_trace types prog (pre ++ MDone o :: post) ->
  dones pre = [] /\
  match o with
  | AFinal k => S k = length prog /\ length (nexts pre) = length prog /\
                a_next_err (nth_ast prog k) = false
  | AErrInit k => a_init_err (nth_ast prog k) = true /\ length (initrets pre) = S k /\
                  length (nexts pre) = k
  | AErrNext k => a_next_err (nth_ast prog k) = true /\ length (nexts pre) = S k
  | ACancelled => In ECancel pre
  end.
Proof.
  intros types prog pre o post H.
  pose proof (H _ _ _ eq_refl) as E. cbn [ev_ok] in E. bools2. split; [assumption|].
  destruct o; bools2; repeat split; auto; try congruence.
  unfold cancel_seen in *. match goal with Hc : existsb _ pre = true |- _ =>
    apply existsb_exists in Hc as (e & Hin & He) end. destruct e; try discriminate. exact Hin.
Qed.

Definition is_env (e : event) : bool :=
  match e with EDeliver _ _ | ECancel => true | _ => false end.

Lemma ok_nothing_after_done : forall types prog pre o post,
  ok_trace types prog (pre ++ MDone o :: post) -> forallb is_env post = true.
Proof.
  intros types prog pre o post H. apply forallb_forall. intros e Hin.
  apply in_split in Hin as (p & q & ->).
  specialize (H (pre ++ MDone o :: p) e q). rewrite <- app_assoc in H. specialize (H eq_refl).
  destruct e; cbn [is_env]; auto; cbn [ev_ok] in H; rewrite dones_app in H;
    cbn [dones flat_map app] in H; destruct (dones pre); cbn in H; discriminate.
Qed.

(* state_sequence_is_prefix_of_program *)
Lemma ok_state_sequence : forall types prog evs,
  ok_trace types prog evs ->
  inits evs = seq 0 (length (inits evs)) /\ (length (inits evs) <= length prog)%nat /\
  nexts evs = seq 0 (length (nexts evs)) /\ initrets evs = seq 0 (length (initrets evs)).
Proof.
  intros types prog evs H.
  assert (Hi : forall i k, nth_error (inits evs) i = Some k -> k = i /\ (k < length prog)%nat).
  { intros i k Hn.
    destruct (nth_flat_map_split _ _ (fun e => match e with MInit k _ => [k] | _ => [] end)
                ltac:(intros []; cbn; lia) _ _ _ Hn) as (pre & a & post & E & L & F).
    destruct a; try discriminate. injection F as ->.
    specialize (H _ _ _ E). cbn [ev_ok] in H. fold (inits pre) in L. bools2. subst. auto. }
  assert (Hn : forall i k, nth_error (nexts evs) i = Some k -> k = i).
  { intros i k Hn.
    destruct (nth_flat_map_split _ _ (fun e => match e with MNext k _ => [k] | _ => [] end)
                ltac:(intros []; cbn; lia) _ _ _ Hn) as (pre & a & post & E & L & F).
    destruct a; try discriminate. injection F as ->.
    specialize (H _ _ _ E). cbn [ev_ok] in H. fold (nexts pre) in L. bools2. subst. auto. }
  assert (Hr : forall i k, nth_error (initrets evs) i = Some k -> k = i).
  { intros i k Hr.
    destruct (nth_flat_map_split _ _ (fun e => match e with MInitRet k => [k] | _ => [] end)
                ltac:(intros []; cbn; lia) _ _ _ Hr) as (pre & a & post & E & L & F).
    destruct a; try discriminate. injection F as ->.
    specialize (H _ _ _ E). cbn [ev_ok] in H. fold (initrets pre) in L. bools2. subst. auto. }
  repeat split.
  - apply nth_id_seq. intros i k Hk. now destruct (Hi i k Hk).
  - destruct (length (inits evs)) as [|n] eqn:El; [lia|].
    destruct (nth_error (inits evs) n) as [k|] eqn:En.
    + destruct (Hi _ _ En). lia.
    + apply nth_error_None in En. lia.
  - apply nth_id_seq. intros i k Hk. now rewrite (Hn i k Hk).
  - apply nth_id_seq. intros i k Hk. now rewrite (Hr i k Hk).
Qed.

Lemma state_counts : forall types prog evs s,
  run types prog evs = Some s ->
  (length (nexts evs) <= length (inits evs) <= S (length (nexts evs)))%nat.
Proof. intros. apply (i_cnt _ _ _ (run_inv _ _ _ _ H)). Qed.

(* ------------------------------------------------------------------ the hypotheses are
   satisfiable: a late member that receives everything while still initiating state 0 *)
Definition ex_prog : program :=
  [ {| a_type := 1; a_need := 1; a_init_err := false; a_next_err := false |};
    {| a_type := 2; a_need := 1; a_init_err := false; a_next_err := false |} ].
Definition m1 : msg := {| mty := 1; mid := 7; mvalid := true |}.
Definition m2 : msg := {| mty := 2; mid := 8; mvalid := true |}.
Definition ex_events : list event :=
  [ MInit 0 [[]; []]; EDeliver m2 true; MRecv 0 m2; EDeliver m1 true; MRecv 0 m1; MInitRet 0;
    MCan 0 true; MNext 0 [[7]; [8]]; MInit 1 [[7]; [8]]; MInitRet 1; MCan 1 true; MNext 1 [[7]; [8]];
    MDone (AFinal 1) ].
Example ex_run : exists s, run [1; 2] ex_prog ex_events = Some s /\ mach_ s = Done.
Proof. vm_compute. eexists; split; reflexivity. Qed.

(* ------------------------------------------------------------------ statements for valid traces *)
Lemma advance_only_after_init_and_can_transition : forall types prog pre k snap post s,
  run types prog (pre ++ MNext k snap :: post) = Some s ->
  length (nexts pre) = k /\ length (initrets pre) = S k /\ dones pre = [] /\
  exists p q, pre = p ++ MCan k true :: q /\
              length (initrets p) = S k /\ a_init_err (nth_ast prog k) = false /\
              can_transition (nth_ast prog k) (admitted p) = true.
Proof. intros. eapply ok_advance. eapply valid_ok_trace; eassumption. Qed.

Lemma can_transition_only_after_init : forall types prog pre k b post s,
  run types prog (pre ++ MCan k b :: post) = Some s ->
  length (initrets pre) = S k /\ length (nexts pre) = k /\ a_init_err (nth_ast prog k) = false /\
  b = can_transition (nth_ast prog k) (admitted pre).
Proof. intros. eapply ok_can. eapply valid_ok_trace; eassumption. Qed.

Lemma history_monotone : forall types prog evs s,
  run types prog evs = Some s ->
  hist s = admitted evs /\
  map snd (recvs evs) ++ abuf s = accepted evs /\
  (forall pre post, evs = pre ++ post ->
     forall ty, exists l, of_type ty (admitted evs) = of_type ty (admitted pre) ++ l) /\
  (forall pre k snap post, evs = pre ++ MInit k snap :: post \/ evs = pre ++ MNext k snap :: post ->
     snap = snapshot_of types (admitted pre)) /\
  (forall pre k m post, evs = pre ++ MRecv k m :: post ->
     length (nexts pre) = k /\ nth_error (accepted pre) (length (recvs pre)) = Some m).
Proof.
  intros types prog evs s H. pose proof (valid_ok_trace _ _ _ _ H) as Hok. repeat split.
  - eapply hist_is_admitted; eauto.
  - eapply fifo_no_loss; eauto.
  - intros pre post -> ty. rewrite admitted_app, of_type_app. eauto.
  - intros pre k snap post [E|E]; rewrite E in Hok;
      [eapply (ok_snapshots types prog pre k snap post); left
      |eapply (ok_snapshots types prog pre k snap post); right]; exact Hok.
  - rewrite H0 in Hok. now destruct (ok_recv _ _ _ _ _ _ Hok).
  - rewrite H0 in Hok. now destruct (ok_recv _ _ _ _ _ _ Hok) as (_ & ? & _).
Qed.

Lemma later_states_see_earlier_messages : forall types prog pre1 j m mid_ k snap post s,
  (run types prog (pre1 ++ MRecv j m :: mid_ ++ MInit k snap :: post) = Some s \/
   run types prog (pre1 ++ MRecv j m :: mid_ ++ MNext k snap :: post) = Some s) ->
  mvalid m = true ->
  forall i ty, nth_error types i = Some ty -> mty m = ty ->
  exists l, nth_error snap i = Some l /\ In (C15.mid m) l.
Proof.
  intros types prog pre1 j m mid_ k snap post s H. eapply later_states_see.
  destruct H as [H|H]; [left|right]; eapply valid_ok_trace; eassumption.
Qed.

Lemma ends_final_or_error_or_cancel : forall types prog pre o post s,
  run types prog (pre ++ MDone o :: post) = Some s ->
  dones pre = [] /\ forallb is_env post = true /\
  match o with
  | AFinal k => S k = length prog /\ length (nexts pre) = length prog /\
                a_next_err (nth_ast prog k) = false
  | AErrInit k => a_init_err (nth_ast prog k) = true /\ length (initrets pre) = S k /\
                  length (nexts pre) = k
  | AErrNext k => a_next_err (nth_ast prog k) = true /\ length (nexts pre) = S k
  | ACancelled => In ECancel pre
  end.
Proof.
  intros types prog pre o post s H. pose proof (valid_ok_trace _ _ _ _ H) as Hok.
  destruct (ok_done _ _ _ _ _ Hok) as [A B]. repeat split; auto.
  eapply ok_nothing_after_done; eauto.
Qed.

Lemma state_sequence_is_prefix_of_program : forall types prog evs s,
  run types prog evs = Some s ->
  inits evs = seq 0 (length (inits evs)) /\ (length (inits evs) <= length prog)%nat /\
  nexts evs = seq 0 (length (nexts evs)) /\ initrets evs = seq 0 (length (initrets evs)) /\
  (length (nexts evs) <= length (inits evs) <= S (length (nexts evs)))%nat.
Proof.
  intros types prog evs s H.
  destruct (ok_state_sequence _ _ _ (valid_ok_trace _ _ _ _ H)) as (A & B & C & D).
  repeat split; auto; apply (state_counts _ _ _ _ H).
Qed.

Lemma spec_sound : forall c, spec_ok c = true ->
  let types := c_types c in let prog := c_prog c in let evs := c_events c in
  (forall pre k snap post, evs = pre ++ MNext k snap :: post ->
     length (nexts pre) = k /\ length (initrets pre) = S k /\
     exists p q, pre = p ++ MCan k true :: q /\ length (initrets p) = S k /\
                 a_init_err (nth_ast prog k) = false /\
                 can_transition (nth_ast prog k) (admitted p) = true) /\
  (forall pre k snap post, evs = pre ++ MInit k snap :: post \/ evs = pre ++ MNext k snap :: post ->
     snap = snapshot_of types (admitted pre)) /\
  (forall pre k m post, evs = pre ++ MRecv k m :: post ->
     length (nexts pre) = k /\ nth_error (accepted pre) (length (recvs pre)) = Some m) /\
  (forall pre o post, evs = pre ++ MDone o :: post ->
     dones pre = [] /\ forallb is_env post = true /\
     match o with
     | AFinal k => S k = length prog /\ length (nexts pre) = length prog
     | AErrInit k => a_init_err (nth_ast prog k) = true /\ length (initrets pre) = S k
     | AErrNext k => a_next_err (nth_ast prog k) = true /\ length (nexts pre) = S k
     | ACancelled => In ECancel pre
     end) /\
  (inits evs = seq 0 (length (inits evs)) /\ (length (inits evs) <= length prog)%nat /\
   nexts evs = seq 0 (length (nexts evs))).
Proof.
  intros c H types prog evs. apply spec_ok_trace in H. fold types prog evs in H.
  split; [|split; [|split; [|split]]].
  - intros pre k snap post E. rewrite E in H.
    destruct (ok_advance _ _ _ _ _ _ H) as (A & B & _ & D). auto.
  - intros pre k snap post [E|E]; rewrite E in H;
      [eapply (ok_snapshots types prog pre k snap post); left
      |eapply (ok_snapshots types prog pre k snap post); right]; exact H.
  - intros pre k m post E. rewrite E in H. destruct (ok_recv _ _ _ _ _ _ H) as (A & B & _). auto.
  - intros pre o post E. rewrite E in H. destruct (ok_done _ _ _ _ _ H) as [A B].
    split; [exact A|]. split; [eapply ok_nothing_after_done; eauto|].
    destruct o; intuition.
  - destruct (ok_state_sequence _ _ _ H) as (A & B & C & _). auto.
Qed.

(* ================================================================== the bounded receive buffer *)
Lemma run_snoc : forall types prog evs s e s',
  run types prog evs = Some s -> step types prog s e = Some s' ->
  run types prog (evs ++ [e]) = Some s'.
Proof.
  unfold run. intros types prog evs s e s' H1 H2. rewrite run_from_app, H1. cbn [run_from].
  now rewrite H2.
Qed.

Lemma brun_from_app : forall cap types prog a b0 s,
  brun_from cap types prog s (a ++ b0) =
  match brun_from cap types prog s a with Some s' => brun_from cap types prog s' b0 | None => None end.
Proof.
  induction a as [|l a IH]; intros b0 s; cbn [brun_from app]; [reflexivity|].
  destruct (bstep cap types prog s l); [apply IH | reflexivity].
Qed.

Lemma brun_snoc_inv : forall cap types prog ls l b,
  brun cap types prog (ls ++ [l]) = Some b ->
  exists b1, brun cap types prog ls = Some b1 /\ bstep cap types prog b1 l = Some b.
Proof.
  unfold brun. intros cap types prog ls l b H. rewrite brun_from_app in H.
  destruct (brun_from cap types prog binit ls) as [b1|]; [|discriminate].
  cbn [brun_from] in H. destruct (bstep cap types prog b1 l) as [b2|] eqn:E; [|discriminate].
  injection H as <-. eauto.
Qed.

Lemma brun_split : forall cap types prog pre l post b,
  brun cap types prog (pre ++ l :: post) = Some b ->
  exists b1 b2, brun cap types prog pre = Some b1 /\ bstep cap types prog b1 l = Some b2.
Proof.
  unfold brun. intros cap types prog pre l post b H. rewrite brun_from_app in H.
  destruct (brun_from cap types prog binit pre) as [b1|]; [|discriminate].
  cbn [brun_from] in H. destruct (bstep cap types prog b1 l) as [b2|] eqn:E; [|discriminate]. eauto.
Qed.

Lemma erase_app : forall a b, erase (a ++ b) = erase a ++ erase b.
Proof. intros; apply flat_map_app. Qed.
Lemma sched_of_app : forall a b, sched_of (a ++ b) = sched_of a ++ sched_of b.
Proof. intros; apply flat_map_app. Qed.
Lemma rets_app : forall a b, rets (a ++ b) = (rets a + rets b)%nat.
Proof. intros. unfold rets. now rewrite filter_app, app_length. Qed.

(* only MRecv takes a message out of the queue; nothing else shortens it *)
Lemma step_abuf_len : forall types prog s e s',
  step types prog s e = Some s' ->
  match e with
  | MRecv _ _ => length (abuf s) = S (length (abuf s'))
  | _ => (length (abuf s) <= length (abuf s'))%nat
  end.
Proof.
  intros types prog s e s' H.
  destruct e as [m acc| |k snap|k|k b|k m|k snap|o]; cbn [step] in H;
    repeat match type of H with
           | context [match ?x with _ => _ end] => destruct x eqn:?; try discriminate H
           end;
    try (injection H as <-); cbn [abuf]; rewrite ?app_length; cbn [length]; try lia.
  all: match goal with E : abuf _ = _ :: _ |- _ => rewrite E; reflexivity end.
Qed.

Record Binv (cap : nat) (types : list N) (prog : program) (ls : list blabel) (b : bstate) : Prop := {
  bi_run : run types prog (erase ls) = Some (core b);
  bi_hand : (nhand b <= 1)%nat;
  bi_chan : (nchan b <= cap)%nat;
  bi_len : (nhand b + nchan b <= length (abuf (core b)))%nat;
  bi_ret : (rets ls + unret b = length (recvs (erase ls)) + nhand b + nchan b)%nat }.

Lemma binv_init : forall cap types prog, Binv cap types prog [] binit.
Proof. intros. split; cbn; auto; lia. Qed.

Lemma recvs_single : forall e,
  length (recvs [e]) = match e with MRecv _ _ => 1%nat | _ => 0%nat end.
Proof. destruct e; reflexivity. Qed.

Lemma bstep_inv : forall cap types prog ls b l b',
  Binv cap types prog ls b -> bstep cap types prog b l = Some b' ->
  Binv cap types prog (ls ++ [l]) b'.
Proof.
  intros cap types prog ls b l b' [Hr Hh Hc Hl Ht] Hs.
  destruct l as [e| | |].
  - (* LEv *)
    assert (Hgen : forall c, step types prog (core b) e = Some c ->
              run types prog (erase (ls ++ [LEv e])) = Some c).
    { intros c Hc'. rewrite erase_app. cbn [erase flat_map app]. eapply run_snoc; eassumption. }
    assert (Hrets : rets (ls ++ [LEv e]) = rets ls).
    { rewrite rets_app. unfold rets at 2. cbn. lia. }
    assert (Hrecvs : length (recvs (erase (ls ++ [LEv e]))) =
                     (length (recvs (erase ls)) + length (recvs [e]))%nat).
    { rewrite erase_app, recvs_app, app_length. reflexivity. }
    destruct e as [m acc| |k snap|k|k b0|k m|k snap|o]; cbn [bstep] in Hs.
    6: { (* MRecv *)
      destruct (Nat.eqb (nhand b) 1) eqn:E1; [|discriminate]. apply Nat.eqb_eq in E1.
      destruct (step types prog (core b) (MRecv k m)) as [c|] eqn:Ec; [|discriminate].
      injection Hs as <-. pose proof (step_abuf_len _ _ _ _ _ Ec) as Hlen. cbn beta iota in Hlen.
      split; cbn [core nhand nchan unret]; auto; try lia.
      rewrite Hrets, Hrecvs, recvs_single. lia. }
    all: match type of Hs with
         | match step ?t ?p ?s ?ev with _ => _ end = _ =>
             destruct (step t p s ev) as [c|] eqn:Ec; [|discriminate Hs];
             injection Hs as <-; pose proof (step_abuf_len _ _ _ _ _ Ec) as Hlen; cbn beta iota in Hlen;
             split; cbn [core nhand nchan unret]; auto; try lia;
             rewrite Hrets, Hrecvs, recvs_single; lia
         end.
  - (* LEnq *)
    cbn [bstep] in Hs.
    destruct (Nat.ltb (nhand b + nchan b) (length (abuf (core b))) && Nat.ltb (nchan b) cap) eqn:E;
      [|discriminate]. apply andb_prop in E as [E1 E2]. apply Nat.ltb_lt in E1, E2.
    injection Hs as <-.
    split; cbn [core nhand nchan unret]; auto; try lia.
    + rewrite erase_app. cbn [erase flat_map app]. now rewrite app_nil_r.
    + rewrite rets_app, erase_app. cbn [erase flat_map app]. rewrite app_nil_r. unfold rets at 2. cbn. lia.
  - (* LPop *)
    cbn [bstep] in Hs.
    destruct (Nat.eqb (nhand b) 0 && Nat.ltb 0 (nchan b) && is_running (mach_ (core b))) eqn:E;
      [|discriminate]. apply andb_prop in E as [E E3]. apply andb_prop in E as [E1 E2].
    apply Nat.eqb_eq in E1. apply Nat.ltb_lt in E2. injection Hs as <-.
    split; cbn [core nhand nchan unret]; auto; try lia.
    + rewrite erase_app. cbn [erase flat_map app]. now rewrite app_nil_r.
    + rewrite rets_app, erase_app. cbn [erase flat_map app]. rewrite app_nil_r. unfold rets at 2. cbn. lia.
  - (* LRet *)
    cbn [bstep] in Hs. destruct (Nat.ltb 0 (unret b)) eqn:E; [|discriminate]. apply Nat.ltb_lt in E.
    injection Hs as <-.
    split; cbn [core nhand nchan unret]; auto; try lia.
    + rewrite erase_app. cbn [erase flat_map app]. now rewrite app_nil_r.
    + rewrite rets_app, erase_app. cbn [erase flat_map app]. rewrite app_nil_r. unfold rets at 2. cbn. lia.
Qed.

Lemma brun_inv : forall cap types prog ls b,
  brun cap types prog ls = Some b -> Binv cap types prog ls b.
Proof.
  intros cap types prog ls. induction ls as [|l ls IH] using rev_ind; intros b H.
  - injection H as <-. apply binv_init.
  - destruct (brun_snoc_inv _ _ _ _ _ _ H) as (b1 & H1 & H2). eapply bstep_inv; eauto.
Qed.

(* every run with the buffer, whatever its capacity, is a run of the machine above *)
Lemma bounded_refines_unbounded : forall cap types prog ls b,
  brun cap types prog ls = Some b -> run types prog (erase ls) = Some (core b).
Proof. intros. apply (bi_run _ _ _ _ _ (brun_inv _ _ _ _ _ H)). Qed.

Lemma skipn_add : forall (A : Type) (a c : nat) (l : list A), skipn (a + c) l = skipn c (skipn a l).
Proof.
  induction a as [|a IH]; intros c l; [reflexivity|]. destruct l as [|x l]; cbn [Nat.add skipn].
  - now destruct c.
  - apply IH.
Qed.

Lemma queue_parts : forall b, inhand b ++ inchan b ++ blocked b = abuf (core b).
Proof.
  intros b. unfold inhand, inchan, blocked. rewrite skipn_add.
  rewrite (firstn_skipn (nchan b)). apply firstn_skipn.
Qed.

(* delivered ++ in hand ++ channel ++ blocked producers = everything handed to the handler, in
   order: nothing dropped, nothing duplicated, nothing reordered; the channel never exceeds its
   capacity; the handler calls that returned (or are about to) are exactly the messages that
   made it into the channel *)
Lemma bounded_buffer_fifo_no_drop : forall cap types prog ls b,
  brun cap types prog ls = Some b ->
  map snd (recvs (erase ls)) ++ inhand b ++ inchan b ++ blocked b = accepted (erase ls) /\
  (length (inchan b) <= cap)%nat /\ (length (inhand b) <= 1)%nat /\
  length (inhand b) = nhand b /\ length (inchan b) = nchan b /\
  (rets ls + unret b = length (recvs (erase ls)) + length (inhand b) + length (inchan b))%nat /\
  hist (core b) = admitted (erase ls).
Proof.
  intros cap types prog ls b H. destruct (brun_inv _ _ _ _ _ H) as [Hr Hh Hc Hl Ht].
  assert (L1 : length (inhand b) = nhand b).
  { unfold inhand. rewrite firstn_length. lia. }
  assert (L2 : length (inchan b) = nchan b).
  { unfold inchan. rewrite firstn_length, skipn_length. lia. }
  rewrite queue_parts, L1, L2. repeat split; auto.
  - eapply fifo_no_loss; eassumption.
  - eapply hist_is_admitted; eassumption.
Qed.

(* the producer blocks: when a handler call returns, its message has room *)
Lemma handler_returns_only_with_room : forall cap types prog pre post b,
  brun cap types prog (pre ++ LRet :: post) = Some b ->
  (S (rets pre) <= length (recvs (erase pre)) + cap + 1)%nat.
Proof.
  intros cap types prog pre post b H. destruct (brun_split _ _ _ _ _ _ _ H) as (b1 & b2 & H1 & H2).
  destruct (brun_inv _ _ _ _ _ H1) as [Hr Hh Hc Hl Ht]. cbn [bstep] in H2.
  destruct (Nat.ltb 0 (unret b1)) eqn:E; [|discriminate]. apply Nat.ltb_lt in E. lia.
Qed.

(* ... and it is never blocked for good while the loop runs (capacity >= 1): some step of the
   buffer or the next Receive is enabled *)
Lemma producer_not_stuck : forall cap types prog ls b,
  (1 <= cap)%nat -> brun cap types prog ls = Some b ->
  mach_ (core b) = Running -> blocked b <> [] ->
  exists l, (l = LEnq \/ l = LPop \/ exists m, l = LEv (MRecv (cur (core b)) m)) /\
            bstep cap types prog b l <> None.
Proof.
  intros cap types prog ls b Hcap H Hm Hb. destruct (brun_inv _ _ _ _ _ H) as [Hr Hh Hc Hl Ht].
  assert (Hlt : (nhand b + nchan b < length (abuf (core b)))%nat).
  { unfold blocked in Hb. destruct (Nat.lt_ge_cases (nhand b + nchan b) (length (abuf (core b)))) as [L|L]; [exact L|].
    exfalso. apply Hb. apply skipn_all2. exact L. }
  destruct (nhand b) as [|[|n]] eqn:En; [| |lia].
  - destruct (nchan b) as [|c] eqn:Ec.
    + exists LEnq. split; [auto|]. cbn [bstep]. rewrite En, Ec.
      replace (Nat.ltb (0 + 0) (length (abuf (core b)))) with true by (symmetry; apply Nat.ltb_lt; lia).
      replace (Nat.ltb 0 cap) with true by (symmetry; apply Nat.ltb_lt; lia). discriminate.
    + exists LPop. split; [auto|]. cbn [bstep]. rewrite En, Ec, Hm. discriminate.
  - destruct (abuf (core b)) as [|m rest] eqn:Ea; [cbn in Hlt; lia|].
    exists (LEv (MRecv (cur (core b)) m)). split; [eauto|]. cbn [bstep step]. rewrite En, Hm, Ea.
    cbn [Nat.eqb]. rewrite Nat.eqb_refl, msg_eqb_refl. discriminate.
Qed.

(* ------------------------------------------------------------------ the executable order check *)
Definition cntT (s : list bool) : nat := length (filter (fun x => x) s).
Definition cntF (s : list bool) : nat := length (filter negb s).

Lemma sched_ok_from_snoc : forall cap s r e x,
  sched_ok_from cap r e (s ++ [x]) =
  sched_ok_from cap r e s &&
  (if x then Nat.leb (S (r + cntT s)) (e + cntF s + cap + 1) else true).
Proof.
  induction s as [|y s IH]; intros r e x; cbn [app sched_ok_from].
  - unfold cntT, cntF. cbn. rewrite !Nat.add_0_r. destruct x; cbn [sched_ok_from];
      now rewrite ?andb_true_r.
  - destruct y; cbn [sched_ok_from]; rewrite IH; unfold cntT, cntF; cbn [filter negb length].
    + rewrite <- andb_assoc. do 2 f_equal. destruct x; [|reflexivity].
      now rewrite <- !plus_n_Sm.
    + f_equal. destruct x; [|reflexivity]. now rewrite <- !plus_n_Sm.
Qed.

Lemma cnt_sched_of : forall ls,
  cntT (sched_of ls) = rets ls /\ cntF (sched_of ls) = length (recvs (erase ls)).
Proof.
  induction ls as [|l ls [IH1 IH2]]; [split; reflexivity|].
  unfold cntT, cntF, rets in *. cbn [sched_of erase flat_map]. fold (sched_of ls) (erase ls).
  rewrite recvs_app, app_length, !filter_app, !app_length, IH1, IH2.
  destruct l as [e| | |]; [destruct e|..]; cbn; split; lia.
Qed.

Lemma run_sched_ok : forall cap types prog ls b,
  brun cap types prog ls = Some b -> sched_ok cap (sched_of ls) = true.
Proof.
  intros cap types prog ls. induction ls as [|l ls IH] using rev_ind; intros b H; [reflexivity|].
  destruct (brun_snoc_inv _ _ _ _ _ _ H) as (b1 & H1 & H2). specialize (IH _ H1).
  rewrite sched_of_app. unfold sched_ok in *.
  destruct l as [e| | |]; cbn [sched_of flat_map app]; rewrite ?app_nil_r; auto.
  - destruct e; cbn [app]; rewrite ?app_nil_r; auto. rewrite sched_ok_from_snoc, IH. reflexivity.
  - rewrite sched_ok_from_snoc, IH. cbn [andb]. destruct (cnt_sched_of ls) as [-> ->].
    apply Nat.leb_le. apply (handler_returns_only_with_room cap types prog ls [] b). exact H.
Qed.

(* what [sched_ok] says: at every handler return, returns so far < completed Receives + capacity + 1 *)
Lemma sched_ok_sound : forall cap s, sched_ok cap s = true ->
  forall pre post, s = pre ++ true :: post -> (S (cntT pre) <= cntF pre + cap + 1)%nat.
Proof.
  intros cap s H pre post ->. unfold sched_ok in H.
  replace (pre ++ true :: post) with ((pre ++ [true]) ++ post) in H by (rewrite <- app_assoc; reflexivity).
  assert (Hp : forall a c r e, sched_ok_from cap r e (a ++ c) = true -> sched_ok_from cap r e a = true).
  { induction a as [|y a IHa]; intros c r e Hc; [reflexivity|]. cbn [app sched_ok_from] in *.
    destruct y; [apply andb_prop in Hc as [Hc1 Hc2]; rewrite Hc1; cbn [andb]|]; eapply IHa; eassumption. }
  apply Hp in H. rewrite sched_ok_from_snoc in H. apply andb_prop in H as [_ H].
  apply Nat.leb_le in H. lia.
Qed.

Lemma is_prefix_sound : forall a b, is_prefix a b = true -> exists rest, b = a ++ rest.
Proof.
  induction a as [|x a IH]; intros b H; [exists b; reflexivity|].
  destruct b as [|y b]; [discriminate|]. cbn [is_prefix] in H. apply andb_prop in H as [H1 H2].
  apply msg_eqb_eq in H1. subst y. destruct (IH _ H2) as [rest ->]. exists rest. reflexivity.
Qed.
Lemma is_prefix_app : forall a rest, is_prefix a (a ++ rest) = true.
Proof. induction a as [|x a IH]; intros rest; cbn [is_prefix app]; [reflexivity|]. now rewrite msg_eqb_refl, IH. Qed.

Lemma hist_ok_sound : forall types hs h, hist_ok types hs h = true ->
  map expand_ids hs = snapshot_of types h.
Proof.
  induction types as [|ty types IH]; intros [|x hs] h H; cbn [hist_ok] in H; try discriminate; [reflexivity|].
  apply andb_prop in H as [H1 H2]. apply listN_eqb_eq in H1. unfold snapshot_of in *. cbn [map].
  rewrite H1. f_equal. now apply IH.
Qed.

(* soundness of the executable form for burst observations, for every capacity *)
Lemma burst_spec_sound : forall cap c, bspec_ok_cap cap c = true ->
  let H := expand (b_handed c) in let R := expand (b_received c) in
  (exists rest, H = R ++ rest) /\
  (b_drained c = true -> R = H) /\
  (forall pre post, expand_sched true (b_sched c) = pre ++ true :: post ->
     (S (cntT pre) <= cntF pre + cap + 1)%nat) /\
  map expand_ids (b_hist c) = snapshot_of (b_types c) (admitted_of R) /\
  match b_outcome c with
  | AFinal k => S k = length (b_prog c) /\
                forall s, In s (b_prog c) -> can_transition s (admitted_of R) = true
  | AErrInit k => a_init_err (nth_ast (b_prog c) k) = true
  | AErrNext k => a_next_err (nth_ast (b_prog c) k) = true
  | ACancelled => True
  end.
Proof.
  intros cap c H0 H R. unfold bspec_ok_cap in H0. fold H R in H0.
  apply andb_prop in H0 as [H0 H5]. apply andb_prop in H0 as [H0 H4].
  apply andb_prop in H0 as [H0 H3]. apply andb_prop in H0 as [H1 H2].
  destruct (is_prefix_sound _ _ H1) as [rest Hrest].
  split; [eauto|]. split; [|split; [|split]].
  - intros Hd. rewrite Hd in H2. apply Nat.eqb_eq in H2. rewrite Hrest in H2 |- *.
    rewrite app_length in H2. destruct rest; [now rewrite app_nil_r | cbn [length] in H2; lia].
  - intros pre post E. eapply sched_ok_sound; eassumption.
  - apply hist_ok_sound. exact H4.
  - destruct (b_outcome c); auto. apply andb_prop in H5 as [A B]. apply Nat.eqb_eq in A.
    split; [exact A|]. unfold all_can in B. rewrite forallb_forall in B. exact B.
Qed.

Lemma admitted_is_filter : forall evs, admitted evs = admitted_of (map snd (recvs evs)).
Proof.
  unfold admitted_of, admitted. induction evs as [|e evs IH]; [reflexivity|]. cbn [flat_map recvs].
  fold (recvs evs). rewrite map_app, filter_app, <- IH.
  destruct e as [| | | | |k m0| |]; cbn [map filter app snd]; try reflexivity.
Qed.

(* ... and the checks hold of every run of the model with the buffer *)
Lemma bounded_model_passes_burst_checks : forall cap types prog ls b,
  brun cap types prog ls = Some b ->
  is_prefix (map snd (recvs (erase ls))) (accepted (erase ls)) = true /\
  sched_ok cap (sched_of ls) = true /\
  (abuf (core b) = [] -> map snd (recvs (erase ls)) = accepted (erase ls)) /\
  snapshot_of types (hist (core b)) = snapshot_of types (admitted_of (map snd (recvs (erase ls)))).
Proof.
  intros cap types prog ls b H. pose proof (bounded_refines_unbounded _ _ _ _ _ H) as Hr.
  pose proof (fifo_no_loss _ _ _ _ Hr) as Hf. split; [|split; [|split]].
  - rewrite <- Hf. apply is_prefix_app.
  - eapply run_sched_ok; eassumption.
  - intros E. rewrite E, app_nil_r in Hf. exact Hf.
  - f_equal. rewrite (hist_is_admitted _ _ _ _ Hr). apply admitted_is_filter.
Qed.

(* the hypotheses are satisfiable: capacity 1, three messages, the producer has to wait twice *)
Definition ex_labels : list blabel :=
  [ LEv (MInit 0 [[]; []]); LEv (EDeliver m2 true); LEnq; LRet; LPop;
    LEv (EDeliver m1 true); LEnq; LRet; LEv (EDeliver m2 true);
    LEv (MRecv 0 m2); LPop; LEnq; LRet; LEv (MRecv 0 m1); LPop; LEv (MRecv 0 m2) ].
Example ex_brun : exists b, brun 1 [1; 2] ex_prog ex_labels = Some b /\ abuf (core b) = [] /\ rets ex_labels = 3%nat.
Proof. vm_compute. eexists; repeat split; reflexivity. Qed.
(* with capacity 1 the second producer cannot get its message in before the loop popped the first *)
Example ex_blocked : brun 1 [1; 2] ex_prog
  [ LEv (MInit 0 [[]; []]); LEv (EDeliver m2 true); LEnq; LRet; LEv (EDeliver m1 true); LEnq ] = None.
Proof. vm_compute. reflexivity. Qed.
