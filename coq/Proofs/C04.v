From Coq Require Import ZArith List.
From KV Require Import Model.C04.
