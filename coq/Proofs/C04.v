(* C04 — proofs about the model of pkg/altbn128 (Model/C04.v).  Algebra in Proofs/C04_alg.v. *)
From Coq Require Import ZArith NArith Znumtheory Zpow_facts List Bool Lia Setoid Morphisms.
From Bignums Require Import BigZ.
From KV Require Import Common.Verdict Gen.Consts_C04 Model.C04 Proofs.C04_alg.
Import ListNotations.
Open Scope Z_scope.

(* ================================================================== *)
(* bytes *)
Lemma to_bytes_length n v : length (to_bytes n v) = n.
Proof. induction n as [|n IH]; cbn [to_bytes length]; congruence. Qed.

Lemma be_nonneg l : 0 <= be l.
Proof.
  induction l as [|b t IH]; cbn [be]; [lia|].
  assert (0 <= 256 ^ Z.of_nat (length t)) by (apply Z.pow_nonneg; lia). nia.
Qed.

Lemma be_to_bytes n v : 0 <= v -> be (to_bytes n v) = v mod 256 ^ Z.of_nat n.
Proof.
  intros Hv. induction n as [|n IH].
  - cbn. symmetry. apply Z.mod_1_r.
  - cbn [to_bytes be]. rewrite to_bytes_length, IH.
    assert (Hpos : 0 < 256 ^ Z.of_nat n) by (apply Z.pow_pos_nonneg; lia).
    rewrite Z2N.id by (apply Z.mod_pos_bound; lia).
    rewrite Nat2Z.inj_succ, Z.pow_succ_r, (Z.mul_comm 256) by lia.
    rewrite Z.rem_mul_r by lia. ring.
Qed.

Lemma firstn_app_len {A} (a b : list A) n : length a = n -> firstn n (a ++ b) = a.
Proof. intros <-. rewrite firstn_app, Nat.sub_diag, firstn_all, firstn_O, app_nil_r. reflexivity. Qed.
Lemma skipn_app_len {A} (a b : list A) n : length a = n -> skipn n (a ++ b) = b.
Proof. intros <-. rewrite skipn_app, Nat.sub_diag, skipn_all. reflexivity. Qed.

Lemma pow256_31 : 256 ^ Z.of_nat 31 = 2 ^ 248. Proof. reflexivity. Qed.
Lemma pow256_32 : 256 ^ Z.of_nat 32 = 2 ^ 256. Proof. reflexivity. Qed.

Lemma to_bytes_32 v :
  to_bytes 32 v = Z.to_N ((v / 256 ^ Z.of_nat 31) mod 256) :: to_bytes 31 v.
Proof. reflexivity. Qed.

Lemma top_byte_small v : 0 <= v < 2 ^ 255 ->
  (Z.to_N ((v / 256 ^ Z.of_nat 31) mod 256) < 128)%N.
Proof.
  intros Hv. rewrite pow256_31.
  assert (H : 0 <= v / 2 ^ 248 < 128).
  { split; [apply Z.div_pos; lia|]. apply Z.div_lt_upper_bound; lia. }
  rewrite Z.mod_small by lia. lia.
Qed.

Lemma top_ops_table :
  forallb (fun b => forallb (fun par =>
     N.eqb (strip_top (N.lor b (N.shiftl par 7))) b && N.eqb (top_bit (N.lor b (N.shiftl par 7))) par)
     [0; 1]%N) (map N.of_nat (seq 0 128)) = true.
Proof. vm_compute. reflexivity. Qed.

Lemma top_ops b par : (b < 128)%N -> (par = 0 \/ par = 1)%N ->
  strip_top (N.lor b (N.shiftl par 7)) = b /\ top_bit (N.lor b (N.shiftl par 7)) = par.
Proof.
  intros Hb Hpar. pose proof top_ops_table as T. rewrite forallb_forall in T.
  specialize (T b). rewrite forallb_forall in T.
  assert (Hin : In b (map N.of_nat (seq 0 128))).
  { apply in_map_iff. exists (N.to_nat b). split; [apply N2Nat.id|]. apply in_seq. lia. }
  specialize (T Hin par).
  assert (Hp : In par [0; 1]%N) by (cbn; destruct Hpar; auto).
  specialize (T Hp). apply andb_true_iff in T. destruct T as [T1 T2].
  apply N.eqb_eq in T1, T2. split; assumption.
Qed.

Lemma y_parity_01 y : (y_parity y = 0 \/ y_parity y = 1)%N.
Proof.
  unfold y_parity. pose proof (Z.mod_pos_bound y 2 ltac:(lia)) as H.
  assert (E : y mod 2 = 0 \/ y mod 2 = 1) by lia. destruct E as [-> | ->]; auto.
Qed.

(* ================================================================== *)
(* big.Int.ModSqrt for p = 3 mod 4 *)
Lemma powmod_spec p a e : 0 < p -> powmod p a e = (a ^ Z.pos e) mod p.
Proof.
  intros Hp. induction e as [e IH|e IH|]; cbn [powmod].
  - rewrite IH, Pos2Z.inj_xI.
    replace (2 * Z.pos e + 1) with (Z.pos e + Z.pos e + 1) by lia.
    rewrite !Z.pow_add_r, Z.pow_1_r by lia.
    apply cg_E. rewrite !(cg_mod p). reflexivity.
  - rewrite IH, Pos2Z.inj_xO.
    replace (2 * Z.pos e) with (Z.pos e + Z.pos e) by lia.
    rewrite Z.pow_add_r by lia.
    apply cg_E. rewrite !(cg_mod p). reflexivity.
  - rewrite Z.pow_1_r. reflexivity.
Qed.

Lemma powmod_range p a e : 0 < p -> 0 <= powmod p a e < p.
Proof. intros Hp. rewrite powmod_spec by assumption. apply Z.mod_pos_bound. assumption. Qed.

(* soundness of the model's ModSqrt needs no primality: the candidate is checked *)
Lemma mod_sqrt_sound p c s : 4 <= p -> mod_sqrt p c = Some s ->
  0 <= s < p /\ (s * s) mod p = c mod p.
Proof.
  intros Hp. unfold mod_sqrt.
  assert (H4 : 1 <= (p + 1) / 4) by (apply Z.div_le_lower_bound; lia).
  destruct ((p + 1) / 4) as [|e|e] eqn:Ee; try lia.
  destruct (Z.eqb_spec ((powmod p (c mod p) e * powmod p (c mod p) e) mod p) (c mod p)) as [E|]; [|discriminate].
  intros [= <-]. split; [apply powmod_range; lia|exact E].
Qed.

Section Sqrt.
  Variable p : Z.
  Hypothesis Hp : prime p.
  Hypothesis Hp4 : p mod 4 = 3.
  Hypothesis Hp3 : 3 < p.

  (* completeness: every square has a root, found by the exponentiation *)
  Lemma mod_sqrt_complete c y : c mod p = (y * y) mod p ->
    exists s, mod_sqrt p c = Some s /\ 0 <= s < p /\ (s * s) mod p = (y * y) mod p.
  Proof.
    intros Ec. unfold mod_sqrt.
    assert (H4 : 1 <= (p + 1) / 4) by (apply Z.div_le_lower_bound; lia).
    pose proof (sqrt_3mod4 p Hp Hp4 y) as S. cbv zeta in S.
    destruct ((p + 1) / 4) as [|e|e] eqn:Ee; try lia.
    rewrite powmod_spec, Ec by lia. rewrite S, Z.eqb_refl.
    eexists. split; [reflexivity|]. split; [apply Z.mod_pos_bound; lia|exact S].
  Qed.
End Sqrt.

(* ================================================================== *)
(* G1 *)
Section G1.
  Variable p : Z.
  Hypothesis Hp : prime p.
  Hypothesis Hp4 : p mod 4 = 3.
  Hypothesis Hp3 : 3 < p.
  Hypothesis Hp255 : p < 2 ^ 255.

  Lemma compress1_aff x y : 0 <= x -> 0 <= y < 2 ^ 256 ->
    compress1 (Aff1 x y) = set_top (y_parity y) (to_bytes 32 x).
  Proof.
    intros Hx Hy. cbv beta iota zeta delta [compress1 marshal1].
    rewrite firstn_app_len, skipn_app_len by apply to_bytes_length.
    rewrite be_to_bytes, pow256_32, Z.mod_small by lia. reflexivity.
  Qed.

  Lemma decompress1_set_top ms x par : 0 <= x < 2 ^ 255 -> (par = 0 \/ par = 1)%N ->
    decompress1 p ms (set_top par (to_bytes 32 x)) =
    match ms (x * x * x + curveB) with
    | None => Err1
    | Some s => g1_from_ints p x (if N.eqb par (y_parity s) then s else p + - s)
    end.
  Proof.
    intros Hx Hpar. rewrite to_bytes_32. cbn [set_top].
    cbv beta iota zeta delta [decompress1].
    destruct (top_ops _ par (top_byte_small x Hx) Hpar) as [T1 T2].
    rewrite T1, T2, <- to_bytes_32.
    rewrite be_to_bytes, pow256_32, Z.mod_small by lia. reflexivity.
  Qed.

  Lemma g1_from_ints_valid x y : valid1 p (Aff1 x y) = true -> g1_from_ints p x y = R1 (Aff1 x y).
  Proof.
    cbn [valid1]. rewrite !andb_true_iff. intros [[[[H1 H2] H3] H4] H5].
    apply Z.leb_le in H1, H3. apply Z.ltb_lt in H2, H4.
    unfold g1_from_ints, two256.
    destruct (Z.leb_spec (2 ^ 256) x); [lia|]. destruct (Z.leb_spec (2 ^ 256) y); [lia|].
    destruct (Z.leb_spec p x); [lia|]. destruct (Z.leb_spec p y); [lia|].
    cbn [orb]. rewrite H5.
    destruct (Z.eqb_spec x 0) as [->|]; [|reflexivity].
    destruct (Z.eqb_spec y 0) as [->|]; [|reflexivity].
    exfalso. apply Z.eqb_eq in H5. unfold curveB in H5.
    change (0 * 0) with 0 in H5. change (0 * 0 * 0 + 3) with 3 in H5.
    rewrite Z.mod_0_l, Z.mod_small in H5; lia.
  Qed.

  Theorem g1_roundtrip_gen x y : valid1 p (Aff1 x y) = true ->
    decompress1 p (mod_sqrt p) (compress1 (Aff1 x y)) = R1 (Aff1 x y).
  Proof.
    intros V. pose proof V as V'.
    cbn [valid1] in V'. rewrite !andb_true_iff in V'. destruct V' as [[[[H1 H2] H3] H4] H5].
    apply Z.leb_le in H1, H3. apply Z.ltb_lt in H2, H4. apply Z.eqb_eq in H5.
    rewrite compress1_aff by lia.
    rewrite decompress1_set_top by (try lia; apply y_parity_01).
    destruct (mod_sqrt_complete p Hp Hp4 Hp3 (x * x * x + curveB) y (eq_sym H5)) as [s [-> [Hs E]]].
    apply (sqr_eq_mod p Hp) in E.
    assert (Hodd : p mod 2 = 1).
    { pose proof (Z.div_mod p 4 ltac:(lia)). rewrite Hp4 in H.
      rewrite H. replace (4 * (p / 4) + 3) with (1 + (2 * (p / 4) + 1) * 2) by ring.
      rewrite Z.mod_add by lia. reflexivity. }
    destruct E as [E|E].
    - rewrite !Z.mod_small in E by lia. subst s. rewrite N.eqb_refl.
      apply g1_from_ints_valid. exact V.
    - destruct (Z.eq_dec y 0) as [->|Hy].
      + rewrite Z.mod_0_l, Z.mod_small in E by lia. subst s. rewrite N.eqb_refl.
        apply g1_from_ints_valid. exact V.
      + rewrite Z.mod_small in E by lia.
        assert (Es : s = p - y).
        { subst s. symmetry. apply Z.mod_unique with (-1); lia. }
        clear E. subst s.
        assert (Hpar : N.eqb (y_parity y) (y_parity (p - y)) = false).
        { apply N.eqb_neq. unfold y_parity. intros Epar. apply Z2N.inj in Epar;
            try (apply Z.mod_pos_bound; lia).
          pose proof (Z.div_mod p 2 ltac:(lia)) as D1.
          pose proof (Z.div_mod y 2 ltac:(lia)) as D2.
          pose proof (Z.div_mod (p - y) 2 ltac:(lia)) as D3.
          pose proof (Z.mod_pos_bound y 2 ltac:(lia)). lia. }
        rewrite Hpar. replace (p + - (p - y)) with y by ring.
        apply g1_from_ints_valid. exact V.
  Qed.
End G1.

(* ---------------- totality of DecompressToG1 (no primality needed) ---------------- *)
Lemma g1_from_ints_total p x y : 0 <= x -> 0 <= y ->
  match g1_from_ints p x y with R1 pt => valid1 p pt = true | Err1 => True | _ => False end.
Proof.
  intros Hx Hy. unfold g1_from_ints.
  destruct (_ || _); [exact I|].
  destruct (Z.leb_spec p x); [exact I|]. destruct (Z.leb_spec p y); [exact I|]. cbn [orb].
  destruct (_ && _); [reflexivity|].
  destruct (Z.eqb_spec ((y * y) mod p) ((x * x * x + curveB) mod p)) as [E|]; [|exact I].
  cbn [valid1]. rewrite E, Z.eqb_refl.
  rewrite !andb_true_iff, !Z.leb_le, !Z.ltb_lt. lia.
Qed.

Theorem decompress1_total_gen p m : 4 <= p -> m <> [] ->
  match decompress1 p (mod_sqrt p) m with R1 pt => valid1 p pt = true | Err1 => True | _ => False end.
Proof.
  intros Hp Hm. destruct m as [|b0 rest]; [congruence|].
  cbv beta iota zeta delta [decompress1].
  destruct (mod_sqrt p _) as [s|] eqn:Es; [|exact I].
  apply mod_sqrt_sound in Es; [|exact Hp]. destruct Es as [Hs _].
  apply g1_from_ints_total; [apply be_nonneg|].
  destruct (N.eqb _ _); lia.
Qed.

(* ---------------- G1HashToPoint ---------------- *)
Lemma P_facts : P mod 4 = 3 /\ 3 < P /\ P < 2 ^ 254.
Proof. vm_compute. repeat split; congruence. Qed.

(* x = p - 1 gives x^3 + 3 = 2, a square modulo the BN254 prime: the search cannot run past it *)
Lemma last_x_is_residue : mod_sqrt P ((P - 1) * (P - 1) * (P - 1) + curveB) <> None.
Proof. vm_compute. discriminate. Qed.

Lemma hash_loop_valid fuel : forall x r, 0 <= x <= P - 1 ->
  hash_loop P (mod_sqrt P) fuel x = Some r ->
  exists x' y', r = R1 (Aff1 x' y') /\ valid1 P (Aff1 x' y') = true /\ x <= x'.
Proof.
  destruct P_facts as [F1 [F2 F3]].
  induction fuel as [|f IH]; intros x r Hx; cbn [hash_loop]; [discriminate|].
  destruct (mod_sqrt P (x * x * x + curveB)) as [y|] eqn:Es.
  - intros [= <-]. apply mod_sqrt_sound in Es; [|lia]. destruct Es as [Hy E].
    exists x, y. split; [|split; [|lia]].
    + apply g1_from_ints_valid; try lia.
      cbn [valid1]. rewrite E, Z.eqb_refl, !andb_true_iff, !Z.leb_le, !Z.ltb_lt. lia.
    + cbn [valid1]. rewrite E, Z.eqb_refl, !andb_true_iff, !Z.leb_le, !Z.ltb_lt. lia.
  - intros H. assert (x <> P - 1).
    { intros ->. apply last_x_is_residue. exact Es. }
    apply IH in H; [|lia]. destruct H as [x' [y' [H1 [H2 H3]]]]. exists x', y'. repeat split; try assumption. lia.
Qed.

Theorem hash_to_point_on_curve fuel h r : hash_to_point P (mod_sqrt P) fuel h = Some r ->
  exists x y, r = R1 (Aff1 x y) /\ valid1 P (Aff1 x y) = true.
Proof.
  destruct P_facts as [F1 [F2 F3]].
  unfold hash_to_point. intros H. apply hash_loop_valid in H.
  - destruct H as [x [y [H1 [H2 _]]]]. exists x, y. auto.
  - pose proof (Z.mod_pos_bound h P ltac:(lia)). lia.
Qed.

Lemma hash_loop_fuel_mono f : forall f' x r, (f <= f')%nat ->
  hash_loop P (mod_sqrt P) f x = Some r -> hash_loop P (mod_sqrt P) f' x = Some r.
Proof.
  induction f as [|f IH]; intros f' x r Hle; cbn [hash_loop]; [discriminate|].
  destruct f' as [|f']; [lia|]. cbn [hash_loop].
  destruct (mod_sqrt P _); [auto|]. apply IH. lia.
Qed.

Theorem hash_to_point_deterministic f1 f2 h r1 r2 :
  hash_to_point P (mod_sqrt P) f1 h = Some r1 -> hash_to_point P (mod_sqrt P) f2 h = Some r2 -> r1 = r2.
Proof.
  unfold hash_to_point. intros H1 H2.
  apply (hash_loop_fuel_mono f1 (Nat.max f1 f2)) in H1; [|lia].
  apply (hash_loop_fuel_mono f2 (Nat.max f1 f2)) in H2; [|lia]. congruence.
Qed.

Lemma hash_loop_terminates_gen (pm : Z) (ms : Z -> option Z)
  (Hlast : ms ((pm - 1) * (pm - 1) * (pm - 1) + curveB) <> None) n :
  forall x, 0 <= x <= pm - 1 -> pm - 1 - x <= Z.of_nat n ->
  exists r, hash_loop pm ms (S n) x = Some r.
Proof.
  induction n as [|n IH]; intros x Hx Hn.
  - assert (x = pm - 1) by lia. subst x. cbn [hash_loop].
    destruct (ms _) eqn:E; [eexists; reflexivity|]. exfalso. exact (Hlast eq_refl).
  - change (hash_loop pm ms (S (S n)) x) with
      (match ms (x * x * x + curveB) with
       | Some y => Some (g1_from_ints pm x y)
       | None => hash_loop pm ms (S n) (x + 1) end).
    destruct (ms (x * x * x + curveB)) eqn:E; [eexists; reflexivity|].
    assert (x <> pm - 1) by (intros ->; exact (Hlast E)).
    apply IH; lia.
Qed.

Theorem hash_to_point_terminates h : exists fuel r, hash_to_point P (mod_sqrt P) fuel h = Some r.
Proof.
  destruct P_facts as [F1 [F2 F3]].
  pose proof (Z.mod_pos_bound h P ltac:(lia)) as Hh.
  destruct (hash_loop_terminates_gen P (mod_sqrt P) last_x_is_residue
              (Z.to_nat (P - 1 - h mod P)) (h mod P)) as [r Hr]; [lia|lia|].
  eexists. exists r. exact Hr.
Qed.

(* the counting loop [hash_run] (what the judge runs on the ground long-run corpus): its result
   is [hash_loop]'s, its count is the first offset at which x^3 + 3 has a square root *)
Lemma hash_run_loop pm ms fuel : forall x,
  option_map snd (hash_run pm ms fuel x) = hash_loop pm ms fuel x.
Proof.
  induction fuel as [|f IH]; intros x; cbn [hash_run hash_loop]; [reflexivity|].
  destruct (ms _); [reflexivity|]. rewrite <- IH.
  destruct (hash_run pm ms f (x + 1)) as [[n r]|]; reflexivity.
Qed.

Lemma hash_run_first pm ms fuel : forall x n r, hash_run pm ms fuel x = Some (n, r) ->
  0 <= n < Z.of_nat fuel /\
  (forall i, 0 <= i < n -> ms ((x + i) * (x + i) * (x + i) + curveB) = None) /\
  exists y, ms ((x + n) * (x + n) * (x + n) + curveB) = Some y /\ r = g1_from_ints pm (x + n) y.
Proof.
  induction fuel as [|f IH]; intros x n r; cbn [hash_run]; [discriminate|].
  destruct (ms (x * x * x + curveB)) as [y|] eqn:E.
  - intros [= <- <-]. split; [lia|]. split; [intros i Hi; lia|].
    exists y. rewrite Z.add_0_r. auto.
  - destruct (hash_run pm ms f (x + 1)) as [[n' r']|] eqn:H; [|discriminate].
    intros [= <- <-]. apply IH in H. destruct H as [Hn [Hnone [y [Hy Hr]]]].
    split; [lia|]. split.
    + intros i Hi. destruct (Z.eq_dec i 0) as [->|Hi0]; [rewrite Z.add_0_r; exact E|].
      replace (x + i) with (x + 1 + (i - 1)) by lia. apply Hnone. lia.
    + exists y. replace (x + (n' + 1)) with (x + 1 + n') by lia. auto.
Qed.

Lemma g1_from_ints_x pm x y x' y' : g1_from_ints pm x y = R1 (Aff1 x' y') -> x' = x /\ y' = y.
Proof.
  unfold g1_from_ints.
  destruct (_ || _); [discriminate|]. destruct (_ || _); [discriminate|].
  destruct (_ && _); [discriminate|]. destruct (_ =? _); [|discriminate].
  intros [= -> ->]. auto.
Qed.

(* the point returned for a digest h has the FIRST x >= h mod P for which x^3 + 3 is a square:
   every smaller candidate was rejected, and the number of increments is that offset *)
Theorem hash_to_point_first fuel h r : hash_to_point P (mod_sqrt P) fuel h = Some r ->
  exists n y, hash_to_point_run P (mod_sqrt P) fuel h = Some (n, r) /\ 0 <= n /\
    r = R1 (Aff1 (h mod P + n) y) /\ valid1 P (Aff1 (h mod P + n) y) = true /\
    forall i, 0 <= i < n ->
      mod_sqrt P ((h mod P + i) * (h mod P + i) * (h mod P + i) + curveB) = None.
Proof.
  intros H. pose proof (hash_to_point_on_curve _ _ _ H) as [x' [y' [-> V]]].
  unfold hash_to_point in H. unfold hash_to_point_run.
  rewrite <- hash_run_loop in H.
  destruct (hash_run P (mod_sqrt P) fuel (h mod P)) as [[n r]|] eqn:Er; [|discriminate].
  cbn [option_map snd] in H. injection H as ->.
  apply hash_run_first in Er. destruct Er as [Hn [Hnone [y [Hy Hr]]]].
  symmetry in Hr. apply g1_from_ints_x in Hr. destruct Hr as [-> ->].
  exists n, y. split; [reflexivity|]. split; [lia|]. split; [reflexivity|]. split; assumption.
Qed.

Theorem hash_to_point_run_result fuel h n r :
  hash_to_point_run P (mod_sqrt P) fuel h = Some (n, r) -> hash_to_point P (mod_sqrt P) fuel h = Some r.
Proof.
  unfold hash_to_point_run, hash_to_point. intros H. rewrite <- hash_run_loop, H. reflexivity.
Qed.

(* ================================================================== *)
(* F_p[i]: the model's square-and-multiply loop, x2y, the bounded hexRoot search *)
Lemma mul2_range p a b : 0 < p -> ok2 p (mul2 p a b).
Proof. intros Hp. unfold mul2, ok2. cbn [fst snd]. split; apply Z.mod_pos_bound; assumption. Qed.

Lemma pow_pos_spec p q : forall e b,
  pow_pos p e b q = mul2 p e (pw (mul2 p) b q).
Proof.
  induction q as [q IH|q IH|]; intros e b; cbn [pow_pos].
  - rewrite IH, (pw_xI (mul2 p)), <- (mul2A p). reflexivity.
  - rewrite IH, (pw_xO (mul2 p)). reflexivity.
  - reflexivity.
Qed.

Lemma pow_pos_range p q e b : 0 < p -> ok2 p (pow_pos p e b q).
Proof. intros Hp. rewrite pow_pos_spec. apply mul2_range. exact Hp. Qed.

Lemma mul2_1_l' p a : 1 < p -> ok2 p a -> mul2 p (1, 0) a = a.
Proof.
  intros Hp [H1 H2]. rewrite mul2_eq. destruct a as [x y]. cbn [fst snd] in *.
  f_equal; [replace (1 * x - 0 * y) with x by ring|replace (1 * y + 0 * x) with y by ring];
    apply Z.mod_small; assumption.
Qed.

Lemma eq2_eq a b : eq2 a b = true <-> a = b.
Proof.
  destruct a as [a1 a2], b as [b1 b2]. unfold eq2. cbn [fst snd].
  rewrite andb_true_iff, !Z.eqb_eq. split; [intros [-> ->]; reflexivity|intros [= -> ->]; auto].
Qed.

Lemma x2y_iff p X r : 1 < p -> (x2y p X r = true <-> mul2 p r r = X).
Proof.
  intros Hp. unfold x2y. rewrite eq2_eq.
  change (pow2 p r 2) with (mul2 p (1, 0) (mul2 p r r)).
  rewrite mul2_1_l' by (try apply mul2_range; lia). reflexivity.
Qed.

Lemma sqrt_loop_sound p n : forall X y r, sqrt_loop p n X y = Some r -> x2y p X r = true.
Proof.
  induction n as [|n IH]; intros X y r; cbn [sqrt_loop]; [discriminate|].
  destruct (x2y p X y) eqn:E; [intros [= <-]; exact E|apply IH].
Qed.
Lemma sqrt_loop_range p n : forall X y r, 0 < p -> ok2 p y -> sqrt_loop p n X y = Some r -> ok2 p r.
Proof.
  induction n as [|n IH]; intros X y r Hp Hy; cbn [sqrt_loop]; [discriminate|].
  destruct (x2y p X y); [intros [= <-]; exact Hy|]. apply IH; [exact Hp|apply mul2_range; exact Hp].
Qed.
(* the j-th candidate of the search *)
Fixpoint hiter (p : Z) (j : nat) (y : gfp2) : gfp2 :=
  match j with O => y | S j' => hiter p j' (mul2 p y hexRoot) end.
Lemma sqrt_loop_finds p j : forall n X y, (j < n)%nat ->
  x2y p X (hiter p j y) = true ->
  exists r, sqrt_loop p n X y = Some r.
Proof.
  induction j as [|j IH]; intros n X y Hn H; (destruct n as [|n]; [lia|]); cbn [sqrt_loop].
  - cbn [hiter] in H. rewrite H. eexists; reflexivity.
  - destruct (x2y p X y); [eexists; reflexivity|].
    apply IH; [lia|]. exact H.
Qed.

Lemma pow2_range p x e : 1 < p -> ok2 p (pow2 p x e).
Proof.
  intros Hp. unfold pow2. destruct e; try (split; cbn [fst snd]; lia). apply pow_pos_range. lia.
Qed.

Lemma sqrt_gfp2_unfold p X :
  sqrt_gfp2 p X = sqrt_loop p (Z.to_nat hexRootOrder) X (pow2 p X sqrtExp).
Proof. reflexivity. Qed.

Lemma sqrt_gfp2_sound p X r : 1 < p -> sqrt_gfp2 p X = Some r -> ok2 p r /\ mul2 p r r = X.
Proof.
  intros Hp H. rewrite sqrt_gfp2_unfold in H. split.
  - apply sqrt_loop_range in H; [exact H|lia|]. apply pow2_range. exact Hp.
  - apply sqrt_loop_sound in H. apply x2y_iff in H; assumption.
Qed.

(* ---------------- the search always succeeds on squares (BN254 constants) ---------------- *)
Definition sqrtExp_pos : positive := Z.to_pos sqrtExp.
Definition E16 : positive := Z.to_pos ((P * P - 1) / 16).
Definition hG : gfp2 := mul2 P hexRoot hexRoot.
Definition hG2 : gfp2 := mul2 P hG hG.
Definition hG4 : gfp2 := mul2 P hG2 hG2.

Lemma exp_fact1 : (sqrtExp_pos + sqrtExp_pos = 1 + E16)%positive.
Proof. vm_compute. reflexivity. Qed.
Lemma exp_fact2 : Z.to_pos (P * P - 1) = ((E16 * 8)~0)%positive.
Proof. vm_compute. reflexivity. Qed.
Lemma sqrtExp_is_pos : sqrtExp = Z.pos sqrtExp_pos.
Proof. reflexivity. Qed.
Lemma hexRoot_ok : ok2 P hexRoot /\ ok2 P hG /\ ok2 P hG2 /\ ok2 P hG4.
Proof. vm_compute. repeat split; congruence. Qed.
Lemma hG4_mone : hG4 = neg2 P (one2).
Proof. vm_compute. reflexivity. Qed.
Lemma mone_sq : mul2 P (neg2 P one2) (neg2 P one2) = one2.
Proof. vm_compute. reflexivity. Qed.
Lemma loop_bound_ok : (8 <= Z.to_nat hexRootOrder)%nat.
Proof. unfold hexRootOrder. lia. Qed.

Fixpoint hp (j : nat) : gfp2 :=
  match j with O => one2 | S j' => mul2 P hexRoot (hp j') end.
Lemma hp_table (a b c : bool) :
  mul2 P (hp ((if a then 1 else 0) + (if b then 2 else 0) + (if c then 4 else 0)))
         (hp ((if a then 1 else 0) + (if b then 2 else 0) + (if c then 4 else 0))) =
  mul2 P (mul2 P (if a then hG else one2) (if b then hG2 else one2)) (if c then hG4 else one2).
Proof. destruct a, b, c; vm_compute; reflexivity. Qed.

Section G2.
  Hypothesis HP : prime P.
  Notation m2 := (mul2 P).
  Let P_big : 3 < P := proj1 (proj2 P_facts).
  Let P_mod4 : P mod 4 = 3 := proj1 P_facts.

  Lemma pw_range x q : ok2 P x -> ok2 P (pw m2 x q).
  Proof.
    intros Hx. induction q as [|q IH] using Pos.peano_ind; [exact Hx|].
    rewrite (pw_succ m2 (mul2A P)). apply mul2_range. lia.
  Qed.

  Fixpoint sqn (n : nat) (z : gfp2) : gfp2 :=
    match n with O => z | S n' => m2 (sqn n' z) (sqn n' z) end.
  Lemma sqn_range n z : ok2 P z -> ok2 P (sqn n z).
  Proof. intros Hz. destruct n; [exact Hz|]. cbn [sqn]. apply mul2_range. lia. Qed.
  Lemma sqn_mul n a b : sqn n (m2 a b) = m2 (sqn n a) (sqn n b).
  Proof.
    induction n as [|n IH]; [reflexivity|]. cbn [sqn]. rewrite IH.
    apply (mul4 m2 (mul2A P) (mul2C P)).
  Qed.

  Lemma one2_ok : ok2 P one2.
  Proof. split; cbn; lia. Qed.

  Lemma sq_one a : ok2 P a -> m2 a a = one2 -> a = one2 \/ a = neg2 P one2.
  Proof.
    intros Ha E. apply (sqr2_eq P HP P_mod4); [exact Ha|exact one2_ok|].
    rewrite E. symmetry. apply (mul2_1_r P). exact one2_ok.
  Qed.

  (* one halving step of "v is a 2^(n+1)-th root of unity": multiply by c, a 2^(n+1)-th
     primitive root, when v^(2^n) = -1 *)
  Lemma root_step n v c : ok2 P v -> ok2 P c -> sqn n c = neg2 P one2 -> sqn (S n) v = one2 ->
    exists b : bool, sqn n (m2 v (if b then c else one2)) = one2.
  Proof.
    intros Hv Hc Ec E. cbn [sqn] in E.
    apply sq_one in E; [|apply sqn_range; exact Hv]. destruct E as [E|E].
    - exists false. rewrite (mul2_1_r P) by exact Hv. exact E.
    - exists true. rewrite sqn_mul, E, Ec. exact mone_sq.
  Qed.

  Lemma iter_hex j : forall y, ok2 P y -> hiter P j y = m2 y (hp j).
  Proof.
    induction j as [|j IH]; intros y Hy; cbn [hiter hp].
    - symmetry. apply (mul2_1_r P). exact Hy.
    - rewrite IH by (apply mul2_range; lia). rewrite <- (mul2A P). reflexivity.
  Qed.

  Theorem sqrt_gfp2_complete y : ok2 P y -> y <> zero2 ->
    exists r, sqrt_gfp2 P (m2 y y) = Some r.
  Proof.
    intros Hy Hnz. rewrite sqrt_gfp2_unfold. set (X := m2 y y).
    assert (HX : ok2 P X) by (apply mul2_range; lia).
    set (y0 := pow2 P X sqrtExp).
    set (u := pw m2 X E16).
    assert (Hu : ok2 P u) by (apply pw_range; exact HX).
    assert (Ey0 : y0 = pw m2 X sqrtExp_pos).
    { unfold y0. rewrite sqrtExp_is_pos. unfold pow2. rewrite pow_pos_spec.
      apply mul2_1_l'; [lia|]. apply pw_range. exact HX. }
    assert (Hy0 : ok2 P y0) by (rewrite Ey0; apply pw_range; exact HX).
    assert (Esq : m2 y0 y0 = m2 X u).
    { rewrite Ey0, <- (pw_add m2 (mul2A P)), exp_fact1, (pw_add m2 (mul2A P)). reflexivity. }
    assert (Eu8 : sqn 3 u = one2).
    { change (sqn 3 u) with (pw m2 u 8). unfold u.
      rewrite (pw_pw m2 (mul2A P)). unfold X. rewrite <- (pw_xO m2), <- exp_fact2.
      apply (fermat2 P HP P_mod4); assumption. }
    destruct hexRoot_ok as [Hh [Hg [Hg2 Hg4]]].
    destruct (root_step 2 u hG Hu Hg hG4_mone Eu8) as [a Ea].
    set (v := m2 u (if a then hG else one2)) in *.
    assert (Hv : ok2 P v) by (apply mul2_range; lia).
    destruct (root_step 1 v hG2 Hv Hg2 hG4_mone Ea) as [b Eb].
    set (w := m2 v (if b then hG2 else one2)) in *.
    assert (Hw : ok2 P w) by (apply mul2_range; lia).
    destruct (root_step 0 w hG4 Hw Hg4 hG4_mone Eb) as [c Ec].
    cbn [sqn] in Ec.
    set (j := ((if a then 1 else 0) + (if b then 2 else 0) + (if c then 4 else 0))%nat).
    apply (sqrt_loop_finds P j).
    - pose proof loop_bound_ok. subst j. destruct a, b, c; cbn; lia.
    - apply x2y_iff; [lia|]. fold y0. rewrite iter_hex by exact Hy0.
      rewrite (mul4 m2 (mul2A P) (mul2C P)), Esq. subst j. rewrite hp_table.
      rewrite <- (mul2A P X u), (mul2A P u), (mul2A P u). fold v. fold w. rewrite Ec.
      apply (mul2_1_r P). exact HX.
  Qed.

  Lemma pw_zero2 q : pw m2 zero2 q = zero2.
  Proof.
    induction q as [|q IH] using Pos.peano_ind; [reflexivity|].
    rewrite (pw_succ m2 (mul2A P)), IH. rewrite mul2_eq. unfold zero2. cbn [fst snd].
    rewrite !Z.mul_0_l. change (0 - 0) with 0. change (0 + 0) with 0.
    rewrite Z.mod_0_l by lia. reflexivity.
  Qed.

  (* every square of F_p[i] has its root found within the loop bound; the root is a root *)
  Theorem sqrt_gfp2_finds_roots y : ok2 P y ->
    exists r, sqrt_gfp2 P (m2 y y) = Some r /\ ok2 P r /\ (r = y \/ r = neg2 P y).
  Proof.
    intros Hy.
    assert (Hex : exists r, sqrt_gfp2 P (m2 y y) = Some r).
    { destruct (Z.eq_dec (fst y) 0) as [E1|E1]; [destruct (Z.eq_dec (snd y) 0) as [E2|E2]|].
      - destruct y as [y1 y2]. cbn [fst snd] in *. subst.
        exists zero2. rewrite sqrt_gfp2_unfold.
        assert (E : pow2 P (m2 (0, 0) (0, 0)) sqrtExp = zero2).
        { rewrite sqrtExp_is_pos. unfold pow2. rewrite pow_pos_spec.
          replace (m2 (0, 0) (0, 0)) with zero2 by (vm_compute; reflexivity).
          rewrite pw_zero2. vm_compute. reflexivity. }
        rewrite E. replace (m2 (0, 0) (0, 0)) with zero2 by (vm_compute; reflexivity).
        pose proof loop_bound_ok as B. destruct (Z.to_nat hexRootOrder) as [|n]; [lia|].
        cbn [sqrt_loop]. replace (x2y P zero2 zero2) with true by (vm_compute; reflexivity).
        reflexivity.
      - apply sqrt_gfp2_complete; [exact Hy|]. intros E. apply E2. rewrite E. reflexivity.
      - apply sqrt_gfp2_complete; [exact Hy|]. intros E. apply E1. rewrite E. reflexivity. }
    destruct Hex as [r Hr]. exists r. split; [exact Hr|].
    apply sqrt_gfp2_sound in Hr; [|lia]. destruct Hr as [Hr1 Hr2]. split; [exact Hr1|].
    apply (sqr2_eq P HP P_mod4); assumption.
  Qed.
End G2.

(* ================================================================== *)
(* G2 codec *)
Lemma parity_flip p y : p mod 2 = 1 -> 0 < y < p ->
  N.eqb (y_parity y) (y_parity (p - y)) = false.
Proof.
  intros Hodd Hy. apply N.eqb_neq. unfold y_parity. intros Epar.
  apply Z2N.inj in Epar; try (apply Z.mod_pos_bound; lia).
  pose proof (Z.div_mod p 2 ltac:(lia)) as D1.
  pose proof (Z.div_mod y 2 ltac:(lia)) as D2.
  pose proof (Z.div_mod (p - y) 2 ltac:(lia)) as D3.
  pose proof (Z.mod_pos_bound y 2 ltac:(lia)). lia.
Qed.

Lemma compress2_aff x y : 0 <= fst x -> 0 <= snd x -> 0 <= fst y -> 0 <= snd y < 2 ^ 256 ->
  compress2 (Aff2 x y) =
  set_top (y_parity (snd y)) (to_bytes 32 (snd x) ++ to_bytes 32 (fst x)).
Proof.
  intros H1 H2 H3 H4. cbv beta iota zeta delta [compress2 marshal2].
  rewrite (app_assoc (to_bytes 32 (snd x))).
  rewrite firstn_app_len, skipn_app_len by (rewrite app_length, !to_bytes_length; reflexivity).
  rewrite firstn_app_len by apply to_bytes_length.
  rewrite be_to_bytes, pow256_32, Z.mod_small by lia. reflexivity.
Qed.

Lemma decompress2_set_top p sq insub x par :
  0 <= fst x < 2 ^ 256 -> 0 <= snd x < 2 ^ 255 -> (par = 0 \/ par = 1)%N ->
  decompress2 p sq insub (set_top par (to_bytes 32 (snd x) ++ to_bytes 32 (fst x))) =
  match sq (add2 p (pow2 p x 3) twistB) with
  | None => Err2
  | Some y => g2_from_ints p insub x
                (if N.eqb par (y_parity (snd y)) then y else neg2 p y)
  end.
Proof.
  destruct x as [x1 x2]. cbn [fst snd]. intros Hx1 Hx2 Hpar.
  rewrite (to_bytes_32 x2). cbn [app set_top].
  cbv beta iota zeta delta [decompress2].
  destruct (top_ops _ par (top_byte_small x2 Hx2) Hpar) as [T1 T2]. rewrite T1, T2.
  rewrite (skipn_cons 31), skipn_app_len, firstn_app_len by apply to_bytes_length.
  rewrite <- to_bytes_32. rewrite !be_to_bytes, pow256_32, !Z.mod_small by lia.
  reflexivity.
Qed.

Lemma in_range2_iff p a : in_range2 p a = true <-> ok2 p a.
Proof.
  unfold in_range2, ok2. rewrite !andb_true_iff, !Z.leb_le, !Z.ltb_lt. tauto.
Qed.

Lemma g2_from_ints_valid p insub x y : p < 2 ^ 256 ->
  valid2 p (Aff2 x y) = true -> snd y <> 0 -> insub x y = true ->
  g2_from_ints p insub x y = R2 (Aff2 x y).
Proof.
  intros Hp V Hy Hs. cbn [valid2] in V. rewrite !andb_true_iff, !in_range2_iff in V.
  destruct V as [[[X1 X2] [Y1 Y2]] T].
  unfold g2_from_ints, two256.
  destruct (Z.leb_spec (2 ^ 256) (fst x)); [lia|]. destruct (Z.leb_spec (2 ^ 256) (snd x)); [lia|].
  destruct (Z.leb_spec (2 ^ 256) (fst y)); [lia|]. destruct (Z.leb_spec (2 ^ 256) (snd y)); [lia|].
  destruct (Z.leb_spec p (fst x)); [lia|]. destruct (Z.leb_spec p (snd x)); [lia|].
  destruct (Z.leb_spec p (fst y)); [lia|]. destruct (Z.leb_spec p (snd y)); [lia|].
  cbn [orb]. destruct (Z.eqb_spec (snd y) 0); [contradiction|]. rewrite andb_false_r.
  rewrite T, Hs. reflexivity.
Qed.

Lemma pow2_3 p x : 1 < p -> ok2 p x -> pow2 p x 3 = mul2 p (mul2 p x x) x.
Proof.
  intros Hp Hx. change (pow2 p x 3) with (mul2 p (mul2 p (1, 0) x) (mul2 p x x)).
  rewrite mul2_1_l' by assumption. apply mul2C.
Qed.

Theorem g2_roundtrip : prime P -> forall insub x y,
  valid2 P (Aff2 x y) = true -> snd y <> 0 -> insub x y = true ->
  decompress2 P (sqrt_gfp2 P) insub (compress2 (Aff2 x y)) = R2 (Aff2 x y).
Proof.
  intros HP insub x y V Hy Hs. destruct P_facts as [F1 [F2 F3]].
  pose proof V as V'. cbn [valid2] in V'. rewrite !andb_true_iff, !in_range2_iff in V'.
  destruct V' as [[[X1 X2] [Y1 Y2]] T]. unfold on_twist in T. apply eq2_eq in T.
  rewrite compress2_aff by lia.
  rewrite decompress2_set_top by (try lia; apply y_parity_01).
  rewrite pow2_3 by (try lia; split; assumption). rewrite <- T.
  destruct (sqrt_gfp2_finds_roots HP y (conj Y1 Y2)) as [r [Hr [Hrok [E|E]]]]; rewrite Hr.
  - subst r. rewrite N.eqb_refl. apply g2_from_ints_valid; try assumption; lia.
  - assert (Hodd : P mod 2 = 1).
    { pose proof (Z.div_mod P 4 ltac:(lia)) as H. rewrite F1 in H.
      rewrite H. replace (4 * (P / 4) + 3) with (1 + (2 * (P / 4) + 1) * 2) by ring.
      rewrite Z.mod_add by lia. reflexivity. }
    assert (Es : snd r = P - snd y).
    { subst r. cbn [neg2 snd]. symmetry. apply Z.mod_unique with (-1); lia. }
    rewrite Es, parity_flip by lia.
    rewrite E, neg2_neg2 by (split; assumption).
    apply g2_from_ints_valid; try assumption; lia.
Qed.

(* ---------------- totality of DecompressToG2 (no primality needed) ---------------- *)
Lemma g2_from_ints_total p insub x y :
  0 <= fst x -> 0 <= snd x -> 0 <= fst y -> 0 <= snd y ->
  match g2_from_ints p insub x y with R2 pt => valid2 p pt = true | Err2 => True | _ => False end.
Proof.
  intros X1 X2 Y1 Y2. unfold g2_from_ints.
  destruct (_ || _ || _ || _); [exact I|].
  destruct (_ || _ || _ || _) eqn:E; [exact I|].
  rewrite !orb_false_iff, !Z.leb_gt in E. destruct E as [[[E1 E2] E3] E4].
  destruct (_ && _ && _ && _); [reflexivity|].
  destruct (on_twist p x y) eqn:T; [|exact I]. destruct (insub x y); [|exact I].
  cbn [andb valid2]. rewrite T, !andb_true_r. apply andb_true_iff.
  split; apply in_range2_iff; split; lia.
Qed.

Theorem decompress2_total_gen p insub m : 1 < p -> m <> [] ->
  match decompress2 p (sqrt_gfp2 p) insub m with
  | R2 pt => valid2 p pt = true | Err2 => True | _ => False end.
Proof.
  intros Hp Hm. destruct m as [|b0 rest]; [congruence|].
  cbv beta iota zeta delta [decompress2].
  destruct (sqrt_gfp2 p _) as [y|] eqn:Es; [|exact I].
  apply sqrt_gfp2_sound in Es; [|exact Hp]. destruct Es as [[Y1 Y2] _].
  apply g2_from_ints_total; cbn [fst snd]; try apply be_nonneg.
  - destruct (N.eqb _ _); [lia|]. apply Z.mod_pos_bound. lia.
  - destruct (N.eqb _ _); [lia|]. apply Z.mod_pos_bound. lia.
Qed.

(* ================================================================== *)
(* the executable validity predicate is the curve equation with reduced coordinates *)
Lemma valid1_iff p x y : valid1 p (Aff1 x y) = true <->
  (0 <= x < p /\ 0 <= y < p /\ (y * y) mod p = (x * x * x + 3) mod p).
Proof.
  cbn [valid1]. unfold curveB. rewrite !andb_true_iff, !Z.leb_le, !Z.ltb_lt, Z.eqb_eq. tauto.
Qed.

(* ---------------- instances at the BN254 base-field prime ---------------- *)
Theorem g1_roundtrip : prime P -> forall x y,
  0 <= x < P -> 0 <= y < P -> (y * y) mod P = (x * x * x + 3) mod P ->
  decompress1 P (mod_sqrt P) (compress1 (Aff1 x y)) = R1 (Aff1 x y).
Proof.
  intros HP x y Hx Hy E. destruct P_facts as [F1 [F2 F3]].
  apply g1_roundtrip_gen; try assumption; try lia.
  apply valid1_iff. auto.
Qed.

(* the identity has no compressed encoding: Compress gives 32 zero bytes, which do not decode
   (3 is not a square modulo p) *)
Theorem g1_identity_roundtrip_refuted :
  decompress1 P (mod_sqrt P) (compress1 Inf1) = Err1.
Proof. vm_compute. reflexivity. Qed.

Theorem decompress1_total m : m <> [] ->
  match decompress1 P (mod_sqrt P) m with
  | R1 Inf1 => True
  | R1 (Aff1 x y) => 0 <= x < P /\ 0 <= y < P /\ (y * y) mod P = (x * x * x + 3) mod P
  | Err1 => True
  | Panic1 | Hang1 | Nil1 => False
  end.
Proof.
  intros Hm. destruct P_facts as [F1 [F2 F3]].
  pose proof (decompress1_total_gen P m ltac:(lia) Hm) as T.
  destruct (decompress1 P (mod_sqrt P) m) as [[|x y]| | | |]; try exact T; try exact I.
  apply valid1_iff. exact T.
Qed.

(* ---------------- non-vacuity ---------------- *)
Lemma prime_7 : prime 7.
Proof.
  apply prime_intro; [lia|]. intros n Hn.
  assert (H : n = 1 \/ n = 2 \/ n = 3 \/ n = 4 \/ n = 5 \/ n = 6) by lia.
  destruct H as [->|[->|[->|[->|[->| ->]]]]]; apply Zgcd_1_rel_prime; reflexivity.
Qed.

(* the generic theorem at p = 7 (all hypotheses proved), on the point (1, 2) of y^2 = x^3 + 3 *)
Example g1_roundtrip_p7 :
  decompress1 7 (mod_sqrt 7) (compress1 (Aff1 1 2)) = R1 (Aff1 1 2).
Proof.
  apply (g1_roundtrip_gen 7 prime_7); [reflexivity|lia|lia|reflexivity].
Qed.
(* the BN254 generator (1, 2) satisfies the hypotheses of [g1_roundtrip] *)
Example g1_generator_valid : 0 <= 1 < P /\ 0 <= 2 < P /\ (2 * 2) mod P = (1 * 1 * 1 + 3) mod P.
Proof. vm_compute. repeat split; congruence. Qed.

(* ---------------- G2 instances with Prop-level statements ---------------- *)
Theorem decompress2_total insub m : m <> [] ->
  match decompress2 P (sqrt_gfp2 P) insub m with
  | R2 Inf2 => True
  | R2 (Aff2 x y) => ok2 P x /\ ok2 P y /\
      mul2 P y y = add2 P (mul2 P (mul2 P x x) x) twistB
  | Err2 => True
  | Panic2 | Hang2 => False
  end.
Proof.
  intros Hm. destruct P_facts as [F1 [F2 F3]].
  pose proof (decompress2_total_gen P insub m ltac:(lia) Hm) as T.
  destruct (decompress2 P (sqrt_gfp2 P) insub m) as [[|x y]| | |]; try exact T; try exact I.
  cbn [valid2] in T. rewrite !andb_true_iff, !in_range2_iff in T.
  destruct T as [[X Y] T]. unfold on_twist in T. apply eq2_eq in T. auto.
Qed.

Lemma valid2_iff p x y : valid2 p (Aff2 x y) = true <->
  (ok2 p x /\ ok2 p y /\ mul2 p y y = add2 p (mul2 p (mul2 p x x) x) twistB).
Proof.
  cbn [valid2]. unfold on_twist. rewrite !andb_true_iff, !in_range2_iff, eq2_eq. tauto.
Qed.

(* the generator of G2 (bn256 twistGen) satisfies the hypotheses of [g2_roundtrip] *)
Example g2_generator_valid :
  let x := (10857046999023057135944570762232829481370756359578518086990519993285655852781,
            11559732032986387107991004021392285783925812861821192530917403151452391805634) in
  let y := (8495653923123431417604973247489272438418190587263600148770280649306958101930,
            4082367875863433681332203403145435568316851327593401208105741076214120093531) in
  valid2 P (Aff2 x y) = true /\ snd y <> 0.
Proof. vm_compute. split; congruence. Qed.

(* ================================================================== *)
(* the BigZ mirror used by Concrete.judge computes the same functions *)
Lemma mul2B_spec pb a b :
  toZ2 (mul2B pb a b) = mul2 (BigZ.to_Z pb) (toZ2 a) (toZ2 b).
Proof.
  unfold mul2B, mul2, toZ2. cbn [fst snd].
  rewrite !BigZ.spec_modulo, BigZ.spec_sub, BigZ.spec_add, !BigZ.spec_modulo, !BigZ.spec_mul.
  reflexivity.
Qed.
Lemma pow_posB_spec pb q : forall e b,
  toZ2 (pow_posB pb e b q) = pow_pos (BigZ.to_Z pb) (toZ2 e) (toZ2 b) q.
Proof.
  induction q as [q IH|q IH|]; intros e b; cbn [pow_posB pow_pos].
  - rewrite IH, !mul2B_spec. reflexivity.
  - rewrite IH, !mul2B_spec. reflexivity.
  - apply mul2B_spec.
Qed.
Lemma toZ2_one : toZ2 (1, 0)%bigZ = (1, 0).
Proof. reflexivity. Qed.
Lemma toZ2_ofZ2 a : toZ2 (ofZ2 a) = a.
Proof. destruct a. unfold toZ2, ofZ2. cbn [fst snd]. rewrite !BigZ.spec_of_Z. reflexivity. Qed.
Lemma x2yB_spec pb x y : x2yB pb x y = x2y (BigZ.to_Z pb) (toZ2 x) (toZ2 y).
Proof.
  unfold x2yB, x2y, eq2. cbv zeta. rewrite !BigZ.spec_eqb.
  change (pow2 (BigZ.to_Z pb) (toZ2 y) 2) with (pow_pos (BigZ.to_Z pb) (1, 0) (toZ2 y) 2).
  rewrite <- toZ2_one, <- pow_posB_spec. reflexivity.
Qed.
Lemma sqrt_loopB_spec pb hr n : toZ2 hr = hexRoot -> forall x y,
  option_map toZ2 (sqrt_loopB pb hr n x y) = sqrt_loop (BigZ.to_Z pb) n (toZ2 x) (toZ2 y).
Proof.
  intros Hh. induction n as [|n IH]; intros x y; cbn [sqrt_loopB sqrt_loop]; [reflexivity|].
  rewrite x2yB_spec. destruct (x2y _ _ _); [reflexivity|].
  rewrite IH, mul2B_spec, Hh. reflexivity.
Qed.
Lemma powmodB_spec pb a e :
  BigZ.to_Z (powmodB pb a e) = powmod (BigZ.to_Z pb) (BigZ.to_Z a) e.
Proof.
  induction e as [e IH|e IH|]; cbn [powmodB powmod].
  - rewrite !BigZ.spec_modulo, BigZ.spec_mul, BigZ.spec_modulo, BigZ.spec_mul, IH. reflexivity.
  - rewrite BigZ.spec_modulo, BigZ.spec_mul, IH. reflexivity.
  - apply BigZ.spec_modulo.
Qed.

Theorem mod_sqrt_big_eq p c : mod_sqrt_big p c = mod_sqrt p c.
Proof.
  unfold mod_sqrt_big, mod_sqrt. destruct ((p + 1) / 4); try reflexivity.
  rewrite powmodB_spec, !BigZ.spec_of_Z. reflexivity.
Qed.

Lemma pow2_unfold p x q : pow2 p x (Z.pos q) = pow_pos p (1, 0) x q.
Proof. reflexivity. Qed.

Theorem sqrt_gfp2_big_eq p x : sqrt_gfp2_big p x = sqrt_gfp2 p x.
Proof.
  rewrite sqrt_gfp2_unfold. unfold sqrt_gfp2_big. cbv zeta.
  rewrite sqrt_loopB_spec by apply toZ2_ofZ2.
  rewrite BigZ.spec_of_Z, toZ2_ofZ2. f_equal.
  rewrite sqrtExp_is_pos, pow2_unfold.
  rewrite pow_posB_spec, toZ2_one, toZ2_ofZ2, BigZ.spec_of_Z. reflexivity.
Qed.

(* the judge only applies its square-root arguments: extensionally equal ones give the same verdict *)
Section Ext.
  Variable p : Z.
  Variables (ms ms' : Z -> option Z) (sq sq' : gfp2 -> option gfp2).
  Hypothesis Hms : forall c, ms c = ms' c.
  Hypothesis Hsq : forall x, sq x = sq' x.
  Lemma decompress1_ext m : decompress1 p ms m = decompress1 p ms' m.
  Proof. destruct m; [reflexivity|]. cbv beta iota zeta delta [decompress1]. rewrite Hms. reflexivity. Qed.
  Lemma decompress2_ext insub m : decompress2 p sq insub m = decompress2 p sq' insub m.
  Proof. destruct m; [reflexivity|]. cbv beta iota zeta delta [decompress2]. rewrite Hsq. reflexivity. Qed.
  Lemma hash_loop_ext fuel : forall x, hash_loop p ms fuel x = hash_loop p ms' fuel x.
  Proof.
    induction fuel as [|f IH]; intros x; cbn [hash_loop]; [reflexivity|]. rewrite Hms, IH. reflexivity.
  Qed.
  Lemma hash_run_ext fuel : forall x, hash_run p ms fuel x = hash_run p ms' fuel x.
  Proof.
    induction fuel as [|f IH]; intros x; cbn [hash_run]; [reflexivity|]. rewrite Hms, IH. reflexivity.
  Qed.
  Lemma agree_ext c : agree p ms sq c = agree p ms' sq' c.
  Proof.
    destruct c; cbn [agree]; unfold agree_dec2, dec2, hash_to_point, hash_to_point_run;
      rewrite ?decompress1_ext, ?decompress2_ext, ?hash_loop_ext, ?hash_run_ext; reflexivity.
  Qed.
  Lemma judge_ext c : judge p ms sq c = judge p ms' sq' c.
  Proof. unfold judge. rewrite agree_ext. reflexivity. Qed.
End Ext.

Theorem judge_big_eq c : Concrete.judge c = Concrete.judge_Z c.
Proof.
  unfold Concrete.judge, Concrete.judge_Z.
  apply judge_ext; [apply mod_sqrt_big_eq|apply sqrt_gfp2_big_eq].
Qed.

(* ================================================================== *)
(* soundness of the executable property *)
Lemma point1_eqb_eq a b : point1_eqb a b = true <-> a = b.
Proof.
  destruct a, b; cbn [point1_eqb]; try (split; [discriminate|congruence]); try tauto.
  rewrite andb_true_iff, !Z.eqb_eq. split; [intros [-> ->]; reflexivity|intros [= -> ->]; auto].
Qed.
Lemma point2_eqb_eq a b : point2_eqb a b = true <-> a = b.
Proof.
  destruct a, b; cbn [point2_eqb]; try (split; [discriminate|congruence]); try tauto.
  rewrite andb_true_iff, !eq2_eq. split; [intros [-> ->]; reflexivity|intros [= -> ->]; auto].
Qed.
Lemma res1_eqb_R1 d pt : res1_eqb d (R1 pt) = true <-> d = R1 pt.
Proof.
  destruct d; cbn [res1_eqb]; try (split; [discriminate|congruence]).
  rewrite point1_eqb_eq. split; congruence.
Qed.
Lemma res2_eqb_R2 d pt : res2_eqb d (R2 pt) = true <-> d = R2 pt.
Proof.
  destruct d; cbn [res2_eqb]; try (split; [discriminate|congruence]).
  rewrite point2_eqb_eq. split; congruence.
Qed.

Theorem spec_sound c : spec P c = true ->
  match c with
  | CRound1 pt _ d => d = R1 pt
  | CRound2 pt _ d => d = R2 pt
  | CDec1 _ d =>
      match d with
      | R1 Inf1 | Err1 => True
      | R1 (Aff1 x y) => 0 <= x < P /\ 0 <= y < P /\ (y * y) mod P = (x * x * x + 3) mod P
      | _ => False
      end
  | CDec2 _ d =>
      match d with
      | R2 Inf2 | Err2 => True
      | R2 (Aff2 x y) => ok2 P x /\ ok2 P y /\ mul2 P y y = add2 P (mul2 P (mul2 P x x) x) twistB
      | _ => False
      end
  | CHash _ pt rep | CHashRun _ _ pt rep =>
      exists x y, pt = R1 (Aff1 x y) /\ rep = pt /\
        0 <= x < P /\ 0 <= y < P /\ (y * y) mod P = (x * x * x + 3) mod P
  end.
Proof.
  destruct c as [pt c d|pt c d|m d|m d|h pt rep|h run pt rep]; cbn [spec]; intros H.
  - apply res1_eqb_R1. exact H.
  - apply res2_eqb_R2. exact H.
  - destruct d as [[|x y]| | | |]; try exact I; try discriminate. apply valid1_iff. exact H.
  - destruct d as [[|x y]| | |]; try exact I; try discriminate. apply valid2_iff. exact H.
  - apply andb_true_iff in H. destruct H as [H1 H2].
    destruct pt as [[|x y]| | | |]; try discriminate.
    exists x, y. split; [reflexivity|]. split; [|apply valid1_iff; exact H2].
    destruct rep as [q| | | |]; cbn [res1_eqb] in H1; try discriminate.
    apply point1_eqb_eq in H1. congruence.
  - apply andb_true_iff in H. destruct H as [H1 H2].
    destruct pt as [[|x y]| | | |]; try discriminate.
    exists x, y. split; [reflexivity|]. split; [|apply valid1_iff; exact H2].
    destruct rep as [q| | | |]; cbn [res1_eqb] in H1; try discriminate.
    apply point1_eqb_eq in H1. congruence.
Qed.

(* the property holds of every output of the model *)
Theorem spec_holds_of_model :
  (prime P -> forall x y c, valid1 P (Aff1 x y) = true ->
     spec P (CRound1 (Aff1 x y) c (decompress1 P (mod_sqrt P) (compress1 (Aff1 x y)))) = true) /\
  (prime P -> forall x y c, valid2 P (Aff2 x y) = true -> snd y <> 0 ->
     spec P (CRound2 (Aff2 x y) c (dec2 P (sqrt_gfp2 P) (compress2 (Aff2 x y)) true)) = true) /\
  (forall m, m <> [] -> spec P (CDec1 m (decompress1 P (mod_sqrt P) m)) = true) /\
  (forall m o, m <> [] -> spec P (CDec2 m (dec2 P (sqrt_gfp2 P) m o)) = true) /\
  (forall fuel h r, hash_to_point P (mod_sqrt P) fuel h = Some r -> spec P (CHash h r r) = true) /\
  (forall fuel h n r, hash_to_point_run P (mod_sqrt P) fuel h = Some (n, r) ->
     spec P (CHashRun h n r r) = true).
Proof.
  destruct P_facts as [F1 [F2 F3]].
  split; [|split; [|split; [|split; [|split]]]].
  - intros HP x y c V. cbn [spec]. apply valid1_iff in V. destruct V as [Hx [Hy E]].
    rewrite (g1_roundtrip HP x y Hx Hy E). apply res1_eqb_R1. reflexivity.
  - intros HP x y c V Hy. cbn [spec]. unfold dec2.
    rewrite (g2_roundtrip HP (fun _ _ => true) x y V Hy eq_refl). apply res2_eqb_R2. reflexivity.
  - intros m Hm. cbn [spec]. pose proof (decompress1_total_gen P m ltac:(lia) Hm) as T.
    destruct (decompress1 P (mod_sqrt P) m); try exact T; try reflexivity; contradiction.
  - intros m o Hm. cbn [spec]. unfold dec2.
    pose proof (decompress2_total_gen P (fun _ _ => o) m ltac:(lia) Hm) as T.
    destruct (decompress2 P (sqrt_gfp2 P) (fun _ _ => o) m); try exact T; try reflexivity; contradiction.
  - intros fuel h r H. apply hash_to_point_on_curve in H. destruct H as [x [y [-> V]]].
    cbn [spec]. rewrite V. cbn [res1_eqb point1_eqb]. rewrite !Z.eqb_refl. reflexivity.
  - intros fuel h n r H. apply hash_to_point_run_result, hash_to_point_on_curve in H.
    destruct H as [x [y [-> V]]].
    cbn [spec]. rewrite V. cbn [res1_eqb point1_eqb]. rewrite !Z.eqb_refl. reflexivity.
Qed.

(* ---------------- the guards of the G2 round trip are necessary ---------------- *)
(* a point of the twist with a real y (imaginary part 0): y and -y have the same parity flag,
   so the encoding cannot tell them apart and one of the two does not round-trip *)
Definition real_y_x : gfp2 :=
  (16860447915893908144745022668869170094024604054612144315750478855813820146550,
   18807563779788613928316331866962986488771121879176364591366657151207493717790).
Theorem g2_roundtrip_real_y_refuted : exists x y,
  valid2 P (Aff2 x y) = true /\ snd y = 0 /\ y <> (0, 0) /\
  forall insub, decompress2 P (sqrt_gfp2 P) insub (compress2 (Aff2 x y)) <> R2 (Aff2 x y).
Proof.
  exists real_y_x, (P - 4, 0). split; [vm_compute; reflexivity|]. split; [reflexivity|].
  split; [discriminate|]. intros insub.
  rewrite (decompress2_ext P (sqrt_gfp2 P) (sqrt_gfp2_big P))
    by (intros; symmetry; apply sqrt_gfp2_big_eq).
  vm_compute. destruct (insub _ _); intros E; discriminate E.
Qed.

Theorem g2_identity_roundtrip_refuted insub :
  decompress2 P (sqrt_gfp2 P) insub (compress2 Inf2) = Err2.
Proof.
  rewrite (decompress2_ext P (sqrt_gfp2 P) (sqrt_gfp2_big P))
    by (intros; symmetry; apply sqrt_gfp2_big_eq).
  vm_compute. reflexivity.
Qed.

(* ---------------- a long try-and-increment run ---------------- *)
(* the longest run of the committed corpus harness/cmd/c04/longruns.json: the message
   "verif-c04-580506951" (h = its SHA-256 digest) needs 35 increments; the model finds the point
   (computed through the BigZ mirror, transported by [hash_run_ext]) *)
Example hash_long_run_example :
  let h := 31538168635880528272947259340879919360163325398046791424106931151762116451838 in
  let x := 9649925764041253050700853595622644271467014240748967761417893257116890243290 in
  let y := 10497044682341762664062784209602949105325083559917830597724025761412343081982 in
  hash_to_point_run P (mod_sqrt P) 256 h = Some (35, R1 (Aff1 x y)) /\ x = h mod P + 35 /\
  valid1 P (Aff1 x y) = true.
Proof.
  cbv zeta. unfold hash_to_point_run.
  rewrite (hash_run_ext P (mod_sqrt P) (mod_sqrt_big P)) by (intros; symmetry; apply mod_sqrt_big_eq).
  split; [vm_compute; reflexivity|]. split; vm_compute; reflexivity.
Qed.

(* ================================================================== *)
(* the same buffers used again: decoding is a function of the bytes *)
Lemma decode_again_spec {R} (dec : list N -> R) k buf :
  decode_again dec k buf = (repeat (dec buf) k, buf).
Proof.
  induction k as [|k IH]; cbn [decode_again repeat]; [reflexivity|]. rewrite IH. reflexivity.
Qed.
Lemma res1_eqb_eq a b : res1_eqb a b = true -> a = b.
Proof.
  destruct a, b; cbn [res1_eqb]; try discriminate; try reflexivity.
  intros H. apply point1_eqb_eq in H. congruence.
Qed.
Lemma res2_eqb_eq a b : res2_eqb a b = true -> a = b.
Proof.
  destruct a, b; cbn [res2_eqb]; try discriminate; try reflexivity.
  intros H. apply point2_eqb_eq in H. congruence.
Qed.
Lemma bytes_eqb_eq a : forall b, bytes_eqb a b = true -> a = b.
Proof.
  unfold bytes_eqb. induction a as [|x a IH]; intros [|y b] H; cbn in H; try discriminate; auto.
  apply andb_true_iff in H as [Hl H]. apply andb_true_iff in H as [Hx H].
  apply N.eqb_eq in Hx. subst. f_equal. apply IH. rewrite Hl. exact H.
Qed.
Lemma bytes_eqb_refl a : bytes_eqb a a = true.
Proof.
  unfold bytes_eqb. rewrite Nat.eqb_refl. cbn [andb].
  induction a as [|x a IH]; cbn; auto. now rewrite N.eqb_refl.
Qed.
Lemma cres_same_eq a b : cres_same a b = true -> a = b.
Proof.
  destruct a, b; cbn [cres_same]; try discriminate; auto.
  intros H. now rewrite (bytes_eqb_eq _ _ H).
Qed.
Lemma res1_eqb_refl_ok a : (match a with R1 _ | Err1 | Panic1 => True | _ => False end) ->
  res1_eqb a a = true.
Proof.
  destruct a; cbn [res1_eqb]; try tauto. intros _. now apply point1_eqb_eq.
Qed.
Lemma res2_eqb_refl_ok a : (match a with R2 _ | Err2 | Panic2 => True | _ => False end) ->
  res2_eqb a a = true.
Proof.
  destruct a; cbn [res2_eqb]; try tauto. intros _. now apply point2_eqb_eq.
Qed.

(* what [reuse_ok] says *)
Definition reuse_good (u : ucase) : Prop :=
  match u with
  | URound1 pt c d d2 d3 c_after pt_after recomp =>
      d2 = d /\ d3 = d /\ c_after = c /\ pt_after = pt
      /\ (forall q, d = R1 q -> recomp = Some c)
  | URound2 pt c d d2 d3 c_after pt_after recomp =>
      d2 = d /\ d3 = d /\ c_after = c /\ pt_after = pt
      /\ (forall q, d = R2 q -> recomp = Some c)
  | UDec1 m d d2 d3 m_after _ => d2 = d /\ d3 = d /\ m_after = m
  | UDec2 m d d2 d3 m_after _ => d2 = d /\ d3 = d /\ m_after = m
  | UHash _ _ _ kept | UHashRun _ _ _ _ kept => kept = true
  end.
Lemma reuse_ok_sound u : reuse_ok u = true -> reuse_good u.
Proof.
  destruct u; cbn [reuse_ok reuse_good]; intros H; auto;
    repeat (apply andb_true_iff in H as [H ?]).
  - apply res1_eqb_eq in H. apply res1_eqb_eq in H3. apply cres_same_eq in H2.
    apply point1_eqb_eq in H1. repeat split; auto.
    intros q ->. destruct recomp as [rc|]; [|discriminate]. apply cres_same_eq in H0. congruence.
  - apply res2_eqb_eq in H. apply res2_eqb_eq in H3. apply cres_same_eq in H2.
    apply point2_eqb_eq in H1. repeat split; auto.
    intros q ->. destruct recomp as [rc|]; [|discriminate]. apply cres_same_eq in H0. congruence.
  - apply res1_eqb_eq in H. apply res1_eqb_eq in H1. apply bytes_eqb_eq in H0. auto.
  - apply res2_eqb_eq in H. apply res2_eqb_eq in H1. apply bytes_eqb_eq in H0. auto.
Qed.

(* the model passes: decoding the model's buffer three times ([decode_again]) and compressing
   the decoded point of a round trip gives observations that satisfy [reuse_ok] *)
Lemma reuse_holds_of_model_dec1 p ms m :
  let '(ds, m') := decode_again (decompress1 p ms) 3 m in
  m <> [] ->
  (match decompress1 p ms m with Panic1 => False | _ => True end) ->
  reuse_ok (UDec1 m (nth 0 ds Panic1) (nth 1 ds Panic1) (nth 2 ds Panic1) m' None) = true.
Proof.
  rewrite decode_again_spec. cbn [repeat nth reuse_ok]. intros _ Hd.
  rewrite bytes_eqb_refl, andb_true_r, andb_diag.
  apply res1_eqb_refl_ok. destruct m as [|b0 rest]; cbn [decompress1] in *; [tauto|].
  destruct (ms _); [|exact I]. unfold g1_from_ints.
  repeat match goal with |- context [if ?b then _ else _] => destruct b end; exact I.
Qed.
Lemma reuse_holds_of_model_round1 p ms pt :
  decompress1 p ms (compress1 pt) = R1 pt ->
  let c := CBytes (compress1 pt) in
  let '(ds, buf) := decode_again (decompress1 p ms) 3 (compress1 pt) in
  reuse_ok (URound1 pt c (nth 0 ds Panic1) (nth 1 ds Panic1) (nth 2 ds Panic1) (CBytes buf) pt
                    (Some (CBytes (compress1 pt)))) = true.
Proof.
  intros Hr. rewrite decode_again_spec. cbn [repeat nth reuse_ok]. rewrite Hr.
  cbn [res1_eqb cres_same]. rewrite bytes_eqb_refl.
  replace (point1_eqb pt pt) with true by (symmetry; now apply point1_eqb_eq). reflexivity.
Qed.
Lemma reuse_holds_of_model_round2 p sq insub pt :
  decompress2 p sq insub (compress2 pt) = R2 pt ->
  let c := CBytes (compress2 pt) in
  let '(ds, buf) := decode_again (decompress2 p sq insub) 3 (compress2 pt) in
  reuse_ok (URound2 pt c (nth 0 ds Panic2) (nth 1 ds Panic2) (nth 2 ds Panic2) (CBytes buf) pt
                    (Some (CBytes (compress2 pt)))) = true.
Proof.
  intros Hr. rewrite decode_again_spec. cbn [repeat nth reuse_ok]. rewrite Hr.
  cbn [res2_eqb cres_same]. rewrite bytes_eqb_refl.
  replace (point2_eqb pt pt) with true by (symmetry; now apply point2_eqb_eq). reflexivity.
Qed.

Theorem judge_u_big_eq u : Concrete.judge_u u = Concrete.judge_u_Z u.
Proof.
  unfold Concrete.judge_u, Concrete.judge_u_Z, judge_u.
  rewrite (agree_ext P _ _ _ _ (mod_sqrt_big_eq P) (sqrt_gfp2_big_eq P)). reflexivity.
Qed.
