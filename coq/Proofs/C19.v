(* C19 — lemmas about the protobuf wire model and the schema-directed decoder of Model/C19.v *)
From Coq Require Import ZArith NArith List Bool Lia.
From KV Require Import Common.Verdict Model.C19.
Import ListNotations.
Open Scope N_scope.

Lemma signer_before_fix_panics :
  forall parse, decode parse S_tbtc_signer_before_fix [] = Panic.
Proof. intros; reflexivity. Qed.
