(* C19 — lemmas about the protobuf wire model and the schema-directed decoder of Model/C19.v *)
From Coq Require Import ZArith NArith List Bool Lia.
From KV Require Import Common.Verdict Model.C19.
Import ListNotations.
Open Scope N_scope.

Ltac Zify.zify_post_hook ::= Z.div_mod_to_equations.

(* ------------------------------------------------------------------ varints *)
Lemma dec_enc_varint_f : forall fuel n r,
  n < 2 * 128 ^ N.of_nat fuel ->
  dec_varint_f fuel (enc_varint_f fuel n ++ r) = Some (n, r).
Proof.
  induction fuel as [|f IH]; intros n r Hn.
  - cbn [N.of_nat N.pow] in Hn. cbn [enc_varint_f dec_varint_f app].
    assert (E : n mod 128 = n) by (apply N.mod_small; lia). rewrite E.
    assert (H1 : (n <? 128) = true) by (apply N.ltb_lt; lia).
    assert (H2 : (n <? 2) = true) by (apply N.ltb_lt; lia).
    now rewrite H1, H2.
  - rewrite Nat2N.inj_succ, N.pow_succ_r' in Hn.
    cbn [enc_varint_f]. destruct (n <? 128) eqn:E.
    + cbn [app dec_varint_f]. now rewrite E.
    + apply N.ltb_ge in E. cbn [app dec_varint_f].
      assert (H1 : (n mod 128 + 128 <? 128) = false) by (apply N.ltb_ge; apply N.le_add_l).
      rewrite H1. rewrite IH.
      * f_equal. f_equal. clear IH Hn. pose proof (N.div_mod n 128 ltac:(lia)). lia.
      * clear IH H1. revert Hn. generalize (128 ^ N.of_nat f). intros P Hn.
        apply N.div_lt_upper_bound; lia.
Qed.

Lemma dec_enc_varint : forall n r, n < two64 -> dec_varint (enc_varint n ++ r) = Some (n, r).
Proof.
  intros n r H. unfold dec_varint, enc_varint. apply dec_enc_varint_f.
  unfold two64 in H. change (2 * 128 ^ N.of_nat 9) with 18446744073709551616. exact H.
Qed.

Lemma enc_varint_f_nonempty : forall fuel n, enc_varint_f fuel n <> [].
Proof. destruct fuel; intros n; cbn [enc_varint_f]; [|destruct (n <? 128)]; discriminate. Qed.

Lemma enc_varint_len : forall n, (1 <= length (enc_varint n))%nat.
Proof.
  intros n. unfold enc_varint. pose proof (enc_varint_f_nonempty 9 n).
  destruct (enc_varint_f 9 n); [congruence|cbn; lia].
Qed.

(* ------------------------------------------------------------------ tokens *)
Definition wf_tok (t : token) : Prop :=
  1 <= fst t <= max_num_msg /\
  match snd t with
  | WVar v => v < two64
  | WF64 l => length l = 8%nat
  | WF32 l => length l = 4%nat
  | WBytes l => lenN l < two64
  end.

Lemma dec_tag_enc : forall num wt r,
  1 <= num <= max_num_msg -> wt < 8 ->
  dec_tag max_num_msg (enc_tag num wt ++ r) = Some (num, wt, r).
Proof.
  intros num wt r [H1 H2] Hw. unfold dec_tag, enc_tag, max_num_msg in *.
  rewrite dec_enc_varint by (unfold two64; lia).
  assert (E1 : (num * 8 + wt) / 8 = num).
  { rewrite N.div_add_l by lia. rewrite (N.div_small wt 8) by assumption. lia. }
  assert (E2 : (num * 8 + wt) mod 8 = wt).
  { rewrite N.add_comm, N.mod_add by lia. apply N.mod_small; assumption. }
  rewrite E1, E2.
  assert (B1 : (1 <=? num) = true) by (apply N.leb_le; lia).
  assert (B2 : (num <=? 536870911) = true) by (apply N.leb_le; lia).
  now rewrite B1, B2.
Qed.

Lemma split_at_app : forall l r, split_at (lenN l) (l ++ r) = Some (l, r).
Proof.
  intros l r. unfold split_at, lenN.
  assert (E : (N.of_nat (length l) <=? N.of_nat (length (l ++ r))) = true).
  { apply N.leb_le. rewrite app_length. lia. }
  rewrite E, Nat2N.id. f_equal. f_equal.
  - rewrite firstn_app, Nat.sub_diag, firstn_all. cbn. now rewrite app_nil_r.
  - rewrite skipn_app, Nat.sub_diag, skipn_all. reflexivity.
Qed.

Lemma split_at_fixed : forall (k : nat) l r, length l = k -> split_at (N.of_nat k) (l ++ r) = Some (l, r).
Proof. intros k l r <-. apply split_at_app. Qed.

Lemma tokenize_f_step : forall f b l,
  tokenize_f (S f) (b :: l) =
  match dec_tag max_num_msg (b :: l) with
  | None => None
  | Some (num, wt, r) =>
      if wt =? 0 then
        match dec_varint r with
        | Some (v, r') =>
            match tokenize_f f r' with Some ts => Some ((num, WVar v) :: ts) | None => None end
        | None => None
        end
      else if wt =? 1 then
        match split_at 8 r with
        | Some (b, r') =>
            match tokenize_f f r' with Some ts => Some ((num, WF64 b) :: ts) | None => None end
        | None => None
        end
      else if wt =? 2 then
        match dec_varint r with
        | Some (n, r1) =>
            match split_at n r1 with
            | Some (b, r') =>
                match tokenize_f f r' with Some ts => Some ((num, WBytes b) :: ts) | None => None end
            | None => None
            end
        | None => None
        end
      else if wt =? 3 then
        match skip_group (S (length r)) [num] r with
        | Some r' => tokenize_f f r'
        | None => None
        end
      else if wt =? 5 then
        match split_at 4 r with
        | Some (b, r') =>
            match tokenize_f f r' with Some ts => Some ((num, WF32 b) :: ts) | None => None end
        | None => None
        end
      else None
  end.
Proof. reflexivity. Qed.

Lemma ser_tok_len : forall t, (1 <= length (ser_tok t))%nat.
Proof.
  intros [num v]. unfold ser_tok, enc_tag. cbn [fst snd].
  destruct v; rewrite app_length; pose proof (enc_varint_len (num * 8 + 0));
    pose proof (enc_varint_len (num * 8 + 1)); pose proof (enc_varint_len (num * 8 + 2));
    pose proof (enc_varint_len (num * 8 + 5)); lia.
Qed.

Lemma tokenize_f_ser : forall ts fuel,
  Forall wf_tok ts -> (length (ser ts) <= fuel)%nat -> tokenize_f fuel (ser ts) = Some ts.
Proof.
  induction ts as [|t ts IH]; intros fuel Hwf Hlen.
  - destruct fuel; reflexivity.
  - inversion Hwf as [|? ? Ht Hts]; subst.
    change (ser (t :: ts)) with (ser_tok t ++ ser ts) in *.
    rewrite app_length in Hlen. pose proof (ser_tok_len t) as Hl.
    destruct fuel as [|f]; [lia|].
    assert (IH' : tokenize_f f (ser ts) = Some ts) by (apply IH; [assumption|lia]).
    destruct t as [num v]. destruct Ht as [Hnum Hv]. cbn [fst snd] in *.
    destruct (ser_tok (num, v) ++ ser ts) as [|b l] eqn:E.
    { apply (f_equal (@length N)) in E. rewrite app_length in E. cbn in E. lia. }
    rewrite tokenize_f_step. rewrite <- E. unfold ser_tok. cbn [fst snd].
    destruct v as [x|x|x|x]; rewrite <- app_assoc; rewrite dec_tag_enc by (assumption || reflexivity).
    + cbn [N.eqb Pos.eqb]. rewrite dec_enc_varint by assumption. now rewrite IH'.
    + cbn [N.eqb Pos.eqb]. change 8 with (N.of_nat 8).
      rewrite split_at_fixed by assumption. now rewrite IH'.
    + cbn [N.eqb Pos.eqb]. change 4 with (N.of_nat 4).
      rewrite split_at_fixed by assumption. now rewrite IH'.
    + cbn [N.eqb Pos.eqb]. rewrite <- app_assoc. rewrite dec_enc_varint by assumption.
      rewrite split_at_app. now rewrite IH'.
Qed.

Lemma tokenize_ser : forall ts, Forall wf_tok ts -> tokenize (ser ts) = Some ts.
Proof. intros ts H. unfold tokenize. apply tokenize_f_ser; [assumption|lia]. Qed.

(* ------------------------------------------------------------------ big-endian integers *)
(* value of a byte list that extends [acc] on the left by the digits of n *)
Lemma be_bytes_f_val : forall fuel n acc,
  n < 2 ^ N.of_nat fuel ->
  be_val (be_bytes_f fuel n acc) = n * 256 ^ lenN acc + be_val acc.
Proof.
  induction fuel as [|f IH]; intros n acc Hn.
  - cbn [N.of_nat N.pow] in Hn. assert (n = 0) by lia. subst. cbn [be_bytes_f]. lia.
  - cbn [be_bytes_f]. destruct (n =? 0) eqn:E.
    + apply N.eqb_eq in E. subst. lia.
    + apply N.eqb_neq in E. rewrite IH.
      * unfold lenN. cbn [length]. rewrite Nat2N.inj_succ, N.pow_succ_r'.
        unfold be_val at 1. cbn [fold_left].
        assert (G : forall l a, fold_left (fun acc b => acc * 256 + b) l a =
                                a * 256 ^ N.of_nat (length l) + fold_left (fun acc b => acc * 256 + b) l 0).
        { clear. induction l as [|x l IHl]; intros a.
          - cbn. lia.
          - cbn [fold_left length]. rewrite Nat2N.inj_succ, N.pow_succ_r'.
            rewrite IHl. rewrite (IHl (0 * 256 + x)). lia. }
        rewrite (G acc (0 * 256 + n mod 256)). fold (be_val acc).
        pose proof (N.div_mod n 256 ltac:(lia)) as D.
        set (P := 256 ^ N.of_nat (length acc)) in *. nia.
      * rewrite Nat2N.inj_succ, N.pow_succ_r' in Hn.
        revert Hn. generalize (2 ^ N.of_nat f). intros P Hn.
        apply N.div_lt_upper_bound; lia.
Qed.

Lemma be_val_be_bytes : forall n, be_val (be_bytes n) = n.
Proof.
  intros n. unfold be_bytes. rewrite be_bytes_f_val.
  - unfold lenN. cbn. lia.
  - rewrite N2Nat.id. destruct n as [|p]; [cbn; lia|]. apply N.size_gt.
Qed.

(* ------------------------------------------------------------------ field extraction lemmas *)
Lemma vars_of_app : forall k a b, vars_of k (a ++ b) = vars_of k a ++ vars_of k b.
Proof. intros. unfold vars_of. apply flat_map_app. Qed.
Lemma bytes_of_app : forall k a b, bytes_of k (a ++ b) = bytes_of k a ++ bytes_of k b.
Proof. intros. unfold bytes_of. apply flat_map_app. Qed.

Lemma of_other : forall k ts, (forall tok, In tok ts -> fst tok <> k) ->
  vars_of k ts = [] /\ bytes_of k ts = [].
Proof.
  induction ts as [|t ts IH]; intros H; [split; reflexivity|].
  destruct IH as [I1 I2]; [intros tok Hin; apply H; now right|].
  assert (E : (fst t =? k) = false) by (apply N.eqb_neq, H; now left).
  unfold vars_of, bytes_of in *. cbn [flat_map]. rewrite E, I1, I2. split; reflexivity.
Qed.

Lemma glue0_ext : forall parse k t ts ts',
  vars_of k ts = vars_of k ts' -> bytes_of k ts = bytes_of k ts' ->
  glue0 parse k t ts = glue0 parse k t ts' /\ pb_ok0 k t ts = pb_ok0 k t ts'.
Proof.
  intros parse k t ts ts' Hv Hb.
  unfold glue0, pb_ok0, last_var, last_bytes. rewrite Hv, Hb. split; reflexivity.
Qed.

(* ------------------------------------------------------------------ well-formed values *)
Definition small (l : list N) : Prop := lenN l < two64.
Definition entry_bytes (e : N * list N) : list N := ser [(1, WVar (fst e)); (2, WBytes (snd e))].
Fixpoint sorted_keys (m : list (N * list N)) : Prop :=
  match m with
  | [] => True
  | e :: t => (forall e', In e' t -> fst e < fst e') /\ sorted_keys t
  end.

Section WF.
  Variable parse : N -> list N -> option (list N).
  Definition chk_ok (c : bcheck) (b : list N) : Prop := small b /\ check parse c b = Some b.
  Definition str_ok (b : list N) : Prop := small b /\ utf8_valid b = true.
  Definition wf_val0 (t : ftype0) (v : fval0) : Prop :=
    match t, v with
    | TU32 UFull, VN n => n < two32
    | TU32 _, VN n => n <= 255
    | TU64, VN n => n < two64
    | TBytes c, VB b => chk_ok c b
    | TString, VB b => str_ok b
    | TBig, VN n => small (be_bytes n)
    | TRep c, VL l => Forall (chk_ok c) l
    | TRepStr, VL l => Forall str_ok l
    | TMap c, VM m => sorted_keys m /\
                      Forall (fun e => fst e <= 255 /\ chk_ok c (snd e) /\ small (entry_bytes e)) m
    | _, _ => False
    end.

  Lemma check_all_ok : forall c l, Forall (chk_ok c) l -> check_all parse c l = Some l.
  Proof.
    induction l as [|b l IH]; intros H; [reflexivity|].
    inversion H as [|? ? [_ Hb] Hl]; subst. cbn [check_all]. now rewrite Hb, IH.
  Qed.
  Lemma check_map_ok : forall c m,
    Forall (fun e => fst e <= 255 /\ chk_ok c (snd e) /\ small (entry_bytes e)) m ->
    check_map parse c m = Some m.
  Proof.
    induction m as [|[k b] m IH]; intros H; [reflexivity|].
    inversion H as [|? ? [Hk [[_ Hb] _]] Hm]; subst. cbn [check_map fst snd] in *.
    assert (E : (255 <? k) = false) by (apply N.ltb_ge; assumption).
    now rewrite E, Hb, IH.
  Qed.

  Lemma map_put_last : forall k v acc, (forall a, In a acc -> fst a < k) -> map_put k v acc = acc ++ [(k, v)].
  Proof.
    induction acc as [|[k' v'] acc IH]; intros H; [reflexivity|].
    cbn [map_put app]. pose proof (H (k', v') (or_introl eq_refl)) as Hk. cbn [fst] in Hk.
    assert (E1 : (k <? k') = false) by (apply N.ltb_ge; lia).
    assert (E2 : (k =? k') = false) by (apply N.eqb_neq; lia).
    rewrite E1, E2, IH; [reflexivity|]. intros a Ha. apply H. now right.
  Qed.
  Lemma map_of_sorted_acc : forall l acc,
    (forall a e, In a acc -> In e l -> fst a < fst e) -> sorted_keys l ->
    fold_left (fun m e => map_put (fst e) (snd e) m) l acc = acc ++ l.
  Proof.
    induction l as [|[k v] l IH]; intros acc H S; [now rewrite app_nil_r|].
    cbn [fold_left fst snd]. destruct S as [S1 S2].
    rewrite map_put_last.
    - rewrite IH; [now rewrite <- app_assoc| |assumption].
      intros a e Ha He. apply in_app_or in Ha. destruct Ha as [Ha|[<-|[]]].
      + apply H; [assumption|now right].
      + apply (S1 e He).
    - intros a Ha. apply (H a (k, v) Ha). now left.
  Qed.
  Lemma map_of_sorted : forall m, sorted_keys m -> map_of m = m.
  Proof. intros m S. unfold map_of. rewrite map_of_sorted_acc; [reflexivity| |assumption]. intros a e []. Qed.

  Lemma map_entry_ok : forall e, fst e <= 255 -> small (snd e) -> small (entry_bytes e) ->
    map_entry (entry_bytes e) = Some e.
  Proof.
    intros [k b] Hk Hb _. cbn [fst snd] in *. unfold map_entry, entry_bytes. cbn [fst snd].
    rewrite tokenize_ser.
    - unfold last_var, last_bytes, vars_of, bytes_of. cbn [flat_map fst snd app N.eqb Pos.eqb last].
      rewrite N.mod_small by (unfold two32; lia). reflexivity.
    - repeat constructor; cbn [fst snd]; unfold max_num_msg, two64 in *; try lia. exact Hb.
  Qed.
  Lemma map_entries_ok : forall c m,
    Forall (fun e => fst e <= 255 /\ chk_ok c (snd e) /\ small (entry_bytes e)) m ->
    map_entries (map entry_bytes m) = Some m.
  Proof.
    induction m as [|e m IH]; intros H; [reflexivity|].
    inversion H as [|? ? [Hk [[Hs _] He]] Hm]; subst. cbn [map map_entries].
    now rewrite map_entry_ok, IH.
  Qed.

  Lemma bytes_of_rep : forall k l, bytes_of k (map (fun b => (k, WBytes b)) l) = l.
  Proof.
    induction l as [|b l IH]; [reflexivity|]. unfold bytes_of in *. cbn [map flat_map fst snd].
    now rewrite N.eqb_refl, IH.
  Qed.
  Lemma vars_of_rep : forall k (f : list N -> list N) l, vars_of k (map (fun b => (k, WBytes (f b))) l) = [].
  Proof.
    induction l as [|b l IH]; [reflexivity|]. unfold vars_of in *. cbn [map flat_map fst snd].
    now rewrite N.eqb_refl, IH.
  Qed.
  Lemma bytes_of_map : forall k m,
    bytes_of k (map (fun e => (k, WBytes (entry_bytes e))) m) = map entry_bytes m.
  Proof.
    induction m as [|e m IH]; [reflexivity|]. unfold bytes_of in *. cbn [map flat_map fst snd].
    now rewrite N.eqb_refl, IH.
  Qed.

  (* a field decoded from its own encoding *)
  Lemma own0 : forall k t v, 1 <= k <= max_num_msg -> wf_val0 t v ->
    let ts := enc_field0 k t v in
    Forall wf_tok ts /\ (forall tok, In tok ts -> fst tok = k) /\
    pb_ok0 k t ts = true /\ glue0 parse k t ts = Some v.
  Proof.
    intros k t v Hk Hwf.
    assert (Wv : forall n, n < two64 -> wf_tok (k, WVar n)) by (intros; split; assumption).
    assert (Wb : forall b, small b -> wf_tok (k, WBytes b)) by (intros; split; assumption).
    assert (Scal : forall n, n < two64 ->
              let ts := (if n =? 0 then [] else [(k, WVar n)]) : list token in
              Forall wf_tok ts /\ (forall tok, In tok ts -> fst tok = k) /\ last_var k ts = n).
    { intros n Hn. destruct (n =? 0) eqn:E; cbn zeta.
      - apply N.eqb_eq in E. subst. split; [constructor|split; [intros ? []|reflexivity]].
      - split; [constructor; [apply Wv; assumption|constructor]|split; [intros ? [<-|[]]; reflexivity|]].
        unfold last_var, vars_of. cbn [flat_map fst snd app]. now rewrite N.eqb_refl. }
    assert (Byt : forall b, small b ->
              let ts := enc_bytes_field k b in
              Forall wf_tok ts /\ (forall tok, In tok ts -> fst tok = k) /\
              bytes_of k ts = (match b with [] => [] | _ => [b] end) /\ last_bytes k ts = b).
    { intros b Hb. destruct b as [|x b]; cbn zeta; unfold enc_bytes_field.
      - split; [constructor|split; [intros ? []|split; reflexivity]].
      - split; [constructor; [apply Wb; assumption|constructor]|split; [intros ? [<-|[]]; reflexivity|]].
        unfold last_bytes, bytes_of; cbn [flat_map fst snd app]; rewrite N.eqb_refl. split; reflexivity. }
    destruct t as [u| |c| | |c| |c]; [destruct u|..]; destruct v as [n|b|l|m]; try contradiction;
      cbn [wf_val0] in Hwf; cbn zeta.
    1-3: (assert (Hn : n < two32) by (unfold two32 in *; lia);
          destruct (Scal n ltac:(unfold two32, two64 in *; lia)) as (S1 & S2 & S3);
          cbn [enc_field0]; (split; [|split; [|split]]); try assumption; try reflexivity;
          unfold glue0; rewrite S3; rewrite (N.mod_small n two32) by assumption).
    - assert (E : (255 <? n) = false) by (apply N.ltb_ge; lia). now rewrite E.
    - rewrite N.mod_small by lia. reflexivity.
    - reflexivity.
    - (* TU64 *)
      destruct (Scal n Hwf) as (S1 & S2 & S3). cbn [enc_field0]. (split; [|split; [|split]]); try assumption; try reflexivity.
      unfold glue0. now rewrite S3.
    - (* TBytes *)
      destruct Hwf as [Hs Hc]. destruct (Byt b Hs) as (S1 & S2 & S3 & S4).
      cbn [enc_field0]. (split; [|split; [|split]]); try assumption; try reflexivity. unfold glue0. rewrite S4, Hc. reflexivity.
    - (* TString *)
      destruct Hwf as [Hs Hu]. destruct (Byt b Hs) as (S1 & S2 & S3 & S4).
      cbn [enc_field0]. (split; [|split; [|split]]); try assumption; try reflexivity.
      + unfold pb_ok0. rewrite S3. destruct b; [reflexivity|]. cbn [forallb]. now rewrite Hu.
      + unfold glue0. now rewrite S4.
    - (* TBig *)
      destruct (Byt (be_bytes n) Hwf) as (S1 & S2 & S3 & S4).
      cbn [enc_field0]. (split; [|split; [|split]]); try assumption; try reflexivity. unfold glue0. now rewrite S4, be_val_be_bytes.
    - (* TRep *)
      cbn [enc_field0]. split; [|split; [|split]]; try reflexivity.
      + apply Forall_forall. intros tok Hin. apply in_map_iff in Hin. destruct Hin as (b & <- & Hb).
        apply Wb. rewrite Forall_forall in Hwf. apply (Hwf b Hb).
      + intros tok Hin. apply in_map_iff in Hin. destruct Hin as (b & <- & _). reflexivity.
      + unfold glue0. rewrite bytes_of_rep, check_all_ok by assumption. reflexivity.
    - (* TRepStr *)
      cbn [enc_field0]. split; [|split; [|split]]; try reflexivity.
      + apply Forall_forall. intros tok Hin. apply in_map_iff in Hin. destruct Hin as (b & <- & Hb).
        apply Wb. rewrite Forall_forall in Hwf. apply (Hwf b Hb).
      + intros tok Hin. apply in_map_iff in Hin. destruct Hin as (b & <- & _). reflexivity.
      + unfold pb_ok0. rewrite bytes_of_rep. apply forallb_forall. intros b Hb.
        rewrite Forall_forall in Hwf. apply (Hwf b Hb).
      + unfold glue0. now rewrite bytes_of_rep.
    - (* TMap *)
      destruct Hwf as [Hs Hm]. cbn [enc_field0]. fold (entry_bytes).
      change (map (fun e : N * list N => (k, WBytes (ser [(1, WVar (fst e)); (2, WBytes (snd e))]))) m)
        with (map (fun e => (k, WBytes (entry_bytes e))) m).
      split; [|split; [|split]].
      + apply Forall_forall. intros tok Hin. apply in_map_iff in Hin. destruct Hin as (e & <- & He).
        apply Wb. rewrite Forall_forall in Hm. apply (Hm e He).
      + intros tok Hin. apply in_map_iff in Hin. destruct Hin as (e & <- & _). reflexivity.
      + unfold pb_ok0. rewrite bytes_of_map, (map_entries_ok c) by assumption. reflexivity.
      + unfold glue0. rewrite bytes_of_map, (map_entries_ok c) by assumption.
        rewrite map_of_sorted by assumption. rewrite check_map_ok by assumption. reflexivity.
  Qed.
End WF.

(* ------------------------------------------------------------------ messages *)
Definition wf_fields {T} (fs : list (N * T)) : Prop :=
  NoDup (map fst fs) /\ Forall (fun f => 1 <= fst f <= max_num_msg) fs.

Lemma of_clean : forall k (ts : list token) (ks : list N),
  (forall tok, In tok ts -> ~ In (fst tok) ks) -> In k ks ->
  vars_of k ts = [] /\ bytes_of k ts = [].
Proof. intros k ts ks H Hk. apply of_other. intros tok Hin E. apply (H tok Hin). now rewrite E. Qed.

Section Messages.
  Variable parse : N -> list N -> option (list N).

  Lemma fields0_ok : forall fs vs,
    Forall2 (fun f v => wf_val0 parse (snd f) v) fs vs -> wf_fields fs ->
    forall pre post,
    (forall tok, In tok pre -> ~ In (fst tok) (map fst fs)) ->
    (forall tok, In tok post -> ~ In (fst tok) (map fst fs)) ->
    Forall wf_tok (enc_fields0 fs vs) /\
    (forall tok, In tok (enc_fields0 fs vs) -> In (fst tok) (map fst fs)) /\
    pb_ok_fields0 fs (pre ++ enc_fields0 fs vs ++ post) = true /\
    glue_fields0 parse fs (pre ++ enc_fields0 fs vs ++ post) = Some vs.
  Proof.
    induction 1 as [|[k t] v fs vs Hv Hrest IH]; intros [Hnd Hrng] pre post Hpre Hpost.
    - cbn. repeat split; [constructor|intros ? []].
    - cbn [map fst snd] in *. inversion Hnd as [|? ? Hnotin Hnd']; subst.
      inversion Hrng as [|? ? Hk Hrng']; subst. cbn [fst] in Hk.
      destruct (own0 parse k t v Hk Hv) as (W1 & F1 & P1 & G1).
      set (e1 := enc_field0 k t v) in *.
      specialize (IH (conj Hnd' Hrng') (pre ++ e1) post).
      destruct IH as (W2 & F2 & P2 & G2).
      { intros tok Hin Hbad. apply in_app_or in Hin. destruct Hin as [Hin|Hin].
        - apply (Hpre tok Hin). now right.
        - rewrite (F1 tok Hin) in Hbad. contradiction. }
      { intros tok Hin Hbad. apply (Hpost tok Hin). now right. }
      cbn [enc_fields0]. fold e1. set (e2 := enc_fields0 fs vs) in *.
      assert (A : pre ++ (e1 ++ e2) ++ post = (pre ++ e1) ++ e2 ++ post) by (now rewrite <- !app_assoc).
      assert (Ev : vars_of k (pre ++ (e1 ++ e2) ++ post) = vars_of k e1 /\
                   bytes_of k (pre ++ (e1 ++ e2) ++ post) = bytes_of k e1).
      { destruct (of_clean k pre (k :: map fst fs) Hpre (or_introl eq_refl)) as [a1 a2].
        destruct (of_clean k post (k :: map fst fs) Hpost (or_introl eq_refl)) as [b1 b2].
        destruct (of_other k e2) as [c1 c2].
        { intros tok Hin E. apply Hnotin. rewrite <- E. apply F2, Hin. }
        rewrite !vars_of_app, !bytes_of_app, a1, a2, b1, b2, c1, c2. cbn [app]. now rewrite !app_nil_r. }
      destruct Ev as [Ev Eb].
      destruct (glue0_ext parse k t _ _ Ev Eb) as [Eg Ep].
      split; [apply Forall_app; split; assumption|].
      split; [intros tok Hin; apply in_app_or in Hin; destruct Hin as [Hin|Hin];
              [left; symmetry; apply F1, Hin|right; apply F2, Hin]|].
      split.
      + unfold pb_ok_fields0 in *. cbn [forallb fst snd]. rewrite Ep, P1, A. exact P2.
      + cbn [glue_fields0]. rewrite Eg, G1, A, G2. reflexivity.
  Qed.

  Definition wf_val (t : ftype) (v : fval) : Prop :=
    match t, v with
    | F0 t0, V0 v0 => wf_val0 parse t0 v0
    | TMsg sub _, VMsg vs =>
        wf_fields sub /\ Forall2 (fun f v => wf_val0 parse (snd f) v) sub vs /\
        small (ser (enc_fields0 sub vs))
    | _, _ => False
    end.

  Lemma glue_ext : forall k t ts ts',
    vars_of k ts = vars_of k ts' -> bytes_of k ts = bytes_of k ts' ->
    glue parse k t ts = glue parse k t ts' /\ pb_ok k t ts = pb_ok k t ts'.
  Proof.
    intros k t ts ts' Hv Hb. destruct t as [t0|sub a].
    - destruct (glue0_ext parse k t0 ts ts' Hv Hb) as [E1 E2]. unfold glue, pb_ok. now rewrite E1, E2.
    - unfold glue, pb_ok. now rewrite Hb.
  Qed.

  Lemma own : forall k t v, 1 <= k <= max_num_msg -> wf_val t v ->
    let ts := enc_field k t v in
    Forall wf_tok ts /\ (forall tok, In tok ts -> fst tok = k) /\
    pb_ok k t ts = true /\ glue parse k t ts = GOk v.
  Proof.
    intros k t v Hk Hwf. destruct t as [t0|sub a]; destruct v as [v0|vs]; try contradiction; cbn [wf_val] in Hwf.
    - destruct (own0 parse k t0 v0 Hk Hwf) as (W & F & P & G). cbn zeta. cbn [enc_field].
      split; [assumption|]. split; [assumption|]. split; [exact P|]. unfold glue. now rewrite G.
    - destruct Hwf as (Hsub & Hvs & Hsmall). cbn zeta. cbn [enc_field].
      destruct (fields0_ok sub vs Hvs Hsub [] []) as (W & _ & P & G); try (intros ? []).
      cbn [app] in P, G. rewrite app_nil_r in P, G.
      set (payload := ser (enc_fields0 sub vs)) in *.
      assert (B : bytes_of k [(k, WBytes payload)] = [payload]).
      { unfold bytes_of. cbn [flat_map fst snd app]. now rewrite N.eqb_refl. }
      assert (T : sub_tokens [payload] = Some (enc_fields0 sub vs)).
      { cbn [sub_tokens]. unfold payload. rewrite tokenize_ser by assumption. now rewrite app_nil_r. }
      split; [constructor; [split; assumption|constructor]|].
      split; [intros ? [<-|[]]; reflexivity|].
      split.
      + unfold pb_ok. rewrite B, T. exact P.
      + unfold glue. rewrite B, T, G. reflexivity.
  Qed.

  Lemma fields_ok : forall sw fs vs,
    Forall2 (fun f v => wf_val (snd f) v) fs vs -> wf_fields fs ->
    forall pre post,
    (forall tok, In tok pre -> ~ In (fst tok) (map fst fs)) ->
    (forall tok, In tok post -> ~ In (fst tok) (map fst fs)) ->
    Forall wf_tok (enc_fields fs vs) /\
    (forall tok, In tok (enc_fields fs vs) -> In (fst tok) (map fst fs)) /\
    forallb (fun f => pb_ok (fst f) (snd f) (pre ++ enc_fields fs vs ++ post)) fs = true /\
    run_glue parse sw fs (pre ++ enc_fields fs vs ++ post) = Ok vs.
  Proof.
    intros sw. induction 1 as [|[k t] v fs vs Hv Hrest IH]; intros [Hnd Hrng] pre post Hpre Hpost.
    - cbn. repeat split; [constructor|intros ? []].
    - cbn [map fst snd] in *. inversion Hnd as [|? ? Hnotin Hnd']; subst.
      inversion Hrng as [|? ? Hk Hrng']; subst. cbn [fst] in Hk.
      destruct (own k t v Hk Hv) as (W1 & F1 & P1 & G1).
      set (e1 := enc_field k t v) in *.
      specialize (IH (conj Hnd' Hrng') (pre ++ e1) post).
      destruct IH as (W2 & F2 & P2 & G2).
      { intros tok Hin Hbad. apply in_app_or in Hin. destruct Hin as [Hin|Hin].
        - apply (Hpre tok Hin). now right.
        - rewrite (F1 tok Hin) in Hbad. contradiction. }
      { intros tok Hin Hbad. apply (Hpost tok Hin). now right. }
      cbn [enc_fields]. fold e1. set (e2 := enc_fields fs vs) in *.
      assert (A : pre ++ (e1 ++ e2) ++ post = (pre ++ e1) ++ e2 ++ post) by (now rewrite <- !app_assoc).
      assert (Ev : vars_of k (pre ++ (e1 ++ e2) ++ post) = vars_of k e1 /\
                   bytes_of k (pre ++ (e1 ++ e2) ++ post) = bytes_of k e1).
      { destruct (of_clean k pre (k :: map fst fs) Hpre (or_introl eq_refl)) as [a1 a2].
        destruct (of_clean k post (k :: map fst fs) Hpost (or_introl eq_refl)) as [b1 b2].
        destruct (of_other k e2) as [c1 c2].
        { intros tok Hin E. apply Hnotin. rewrite <- E. apply F2, Hin. }
        rewrite !vars_of_app, !bytes_of_app, a1, a2, b1, b2, c1, c2. cbn [app]. now rewrite !app_nil_r. }
      destruct Ev as [Ev Eb].
      destruct (glue_ext k t _ _ Ev Eb) as [Eg Ep].
      split; [apply Forall_app; split; assumption|].
      split; [intros tok Hin; apply in_app_or in Hin; destruct Hin as [Hin|Hin];
              [left; symmetry; apply F1, Hin|right; apply F2, Hin]|].
      split.
      + cbn [forallb fst snd]. rewrite Ep, P1, A. exact P2.
      + cbn [run_glue]. rewrite Eg, G1, A, G2. reflexivity.
  Qed.

  Definition wf_schema (s : mschema) : Prop := wf_fields (ms_fields s).
  Definition wf_value (s : mschema) (v : list fval) : Prop :=
    Forall2 (fun f x => wf_val (snd f) x) (ms_fields s) v.

  Theorem roundtrip : forall s v, wf_schema s -> wf_value s v -> decode parse s (encode s v) = Ok v.
  Proof.
    intros s v Hs Hv. unfold decode, encode.
    destruct (fields_ok (ms_swallow s) (ms_fields s) v Hv Hs [] []) as (W & _ & P & G); try (intros ? []).
    cbn [app] in P, G. rewrite app_nil_r in P, G.
    rewrite tokenize_ser by assumption. rewrite P. exact G.
  Qed.

  (* ---- totality *)
  Definition no_panic_field (f : N * ftype) : bool :=
    match snd f with TMsg _ APanic => false | _ => true end.
  Lemma run_glue_total : forall sw fs ts,
    forallb no_panic_field fs = true -> run_glue parse sw fs ts <> Panic.
  Proof.
    induction fs as [|[k t] fs IH]; intros ts H; [discriminate|].
    cbn [forallb] in H. apply andb_prop in H. destruct H as [H1 H2].
    cbn [run_glue]. destruct (glue parse k t ts) eqn:E.
    - specialize (IH ts H2). destruct (run_glue parse sw fs ts); congruence.
    - destruct (existsb (N.eqb k) sw); discriminate.
    - exfalso. unfold glue in E. destruct t as [t0|sub a].
      + destruct (glue0 parse k t0 ts); discriminate.
      + unfold no_panic_field in H1. cbn [snd] in H1. destruct a; [discriminate|].
        destruct (bytes_of k ts); [discriminate|].
        destruct (sub_tokens (l :: l0)); [|discriminate].
        destruct (glue_fields0 parse sub l1); discriminate.
  Qed.
  Theorem decode_total : forall s bytes,
    forallb no_panic_field (ms_fields s) = true -> decode parse s bytes <> Panic.
  Proof.
    intros s bytes H. unfold decode. destruct (tokenize bytes) as [ts|]; [|discriminate].
    destruct (forallb (fun f => pb_ok (fst f) (snd f) ts) (ms_fields s)); [|discriminate].
    now apply run_glue_total.
  Qed.
End Messages.

Lemma all_schemas_no_panic : forallb (fun s => forallb no_panic_field (ms_fields s)) all_schemas = true.
Proof. reflexivity. Qed.

(* ------------------------------------------------------------------ the listed schemas are well formed *)
Fixpoint nodup_b (l : list N) : bool :=
  match l with [] => true | x :: t => negb (existsb (N.eqb x) t) && nodup_b t end.
Definition wf_fields_b {T} (fs : list (N * T)) : bool :=
  nodup_b (map fst fs) && forallb (fun f => (1 <=? fst f) && (fst f <=? max_num_msg)) fs.
Definition wf_schema_b (s : mschema) : bool :=
  wf_fields_b (ms_fields s) &&
  forallb (fun f => match snd f with TMsg sub _ => wf_fields_b sub | F0 _ => true end) (ms_fields s).

Lemma nodup_b_ok : forall l, nodup_b l = true -> NoDup l.
Proof.
  induction l as [|x l IH]; intros H; [constructor|].
  cbn [nodup_b] in H. apply andb_prop in H. destruct H as [H1 H2]. constructor; [|now apply IH].
  intros Hin. apply negb_true_iff in H1.
  assert (E : existsb (N.eqb x) l = true) by (apply existsb_exists; exists x; split; [assumption|apply N.eqb_refl]).
  congruence.
Qed.
Lemma wf_fields_b_ok : forall T (fs : list (N * T)), wf_fields_b fs = true -> wf_fields fs.
Proof.
  intros T fs H. unfold wf_fields_b in H. apply andb_prop in H. destruct H as [H1 H2].
  split; [now apply nodup_b_ok|]. apply Forall_forall. intros f Hf.
  rewrite forallb_forall in H2. specialize (H2 f Hf). apply andb_prop in H2. destruct H2 as [A B].
  apply N.leb_le in A. apply N.leb_le in B. split; assumption.
Qed.
Lemma all_schemas_wf : forallb wf_schema_b all_schemas = true.
Proof. vm_compute. reflexivity. Qed.

(* ------------------------------------------------------------------ the executable property *)
Lemma spec_gen_sound : forall k o valid, spec_gen k o valid = true ->
  o <> OPanic /\ (o = OOk -> valid = true) /\ (k = KRoundTrip -> o = OOk).
Proof.
  intros k o valid H. destruct o; destruct k; cbn in H; try discriminate;
    (split; [discriminate|split; [intros; (assumption || discriminate)|intros; (reflexivity || discriminate)]]).
Qed.

Lemma model_passes_spec_any_bytes : forall parse s bytes,
  forallb no_panic_field (ms_fields s) = true ->
  spec_gen KCorrupt (class_of (decode parse s bytes)) true = true /\
  spec_gen KRandom (class_of (decode parse s bytes)) true = true.
Proof.
  intros parse s bytes H. pose proof (decode_total parse s bytes H) as T.
  destruct (decode parse s bytes); [split; reflexivity|split; reflexivity|congruence].
Qed.

Lemma model_passes_spec_roundtrip : forall parse s v,
  wf_schema s -> wf_value parse s v ->
  spec_gen KRoundTrip (class_of (decode parse s (encode s v))) true = true.
Proof. intros parse s v Hs Hv. now rewrite roundtrip. Qed.

(* ------------------------------------------------------------------ the hypotheses are satisfiable *)
Example roundtrip_example :
  let parse := (fun (_ : N) (b : list N) => Some b) in
  let v := [V0 (VN 5); V0 (VM [(1, [2; 3]); (7, [9])]); V0 (VB [97; 195; 169])] in
  wf_schema S_gjkr_EphemeralPublicKey /\ wf_value parse S_gjkr_EphemeralPublicKey v /\
  decode parse S_gjkr_EphemeralPublicKey (encode S_gjkr_EphemeralPublicKey v) = Ok v.
Proof.
  intros parse v.
  assert (Hs : wf_schema S_gjkr_EphemeralPublicKey) by (apply wf_fields_b_ok; reflexivity).
  assert (Hv : wf_value parse S_gjkr_EphemeralPublicKey v).
  { unfold wf_value, v. cbn [ms_fields S_gjkr_EphemeralPublicKey mk sender].
    constructor; [|constructor; [|constructor; [|constructor]]]; unfold sender; cbn [snd wf_val wf_val0].
    - lia.
    - split.
      + cbn. repeat split; try lia; intros e' [<-|[]]; cbn; lia.
      + repeat constructor; cbn [fst snd]; try lia; unfold small; vm_compute; reflexivity.
    - split; [unfold small; vm_compute; reflexivity|reflexivity]. }
  split; [exact Hs|]. split; [exact Hv|]. now apply roundtrip.
Qed.

(* the swallowed error of the gjkr accusation decoders: an out-of-range accused member makes
   Unmarshal return nil with only the sender set *)
Example accusations_swallow_example :
  decode (fun _ b => Some b) S_gjkr_Accusations
         (ser [(1, WVar 7); (2, WBytes (ser [(1, WVar 300); (2, WBytes [1])])); (3, WBytes [115])])
  = Ok [V0 (VN 7); V0 (VM []); V0 (VB [])].
Proof. vm_compute. reflexivity. Qed.

(* ------------------------------------------------------------------ the defect that was repaired *)
Lemma signer_before_fix_panics :
  forall parse, decode parse S_tbtc_signer_before_fix [] = Panic.
Proof. intros; reflexivity. Qed.

(* ------------------------------------------------------------------ the modelled decoders *)
Lemma in_all_schemas : forall s, In s all_schemas ->
  forallb no_panic_field (ms_fields s) = true /\ wf_schema s.
Proof.
  intros s H. split.
  - pose proof all_schemas_no_panic as A. rewrite forallb_forall in A. apply (A s H).
  - pose proof all_schemas_wf as A. rewrite forallb_forall in A. specialize (A s H).
    unfold wf_schema_b in A. apply andb_prop in A. destruct A as [A _]. now apply wf_fields_b_ok.
Qed.
Lemma modelled_decoders_total :
  forall parse s bytes, In s all_schemas -> decode parse s bytes <> Panic.
Proof. intros parse s bytes H. apply decode_total. apply (in_all_schemas s H). Qed.
Lemma modelled_decoders_roundtrip :
  forall parse s v, In s all_schemas -> wf_value parse s v -> decode parse s (encode s v) = Ok v.
Proof. intros parse s v H Hv. apply roundtrip; [apply (in_all_schemas s H)|assumption]. Qed.
Lemma model_outputs_pass_spec :
  forall parse s, In s all_schemas ->
    (forall bytes, spec_gen KCorrupt (class_of (decode parse s bytes)) true = true /\
                   spec_gen KRandom (class_of (decode parse s bytes)) true = true) /\
    (forall v, wf_value parse s v ->
               spec_gen KRoundTrip (class_of (decode parse s (encode s v))) true = true).
Proof.
  intros parse s H. destruct (in_all_schemas s H) as [A B]. split.
  - intros bytes. now apply model_passes_spec_any_bytes.
  - intros v Hv. now apply model_passes_spec_roundtrip.
Qed.

(* ------------------------------------------------------------------ histories: decoded values are independent *)
(* several decodes in a row, all decoded values read back afterwards: the round trip holds for
   the whole history *)
Lemma roundtrip_history : forall parse s vs,
  wf_schema s -> Forall (wf_value parse s) vs ->
  decode_history parse s (map (encode s) vs) = map Ok vs.
Proof.
  intros parse s vs Hs Hv. unfold decode_history. induction Hv as [|v vs Hv1 _ IH]; [reflexivity|].
  cbn [map]. rewrite IH. now rewrite roundtrip.
Qed.

(* later decodes do not change what earlier decodes produced *)
Lemma history_prefix_stable : forall parse s bs later,
  firstn (length bs) (decode_history parse s (bs ++ later)) = decode_history parse s bs.
Proof.
  intros parse s bs later. unfold decode_history. rewrite map_app.
  rewrite <- (map_length (decode parse s) bs) at 1.
  rewrite firstn_app, Nat.sub_diag, firstn_all. cbn [firstn]. now rewrite app_nil_r.
Qed.

(* position i of a history holds the value encoded at position i, whatever the other inputs of
   the history are (other values, rejected or crashing inputs, before or after) *)
Lemma history_position : forall parse s bs i v,
  wf_schema s -> wf_value parse s v -> nth_error bs i = Some (encode s v) ->
  nth_error (decode_history parse s bs) i = Some (Ok v).
Proof.
  intros parse s bs i v Hs Hv Hn. unfold decode_history.
  rewrite (map_nth_error (decode parse s) i bs Hn). now rewrite roundtrip.
Qed.

(* histories that interleave encodings of well-formed values with rejected inputs: the accepted
   values, read back at the end, are exactly the encoded ones, in order *)
Inductive hitem := HVal (v : list fval) | HRaw (b : list N).
Definition hitem_bytes (s : mschema) (it : hitem) : list N :=
  match it with HVal v => encode s v | HRaw b => b end.
Fixpoint hitem_vals (its : list hitem) : list (list fval) :=
  match its with
  | [] => []
  | HVal v :: t => v :: hitem_vals t
  | HRaw _ :: t => hitem_vals t
  end.
Fixpoint accepted (rs : list res) : list (list fval) :=
  match rs with
  | [] => []
  | Ok v :: t => v :: accepted t
  | _ :: t => accepted t
  end.
Lemma history_rejected_interleaved : forall parse s its,
  wf_schema s ->
  Forall (fun it => match it with
                    | HVal v => wf_value parse s v
                    | HRaw b => forall v, decode parse s b <> Ok v
                    end) its ->
  accepted (decode_history parse s (map (hitem_bytes s) its)) = hitem_vals its.
Proof.
  intros parse s its Hs H. unfold decode_history. induction H as [|it its H1 _ IH]; [reflexivity|].
  cbn [map]. destruct it as [v|b]; cbn [hitem_bytes hitem_vals].
  - rewrite roundtrip by assumption. cbn [accepted]. now rewrite IH.
  - destruct (decode parse s b) as [v| |] eqn:E; cbn [accepted]; [exfalso; now apply (H1 v)|exact IH|exact IH].
Qed.

(* soundness of the boolean equalities used by the executable property *)
Lemma list_eqb_eq : forall A (eq : A -> A -> bool),
  (forall x y, eq x y = true -> x = y) -> forall a b, list_eqb eq a b = true -> a = b.
Proof.
  intros A eq Heq a. induction a as [|x a IH]; intros [|y b] H; cbn in H; try discriminate; [reflexivity|].
  apply andb_prop in H. destruct H as [H1 H2]. f_equal; [now apply Heq|now apply IH].
Qed.
Lemma list_eqb_refl : forall A (eq : A -> A -> bool),
  (forall x, eq x x = true) -> forall a, list_eqb eq a a = true.
Proof. intros A eq Heq a. induction a as [|x a IH]; [reflexivity|]. cbn. now rewrite Heq, IH. Qed.
Lemma bytes_eqb_eq : forall a b, bytes_eqb a b = true -> a = b.
Proof. apply list_eqb_eq. intros x y H. now apply N.eqb_eq. Qed.
Lemma bytes_eqb_refl : forall a, bytes_eqb a a = true.
Proof. apply list_eqb_refl. apply N.eqb_refl. Qed.
Lemma fval0_eqb_eq : forall a b, fval0_eqb a b = true -> a = b.
Proof.
  intros [x|x|x|x] [y|y|y|y] H; cbn in H; try discriminate; f_equal.
  - now apply N.eqb_eq.
  - now apply bytes_eqb_eq.
  - revert H. apply list_eqb_eq. exact bytes_eqb_eq.
  - revert H. apply list_eqb_eq. intros [k1 b1] [k2 b2] H. cbn [fst snd] in H.
    apply andb_prop in H. destruct H as [H1 H2]. apply N.eqb_eq in H1. apply bytes_eqb_eq in H2. now subst.
Qed.
Lemma fval0_eqb_refl : forall a, fval0_eqb a a = true.
Proof.
  intros [x|x|x|x]; cbn.
  - apply N.eqb_refl.
  - apply bytes_eqb_refl.
  - apply list_eqb_refl. exact bytes_eqb_refl.
  - apply list_eqb_refl. intros [k b]. cbn [fst snd]. now rewrite N.eqb_refl, bytes_eqb_refl.
Qed.
Lemma fval_eqb_eq : forall a b, fval_eqb a b = true -> a = b.
Proof.
  intros [x|x] [y|y] H; cbn in H; try discriminate; f_equal.
  - now apply fval0_eqb_eq.
  - revert H. apply list_eqb_eq. exact fval0_eqb_eq.
Qed.
Lemma fval_eqb_refl : forall a, fval_eqb a a = true.
Proof. intros [x|x]; cbn; [apply fval0_eqb_refl|apply list_eqb_refl; exact fval0_eqb_refl]. Qed.
Lemma res_eqb_eq : forall a b, res_eqb a b = true -> a = b.
Proof.
  intros [x| |] [y| |] H; cbn in H; try discriminate; try reflexivity.
  f_equal. revert H. apply list_eqb_eq. exact fval_eqb_eq.
Qed.
Lemma res_eqb_refl : forall a, res_eqb a a = true.
Proof. intros [x| |]; cbn; try reflexivity. apply list_eqb_refl. exact fval_eqb_refl. Qed.

(* what the executable property of a history says about the values re-read at the end *)
Definition step_ok (st : hstep) : Prop :=
  step_obs st <> Panic /\
  (step_kind st = KRoundTrip -> exists v, step_orig st = Some v /\ step_obs st = Ok v).
Lemma spec_model_step : forall s orc st, spec_model (step_case s orc st) = true -> step_ok st.
Proof.
  intros s orc [k bytes obs valid orig] H. unfold spec_model, step_case in H.
  cbn [m_kind m_obs m_valid m_orig] in H. apply andb_prop in H. destruct H as [H1 H2].
  apply spec_gen_sound in H1. destruct H1 as [P _]. split; cbn [step_obs step_kind step_orig].
  - intros E. rewrite E in P. now apply P.
  - intros ->. destruct orig as [v|]; [|discriminate]. exists v. split; [reflexivity|now apply res_eqb_eq].
Qed.
Lemma spec_hist_sound : forall s orc steps, spec_hist s orc steps = true -> Forall step_ok steps.
Proof.
  intros s orc steps H. unfold spec_hist in H. rewrite forallb_forall in H.
  apply Forall_forall. intros st Hin. apply (spec_model_step s orc). now apply H.
Qed.
(* in the form of [roundtrip_history]: a history of round-trip steps passes the executable
   property only if the re-read values are exactly the values that were encoded *)
Lemma spec_hist_roundtrip_form : forall s orc steps vs,
  spec_hist s orc steps = true ->
  Forall (fun st => step_kind st = KRoundTrip) steps ->
  map step_orig steps = map Some vs ->
  map step_obs steps = map Ok vs.
Proof.
  intros s orc steps vs H. apply spec_hist_sound in H. revert vs.
  induction H as [|st steps [_ H1] _ IH]; intros vs K E.
  - destruct vs; [reflexivity|discriminate].
  - destruct vs as [|v vs]; [discriminate|]. cbn [map] in *. inversion K as [|? ? K1 K2]; subst.
    injection E as E1 E2. destruct (H1 K1) as [v' [O1 O2]]. rewrite O1 in E1. injection E1 as ->.
    rewrite O2. f_equal. now apply IH.
Qed.
Lemma spec_hist_gen_sound : forall steps, spec_hist_gen steps = true ->
  Forall (fun st => match st with (k, o, valid) =>
            o <> OPanic /\ (o = OOk -> valid = true) /\ (k = KRoundTrip -> o = OOk) end) steps.
Proof.
  intros steps H. unfold spec_hist_gen in H. rewrite forallb_forall in H. apply Forall_forall.
  intros [[k o] valid] Hin. apply spec_gen_sound. now apply (H _ Hin).
Qed.

(* the model's own histories pass the executable property *)
Definition model_step (parse : N -> list N -> option (list N)) (s : mschema) (it : hitem) : hstep :=
  match it with
  | HVal v => HStep KRoundTrip (encode s v) (decode parse s (encode s v)) true (Some v)
  | HRaw b => HStep KCorrupt b (decode parse s b) true None
  end.
Lemma model_history_passes_spec : forall orc s its,
  In s all_schemas ->
  Forall (fun it => match it with HVal v => wf_value (orc_lookup orc) s v | HRaw _ => True end) its ->
  spec_hist s orc (map (model_step (orc_lookup orc) s) its) = true.
Proof.
  intros orc s its Hs H. destruct (in_all_schemas s Hs) as [A B].
  unfold spec_hist. rewrite forallb_forall. intros st Hin. apply in_map_iff in Hin.
  destruct Hin as [it [<- Hin]]. rewrite Forall_forall in H. specialize (H it Hin).
  destruct it as [v|b]; unfold model_step, step_case, spec_model; cbn [m_kind m_obs m_valid m_orig].
  - rewrite roundtrip by assumption. cbn [class_of spec_gen]. now rewrite res_eqb_refl.
  - destruct (model_passes_spec_any_bytes (orc_lookup orc) s b A) as [C _]. now rewrite C.
Qed.

Example history_example :
  let parse := (fun (_ : N) (b : list N) => Some b) in
  let a := [V0 (VB (hb 16 0xAAAAAA))] in
  let b := [V0 (VB (hb 16 0xBBBBBB))] in
  Forall (wf_value parse S_tbtc_Heartbeat) [a; b] /\
  decode_history parse S_tbtc_Heartbeat [encode S_tbtc_Heartbeat a; [1; 2]; encode S_tbtc_Heartbeat b]
  = [Ok a; Err; Ok b].
Proof.
  intros parse a b. split; [|vm_compute; reflexivity].
  repeat constructor; unfold small; vm_compute; reflexivity.
Qed.
