(* C01 — crash-fault agreement, part 2: the per-phase invariant of the joint run.
   Every seat that is still alive holds a state of the explicit shape [Inv_k] after step k. *)
From Coq Require Import ZArith NArith List Bool Lia Permutation.
From KV Require Import Common.Verdict Model.C01 Model.C01_crash Proofs.C01 Proofs.C01_crash_base.
Import ListNotations.
Open Scope N_scope.

Lemma amap_put_pre : forall V W (l : list (N * V)) (pre : list (N * W)) val j (w : W),
  amap l (fun x => memN x (map fst pre)) val ->
  amap (put j (val j) l) (fun x => memN x (map fst (pre ++ [(j, w)]))) val.
Proof.
  intros V W l pre val j w H. eapply amap_ext; [apply (amap_put _ _ _ _ j H)| |reflexivity].
  intros x. cbn beta. rewrite map_app, memN_app. cbn [map fst]. rewrite memN_cons. cbn [memN existsb].
  rewrite orb_false_r. apply orb_comm.
Qed.
Lemma amap_snoc_pre : forall V W (l : list (N * V)) (pre : list (N * W)) val j (w : W),
  amap l (fun x => memN x (map fst pre)) val -> ~ In j (map fst pre) ->
  amap (l ++ [(j, val j)]) (fun x => memN x (map fst (pre ++ [(j, w)]))) val.
Proof.
  intros V W l pre val j w H Hn. eapply amap_ext; [apply (amap_snoc _ _ _ _ j H)| |reflexivity].
  - cbn beta. destruct (memN j (map fst pre)) eqn:E; [|reflexivity]. apply memN_In in E. contradiction.
  - intros x. cbn beta. rewrite map_app, memN_app. cbn [map fst]. rewrite memN_cons. cbn [memN existsb].
    rewrite orb_false_r. apply orb_comm.
Qed.
Lemma amap_nil_pre : forall V W (val : N -> V), amap [] (fun x => memN x (map fst (@nil (N * W)))) val.
Proof. intros. split; [constructor|reflexivity]. Qed.
Lemma amap_done : forall V W (l : list (N * V)) (inbox : list (N * W)) dm val valw,
  amap l (fun x => memN x (map fst inbox)) val -> amap inbox dm valw -> amap l dm val.
Proof.
  intros V W l inbox dm val valw H Hi. eapply amap_ext; [exact H| |reflexivity].
  intros j. cbn beta. apply (amap_memN _ _ _ _ _ Hi).
Qed.
Lemma pre_notin : forall W (l pre suf : list (N * W)) j w,
  NoDup (map fst l) -> l = pre ++ (j, w) :: suf -> ~ In j (map fst pre).
Proof.
  intros W l pre suf j w Hnd El. subst l. rewrite map_app in Hnd. cbn [map fst] in Hnd.
  apply NoDup_split_notin in Hnd. exact Hnd.
Qed.
Lemma ecdh_comm : forall a b, ecdh a b = ecdh b a.
Proof.
  intros a b. unfold ecdh. destruct (N.leb_spec a b), (N.leb_spec b a); try reflexivity; try lia.
  assert (a = b) by lia. subst. reflexivity.
Qed.

Section Phases.
  Variable c : cfg.
  Variable K : N -> N.
  Variable ids : list N.
  Variables A B : N -> list Z.
  Hypothesis Hops : length (ops c) = N.to_nat (gn c).
  Hypothesis Hids_nd : NoDup ids.
  Hypothesis Hids_in : forall i, In i ids <-> in_group c i = true.
  Hypothesis HA : forall i, in_group c i = true -> length (A i) = tcount c /\ length (B i) = tcount c.
  Local Notation Q := (q c).
  Local Notation alive := (alive K).
  Local Notation dom := (dom c K).
  Local Notation inc := (inc c K).

  (* ---------- one sending step of the joint run ---------- *)
  Lemma kill_me : forall p s, me (kill K p s) = me s.
  Proof. intros. unfold kill. destruct (K (me s) <=? p); reflexivity. Qed.
  Lemma alive_kill : forall p i, p <> 0 -> alive p i = negb (K i <=? p).
  Proof.
    intros p i Hp. unfold C01_crash_base.alive. destruct (N.eqb_spec p 0); [contradiction|].
    cbn [orb]. apply N.ltb_antisym.
  Qed.

  Section Step.
    Variable sc : script.
    Variables p p0 : N.
    Variable f : mstate -> mstate * list msg.
    Variables P P' : N -> mstate -> Prop.
    Variable cm : N -> list msg.
    Hypothesis Hp : p <> 0.
    Hypothesis Hmono : forall i, alive p i = true -> alive p0 i = true.
    Hypothesis HPf : forall i s, P i s -> failed s = false /\ me s = i.
    Hypothesis Hf : forall i s, P i s -> alive p i = true ->
      exists s1, f s = (s1, cm i) /\ P' i s1.
    Hypothesis HP'f : forall i s, P' i s -> failed s = false /\ me s = i.

    Definition allmsgs : list netmsg := flat_map (fun i => if alive p i then map (wrap c) (cm i) else []) ids.
    Definition hstep := fun s : mstate => if failed s then (s, @nil msg) else f s.

    Lemma stage_elem : forall s,
      (if alive p0 (me s) then P (me s) s else failed s = true) ->
      if alive p (me s)
      then failed (kill K p s) = false /\ exists s1, hstep (kill K p s) = (s1, cm (me s)) /\ P' (me s) s1
      else failed (kill K p s) = true /\ hstep (kill K p s) = (kill K p s, []).
    Proof.
      intros s Hs. pose proof (Hmono (me s)) as Hm. rewrite (alive_kill p (me s) Hp) in *.
      unfold kill. destruct (K (me s) <=? p) eqn:E; cbn [negb] in *.
      - split; [reflexivity|]. unfold hstep. reflexivity.
      - rewrite (Hm eq_refl) in Hs. destruct (HPf _ _ Hs) as [Hfl _]. split; [exact Hfl|].
        unfold hstep. rewrite Hfl. apply Hf; [exact Hs|]. rewrite (alive_kill p (me s) Hp), E. reflexivity.
    Qed.

    Lemma stage_pub : forall X,
      (forall s, In s X -> if alive p0 (me s) then P (me s) s else failed s = true) ->
      pub c f (map (kill K p) X) = flat_map (fun i => if alive p i then map (wrap c) (cm i) else []) (map me X).
    Proof.
      induction X as [|s r IH]; intros HX; [reflexivity|].
      unfold pub in *. cbn [map flat_map]. rewrite IH by (intros s' Hs'; apply HX; right; exact Hs').
      f_equal. pose proof (stage_elem s (HX s (or_introl eq_refl))) as He. fold (hstep (kill K p s)).
      destruct (alive p (me s)).
      - destruct He as [_ [s1 [E HP1]]]. rewrite E. cbn [fst snd]. destruct (HP'f _ _ HP1) as [-> _]. reflexivity.
      - destruct He as [Hfl E]. rewrite E. cbn [fst]. rewrite Hfl. reflexivity.
    Qed.

    Lemma exchange_stage : forall X,
      map me X = ids ->
      (forall s, In s X -> if alive p0 (me s) then P (me s) s else failed s = true) ->
      pub c f (map (kill K p) X) = allmsgs /\
      ((forall s, In s (map (kill K p) X) -> failed s = false ->
          is_perm (length allmsgs) (order_for sc (me s) p (length allmsgs)) = true) ->
       map me (exchange c sc p f [] (map (kill K p) X)) = ids /\
       forall s2, In s2 (exchange c sc p f [] (map (kill K p) X)) ->
         if alive p (me s2)
         then exists s1 L, P' (me s2) s1 /\ Permutation L allmsgs /\ s2 = fold_left (receive c p) L s1
         else failed s2 = true).
    Proof.
      intros X Hids HX.
      assert (Hpub : pub c f (map (kill K p) X) = allmsgs).
      { rewrite stage_pub by exact HX. rewrite Hids. reflexivity. }
      split; [exact Hpub|]. intros Hperm.
      rewrite exchange_eq.
      change (published c f [] (map (kill K p) X)) with (pub c f (map (kill K p) X) ++ []).
      rewrite app_nil_r, Hpub.
      set (D := fun s : mstate => if failed s then s
                 else fold_left (receive c p) (arrival allmsgs (order_for sc (me s) p (length allmsgs))) s).
      change (stepped f (map (kill K p) X)) with (map hstep (map (kill K p) X)).
      assert (Hel : forall s, In s X ->
                let s2 := D (fst (hstep (kill K p s))) in
                me s2 = me s /\
                if alive p (me s)
                then exists s1 L, P' (me s) s1 /\ Permutation L allmsgs /\ s2 = fold_left (receive c p) L s1
                else failed s2 = true).
      { intros s Hs. pose proof (stage_elem s (HX s Hs)) as He. cbn zeta.
        destruct (alive p (me s)) eqn:Ea.
        - destruct He as [Hfl [s1 [E HP1]]]. rewrite E. cbn [fst]. destruct (HP'f _ _ HP1) as [Hf1 Hm1].
          unfold D. rewrite Hf1. split.
          + destruct (fold_receive_view c p (arrival allmsgs (order_for sc (me s1) p (length allmsgs))) s1) as [V _].
            rewrite V. exact Hm1.
          + eexists. eexists. split; [exact HP1|]. split; [|reflexivity].
            apply arrival_Permutation. rewrite Hm1. rewrite <- (kill_me p s).
            apply Hperm; [apply in_map; exact Hs|exact Hfl].
        - destruct He as [Hfl E]. rewrite E. cbn [fst]. unfold D. rewrite Hfl. split; [apply kill_me|exact Hfl]. }
      split.
      - rewrite <- Hids. rewrite !map_map. apply map_ext_in. intros s Hs. apply (Hel s Hs).
      - intros s2 Hs2. rewrite !map_map in Hs2. apply in_map_iff in Hs2. destruct Hs2 as [s [E Hs]]. subst s2.
        destruct (Hel s Hs) as [Hm Hrest]. cbn zeta in Hm, Hrest. rewrite Hm. exact Hrest.
    Qed.
  End Step.

  (* a silent step *)
  Lemma quiet_stage : forall p0 (P P' : N -> mstate -> Prop) f X,
    (forall i s, P i s -> failed s = false /\ me s = i) ->
    (forall i s, P i s -> alive p0 i = true -> P' i (f s) /\ me (f s) = i) ->
    map me X = ids ->
    (forall s, In s X -> if alive p0 (me s) then P (me s) s else failed s = true) ->
    map me (quiet f X) = ids /\
    (forall s, In s (quiet f X) -> if alive p0 (me s) then P' (me s) s else failed s = true).
  Proof.
    intros p0 P P' f X HPf Hf Hids HX.
    assert (Hel : forall s, In s X -> let s2 := (if failed s then s else f s) in
              me s2 = me s /\ if alive p0 (me s) then P' (me s) s2 else failed s2 = true).
    { intros s Hs. specialize (HX s Hs). cbn zeta. destruct (alive p0 (me s)) eqn:Ea.
      - destruct (HPf _ _ HX) as [Hfl _]. rewrite Hfl. destruct (Hf _ _ HX Ea) as [H1 H2]. auto.
      - rewrite HX. auto. }
    unfold quiet. split.
    - rewrite <- Hids, map_map. apply map_ext_in. intros s Hs. apply (Hel s Hs).
    - intros s2 Hs2. apply in_map_iff in Hs2. destruct Hs2 as [s [E Hs]]. subst s2.
      destruct (Hel s Hs) as [Hm Hr]. cbn zeta in Hm, Hr. rewrite Hm. exact Hr.
  Qed.

  (* ---------- the canonical data of a crash run ---------- *)
  Definition keys1 (i : N) : list (N * ekey) :=
    map (fun j => (j, ek i j)) (filter (fun j => negb (N.eqb j i)) (members c)).
  Definition symk (i j : N) : symkey := ecdh (ek i j) (ek j i).
  Definition sh3 (i : N) : list (N * cipher) :=
    flat_map (fun j => if N.eqb j i then [] else
                       if alive 1 j then [(j, Enc (symk i j) (eval Q (A i) j) (eval Q (B i) j))] else [])
             (members c).
  Definition cm3 (i : N) : list g1 := combine (A i) (B i).
  Definition I2 := inc 0 1.
  Definition I4 := I2 ++ inc 1 3.
  Definition I5 := I4 ++ inc 3 4.
  Definition I8 := I5 ++ inc 4 7.
  Definition I9 := I8 ++ inc 7 8.
  Definition I11 := I9 ++ inc 8 10.
  Definition EX := filter (fun m => alive 3 m && negb (alive 7 m)) I9.
  Definition rev10 (i : N) : list (N * ekey) := map (fun m => (m, ek i m)) EX.
  Definition cmsg (p i : N) : list msg :=
    match p with
    | 1 => [EphPub i (csess c) (keys1 i)]
    | 3 => [Shares i (csess c) (sh3 i); Commits i (csess c) (cm3 i)]
    | 4 => [SAccuse i (csess c) []]
    | 7 => [Points i (csess c) (A i)]
    | 8 => [PAccuse i (csess c) []]
    | 10 => [Reveal i (csess c) (rev10 i)]
    | _ => []
    end.

  Ltac alive_cases m :=
    repeat match goal with
           | |- context [alive ?p m] =>
               let E := fresh "Ea" in destruct (alive p m) eqn:E
           end;
    try reflexivity;
    exfalso;
    repeat match goal with
           | H : alive ?p m = true |- _ =>
               match goal with
               | H' : alive ?p' m = false |- _ =>
                   let G := fresh in
                   assert (G : p' <= p) by (clear; lia);
                   rewrite (alive_mono K p' p m G H) in H'; discriminate H'
               end
           end.

  Lemma mem_I2 : forall m, in_group c m = true -> memN m I2 = negb (alive 1 m).
  Proof.
 intros m Hm. unfold I2. rewrite memN_inc, Hm.
 reflexivity.
 Qed.
  Lemma mem_I4 : forall m, in_group c m = true -> memN m I4 = negb (alive 3 m).
  Proof. intros m Hm. unfold I4. rewrite memN_app, mem_I2, memN_inc, Hm by exact Hm. cbn [andb]. alive_cases m. Qed.
  Lemma mem_I5 : forall m, in_group c m = true -> memN m I5 = negb (alive 4 m).
  Proof. intros m Hm. unfold I5. rewrite memN_app, mem_I4, memN_inc, Hm by exact Hm. cbn [andb]. alive_cases m. Qed.
  Lemma mem_I8 : forall m, in_group c m = true -> memN m I8 = negb (alive 7 m).
  Proof. intros m Hm. unfold I8. rewrite memN_app, mem_I5, memN_inc, Hm by exact Hm. cbn [andb]. alive_cases m. Qed.
  Lemma mem_I9 : forall m, in_group c m = true -> memN m I9 = negb (alive 8 m).
  Proof. intros m Hm. unfold I9. rewrite memN_app, mem_I8, memN_inc, Hm by exact Hm. cbn [andb]. alive_cases m. Qed.
  Lemma mem_I11 : forall m, in_group c m = true -> memN m I11 = negb (alive 10 m).
  Proof. intros m Hm. unfold I11. rewrite memN_app, mem_I9, memN_inc, Hm by exact Hm. cbn [andb]. alive_cases m. Qed.

  Lemma is_op_crash : forall s IAl p0,
    ia s = IAl -> dq s = [] -> (forall m, in_group c m = true -> memN m IAl = negb (alive p0 m)) ->
    forall j, in_group c j = true -> is_operating c s j = alive p0 j.
  Proof.
    intros s IAl p0 Hia Hdq HI j Hj. unfold is_operating. rewrite Hia, Hdq, Hj, (HI j Hj). cbn.
    rewrite negb_involutive, andb_true_r. reflexivity.
  Qed.

  (* the inbox after a sending step *)
  Lemma sel_amap : forall T (ext : msg -> option (N * N * T)) (val : N -> T) p p0 (cm : N -> list msg) s1 L i IAl,
    me s1 = i -> ia s1 = IAl -> dq s1 = [] ->
    (forall m, in_group c m = true -> memN m IAl = negb (alive p0 m)) ->
    (forall j, alive p j = true -> alive p0 j = true) ->
    Permutation L (allmsgs p cm) ->
    (forall j, sel c ext s1 (map (wrap c) (cm j))
               = if accepts c s1 j (csess c) (op_key c j) then [(j, val j)] else []) ->
    amap (sel c ext s1 L) (dom p i) val.
  Proof.
    intros T ext val p p0 cm s1 L i IAl Hme Hia Hdq HI Hmono HL Hsel.
    assert (Hall : sel c ext s1 (allmsgs p cm) = map (fun j => (j, val j)) (filter (dom p i) ids)).
    { unfold allmsgs, sel. rewrite flat_map_flat_map. rewrite <- flat_map_filter_map.
      apply flat_map_ext_in'. intros j Hj. apply Hids_in in Hj.
      unfold C01_crash_base.dom. rewrite Hj. cbn [andb].
      destruct (alive p j) eqn:Ea; cbn [andb flat_map]; [|reflexivity].
      fold (sel c ext s1 (map (wrap c) (cm j))). rewrite Hsel.
      unfold accepts. rewrite Hme, (valid_membership_ok c Hops j Hj), N.eqb_refl.
      rewrite (is_op_crash s1 IAl p0 Hia Hdq HI j Hj), (Hmono j Ea). rewrite !andb_true_r. reflexivity. }
    assert (HP : Permutation (sel c ext s1 L) (map (fun j => (j, val j)) (filter (dom p i) ids))).
    { rewrite <- Hall. apply sel_Permutation. exact HL. }
    apply amap_intro.
    - apply (Permutation_NoDup (l := map fst (map (fun j => (j, val j)) (filter (dom p i) ids)))).
      + apply Permutation_map. symmetry. exact HP.
      + rewrite map_map. cbn [fst]. rewrite map_id. apply NoDup_filter. exact Hids_nd.
    - intros j v. rewrite (Permutation_in' (eq_refl (j, v)) HP). rewrite in_map_iff. split.
      + intros [j' [E Hin]]. inversion E. subst. apply filter_In in Hin. split; [apply Hin|reflexivity].
      + intros [Hd ->]. exists j. split; [reflexivity|]. apply filter_In. split; [|exact Hd].
        apply Hids_in. unfold C01_crash_base.dom in Hd. apply andb_true_iff in Hd. destruct Hd as [Hd _].
        apply andb_true_iff in Hd. apply Hd.
  Qed.

  (* ---------- small facts about the canonical messages ---------- *)
  Lemma dom_elim : forall p i j, dom p i j = true -> in_group c j = true /\ alive p j = true /\ N.eqb j i = false.
  Proof.
    intros p i j H. unfold C01_crash_base.dom in H. apply andb_true_iff in H. destruct H as [H H3].
    apply andb_true_iff in H. destruct H as [H1 H2]. apply negb_true_iff in H3. auto.
  Qed.
  Lemma dom_intro : forall p i j, in_group c j = true -> alive p j = true -> N.eqb j i = false -> dom p i j = true.
  Proof. intros p i j H1 H2 H3. unfold C01_crash_base.dom. rewrite H1, H2, H3. reflexivity. Qed.
  Lemma lookup_map_key : forall V (g : N -> V) l m,
    lookup m (map (fun x => (x, g x)) l) = if memN m l then Some (g m) else None.
  Proof.
    intros V g l m. induction l as [|x r IH]; cbn [map lookup]; [reflexivity|].
    rewrite memN_cons. destruct (N.eqb m x) eqn:E; cbn [orb]; [|exact IH].
    apply N.eqb_eq in E. subst. reflexivity.
  Qed.
  Lemma lookup_keys1 : forall j m, in_group c m = true -> N.eqb m j = false -> lookup m (keys1 j) = Some (ek j m).
  Proof.
    intros j m Hm Hne. unfold keys1. rewrite lookup_map_key, memN_filter_members, Hm, Hne. reflexivity.
  Qed.
  Lemma valid_eph_keys1 : forall j, valid_eph c j (keys1 j) = true.
  Proof.
    intros j. unfold valid_eph. apply forallb_forall. intros m Hm. apply members_in_group in Hm.
    destruct (N.eqb m j) eqn:E; [reflexivity|]. cbn [orb]. unfold haskey. rewrite lookup_keys1 by assumption. reflexivity.
  Qed.
  Definition sh3v (i j : N) : cipher := Enc (symk i j) (eval Q (A i) j) (eval Q (B i) j).
  Lemma sh3_eq : forall i, sh3 i = map (fun j => (j, sh3v i j)) (filter (fun j => negb (N.eqb j i) && alive 1 j) (members c)).
  Proof.
    intros i. unfold sh3. rewrite <- flat_map_filter_map. apply flat_map_ext. intros j.
    destruct (N.eqb j i); cbn [negb andb]; [reflexivity|]. destruct (alive 1 j); reflexivity.
  Qed.
  Lemma lookup_sh3 : forall j m, in_group c m = true -> N.eqb m j = false -> alive 1 m = true ->
    lookup m (sh3 j) = Some (sh3v j m).
  Proof.
    intros j m Hm Hne Ha. rewrite sh3_eq, lookup_map_key, memN_filter_members, Hm, Hne, Ha. reflexivity.
  Qed.
  Lemma sh_of_sym : forall i SY, in_group c i = true -> amap SY (dom 1 i) (symk i) ->
    flat_map (fun j => if N.eqb j i then [] else
                       match lookup j SY with
                       | Some k => [(j, Enc k (eval Q (A i) j) (eval Q (B i) j))]
                       | None => []
                       end) (members c) = sh3 i.
  Proof.
    intros i SY Hi [_ HSY]. unfold sh3. apply flat_map_ext_in'. intros j Hj. apply members_in_group in Hj.
    destruct (N.eqb j i) eqn:E; [reflexivity|]. rewrite HSY. unfold C01_crash_base.dom. rewrite Hj, E. cbn [andb negb].
    rewrite andb_true_r. destruct (alive 1 j); reflexivity.
  Qed.
  Lemma A_nonempty : forall i, in_group c i = true -> A i <> [] /\ length (A i) = length (B i).
  Proof.
    intros i Hi. destruct (HA i Hi) as [H1 H2]. split; [|congruence].
    intros E. rewrite E in H1. unfold tcount in H1. cbn in H1. discriminate H1.
  Qed.

  (* ---------- the states of a crash run, step by step ---------- *)
  Definition Inv0 (i : N) (s : mstate) : Prop :=
    in_group c i = true /\
    s = mkst i [] [] [] [] [] (A i) (B i) 0%Z [] [] 0%Z [] [] [] [] [] 0%Z [] false [] [] [] [] [] [] [].
  Definition Inv1 (i : N) (s : mstate) : Prop :=
    in_group c i = true /\ exists IE, amap IE (dom 1 i) keys1 /\
    s = mkst i [] [] [] [] [] (A i) (B i) 0%Z [] [] 0%Z [] [] [] [] [] 0%Z [] false IE [] [] [] [] [] [].
  Definition Inv2 (i : N) (s : mstate) : Prop :=
    in_group c i = true /\ exists IE SY LE, amap SY (dom 1 i) (symk i) /\ amap LE (dom 1 i) keys1 /\
    s = mkst i I2 [] SY LE [] (A i) (B i) 0%Z [] [] 0%Z [] [] [] [] [] 0%Z [] false IE [] [] [] [] [] [].
  (* [W3 i IE SY LE ISH ICM]: after phase 3 *)
  Definition Inv3 (i : N) (ISH : list (N * list (N * cipher))) (ICM : list (N * list g1)) (s : mstate) : Prop :=
    in_group c i = true /\ exists IE SY LE, amap SY (dom 1 i) (symk i) /\ amap LE (dom 1 i) keys1 /\
    s = mkst i I2 [] SY LE [] (A i) (B i) (eval Q (A i) i) [] [] 0%Z [] [] [] [] [] 0%Z [] false IE ISH ICM [] [] [] [].
  Definition Inv3r (i : N) (s : mstate) : Prop :=
    exists ISH ICM, amap ISH (dom 3 i) sh3 /\ amap ICM (dom 3 i) cm3 /\ Inv3 i ISH ICM s.

  Lemma Inv0_f : forall i s, Inv0 i s -> failed s = false /\ me s = i.
  Proof. intros i s [_ ->]. auto. Qed.
  Lemma Inv1_f : forall i s, Inv1 i s -> failed s = false /\ me s = i.
  Proof. intros i s [_ (IE & _ & ->)]. auto. Qed.
  Lemma Inv2_f : forall i s, Inv2 i s -> failed s = false /\ me s = i.
  Proof. intros i s [_ (IE & SY & LE & _ & _ & ->)]. auto. Qed.
  Lemma Inv3_f : forall i ISH ICM s, Inv3 i ISH ICM s -> failed s = false /\ me s = i.
  Proof. intros i ISH ICM s [_ (IE & SY & LE & _ & _ & ->)]. auto. Qed.

  (* step 1 *)
  Lemma T1_send : forall i s, Inv0 i s -> exists s1, f1 c s = (s1, cmsg 1 i) /\ Inv0 i s1.
  Proof. intros i s [Hi ->]. eexists. split; [reflexivity|]. split; [exact Hi|reflexivity]. Qed.
  Lemma T1_recv : forall i s1 L, Inv0 i s1 -> Permutation L (allmsgs 1 (cmsg 1)) ->
    Inv1 i (fold_left (receive c 1) L s1).
  Proof.
    intros i s1 L [Hi ->] HL. split; [exact Hi|]. rewrite fold_receive_1. eexists. split; [|reflexivity].
    cbn [in_eph app].
    eapply (sel_amap _ x_eph keys1 1 0 (cmsg 1) _ L i []); try reflexivity; try exact HL.
    intros j. unfold cmsg. cbn [map]. rewrite sel_cons. cbn. rewrite app_nil_r. reflexivity.
  Qed.

  (* step 2 *)
  Lemma T2 : forall i s, Inv1 i s -> alive 1 i = true -> Inv2 i (phase2 c s) /\ me (phase2 c s) = i.
  Proof.
    intros i s [Hi (IE & HIE & ->)] Ha.
    unfold phase2. cbn [in_eph].
    erewrite (mark_inactive_crash c K 0 1 i [] (map fst IE)); try reflexivity; try exact Ha.
    2:{ intros m Hm. rewrite (amap_memN _ _ _ _ m HIE). unfold C01_crash_base.dom. rewrite Hm. reflexivity. }
    cbn [set_ia me ia dq sym log_eph log_sh coefA coefB selfS qualS commits share points validPts expect revealed
         reconPriv gkey pubsh failed in_eph in_sh in_cm in_sacc in_pts in_pacc in_rev app].
    rewrite dedup_id by apply HIE.
    set (J := fun (pre : list (N * list (N * ekey))) (s' : mstate) =>
                exists SY LE, amap SY (fun x => memN x (map fst pre)) (symk i)
                              /\ amap LE (fun x => memN x (map fst pre)) keys1
                              /\ s' = mkst i I2 [] SY LE [] (A i) (B i) 0%Z [] [] 0%Z [] [] [] [] [] 0%Z [] false IE [] [] [] [] [] []).
    match goal with |- Inv2 i (fold_left _ IE ?s0) /\ _ => assert (HJ : J IE (fold_left (phase2_step c) IE s0)) end.
    { apply fold_left_inv.
      - exists [], []. split; [apply amap_nil_pre|]. split; [apply amap_nil_pre|reflexivity].
      - intros pre [j v] suf s' El (SY & LE & HSY & HLE & ->).
        assert (Hin : In (j, v) IE) by (rewrite El; apply in_or_app; right; left; reflexivity).
        destruct (amap_In _ _ _ _ _ _ HIE Hin) as [Hd ->]. destruct (dom_elim _ _ _ Hd) as (Hj & Haj & Hne).
        assert (Hnp : ~ In j (map fst pre)) by (eapply pre_notin; [apply HIE|exact El]).
        unfold phase2_step. rewrite valid_eph_keys1. cbn [negb me log_eph sym set_log_eph].
        assert (Hk : haskey j LE = false).
        { unfold haskey. rewrite (proj2 HLE j). destruct (memN j (map fst pre)) eqn:E; [|reflexivity].
          apply memN_In in E. contradiction. }
        rewrite Hk, Hj, Hne. cbn [negb orb]. rewrite lookup_keys1; [|exact Hi|].
        2:{ rewrite N.eqb_sym. exact Hne. }
        exists (put j (symk i j) SY), (LE ++ [(j, keys1 j)]).
        split; [apply amap_put_pre; exact HSY|]. split; [apply amap_snoc_pre; assumption|reflexivity]. }
    destruct HJ as (SY & LE & HSY & HLE & ->). split; [|reflexivity].
    split; [exact Hi|]. exists IE, SY, LE. split; [eapply amap_done; eassumption|].
    split; [eapply amap_done; eassumption|reflexivity].
  Qed.

  (* step 3 *)
  Lemma T3_send : forall i s, Inv2 i s -> alive 3 i = true -> exists s1, phase3 c s = (s1, cmsg 3 i) /\ Inv3 i [] [] s1.
  Proof.
    intros i s [Hi (IE & SY & LE & HSY & HLE & ->)] Ha. eexists. split.
    - unfold phase3. cbn [coefA coefB me sym set_selfS]. rewrite (sh_of_sym i SY Hi HSY). reflexivity.
    - split; [exact Hi|]. exists IE, SY, LE. auto.
  Qed.
  Lemma T3_recv : forall i s1 L, Inv3 i [] [] s1 -> Permutation L (allmsgs 3 (cmsg 3)) ->
    Inv3r i (fold_left (receive c 3) L s1).
  Proof.
    intros i s1 L [Hi (IE & SY & LE & HSY & HLE & ->)] HL. rewrite fold_receive_3.
    eexists. eexists. split; [|split; [|split; [exact Hi|exists IE, SY, LE; split; [exact HSY|split; [exact HLE|reflexivity]]]]].
    - cbn [in_sh app].
      eapply (sel_amap _ x_sh sh3 3 1 (cmsg 3) _ L i I2); try reflexivity; try exact HL.
      + apply mem_I2.
      + intros j. apply alive_mono. lia.
      + intros j. unfold cmsg. cbn [map]. rewrite !sel_cons. cbn. rewrite app_nil_r. reflexivity.
    - cbn [in_cm app].
      eapply (sel_amap _ x_cm cm3 3 1 (cmsg 3) _ L i I2); try reflexivity; try exact HL.
      + apply mem_I2.
      + intros j. apply alive_mono. lia.
      + intros j. unfold cmsg. cbn [map]. rewrite !sel_cons. cbn. rewrite app_nil_r. reflexivity.
  Qed.

  Ltac prj :=
    cbn [me ia dq sym log_eph log_sh coefA coefB selfS qualS commits share points validPts expect revealed
         reconPriv gkey pubsh failed in_eph in_sh in_cm in_sacc in_pts in_pacc in_rev
         set_ia set_dq set_sym set_log_eph set_log_sh set_selfS set_qualS set_commits set_share set_points
         set_validPts set_expect set_revealed set_reconPriv set_gkey set_pubsh set_failed app fst snd].

  Lemma memN_filter : forall f l m, memN m (filter f l) = memN m l && f m.
  Proof.
    intros f l m. apply bool_eq_iff. rewrite andb_true_iff, !memN_In, filter_In. reflexivity.
  Qed.
  Lemma logsh_fold : forall T (d l0 : list (N * T)), NoDup (map fst (l0 ++ d)) ->
    fold_left (fun l m => if haskey (fst m) l then l else l ++ [m]) d l0 = l0 ++ d.
  Proof.
    intros T d. induction d as [|a d IH]; intros l0 Hnd; cbn [fold_left]; [rewrite app_nil_r; reflexivity|].
    assert (Hk : haskey (fst a) l0 = false).
    { rewrite haskey_memN. destruct (memN (fst a) (map fst l0)) eqn:E; [|reflexivity]. apply memN_In in E.
      rewrite map_app in Hnd. cbn [map] in Hnd. apply NoDup_split_notin in Hnd. contradiction. }
    rewrite Hk. rewrite IH; [rewrite <- app_assoc; reflexivity|]. rewrite <- app_assoc. exact Hnd.
  Qed.
  Lemma symk_comm : forall i j, symk i j = symk j i.
  Proof. intros. unfold symk. apply ecdh_comm. Qed.
  Lemma cm3_len : forall j, in_group c j = true -> Nat.eqb (length (cm3 j)) (tcount c) = true.
  Proof.
    intros j Hj. destruct (HA j Hj) as [H1 H2]. unfold cm3.
    assert (G : forall X Y (a : list X) (b : list Y), length a = length b -> length (combine a b) = length a).
    { intros X Y a. induction a as [|x a IH]; intros [|y b] H; cbn in *; try reflexivity; try discriminate.
      f_equal. apply IH. congruence. }
    unfold g1. rewrite G by congruence. rewrite H1. apply Nat.eqb_refl.
  Qed.
  Lemma A_len : forall j, in_group c j = true -> Nat.eqb (length (A j)) (tcount c) = true.
  Proof. intros j Hj. destruct (HA j Hj) as [H1 _]. rewrite H1. apply Nat.eqb_refl. Qed.
  Lemma inc_in : forall p0 p1 m, In m (inc p0 p1) -> in_group c m = true.
  Proof. intros p0 p1 m H. apply filter_In in H. apply members_in_group. apply H. Qed.
  Lemma I9_in : forall m, In m I9 -> in_group c m = true.
  Proof.
    intros m H. unfold I9, I8, I5, I4, I2 in H. repeat (apply in_app_or in H; destruct H as [H|H]);
      eapply inc_in; exact H.
  Qed.
  Lemma I11_in : forall m, In m I11 -> in_group c m = true.
  Proof. intros m H. unfold I11 in H. apply in_app_or in H. destruct H as [H|H]; [apply I9_in|eapply inc_in]; exact H. Qed.

  Definition qv (i j : N) : Z := eval Q (A j) i.
  Definition Inv4 (IAl : list N) (i : N) (ISA : list (N * list (N * ekey))) (s : mstate) : Prop :=
    in_group c i = true /\ exists IE SY LE LS QS CM ISH ICM sh,
      amap LE (dom 1 i) keys1 /\ amap LS (dom 3 i) sh3 /\ amap QS (dom 3 i) (qv i) /\ amap CM (dom 3 i) cm3 /\
      s = mkst i IAl [] SY LE LS (A i) (B i) (eval Q (A i) i) QS CM sh [] [] [] [] [] 0%Z [] false IE ISH ICM ISA [] [] [].
  Definition Inv4r (i : N) (s : mstate) : Prop :=
    exists ISA, amap ISA (dom 4 i) (fun _ => []) /\ Inv4 I4 i ISA s.
  Definition Inv5 (i : N) (s : mstate) : Prop := exists ISA, Inv4 I5 i ISA s.
  Definition Inv7 (i : N) (IPT : list (N * list g2)) (s : mstate) : Prop :=
    in_group c i = true /\ exists IE SY LE LS QS CM ISH ICM ISA sh,
      amap LE (dom 1 i) keys1 /\ amap LS (dom 3 i) sh3 /\ amap QS (dom 3 i) (qv i) /\ amap CM (dom 3 i) cm3 /\
      s = mkst i I5 [] SY LE LS (A i) (B i) (eval Q (A i) i) QS CM sh (A i) [] [] [] [] 0%Z [] false IE ISH ICM ISA IPT [] [].
  Definition Inv7r (i : N) (s : mstate) : Prop := exists IPT : list (N * list g2), amap IPT (dom 7 i) A /\ Inv7 i IPT s.
  Definition Inv8 (IAl : list N) (i : N) (IPA : list (N * list (N * ekey))) (s : mstate) : Prop :=
    in_group c i = true /\ exists IE SY LE LS QS CM (VP : list (N * list g2)) ISH ICM ISA IPT sh,
      amap LE (dom 1 i) keys1 /\ amap LS (dom 3 i) sh3 /\ amap QS (dom 3 i) (qv i) /\ amap CM (dom 3 i) cm3 /\
      amap VP (dom 7 i) A /\
      s = mkst i IAl [] SY LE LS (A i) (B i) (eval Q (A i) i) QS CM sh (A i) VP [] [] [] 0%Z [] false IE ISH ICM ISA IPT IPA [].
  Definition Inv8r (i : N) (s : mstate) : Prop := exists IPA, amap IPA (dom 8 i) (fun _ => []) /\ Inv8 I8 i IPA s.
  Definition Inv9 (i : N) (s : mstate) : Prop := exists IPA, Inv8 I9 i IPA s.
  Definition Inv10 (i : N) (IRV : list (N * list (N * ekey))) (s : mstate) : Prop :=
    in_group c i = true /\ exists IE SY LE LS QS CM (VP : list (N * list g2)) ISH ICM ISA IPT IPA sh,
      amap LE (dom 1 i) keys1 /\ amap LS (dom 3 i) sh3 /\ amap QS (dom 3 i) (qv i) /\ amap CM (dom 3 i) cm3 /\
      amap VP (dom 7 i) A /\
      s = mkst i I9 [] SY LE LS (A i) (B i) (eval Q (A i) i) QS CM sh (A i) VP EX [] [] 0%Z [] false IE ISH ICM ISA IPT IPA IRV.
  Definition Inv10r (i : N) (s : mstate) : Prop := exists IRV, amap IRV (dom 10 i) rev10 /\ Inv10 i IRV s.

  Lemma Inv4_f : forall I i X s, Inv4 I i X s -> failed s = false /\ me s = i.
  Proof. intros I i X s [_ (IE & SY & LE & LS & QS & CM & ISH & ICM & sh & _ & _ & _ & _ & ->)]. auto. Qed.
  Lemma Inv7_f : forall i X s, Inv7 i X s -> failed s = false /\ me s = i.
  Proof. intros i X s [_ (IE & SY & LE & LS & QS & CM & ISH & ICM & ISA & sh & _ & _ & _ & _ & ->)]. auto. Qed.
  Lemma Inv8_f : forall I i X s, Inv8 I i X s -> failed s = false /\ me s = i.
  Proof. intros I i X s [_ (IE & SY & LE & LS & QS & CM & VP & ISH & ICM & ISA & IPT & sh & _ & _ & _ & _ & _ & ->)]. auto. Qed.
  Lemma Inv10_f : forall i X s, Inv10 i X s -> failed s = false /\ me s = i.
  Proof. intros i X s [_ (IE & SY & LE & LS & QS & CM & VP & ISH & ICM & ISA & IPT & IPA & sh & _ & _ & _ & _ & _ & ->)]. auto. Qed.

  (* isValidPeerSharesMessage of a canonical shares message *)
  Lemma vsm_ok : forall s j, ia s = I4 -> dq s = [] -> valid_shares_msg c s j (sh3 j) = true.
  Proof.
    intros s j Hia Hdq. unfold valid_shares_msg. apply forallb_forall. intros m Hm.
    unfold operating in Hm. apply filter_In in Hm. destruct Hm as [Hm Hop]. apply members_in_group in Hm.
    rewrite (is_op_crash s I4 3 Hia Hdq mem_I4 m Hm) in Hop.
    destruct (N.eqb m j) eqn:E; [reflexivity|]. cbn [orb]. unfold haskey.
    rewrite lookup_sh3; [reflexivity|exact Hm|exact E|]. apply (alive_mono K 1 3); [lia|exact Hop].
  Qed.

  (* step 4 *)
  Lemma T4_send : forall i s, Inv3r i s -> alive 4 i = true -> exists s1, phase4 c s = (s1, cmsg 4 i) /\ Inv4 I4 i [] s1.
  Proof.
    intros i s (ISH & ICM & HISH & HICM & [Hi (IE & SY & LE & HSY & HLE & ->)]) Ha.
    assert (Ha3 : alive 3 i = true) by (apply (alive_mono K 3 4); [lia|exact Ha]).
    assert (Ha1 : alive 1 i = true) by (apply (alive_mono K 1 4); [lia|exact Ha]).
    unfold phase4. prj.
    erewrite (mark_inactive_crash c K 1 3 i I2); try reflexivity; try exact Ha3; [|apply mem_I2|].
    2:{ intros m Hm. rewrite memN_filter, (amap_memN _ _ _ _ m HISH), (amap_memN _ _ _ _ m HICM).
        unfold C01_crash_base.dom. rewrite Hm. cbn [andb]. apply andb_diag. }
    prj. fold I4. rewrite (dedup_id _ ISH) by apply HISH. rewrite (dedup_id _ ICM) by apply HICM.
    rewrite (logsh_fold _ ISH []) by apply HISH. prj.
    set (J := fun (pre : list (N * list g1)) (sa : mstate * list (N * ekey)) =>
                snd sa = [] /\ exists QS CM, amap QS (fun x => memN x (map fst pre)) (qv i)
                              /\ amap CM (fun x => memN x (map fst pre)) cm3
                              /\ fst sa = mkst i I4 [] SY LE ISH (A i) (B i) (eval Q (A i) i) QS CM 0%Z [] [] [] [] [] 0%Z [] false IE ISH ICM [] [] [] []).
    match goal with |- context [fold_left (phase4_step c ISH) ICM ?s0] =>
      assert (HJ : J ICM (fold_left (phase4_step c ISH) ICM s0)) end.
    { apply fold_left_inv.
      - split; [reflexivity|]. exists [], []. split; [apply amap_nil_pre|]. split; [apply amap_nil_pre|reflexivity].
      - intros pre [j v] suf [s' acc] El [Hacc (QS & CM & HQS & HCM & Hs')]. cbn [fst snd] in Hacc, Hs'. subst acc s'.
        assert (Hin : In (j, v) ICM) by (rewrite El; apply in_or_app; right; left; reflexivity).
        destruct (amap_In _ _ _ _ _ _ HICM Hin) as [Hd ->]. destruct (dom_elim _ _ _ Hd) as (Hj & Haj & Hne).
        assert (Haj1 : alive 1 j = true) by (apply (alive_mono K 1 3); [lia|exact Haj]).
        unfold phase4_step. rewrite (cm3_len j Hj). cbn [negb]. prj.
        rewrite (proj2 HISH j), Hd.
        rewrite vsm_ok by reflexivity. cbn [negb]. prj.
        rewrite (proj2 HSY j), (dom_intro 1 i j Hj Haj1 Hne).
        unfold decrypt. rewrite (lookup_sh3 j i Hi); [|rewrite N.eqb_sym; exact Hne|exact Ha1].
        unfold sh3v. rewrite (symk_comm j i), !N.eqb_refl. cbn [andb].
        destruct (A_nonempty j Hj) as [Hne' Hlen].
        unfold cm3. rewrite (honest_shares_valid Q (A j) (B j) i Hlen Hne').
        split; [reflexivity|]. cbn [fst]. prj.
        exists (put j (qv i j) QS), (put j (cm3 j) CM).
        split; [apply amap_put_pre; exact HQS|]. split; [apply amap_put_pre; exact HCM|reflexivity]. }
    destruct (fold_left (phase4_step c ISH) ICM _) as [sF acc].
    destruct HJ as [Hacc (QS & CM & HQS & HCM & Hs')]. cbn [fst snd] in Hacc, Hs'. subst acc sF.
    eexists. split; [reflexivity|]. split; [exact Hi|].
    exists IE, SY, LE, ISH, QS, CM, ISH, ICM, 0%Z.
    split; [exact HLE|]. split; [exact HISH|]. split; [eapply amap_done; eassumption|].
    split; [eapply amap_done; eassumption|reflexivity].
  Qed.
  Lemma T4_recv : forall i s1 L, Inv4 I4 i [] s1 -> Permutation L (allmsgs 4 (cmsg 4)) ->
    Inv4r i (fold_left (receive c 4) L s1).
  Proof.
    intros i s1 L [Hi (IE & SY & LE & LS & QS & CM & ISH & ICM & sh & H1 & H2 & H3 & H4 & ->)] HL.
    rewrite fold_receive_4. eexists. split; [|split; [exact Hi|]].
    2:{ exists IE, SY, LE, LS, QS, CM, ISH, ICM, sh. repeat (split; [eassumption|]). reflexivity. }
    prj.
    eapply (sel_amap _ x_sacc (fun _ => []) 4 3 (cmsg 4) _ L i I4); try reflexivity; try exact HL.
    - apply mem_I4.
    - intros j. apply alive_mono. lia.
    - intros j. unfold cmsg. cbn [map]. rewrite !sel_cons. cbn. rewrite app_nil_r. reflexivity.
  Qed.

  (* resolving accusation messages none of which carries an accusation *)
  Lemma no_accusations : forall (T : Type) (r : N -> mstate * bool -> T -> mstate * bool) (l : list (N * list T)) sb,
    (forall a, In a l -> snd a = []) ->
    fold_left (fun sb m => fold_left (r (fst m)) (snd m) sb) l sb = sb.
  Proof.
    intros T r l sb H. apply fold_left_id. intros a s' Ha. rewrite (H a Ha). reflexivity.
  Qed.

  (* step 5 *)
  Lemma T5 : forall i s, Inv4r i s -> alive 4 i = true -> Inv5 i (phase5 c s) /\ me (phase5 c s) = i.
  Proof.
    intros i s (ISA & HISA & [Hi (IE & SY & LE & LS & QS & CM & ISH & ICM & sh & H1 & H2 & H3 & H4 & ->)]) Ha.
    unfold phase5. prj.
    erewrite (mark_inactive_crash c K 3 4 i I4); try reflexivity; try exact Ha; [|apply mem_I4|].
    2:{ intros m Hm. rewrite (amap_memN _ _ _ _ m HISA). unfold C01_crash_base.dom. rewrite Hm. reflexivity. }
    prj. fold I5. rewrite (dedup_id _ ISA) by apply HISA.
    rewrite no_accusations.
    2:{ intros [j v] Hin. destruct (amap_In _ _ _ _ _ _ HISA Hin) as [_ ->]. reflexivity. }
    cbn [fst]. split; [|reflexivity]. exists ISA. split; [exact Hi|].
    exists IE, SY, LE, LS, QS, CM, ISH, ICM, sh. repeat (split; [eassumption|]). reflexivity.
  Qed.
  (* step 6 *)
  Lemma T6 : forall i s, Inv5 i s -> Inv5 i (phase6 c s) /\ me (phase6 c s) = i.
  Proof.
    intros i s (ISA & [Hi (IE & SY & LE & LS & QS & CM & ISH & ICM & sh & H1 & H2 & H3 & H4 & ->)]).
    unfold phase6. prj. split; [|reflexivity]. exists ISA. split; [exact Hi|].
    eexists IE, SY, LE, LS, QS, CM, ISH, ICM, _. repeat (split; [eassumption|]). reflexivity.
  Qed.
  (* step 7 *)
  Lemma T7_send : forall i s, Inv5 i s -> exists s1, phase7 c s = (s1, cmsg 7 i) /\ Inv7 i [] s1.
  Proof.
    intros i s (ISA & [Hi (IE & SY & LE & LS & QS & CM & ISH & ICM & sh & H1 & H2 & H3 & H4 & ->)]).
    eexists. split; [unfold phase7; prj; reflexivity|]. split; [exact Hi|].
    exists IE, SY, LE, LS, QS, CM, ISH, ICM, ISA, sh. repeat (split; [eassumption|]). reflexivity.
  Qed.
  Lemma T7_recv : forall i s1 L, Inv7 i [] s1 -> Permutation L (allmsgs 7 (cmsg 7)) ->
    Inv7r i (fold_left (receive c 7) L s1).
  Proof.
    intros i s1 L [Hi (IE & SY & LE & LS & QS & CM & ISH & ICM & ISA & sh & H1 & H2 & H3 & H4 & ->)] HL.
    rewrite fold_receive_7. eexists. split; [|split; [exact Hi|]].
    2:{ exists IE, SY, LE, LS, QS, CM, ISH, ICM, ISA, sh. repeat (split; [eassumption|]). reflexivity. }
    prj.
    eapply (sel_amap _ x_pts A 7 4 (cmsg 7) _ L i I5); try reflexivity; try exact HL.
    - apply mem_I5.
    - intros j. apply alive_mono. lia.
    - intros j. unfold cmsg. cbn [map]. rewrite !sel_cons. cbn. rewrite app_nil_r. reflexivity.
  Qed.

  (* step 8 *)
  Lemma T8_send : forall i s, Inv7r i s -> alive 8 i = true -> exists s1, phase8 c s = (s1, cmsg 8 i) /\ Inv8 I8 i [] s1.
  Proof.
    intros i s (IPT & HIPT & [Hi (IE & SY & LE & LS & QS & CM & ISH & ICM & ISA & sh & H1 & H2 & H3 & H4 & ->)]) Ha.
    assert (Ha7 : alive 7 i = true) by (apply (alive_mono K 7 8); [lia|exact Ha]).
    unfold phase8. prj.
    erewrite (mark_inactive_crash c K 4 7 i I5); try reflexivity; try exact Ha7; [|apply mem_I5|].
    2:{ intros m Hm. etransitivity; [exact (amap_memN _ _ _ _ m HIPT)|]. unfold C01_crash_base.dom. rewrite Hm. reflexivity. }
    prj. fold I8. rewrite (dedup_id _ IPT) by apply HIPT.
    set (J := fun (pre : list (N * list g2)) (sa : mstate * list (N * ekey)) =>
                snd sa = [] /\ exists VP, amap VP (fun x => memN x (map fst pre)) A
                  /\ fst sa = mkst i I8 [] SY LE LS (A i) (B i) (eval Q (A i) i) QS CM sh (A i) VP [] [] [] 0%Z [] false IE ISH ICM ISA IPT [] []).
    match goal with |- context [fold_left (phase8_step c) IPT ?s0] =>
      assert (HJ : J IPT (fold_left (phase8_step c) IPT s0)) end.
    { apply fold_left_inv.
      - split; [reflexivity|]. exists []. split; [apply amap_nil_pre|reflexivity].
      - intros pre [j v] suf [s' acc] El [Hacc (VP & HVP & Hs')]. cbn [fst snd] in Hacc, Hs'. subst acc s'.
        assert (Hin : In (j, v) IPT) by (rewrite El; apply in_or_app; right; left; reflexivity).
        destruct (amap_In _ _ _ _ _ _ HIPT Hin) as [Hd ->]. destruct (dom_elim _ _ _ Hd) as (Hj & Haj & Hne).
        assert (Haj3 : alive 3 j = true) by (apply (alive_mono K 3 7); [lia|exact Haj]).
        unfold phase8_step. unfold g2. rewrite (A_len j Hj). cbn [negb]. prj.
        rewrite (proj2 H3 j), (dom_intro 3 i j Hj Haj3 Hne).
        destruct (A_nonempty j Hj) as [Hne' _].
        unfold qv. rewrite (honest_points_valid Q (A j) i Hne').
        split; [reflexivity|]. cbn [fst]. prj.
        exists (put j (A j) VP). split; [apply amap_put_pre; exact HVP|reflexivity]. }
    destruct (fold_left (phase8_step c) IPT _) as [sF acc].
    destruct HJ as [Hacc (VP & HVP & Hs')]. cbn [fst snd] in Hacc, Hs'. subst acc sF.
    eexists. split; [reflexivity|]. split; [exact Hi|].
    exists IE, SY, LE, LS, QS, CM, VP, ISH, ICM, ISA, IPT, sh. repeat (split; [eassumption|]).
    split; [eapply amap_done; eassumption|reflexivity].
  Qed.
  Lemma T8_recv : forall i s1 L, Inv8 I8 i [] s1 -> Permutation L (allmsgs 8 (cmsg 8)) ->
    Inv8r i (fold_left (receive c 8) L s1).
  Proof.
    intros i s1 L [Hi (IE & SY & LE & LS & QS & CM & VP & ISH & ICM & ISA & IPT & sh & H1 & H2 & H3 & H4 & H5 & ->)] HL.
    rewrite fold_receive_8. eexists. split; [|split; [exact Hi|]].
    2:{ exists IE, SY, LE, LS, QS, CM, VP, ISH, ICM, ISA, IPT, sh. repeat (split; [eassumption|]). reflexivity. }
    prj.
    eapply (sel_amap _ x_pacc (fun _ => []) 8 7 (cmsg 8) _ L i I8); try reflexivity; try exact HL.
    - apply mem_I8.
    - intros j. apply alive_mono. lia.
    - intros j. unfold cmsg. cbn [map]. rewrite !sel_cons. cbn. rewrite app_nil_r. reflexivity.
  Qed.
  (* step 9 *)
  Lemma T9 : forall i s, Inv8r i s -> alive 8 i = true -> Inv9 i (phase9 c s) /\ me (phase9 c s) = i.
  Proof.
    intros i s (IPA & HIPA & [Hi (IE & SY & LE & LS & QS & CM & VP & ISH & ICM & ISA & IPT & sh & H1 & H2 & H3 & H4 & H5 & ->)]) Ha.
    unfold phase9. prj.
    erewrite (mark_inactive_crash c K 7 8 i I8); try reflexivity; try exact Ha; [|apply mem_I8|].
    2:{ intros m Hm. rewrite (amap_memN _ _ _ _ m HIPA). unfold C01_crash_base.dom. rewrite Hm. reflexivity. }
    prj. fold I9. rewrite (dedup_id _ IPA) by apply HIPA.
    rewrite no_accusations.
    2:{ intros [j v] Hin. destruct (amap_In _ _ _ _ _ _ HIPA Hin) as [_ ->]. reflexivity. }
    cbn [fst]. split; [|reflexivity]. exists IPA. split; [exact Hi|].
    exists IE, SY, LE, LS, QS, CM, VP, ISH, ICM, ISA, IPT, sh. repeat (split; [eassumption|]). reflexivity.
  Qed.

  (* step 10 *)
  Lemma EX_in : forall m, In m EX -> in_group c m = true /\ alive 3 m = true /\ alive 7 m = false /\ alive 8 m = false.
  Proof.
    intros m H. unfold EX in H. apply filter_In in H. destruct H as [H9 H]. pose proof (I9_in m H9) as Hm.
    apply andb_true_iff in H. destruct H as [H3 H7]. apply negb_true_iff in H7.
    apply memN_In in H9. rewrite (mem_I9 m Hm) in H9. apply negb_true_iff in H9. auto.
  Qed.
  Lemma T10_send : forall i s, Inv9 i s -> alive 10 i = true -> exists s1, phase10 c s = (s1, cmsg 10 i) /\ Inv10 i [] s1.
  Proof.
    intros i s (IPA & [Hi (IE & SY & LE & LS & QS & CM & VP & ISH & ICM & ISA & IPT & sh & H1 & H2 & H3 & H4 & H5 & ->)]) Ha.
    assert (Ha8 : alive 8 i = true) by (apply (alive_mono K 8 10); [lia|exact Ha]).
    unfold phase10. prj.
    assert (Hex : filter (needs_reconstruction
                    (mkst i I9 [] SY LE LS (A i) (B i) (eval Q (A i) i) QS CM sh (A i) VP [] [] [] 0%Z [] false IE ISH ICM ISA IPT IPA [])) I9 = EX).
    { unfold EX. apply filter_ext_in. intros m Hm. pose proof (I9_in m Hm) as Hg.
      apply memN_In in Hm. rewrite (mem_I9 m Hg) in Hm. apply negb_true_iff in Hm.
      assert (Hne : N.eqb m i = false).
      { destruct (N.eqb m i) eqn:E; [|reflexivity]. apply N.eqb_eq in E. subst. congruence. }
      unfold needs_reconstruction, haskey. prj. rewrite (proj2 H3 m), (proj2 H5 m).
      unfold C01_crash_base.dom. rewrite Hg, Hne. cbn [andb negb]. rewrite !andb_true_r.
      destruct (alive 3 m), (alive 7 m); reflexivity. }
    rewrite Hex. cbn [filter app]. prj.
    assert (Hno : existsb (fun m => negb (in_group c m) || N.eqb m i) EX = false).
    { destruct (existsb (fun m => negb (in_group c m) || N.eqb m i) EX) eqn:E; [|reflexivity].
      apply existsb_exists in E. destruct E as [m [Hm E]]. destruct (EX_in m Hm) as (Hg & _ & _ & H8).
      rewrite Hg in E. cbn [negb orb] in E. apply N.eqb_eq in E. subst. congruence. }
    rewrite Hno. eexists. split; [reflexivity|]. split; [exact Hi|].
    exists IE, SY, LE, LS, QS, CM, VP, ISH, ICM, ISA, IPT, IPA, sh. repeat (split; [eassumption|]). reflexivity.
  Qed.
  Lemma T10_recv : forall i s1 L, Inv10 i [] s1 -> Permutation L (allmsgs 10 (cmsg 10)) ->
    Inv10r i (fold_left (receive c 10) L s1).
  Proof.
    intros i s1 L [Hi (IE & SY & LE & LS & QS & CM & VP & ISH & ICM & ISA & IPT & IPA & sh & H1 & H2 & H3 & H4 & H5 & ->)] HL.
    rewrite fold_receive_10. eexists. split; [|split; [exact Hi|]].
    2:{ exists IE, SY, LE, LS, QS, CM, VP, ISH, ICM, ISA, IPT, IPA, sh. repeat (split; [eassumption|]). reflexivity. }
    prj.
    eapply (sel_amap _ x_rev rev10 10 8 (cmsg 10) _ L i I9); try reflexivity; try exact HL.
    - apply mem_I9.
    - intros j. apply alive_mono. lia.
    - intros j. unfold cmsg. cbn [map]. rewrite !sel_cons. cbn. rewrite app_nil_r. reflexivity.
  Qed.
End Phases.
