(* C26 — proofs about Model/C26.v.  The statements that make up the property are restated in
   Props/C26.v. *)
From Coq Require Import ZArith NArith List Bool Lia.
From KV Require Import Common.Verdict Model.C26.
Import ListNotations.
Open Scope Z_scope.

(* ====================================================================================
   int64 arithmetic
   ==================================================================================== *)
Lemma two63_pos : 0 < two63.  Proof. reflexivity. Qed.
Lemma two64_eq : two64 = 2 * two63.  Proof. reflexivity. Qed.
Lemma two64_pos : 0 < two64.  Proof. reflexivity. Qed.
Global Opaque two63 two64.

Lemma w64_id z : - two63 <= z < two63 -> w64 z = z.
Proof.
  intros H. unfold w64. rewrite Z.mod_small; [lia|]. rewrite two64_eq. lia.
Qed.

Lemma w64_range z : - two63 <= w64 z < two63.
Proof.
  unfold w64. pose proof (Z.mod_pos_bound (z + two63) two64 two64_pos) as H.
  rewrite two64_eq in *. lia.
Qed.

Lemma w64_add_l a b : w64 (w64 a + b) = w64 (a + b).
Proof.
  unfold w64. f_equal.
  replace ((a + two63) mod two64 - two63 + b + two63) with ((a + two63) mod two64 + b) by lia.
  rewrite Zplus_mod_idemp_l. f_equal. lia.
Qed.
Lemma w64_add_r a b : w64 (a + w64 b) = w64 (a + b).
Proof. rewrite Z.add_comm, w64_add_l. f_equal. lia. Qed.
Lemma w64_sub_l a b : w64 (w64 a - b) = w64 (a - b).
Proof. replace (w64 a - b) with (w64 a + (- b)) by lia. rewrite w64_add_l. f_equal. Qed.
Lemma w64_0 : w64 0 = 0.
Proof. apply w64_id. pose proof two63_pos. lia. Qed.

Lemma in64_true z : in64 z = true <-> - two63 <= z < two63.
Proof. unfold in64. rewrite andb_true_iff, Z.leb_le, Z.ltb_lt. tauto. Qed.

(* ====================================================================================
   lists
   ==================================================================================== *)
Lemma listZ_eqb_eq a : forall b, listZ_eqb a b = true <-> a = b.
Proof.
  induction a as [|x a IH]; intros [|y b]; cbn [listZ_eqb]; try (split; [discriminate|discriminate]).
  - tauto.
  - rewrite andb_true_iff, Z.eqb_eq, IH. split; [intros [-> ->]; reflexivity|intros [= -> ->]; tauto].
Qed.
Lemma listN_eqb_eq a : forall b, listN_eqb a b = true <-> a = b.
Proof.
  induction a as [|x a IH]; intros [|y b]; cbn [listN_eqb]; try (split; [discriminate|discriminate]).
  - tauto.
  - rewrite andb_true_iff, N.eqb_eq, IH. split; [intros [-> ->]; reflexivity|intros [= -> ->]; tauto].
Qed.
Lemma map_fst_snd_eq {A B} (a : list (A * B)) : forall b,
  map fst a = map fst b -> map snd a = map snd b -> a = b.
Proof.
  induction a as [|[x1 x2] a IH]; intros [|[y1 y2] b]; cbn; try discriminate; [reflexivity|].
  intros [= -> H1] [= -> H2]. f_equal. auto.
Qed.
Lemma io_eqb_eq a b : io_eqb a b = true <-> a = b.
Proof.
  unfold io_eqb. rewrite andb_true_iff, listN_eqb_eq, listZ_eqb_eq. split.
  - intros [H1 H2]. apply map_fst_snd_eq; assumption.
  - intros ->. tauto.
Qed.
Lemma io_eqb_refl a : io_eqb a a = true.  Proof. apply io_eqb_eq. reflexivity. Qed.
Lemma listN_eqb_refl a : listN_eqb a a = true.  Proof. apply listN_eqb_eq. reflexivity. Qed.
Lemma listZ_eqb_refl a : listZ_eqb a a = true.  Proof. apply listZ_eqb_eq. reflexivity. Qed.

Lemma res_eqb_eq a b : res_eqb a b = true <-> a = b.
Proof.
  destruct a, b; cbn [res_eqb]; try (split; [discriminate|discriminate]); try tauto.
  rewrite andb_true_iff, !io_eqb_eq. split; [intros [-> ->]; reflexivity|intros [= -> ->]; tauto].
Qed.

Lemma sumZ_cons x a : sumZ (x :: a) = x + sumZ a.  Proof. reflexivity. Qed.
Lemma sumZ_nil : sumZ [] = 0.  Proof. reflexivity. Qed.
Lemma sumZ_app a b : sumZ (a ++ b) = sumZ a + sumZ b.
Proof. induction a as [|x a IH]; [reflexivity|]. rewrite <- app_comm_cons, !sumZ_cons, IH. lia. Qed.
Lemma sumZ_repeat q n : sumZ (repeat q n) = Z.of_nat n * q.
Proof. induction n as [|n IH]; [reflexivity|]. cbn [repeat]. rewrite sumZ_cons, IH. lia. Qed.
Lemma sumZ_nonneg l : Forall (fun v => 0 <= v) l -> 0 <= sumZ l.
Proof. induction 1 as [|x l Hx _ IH]; [cbn; lia|]. rewrite sumZ_cons. lia. Qed.

Lemma values_app a b : values (a ++ b) = values a ++ values b.
Proof. apply map_app. Qed.
Lemma values_in_of us : values (map in_of us) = map u_value us.
Proof. unfold values. rewrite map_map. reflexivity. Qed.

Lemma forallb_Forall {A} (f : A -> bool) l : forallb f l = true <-> Forall (fun x => f x = true) l.
Proof. rewrite forallb_forall, Forall_forall. tauto. Qed.

(* ====================================================================================
   the builder
   ==================================================================================== *)
Lemma total_inputs_gen b : forall a,
  fold_left (fun acc (i : input) => add64 acc (snd i)) b (w64 a) = w64 (a + sumZ (values b)).
Proof.
  induction b as [|i b IH]; intros a; cbn [fold_left values map].
  - rewrite sumZ_nil. f_equal. lia.
  - unfold add64 at 2. rewrite w64_add_l, IH. rewrite sumZ_cons. f_equal. fold (values b). lia.
Qed.
Lemma total_inputs_spec b : total_inputs b = w64 (sumZ (values b)).
Proof. unfold total_inputs. rewrite <- w64_0 at 1. rewrite total_inputs_gen. f_equal. Qed.

(* what the chain confirms about a UTXO *)
Definition confirmed (k : sclass) (u : utxo) : Prop := exists v, u_chain u = COut k v.

Lemma add_input_ok want b u b' :
  add_input want b u = SOk b' -> b' = b ++ [in_of u] /\ confirmed want u.
Proof.
  unfold add_input, confirmed. destruct (u_chain u) as [| |k v]; try discriminate.
  destruct k, want; cbn; try discriminate; intros [= <-]; eauto.
Qed.
Lemma add_input_complete want b u :
  confirmed want u -> add_input want b u = SOk (b ++ [in_of u]).
Proof. intros [v H]. unfold add_input. rewrite H. destruct want; reflexivity. Qed.

Lemma add_opt_input_ok want b u b' :
  add_opt_input want b u = SOk b' ->
  b' = b ++ map in_of (opt_list u) /\ Forall (confirmed want) (opt_list u).
Proof.
  destruct u as [u|]; cbn [add_opt_input opt_list map].
  - intros H. apply add_input_ok in H as [-> H]. auto.
  - intros [= <-]. rewrite app_nil_r. auto.
Qed.
Lemma add_opt_input_complete want b u :
  Forall (confirmed want) (opt_list u) -> add_opt_input want b u = SOk (b ++ map in_of (opt_list u)).
Proof.
  destruct u as [u|]; cbn [add_opt_input opt_list map]; intros H.
  - apply add_input_complete. inversion H; assumption.
  - rewrite app_nil_r. reflexivity.
Qed.

Definition deposit_good (d : deposit) : Prop := d_script_ok d = true /\ confirmed KSh (d_utxo d).

Lemma add_deposits_ok ds : forall b b',
  add_deposits b ds = SOk b' ->
  b' = b ++ map in_of (map d_utxo ds) /\ Forall deposit_good ds.
Proof.
  induction ds as [|d ds IH]; intros b b'; cbn [add_deposits map].
  - intros [= <-]. rewrite app_nil_r. auto.
  - destruct (d_script_ok d) eqn:Hs; cbn [negb]; [|discriminate].
    destruct (add_input KSh b (d_utxo d)) as [b1| |] eqn:Hi; try discriminate.
    intros H. apply IH in H as [-> Hf]. apply add_input_ok in Hi as [-> Hc].
    rewrite <- app_assoc. split; [reflexivity|]. constructor; [split; assumption|assumption].
Qed.
Lemma add_deposits_complete ds : forall b,
  Forall deposit_good ds -> add_deposits b ds = SOk (b ++ map in_of (map d_utxo ds)).
Proof.
  induction ds as [|d ds IH]; intros b H; cbn [add_deposits map].
  - rewrite app_nil_r. reflexivity.
  - inversion H as [|? ? [Hs Hc] Hf]; subst. rewrite Hs. cbn [negb].
    rewrite (add_input_complete _ _ _ Hc), IH by assumption. rewrite <- app_assoc. reflexivity.
Qed.

(* ====================================================================================
   sweeps (deposit sweep, moved funds sweep)
   ==================================================================================== *)
(* the guard, as a proposition *)
Definition sweep_guardP (us : list utxo) (fee : Z) : Prop :=
  (forall u, In u us -> (exists k, u_chain u = COut k (u_value u)) /\ 0 <= u_value u) /\
  sumZ (map u_value us) < two63 /\ 0 <= fee <= sumZ (map u_value us).

Lemma real_true u : real u = true <-> exists k, u_chain u = COut k (u_value u).
Proof.
  unfold real. destruct (u_chain u) as [| |k v].
  - split; [discriminate|intros [k H]; discriminate].
  - split; [discriminate|intros [k H]; discriminate].
  - rewrite Z.eqb_eq. split; [intros ->; eauto|intros [k' [= _ ->]]; reflexivity].
Qed.

Lemma sweep_guard_iff us fee : sweep_guard us fee = true <-> sweep_guardP us fee.
Proof.
  unfold sweep_guard, sweep_guardP.
  rewrite !andb_true_iff, !forallb_forall, Z.ltb_lt, !Z.leb_le. split.
  - intros [[[[H1 H2] H3] H4] H5]. repeat split; try assumption.
    + apply real_true, H1, H.
    + apply Z.leb_le, H2, H.
  - intros [H1 [H2 [H3 H4]]]. repeat split; try assumption.
    + intros u Hu. apply real_true, H1, Hu.
    + intros u Hu. apply Z.leb_le, H1, Hu.
Qed.

Lemma sweep_guard_sum_nonneg us fee : sweep_guardP us fee -> 0 <= sumZ (map u_value us).
Proof.
  intros [H _]. apply sumZ_nonneg, Forall_forall. intros v Hv.
  apply in_map_iff in Hv as [u [<- Hu]]. apply H, Hu.
Qed.

(* the model's sweep output passes the executable property *)
Lemma sweep_output_ok own us fee :
  sweep_ok own us fee (map in_of us) [(own, sub64 (total_inputs (map in_of us)) fee)] = true.
Proof.
  unfold sweep_ok. rewrite io_eqb_refl. cbn [scripts map fst listN_eqb]. rewrite N.eqb_refl. cbn [andb].
  destruct (sweep_guard us fee) eqn:G; cbn [negb orb]; [|reflexivity].
  apply sweep_guard_iff in G. pose proof (sweep_guard_sum_nonneg _ _ G) as Hs.
  destruct G as [_ [Hlt Hfee]].
  rewrite values_in_of. cbn [values map snd]. rewrite total_inputs_spec, values_in_of.
  unfold sub64. rewrite (w64_id (sumZ (map u_value us))) by lia.
  rewrite w64_id by lia. rewrite sumZ_cons, sumZ_nil. cbn [forallb].
  rewrite andb_true_iff, Z.eqb_eq, andb_true_iff, Z.leb_le. repeat split; lia.
Qed.

(* the executable property of a sweep implies the stated one *)
Definition sweep_prop (own : N) (us : list utxo) (fee : Z) (ins : list input) (outs : list output) : Prop :=
  ins = map in_of us /\
  exists v, outs = [(own, v)] /\
    (sweep_guardP us fee ->
       v = sumZ (map u_value us) - fee /\ 0 <= v /\ sumZ (values ins) - sumZ (values outs) = fee).

Lemma sweep_ok_sound own us fee ins outs :
  sweep_ok own us fee ins outs = true -> sweep_prop own us fee ins outs.
Proof.
  unfold sweep_ok, sweep_prop. rewrite !andb_true_iff, io_eqb_eq, listN_eqb_eq.
  intros [[-> Hs] Hg]. split; [reflexivity|].
  destruct outs as [|[s v] [|? ?]]; cbn in Hs; try discriminate. injection Hs as ->.
  exists v. split; [reflexivity|]. intros G. apply sweep_guard_iff in G. rewrite G in Hg.
  cbn [negb orb] in Hg. apply andb_true_iff in Hg as [Hc Hn]. apply Z.eqb_eq in Hc.
  cbn [values map snd forallb] in *. rewrite andb_true_r in Hn. apply Z.leb_le in Hn.
  rewrite sumZ_cons, sumZ_nil in *. fold (values (map in_of us)) in *. rewrite values_in_of in *.
  repeat split; lia.
Qed.

(* ---------- deposit sweep ---------- *)
Lemma deposit_sweep_inv own main ds fee ins outs :
  assemble_deposit_sweep own main ds fee = Tx ins outs ->
  let us := opt_list main ++ map d_utxo ds in
  ds <> [] /\ Forall (confirmed KPkh) (opt_list main) /\ Forall deposit_good ds /\
  ins = map in_of us /\ outs = [(own, sub64 (total_inputs (map in_of us)) fee)].
Proof.
  unfold assemble_deposit_sweep. destruct ds as [|d ds]; [discriminate|].
  destruct (add_opt_input KPkh [] main) as [b| |] eqn:Hm; cbn [bind]; try discriminate.
  destruct (add_deposits b (d :: ds)) as [b'| |] eqn:Hd; cbn [bind]; try discriminate.
  intros [= <- <-]. apply add_opt_input_ok in Hm as [-> Hm]. apply add_deposits_ok in Hd as [-> Hd].
  cbn [app] in *. rewrite map_app. repeat split; try assumption. discriminate.
Qed.

Lemma deposit_sweep_spec own main ds fee ins outs :
  assemble_deposit_sweep own main ds fee = Tx ins outs ->
  sweep_ok own (opt_list main ++ map d_utxo ds) fee ins outs = true.
Proof.
  intros H. apply deposit_sweep_inv in H as (_ & _ & _ & -> & ->). apply sweep_output_ok.
Qed.

Theorem deposit_sweep_correct own main ds fee ins outs :
  assemble_deposit_sweep own main ds fee = Tx ins outs ->
  ds <> [] /\ Forall (confirmed KPkh) (opt_list main) /\ Forall deposit_good ds /\
  sweep_prop own (opt_list main ++ map d_utxo ds) fee ins outs.
Proof.
  intros H. pose proof (deposit_sweep_spec _ _ _ _ _ _ H) as Hs.
  apply deposit_sweep_inv in H as (H1 & H2 & H3 & _).
  split; [assumption|]. split; [assumption|]. split; [assumption|]. apply sweep_ok_sound, Hs.
Qed.

Theorem deposit_sweep_accepts own main ds fee :
  ds <> [] -> Forall (confirmed KPkh) (opt_list main) -> Forall deposit_good ds ->
  exists ins outs, assemble_deposit_sweep own main ds fee = Tx ins outs.
Proof.
  intros Hne Hm Hd. unfold assemble_deposit_sweep. destruct ds as [|d ds]; [congruence|].
  rewrite (add_opt_input_complete _ _ _ Hm). cbn [bind].
  rewrite (add_deposits_complete _ _ Hd). cbn [bind]. eauto.
Qed.

(* ---------- moved funds sweep ---------- *)
Lemma moved_sweep_inv own moved main fee ins outs :
  assemble_moved_funds_sweep own moved main fee = Tx ins outs ->
  exists mu, moved = Some mu /\
  let us := mu :: opt_list main in
  confirmed KPkh mu /\ Forall (confirmed KPkh) (opt_list main) /\
  ins = map in_of us /\ outs = [(own, sub64 (total_inputs (map in_of us)) fee)].
Proof.
  unfold assemble_moved_funds_sweep. destruct moved as [mu|]; [|discriminate].
  destruct (add_input KPkh [] mu) as [b| |] eqn:Hm; cbn [bind]; try discriminate.
  destruct (add_opt_input KPkh b main) as [b'| |] eqn:Hd; cbn [bind]; try discriminate.
  intros [= <- <-]. apply add_input_ok in Hm as [-> Hm]. apply add_opt_input_ok in Hd as [-> Hd].
  exists mu. cbn [app map] in *. repeat split; assumption.
Qed.

(* the moved funds UTXO built by assembleMovedFundsSweepUtxo carries the chain's value *)
Lemma moved_utxo_chain_value op e mu :
  moved_utxo (MChain op e) = SOk (Some mu) ->
  u_op mu = op /\ exists k, u_chain mu = COut k (u_value mu).
Proof.
  cbn [moved_utxo]. destruct e as [| |k v]; try discriminate. intros [= <-]. cbn. eauto.
Qed.

Lemma moved_funds_sweep_inv own m main fee ins outs :
  moved_funds_sweep own m main fee = Tx ins outs ->
  exists mu, moved_utxo m = SOk (Some mu) /\ assemble_moved_funds_sweep own (Some mu) main fee = Tx ins outs.
Proof.
  unfold moved_funds_sweep. destruct (moved_utxo m) as [[mu|]| |] eqn:Hm; cbn [bind]; try discriminate.
  eauto.
Qed.

Lemma moved_funds_sweep_spec own m main fee ins outs :
  moved_funds_sweep own m main fee = Tx ins outs ->
  exists mu, moved_intended m = Some mu /\ sweep_ok own (mu :: opt_list main) fee ins outs = true.
Proof.
  intros H. apply moved_funds_sweep_inv in H as (mu & Hm & H). exists mu.
  unfold moved_intended. rewrite Hm. split; [reflexivity|].
  apply moved_sweep_inv in H as (mu' & [= <-] & _ & _ & -> & ->). apply sweep_output_ok.
Qed.

Theorem moved_funds_sweep_correct own m main fee ins outs :
  moved_funds_sweep own m main fee = Tx ins outs ->
  exists mu, moved_utxo m = SOk (Some mu) /\
    confirmed KPkh mu /\ Forall (confirmed KPkh) (opt_list main) /\
    sweep_prop own (mu :: opt_list main) fee ins outs.
Proof.
  intros H. destruct (moved_funds_sweep_spec _ _ _ _ _ _ H) as (mu & Hi & Hs).
  apply moved_funds_sweep_inv in H as (mu' & Hm & H).
  unfold moved_intended in Hi. rewrite Hm in Hi. injection Hi as ->.
  apply moved_sweep_inv in H as (mu' & [= <-] & H1 & H2 & _).
  exists mu. split; [assumption|]. split; [assumption|]. split; [assumption|]. apply sweep_ok_sound, Hs.
Qed.

Theorem moved_funds_sweep_accepts own m mu main fee :
  moved_utxo m = SOk (Some mu) -> confirmed KPkh mu -> Forall (confirmed KPkh) (opt_list main) ->
  exists ins outs, moved_funds_sweep own m main fee = Tx ins outs.
Proof.
  intros Hm Hc Hmain. unfold moved_funds_sweep. rewrite Hm. cbn [bind].
  unfold assemble_moved_funds_sweep. rewrite (add_input_complete _ _ _ Hc). cbn [bind].
  rewrite (add_opt_input_complete _ _ _ Hmain). cbn [bind]. eauto.
Qed.

(* ====================================================================================
   the even split with the remainder on the last
   ==================================================================================== *)
Lemma even_split_zero total : even_split total 0 = None.
Proof. reflexivity. Qed.

Lemma quot_rem_bounds total N (q := Z.quot total N) (r := Z.rem total N) :
  1 <= N ->
  total = N * q + r /\
  (0 <= total -> 0 <= r < N /\ 0 <= q <= total /\ q + r <= total) /\
  (total <= 0 -> - N < r <= 0 /\ total <= q <= 0 /\ total <= q + r).
Proof.
  intros HN. pose proof (Z.quot_rem' total N) as E. fold q r in E.
  split; [exact E|]. split; intros Ht.
  - pose proof (Z.rem_bound_pos total N Ht ltac:(lia)) as Hr. fold r in Hr.
    assert (0 <= q) by nia. assert (q <= N * q) by nia. lia.
  - pose proof (Z.rem_bound_pos_neg total N ltac:(lia) Ht) as Hr. fold r in Hr.
    assert (q <= 0) by nia. assert (N * q <= q) by nia. lia.
Qed.

(* exactly what the int64 code computes, for every int64 total and every positive count *)
Lemma even_split_exact total m :
  - two63 <= total < two63 ->
  even_split total (S m) =
  Some (repeat (Z.quot total (Z.of_nat (S m))) m
        ++ [Z.quot total (Z.of_nat (S m)) + Z.rem total (Z.of_nat (S m))]).
Proof.
  intros Ht. unfold even_split. set (N := Z.of_nat (S m)).
  assert (HN : 1 <= N) by (unfold N; lia).
  destruct (quot_rem_bounds total N HN) as (E & Hpos & Hneg).
  set (q := Z.quot total N) in *. set (r := Z.rem total N) in *.
  unfold rem64, quot64, sub64, add64. fold r.
  assert (Hq : - two63 <= q < two63 /\ - two63 <= q + r < two63 /\ - two63 <= total - r < two63).
  { destruct (Z.le_ge_cases 0 total) as [H|H]; [specialize (Hpos H)|specialize (Hneg H)]; lia. }
  rewrite (w64_id (total - r)) by lia.
  replace (total - r) with (q * N) by lia. rewrite Z.quot_mul by lia.
  rewrite (w64_id q) by lia. rewrite (w64_id (q + r)) by lia. reflexivity.
Qed.

Theorem even_split_sum total n l :
  - two63 <= total < two63 -> even_split total n = Some l ->
  length l = n /\ sumZ l = total.
Proof.
  intros Ht H. destruct n as [|m]; [discriminate|]. rewrite even_split_exact in H by assumption.
  injection H as <-. rewrite app_length, repeat_length. cbn [length]. split; [lia|].
  rewrite sumZ_app, sumZ_repeat, sumZ_cons, sumZ_nil.
  pose proof (Z.quot_rem' total (Z.of_nat (S m))) as E. lia.
Qed.

Theorem even_split_even total n :
  0 <= total < two63 -> (0 < n)%nat ->
  even_split total n = Some (ideal_shares total n) /\
  0 <= total / Z.of_nat n /\ 0 <= total mod Z.of_nat n < Z.of_nat n.
Proof.
  intros Ht Hn. destruct n as [|m]; [lia|]. pose proof two63_pos.
  rewrite even_split_exact by lia. unfold ideal_shares.
  rewrite Z.quot_div_nonneg, Z.rem_mod_nonneg by lia.
  split; [reflexivity|]. split; [apply Z.div_pos; lia|apply Z.mod_pos_bound; lia].
Qed.

Theorem even_split_even_explicit total n :
  0 <= total < two63 -> (0 < n)%nat ->
  even_split total n =
    Some (repeat (total / Z.of_nat n) (n - 1) ++ [total / Z.of_nat n + total mod Z.of_nat n]) /\
  0 <= total / Z.of_nat n /\ 0 <= total mod Z.of_nat n < Z.of_nat n.
Proof.
  intros Ht Hn. destruct (even_split_even total n Ht Hn) as [E H].
  split; [|exact H]. rewrite E. destruct n as [|m]; [inversion Hn|].
  unfold ideal_shares. rewrite Nat.sub_succ, Nat.sub_0_r. reflexivity.
Qed.

Lemma ideal_shares_sum fee n : (0 < n)%nat -> sumZ (ideal_shares fee n) = fee.
Proof.
  intros Hn. destruct n as [|m]; [lia|]. unfold ideal_shares.
  rewrite sumZ_app, sumZ_repeat, sumZ_cons, sumZ_nil.
  pose proof (Z.div_mod fee (Z.of_nat (S m)) ltac:(lia)). lia.
Qed.
Lemma ideal_shares_length fee n : length (ideal_shares fee n) = n.
Proof. destruct n as [|m]; [reflexivity|]. unfold ideal_shares. rewrite app_length, repeat_length. cbn. lia. Qed.

(* the executable property of the fee shares *)
Lemma fee_shares_ok_sound total n l :
  fee_shares_ok total n (Some l) = true ->
  length l = n /\ sumZ l = total /\ (0 <= total -> Forall (fun s => 0 <= s) l).
Proof.
  unfold fee_shares_ok. rewrite !andb_true_iff, Nat.eqb_eq, Z.eqb_eq, orb_true_iff, negb_true_iff.
  intros [[H1 H2] H3]. repeat split; try assumption. intros Ht.
  destruct H3 as [H3|H3]; [apply Z.leb_gt in H3; lia|].
  apply forallb_Forall in H3. eapply Forall_impl; [|exact H3]. intros s Hs. apply Z.leb_le, Hs.
Qed.

Lemma even_split_nonneg total n l :
  0 <= total < two63 -> even_split total n = Some l -> Forall (fun s => 0 <= s) l.
Proof.
  intros Ht H. destruct n as [|m]; [discriminate|].
  destruct (even_split_even total (S m) Ht ltac:(lia)) as (E & Hq & Hr).
  rewrite E in H. injection H as <-. unfold ideal_shares. apply Forall_app. split.
  - apply Forall_forall. intros x Hx. apply repeat_spec in Hx. lia.
  - constructor; [lia|constructor].
Qed.

Lemma fee_shares_model_ok total n :
  - two63 <= total < two63 -> fee_shares_ok total n (even_split total n) = true.
Proof.
  intros Ht. destruct (even_split total n) as [l|] eqn:E; [|reflexivity].
  destruct (even_split_sum _ _ _ Ht E) as [H1 H2]. unfold fee_shares_ok.
  rewrite !andb_true_iff, Nat.eqb_eq, Z.eqb_eq, orb_true_iff, negb_true_iff.
  split; [split; assumption|]. destruct (0 <=? total) eqn:Hs; [right|left; reflexivity].
  apply Z.leb_le in Hs. apply forallb_Forall.
  eapply Forall_impl; [|apply (even_split_nonneg total n l); [lia|exact E]].
  intros s Hs'. apply Z.leb_le, Hs'.
Qed.

(* ====================================================================================
   moving funds
   ==================================================================================== *)
Lemma scripts_combine (ts : list N) : forall (vs : list Z),
  length vs = length ts -> scripts (combine ts vs) = ts.
Proof.
  induction ts as [|t ts IH]; intros [|v vs]; cbn; try discriminate; [reflexivity|].
  intros [= H]. f_equal. apply IH, H.
Qed.
Lemma values_combine (ts : list N) : forall (vs : list Z),
  length vs = length ts -> values (combine ts vs) = vs.
Proof.
  induction ts as [|t ts IH]; intros [|v vs]; cbn; try discriminate; [reflexivity|].
  intros [= H]. f_equal. apply IH, H.
Qed.

Lemma split_values_ok_repeat q r m : split_values_ok q r (repeat q m ++ [q + r]) = true.
Proof.
  induction m as [|m IH]; cbn [repeat app split_values_ok].
  - apply Z.eqb_refl.
  - destruct (repeat q m ++ [q + r]) as [|x t] eqn:E.
    + destruct (repeat q m); discriminate.
    + rewrite Z.eqb_refl. exact IH.
Qed.
Lemma split_values_ok_sound q r vs :
  split_values_ok q r vs = true -> vs = repeat q (length vs - 1) ++ [q + r].
Proof.
  induction vs as [|v vs IH]; cbn [split_values_ok]; [discriminate|].
  destruct vs as [|v' vs'].
  - rewrite Z.eqb_eq. intros ->. reflexivity.
  - rewrite andb_true_iff, Z.eqb_eq. intros [-> H]. specialize (IH H).
    cbn [length] in *. replace (S (S (length vs')) - 1)%nat with (S (S (length vs') - 1)) by lia.
    cbn [repeat app]. f_equal. exact IH.
Qed.

Definition mf_guardP (mu : utxo) (fee : Z) : Prop :=
  (exists k, u_chain mu = COut k (u_value mu)) /\ 0 <= fee <= u_value mu /\ u_value mu < two63.
Lemma mf_guard_iff mu fee : mf_guard mu fee = true <-> mf_guardP mu fee.
Proof.
  unfold mf_guard, mf_guardP. rewrite !andb_true_iff, real_true, !Z.leb_le, Z.ltb_lt. tauto.
Qed.

Definition moving_funds_prop (mu : utxo) (targets : list N) (fee : Z)
           (ins : list input) (outs : list output) : Prop :=
  ins = [in_of mu] /\ scripts outs = targets /\
  (mf_guardP mu fee ->
     let total := u_value mu - fee in
     let n := Z.of_nat (length targets) in
     values outs = repeat (total / n) (length targets - 1) ++ [total / n + total mod n] /\
     0 <= total / n /\ 0 <= total mod n < n /\
     sumZ (values ins) - sumZ (values outs) = fee).

Lemma moving_funds_ok_sound mu targets fee ins outs :
  moving_funds_ok mu targets fee ins outs = true -> moving_funds_prop mu targets fee ins outs.
Proof.
  unfold moving_funds_ok, moving_funds_prop. rewrite !andb_true_iff, io_eqb_eq, listN_eqb_eq.
  intros [[-> Hs] Hg]. split; [reflexivity|]. split; [assumption|].
  intros G. pose proof G as (_ & Hfee & Hlt). apply mf_guard_iff in G. rewrite G in Hg.
  cbn [negb orb] in Hg. cbv zeta in Hg. apply andb_true_iff in Hg as [Hv Hc].
  apply Z.eqb_eq in Hc. apply split_values_ok_sound in Hv.
  assert (Hlen : length (values outs) = length targets).
  { rewrite <- Hs. unfold values, scripts. rewrite !map_length. reflexivity. }
  rewrite Hlen in Hv. cbv zeta. split; [exact Hv|].
  assert (Hn : 0 < Z.of_nat (length targets)).
  { rewrite <- Hlen, Hv, app_length. cbn [length]. lia. }
  split; [apply Z.div_pos; lia|]. split; [apply Z.mod_pos_bound; lia|exact Hc].
Qed.

Lemma moving_funds_inv main targets fee ins outs :
  assemble_moving_funds main targets fee = Tx ins outs ->
  exists mu vs, main = Some mu /\ targets <> [] /\ confirmed KPkh mu /\
    even_split (sub64 (u_value mu) fee) (length targets) = Some vs /\
    ins = [in_of mu] /\ outs = combine targets vs.
Proof.
  unfold assemble_moving_funds. destruct targets as [|t ts]; [discriminate|].
  destruct main as [mu|]; [|discriminate].
  destruct (add_input KPkh [] mu) as [b| |] eqn:Hm; cbn [bind]; try discriminate.
  destruct (even_split _ _) as [vs|] eqn:E; [|discriminate].
  intros [= <- <-]. apply add_input_ok in Hm as [-> Hm]. exists mu, vs.
  repeat split; try assumption; try reflexivity. discriminate.
Qed.

Lemma moving_funds_spec mu targets fee ins outs :
  assemble_moving_funds (Some mu) targets fee = Tx ins outs ->
  moving_funds_ok mu targets fee ins outs = true.
Proof.
  intros H. apply moving_funds_inv in H as (mu' & vs & [= <-] & Hne & _ & E & -> & ->).
  destruct (even_split_sum _ _ _ (w64_range _) E) as [Hlen Hsum].
  unfold moving_funds_ok. rewrite io_eqb_refl, scripts_combine, listN_eqb_refl by assumption.
  cbn [andb]. destruct (mf_guard mu fee) eqn:G; cbn [negb orb]; [|reflexivity].
  apply mf_guard_iff in G as (_ & Hfee & Hlt). cbv zeta.
  rewrite values_combine by assumption. unfold sub64 in E, Hsum. rewrite w64_id in E, Hsum by lia.
  assert (Hn : (0 < length targets)%nat) by (destruct targets; [congruence|cbn; lia]).
  destruct (even_split_even (u_value mu - fee) (length targets) ltac:(lia) Hn) as (E' & _).
  rewrite E' in E. injection E as <-. rewrite Hsum.
  cbn [values map snd in_of]. rewrite sumZ_cons, sumZ_nil.
  apply andb_true_iff. split; [|apply Z.eqb_eq; lia].
  unfold ideal_shares. destruct (length targets) as [|m] eqn:El; [lia|].
  apply split_values_ok_repeat.
Qed.

Theorem moving_funds_correct main targets fee ins outs :
  assemble_moving_funds main targets fee = Tx ins outs ->
  exists mu, main = Some mu /\ targets <> [] /\ confirmed KPkh mu /\
    moving_funds_prop mu targets fee ins outs.
Proof.
  intros H. pose proof H as H'. apply moving_funds_inv in H' as (mu & vs & -> & Hne & Hc & _).
  exists mu. split; [reflexivity|]. split; [assumption|]. split; [assumption|].
  apply moving_funds_ok_sound, moving_funds_spec, H.
Qed.

Theorem moving_funds_accepts mu targets fee :
  targets <> [] -> confirmed KPkh mu ->
  exists ins outs, assemble_moving_funds (Some mu) targets fee = Tx ins outs.
Proof.
  intros Hne Hc. unfold assemble_moving_funds. destruct targets as [|t ts] eqn:Et; [congruence|].
  rewrite (add_input_complete _ _ _ Hc). cbn [bind length]. rewrite even_split_exact by apply w64_range.
  eauto.
Qed.

(* ====================================================================================
   redemption
   ==================================================================================== *)
(* the request outputs the loop builds *)
Fixpoint req_outs (reqs : list request) (sh : list Z) : list output :=
  match reqs, sh with
  | r :: t, s :: st => (r_script r, sub64 (w64 (r_amount r - r_treasury r)) s) :: req_outs t st
  | _, _ => []
  end.

Lemma red_loop_spec reqs : forall sh outs a b o tf tr,
  red_loop reqs sh outs (w64 a) (w64 b) = Some (o, tf, tr) ->
  (length reqs <= length sh)%nat /\
  o = outs ++ req_outs reqs sh /\
  tf = w64 (a + sumZ (firstn (length reqs) sh)) /\
  tr = w64 (b + sumZ (values (req_outs reqs sh))).
Proof.
  induction reqs as [|r reqs IH]; intros sh outs a b o tf tr; cbn [red_loop length firstn req_outs].
  - intros [= <- <- <-]. rewrite app_nil_r. cbn [values map]. rewrite sumZ_nil, !Z.add_0_r.
    repeat split. lia.
  - destruct sh as [|s st]; [discriminate|]. unfold add64 at 1 2. rewrite !w64_add_l.
    intros H. apply IH in H as (Hl & -> & -> & ->). cbn [length firstn values map snd].
    fold (values (req_outs reqs st)). rewrite !sumZ_cons, <- app_assoc.
    repeat split; try lia; try (f_equal; lia).
Qed.

Lemma red_loop_complete reqs : forall sh outs tf tr,
  (length reqs <= length sh)%nat -> exists res, red_loop reqs sh outs tf tr = Some res.
Proof.
  induction reqs as [|r reqs IH]; intros sh outs tf tr H; cbn [red_loop]; [eauto|].
  destruct sh as [|s st]; cbn [length] in H; [lia|]. apply IH. lia.
Qed.

Lemma req_outs_scripts reqs : forall sh,
  (length reqs <= length sh)%nat ->
  scripts (req_outs reqs sh) = map r_script reqs /\ length (req_outs reqs sh) = length reqs.
Proof.
  induction reqs as [|r reqs IH]; intros [|s st]; cbn [length req_outs scripts map fst]; intros H;
    try (split; reflexivity); try lia.
  destruct (IH st ltac:(lia)) as [H1 H2]. fold (scripts (req_outs reqs st)). rewrite H1, H2. auto.
Qed.

Lemma req_guard_true r :
  req_guard r = true <-> 0 <= r_treasury r <= r_amount r /\ r_amount r < two63.
Proof. unfold req_guard. rewrite !andb_true_iff, !Z.leb_le, Z.ltb_lt. tauto. Qed.

Lemma req_outs_guarded reqs : forall sh,
  forallb req_guard reqs = true -> shares_guard reqs sh = true ->
  length sh = length reqs /\
  implied_shares reqs (req_outs reqs sh) = sh /\
  Forall (fun s => 0 <= s) sh /\
  Forall (fun v => 0 <= v) (values (req_outs reqs sh)) /\
  sumZ (values (req_outs reqs sh)) = sumZ (map redeemable reqs) - sumZ sh /\
  0 <= sumZ sh <= sumZ (map redeemable reqs).
Proof.
  induction reqs as [|r reqs IH]; intros [|s st]; cbn [forallb shares_guard]; try discriminate.
  - intros _ _. cbn. repeat split; try constructor; lia.
  - rewrite !andb_true_iff, req_guard_true, !Z.leb_le. intros [Hr Hf] [[Hs1 Hs2] Hg].
    destruct (IH st Hf Hg) as (H1 & H2 & H3 & H4 & H5 & H6).
    unfold redeemable in Hs2.
    cbn [length req_outs implied_shares combine map fst snd values].
    fold (values (req_outs reqs st)). fold (implied_shares reqs (req_outs reqs st)).
    unfold sub64. rewrite (w64_id (r_amount r - r_treasury r)) by (pose proof two63_pos; lia).
    rewrite w64_id by (pose proof two63_pos; lia).
    rewrite !sumZ_cons, H2, H5. unfold redeemable at 1 2 3.
    repeat split; try lia; try (constructor; [lia|assumption]).
    all: unfold redeemable in *; try (f_equal; lia); try lia.
Qed.

Lemma shares_guard_ideal_length reqs sh : shares_guard reqs sh = true -> length sh = length reqs.
Proof.
  revert sh. induction reqs as [|r reqs IH]; intros [|s st]; cbn [shares_guard]; try discriminate; [reflexivity|].
  rewrite !andb_true_iff. intros [_ H]. cbn [length]. f_equal. apply IH, H.
Qed.

(* the shares the model uses, under the guard on the distribution *)
Lemma fee_shares_guarded reqs d sh :
  reqs <> [] -> dist_guard reqs d = true -> fee_shares d (length reqs) = Some sh ->
  shares_guard reqs sh = true /\ sumZ sh = dist_total d /\ (forall l, d = DShares l -> sh = l).
Proof.
  intros Hne G E. destruct d as [fee|l]; cbn [dist_guard fee_shares dist_total] in *.
  - apply andb_true_iff in G as [G Hs]. apply andb_true_iff in G as [G1 G2].
    apply Z.leb_le in G1. apply Z.ltb_lt in G2.
    assert (Hn : (0 < length reqs)%nat) by (destruct reqs; [congruence|cbn; lia]).
    destruct (even_split_even fee (length reqs) ltac:(lia) Hn) as (E' & _).
    rewrite E' in E. injection E as <-. split; [assumption|]. split; [apply ideal_shares_sum, Hn|discriminate].
  - injection E as <-. split; [assumption|]. split; [reflexivity|]. intros l' [= ->]. reflexivity.
Qed.

Lemma firstn_all_len {A} (l : list A) n : length l = n -> firstn n l = l.
Proof. intros <-. apply firstn_all. Qed.

Lemma redemption_inv own main reqs d shape ins outs :
  assemble_redemption own main reqs d shape = Tx ins outs ->
  exists mu sh, main = Some mu /\ reqs <> [] /\ confirmed KPkh mu /\
    fee_shares d (length reqs) = Some sh /\ (length reqs <= length sh)%nat /\
    ins = [in_of mu] /\
    let routs := req_outs reqs sh in
    let change := sub64 (sub64 (total_inputs [in_of mu]) (w64 (sumZ (values routs))))
                        (w64 (sumZ (firstn (length reqs) sh))) in
    ((0 <? change) = true /\ shape = 0%N /\ outs = (own, change) :: routs \/
     (0 <? change) = true /\ shape = 1%N /\ outs = routs ++ [(own, change)] \/
     (0 <? change) = false /\ outs = routs).
Proof.
  unfold assemble_redemption. destruct main as [mu|]; [|discriminate].
  destruct reqs as [|r0 reqs0] eqn:Er; [discriminate|]. rewrite <- Er.
  assert (Hne : reqs <> []) by (rewrite Er; discriminate). clear Er.
  destruct (add_input KPkh [] mu) as [b| |] eqn:Hm; cbn [bind]; try discriminate.
  apply add_input_ok in Hm as [-> Hm]. cbn [app].
  destruct (fee_shares d (length reqs)) as [sh|] eqn:Es; [|discriminate].
  destruct (red_loop reqs sh [] 0 0) as [[[o tf] tr]|] eqn:El; [|discriminate].
  pose proof (red_loop_spec reqs sh [] 0 0 o tf tr) as P. rewrite w64_0 in P.
  destruct (P El) as (Hl & -> & -> & ->). cbn [app]. rewrite !Z.add_0_l.
  intros H. exists mu, sh. repeat split; try assumption; try reflexivity.
  - destruct (0 <? _) eqn:Hc in H; [destruct shape as [|[p|p|]]|]; try discriminate;
      injection H as <- <-; reflexivity.
  - cbv zeta. destruct (0 <? _) eqn:Hc in H |- *.
    + destruct shape as [|[p|p|]]; try discriminate; injection H as <- <-; auto.
    + injection H as <- <-. auto.
Qed.

Lemma split_change_none n shape outs :
  length outs = n -> split_change n shape outs = Some (None, outs).
Proof. intros <-. unfold split_change. rewrite Nat.eqb_refl. reflexivity. Qed.
Lemma split_change_first n c routs :
  length routs = n -> split_change n 0%N (c :: routs) = Some (Some c, routs).
Proof.
  intros <-. unfold split_change. cbn [length].
  replace (S (length routs) =? length routs)%nat with false by (symmetry; apply Nat.eqb_neq; lia).
  rewrite Nat.eqb_refl. reflexivity.
Qed.
Lemma split_change_last n c routs :
  length routs = n -> split_change n 1%N (routs ++ [c]) = Some (Some c, routs).
Proof.
  intros <-. unfold split_change. rewrite app_length. cbn [length].
  replace (length routs + 1 =? length routs)%nat with false by (symmetry; apply Nat.eqb_neq; lia).
  replace (length routs + 1 =? S (length routs))%nat with true by (symmetry; apply Nat.eqb_eq; lia).
  rewrite last_last, removelast_last. reflexivity.
Qed.

Lemma red_guard_true mu reqs shape :
  red_guard mu reqs shape = true <->
  (exists k, u_chain mu = COut k (u_value mu)) /\ 0 <= u_value mu < two63 /\
  forallb req_guard reqs = true /\ sumZ (map redeemable reqs) <= u_value mu /\ (shape <= 1)%N.
Proof.
  unfold red_guard. rewrite !andb_true_iff, real_true, !Z.leb_le, Z.ltb_lt, N.leb_le. tauto.
Qed.

Lemma Forall_nonneg_forallb l : Forall (fun v => 0 <= v) l -> forallb (fun v => 0 <=? v) l = true.
Proof. intros H. apply forallb_Forall. eapply Forall_impl; [|exact H]. intros v Hv. apply Z.leb_le, Hv. Qed.
Lemma forallb_nonneg_Forall l : forallb (fun v => 0 <=? v) l = true -> Forall (fun v => 0 <= v) l.
Proof. intros H. apply forallb_Forall in H. eapply Forall_impl; [|exact H]. intros v Hv. apply Z.leb_le, Hv. Qed.

Lemma redemption_spec own mu reqs d shape ins outs :
  assemble_redemption own (Some mu) reqs d shape = Tx ins outs ->
  redemption_ok own mu reqs d shape ins outs = true.
Proof.
  intros H. apply redemption_inv in H as (mu' & sh & [= <-] & Hne & _ & Es & Hl & -> & H).
  cbv zeta in H. destruct (req_outs_scripts reqs sh Hl) as [Hscr Hlen].
  set (routs := req_outs reqs sh) in *.
  set (change := sub64 _ _) in H.
  unfold redemption_ok. rewrite io_eqb_refl. cbn [andb].
  (* the facts available under the guard *)
  assert (HG : red_guard mu reqs shape && dist_guard reqs d = true ->
               implied_shares reqs routs = sh /\ sumZ sh = dist_total d /\
               (forall l, d = DShares l -> sh = l) /\
               Forall (fun s => 0 <= s) sh /\ Forall (fun v => 0 <= v) (values routs) /\
               sumZ (values routs) = sumZ (map redeemable reqs) - sumZ sh /\
               change = u_value mu - sumZ (map redeemable reqs) /\
               sumZ (map redeemable reqs) <= u_value mu).
  { intros G. apply andb_true_iff in G as [G1 G2].
    apply red_guard_true in G1 as (_ & HV & Hreq & Hsol & _).
    destruct (fee_shares_guarded reqs d sh Hne G2 Es) as (Hsg & Hsum & Hd).
    destruct (req_outs_guarded reqs sh Hreq Hsg) as (L1 & L2 & L3 & L4 & L5 & L6).
    fold routs in L2, L4, L5. repeat split; try assumption.
    unfold change. rewrite total_inputs_spec. cbn [values map snd in_of]. rewrite sumZ_cons, sumZ_nil.
    rewrite firstn_all_len by assumption. rewrite L5. pose proof two63_pos.
    unfold sub64. rewrite (w64_id (u_value mu + 0)) by lia.
    rewrite (w64_id (sumZ (map redeemable reqs) - sumZ sh)) by lia.
    rewrite (w64_id (sumZ sh)) by lia.
    rewrite (w64_id (u_value mu + 0 - _)) by lia. rewrite w64_id by lia. lia. }
  destruct H as [(Hc & -> & ->)|[(Hc & -> & ->)|(Hc & ->)]].
  - rewrite (split_change_first _ _ _ Hlen). rewrite Hscr, listN_eqb_refl. cbn [fst]. rewrite N.eqb_refl.
    cbn [andb]. destruct (red_guard mu reqs 0 && dist_guard reqs d) eqn:G; cbn [negb orb]; [|reflexivity].
    destruct (HG eq_refl) as (E1 & E2 & E3 & E4 & E5 & E6 & E7 & E8).
    rewrite E1. cbn [snd values map in_of]. fold (values routs). rewrite !sumZ_cons, sumZ_nil, E6, E7.
    apply Z.ltb_lt in Hc. rewrite E7 in Hc.
    rewrite !andb_true_iff, !Z.eqb_eq, Z.ltb_lt.
    repeat split; try assumption; try lia; try (apply Forall_nonneg_forallb; assumption).
    destruct d as [fee|l]; [reflexivity|]. apply listZ_eqb_eq, E3. reflexivity.
  - rewrite (split_change_last _ _ _ Hlen). rewrite Hscr, listN_eqb_refl. cbn [fst]. rewrite N.eqb_refl.
    cbn [andb]. destruct (red_guard mu reqs 1 && dist_guard reqs d) eqn:G; cbn [negb orb]; [|reflexivity].
    destruct (HG eq_refl) as (E1 & E2 & E3 & E4 & E5 & E6 & E7 & E8).
    rewrite E1. cbn [snd values map in_of]. rewrite values_app, sumZ_app. cbn [values map snd].
    rewrite !sumZ_cons, sumZ_nil, E6, E7.
    apply Z.ltb_lt in Hc. rewrite E7 in Hc.
    rewrite !andb_true_iff, !Z.eqb_eq, Z.ltb_lt.
    repeat split; try assumption; try lia; try (apply Forall_nonneg_forallb; assumption).
    destruct d as [fee|l]; [reflexivity|]. apply listZ_eqb_eq, E3. reflexivity.
  - rewrite (split_change_none _ _ _ Hlen). rewrite Hscr, listN_eqb_refl.
    cbn [andb]. destruct (red_guard mu reqs shape && dist_guard reqs d) eqn:G; cbn [negb orb]; [|reflexivity].
    destruct (HG eq_refl) as (E1 & E2 & E3 & E4 & E5 & E6 & E7 & E8).
    rewrite E1. cbn [snd values map in_of]. fold (values routs). rewrite !sumZ_cons, sumZ_nil, E6.
    apply Z.ltb_ge in Hc. rewrite E7 in Hc.
    rewrite !andb_true_iff, !Z.eqb_eq.
    repeat split; try assumption; try lia; try (apply Forall_nonneg_forallb; assumption).
    destruct d as [fee|l]; [reflexivity|]. apply listZ_eqb_eq, E3. reflexivity.
Qed.

(* ---------- the redemption guard and property as propositions ---------- *)
Definition shares_fit (reqs : list request) (sh : list Z) : Prop :=
  Forall2 (fun r s => 0 <= s <= r_amount r - r_treasury r) reqs sh.
Lemma shares_guard_iff reqs : forall sh, shares_guard reqs sh = true <-> shares_fit reqs sh.
Proof.
  unfold shares_fit. induction reqs as [|r reqs IH]; intros [|s st]; cbn [shares_guard].
  - split; [constructor|reflexivity].
  - split; [discriminate|intros H; inversion H].
  - split; [discriminate|intros H; inversion H].
  - rewrite !andb_true_iff, !Z.leb_le, IH. unfold redeemable. split.
    + intros [[H1 H2] H3]. constructor; [lia|assumption].
    + intros H. inversion H; subst. repeat split; try lia. assumption.
Qed.

Definition dist_guardP (reqs : list request) (d : dist) : Prop :=
  match d with
  | DTotal fee => 0 <= fee < two63 /\ shares_fit reqs (ideal_shares fee (length reqs))
  | DShares l => shares_fit reqs l
  end.
Lemma dist_guard_iff reqs d : dist_guard reqs d = true <-> dist_guardP reqs d.
Proof.
  destruct d as [fee|l]; cbn [dist_guard dist_guardP].
  - rewrite !andb_true_iff, Z.leb_le, Z.ltb_lt, shares_guard_iff. tauto.
  - apply shares_guard_iff.
Qed.

Definition red_guardP (mu : utxo) (reqs : list request) (d : dist) (shape : N) : Prop :=
  (exists k, u_chain mu = COut k (u_value mu)) /\ 0 <= u_value mu < two63 /\
  (forall r, In r reqs -> 0 <= r_treasury r <= r_amount r /\ r_amount r < two63) /\
  sumZ (map redeemable reqs) <= u_value mu /\ (shape <= 1)%N /\
  dist_guardP reqs d.
Lemma red_guard_iff mu reqs d shape :
  red_guard mu reqs shape && dist_guard reqs d = true <-> red_guardP mu reqs d shape.
Proof.
  unfold red_guardP. rewrite andb_true_iff, red_guard_true, dist_guard_iff, forallb_forall.
  split.
  - intros [(H1 & H2 & H3 & H4 & H5) H6]. repeat split; try assumption; try lia;
      apply req_guard_true, H3; assumption.
  - intros (H1 & H2 & H3 & H4 & H5 & H6). repeat split; try assumption; try lia.
    intros r Hr. apply req_guard_true, H3, Hr.
Qed.

(* place the optional change output according to the shape *)
Definition place (shape : N) (ch : option output) (routs : list output) : list output :=
  match shape with 0%N => opt_list ch ++ routs | _ => routs ++ opt_list ch end.

Definition redemption_prop (own : N) (mu : utxo) (reqs : list request) (d : dist) (shape : N)
           (ins : list input) (outs : list output) : Prop :=
  ins = [in_of mu] /\
  exists (ch : option output) (routs : list output),
    outs = place shape ch routs /\
    scripts routs = map r_script reqs /\
    (forall c, ch = Some c -> fst c = own) /\
    (red_guardP mu reqs d shape ->
       let shares := implied_shares reqs routs in
       let change := u_value mu - sumZ (map redeemable reqs) in
       sumZ shares = dist_total d /\
       (forall l, d = DShares l -> shares = l) /\
       Forall (fun s => 0 <= s) shares /\
       Forall (fun v => 0 <= v) (values routs) /\
       ch = (if 0 <? change then Some (own, change) else None) /\
       sumZ (values ins) - sumZ (values outs) = dist_total d).

Lemma split_change_inv n shape outs ch routs :
  split_change n shape outs = Some (ch, routs) -> outs = place shape ch routs.
Proof.
  unfold split_change, place. destruct (length outs =? n)%nat.
  - intros [= <- <-]. cbn [opt_list app]. rewrite app_nil_r. destruct shape; reflexivity.
  - destruct (length outs =? S n)%nat eqn:E; [|discriminate]. destruct shape as [|p].
    + destruct outs as [|c t]; [discriminate|]. intros [= <- <-]. reflexivity.
    + intros [= <- <-]. cbn [opt_list]. apply app_removelast_last.
      destruct outs; [discriminate|discriminate].
Qed.

Lemma redemption_ok_sound own mu reqs d shape ins outs :
  redemption_ok own mu reqs d shape ins outs = true ->
  redemption_prop own mu reqs d shape ins outs.
Proof.
  unfold redemption_ok, redemption_prop. rewrite andb_true_iff, io_eqb_eq. intros [-> H].
  split; [reflexivity|].
  destruct (split_change (length reqs) shape outs) as [[ch routs]|] eqn:Es; [|discriminate].
  apply split_change_inv in Es. exists ch, routs. split; [assumption|].
  rewrite !andb_true_iff, listN_eqb_eq in H. destruct H as [[Hscr Hown] Hg].
  split; [assumption|]. split.
  { intros c ->. apply N.eqb_eq, Hown. }
  intros G. apply red_guard_iff in G. rewrite G in Hg. cbn [negb orb] in Hg. cbv zeta.
  rewrite !andb_true_iff, !Z.eqb_eq in Hg. destruct Hg as [[[[[H1 H2] H3] H4] H5] H6].
  split; [assumption|]. split.
  { intros l ->. apply listZ_eqb_eq, H2. }
  split; [apply forallb_nonneg_Forall, H3|]. split; [apply forallb_nonneg_Forall, H4|].
  split; [|assumption].
  destruct ch as [[s v]|].
  - apply andb_true_iff in H5 as [Hv Hp]. apply Z.eqb_eq in Hv. cbn [snd] in Hv, Hp.
    rewrite <- Hv, Hp. cbn [fst] in Hown. apply N.eqb_eq in Hown. subst s. reflexivity.
  - apply Z.eqb_eq in H5. rewrite H5, Z.sub_diag. reflexivity.
Qed.

Theorem redemption_correct own main reqs d shape ins outs :
  assemble_redemption own main reqs d shape = Tx ins outs ->
  exists mu, main = Some mu /\ reqs <> [] /\ confirmed KPkh mu /\
    redemption_prop own mu reqs d shape ins outs.
Proof.
  intros H. pose proof H as H'. apply redemption_inv in H' as (mu & sh & -> & Hne & Hc & _).
  exists mu. split; [reflexivity|]. split; [assumption|]. split; [assumption|].
  apply redemption_ok_sound, redemption_spec, H.
Qed.

(* with the production fee distribution the transaction is always assembled when the chain
   confirms the main UTXO and the shape is a known one *)
Theorem redemption_accepts own mu reqs fee shape :
  reqs <> [] -> confirmed KPkh mu -> (shape <= 1)%N -> - two63 <= fee < two63 ->
  exists ins outs, assemble_redemption own (Some mu) reqs (DTotal fee) shape = Tx ins outs.
Proof.
  intros Hne Hc Hs Hfee. unfold assemble_redemption.
  destruct reqs as [|r0 reqs0] eqn:Er; [congruence|]. rewrite <- Er.
  rewrite (add_input_complete _ _ _ Hc). cbn [bind fee_shares].
  destruct (even_split fee (length reqs)) as [sh|] eqn:E.
  2:{ rewrite Er in E. cbn [length] in E. rewrite even_split_exact in E by assumption. discriminate. }
  destruct (even_split_sum _ _ _ Hfee E) as [Hl _].
  destruct (red_loop_complete reqs sh [] 0 0 ltac:(lia)) as [[[o tf] tr] ->].
  destruct (0 <? _); [|eauto].
  destruct shape as [|[p|p|]]; try lia; eauto.
Qed.

(* ====================================================================================
   the executable property holds of every model output
   ==================================================================================== *)
Theorem model_outputs_pass_spec c : case_wf c = true -> agree c = true -> spec_ok c = true.
Proof.
  intros Hwf Ha. destruct c as [own main ds fee o|own main reqs d shape o|main targets fee o
                              |own m main fee o|total n o]; cbn [agree model] in Ha; cbn [spec_ok].
  - apply res_eqb_eq in Ha. subst o.
    destruct (assemble_deposit_sweep own main ds fee) as [ins outs| |] eqn:E; try reflexivity.
    apply deposit_sweep_spec, E.
  - apply res_eqb_eq in Ha. subst o.
    destruct (assemble_redemption own main reqs d shape) as [ins outs| |] eqn:E;
      destruct main as [mu|]; try reflexivity.
    + apply redemption_spec, E.
    + discriminate.
  - apply res_eqb_eq in Ha. subst o.
    destruct (assemble_moving_funds main targets fee) as [ins outs| |] eqn:E;
      destruct main as [mu|]; try reflexivity.
    + apply moving_funds_spec, E.
    + destruct targets; discriminate.
  - apply res_eqb_eq in Ha. subst o.
    destruct (moved_funds_sweep own m main fee) as [ins outs| |] eqn:E; try reflexivity.
    destruct (moved_funds_sweep_spec _ _ _ _ _ _ E) as (mu & -> & H). exact H.
  - cbn [case_wf] in Hwf. apply andb_true_iff in Hwf as [Ht _]. apply in64_true in Ht.
    pose proof (fee_shares_model_ok total n Ht) as H.
    destruct o as [a|], (even_split total n) as [b|]; try discriminate; try reflexivity.
    apply listZ_eqb_eq in Ha. subst a. exact H.
Qed.

(* ... and implies the stated property, per kind of case *)
Definition case_prop (c : case) : Prop :=
  match c with
  | CDepositSweep own main ds fee (Tx ins outs) =>
      sweep_prop own (opt_list main ++ map d_utxo ds) fee ins outs
  | CRedemption own main reqs d shape (Tx ins outs) =>
      exists mu, main = Some mu /\ redemption_prop own mu reqs d shape ins outs
  | CMovingFunds main targets fee (Tx ins outs) =>
      exists mu, main = Some mu /\ moving_funds_prop mu targets fee ins outs
  | CMovedFundsSweep own m main fee (Tx ins outs) =>
      exists mu, moved_utxo m = SOk (Some mu) /\ sweep_prop own (mu :: opt_list main) fee ins outs
  | CFeeShares total n (Some l) =>
      length l = n /\ sumZ l = total /\ (0 <= total -> Forall (fun s => 0 <= s) l)
  | _ => True
  end.

Theorem spec_ok_sound c : spec_ok c = true -> case_prop c.
Proof.
  destruct c as [own main ds fee o|own main reqs d shape o|main targets fee o
                |own m main fee o|total n o]; cbn [spec_ok case_prop].
  - destruct o; auto. apply sweep_ok_sound.
  - destruct o; auto. destruct main as [mu|]; [|discriminate].
    intros H. exists mu. split; [reflexivity|]. apply redemption_ok_sound, H.
  - destruct o; auto. destruct main as [mu|]; [|discriminate].
    intros H. exists mu. split; [reflexivity|]. apply moving_funds_ok_sound, H.
  - destruct o; auto. unfold moved_intended.
    destruct (moved_utxo m) as [[mu|]| |]; try discriminate.
    intros H. exists mu. split; [reflexivity|]. apply sweep_ok_sound, H.
  - destruct o as [l|]; auto. apply fee_shares_ok_sound.
Qed.

(* ====================================================================================
   the guards are needed: the unguarded statements are false of the code
   ==================================================================================== *)
(* the value the chain holds for the outpoint of a UTXO *)
Definition chain_value (u : utxo) : Z := match u_chain u with COut _ v => v | _ => 0 end.

(* an insolvent wallet (main UTXO 100 < redeemable 200): no change output, and the difference
   between inputs and outputs is -90, not the proposed fee 10 *)
Theorem redemption_conservation_unguarded_refuted :
  exists own mu reqs fee shape ins outs,
    assemble_redemption own (Some mu) reqs (DTotal fee) shape = Tx ins outs /\
    sumZ (values ins) - sumZ (values outs) <> fee.
Proof.
  exists 1%N, {| u_op := 1; u_value := 100; u_chain := COut KPkh 100 |},
         [{| r_script := 2; r_amount := 200; r_treasury := 0 |}], 10, 0%N,
         [(1%N, 100)], [(2%N, 190)].
  split; [vm_compute; reflexivity|vm_compute; discriminate].
Qed.

(* fee above the value of the main UTXO: Go's % is negative, the outputs are -1, -1, -3 and not
   the even split -2, -2, -1 of the (floor) division; every output is negative *)
Theorem moving_funds_split_unguarded_refuted :
  exists mu targets fee ins outs,
    assemble_moving_funds (Some mu) targets fee = Tx ins outs /\
    let total := u_value mu - fee in
    let n := Z.of_nat (length targets) in
    values outs <> repeat (total / n) (length targets - 1) ++ [total / n + total mod n] /\
    ~ Forall (fun v => 0 <= v) (values outs).
Proof.
  exists {| u_op := 1; u_value := 10; u_chain := COut KPkh 10 |}, [1%N; 2%N; 3%N], 15,
         [(1%N, 10)], [(1%N, -1); (2%N, -1); (3%N, -3)].
  split; [vm_compute; reflexivity|]. split; [vm_compute; discriminate|].
  intros H. inversion H as [|? ? H1 _]. vm_compute in H1. apply H1. reflexivity.
Qed.

(* int64 wrap-around: fee = -2^63 *)
Theorem sweep_conservation_int64_refuted :
  exists own ds fee ins outs,
    assemble_deposit_sweep own None ds fee = Tx ins outs /\ - two63 <= fee < two63 /\
    sumZ (values ins) - sumZ (values outs) <> fee.
Proof.
  exists 1%N, [{| d_utxo := {| u_op := 1; u_value := 1; u_chain := COut KSh 1 |}; d_script_ok := true |}],
         (-9223372036854775808), [(1%N, 1)], [(1%N, -9223372036854775807)].
  split; [vm_compute; reflexivity|]. split; [vm_compute; split; [discriminate|reflexivity]|].
  vm_compute. discriminate.
Qed.

(* the builder records the CLAIMED value of a UTXO: when it is not the chain's value the real
   fee (chain values of the inputs minus outputs) is not the proposed one *)
Theorem sweep_claimed_value_refuted :
  exists own ds fee ins outs,
    assemble_deposit_sweep own None ds fee = Tx ins outs /\
    sumZ (map chain_value (map d_utxo ds)) - sumZ (values outs) <> fee.
Proof.
  exists 1%N, [{| d_utxo := {| u_op := 1; u_value := 100; u_chain := COut KSh 60 |}; d_script_ok := true |}],
         10, [(1%N, 100)], [(1%N, 90)].
  split; [vm_compute; reflexivity|vm_compute; discriminate].
Qed.

(* fee above the swept value: a negative output *)
Theorem sweep_fee_above_value_refuted :
  exists own ds fee ins outs,
    assemble_deposit_sweep own None ds fee = Tx ins outs /\
    ~ Forall (fun v => 0 <= v) (values outs).
Proof.
  exists 1%N, [{| d_utxo := {| u_op := 1; u_value := 100; u_chain := COut KSh 100 |}; d_script_ok := true |}],
         101, [(1%N, 100)], [(1%N, -1)].
  split; [vm_compute; reflexivity|].
  intros H. inversion H as [|? ? H1 _]. vm_compute in H1. apply H1. reflexivity.
Qed.

(* ====================================================================================
   the hypotheses are satisfiable
   ==================================================================================== *)
Example deposit_sweep_example :
  let main := Some {| u_op := 1; u_value := 500; u_chain := COut KPkh 500 |} in
  let ds := [{| d_utxo := {| u_op := 2; u_value := 100; u_chain := COut KSh 100 |}; d_script_ok := true |};
             {| d_utxo := {| u_op := 3; u_value := 200; u_chain := COut KSh 200 |}; d_script_ok := true |}] in
  assemble_deposit_sweep 1 main ds 30 = Tx [(1%N, 500); (2%N, 100); (3%N, 200)] [(1%N, 770)] /\
  sweep_guardP (opt_list main ++ map d_utxo ds) 30.
Proof. split; [vm_compute; reflexivity|apply sweep_guard_iff; vm_compute; reflexivity]. Qed.

Example redemption_example :
  let mu := {| u_op := 1; u_value := 1000; u_chain := COut KPkh 1000 |} in
  let reqs := [{| r_script := 2; r_amount := 200; r_treasury := 10 |};
               {| r_script := 3; r_amount := 300; r_treasury := 0 |};
               {| r_script := 4; r_amount := 50; r_treasury := 5 |}] in
  assemble_redemption 1 (Some mu) reqs (DTotal 20) 0 =
    Tx [(1%N, 1000)] [(1%N, 465); (2%N, 184); (3%N, 294); (4%N, 37)] /\
  assemble_redemption 1 (Some mu) reqs (DTotal 20) 1 =
    Tx [(1%N, 1000)] [(2%N, 184); (3%N, 294); (4%N, 37); (1%N, 465)] /\
  red_guardP mu reqs (DTotal 20) 0.
Proof.
  split; [vm_compute; reflexivity|]. split; [vm_compute; reflexivity|].
  apply red_guard_iff. vm_compute. reflexivity.
Qed.

Example moving_funds_example :
  let mu := {| u_op := 1; u_value := 1001; u_chain := COut KPkh 1001 |} in
  assemble_moving_funds (Some mu) [5%N; 6%N; 7%N] 10 =
    Tx [(1%N, 1001)] [(5%N, 330); (6%N, 330); (7%N, 331)] /\
  mf_guardP mu 10.
Proof. split; [vm_compute; reflexivity|apply mf_guard_iff; vm_compute; reflexivity]. Qed.

Example moved_funds_sweep_example :
  let e := COut KPkh 700 in
  let main := Some {| u_op := 2; u_value := 300; u_chain := COut KPkh 300 |} in
  moved_funds_sweep 1 (MChain 1 e) main 25 = Tx [(1%N, 700); (2%N, 300)] [(1%N, 975)] /\
  sweep_guardP ({| u_op := 1; u_value := 700; u_chain := e |} :: opt_list main) 25.
Proof. split; [vm_compute; reflexivity|apply sweep_guard_iff; vm_compute; reflexivity]. Qed.
