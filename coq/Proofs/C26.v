(* C26 — proofs about Model/C26.v.  The statements that make up the property are restated in
   Props/C26.v. *)
From Coq Require Import ZArith NArith List Bool Lia.
From KV Require Import Common.Verdict Model.C26.
Import ListNotations.
Open Scope Z_scope.

(* ====================================================================================
   int64 arithmetic
   ==================================================================================== *)
Lemma two63_pos : 0 < two63.  Proof. reflexivity. Qed.
Lemma two64_eq : two64 = 2 * two63.  Proof. reflexivity. Qed.
Lemma two64_pos : 0 < two64.  Proof. reflexivity. Qed.
Global Opaque two63 two64.

Lemma w64_id z : - two63 <= z < two63 -> w64 z = z.
Proof.
  intros H. unfold w64. rewrite Z.mod_small; [lia|]. rewrite two64_eq. lia.
Qed.

Lemma w64_range z : - two63 <= w64 z < two63.
Proof.
  unfold w64. pose proof (Z.mod_pos_bound (z + two63) two64 two64_pos) as H.
  rewrite two64_eq in *. lia.
Qed.

Lemma w64_add_l a b : w64 (w64 a + b) = w64 (a + b).
Proof.
  unfold w64. f_equal.
  replace ((a + two63) mod two64 - two63 + b + two63) with ((a + two63) mod two64 + b) by lia.
  rewrite Zplus_mod_idemp_l. f_equal. lia.
Qed.
Lemma w64_add_r a b : w64 (a + w64 b) = w64 (a + b).
Proof. rewrite Z.add_comm, w64_add_l. f_equal. lia. Qed.
Lemma w64_sub_l a b : w64 (w64 a - b) = w64 (a - b).
Proof. replace (w64 a - b) with (w64 a + (- b)) by lia. rewrite w64_add_l. f_equal. Qed.
Lemma w64_0 : w64 0 = 0.
Proof. apply w64_id. pose proof two63_pos. lia. Qed.

Lemma in64_true z : in64 z = true <-> - two63 <= z < two63.
Proof. unfold in64. rewrite andb_true_iff, Z.leb_le, Z.ltb_lt. tauto. Qed.

(* ====================================================================================
   lists
   ==================================================================================== *)
Lemma listZ_eqb_eq a : forall b, listZ_eqb a b = true <-> a = b.
Proof.
  induction a as [|x a IH]; intros [|y b]; cbn [listZ_eqb]; try (split; [discriminate|discriminate]).
  - tauto.
  - rewrite andb_true_iff, Z.eqb_eq, IH. split; [intros [-> ->]; reflexivity|intros [= -> ->]; tauto].
Qed.
Lemma listN_eqb_eq a : forall b, listN_eqb a b = true <-> a = b.
Proof.
  induction a as [|x a IH]; intros [|y b]; cbn [listN_eqb]; try (split; [discriminate|discriminate]).
  - tauto.
  - rewrite andb_true_iff, N.eqb_eq, IH. split; [intros [-> ->]; reflexivity|intros [= -> ->]; tauto].
Qed.
Lemma map_fst_snd_eq {A B} (a : list (A * B)) : forall b,
  map fst a = map fst b -> map snd a = map snd b -> a = b.
Proof.
  induction a as [|[x1 x2] a IH]; intros [|[y1 y2] b]; cbn; try discriminate; [reflexivity|].
  intros [= -> H1] [= -> H2]. f_equal. auto.
Qed.
Lemma io_eqb_eq a b : io_eqb a b = true <-> a = b.
Proof.
  unfold io_eqb. rewrite andb_true_iff, listN_eqb_eq, listZ_eqb_eq. split.
  - intros [H1 H2]. apply map_fst_snd_eq; assumption.
  - intros ->. tauto.
Qed.
Lemma io_eqb_refl a : io_eqb a a = true.  Proof. apply io_eqb_eq. reflexivity. Qed.
Lemma listN_eqb_refl a : listN_eqb a a = true.  Proof. apply listN_eqb_eq. reflexivity. Qed.
Lemma listZ_eqb_refl a : listZ_eqb a a = true.  Proof. apply listZ_eqb_eq. reflexivity. Qed.

Lemma res_eqb_eq a b : res_eqb a b = true <-> a = b.
Proof.
  destruct a, b; cbn [res_eqb]; try (split; [discriminate|discriminate]); try tauto.
  rewrite andb_true_iff, !io_eqb_eq. split; [intros [-> ->]; reflexivity|intros [= -> ->]; tauto].
Qed.

Lemma sumZ_cons x a : sumZ (x :: a) = x + sumZ a.  Proof. reflexivity. Qed.
Lemma sumZ_nil : sumZ [] = 0.  Proof. reflexivity. Qed.
Lemma sumZ_app a b : sumZ (a ++ b) = sumZ a + sumZ b.
Proof. induction a as [|x a IH]; [reflexivity|]. rewrite <- app_comm_cons, !sumZ_cons, IH. lia. Qed.
Lemma sumZ_repeat q n : sumZ (repeat q n) = Z.of_nat n * q.
Proof. induction n as [|n IH]; [reflexivity|]. cbn [repeat]. rewrite sumZ_cons, IH. lia. Qed.
Lemma sumZ_nonneg l : Forall (fun v => 0 <= v) l -> 0 <= sumZ l.
Proof. induction 1 as [|x l Hx _ IH]; [cbn; lia|]. rewrite sumZ_cons. lia. Qed.

Lemma values_app a b : values (a ++ b) = values a ++ values b.
Proof. apply map_app. Qed.
Lemma values_in_of us : values (map in_of us) = map u_value us.
Proof. unfold values. rewrite map_map. reflexivity. Qed.

Lemma forallb_Forall {A} (f : A -> bool) l : forallb f l = true <-> Forall (fun x => f x = true) l.
Proof. rewrite forallb_forall, Forall_forall. tauto. Qed.

(* ====================================================================================
   the builder
   ==================================================================================== *)
Lemma total_inputs_gen b : forall a,
  fold_left (fun acc (i : input) => add64 acc (snd i)) b (w64 a) = w64 (a + sumZ (values b)).
Proof.
  induction b as [|i b IH]; intros a; cbn [fold_left values map].
  - rewrite sumZ_nil. f_equal. lia.
  - unfold add64 at 2. rewrite w64_add_l, IH. rewrite sumZ_cons. f_equal. fold (values b). lia.
Qed.
Lemma total_inputs_spec b : total_inputs b = w64 (sumZ (values b)).
Proof. unfold total_inputs. rewrite <- w64_0 at 1. rewrite total_inputs_gen. f_equal. Qed.

(* what the chain confirms about a UTXO *)
Definition confirmed (k : sclass) (u : utxo) : Prop := exists v, u_chain u = COut k v.

Lemma add_input_ok want b u b' :
  add_input want b u = SOk b' -> b' = b ++ [in_of u] /\ confirmed want u.
Proof.
  unfold add_input, confirmed. destruct (u_chain u) as [| |k v]; try discriminate.
  destruct k, want; cbn; try discriminate; intros [= <-]; eauto.
Qed.
Lemma add_input_complete want b u :
  confirmed want u -> add_input want b u = SOk (b ++ [in_of u]).
Proof. intros [v H]. unfold add_input. rewrite H. destruct want; reflexivity. Qed.

Lemma add_opt_input_ok want b u b' :
  add_opt_input want b u = SOk b' ->
  b' = b ++ map in_of (opt_list u) /\ Forall (confirmed want) (opt_list u).
Proof.
  destruct u as [u|]; cbn [add_opt_input opt_list map].
  - intros H. apply add_input_ok in H as [-> H]. auto.
  - intros [= <-]. rewrite app_nil_r. auto.
Qed.
Lemma add_opt_input_complete want b u :
  Forall (confirmed want) (opt_list u) -> add_opt_input want b u = SOk (b ++ map in_of (opt_list u)).
Proof.
  destruct u as [u|]; cbn [add_opt_input opt_list map]; intros H.
  - apply add_input_complete. inversion H; assumption.
  - rewrite app_nil_r. reflexivity.
Qed.

Definition deposit_good (d : deposit) : Prop := d_script_ok d = true /\ confirmed KSh (d_utxo d).

Lemma add_deposits_ok ds : forall b b',
  add_deposits b ds = SOk b' ->
  b' = b ++ map in_of (map d_utxo ds) /\ Forall deposit_good ds.
Proof.
  induction ds as [|d ds IH]; intros b b'; cbn [add_deposits map].
  - intros [= <-]. rewrite app_nil_r. auto.
  - destruct (d_script_ok d) eqn:Hs; cbn [negb]; [|discriminate].
    destruct (add_input KSh b (d_utxo d)) as [b1| |] eqn:Hi; try discriminate.
    intros H. apply IH in H as [-> Hf]. apply add_input_ok in Hi as [-> Hc].
    rewrite <- app_assoc. split; [reflexivity|]. constructor; [split; assumption|assumption].
Qed.
Lemma add_deposits_complete ds : forall b,
  Forall deposit_good ds -> add_deposits b ds = SOk (b ++ map in_of (map d_utxo ds)).
Proof.
  induction ds as [|d ds IH]; intros b H; cbn [add_deposits map].
  - rewrite app_nil_r. reflexivity.
  - inversion H as [|? ? [Hs Hc] Hf]; subst. rewrite Hs. cbn [negb].
    rewrite (add_input_complete _ _ _ Hc), IH by assumption. rewrite <- app_assoc. reflexivity.
Qed.

(* ====================================================================================
   sweeps (deposit sweep, moved funds sweep)
   ==================================================================================== *)
(* the guard, as a proposition *)
Definition sweep_guardP (us : list utxo) (fee : Z) : Prop :=
  (forall u, In u us -> (exists k, u_chain u = COut k (u_value u)) /\ 0 <= u_value u) /\
  sumZ (map u_value us) < two63 /\ 0 <= fee <= sumZ (map u_value us).

Lemma real_true u : real u = true <-> exists k, u_chain u = COut k (u_value u).
Proof.
  unfold real. destruct (u_chain u) as [| |k v].
  - split; [discriminate|intros [k H]; discriminate].
  - split; [discriminate|intros [k H]; discriminate].
  - rewrite Z.eqb_eq. split; [intros ->; eauto|intros [k' [= _ ->]]; reflexivity].
Qed.

Lemma sweep_guard_iff us fee : sweep_guard us fee = true <-> sweep_guardP us fee.
Proof.
  unfold sweep_guard, sweep_guardP.
  rewrite !andb_true_iff, !forallb_forall, Z.ltb_lt, !Z.leb_le. split.
  - intros [[[[H1 H2] H3] H4] H5]. repeat split; try assumption.
    + apply real_true, H1, H.
    + apply Z.leb_le, H2, H.
  - intros [H1 [H2 [H3 H4]]]. repeat split; try assumption.
    + intros u Hu. apply real_true, H1, Hu.
    + intros u Hu. apply Z.leb_le, H1, Hu.
Qed.

Lemma sweep_guard_sum_nonneg us fee : sweep_guardP us fee -> 0 <= sumZ (map u_value us).
Proof.
  intros [H _]. apply sumZ_nonneg, Forall_forall. intros v Hv.
  apply in_map_iff in Hv as [u [<- Hu]]. apply H, Hu.
Qed.

(* the model's sweep output passes the executable property *)
Lemma sweep_output_ok own us fee :
  sweep_ok own us fee (map in_of us) [(own, sub64 (total_inputs (map in_of us)) fee)] = true.
Proof.
  unfold sweep_ok. rewrite io_eqb_refl. cbn [scripts map fst listN_eqb]. rewrite N.eqb_refl. cbn [andb].
  destruct (sweep_guard us fee) eqn:G; cbn [negb orb]; [|reflexivity].
  apply sweep_guard_iff in G. pose proof (sweep_guard_sum_nonneg _ _ G) as Hs.
  destruct G as [_ [Hlt Hfee]].
  rewrite values_in_of. cbn [values map snd]. rewrite total_inputs_spec, values_in_of.
  unfold sub64. rewrite (w64_id (sumZ (map u_value us))) by lia.
  rewrite w64_id by lia. rewrite sumZ_cons, sumZ_nil. cbn [forallb].
  rewrite andb_true_iff, Z.eqb_eq, andb_true_iff, Z.leb_le. repeat split; lia.
Qed.

(* the executable property of a sweep implies the stated one *)
Definition sweep_prop (own : N) (us : list utxo) (fee : Z) (ins : list input) (outs : list output) : Prop :=
  ins = map in_of us /\
  exists v, outs = [(own, v)] /\
    (sweep_guardP us fee ->
       v = sumZ (map u_value us) - fee /\ 0 <= v /\ sumZ (values ins) - sumZ (values outs) = fee).

Lemma sweep_ok_sound own us fee ins outs :
  sweep_ok own us fee ins outs = true -> sweep_prop own us fee ins outs.
Proof.
  unfold sweep_ok, sweep_prop. rewrite !andb_true_iff, io_eqb_eq, listN_eqb_eq.
  intros [[-> Hs] Hg]. split; [reflexivity|].
  destruct outs as [|[s v] [|? ?]]; cbn in Hs; try discriminate. injection Hs as ->.
  exists v. split; [reflexivity|]. intros G. apply sweep_guard_iff in G. rewrite G in Hg.
  cbn [negb orb] in Hg. apply andb_true_iff in Hg as [Hc Hn]. apply Z.eqb_eq in Hc.
  cbn [values map snd forallb] in *. rewrite andb_true_r in Hn. apply Z.leb_le in Hn.
  rewrite sumZ_cons, sumZ_nil in *. fold (values (map in_of us)) in *. rewrite values_in_of in *.
  repeat split; lia.
Qed.

(* ---------- deposit sweep ---------- *)
Lemma deposit_sweep_inv own main ds fee ins outs :
  assemble_deposit_sweep own main ds fee = Tx ins outs ->
  let us := opt_list main ++ map d_utxo ds in
  ds <> [] /\ Forall (confirmed KPkh) (opt_list main) /\ Forall deposit_good ds /\
  ins = map in_of us /\ outs = [(own, sub64 (total_inputs (map in_of us)) fee)].
Proof.
  unfold assemble_deposit_sweep. destruct ds as [|d ds]; [discriminate|].
  destruct (add_opt_input KPkh [] main) as [b| |] eqn:Hm; cbn [bind]; try discriminate.
  destruct (add_deposits b (d :: ds)) as [b'| |] eqn:Hd; cbn [bind]; try discriminate.
  intros [= <- <-]. apply add_opt_input_ok in Hm as [-> Hm]. apply add_deposits_ok in Hd as [-> Hd].
  cbn [app] in *. rewrite map_app. repeat split; try assumption. discriminate.
Qed.

Lemma deposit_sweep_spec own main ds fee ins outs :
  assemble_deposit_sweep own main ds fee = Tx ins outs ->
  sweep_ok own (opt_list main ++ map d_utxo ds) fee ins outs = true.
Proof.
  intros H. apply deposit_sweep_inv in H as (_ & _ & _ & -> & ->). apply sweep_output_ok.
Qed.

Theorem deposit_sweep_correct own main ds fee ins outs :
  assemble_deposit_sweep own main ds fee = Tx ins outs ->
  ds <> [] /\ Forall (confirmed KPkh) (opt_list main) /\ Forall deposit_good ds /\
  sweep_prop own (opt_list main ++ map d_utxo ds) fee ins outs.
Proof.
  intros H. pose proof (deposit_sweep_spec _ _ _ _ _ _ H) as Hs.
  apply deposit_sweep_inv in H as (H1 & H2 & H3 & _).
  split; [assumption|]. split; [assumption|]. split; [assumption|]. apply sweep_ok_sound, Hs.
Qed.

Theorem deposit_sweep_accepts own main ds fee :
  ds <> [] -> Forall (confirmed KPkh) (opt_list main) -> Forall deposit_good ds ->
  exists ins outs, assemble_deposit_sweep own main ds fee = Tx ins outs.
Proof.
  intros Hne Hm Hd. unfold assemble_deposit_sweep. destruct ds as [|d ds]; [congruence|].
  rewrite (add_opt_input_complete _ _ _ Hm). cbn [bind].
  rewrite (add_deposits_complete _ _ Hd). cbn [bind]. eauto.
Qed.

(* ---------- moved funds sweep ---------- *)
Lemma moved_sweep_inv own moved main fee ins outs :
  assemble_moved_funds_sweep own moved main fee = Tx ins outs ->
  exists mu, moved = Some mu /\
  let us := mu :: opt_list main in
  confirmed KPkh mu /\ Forall (confirmed KPkh) (opt_list main) /\
  ins = map in_of us /\ outs = [(own, sub64 (total_inputs (map in_of us)) fee)].
Proof.
  unfold assemble_moved_funds_sweep. destruct moved as [mu|]; [|discriminate].
  destruct (add_input KPkh [] mu) as [b| |] eqn:Hm; cbn [bind]; try discriminate.
  destruct (add_opt_input KPkh b main) as [b'| |] eqn:Hd; cbn [bind]; try discriminate.
  intros [= <- <-]. apply add_input_ok in Hm as [-> Hm]. apply add_opt_input_ok in Hd as [-> Hd].
  exists mu. cbn [app map] in *. repeat split; assumption.
Qed.

(* the moved funds UTXO built by assembleMovedFundsSweepUtxo carries the chain's value *)
Lemma moved_utxo_chain_value op e mu :
  moved_utxo (MChain op e) = SOk (Some mu) ->
  u_op mu = op /\ exists k, u_chain mu = COut k (u_value mu).
Proof.
  cbn [moved_utxo]. destruct e as [| |k v]; try discriminate. intros [= <-]. cbn. eauto.
Qed.

Lemma moved_funds_sweep_inv own m main fee ins outs :
  moved_funds_sweep own m main fee = Tx ins outs ->
  exists mu, moved_utxo m = SOk (Some mu) /\ assemble_moved_funds_sweep own (Some mu) main fee = Tx ins outs.
Proof.
  unfold moved_funds_sweep. destruct (moved_utxo m) as [[mu|]| |] eqn:Hm; cbn [bind]; try discriminate.
  eauto.
Qed.

Lemma moved_funds_sweep_spec own m main fee ins outs :
  moved_funds_sweep own m main fee = Tx ins outs ->
  exists mu, moved_intended m = Some mu /\ sweep_ok own (mu :: opt_list main) fee ins outs = true.
Proof.
  intros H. apply moved_funds_sweep_inv in H as (mu & Hm & H). exists mu.
  unfold moved_intended. rewrite Hm. split; [reflexivity|].
  apply moved_sweep_inv in H as (mu' & [= <-] & _ & _ & -> & ->). apply sweep_output_ok.
Qed.

Theorem moved_funds_sweep_correct own m main fee ins outs :
  moved_funds_sweep own m main fee = Tx ins outs ->
  exists mu, moved_utxo m = SOk (Some mu) /\
    confirmed KPkh mu /\ Forall (confirmed KPkh) (opt_list main) /\
    sweep_prop own (mu :: opt_list main) fee ins outs.
Proof.
  intros H. destruct (moved_funds_sweep_spec _ _ _ _ _ _ H) as (mu & Hi & Hs).
  apply moved_funds_sweep_inv in H as (mu' & Hm & H).
  unfold moved_intended in Hi. rewrite Hm in Hi. injection Hi as ->.
  apply moved_sweep_inv in H as (mu' & [= <-] & H1 & H2 & _).
  exists mu. split; [assumption|]. split; [assumption|]. split; [assumption|]. apply sweep_ok_sound, Hs.
Qed.

Theorem moved_funds_sweep_accepts own m mu main fee :
  moved_utxo m = SOk (Some mu) -> confirmed KPkh mu -> Forall (confirmed KPkh) (opt_list main) ->
  exists ins outs, moved_funds_sweep own m main fee = Tx ins outs.
Proof.
  intros Hm Hc Hmain. unfold moved_funds_sweep. rewrite Hm. cbn [bind].
  unfold assemble_moved_funds_sweep. rewrite (add_input_complete _ _ _ Hc). cbn [bind].
  rewrite (add_opt_input_complete _ _ _ Hmain). cbn [bind]. eauto.
Qed.

(* ====================================================================================
   the even split with the remainder on the last
   ==================================================================================== *)
Lemma even_split_zero total : even_split total 0 = None.
Proof. reflexivity. Qed.

Lemma quot_rem_bounds total N (q := Z.quot total N) (r := Z.rem total N) :
  1 <= N ->
  total = N * q + r /\
  (0 <= total -> 0 <= r < N /\ 0 <= q <= total /\ q + r <= total) /\
  (total <= 0 -> - N < r <= 0 /\ total <= q <= 0 /\ total <= q + r).
Proof.
  intros HN. pose proof (Z.quot_rem' total N) as E. fold q r in E.
  split; [exact E|]. split; intros Ht.
  - pose proof (Z.rem_bound_pos total N Ht ltac:(lia)) as Hr. fold r in Hr.
    assert (0 <= q) by nia. assert (q <= N * q) by nia. lia.
  - pose proof (Z.rem_bound_pos_neg total N ltac:(lia) Ht) as Hr. fold r in Hr.
    assert (q <= 0) by nia. assert (N * q <= q) by nia. lia.
Qed.

(* exactly what the int64 code computes, for every int64 total and every positive count *)
Lemma even_split_exact total m :
  - two63 <= total < two63 ->
  even_split total (S m) =
  Some (repeat (Z.quot total (Z.of_nat (S m))) m
        ++ [Z.quot total (Z.of_nat (S m)) + Z.rem total (Z.of_nat (S m))]).
Proof.
  intros Ht. unfold even_split. set (N := Z.of_nat (S m)).
  assert (HN : 1 <= N) by (unfold N; lia).
  destruct (quot_rem_bounds total N HN) as (E & Hpos & Hneg).
  set (q := Z.quot total N) in *. set (r := Z.rem total N) in *.
  unfold rem64, quot64, sub64, add64. fold r.
  assert (Hq : - two63 <= q < two63 /\ - two63 <= q + r < two63 /\ - two63 <= total - r < two63).
  { destruct (Z.le_ge_cases 0 total) as [H|H]; [specialize (Hpos H)|specialize (Hneg H)]; lia. }
  rewrite (w64_id (total - r)) by lia.
  replace (total - r) with (q * N) by lia. rewrite Z.quot_mul by lia.
  rewrite (w64_id q) by lia. rewrite (w64_id (q + r)) by lia. reflexivity.
Qed.

Theorem even_split_sum total n l :
  - two63 <= total < two63 -> even_split total n = Some l ->
  length l = n /\ sumZ l = total.
Proof.
  intros Ht H. destruct n as [|m]; [discriminate|]. rewrite even_split_exact in H by assumption.
  injection H as <-. rewrite app_length, repeat_length. cbn [length]. split; [lia|].
  rewrite sumZ_app, sumZ_repeat, sumZ_cons, sumZ_nil.
  pose proof (Z.quot_rem' total (Z.of_nat (S m))) as E. lia.
Qed.

Theorem even_split_even total n :
  0 <= total < two63 -> (0 < n)%nat ->
  even_split total n = Some (ideal_shares total n) /\
  0 <= total / Z.of_nat n /\ 0 <= total mod Z.of_nat n < Z.of_nat n.
Proof.
  intros Ht Hn. destruct n as [|m]; [lia|]. pose proof two63_pos.
  rewrite even_split_exact by lia. unfold ideal_shares.
  rewrite Z.quot_div_nonneg, Z.rem_mod_nonneg by lia.
  split; [reflexivity|]. split; [apply Z.div_pos; lia|apply Z.mod_pos_bound; lia].
Qed.

Lemma ideal_shares_sum fee n : (0 < n)%nat -> sumZ (ideal_shares fee n) = fee.
Proof.
  intros Hn. destruct n as [|m]; [lia|]. unfold ideal_shares.
  rewrite sumZ_app, sumZ_repeat, sumZ_cons, sumZ_nil.
  pose proof (Z.div_mod fee (Z.of_nat (S m)) ltac:(lia)). lia.
Qed.
Lemma ideal_shares_length fee n : length (ideal_shares fee n) = n.
Proof. destruct n as [|m]; [reflexivity|]. unfold ideal_shares. rewrite app_length, repeat_length. cbn. lia. Qed.

(* the executable property of the fee shares *)
Lemma fee_shares_ok_sound total n l :
  fee_shares_ok total n (Some l) = true ->
  length l = n /\ sumZ l = total /\ (0 <= total -> Forall (fun s => 0 <= s) l).
Proof.
  unfold fee_shares_ok. rewrite !andb_true_iff, Nat.eqb_eq, Z.eqb_eq, orb_true_iff, negb_true_iff.
  intros [[H1 H2] H3]. repeat split; try assumption. intros Ht.
  destruct H3 as [H3|H3]; [apply Z.leb_gt in H3; lia|].
  apply forallb_Forall in H3. eapply Forall_impl; [|exact H3]. intros s Hs. apply Z.leb_le, Hs.
Qed.

Lemma even_split_nonneg total n l :
  0 <= total < two63 -> even_split total n = Some l -> Forall (fun s => 0 <= s) l.
Proof.
  intros Ht H. destruct n as [|m]; [discriminate|].
  destruct (even_split_even total (S m) Ht ltac:(lia)) as (E & Hq & Hr).
  rewrite E in H. injection H as <-. unfold ideal_shares. apply Forall_app. split.
  - apply Forall_forall. intros x Hx. apply repeat_spec in Hx. lia.
  - constructor; [lia|constructor].
Qed.

Lemma fee_shares_model_ok total n :
  - two63 <= total < two63 -> fee_shares_ok total n (even_split total n) = true.
Proof.
  intros Ht. destruct (even_split total n) as [l|] eqn:E; [|reflexivity].
  destruct (even_split_sum _ _ _ Ht E) as [H1 H2]. unfold fee_shares_ok.
  rewrite !andb_true_iff, Nat.eqb_eq, Z.eqb_eq, orb_true_iff, negb_true_iff.
  split; [split; assumption|]. destruct (0 <=? total) eqn:Hs; [right|left; reflexivity].
  apply Z.leb_le in Hs. apply forallb_Forall.
  eapply Forall_impl; [|apply (even_split_nonneg total n l); [lia|exact E]].
  intros s Hs'. apply Z.leb_le, Hs'.
Qed.

(* ====================================================================================
   moving funds
   ==================================================================================== *)
Lemma scripts_combine (ts : list N) : forall (vs : list Z),
  length vs = length ts -> scripts (combine ts vs) = ts.
Proof.
  induction ts as [|t ts IH]; intros [|v vs]; cbn; try discriminate; [reflexivity|].
  intros [= H]. f_equal. apply IH, H.
Qed.
Lemma values_combine (ts : list N) : forall (vs : list Z),
  length vs = length ts -> values (combine ts vs) = vs.
Proof.
  induction ts as [|t ts IH]; intros [|v vs]; cbn; try discriminate; [reflexivity|].
  intros [= H]. f_equal. apply IH, H.
Qed.

Lemma split_values_ok_repeat q r m : split_values_ok q r (repeat q m ++ [q + r]) = true.
Proof.
  induction m as [|m IH]; cbn [repeat app split_values_ok].
  - apply Z.eqb_refl.
  - destruct (repeat q m ++ [q + r]) as [|x t] eqn:E.
    + destruct (repeat q m); discriminate.
    + rewrite Z.eqb_refl. exact IH.
Qed.
Lemma split_values_ok_sound q r vs :
  split_values_ok q r vs = true -> vs = repeat q (length vs - 1) ++ [q + r].
Proof.
  induction vs as [|v vs IH]; cbn [split_values_ok]; [discriminate|].
  destruct vs as [|v' vs'].
  - rewrite Z.eqb_eq. intros ->. reflexivity.
  - rewrite andb_true_iff, Z.eqb_eq. intros [-> H]. specialize (IH H).
    cbn [length] in *. replace (S (S (length vs')) - 1)%nat with (S (S (length vs') - 1)) by lia.
    cbn [repeat app]. f_equal. exact IH.
Qed.

Definition mf_guardP (mu : utxo) (fee : Z) : Prop :=
  (exists k, u_chain mu = COut k (u_value mu)) /\ 0 <= fee <= u_value mu /\ u_value mu < two63.
Lemma mf_guard_iff mu fee : mf_guard mu fee = true <-> mf_guardP mu fee.
Proof.
  unfold mf_guard, mf_guardP. rewrite !andb_true_iff, real_true, !Z.leb_le, Z.ltb_lt. tauto.
Qed.

Definition moving_funds_prop (mu : utxo) (targets : list N) (fee : Z)
           (ins : list input) (outs : list output) : Prop :=
  ins = [in_of mu] /\ scripts outs = targets /\
  (mf_guardP mu fee ->
     let total := u_value mu - fee in
     let n := Z.of_nat (length targets) in
     values outs = repeat (total / n) (length targets - 1) ++ [total / n + total mod n] /\
     0 <= total / n /\ 0 <= total mod n < n /\
     sumZ (values ins) - sumZ (values outs) = fee).

Lemma moving_funds_ok_sound mu targets fee ins outs :
  moving_funds_ok mu targets fee ins outs = true -> moving_funds_prop mu targets fee ins outs.
Proof.
  unfold moving_funds_ok, moving_funds_prop. rewrite !andb_true_iff, io_eqb_eq, listN_eqb_eq.
  intros [[-> Hs] Hg]. split; [reflexivity|]. split; [assumption|].
  intros G. pose proof G as (_ & Hfee & Hlt). apply mf_guard_iff in G. rewrite G in Hg.
  cbn [negb orb] in Hg. cbv zeta in Hg. apply andb_true_iff in Hg as [Hv Hc].
  apply Z.eqb_eq in Hc. apply split_values_ok_sound in Hv.
  assert (Hlen : length (values outs) = length targets).
  { rewrite <- Hs. unfold values, scripts. rewrite !map_length. reflexivity. }
  rewrite Hlen in Hv. cbv zeta. split; [exact Hv|].
  assert (Hn : 0 < Z.of_nat (length targets)).
  { rewrite <- Hlen, Hv, app_length. cbn [length]. lia. }
  split; [apply Z.div_pos; lia|]. split; [apply Z.mod_pos_bound; lia|exact Hc].
Qed.

Lemma moving_funds_inv main targets fee ins outs :
  assemble_moving_funds main targets fee = Tx ins outs ->
  exists mu vs, main = Some mu /\ targets <> [] /\ confirmed KPkh mu /\
    even_split (sub64 (u_value mu) fee) (length targets) = Some vs /\
    ins = [in_of mu] /\ outs = combine targets vs.
Proof.
  unfold assemble_moving_funds. destruct targets as [|t ts]; [discriminate|].
  destruct main as [mu|]; [|discriminate].
  destruct (add_input KPkh [] mu) as [b| |] eqn:Hm; cbn [bind]; try discriminate.
  destruct (even_split _ _) as [vs|] eqn:E; [|discriminate].
  intros [= <- <-]. apply add_input_ok in Hm as [-> Hm]. exists mu, vs.
  repeat split; try assumption; try reflexivity. discriminate.
Qed.

Lemma moving_funds_spec mu targets fee ins outs :
  assemble_moving_funds (Some mu) targets fee = Tx ins outs ->
  moving_funds_ok mu targets fee ins outs = true.
Proof.
  intros H. apply moving_funds_inv in H as (mu' & vs & [= <-] & Hne & _ & E & -> & ->).
  destruct (even_split_sum _ _ _ (w64_range _) E) as [Hlen Hsum].
  unfold moving_funds_ok. rewrite io_eqb_refl, scripts_combine, listN_eqb_refl by assumption.
  cbn [andb]. destruct (mf_guard mu fee) eqn:G; cbn [negb orb]; [|reflexivity].
  apply mf_guard_iff in G as (_ & Hfee & Hlt). cbv zeta.
  rewrite values_combine by assumption. unfold sub64 in E, Hsum. rewrite w64_id in E, Hsum by lia.
  assert (Hn : (0 < length targets)%nat) by (destruct targets; [congruence|cbn; lia]).
  destruct (even_split_even (u_value mu - fee) (length targets) ltac:(lia) Hn) as (E' & _).
  rewrite E' in E. injection E as <-. rewrite Hsum.
  cbn [values map snd in_of]. rewrite sumZ_cons, sumZ_nil.
  apply andb_true_iff. split; [|apply Z.eqb_eq; lia].
  unfold ideal_shares. destruct (length targets) as [|m] eqn:El; [lia|].
  apply split_values_ok_repeat.
Qed.

Theorem moving_funds_correct main targets fee ins outs :
  assemble_moving_funds main targets fee = Tx ins outs ->
  exists mu, main = Some mu /\ targets <> [] /\ confirmed KPkh mu /\
    moving_funds_prop mu targets fee ins outs.
Proof.
  intros H. pose proof H as H'. apply moving_funds_inv in H' as (mu & vs & -> & Hne & Hc & _).
  exists mu. split; [reflexivity|]. split; [assumption|]. split; [assumption|].
  apply moving_funds_ok_sound, moving_funds_spec, H.
Qed.

Theorem moving_funds_accepts mu targets fee :
  targets <> [] -> confirmed KPkh mu ->
  exists ins outs, assemble_moving_funds (Some mu) targets fee = Tx ins outs.
Proof.
  intros Hne Hc. unfold assemble_moving_funds. destruct targets as [|t ts] eqn:Et; [congruence|].
  rewrite (add_input_complete _ _ _ Hc). cbn [bind length]. rewrite even_split_exact by apply w64_range.
  eauto.
Qed.
