(* C03 — Lagrange interpolation at 0 over Z_r for the executable model.
   MathComp part: the field is 'F_p with p = Z.to_nat r; [phi : Z -> 'F_p] is the reduction
   morphism; the uniqueness of the interpolating polynomial comes from max_poly_roots.
   The exported statements ([combine_correct], [fermat_Z]) are in plain Coq terms. *)
From Coq Require Import ZArith Znumtheory.
From mathcomp Require Import all_ssreflect all_algebra finfield zify ssrZ.
From KV Require Import Model.C03 Proofs.C03_inv.
Set Implicit Arguments. Unset Strict Implicit. Unset Printing Implicit Defensive.
Import GRing.Theory.
Delimit Scope Z_scope with coqZ.
Local Open Scope ring_scope.

(* ---------- Lagrange interpolation at 0 over any field ---------- *)
Section Lagrange.
Variable F : fieldType.
Variable n : nat.
Variable x : 'I_n -> F.
Hypothesis x_inj : injective x.

Definition fac (i j : 'I_n) : {poly F} := (x i - x j)^-1 *: ('X - (x j)%:P).
Definition ell (i : 'I_n) : {poly F} := \prod_(j < n | j != i) fac i j.

Lemma ell_self i : (ell i).[x i] = 1.
Proof.
rewrite /ell horner_prod big1 // => j ji.
rewrite /fac hornerZ hornerXsubC mulVf // subr_eq0.
by apply/eqP => /x_inj e; rewrite e eqxx in ji.
Qed.

Lemma ell_other i k : k != i -> (ell i).[x k] = 0.
Proof.
move=> ki; rewrite /ell horner_prod (bigD1 k) //=.
by rewrite /fac hornerZ hornerXsubC subrr mulr0 mul0r.
Qed.

Lemma size_fac i j : (size (fac i j) <= 2)%N.
Proof. by apply: leq_trans (size_scale_leq _ _) _; rewrite size_XsubC. Qed.

Lemma size_ell i : (size (ell i) <= n)%N.
Proof.
apply: leq_trans (size_prod_leq _ _) _.
have hs : (\sum_(j < n | j != i) size (fac i j) <= \sum_(j < n | j != i) 2)%N.
  by apply: leq_sum => j _; apply: size_fac.
have hc : #|[pred j : 'I_n | j != i]| = n.-1.
  by have := cardC1 i; rewrite card_ord.
rewrite sum_nat_const hc in hs.
rewrite hc.
have n0 : (0 < n)%N by apply: leq_ltn_trans (ltn_ord i).
move: hs; set S := (\sum_(j < n | j != i) size (fac i j))%N => hs.
lia.
Qed.

Definition interp (y : 'I_n -> F) : {poly F} := \sum_(i < n) y i *: ell i.

Lemma interp_at y k : (interp y).[x k] = y k.
Proof.
rewrite /interp horner_sum (bigD1 k) //= hornerZ ell_self mulr1 big1 ?addr0 //.
by move=> i ik; rewrite hornerZ ell_other ?mulr0 // eq_sym.
Qed.

Lemma size_interp y : (size (interp y) <= n)%N.
Proof.
apply: leq_trans (size_sum _ _ _) _.
apply/bigmax_leqP => i _.
by apply: leq_trans (size_scale_leq _ _) (size_ell i).
Qed.

Theorem interp_unique (f : {poly F}) :
  (size f <= n)%N -> interp (fun i => f.[x i]) = f.
Proof.
move=> sf; apply/eqP; rewrite -subr_eq0; apply/eqP.
set d := _ - f.
have sd : (size d <= n)%N.
  apply: leq_trans (size_add _ _) _; rewrite size_opp geq_max sf andbT.
  exact: size_interp.
apply/eqP; apply: contraT => dn0.
have rs : all (root d) [seq x i | i <- enum 'I_n].
  apply/allP => _ /mapP [i _ ->].
  by rewrite /root /d hornerD hornerN interp_at subrr.
have us : uniq [seq x i | i <- enum 'I_n].
  by rewrite map_inj_uniq // enum_uniq.
have := max_poly_roots dn0 rs us.
by rewrite size_map size_enum_ord ltnNge sd.
Qed.

Definition lagrange0 (y : 'I_n -> F) : F :=
  \sum_(i < n) y i * \prod_(j < n | j != i) (x j / (x j - x i)).

Theorem lagrange0_correct (f : {poly F}) :
  (size f <= n)%N -> lagrange0 (fun i => f.[x i]) = f.[0].
Proof.
move=> sf; rewrite -{2}(interp_unique sf) /interp /lagrange0 horner_sum.
apply: eq_bigr => i _; rewrite hornerZ; congr (_ * _).
rewrite /ell horner_prod; apply: eq_bigr => j ji.
rewrite /fac hornerZ hornerXsubC sub0r mulrC.
rewrite -[x j - x i]opprB invrN mulrN mulNr. by [].
Qed.
End Lagrange.

(* ---------- Z modulo a prime as the MathComp field 'F_p ---------- *)
Lemma prime_Z2nat (r : Z) : Znumtheory.prime r -> prime (Z.to_nat r).
Proof.
move=> pr; have r2 := prime_ge_2 _ pr.
apply/primeP; split; first by lia.
move=> d /dvdnP [k Hk].
have dv : (Z.of_nat d | r)%coqZ.
  exists (Z.of_nat k); rewrite -[r]Z2Nat.id; last by lia.
  by rewrite Hk; lia.
by case: (prime_divisors _ pr _ dv) => [|[|[|]]] H; apply/orP; lia.
Qed.

Section Bridge.
Variable r : Z.
Hypothesis pr : Znumtheory.prime r.
Let p := Z.to_nat r.
Let pp : prime p := prime_Z2nat pr.
Let r2 : (2 <= r)%coqZ := prime_ge_2 _ pr.

Definition phi (z : Z) : 'F_p := (int_of_Z z)%:~R.

Lemma phiD a b : phi (a + b)%coqZ = phi a + phi b.
Proof. by rewrite /phi; have -> : (a + b)%coqZ = (a + b)%R by []; rewrite !rmorphD. Qed.
Lemma phiM a b : phi (a * b)%coqZ = phi a * phi b.
Proof. by rewrite /phi; have -> : (a * b)%coqZ = (a * b)%R by []; rewrite !rmorphM. Qed.
Lemma phiN a : phi (- a)%coqZ = - phi a.
Proof. by rewrite /phi; have -> : (- a)%coqZ = (- a)%R by []; rewrite !rmorphN. Qed.
Lemma phiB a b : phi (a - b)%coqZ = phi a - phi b.
Proof. by rewrite -phiN -phiD. Qed.
Lemma phi0 : phi 0 = 0. Proof. by []. Qed.
Lemma phi1 : phi 1 = 1. Proof. by rewrite /phi /=. Qed.

Lemma phi_nat (z : Z) : (0 <= z)%coqZ -> phi z = (Z.to_nat z)%:R.
Proof. by case: z => //= q _; rewrite /phi /= -pmulrn. Qed.

Lemma phi_r : phi r = 0.
Proof. by rewrite phi_nat; [exact: char_Fp_0 | lia]. Qed.

Lemma phi_mod a : phi (a mod r)%coqZ = phi a.
Proof.
rewrite Z.mod_eq; last by lia.
by rewrite phiB phiM phi_r mul0r subr0.
Qed.

Lemma phi_inj a b : phi a = phi b -> (a mod r = b mod r)%coqZ.
Proof.
rewrite -(phi_mod a) -(phi_mod b).
have ha := Z.mod_pos_bound a r ltac:(lia).
have hb := Z.mod_pos_bound b r ltac:(lia).
rewrite !phi_nat; try lia.
move/(congr1 (@nat_of_ord _)); rewrite !val_Fp_nat // !modn_small; lia.
Qed.

Lemma phi_eq0 a : phi a = 0 -> (a mod r = 0)%coqZ.
Proof. by rewrite -phi0 => /phi_inj; rewrite Z.mod_0_l; lia. Qed.


(* ---------- stdlib list functions as seq functions ---------- *)
Lemma nthE (T : Type) (d : T) (s : seq T) j : List.nth j s d = nth d s j.
Proof. by elim: s j => [|a s IH] [|j] //=. Qed.
Lemma seqE a n : List.seq a n = iota a n.
Proof. by elim: n a => //= n IH a; rewrite IH. Qed.
Lemma lengthE (T : Type) (s : seq T) : List.length s = size s.
Proof. by elim: s => //= a s ->. Qed.
Lemma mapE (A B : Type) (f : A -> B) s : List.map f s = map f s.
Proof. by elim: s => //= a s ->. Qed.
Lemma eqbE i j : Nat.eqb i j = (i == j).
Proof. by apply/idP/eqP => /Nat.eqb_eq. Qed.

Lemma horner_phi cs a : (Poly (map phi cs)).[phi a] = phi (eval cs a).
Proof.
rewrite horner_Poly; elim: cs => [|c cs IH] //=.
by rewrite IH phiD phiM addrC mulrC.
Qed.

Section Combine.
Variable valid : seq (Z * Z).
Let xs := List.map fst valid.
Let n := size valid.
Let X j : 'F_p := phi (nth 0%coqZ xs j).
Let Y j : 'F_p := phi (nth (0, 0)%coqZ valid j).2.
Hypothesis X_inj : forall i j, (i < n)%N -> (j < n)%N -> X i = X j -> i = j.

Lemma size_xs : size xs = n.
Proof. by rewrite /xs mapE size_map. Qed.

Lemma basis_fold i xi s nd :
  let res := List.fold_left (basis_step r i xs xi) s nd in
  phi res.1 = phi nd.1 * \prod_(j <- s | j != i) X j /\
  phi res.2 = phi nd.2 * \prod_(j <- s | j != i) (X j - phi xi).
Proof.
elim: s nd => [|j s IH] nd /=; first by rewrite !big_nil !mulr1.
rewrite !big_cons /basis_step eqbE [i == j]eq_sym.
case: (j == i) => /=; first exact: IH.
have [-> ->] := IH ((nd.1 * List.nth j xs 0) mod r, (nd.2 * (List.nth j xs 0 - xi)) mod r)%coqZ.
by rewrite /= !phi_mod !phiM phiB nthE !mulrA.
Qed.

Definition lam i : 'F_p := \prod_(j <- iota 0 n | j != i) (X j / (X j - X i)).

Lemma lagrange_basis_ok i : (i < n)%N ->
  exists b, [/\ lagrange_basis r i xs = Some b, (b mod r = b)%coqZ & phi b = lam i].
Proof.
move=> lt_i; rewrite /lagrange_basis /basis_numden nthE lengthE seqE size_xs.
have := basis_fold i (nth 0%coqZ xs i) (iota 0 n) (1%coqZ, 1%coqZ).
set res := List.fold_left _ _ _ => /=; rewrite phi1 !mul1r => -[Hn Hd].
have den_neq0 : phi res.2 != 0.
  rewrite Hd prodf_seq_neq0; apply/allP => j; rewrite mem_iota add0n => /andP[_ ltj].
  apply/implyP => ji; rewrite subr_eq0; apply/eqP => e.
  by move: ji; rewrite (X_inj ltj lt_i e) eqxx.
have res2 : (res.2 mod r <> 0)%coqZ.
  by move=> e; move: den_neq0; rewrite -phi_mod e phi0 eqxx.
have [inv Hinv] := mod_inverse_complete _ _ pr res2.
have r0 : (0 < r)%coqZ by lia.
have [Hs _] := mod_inverse_sound _ _ _ r0 Hinv.
rewrite Hinv; exists ((res.1 * inv) mod r)%coqZ; split=> //.
  by rewrite Z.mod_mod; lia.
have Hi : phi res.2 * phi inv = 1 by rewrite -phiM -phi_mod Hs phi_mod phi1.
have -> : phi ((res.1 * inv) mod r)%coqZ = phi res.1 / phi res.2.
  rewrite phi_mod phiM; congr (_ * _).
  by apply: (mulfI den_neq0); rewrite Hi divff.
by rewrite Hn Hd /lam prodf_div.
Qed.

Lemma combine_fold s a : all (fun i => i < n)%N s -> (a mod r = a)%coqZ ->
  exists a', [/\ List.fold_left (combine_step r valid) s (Ok a) = Ok a', (a' mod r = a')%coqZ &
              phi a' = phi a + \sum_(i <- s) lam i * Y i].
Proof.
elim: s a => [|i s IH] a /=.
  by move=> _ Ha; exists a; split=> //; rewrite big_nil addr0.
case/andP=> lti alls Ha.
have [b [Hb _ Hphib]] := lagrange_basis_ok lti.
rewrite -/xs Hb.
set a1 := ((a + b * _) mod r)%coqZ.
have Ha1 : (a1 mod r = a1)%coqZ by rewrite /a1 Z.mod_mod; lia.
have [a' [H1 H2 H3]] := IH a1 alls Ha1.
exists a'; split=> //.
by rewrite H3 /a1 phi_mod phiD phiM big_cons nthE Hphib addrA.
Qed.

Theorem combine_correct_F (cs : seq Z) :
  (size cs <= n)%N ->
  (forall i, (i < n)%N -> Y i = phi (eval cs (nth 0%coqZ xs i))) ->
  combine_shares r valid = Ok (List.nth 0 cs 0%coqZ mod r)%coqZ.
Proof.
move=> scs HY; rewrite /combine_shares lengthE seqE.
have alln : all (fun i => i < n)%N (iota 0 n).
  by apply/allP => i; rewrite mem_iota add0n => /andP[].
have [a' [-> Hm Hphi]] := combine_fold alln (Z.mod_0_l r ltac:(lia)).
congr Ok; rewrite -Hm; apply: phi_inj.
rewrite Hphi phi0 add0r.
pose x (i : 'I_n) : 'F_p := X i.
have x_inj : injective x.
  by move=> i j /(X_inj (ltn_ord i) (ltn_ord j)) /ord_inj.
pose f := Poly (map phi cs).
have sf : (size f <= n)%N.
  by apply: leq_trans (size_Poly _) _; rewrite size_map.
have := lagrange0_correct x_inj sf; rewrite /lagrange0.
have -> : f.[0] = phi (List.nth 0 cs 0%coqZ).
  by rewrite /f horner_Poly; case: (cs) => [|c cs'] //=; rewrite mulr0 add0r.
move<-.
rewrite -{1}[n]subn0 -/(index_iota 0 n) big_mkord.
apply: eq_bigr => i _; rewrite mulrC; congr (_ * _).
  by rewrite HY // /f /x /X horner_phi.
rewrite /lam -{1}[n]subn0 -/(index_iota 0 n) big_mkord.
by apply: eq_bigl => j.
Qed.
End Combine.
End Bridge.

(* ---------- exported in plain terms ---------- *)
Theorem combine_correct (r : Z) : Znumtheory.prime r ->
  forall (valid : list (Z * Z)) (cs : list Z),
  (forall i j, Nat.lt i (List.length valid) -> Nat.lt j (List.length valid) ->
     (fst (List.nth i valid (0, 0)) mod r = fst (List.nth j valid (0, 0)) mod r)%coqZ -> i = j) ->
  Nat.le (List.length cs) (List.length valid) ->
  (forall i, Nat.lt i (List.length valid) ->
     (snd (List.nth i valid (0, 0)) mod r = eval cs (fst (List.nth i valid (0, 0))) mod r)%coqZ) ->
  combine_shares r valid = Ok (List.nth 0 cs 0 mod r)%coqZ.
Proof.
move=> pr valid cs Hinj Hlen Hsh.
have xsE i : (i < size valid)%N ->
    nth 0%coqZ (List.map fst valid) i = (List.nth i valid (0, 0)%coqZ).1.
  by move=> lti; rewrite mapE (nth_map (0, 0)%coqZ) // nthE.
apply: (combine_correct_F pr).
- move=> i j lti ltj e; apply: Hinj; rewrite ?lengthE; try lia.
  by rewrite -!xsE //; apply: (phi_inj pr).
- by move: Hlen; rewrite !lengthE; lia.
- move=> i lti; rewrite xsE // -nthE -[LHS](phi_mod pr) -[RHS](phi_mod pr).
  by rewrite Hsh // lengthE; lia.
Qed.

(* Fermat's little theorem over Z (used by Proofs/C04) *)
Theorem fermat_Z (r : Z) : Znumtheory.prime r ->
  forall a, (a mod r <> 0)%coqZ -> ((a ^ (r - 1)) mod r = 1)%coqZ.
Proof.
move=> pr a Ha; have r2 := prime_ge_2 _ pr.
have pp := prime_Z2nat pr.
pose k := Z.to_nat (r - 1).
have -> : (r - 1 = Z.of_nat k)%coqZ by lia.
have phi_pow m : phi r (a ^ Z.of_nat m)%coqZ = phi r a ^+ m.
  elim: m => [|m IH]; first by rewrite expr0 -(phi1 r).
  by rewrite Nat2Z.inj_succ Z.pow_succ_r ?phiM ?IH ?exprS //; lia.
have a0 : phi r a != 0.
  by apply/eqP => /(phi_eq0 pr).
have Hk : phi r a ^+ k = 1.
  apply: (mulfI a0); rewrite -exprS mulr1.
  have -> : k.+1 = #|[finType of 'F_(Z.to_nat r)]| by rewrite card_Fp //; lia.
  exact: expf_card.
have := phi_inj pr (a := (a ^ Z.of_nat k)%coqZ) (b := 1%coqZ).
rewrite phi_pow Hk phi1 => /(_ erefl) ->.
by rewrite Z.mod_small; lia.
Qed.
