(* C22 — proofs about the model of getSeed / getLeader / getActionsChecklist (Model/C22.v).
   The statements restated in Props/C22.v are the theorems at the end of each part. *)
From Coq Require Import ZArith NArith List Bool Lia Permutation Sorted.
From Coq Require Import ZifyBool ZifyNat ZifyN.
From KV Require Import Common.Verdict Common.GoRand Gen.Consts_C22 Model.C22 Proofs.GoRand.
Import ListNotations.
Open Scope Z_scope.

(* ------------------------------------------------------------------ *)
(* strictly sorted lists                                               *)
(* ------------------------------------------------------------------ *)

Lemma SSorted_lt_ext (l1 : list N) : forall l2,
  StronglySorted N.lt l1 -> StronglySorted N.lt l2 ->
  (forall x, In x l1 <-> In x l2) -> l1 = l2.
Proof.
  induction l1 as [|a t1 IH]; intros l2 S1 S2 Hin.
  - destruct l2 as [|b t2]; [reflexivity|].
    exfalso. apply (proj2 (Hin b)). left; reflexivity.
  - destruct l2 as [|b t2].
    + exfalso. apply (proj1 (Hin a)). left; reflexivity.
    + inversion S1 as [|a' t1' S1' F1]; subst. inversion S2 as [|b' t2' S2' F2]; subst.
      rewrite Forall_forall in F1, F2.
      assert (a = b) as ->.
      { destruct (proj1 (Hin a) (or_introl eq_refl)) as [E|Ha]; [symmetry; exact E|].
        destruct (proj2 (Hin b) (or_introl eq_refl)) as [E|Hb]; [exact E|].
        specialize (F1 b Hb). specialize (F2 a Ha). lia. }
      f_equal. apply IH; [exact S1'|exact S2'|].
      intro x; split; intro Hx.
      * destruct (proj1 (Hin x) (or_intror Hx)) as [E|Hx2]; [|exact Hx2].
        specialize (F1 x Hx). lia.
      * destruct (proj2 (Hin x) (or_intror Hx)) as [E|Hx1]; [|exact Hx1].
        specialize (F2 x Hx). lia.
Qed.

Lemma insert_uniq_In (x : N) (l : list N) (y : N) :
  In y (insert_uniq x l) <-> y = x \/ In y l.
Proof.
  induction l as [|z t IH]; cbn [insert_uniq].
  - cbn [In]. intuition.
  - destruct (N.ltb_spec x z) as [Hlt|Hge].
    + cbn [In]. intuition.
    + destruct (N.eqb_spec x z) as [->|Hne].
      * cbn [In]. intuition.
      * cbn [In]. rewrite IH. intuition.
Qed.

Lemma insert_uniq_sorted (x : N) (l : list N) :
  StronglySorted N.lt l -> StronglySorted N.lt (insert_uniq x l).
Proof.
  induction 1 as [|z t S IH F]; cbn [insert_uniq].
  - constructor; constructor.
  - rewrite Forall_forall in F.
    destruct (N.ltb_spec x z) as [Hlt|Hge].
    + constructor; [constructor; [exact S|apply Forall_forall; exact F]|].
      apply Forall_forall. intros y [<-|Hy]; [exact Hlt|].
      specialize (F y Hy). lia.
    + destruct (N.eqb_spec x z) as [->|Hne].
      * constructor; [exact S|apply Forall_forall; exact F].
      * constructor; [exact IH|]. apply Forall_forall. intros y Hy.
        apply insert_uniq_In in Hy. destruct Hy as [->|Hy]; [lia|exact (F y Hy)].
Qed.

Lemma sort_uniq_sorted (l : list N) : StronglySorted N.lt (sort_uniq l).
Proof.
  unfold sort_uniq. induction l as [|a t IH]; cbn [fold_right]; [constructor|].
  apply insert_uniq_sorted; exact IH.
Qed.

Lemma sort_uniq_In (l : list N) (x : N) : In x (sort_uniq l) <-> In x l.
Proof.
  unfold sort_uniq. induction l as [|a t IH]; cbn [fold_right]; [reflexivity|].
  rewrite insert_uniq_In, IH. cbn [In]. intuition.
Qed.

(* the sorted list of distinct members depends on the SET of members only *)
Lemma sort_uniq_ext (l l' : list N) :
  (forall x, In x l <-> In x l') -> sort_uniq l = sort_uniq l'.
Proof.
  intro H. apply SSorted_lt_ext; try apply sort_uniq_sorted.
  intro x. rewrite !sort_uniq_In. apply H.
Qed.

Lemma memN_In (x : N) (l : list N) : memN x l = true <-> In x l.
Proof.
  unfold memN. rewrite existsb_exists. split.
  - intros [y [Hy E]]. apply N.eqb_eq in E. subst; exact Hy.
  - intro H. exists x. split; [exact H|apply N.eqb_refl].
Qed.

Lemma memZ_In (x : Z) (l : list Z) : memZ x l = true <-> In x l.
Proof.
  unfold memZ. rewrite existsb_exists. split.
  - intros [y [Hy E]]. apply Z.eqb_eq in E. subst; exact Hy.
  - intro H. exists x. split; [exact H|apply Z.eqb_refl].
Qed.

Lemma listZ_eqb_eq (a : list Z) : forall b, listZ_eqb a b = true <-> a = b.
Proof.
  induction a as [|x a IH]; intros [|y b]; cbn [listZ_eqb]; try (split; [discriminate|discriminate]).
  - split; reflexivity.
  - rewrite andb_true_iff, Z.eqb_eq, IH. split; [intros [-> ->]; reflexivity|intro E; inversion E; auto].
Qed.

Lemma lres_eqb_eq (a b : lres) : lres_eqb a b = true <-> a = b.
Proof.
  destruct a as [x|], b as [y|]; cbn [lres_eqb]; try (split; [discriminate|discriminate]).
  - rewrite N.eqb_eq. split; [intros ->; reflexivity|intro E; inversion E; reflexivity].
  - split; reflexivity.
Qed.

(* ------------------------------------------------------------------ *)
(* getLeader                                                           *)
(* ------------------------------------------------------------------ *)

Section LeaderFacts.
  Variable rngT : Type.
  Variable shuffle : rngT -> list N -> list N.
  Variable iter : list N -> list N.
  Hypothesis iter_perm : forall l, Permutation (iter l) l.

  Lemma unique_operators_In (ops : list N) (x : N) :
    In x (unique_operators iter ops) <-> In x ops.
  Proof.
    unfold unique_operators. rewrite sort_uniq_In. rewrite <- (nodup_In N.eq_dec ops x).
    split; apply Permutation_in; [apply iter_perm|apply Permutation_sym, iter_perm].
  Qed.

  Lemma leader_in_operators_sec :
    (forall g l, Permutation (shuffle g l) l) ->
    forall g ops, ops <> [] ->
      exists o, get_leader rngT shuffle iter g ops = Leader o /\ In o ops.
  Proof.
    intros Hsh g ops Hne. unfold get_leader.
    destruct (shuffle g (unique_operators iter ops)) as [|o t] eqn:E.
    - exfalso. destruct ops as [|a ops']; [apply Hne; reflexivity|].
      assert (Ha : In a (unique_operators iter (a :: ops'))).
      { apply unique_operators_In. left; reflexivity. }
      apply (Permutation_in _ (Permutation_sym (Hsh g _))) in Ha. rewrite E in Ha. exact Ha.
    - exists o. split; [reflexivity|].
      apply unique_operators_In. apply (Permutation_in _ (Hsh g _)). rewrite E. left; reflexivity.
  Qed.
End LeaderFacts.

Theorem leader_in_operators :
  forall (rngT : Type) (shuffle : rngT -> list N -> list N) (iter : list N -> list N),
    (forall g l, Permutation (shuffle g l) l) ->
    (forall l, Permutation (iter l) l) ->
    forall g ops, ops <> [] ->
      exists o, get_leader rngT shuffle iter g ops = Leader o /\ In o ops.
Proof. intros rngT shuffle iter Hs Hi. apply leader_in_operators_sec; assumption. Qed.

(* operator lists with the same SET of operators (any order, any repetition, any two map
   iteration orders) yield the same sorted list of distinct operators, hence the same leader *)
Theorem unique_operators_invariant :
  forall (iter iter' : list N -> list N),
    (forall l, Permutation (iter l) l) -> (forall l, Permutation (iter' l) l) ->
    forall ops ops', (forall x, In x ops <-> In x ops') ->
      unique_operators iter ops = unique_operators iter' ops'.
Proof.
  intros iter iter' Hi Hi' ops ops' Hset. apply SSorted_lt_ext.
  - apply sort_uniq_sorted.
  - apply sort_uniq_sorted.
  - intro x. rewrite (unique_operators_In iter Hi), (unique_operators_In iter' Hi'). apply Hset.
Qed.

Theorem leader_invariant_under_permutation_and_repetition :
  forall (rngT : Type) (shuffle : rngT -> list N -> list N) (iter iter' : list N -> list N),
    (forall l, Permutation (iter l) l) -> (forall l, Permutation (iter' l) l) ->
    forall g ops ops', (forall x, In x ops <-> In x ops') ->
      get_leader rngT shuffle iter g ops = get_leader rngT shuffle iter' g ops'.
Proof.
  intros rngT shuffle iter iter' Hi Hi' g ops ops' Hset. unfold get_leader.
  rewrite (unique_operators_invariant iter iter' Hi Hi' ops ops' Hset). reflexivity.
Qed.

(* in particular for a permutation of the seat list *)
Corollary leader_invariant_under_permutation :
  forall (rngT : Type) (shuffle : rngT -> list N -> list N) (iter : list N -> list N),
    (forall l, Permutation (iter l) l) ->
    forall g ops ops', Permutation ops ops' ->
      get_leader rngT shuffle iter g ops = get_leader rngT shuffle iter g ops'.
Proof.
  intros rngT shuffle iter Hi g ops ops' P.
  apply leader_invariant_under_permutation_and_repetition; try assumption.
  intro x; split; apply Permutation_in; [exact P|apply Permutation_sym, P].
Qed.

(* the panic of uniqueOperators[0] happens exactly for a wallet without operators *)
Theorem leader_panics_iff_no_operators :
  forall (rngT : Type) (shuffle : rngT -> list N -> list N) (iter : list N -> list N),
    (forall g l, Permutation (shuffle g l) l) ->
    (forall l, Permutation (iter l) l) ->
    forall g ops, get_leader rngT shuffle iter g ops = LPanic <-> ops = [].
Proof.
  intros rngT shuffle iter Hs Hi g ops. split.
  - intro H. destruct ops as [|a t]; [reflexivity|].
    destruct (leader_in_operators rngT shuffle iter Hs Hi g (a :: t)) as [o [E _]]; [discriminate|].
    rewrite E in H. discriminate.
  - intros ->. unfold get_leader.
    assert (E : unique_operators iter [] = []).
    { destruct (unique_operators iter []) as [|x t] eqn:E; [reflexivity|].
      exfalso. apply (proj1 (unique_operators_In iter Hi [] x)). rewrite E. left; reflexivity. }
    rewrite E. pose proof (Hs g []) as P. apply Permutation_sym, Permutation_nil in P.
    rewrite P. reflexivity.
Qed.

(* ------------------------------------------------------------------ *)
(* getActionsChecklist                                                 *)
(* ------------------------------------------------------------------ *)

(* the Go action-type constants are pairwise distinct (re-checked against the regenerated
   constants file on every run) *)
Lemma action_constants_distinct :
  NoDup [ActionRedemption; ActionDepositSweep; ActionMovedFundsSweep; ActionMovingFunds;
         ActionHeartbeat].
Proof.
  repeat constructor; cbn [In]; unfold ActionRedemption, ActionDepositSweep,
    ActionMovedFundsSweep, ActionMovingFunds, ActionHeartbeat; intuition discriminate.
Qed.

Theorem checklist_zero : forall hb, checklist 0 hb = [].
Proof. reflexivity. Qed.

Theorem checklist_shape :
  forall idx hb, idx <> 0 ->
    exists rest,
      checklist idx hb = ActionRedemption :: rest /\
      (In ActionDepositSweep rest <-> idx mod 4 = 0) /\
      (In ActionMovedFundsSweep rest <-> idx mod 4 = 0) /\
      (In ActionMovingFunds rest <-> idx mod 4 = 0) /\
      (In ActionHeartbeat rest <-> hb = true) /\
      (forall a, In a rest -> a = ActionDepositSweep \/ a = ActionMovedFundsSweep \/
                              a = ActionMovingFunds \/ a = ActionHeartbeat) /\
      NoDup (checklist idx hb).
Proof.
  intros idx hb Hne. unfold checklist, frequency_windows.
  destruct (Z.eqb_spec idx 0) as [E|_]; [contradiction|].
  pose proof action_constants_distinct as ND.
  unfold ActionRedemption, ActionDepositSweep, ActionMovedFundsSweep, ActionMovingFunds,
    ActionHeartbeat in *.
  destruct (Z.eqb_spec (idx mod 4) 0) as [E4|N4]; destruct hb; cbn [app];
    eexists; (split; [reflexivity|]); cbn [In];
    repeat split; intros; try tauto; try lia; try discriminate;
    try (repeat constructor; cbn [In]; intuition discriminate).
Qed.

(* the exact list *)
Theorem checklist_exact :
  forall idx hb, idx <> 0 ->
    checklist idx hb =
      ActionRedemption ::
      (if idx mod 4 =? 0 then [ActionDepositSweep; ActionMovedFundsSweep; ActionMovingFunds] else [])
      ++ (if hb then [ActionHeartbeat] else []).
Proof.
  intros idx hb Hne. unfold checklist, frequency_windows.
  destruct (Z.eqb_spec idx 0) as [E|_]; [contradiction|].
  destruct (idx mod 4 =? 0); reflexivity.
Qed.

(* the heartbeat is added exactly by the seeded draw: f < p, with the float f = draw / 2^63
   and p = p_num / 2^p_log *)
Lemma heartbeat_in_checklist :
  forall idx hb, idx <> 0 -> (In ActionHeartbeat (checklist idx hb) <-> hb = true).
Proof.
  intros idx hb Hne.
  destruct (checklist_shape idx hb Hne) as [rest [E [_ [_ [_ [Hhb [_ ND]]]]]]].
  rewrite E. cbn [In]. rewrite <- Hhb. split; [|tauto].
  intros [Heq|Hin]; [|exact Hin].
  exfalso. pose proof action_constants_distinct as D.
  inversion D as [|? ? Hn _]. apply Hn. rewrite Heq. cbn [In]. tauto.
Qed.

Theorem heartbeat_by_seeded_draw :
  forall idx seed p_num p_log, idx <> 0 ->
    (In ActionHeartbeat (Concrete.get_actions_checklist idx seed p_num p_log) <->
     fst (float64_draw (rng_seed (seed_int64 seed))) * 2 ^ p_log < p_num * two63).
Proof.
  intros idx seed pn pl Hne. unfold Concrete.get_actions_checklist, Concrete.heartbeat.
  generalize (fst (float64_draw (rng_seed (seed_int64 seed)))). intro d.
  rewrite (heartbeat_in_checklist idx _ Hne). unfold draw_lt. apply Z.ltb_lt.
Qed.

(* ------------------------------------------------------------------ *)
(* the whole view of one member                                        *)
(* ------------------------------------------------------------------ *)

Theorem members_agree :
  forall (hash : list N -> list N) (block_hash : Z -> list N) (rngT : Type) (mkrng : Z -> rngT)
         (shuffle : rngT -> list N -> list N) (heartbeat_of : rngT -> bool)
         (iter iter' : list N -> list N),
    (forall l, Permutation (iter l) l) -> (forall l, Permutation (iter' l) l) ->
    forall pkh block ops ops', (forall x, In x ops <-> In x ops') ->
      member_view hash block_hash rngT mkrng shuffle heartbeat_of iter pkh block ops =
      member_view hash block_hash rngT mkrng shuffle heartbeat_of iter' pkh block ops'.
Proof.
  intros hash bh rngT mkrng shuffle hbo iter iter' Hi Hi' pkh block ops ops' Hset.
  unfold member_view. f_equal.
  apply leader_invariant_under_permutation_and_repetition; assumption.
Qed.

Theorem member_view_sound :
  forall (hash : list N -> list N) (block_hash : Z -> list N) (rngT : Type) (mkrng : Z -> rngT)
         (shuffle : rngT -> list N -> list N) (heartbeat_of : rngT -> bool)
         (iter : list N -> list N),
    (forall g l, Permutation (shuffle g l) l) -> (forall l, Permutation (iter l) l) ->
    forall pkh block ops, ops <> [] -> window_index block <> 0 ->
      exists o rest,
        member_view hash block_hash rngT mkrng shuffle heartbeat_of iter pkh block ops =
          (Leader o, ActionRedemption :: rest) /\ In o ops.
Proof.
  intros hash bh rngT mkrng shuffle hbo iter Hs Hi pkh block ops Hne Hidx. unfold member_view.
  destruct (leader_in_operators rngT shuffle iter Hs Hi
              (mkrng (seed_int64 (get_seed hash bh pkh block))) ops Hne) as [o [E Hin]].
  destruct (checklist_shape (window_index block)
              (hbo (mkrng (seed_int64 (get_seed hash bh pkh block)))) Hidx) as [rest [Ec _]].
  exists o, rest. rewrite E, Ec. split; [reflexivity|exact Hin].
Qed.

(* the window index is positive exactly at positive multiples of the coordination frequency *)
Theorem window_index_spec :
  forall block, 0 <= block ->
    (window_index block <> 0 <->
     exists k, 0 < k /\ block = k * coordinationFrequencyBlocks) /\
    (forall k, 0 <= k -> window_index (k * coordinationFrequencyBlocks) = k).
Proof.
  intros block Hb. unfold window_index, coordinationFrequencyBlocks. split.
  - destruct (Z.eqb_spec (block mod 900) 0) as [E|NE].
    + split.
      * intro Hd. exists (block / 900). split; [|lia].
        assert (block / 900 <> 0) by exact Hd. assert (0 <= block / 900) by (apply Z.div_pos; lia). lia.
      * intros [k [Hk ->]]. rewrite Z.div_mul by lia. lia.
    + split; [intro H; exfalso; apply H; reflexivity|].
      intros [k [Hk ->]]. exfalso. apply NE. apply Z.mod_mul. lia.
  - intros k Hk. rewrite Z.mod_mul by lia. cbn [Z.eqb]. apply Z.div_mul. lia.
Qed.

(* ------------------------------------------------------------------ *)
(* the concrete permutation source                                     *)
(* ------------------------------------------------------------------ *)

Lemma concrete_shuffle_perm : forall (g : rng) (l : list N), Permutation (Concrete.shuffle g l) l.
Proof. intros g l. unfold Concrete.shuffle. apply shuffle_with_perm. Qed.

Lemma concrete_iter_perm : forall l : list N, Permutation (Concrete.iter l) l.
Proof. intro l. apply Permutation_refl. Qed.

Theorem concrete_leader :
  forall seed ops ops',
    ops <> [] -> (forall x, In x ops <-> In x ops') ->
    exists o, Concrete.get_leader seed ops = Leader o /\ Concrete.get_leader seed ops' = Leader o /\
              In o ops /\ In o ops'.
Proof.
  intros seed ops ops' Hne Hset. unfold Concrete.get_leader.
  destruct (leader_in_operators rng Concrete.shuffle Concrete.iter concrete_shuffle_perm
              concrete_iter_perm (rng_seed (seed_int64 seed)) ops Hne) as [o [E Hin]].
  exists o. split; [exact E|]. split; [|split; [exact Hin|apply Hset, Hin]].
  rewrite <- E. symmetry.
  apply leader_invariant_under_permutation_and_repetition;
    [apply concrete_iter_perm|apply concrete_iter_perm|exact Hset].
Qed.

(* ------------------------------------------------------------------ *)
(* the executable form of the property                                 *)
(* ------------------------------------------------------------------ *)

(* the shape the property demands of a checklist, as a proposition *)
Definition checklist_shape_prop (idx : Z) (hb : bool) (l : list Z) : Prop :=
  exists rest,
    l = ActionRedemption :: rest /\
    (In ActionDepositSweep rest <-> idx mod 4 = 0) /\
    (In ActionMovedFundsSweep rest <-> idx mod 4 = 0) /\
    (In ActionMovingFunds rest <-> idx mod 4 = 0) /\
    (In ActionHeartbeat rest <-> hb = true) /\
    (forall a, In a rest -> a = ActionDepositSweep \/ a = ActionMovedFundsSweep \/
                            a = ActionMovingFunds \/ a = ActionHeartbeat).

Lemma eqb_true_iff_memZ (x : Z) (l : list Z) (b : bool) :
  Bool.eqb (memZ x l) b = true -> (In x l <-> b = true).
Proof. intro H. apply eqb_prop in H. rewrite <- H. symmetry. apply memZ_In. Qed.

Lemma checklist_ok_sound (idx : Z) (hb : bool) (l : list Z) :
  idx <> 0 -> checklist_ok idx hb l = true -> checklist_shape_prop idx hb l.
Proof.
  intros Hne H. unfold checklist_ok in H.
  destruct (Z.eqb_spec idx 0) as [E|_]; [contradiction|].
  destruct l as [|a rest]; [discriminate|].
  repeat rewrite andb_true_iff in H. destruct H as [[[[[Ha H1] H2] H3] H4] H5].
  apply Z.eqb_eq in Ha. subst a. exists rest. split; [reflexivity|].
  apply eqb_true_iff_memZ in H1, H2, H3, H4. rewrite Z.eqb_eq in H1, H2, H3.
  repeat split; try tauto.
  intros a Ha. rewrite forallb_forall in H5. specialize (H5 a Ha).
  apply memZ_In in H5. cbn [In] in H5. intuition.
Qed.

Lemma checklist_ok_model (idx : Z) (hb : bool) : checklist_ok idx hb (checklist idx hb) = true.
Proof.
  unfold checklist_ok, checklist, frequency_windows.
  destruct (Z.eqb_spec idx 0) as [E|NE]; [reflexivity|].
  destruct (idx mod 4 =? 0); destruct hb; reflexivity.
Qed.

(* what spec_ok = true means *)
Definition spec_prop (c : case) : Prop :=
  (forall v, In v (c_views c) -> v_ops v <> [] ->
     exists o, v_leader v = Leader o /\ In o (v_ops v)) /\
  (forall v v', In v (c_views c) -> In v' (c_views c) ->
     v_leader v = v_leader v' /\ v_checklist v = v_checklist v') /\
  (c_index c <> 0 ->
   forall v, In v (c_views c) ->
     checklist_shape_prop (c_index c) (draw_lt (c_draw c) (c_p_num c) (c_p_log c)) (v_checklist v)).

Theorem spec_ok_sound : forall c, spec_ok c = true -> spec_prop c.
Proof.
  intros c H. unfold spec_ok in H. unfold spec_prop.
  destruct (c_views c) as [|v0 rest] eqn:Ev.
  - cbn [In]. repeat split; intros; contradiction.
  - repeat rewrite andb_true_iff in H. destruct H as [[[Hl Hsame] Hcl] Hshape].
    rewrite forallb_forall in Hl, Hsame, Hcl.
    assert (Hall : forall v, In v (v0 :: rest) ->
              v_leader v = v_leader v0 /\ v_checklist v = v_checklist v0).
    { intros v [<-|Hv]; [split; reflexivity|]. split.
      - apply lres_eqb_eq, Hsame, Hv.
      - apply listZ_eqb_eq, Hcl, Hv. }
    split; [|split].
    + intros v Hv Hne. specialize (Hl v Hv). unfold leader_ok in Hl.
      destruct (v_ops v) as [|a t] eqn:Eo; [contradiction|].
      destruct (v_leader v) as [o|]; [|discriminate].
      exists o. split; [reflexivity|]. apply memN_In. exact Hl.
    + intros v v' Hv Hv'. destruct (Hall v Hv) as [A B]. destruct (Hall v' Hv') as [A' B'].
      rewrite A, A', B, B'. split; reflexivity.
    + intros Hidx v Hv. destruct (Hall v Hv) as [_ B]. rewrite B.
      apply checklist_ok_sound; assumption.
Qed.

Lemma same_set_In (a b : list N) : same_set a b = true -> forall x, In x a <-> In x b.
Proof.
  unfold same_set. rewrite andb_true_iff, !forallb_forall. intros [H1 H2] x. split; intro Hx.
  - apply memN_In, H1, Hx.
  - apply memN_In, H2, Hx.
Qed.

Lemma forallb_map {A B} (f : B -> bool) (g : A -> B) (l : list A) :
  forallb f (map g l) = forallb (fun x => f (g x)) l.
Proof. induction l as [|a t IH]; cbn [map forallb]; [reflexivity|rewrite IH; reflexivity]. Qed.

(* every case produced by the model for views over the same operator set passes spec_ok *)
Theorem model_outputs_pass_spec :
  forall block seed p_num p_log ops0 opss,
    (forall ops, In ops opss -> forall x, In x ops <-> In x ops0) ->
    spec_ok (model_case block seed p_num p_log (ops0 :: opss)) = true.
Proof.
  intros block seed pn pl ops0 opss Hset. unfold spec_ok, model_case.
  cbn [c_views map c_index c_draw c_p_num c_p_log v_leader v_checklist v_ops].
  set (g := rng_seed (seed_int64 seed)).
  set (d := fst (float64_draw g)).
  repeat rewrite andb_true_iff. repeat split.
  - cbn [forallb]. rewrite andb_true_iff. split.
    + unfold leader_ok. cbn [v_ops v_leader]. destruct ops0 as [|a t] eqn:E0; [reflexivity|].
      destruct (leader_in_operators rng Concrete.shuffle Concrete.iter concrete_shuffle_perm
                  concrete_iter_perm g (a :: t)) as [o [E Hin]]; [discriminate|].
      rewrite E. apply memN_In. exact Hin.
    + rewrite forallb_map. apply forallb_forall. intros ops Hops.
      unfold leader_ok. cbn [v_ops v_leader]. destruct ops as [|a t] eqn:E0; [reflexivity|].
      destruct (leader_in_operators rng Concrete.shuffle Concrete.iter concrete_shuffle_perm
                  concrete_iter_perm g (a :: t)) as [o [E Hin]]; [discriminate|].
      rewrite E. apply memN_In. exact Hin.
  - rewrite forallb_map. apply forallb_forall. intros ops Hops. cbn [v_leader].
    apply lres_eqb_eq.
    apply leader_invariant_under_permutation_and_repetition;
      [apply concrete_iter_perm|apply concrete_iter_perm|apply Hset, Hops].
  - rewrite forallb_map. apply forallb_forall. intros ops Hops. cbn [v_checklist].
    apply listZ_eqb_eq. reflexivity.
  - apply checklist_ok_model.
Qed.

(* the hypotheses are satisfiable and the functions compute: three members with differently
   ordered and repeated views of operators {1,2,3} elect the same leader *)
Example three_views :
  let seed := [206; 244; 165; 13; 8; 128; 142; 9]%N in
  Concrete.get_leader seed [3; 1; 2; 2; 1; 3; 3; 1; 2; 2]%N = Leader 2%N /\
  Concrete.get_leader seed [2; 1; 3]%N = Leader 2%N /\
  Concrete.get_leader seed [2; 2; 2; 3; 1]%N = Leader 2%N /\
  Concrete.get_actions_checklist 4 seed 1 4 =
    [ActionRedemption; ActionDepositSweep; ActionMovedFundsSweep; ActionMovingFunds].
Proof. vm_compute. repeat split. Qed.
