(* C22 — proofs about the model of getSeed / getLeader / getActionsChecklist (Model/C22.v).
   The statements restated in Props/C22.v are the theorems at the end of each part. *)
From Coq Require Import ZArith NArith List Bool Lia Permutation Sorted.
From Coq Require Import ZifyBool ZifyNat ZifyN.
From KV Require Import Common.Verdict Common.GoRand Gen.Consts_C22 Model.C22 Proofs.GoRand.
Import ListNotations.
Open Scope Z_scope.

(* ------------------------------------------------------------------ *)
(* strictly sorted lists                                               *)
(* ------------------------------------------------------------------ *)

Lemma SSorted_lt_ext (l1 : list N) : forall l2,
  StronglySorted N.lt l1 -> StronglySorted N.lt l2 ->
  (forall x, In x l1 <-> In x l2) -> l1 = l2.
Proof.
  induction l1 as [|a t1 IH]; intros l2 S1 S2 Hin.
  - destruct l2 as [|b t2]; [reflexivity|].
    exfalso. apply (proj2 (Hin b)). left; reflexivity.
  - destruct l2 as [|b t2].
    + exfalso. apply (proj1 (Hin a)). left; reflexivity.
    + inversion S1 as [|a' t1' S1' F1]; subst. inversion S2 as [|b' t2' S2' F2]; subst.
      rewrite Forall_forall in F1, F2.
      assert (a = b) as ->.
      { destruct (proj1 (Hin a) (or_introl eq_refl)) as [E|Ha]; [symmetry; exact E|].
        destruct (proj2 (Hin b) (or_introl eq_refl)) as [E|Hb]; [exact E|].
        specialize (F1 b Hb). specialize (F2 a Ha). lia. }
      f_equal. apply IH; [exact S1'|exact S2'|].
      intro x; split; intro Hx.
      * destruct (proj1 (Hin x) (or_intror Hx)) as [E|Hx2]; [|exact Hx2].
        specialize (F1 x Hx). lia.
      * destruct (proj2 (Hin x) (or_intror Hx)) as [E|Hx1]; [|exact Hx1].
        specialize (F2 x Hx). lia.
Qed.

Lemma insert_uniq_In (x : N) (l : list N) (y : N) :
  In y (insert_uniq x l) <-> y = x \/ In y l.
Proof.
  induction l as [|z t IH]; cbn [insert_uniq].
  - cbn [In]. intuition.
  - destruct (N.ltb_spec x z) as [Hlt|Hge].
    + cbn [In]. intuition.
    + destruct (N.eqb_spec x z) as [->|Hne].
      * cbn [In]. intuition.
      * cbn [In]. rewrite IH. intuition.
Qed.

Lemma insert_uniq_sorted (x : N) (l : list N) :
  StronglySorted N.lt l -> StronglySorted N.lt (insert_uniq x l).
Proof.
  induction 1 as [|z t S IH F]; cbn [insert_uniq].
  - constructor; constructor.
  - rewrite Forall_forall in F.
    destruct (N.ltb_spec x z) as [Hlt|Hge].
    + constructor; [constructor; [exact S|apply Forall_forall; exact F]|].
      apply Forall_forall. intros y [<-|Hy]; [exact Hlt|].
      specialize (F y Hy). lia.
    + destruct (N.eqb_spec x z) as [->|Hne].
      * constructor; [exact S|apply Forall_forall; exact F].
      * constructor; [exact IH|]. apply Forall_forall. intros y Hy.
        apply insert_uniq_In in Hy. destruct Hy as [->|Hy]; [lia|exact (F y Hy)].
Qed.

Lemma sort_uniq_sorted (l : list N) : StronglySorted N.lt (sort_uniq l).
Proof.
  unfold sort_uniq. induction l as [|a t IH]; cbn [fold_right]; [constructor|].
  apply insert_uniq_sorted; exact IH.
Qed.

Lemma sort_uniq_In (l : list N) (x : N) : In x (sort_uniq l) <-> In x l.
Proof.
  unfold sort_uniq. induction l as [|a t IH]; cbn [fold_right]; [reflexivity|].
  rewrite insert_uniq_In, IH. cbn [In]. intuition.
Qed.

(* the sorted list of distinct members depends on the SET of members only *)
Lemma sort_uniq_ext (l l' : list N) :
  (forall x, In x l <-> In x l') -> sort_uniq l = sort_uniq l'.
Proof.
  intro H. apply SSorted_lt_ext; try apply sort_uniq_sorted.
  intro x. rewrite !sort_uniq_In. apply H.
Qed.

Lemma memN_In (x : N) (l : list N) : memN x l = true <-> In x l.
Proof.
  unfold memN. rewrite existsb_exists. split.
  - intros [y [Hy E]]. apply N.eqb_eq in E. subst; exact Hy.
  - intro H. exists x. split; [exact H|apply N.eqb_refl].
Qed.

Lemma memZ_In (x : Z) (l : list Z) : memZ x l = true <-> In x l.
Proof.
  unfold memZ. rewrite existsb_exists. split.
  - intros [y [Hy E]]. apply Z.eqb_eq in E. subst; exact Hy.
  - intro H. exists x. split; [exact H|apply Z.eqb_refl].
Qed.

Lemma listZ_eqb_eq (a : list Z) : forall b, listZ_eqb a b = true <-> a = b.
Proof.
  induction a as [|x a IH]; intros [|y b]; cbn [listZ_eqb]; try (split; [discriminate|discriminate]).
  - split; reflexivity.
  - rewrite andb_true_iff, Z.eqb_eq, IH. split; [intros [-> ->]; reflexivity|intro E; inversion E; auto].
Qed.

Lemma lres_eqb_eq (a b : lres) : lres_eqb a b = true <-> a = b.
Proof.
  destruct a as [x|], b as [y|]; cbn [lres_eqb]; try (split; [discriminate|discriminate]).
  - rewrite N.eqb_eq. split; [intros ->; reflexivity|intro E; inversion E; reflexivity].
  - split; reflexivity.
Qed.

(* ------------------------------------------------------------------ *)
(* getLeader                                                           *)
(* ------------------------------------------------------------------ *)

Section LeaderFacts.
  Variable rngT : Type.
  Variable shuffle : rngT -> list N -> list N.
  Variable iter : list N -> list N.
  Hypothesis iter_perm : forall l, Permutation (iter l) l.

  Lemma unique_operators_In (ops : list N) (x : N) :
    In x (unique_operators iter ops) <-> In x ops.
  Proof.
    unfold unique_operators. rewrite sort_uniq_In. rewrite <- (nodup_In N.eq_dec ops x).
    split; apply Permutation_in; [apply iter_perm|apply Permutation_sym, iter_perm].
  Qed.

  Lemma leader_in_operators_sec :
    (forall g l, Permutation (shuffle g l) l) ->
    forall g ops, ops <> [] ->
      exists o, get_leader rngT shuffle iter g ops = Leader o /\ In o ops.
  Proof.
    intros Hsh g ops Hne. unfold get_leader.
    destruct (shuffle g (unique_operators iter ops)) as [|o t] eqn:E.
    - exfalso. destruct ops as [|a ops']; [apply Hne; reflexivity|].
      assert (Ha : In a (unique_operators iter (a :: ops'))).
      { apply unique_operators_In. left; reflexivity. }
      apply (Permutation_in _ (Permutation_sym (Hsh g _))) in Ha. rewrite E in Ha. exact Ha.
    - exists o. split; [reflexivity|].
      apply unique_operators_In. apply (Permutation_in _ (Hsh g _)). rewrite E. left; reflexivity.
  Qed.
End LeaderFacts.

Theorem leader_in_operators :
  forall (rngT : Type) (shuffle : rngT -> list N -> list N) (iter : list N -> list N),
    (forall g l, Permutation (shuffle g l) l) ->
    (forall l, Permutation (iter l) l) ->
    forall g ops, ops <> [] ->
      exists o, get_leader rngT shuffle iter g ops = Leader o /\ In o ops.
Proof. intros rngT shuffle iter Hs Hi. apply leader_in_operators_sec; assumption. Qed.

(* operator lists with the same SET of operators (any order, any repetition, any two map
   iteration orders) yield the same sorted list of distinct operators, hence the same leader *)
Theorem unique_operators_invariant :
  forall (iter iter' : list N -> list N),
    (forall l, Permutation (iter l) l) -> (forall l, Permutation (iter' l) l) ->
    forall ops ops', (forall x, In x ops <-> In x ops') ->
      unique_operators iter ops = unique_operators iter' ops'.
Proof.
  intros iter iter' Hi Hi' ops ops' Hset. apply SSorted_lt_ext.
  - apply sort_uniq_sorted.
  - apply sort_uniq_sorted.
  - intro x. rewrite (unique_operators_In iter Hi), (unique_operators_In iter' Hi'). apply Hset.
Qed.

Theorem leader_invariant_under_permutation_and_repetition :
  forall (rngT : Type) (shuffle : rngT -> list N -> list N) (iter iter' : list N -> list N),
    (forall l, Permutation (iter l) l) -> (forall l, Permutation (iter' l) l) ->
    forall g ops ops', (forall x, In x ops <-> In x ops') ->
      get_leader rngT shuffle iter g ops = get_leader rngT shuffle iter' g ops'.
Proof.
  intros rngT shuffle iter iter' Hi Hi' g ops ops' Hset. unfold get_leader.
  rewrite (unique_operators_invariant iter iter' Hi Hi' ops ops' Hset). reflexivity.
Qed.

(* in particular for a permutation of the seat list *)
Corollary leader_invariant_under_permutation :
  forall (rngT : Type) (shuffle : rngT -> list N -> list N) (iter : list N -> list N),
    (forall l, Permutation (iter l) l) ->
    forall g ops ops', Permutation ops ops' ->
      get_leader rngT shuffle iter g ops = get_leader rngT shuffle iter g ops'.
Proof.
  intros rngT shuffle iter Hi g ops ops' P.
  apply leader_invariant_under_permutation_and_repetition; try assumption.
  intro x; split; apply Permutation_in; [exact P|apply Permutation_sym, P].
Qed.

(* the panic of uniqueOperators[0] happens exactly for a wallet without operators *)
Theorem leader_panics_iff_no_operators :
  forall (rngT : Type) (shuffle : rngT -> list N -> list N) (iter : list N -> list N),
    (forall g l, Permutation (shuffle g l) l) ->
    (forall l, Permutation (iter l) l) ->
    forall g ops, get_leader rngT shuffle iter g ops = LPanic <-> ops = [].
Proof.
  intros rngT shuffle iter Hs Hi g ops. split.
  - intro H. destruct ops as [|a t]; [reflexivity|].
    destruct (leader_in_operators rngT shuffle iter Hs Hi g (a :: t)) as [o [E _]]; [discriminate|].
    rewrite E in H. discriminate.
  - intros ->. unfold get_leader.
    assert (E : unique_operators iter [] = []).
    { destruct (unique_operators iter []) as [|x t] eqn:E; [reflexivity|].
      exfalso. apply (proj1 (unique_operators_In iter Hi [] x)). rewrite E. left; reflexivity. }
    rewrite E. pose proof (Hs g []) as P. apply Permutation_sym, Permutation_nil in P.
    rewrite P. reflexivity.
Qed.

(* ------------------------------------------------------------------ *)
(* getActionsChecklist                                                 *)
(* ------------------------------------------------------------------ *)

(* the Go action-type constants are pairwise distinct (re-checked against the regenerated
   constants file on every run) *)
Lemma action_constants_distinct :
  NoDup [ActionRedemption; ActionDepositSweep; ActionMovedFundsSweep; ActionMovingFunds;
         ActionHeartbeat].
Proof.
  repeat constructor; cbn [In]; unfold ActionRedemption, ActionDepositSweep,
    ActionMovedFundsSweep, ActionMovingFunds, ActionHeartbeat; intuition discriminate.
Qed.

Theorem checklist_zero : forall hb, checklist 0 hb = [].
Proof. reflexivity. Qed.

Theorem checklist_shape :
  forall idx hb, idx <> 0 ->
    exists rest,
      checklist idx hb = ActionRedemption :: rest /\
      (In ActionDepositSweep rest <-> idx mod 4 = 0) /\
      (In ActionMovedFundsSweep rest <-> idx mod 4 = 0) /\
      (In ActionMovingFunds rest <-> idx mod 4 = 0) /\
      (In ActionHeartbeat rest <-> hb = true) /\
      (forall a, In a rest -> a = ActionDepositSweep \/ a = ActionMovedFundsSweep \/
                              a = ActionMovingFunds \/ a = ActionHeartbeat) /\
      NoDup (checklist idx hb).
Proof.
  intros idx hb Hne. unfold checklist, frequency_windows.
  destruct (Z.eqb_spec idx 0) as [E|_]; [contradiction|].
  pose proof action_constants_distinct as ND.
  unfold ActionRedemption, ActionDepositSweep, ActionMovedFundsSweep, ActionMovingFunds,
    ActionHeartbeat in *.
  destruct (Z.eqb_spec (idx mod 4) 0) as [E4|N4]; destruct hb; cbn [app];
    eexists; (split; [reflexivity|]); cbn [In];
    repeat split; intros; try tauto; try lia; try discriminate;
    try (repeat constructor; cbn [In]; intuition discriminate).
Qed.

(* the exact list *)
Theorem checklist_exact :
  forall idx hb, idx <> 0 ->
    checklist idx hb =
      ActionRedemption ::
      (if idx mod 4 =? 0 then [ActionDepositSweep; ActionMovedFundsSweep; ActionMovingFunds] else [])
      ++ (if hb then [ActionHeartbeat] else []).
Proof.
  intros idx hb Hne. unfold checklist, frequency_windows.
  destruct (Z.eqb_spec idx 0) as [E|_]; [contradiction|].
  destruct (idx mod 4 =? 0); reflexivity.
Qed.

(* the heartbeat is added exactly by the seeded draw: f < p, with the float f = draw / 2^63
   and p = p_num / 2^p_log *)
Lemma heartbeat_in_checklist :
  forall idx hb, idx <> 0 -> (In ActionHeartbeat (checklist idx hb) <-> hb = true).
Proof.
  intros idx hb Hne.
  destruct (checklist_shape idx hb Hne) as [rest [E [_ [_ [_ [Hhb [_ ND]]]]]]].
  rewrite E. cbn [In]. rewrite <- Hhb. split; [|tauto].
  intros [Heq|Hin]; [|exact Hin].
  exfalso. pose proof action_constants_distinct as D.
  inversion D as [|? ? Hn _]. apply Hn. rewrite Heq. cbn [In]. tauto.
Qed.

Theorem heartbeat_by_seeded_draw :
  forall idx seed p_num p_log, idx <> 0 ->
    (In ActionHeartbeat (Concrete.get_actions_checklist idx seed p_num p_log) <->
     fst (float64_draw (rng_seed (seed_int64 seed))) * 2 ^ p_log < p_num * two63).
Proof.
  intros idx seed pn pl Hne. unfold Concrete.get_actions_checklist, Concrete.heartbeat.
  generalize (fst (float64_draw (rng_seed (seed_int64 seed)))). intro d.
  rewrite (heartbeat_in_checklist idx _ Hne). unfold draw_lt. apply Z.ltb_lt.
Qed.

(* ------------------------------------------------------------------ *)
(* the whole view of one member                                        *)
(* ------------------------------------------------------------------ *)

Theorem members_agree :
  forall (hash : list N -> list N) (block_hash : Z -> list N) (rngT : Type) (mkrng : Z -> rngT)
         (shuffle : rngT -> list N -> list N) (heartbeat_of : rngT -> bool)
         (iter iter' : list N -> list N),
    (forall l, Permutation (iter l) l) -> (forall l, Permutation (iter' l) l) ->
    forall pkh block ops ops', (forall x, In x ops <-> In x ops') ->
      member_view hash block_hash rngT mkrng shuffle heartbeat_of iter pkh block ops =
      member_view hash block_hash rngT mkrng shuffle heartbeat_of iter' pkh block ops'.
Proof.
  intros hash bh rngT mkrng shuffle hbo iter iter' Hi Hi' pkh block ops ops' Hset.
  unfold member_view. f_equal.
  apply leader_invariant_under_permutation_and_repetition; assumption.
Qed.

Theorem member_view_sound :
  forall (hash : list N -> list N) (block_hash : Z -> list N) (rngT : Type) (mkrng : Z -> rngT)
         (shuffle : rngT -> list N -> list N) (heartbeat_of : rngT -> bool)
         (iter : list N -> list N),
    (forall g l, Permutation (shuffle g l) l) -> (forall l, Permutation (iter l) l) ->
    forall pkh block ops, ops <> [] -> window_index block <> 0 ->
      exists o rest,
        member_view hash block_hash rngT mkrng shuffle heartbeat_of iter pkh block ops =
          (Leader o, ActionRedemption :: rest) /\ In o ops.
Proof.
  intros hash bh rngT mkrng shuffle hbo iter Hs Hi pkh block ops Hne Hidx. unfold member_view.
  destruct (leader_in_operators rngT shuffle iter Hs Hi
              (mkrng (seed_int64 (get_seed hash bh pkh block))) ops Hne) as [o [E Hin]].
  destruct (checklist_shape (window_index block)
              (hbo (mkrng (seed_int64 (get_seed hash bh pkh block)))) Hidx) as [rest [Ec _]].
  exists o, rest. rewrite E, Ec. split; [reflexivity|exact Hin].
Qed.

(* the window index is positive exactly at positive multiples of the coordination frequency *)
Theorem window_index_spec :
  forall block, 0 <= block ->
    (window_index block <> 0 <->
     exists k, 0 < k /\ block = k * coordinationFrequencyBlocks) /\
    (forall k, 0 <= k -> window_index (k * coordinationFrequencyBlocks) = k).
Proof.
  intros block Hb. unfold window_index, coordinationFrequencyBlocks. split.
  - destruct (Z.eqb_spec (block mod 900) 0) as [E|NE].
    + split.
      * intro Hd. exists (block / 900). split; [|lia].
        assert (block / 900 <> 0) by exact Hd. assert (0 <= block / 900) by (apply Z.div_pos; lia). lia.
      * intros [k [Hk ->]]. rewrite Z.div_mul by lia. lia.
    + split; [intro H; exfalso; apply H; reflexivity|].
      intros [k [Hk ->]]. exfalso. apply NE. apply Z.mod_mul. lia.
  - intros k Hk. rewrite Z.mod_mul by lia. cbn [Z.eqb]. apply Z.div_mul. lia.
Qed.

(* ------------------------------------------------------------------ *)
(* the concrete permutation source                                     *)
(* ------------------------------------------------------------------ *)

Lemma concrete_shuffle_perm : forall (g : rng) (l : list N), Permutation (Concrete.shuffle g l) l.
Proof. intros g l. unfold Concrete.shuffle. apply shuffle_with_perm. Qed.

Lemma concrete_iter_perm : forall l : list N, Permutation (Concrete.iter l) l.
Proof. intro l. apply Permutation_refl. Qed.

Theorem concrete_leader :
  forall seed ops ops',
    ops <> [] -> (forall x, In x ops <-> In x ops') ->
    exists o, Concrete.get_leader seed ops = Leader o /\ Concrete.get_leader seed ops' = Leader o /\
              In o ops /\ In o ops'.
Proof.
  intros seed ops ops' Hne Hset. unfold Concrete.get_leader.
  destruct (leader_in_operators rng Concrete.shuffle Concrete.iter concrete_shuffle_perm
              concrete_iter_perm (rng_seed (seed_int64 seed)) ops Hne) as [o [E Hin]].
  exists o. split; [exact E|]. split; [|split; [exact Hin|apply Hset, Hin]].
  rewrite <- E. symmetry.
  apply leader_invariant_under_permutation_and_repetition;
    [apply concrete_iter_perm|apply concrete_iter_perm|exact Hset].
Qed.

(* ------------------------------------------------------------------ *)
(* the executable form of the property                                 *)
(* ------------------------------------------------------------------ *)

(* the shape the property demands of a checklist, as a proposition *)
Definition checklist_shape_prop (idx : Z) (hb : bool) (l : list Z) : Prop :=
  exists rest,
    l = ActionRedemption :: rest /\
    (In ActionDepositSweep rest <-> idx mod 4 = 0) /\
    (In ActionMovedFundsSweep rest <-> idx mod 4 = 0) /\
    (In ActionMovingFunds rest <-> idx mod 4 = 0) /\
    (In ActionHeartbeat rest <-> hb = true) /\
    (forall a, In a rest -> a = ActionDepositSweep \/ a = ActionMovedFundsSweep \/
                            a = ActionMovingFunds \/ a = ActionHeartbeat).

Lemma eqb_true_iff_memZ (x : Z) (l : list Z) (b : bool) :
  Bool.eqb (memZ x l) b = true -> (In x l <-> b = true).
Proof. intro H. apply eqb_prop in H. rewrite <- H. symmetry. apply memZ_In. Qed.

Lemma checklist_ok_sound (idx : Z) (hb : bool) (l : list Z) :
  idx <> 0 -> checklist_ok idx hb l = true -> checklist_shape_prop idx hb l.
Proof.
  intros Hne H. unfold checklist_ok in H.
  destruct (Z.eqb_spec idx 0) as [E|_]; [contradiction|].
  destruct l as [|a rest]; [discriminate|].
  repeat rewrite andb_true_iff in H. destruct H as [[[[[Ha H1] H2] H3] H4] H5].
  apply Z.eqb_eq in Ha. subst a. exists rest. split; [reflexivity|].
  apply eqb_true_iff_memZ in H1, H2, H3, H4. rewrite Z.eqb_eq in H1, H2, H3.
  repeat split; try tauto.
  intros a Ha. rewrite forallb_forall in H5. specialize (H5 a Ha).
  apply memZ_In in H5. cbn [In] in H5. intuition.
Qed.

Lemma checklist_ok_model (idx : Z) (hb : bool) : checklist_ok idx hb (checklist idx hb) = true.
Proof.
  unfold checklist_ok, checklist, frequency_windows.
  destruct (Z.eqb_spec idx 0) as [E|NE]; [reflexivity|].
  destruct (idx mod 4 =? 0); destruct hb; reflexivity.
Qed.

(* what spec_ok = true means *)
Definition spec_prop (c : case) : Prop :=
  (forall v, In v (c_views c) -> v_ops v <> [] ->
     exists o, v_leader v = Leader o /\ In o (v_ops v)) /\
  (forall v v', In v (c_views c) -> In v' (c_views c) ->
     v_leader v = v_leader v' /\ v_checklist v = v_checklist v') /\
  (c_index c <> 0 ->
   forall v, In v (c_views c) ->
     checklist_shape_prop (c_index c) (draw_lt (c_draw c) (c_p_num c) (c_p_log c)) (v_checklist v)).

Theorem spec_ok_sound : forall c, spec_ok c = true -> spec_prop c.
Proof.
  intros c H. unfold spec_ok in H. unfold spec_prop.
  destruct (c_views c) as [|v0 rest] eqn:Ev.
  - cbn [In]. repeat split; intros; contradiction.
  - repeat rewrite andb_true_iff in H. destruct H as [[[Hl Hsame] Hcl] Hshape].
    rewrite forallb_forall in Hl, Hsame, Hcl.
    assert (Hall : forall v, In v (v0 :: rest) ->
              v_leader v = v_leader v0 /\ v_checklist v = v_checklist v0).
    { intros v [<-|Hv]; [split; reflexivity|]. split.
      - apply lres_eqb_eq, Hsame, Hv.
      - apply listZ_eqb_eq, Hcl, Hv. }
    split; [|split].
    + intros v Hv Hne. specialize (Hl v Hv). unfold leader_ok in Hl.
      destruct (v_ops v) as [|a t] eqn:Eo; [contradiction|].
      destruct (v_leader v) as [o|]; [|discriminate].
      exists o. split; [reflexivity|]. apply memN_In. exact Hl.
    + intros v v' Hv Hv'. destruct (Hall v Hv) as [A B]. destruct (Hall v' Hv') as [A' B'].
      rewrite A, A', B, B'. split; reflexivity.
    + intros Hidx v Hv. destruct (Hall v Hv) as [_ B]. rewrite B.
      apply checklist_ok_sound; assumption.
Qed.

Lemma same_set_In (a b : list N) : same_set a b = true -> forall x, In x a <-> In x b.
Proof.
  unfold same_set. rewrite andb_true_iff, !forallb_forall. intros [H1 H2] x. split; intro Hx.
  - apply memN_In, H1, Hx.
  - apply memN_In, H2, Hx.
Qed.

Lemma forallb_map {A B} (f : B -> bool) (g : A -> B) (l : list A) :
  forallb f (map g l) = forallb (fun x => f (g x)) l.
Proof. induction l as [|a t IH]; cbn [map forallb]; [reflexivity|rewrite IH; reflexivity]. Qed.

(* every case produced by the model for views over the same operator set passes spec_ok *)
Theorem model_outputs_pass_spec :
  forall block seed p_num p_log ops0 opss,
    (forall ops, In ops opss -> forall x, In x ops <-> In x ops0) ->
    spec_ok (model_case block seed p_num p_log (ops0 :: opss)) = true.
Proof.
  intros block seed pn pl ops0 opss Hset. unfold spec_ok, model_case.
  cbn [c_views map c_index c_draw c_p_num c_p_log v_leader v_checklist v_ops].
  set (g := rng_seed (seed_int64 seed)).
  set (d := fst (float64_draw g)).
  repeat rewrite andb_true_iff. repeat split.
  - cbn [forallb]. rewrite andb_true_iff. split.
    + unfold leader_ok. cbn [v_ops v_leader]. destruct ops0 as [|a t] eqn:E0; [reflexivity|].
      destruct (leader_in_operators rng Concrete.shuffle Concrete.iter concrete_shuffle_perm
                  concrete_iter_perm g (a :: t)) as [o [E Hin]]; [discriminate|].
      rewrite E. apply memN_In. exact Hin.
    + rewrite forallb_map. apply forallb_forall. intros ops Hops.
      unfold leader_ok. cbn [v_ops v_leader]. destruct ops as [|a t] eqn:E0; [reflexivity|].
      destruct (leader_in_operators rng Concrete.shuffle Concrete.iter concrete_shuffle_perm
                  concrete_iter_perm g (a :: t)) as [o [E Hin]]; [discriminate|].
      rewrite E. apply memN_In. exact Hin.
  - rewrite forallb_map. apply forallb_forall. intros ops Hops. cbn [v_leader].
    apply lres_eqb_eq.
    apply leader_invariant_under_permutation_and_repetition;
      [apply concrete_iter_perm|apply concrete_iter_perm|apply Hset, Hops].
  - rewrite forallb_map. apply forallb_forall. intros ops Hops. cbn [v_checklist].
    apply listZ_eqb_eq. reflexivity.
  - apply checklist_ok_model.
Qed.

(* the hypotheses are satisfiable and the functions compute: three members with differently
   ordered and repeated views of operators {1,2,3} elect the same leader *)
Example three_views :
  let seed := [206; 244; 165; 13; 8; 128; 142; 9]%N in
  Concrete.get_leader seed [3; 1; 2; 2; 1; 3; 3; 1; 2; 2]%N = Leader 2%N /\
  Concrete.get_leader seed [2; 1; 3]%N = Leader 2%N /\
  Concrete.get_leader seed [2; 2; 2; 3; 1]%N = Leader 2%N /\
  Concrete.get_actions_checklist 4 seed 1 4 =
    [ActionRedemption; ActionDepositSweep; ActionMovedFundsSweep; ActionMovingFunds].
Proof. vm_compute. repeat split. Qed.

(* ------------------------------------------------------------------ *)
(* call histories on ONE executor: no memory                          *)
(* ------------------------------------------------------------------ *)

Section ExecutorFacts.
  Variable rngT : Type.
  Variable mkrng : Z -> rngT.
  Variable shuffle : rngT -> list N -> list N.
  Variable heartbeat_of : rngT -> bool.

  (* history independence: whatever the executor went through, its state is the operator list
     it was created with and its answers are the pure function mapped over the history *)
  Lemma run_history_is_map_sec (ops : list N) (h : list hentry) :
    run_history rngT mkrng shuffle heartbeat_of ops h =
      (ops, map (answer_of rngT mkrng shuffle heartbeat_of ops) h).
  Proof.
    induction h as [|e t IH]; cbn [run_history map]; [reflexivity|].
    unfold exec_call. rewrite IH. reflexivity.
  Qed.

  Lemma answer_of_same_set (ops ops' : list N) (e e' : hentry) :
    (forall l, Permutation (e_iter e l) l) -> (forall l, Permutation (e_iter e' l) l) ->
    (forall x, In x ops <-> In x ops') ->
    e_idx e = e_idx e' -> e_seed e = e_seed e' ->
    answer_of rngT mkrng shuffle heartbeat_of ops e =
    answer_of rngT mkrng shuffle heartbeat_of ops' e'.
  Proof.
    intros Hi Hi' Hset Eidx Eseed. unfold answer_of. rewrite Eidx, Eseed. f_equal.
    apply leader_invariant_under_permutation_and_repetition; assumption.
  Qed.
End ExecutorFacts.

Theorem run_history_is_map :
  forall (rngT : Type) (mkrng : Z -> rngT) (shuffle : rngT -> list N -> list N)
         (heartbeat_of : rngT -> bool) (ops : list N) (h : list hentry),
    run_history rngT mkrng shuffle heartbeat_of ops h =
      (ops, map (answer_of rngT mkrng shuffle heartbeat_of ops) h).
Proof. exact run_history_is_map_sec. Qed.

(* two members with the same SET of operators, each with ITS OWN history on its own executor
   (any lengths, any earlier windows, any map iteration orders): whenever round i of the one
   and round j of the other are for the same window index and seed, the answers are equal;
   and the leader is one of the operators, the checklist of a valid window starts with
   Redemption *)
Theorem members_agree_whatever_their_histories :
  forall (rngT : Type) (mkrng : Z -> rngT) (shuffle : rngT -> list N -> list N)
         (heartbeat_of : rngT -> bool),
    (forall g l, Permutation (shuffle g l) l) ->
    forall (ops ops' : list N) (h h' : list hentry),
      (forall x, In x ops <-> In x ops') ->
      (forall e l, In e h -> Permutation (e_iter e l) l) ->
      (forall e l, In e h' -> Permutation (e_iter e l) l) ->
      forall i j e e',
        nth_error h i = Some e -> nth_error h' j = Some e' ->
        e_idx e = e_idx e' -> e_seed e = e_seed e' ->
        exists a,
          nth_error (snd (run_history rngT mkrng shuffle heartbeat_of ops h)) i = Some a /\
          nth_error (snd (run_history rngT mkrng shuffle heartbeat_of ops' h')) j = Some a /\
          (ops <> [] -> exists o, fst a = Leader o /\ In o ops /\ In o ops') /\
          (e_idx e <> 0 -> exists rest, snd a = ActionRedemption :: rest).
Proof.
  intros rngT mkrng shuffle hbo Hs ops ops' h h' Hset Hh Hh' i j e e' Hi Hj Eidx Eseed.
  rewrite !run_history_is_map. cbn [snd].
  exists (answer_of rngT mkrng shuffle hbo ops e).
  assert (Pe : forall l, Permutation (e_iter e l) l).
  { intro l. apply Hh. eapply nth_error_In; exact Hi. }
  assert (Pe' : forall l, Permutation (e_iter e' l) l).
  { intro l. apply Hh'. eapply nth_error_In; exact Hj. }
  split; [|split; [|split]].
  - apply map_nth_error. exact Hi.
  - rewrite (answer_of_same_set rngT mkrng shuffle hbo ops ops' e e' Pe Pe' Hset Eidx Eseed).
    apply map_nth_error. exact Hj.
  - intro Hne. unfold answer_of. cbn [fst].
    destruct (leader_in_operators rngT shuffle (e_iter e) Hs Pe
                (mkrng (seed_int64 (e_seed e))) ops Hne) as [o [E Hin]].
    exists o. split; [exact E|]. split; [exact Hin|apply Hset, Hin].
  - intro Hidx. unfold answer_of. cbn [snd].
    destruct (checklist_shape (e_idx e) (hbo (mkrng (seed_int64 (e_seed e)))) Hidx)
      as [rest [Ec _]].
    exists rest. exact Ec.
Qed.

(* in particular one member asked again, at any later point of its history, repeats itself *)
Corollary same_member_repeats_itself :
  forall (rngT : Type) (mkrng : Z -> rngT) (shuffle : rngT -> list N -> list N)
         (heartbeat_of : rngT -> bool) (ops : list N) (h : list hentry) i j e,
    nth_error h i = Some e -> nth_error h j = Some e ->
    nth_error (snd (run_history rngT mkrng shuffle heartbeat_of ops h)) i =
    nth_error (snd (run_history rngT mkrng shuffle heartbeat_of ops h)) j.
Proof.
  intros rngT mkrng shuffle hbo ops h i j e Hi Hj. rewrite run_history_is_map. cbn [snd].
  rewrite (map_nth_error _ _ _ Hi), (map_nth_error _ _ _ Hj). reflexivity.
Qed.

(* the concrete executor *)
Lemma concrete_run_is_map (pn pl : Z) (ops : list N) (h : list (Z * list N)) :
  concrete_run pn pl ops h = (ops, map (concrete_answer pn pl ops) h).
Proof.
  unfold concrete_run. rewrite run_history_is_map, map_map. reflexivity.
Qed.

Lemma concrete_answer_eq (pn pl : Z) (ops : list N) (w : Z * list N) :
  concrete_answer pn pl ops w =
    (Concrete.get_leader (snd w) ops, Concrete.get_actions_checklist (fst w) (snd w) pn pl).
Proof.
  unfold concrete_answer, answer_of, concrete_entry, Concrete.get_leader,
    Concrete.get_actions_checklist, Concrete.heartbeat, concrete_heartbeat_of.
  cbn [e_idx e_seed e_iter]. reflexivity.
Qed.

Theorem concrete_history_has_no_memory :
  forall pn pl ops h,
    concrete_run pn pl ops h =
      (ops, map (fun w => (Concrete.get_leader (snd w) ops,
                           Concrete.get_actions_checklist (fst w) (snd w) pn pl)) h).
Proof.
  intros pn pl ops h. rewrite concrete_run_is_map. apply (f_equal (pair ops)). apply map_ext.
  intro w. apply concrete_answer_eq.
Qed.

(* ---------- the executable history property ---------- *)
Lemma listN_eqb_eq (a : list N) : forall b, listN_eqb a b = true <-> a = b.
Proof.
  induction a as [|x a IH]; intros [|y b]; cbn [listN_eqb]; try (split; [discriminate|discriminate]).
  - split; reflexivity.
  - rewrite andb_true_iff, N.eqb_eq, IH. split; [intros [-> ->]; reflexivity|intro E; inversion E; auto].
Qed.

Definition hspec_prop (h : hcase) : Prop :=
  (forall m k, In m (h_members h) -> In k (m_calls m) -> m_ops m <> [] ->
     exists o, k_leader k = Leader o /\ In o (m_ops m)) /\
  (forall m m' k k', In m (h_members h) -> In m' (h_members h) ->
     In k (m_calls m) -> In k' (m_calls m') ->
     k_block k = k_block k' -> k_seed_exp k = k_seed_exp k' ->
     k_leader k = k_leader k' /\ k_checklist k = k_checklist k') /\
  (forall m k, In m (h_members h) -> In k (m_calls m) -> k_index k <> 0 ->
     checklist_shape_prop (k_index k) (draw_lt (k_draw k) (h_p_num h) (h_p_log h))
       (k_checklist k)).

Lemma in_all_calls (h : hcase) (m : hmember) (k : hcall) :
  In m (h_members h) -> In k (m_calls m) -> In k (all_calls h).
Proof. intros Hm Hk. unfold all_calls. apply in_flat_map. exists m. split; assumption. Qed.

Theorem hspec_ok_sound : forall h, hspec_ok h = true -> hspec_prop h.
Proof.
  intros h H. unfold hspec_ok in H. repeat rewrite andb_true_iff in H.
  destruct H as [[Hl Hp] Hc]. rewrite forallb_forall in Hl, Hp, Hc.
  split; [|split].
  - intros m k Hm Hk Hne. specialize (Hl m Hm). rewrite forallb_forall in Hl.
    specialize (Hl k Hk). unfold hleader_ok in Hl.
    destruct (m_ops m) as [|a t] eqn:Eo; [contradiction|].
    destruct (k_leader k) as [o|]; [|discriminate].
    exists o. split; [reflexivity|]. apply memN_In. exact Hl.
  - intros m m' k k' Hm Hm' Hk Hk' Eb Es.
    specialize (Hp k (in_all_calls h m k Hm Hk)). rewrite forallb_forall in Hp.
    specialize (Hp k' (in_all_calls h m' k' Hm' Hk')).
    assert (Ek : key_eqb k k' = true).
    { unfold key_eqb. rewrite Eb, Es, Z.eqb_refl. apply listN_eqb_eq. reflexivity. }
    rewrite Ek in Hp. cbn [implb] in Hp. unfold same_answer in Hp.
    apply andb_true_iff in Hp. destruct Hp as [A B].
    split; [apply lres_eqb_eq, A|apply listZ_eqb_eq, B].
  - intros m k Hm Hk Hidx. apply checklist_ok_sound; [exact Hidx|].
    apply Hc. exact (in_all_calls h m k Hm Hk).
Qed.

Lemma combine_map_self {A B} (f : A -> B) (l : list A) :
  combine l (map f l) = map (fun x => (x, f x)) l.
Proof. induction l as [|a t IH]; cbn [combine map]; [reflexivity|rewrite IH; reflexivity]. Qed.

(* a call of a model member, explicitly *)
Definition model_call_of (pn pl : Z) (ops : list N) (w : Z * list N) : hcall :=
  model_hcall pn pl (w, concrete_answer pn pl ops (window_index (fst w), snd w)).

Lemma model_hmember_eq (pn pl : Z) (ops : list N) (ws : list (Z * list N)) :
  model_hmember pn pl (ops, ws) =
    {| m_ops := ops; m_ops_after := ops; m_calls := map (model_call_of pn pl ops) ws |}.
Proof.
  unfold model_hmember. rewrite concrete_run_is_map, map_map.
  rewrite (combine_map_self
             (fun w : Z * list N => concrete_answer pn pl ops (window_index (fst w), snd w)) ws).
  rewrite map_map. reflexivity.
Qed.

(* every history case produced by the model -- members over the same operator set, each with
   its own history -- passes the executable property *)
Theorem model_histories_pass_spec :
  forall p_num p_log (ms : list (list N * list (Z * list N))),
    (forall m m', In m ms -> In m' ms -> forall x, In x (fst m) <-> In x (fst m')) ->
    hspec_ok (model_hcase p_num p_log ms) = true.
Proof.
  intros pn pl ms Hset.
  assert (Hcalls : forall k, In k (all_calls (model_hcase pn pl ms)) ->
            exists ops ws w, In (ops, ws) ms /\ In w ws /\ k = model_call_of pn pl ops w).
  { intros k Hk. unfold all_calls, model_hcase in Hk. cbn [h_members] in Hk.
    apply in_flat_map in Hk. destruct Hk as [m [Hm Hk]].
    apply in_map_iff in Hm. destruct Hm as [[ops ws] [<- Hin]].
    rewrite model_hmember_eq in Hk. cbn [m_calls] in Hk.
    apply in_map_iff in Hk. destruct Hk as [w [<- Hw]].
    exists ops, ws, w. repeat split; assumption. }
  unfold hspec_ok. repeat rewrite andb_true_iff. repeat split.
  - unfold model_hcase. cbn [h_members]. rewrite forallb_map. apply forallb_forall.
    intros [ops ws] Hin. rewrite model_hmember_eq. cbn [m_ops m_calls].
    rewrite forallb_map. apply forallb_forall. intros [b s] Hw.
    unfold hleader_ok, model_call_of, model_hcall. rewrite concrete_answer_eq.
    cbn [k_leader fst snd]. destruct ops as [|a t] eqn:E0; [reflexivity|].
    unfold Concrete.get_leader.
    destruct (leader_in_operators rng Concrete.shuffle Concrete.iter concrete_shuffle_perm
                concrete_iter_perm (rng_seed (seed_int64 s)) (a :: t)) as [o [E Hin']];
      [discriminate|].
    rewrite E. apply memN_In. exact Hin'.
  - apply forallb_forall. intros k Hk. apply forallb_forall. intros k' Hk'.
    destruct (Hcalls k Hk) as [ops [ws [[b s] [Hm [Hw ->]]]]].
    destruct (Hcalls k' Hk') as [ops' [ws' [[b' s'] [Hm' [Hw' ->]]]]].
    destruct (key_eqb _ _) eqn:Ek; [|reflexivity]. cbn [implb].
    unfold key_eqb, model_call_of, model_hcall in Ek. rewrite !concrete_answer_eq in Ek.
    cbn [k_block k_seed_exp fst snd] in Ek. apply andb_true_iff in Ek. destruct Ek as [Eb Es].
    apply Z.eqb_eq in Eb. apply listN_eqb_eq in Es. subst b' s'.
    unfold same_answer, model_call_of, model_hcall. rewrite !concrete_answer_eq.
    cbn [k_leader k_checklist fst snd]. apply andb_true_iff. split.
    + apply lres_eqb_eq. unfold Concrete.get_leader.
      apply leader_invariant_under_permutation_and_repetition;
        [apply concrete_iter_perm|apply concrete_iter_perm|].
      exact (Hset (ops, ws) (ops', ws') Hm Hm').
    + apply listZ_eqb_eq. reflexivity.
  - apply forallb_forall. intros k Hk.
    destruct (Hcalls k Hk) as [ops [ws [[b s] [Hm [Hw ->]]]]].
    unfold model_call_of, model_hcall. rewrite concrete_answer_eq.
    cbn [k_index k_draw k_checklist h_p_num h_p_log model_hcase fst snd].
    unfold Concrete.get_actions_checklist, Concrete.heartbeat. apply checklist_ok_model.
Qed.

(* the functions compute: a long-running member (three windows, the first one asked again at
   the end) and a freshly started one with another view of operators {1,2,3} *)
Example two_histories :
  let s1 := [206; 244; 165; 13; 8; 128; 142; 9]%N in
  let s2 := [1; 2; 3; 4; 5; 6; 7; 8]%N in
  let s3 := [250; 0; 7; 99; 31; 200; 1; 17]%N in
  snd (concrete_run 1 4 [3; 1; 2; 2; 1]%N [(4, s1); (5, s2); (6, s3); (4, s1)]) =
    [ (Leader 2%N, [ActionRedemption; ActionDepositSweep; ActionMovedFundsSweep; ActionMovingFunds]);
      (Concrete.get_leader s2 [1; 2; 3]%N, Concrete.get_actions_checklist 5 s2 1 4);
      (Concrete.get_leader s3 [1; 2; 3]%N, Concrete.get_actions_checklist 6 s3 1 4);
      (Leader 2%N, [ActionRedemption; ActionDepositSweep; ActionMovedFundsSweep; ActionMovingFunds]) ] /\
  snd (concrete_run 1 4 [2; 3; 1]%N [(6, s3)]) =
    [ (Concrete.get_leader s3 [1; 2; 3]%N, Concrete.get_actions_checklist 6 s3 1 4) ].
Proof. vm_compute. repeat split. Qed.
