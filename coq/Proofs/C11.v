(* C11 — proofs about the model of the two retry loops (Model/C11.v).  The statements restated in
   Props/C11.v are the theorems at the end of this file.  Everything about the loops is proved for
   arbitrary block constants [k] with a positive cool-down; the two instances are discharged by
   [lia] over the GENERATED constants (Gen/Consts_C11.v), so a changed Go constant re-opens them. *)
From Coq Require Import ZArith NArith List Bool Lia.
From Coq Require Import ZifyBool ZifyNat ZifyN.
From KV Require Import Common.Verdict Common.GoRand Model.C09 Model.C10 Gen.Consts_C11 Model.C11.
Import ListNotations.
Open Scope Z_scope.

(* what the loops need from the constants *)
Definition consts_ok (k : consts) : Prop := 0 < k_cooldown k /\ 0 <= max_blocks k.

Lemma sign_consts_ok : consts_ok sign_consts.
Proof.
  unfold consts_ok, max_blocks, sign_consts. cbn [k_delay k_active k_protocol k_cooldown].
  unfold signingAttemptAnnouncementDelayBlocks, signingAttemptAnnouncementActiveBlocks,
    signingAttemptMaximumProtocolBlocks, signingAttemptCoolDownBlocks. lia.
Qed.

Lemma dkg_consts_ok : consts_ok dkg_consts.
Proof.
  unfold consts_ok, max_blocks, dkg_consts. cbn [k_delay k_active k_protocol k_cooldown].
  unfold dkgAttemptAnnouncementDelayBlocks, dkgAttemptAnnouncementActiveBlocks,
    dkgAttemptMaximumProtocolBlocks, dkgAttemptCoolDownBlocks. lia.
Qed.

(* ------------------------------------------------------------------ *)
(* window arithmetic                                                   *)
(* ------------------------------------------------------------------ *)

Lemma att_start_succ (k : consts) (s0 : Z) (n : N) :
  att_start k s0 (n + 1) = att_start k s0 n + max_blocks k.
Proof. unfold att_start. lia. Qed.

Lemma att_start_one (k : consts) (s0 : Z) : att_start k s0 1 = s0.
Proof. unfold att_start. lia. Qed.

(* the timeout block of attempt n is before the start block of every later attempt *)
Lemma window_lt (k : consts) (s0 : Z) (n m : N) :
  consts_ok k -> (n < m)%N -> timeout k s0 n < att_start k s0 m.
Proof.
  intros [Hc HM] Hlt. unfold timeout, ann_end, ann_start, att_start.
  assert (Z.of_N n * max_blocks k <= (Z.of_N m - 1) * max_blocks k) as H.
  { apply Z.mul_le_mono_nonneg_r; [exact HM|lia]. }
  unfold max_blocks in *. lia.
Qed.

(* ------------------------------------------------------------------ *)
(* reading iter_at                                                     *)
(* ------------------------------------------------------------------ *)

Lemma memZ_In (x : Z) (l : list Z) : memZ x l = true <-> In x l.
Proof.
  unfold memZ. rewrite existsb_exists. split.
  - intros [y [Hy E]]. apply Z.eqb_eq in E. subst. exact Hy.
  - intro H. exists x. split; [exact H|apply Z.eqb_refl].
Qed.

Record at_facts (sign : bool) (k : consts) (s0 : Z) (n : N) (it : iter) : Prop := {
  af_pos : (1 <= n)%N;
  af_wait : forall w o, i_wait it = Some (w, o) -> w = ann_start k s0 n;
  af_ann : forall m r, i_ann it = Some (m, r) ->
             m = n /\ i_wait it = Some (ann_start k s0 n, true) /\
             In (ann_end k s0 n) (i_watch it) /\
             (sign = true -> exists c, i_cur it = Some (Some c) /\ c < ann_end k s0 n);
  af_noann : i_ann it = None -> i_listen it = None /\ i_attempt it = None;
  af_listen : forall m tb l, i_listen it = Some (m, tb, l) -> m = n /\ tb = timeout k s0 n;
  af_attempt : forall m sb tb l o, i_attempt it = Some (m, sb, tb, l, o) ->
                 m = n /\ sb = ann_end k s0 n /\ tb = timeout k s0 n }.

Lemma iter_at_facts (sign : bool) (k : consts) (s0 : Z) (n : N) (it : iter) :
  iter_at sign k s0 n it = true -> at_facts sign k s0 n it.
Proof.
  unfold iter_at. intro H.
  apply andb_true_iff in H. destruct H as [H H5].
  apply andb_true_iff in H. destruct H as [H H4].
  apply andb_true_iff in H. destruct H as [H H3].
  apply andb_true_iff in H. destruct H as [H1 H2].
  assert (forall w o, i_wait it = Some (w, o) -> w = ann_start k s0 n) as Hw.
  { intros w o E. rewrite E in H2. lia. }
  constructor.
  - lia.
  - exact Hw.
  - intros m r E. rewrite E in H3.
    apply andb_true_iff in H3. destruct H3 as [H3 Hc].
    apply andb_true_iff in H3. destruct H3 as [H3 Hm].
    apply andb_true_iff in H3. destruct H3 as [Hn Hwt].
    split; [lia|]. split; [|split].
    + destruct (i_wait it) as [[w [|]]|] eqn:Ew; try discriminate Hwt.
      rewrite (Hw w true eq_refl). reflexivity.
    + apply memZ_In. exact Hm.
    + intros ->. destruct (i_cur it) as [[c|]|]; try discriminate Hc. exists c. split; [reflexivity|lia].
  - intro E. rewrite E in H3. apply andb_true_iff in H3. destruct H3 as [Ha Hb].
    destruct (i_listen it); [discriminate Ha|]. destruct (i_attempt it); [discriminate Hb|].
    split; reflexivity.
  - intros m tb l E. rewrite E in H4. lia.
  - intros m sb tb l o E. rewrite E in H5. lia.
Qed.

Lemma iter_at_ok (sign : bool) (k : consts) (s0 : Z) (n : N) (it : iter) :
  iter_at sign k s0 n it = true -> iter_ok sign k s0 it = true.
Proof.
  intro H. pose proof (iter_at_facts _ _ _ _ _ H) as F. unfold iter_ok.
  destruct (i_ann it) as [[m r]|] eqn:E.
  - destruct (af_ann _ _ _ _ _ F m r E) as [-> _]. exact H.
  - destruct (af_noann _ _ _ _ _ F E) as [-> ->]. reflexivity.
Qed.

Fixpoint all_at (sign : bool) (k : consts) (s0 : Z) (n : N) (tr : list iter) : bool :=
  match tr with
  | [] => true
  | it :: t => iter_at sign k s0 n it && all_at sign k s0 (n + 1) t
  end.

Lemma all_at_In (sign : bool) (k : consts) (s0 : Z) (tr : list iter) : forall (n : N) (it : iter),
  all_at sign k s0 n tr = true -> In it tr ->
  exists m, (n <= m)%N /\ iter_at sign k s0 m it = true.
Proof.
  induction tr as [|a t IH]; intros n it H Hin; [destruct Hin|].
  cbn [all_at] in H. apply andb_true_iff in H. destruct H as [Ha Ht].
  destruct Hin as [<-|Hin].
  - exists n. split; [lia|exact Ha].
  - destruct (IH _ _ Ht Hin) as [m [Hm Hi]]. exists m. split; [lia|exact Hi].
Qed.

Lemma pair_from_at (sign : bool) (k : consts) (s0 : Z) (n m : N) (a b : iter) :
  consts_ok k -> iter_at sign k s0 n a = true -> iter_at sign k s0 m b = true -> (n < m)%N ->
  pair_ok k a b = true.
Proof.
  intros Hk Ha Hb Hlt. pose proof (iter_at_facts _ _ _ _ _ Ha) as Fa.
  pose proof (iter_at_facts _ _ _ _ _ Hb) as Fb. unfold pair_ok. apply andb_true_iff. split.
  - destruct (i_wait b) as [[w o]|] eqn:Ew; [|reflexivity].
    rewrite (af_wait _ _ _ _ _ Fb w o Ew). apply forallb_forall. intros tb Htb.
    pose proof (window_lt k s0 n m Hk Hlt) as HW.
    assert (tb = timeout k s0 n) as ->.
    { unfold timeouts in Htb. apply in_app_or in Htb. destruct Htb as [Htb|Htb].
      - destruct (i_listen a) as [[[m' tb'] l]|] eqn:El; [|destruct Htb].
        destruct Htb as [<-|[]]. exact (proj2 (af_listen _ _ _ _ _ Fa _ _ _ El)).
      - destruct (i_attempt a) as [[[[[m' sb'] tb'] l] o']|] eqn:Et; [|destruct Htb].
        destruct Htb as [<-|[]]. exact (proj2 (proj2 (af_attempt _ _ _ _ _ Fa _ _ _ _ _ Et))). }
    unfold ann_start. lia.
  - unfold ann_no. destruct (i_ann a) as [[na ra]|] eqn:Ea; [|reflexivity].
    destruct (i_ann b) as [[nb rb]|] eqn:Eb; [|reflexivity].
    destruct (af_ann _ _ _ _ _ Fa _ _ Ea) as [-> _]. destruct (af_ann _ _ _ _ _ Fb _ _ Eb) as [-> _].
    lia.
Qed.

Lemma all_at_spec (sign : bool) (k : consts) (s0 : Z) (tr : list iter) : forall n,
  consts_ok k -> all_at sign k s0 n tr = true -> spec_its sign k s0 tr = true.
Proof.
  unfold spec_its. induction tr as [|a t IH]; intros n Hk H; [reflexivity|].
  cbn [all_at] in H. apply andb_true_iff in H. destruct H as [Ha Ht].
  specialize (IH _ Hk Ht). apply andb_true_iff in IH. destruct IH as [IH1 IH2].
  cbn [forallb ordered_ok]. rewrite (iter_at_ok _ _ _ _ _ Ha), IH1, IH2. cbn [andb].
  rewrite andb_true_r. apply forallb_forall. intros b Hb.
  destruct (all_at_In _ _ _ _ _ _ Ht Hb) as [m [Hm Hbm]].
  apply (pair_from_at sign k s0 n m a b Hk Ha Hbm). lia.
Qed.

(* ------------------------------------------------------------------ *)
(* every iteration of a loop run is the iteration of its attempt number *)
(* ------------------------------------------------------------------ *)

Ltac split_all :=
  repeat match goal with
         | |- context [match st_cur ?s with _ => _ end] => destruct (st_cur s) eqn:?
         | |- context [match st_ann ?s with _ => _ end] => destruct (st_ann s) eqn:?
         | |- context [if ?b then _ else _] => destruct b eqn:?
         | |- context [match ?x with SOk _ => _ | _ => _ end] => destruct x eqn:?
         end.

Ltac leaf :=
  unfold iter_at, timeout, ann_end, ann_start, is_none, memZ;
  cbn [i_cur i_wait i_watch i_ann i_listen i_attempt i_signal i_done existsb];
  lia.

Section LoopInvariant.
  Variable k : consts.
  Variable ops : list N.
  Variable count : N.
  Variable self : N.
  Variable limit : N.
  Variable select : N -> list N -> sel.
  Variable s0 : Z.

  Definition next_start (counter : N) (start : Z) : Z :=
    if (1 <? counter + 1)%N then start + max_blocks k else start.

  Lemma next_start_step (counter : N) :
    next_start (counter + 1) (att_start k s0 (counter + 1)) = att_start k s0 (counter + 1 + 1).
  Proof.
    unfold next_start. destruct (N.ltb_spec 1 (counter + 1 + 1)) as [_|H]; [|lia].
    rewrite (att_start_succ k s0 (counter + 1)). reflexivity.
  Qed.

  Lemma sign_loop_all_at (script : list step) : forall counter start cancelled,
    next_start counter start = att_start k s0 (counter + 1) ->
    all_at true k s0 (counter + 1)
           (fst (sign_loop k ops count self select script counter start cancelled)) = true.
  Proof.
    induction script as [|s rest IH]; intros counter start cancelled Hinv.
    - cbn [sign_loop]. destruct cancelled; reflexivity.
    - cbn [sign_loop]. destruct cancelled; [reflexivity|].
      fold (next_start counter start). rewrite Hinv.
      assert (forall c, all_at true k s0 (counter + 1 + 1)
                (fst (sign_loop k ops count self select rest (counter + 1)
                        (att_start k s0 (counter + 1)) c)) = true) as IH'.
      { intro c. apply IH. apply next_start_step. }
      cbv zeta. split_all; cbn [fst snd prepend all_at]; rewrite ?IH', ?andb_true_r; try reflexivity;
        leaf.
  Qed.

  Lemma dkg_loop_all_at (script : list step) : forall counter start cancelled,
    next_start counter start = att_start k s0 (counter + 1) ->
    all_at false k s0 (counter + 1)
           (fst (dkg_loop k count self limit select script counter start cancelled)) = true.
  Proof.
    induction script as [|s rest IH]; intros counter start cancelled Hinv.
    - reflexivity.
    - cbn [dkg_loop]. fold (next_start counter start). rewrite Hinv.
      assert (forall c, all_at false k s0 (counter + 1 + 1)
                (fst (dkg_loop k count self limit select rest (counter + 1)
                        (att_start k s0 (counter + 1)) c)) = true) as IH'.
      { intro c. apply IH. apply next_start_step. }
      cbv zeta. split_all; cbn [fst snd prepend all_at]; rewrite ?IH', ?andb_true_r; try reflexivity;
        leaf.
  Qed.

  Lemma next_start_init : next_start 0 s0 = att_start k s0 (0 + 1).
  Proof. unfold next_start. cbn. rewrite att_start_one. reflexivity. Qed.

  Theorem sign_trace_spec (script : list step) :
    consts_ok k ->
    spec_its true k s0 (fst (sign_loop k ops count self select script 0 s0 false)) = true.
  Proof.
    intro Hk. apply (all_at_spec true k s0 _ (0 + 1) Hk). apply sign_loop_all_at, next_start_init.
  Qed.

  Theorem dkg_trace_spec (script : list step) :
    consts_ok k ->
    spec_its false k s0 (fst (dkg_loop k count self limit select script 0 s0 false)) = true.
  Proof.
    intro Hk. apply (all_at_spec false k s0 _ (0 + 1) Hk). apply dkg_loop_all_at, next_start_init.
  Qed.
End LoopInvariant.

(* ------------------------------------------------------------------ *)
(* the executable form is sound                                        *)
(* ------------------------------------------------------------------ *)

(* what one loop iteration does, in terms of the window function only *)
Definition iter_window (sign : bool) (k : consts) (s0 : Z) (it : iter) : Prop :=
  (forall n r, i_ann it = Some (n, r) ->
     (1 <= n)%N /\ i_wait it = Some (ann_start k s0 n, true) /\
     In (ann_end k s0 n) (i_watch it) /\
     (sign = true -> exists c, i_cur it = Some (Some c) /\ c < ann_end k s0 n)) /\
  (forall n tb l, i_listen it = Some (n, tb, l) ->
     tb = timeout k s0 n /\ exists r, i_ann it = Some (n, r)) /\
  (forall n sb tb ex ok, i_attempt it = Some (n, sb, tb, ex, ok) ->
     sb = ann_end k s0 n /\ tb = timeout k s0 n /\ exists r, i_ann it = Some (n, r)).

(* every later iteration begins its attempt (announcement start block minus the announcement
   delay) only after every timeout block handed out by an earlier iteration *)
Definition trace_disjoint (k : consts) (its : list iter) : Prop :=
  forall pre a mid b post, its = pre ++ a :: mid ++ b :: post ->
  forall tb w o, In tb (timeouts a) -> i_wait b = Some (w, o) -> tb < w - k_delay k.

Theorem iter_ok_sound (sign : bool) (k : consts) (s0 : Z) (it : iter) :
  iter_ok sign k s0 it = true -> iter_window sign k s0 it.
Proof.
  unfold iter_ok, iter_window. intro H. destruct (i_ann it) as [[m r0]|] eqn:E.
  - pose proof (iter_at_facts _ _ _ _ _ H) as F.
    destruct (af_ann _ _ _ _ _ F m r0 E) as [_ [Hw [Hwatch Hcur]]].
    split; [|split].
    + intros n r En. injection En as <- <-. split; [exact (af_pos _ _ _ _ _ F)|]. auto.
    + intros n tb l El. destruct (af_listen _ _ _ _ _ F _ _ _ El) as [-> ->].
      split; [reflexivity|]. exists r0. reflexivity.
    + intros n sb tb ex ok Ea. destruct (af_attempt _ _ _ _ _ F _ _ _ _ _ Ea) as [-> [-> ->]].
      split; [reflexivity|]. split; [reflexivity|]. exists r0. reflexivity.
  - apply andb_true_iff in H. destruct H as [H1 H2].
    split; [|split].
    + intros n r En. discriminate En.
    + intros n tb l El. rewrite El in H1. discriminate H1.
    + intros n sb tb ex ok Ea. rewrite Ea in H2. discriminate H2.
Qed.

Lemma ordered_ok_app (k : consts) (pre : list iter) : forall l,
  ordered_ok k (pre ++ l) = true -> ordered_ok k l = true.
Proof.
  induction pre as [|p t IH]; intros l H; [exact H|].
  cbn [app ordered_ok] in H. apply andb_true_iff in H. apply IH. exact (proj2 H).
Qed.

Theorem ordered_ok_sound (k : consts) (its : list iter) :
  ordered_ok k its = true -> trace_disjoint k its.
Proof.
  intros H pre a mid b post E tb w o Htb Hw. subst its.
  apply ordered_ok_app in H. cbn [ordered_ok] in H. apply andb_true_iff in H.
  destruct H as [H _]. rewrite forallb_forall in H.
  assert (In b (mid ++ b :: post)) as Hb by (apply in_or_app; right; left; reflexivity).
  specialize (H b Hb). unfold pair_ok in H. apply andb_true_iff in H. destruct H as [H _].
  rewrite Hw in H. rewrite forallb_forall in H. specialize (H tb Htb). lia.
Qed.

Theorem spec_its_sound (sign : bool) (k : consts) (s0 : Z) (its : list iter) :
  spec_its sign k s0 its = true ->
  (forall it, In it its -> iter_window sign k s0 it) /\ trace_disjoint k its.
Proof.
  unfold spec_its. intro H. apply andb_true_iff in H. destruct H as [H1 H2]. split.
  - intros it Hin. rewrite forallb_forall in H1. apply iter_ok_sound, H1, Hin.
  - apply ordered_ok_sound, H2.
Qed.

(* ------------------------------------------------------------------ *)
(* the theorems restated in Props/C11.v                                *)
(* ------------------------------------------------------------------ *)

(* every run of the model passes the executable spec, whatever the script *)
Theorem model_traces_pass_spec :
  forall (ops : list N) (count self limit : N) (select : N -> list N -> sel) (s0 : Z)
         (script : list step),
    spec_its true sign_consts s0
             (fst (sign_loop sign_consts ops count self select script 0 s0 false)) = true /\
    spec_its false dkg_consts s0
             (fst (dkg_loop dkg_consts count self limit select script 0 s0 false)) = true.
Proof.
  intros ops count self limit select s0 script. split.
  - exact (sign_trace_spec sign_consts ops count self select s0 script sign_consts_ok).
  - exact (dkg_trace_spec dkg_consts ops count self limit select s0 script dkg_consts_ok).
Qed.

Theorem window_function_of_n :
  forall (ops : list N) (count self limit : N) (select : N -> list N -> sel) (s0 : Z)
         (script : list step),
    (forall it, In it (fst (sign_loop sign_consts ops count self select script 0 s0 false)) ->
                iter_window true sign_consts s0 it) /\
    (forall it, In it (fst (dkg_loop dkg_consts count self limit select script 0 s0 false)) ->
                iter_window false dkg_consts s0 it).
Proof.
  intros. destruct (model_traces_pass_spec ops count self limit select s0 script) as [Hs Hd].
  split; intros it Hin.
  - exact (proj1 (spec_its_sound _ _ _ _ Hs) it Hin).
  - exact (proj1 (spec_its_sound _ _ _ _ Hd) it Hin).
Qed.

Theorem windows_disjoint :
  (forall s0 n m, (n < m)%N ->
     timeout sign_consts s0 n < att_start sign_consts s0 m /\
     timeout dkg_consts s0 n < att_start dkg_consts s0 m) /\
  (forall (ops : list N) (count self limit : N) (select : N -> list N -> sel) (s0 : Z)
          (script : list step),
     trace_disjoint sign_consts
       (fst (sign_loop sign_consts ops count self select script 0 s0 false)) /\
     trace_disjoint dkg_consts
       (fst (dkg_loop dkg_consts count self limit select script 0 s0 false))).
Proof.
  split.
  - intros s0 n m H. split; apply window_lt; auto using sign_consts_ok, dkg_consts_ok.
  - intros. destruct (model_traces_pass_spec ops count self limit select s0 script) as [Hs Hd].
    split.
    + exact (proj2 (spec_its_sound _ _ _ _ Hs)).
    + exact (proj2 (spec_its_sound _ _ _ _ Hd)).
Qed.

Theorem participates_only_if_announce_open :
  forall (ops : list N) (count self limit : N) (select : N -> list N -> sel) (s0 : Z)
         (script : list step),
    (* signing: an announcement for attempt n is made only after observing a current block
       below the announcement end block of attempt n; done-check listening and the attempt
       function are reached only through that announcement *)
    (forall it, In it (fst (sign_loop sign_consts ops count self select script 0 s0 false)) ->
       (forall n r, i_ann it = Some (n, r) ->
          exists c, i_cur it = Some (Some c) /\ c < ann_end sign_consts s0 n) /\
       (forall n tb l, i_listen it = Some (n, tb, l) -> exists r, i_ann it = Some (n, r)) /\
       (forall n sb tb ex ok, i_attempt it = Some (n, sb, tb, ex, ok) ->
          exists r, i_ann it = Some (n, r))) /\
    (* key generation: the attempt function is reached only through the announcement of the same
       attempt, made after waiting for its announcement start block and under a watcher for its
       announcement end block (the loop observes no current block) *)
    (forall it, In it (fst (dkg_loop dkg_consts count self limit select script 0 s0 false)) ->
       forall n sb tb ex ok, i_attempt it = Some (n, sb, tb, ex, ok) ->
         exists r, i_ann it = Some (n, r) /\
                   i_wait it = Some (ann_start dkg_consts s0 n, true) /\
                   In (ann_end dkg_consts s0 n) (i_watch it)).
Proof.
  intros. destruct (window_function_of_n ops count self limit select s0 script) as [Hs Hd].
  split.
  - intros it Hin. destruct (Hs it Hin) as [Ha [Hl Ht]]. split; [|split].
    + intros n r E. destruct (Ha n r E) as [_ [_ [_ Hc]]]. exact (Hc eq_refl).
    + intros n tb l E. exact (proj2 (Hl n tb l E)).
    + intros n sb tb ex ok E. exact (proj2 (proj2 (Ht n sb tb ex ok E))).
  - intros it Hin n sb tb ex ok E. destruct (Hd it Hin) as [Ha [_ Ht]].
    destruct (Ht n sb tb ex ok E) as [_ [_ [r Er]]]. exists r. split; [exact Er|].
    destruct (Ha n r Er) as [_ [Hw [Hwatch _]]]. split; assumption.
Qed.

(* ------------------------------------------------------------------ *)
(* the chain's true height                                             *)
(* ------------------------------------------------------------------ *)

(* the executable property does not look at the loop's belief about the height *)
Lemma iter_at_weaken (k : consts) (s0 : Z) (n : N) (it : iter) :
  iter_at true k s0 n it = true -> iter_at false k s0 n it = true.
Proof.
  unfold iter_at. intro H. destruct (i_ann it) as [[m r]|]; [|exact H].
  destruct (i_cur it) as [[c|]|]; try (rewrite !andb_false_r in H; cbn in H; discriminate H).
  rewrite !andb_true_r. rewrite !andb_true_iff in H. rewrite !andb_true_iff. tauto.
Qed.

Lemma iter_ok_weaken (k : consts) (s0 : Z) (it : iter) :
  iter_ok true k s0 it = true -> iter_ok false k s0 it = true.
Proof.
  unfold iter_ok. destruct (i_ann it) as [[n r]|] eqn:E; [|exact (fun H => H)].
  apply iter_at_weaken.
Qed.

Lemma spec_its_weaken (k : consts) (s0 : Z) (its : list iter) :
  spec_its true k s0 its = true -> spec_its false k s0 its = true.
Proof.
  unfold spec_its. intro H. apply andb_true_iff in H. destruct H as [H1 H2].
  apply andb_true_iff. split; [|exact H2].
  rewrite forallb_forall in H1. apply forallb_forall. intros it Hin.
  apply iter_ok_weaken, H1, Hin.
Qed.

(* [hs] gives the chain's true height during each iteration of a script: wherever the scripted
   current-block query answers (st_cur = Some c), it answers the true height *)
Fixpoint sees (script : list step) (hs : list Z) : Prop :=
  match script, hs with
  | [], _ => True
  | s :: t, h :: t' => (forall c, st_cur s = Some c -> c = h) /\ sees t t'
  | _ :: _, [] => False
  end.

(* every announcing iteration runs below the announcement end block of its attempt *)
Definition truth (k : consts) (s0 : Z) (its : list iter) (hs : list Z) : Prop :=
  Forall2 (fun it h => forall n r, i_ann it = Some (n, r) -> h < ann_end k s0 n) its hs.

Theorem truth_ok_sound (k : consts) (s0 : Z) (its : list iter) : forall hs,
  truth_ok k s0 its hs = true -> truth k s0 its hs.
Proof.
  unfold truth. induction its as [|it t IH]; intros [|h t'] H; try discriminate H.
  - constructor.
  - cbn [truth_ok] in H. apply andb_true_iff in H. destruct H as [Hh Ht].
    constructor; [|exact (IH _ Ht)].
    intros n r E. unfold height_ok in Hh. rewrite E in Hh. lia.
Qed.

Section TrueHeight.
  Variable k : consts.
  Variable ops : list N.
  Variable count : N.
  Variable self : N.
  Variable select : N -> list N -> sel.
  Variable s0 : Z.

  Lemma sign_loop_truth (script : list step) : forall hs counter start cancelled,
    next_start k counter start = att_start k s0 (counter + 1) ->
    sees script hs ->
    let its := fst (sign_loop k ops count self select script counter start cancelled) in
    truth_ok k s0 its (firstn (length its) hs) = true.
  Proof.
    induction script as [|s rest IH]; intros hs counter start cancelled Hinv Hsees.
    - cbn [sign_loop]. destruct cancelled; reflexivity.
    - destruct hs as [|h t']; [destruct Hsees|]. destruct Hsees as [Hh Ht].
      cbn [sign_loop]. destruct cancelled; [reflexivity|].
      fold (next_start k counter start). rewrite Hinv.
      assert (forall c,
                 truth_ok k s0
                   (fst (sign_loop k ops count self select rest (counter + 1)
                           (att_start k s0 (counter + 1)) c))
                   (firstn (length (fst (sign_loop k ops count self select rest (counter + 1)
                                           (att_start k s0 (counter + 1)) c))) t') = true) as IH'.
      { intro c. apply IH; [exact (next_start_step k ops select s0 counter)|exact Ht]. }
      cbv zeta. split_all; cbn [fst snd prepend length firstn truth_ok];
        rewrite ?IH', ?andb_true_r;
        try match goal with H : st_cur s = Some _ |- _ => pose proof (Hh _ H) end;
        unfold height_ok, ann_end, ann_start; cbn [i_ann]; try reflexivity; lia.
  Qed.

  Theorem sign_trace_truth (script : list step) (hs : list Z) :
    sees script hs ->
    let its := fst (sign_loop k ops count self select script 0 s0 false) in
    truth_ok k s0 its (firstn (length its) hs) = true.
  Proof. intro H. apply sign_loop_truth; [apply next_start_init|exact H]. Qed.
End TrueHeight.

(* the signing loop takes part in attempt n only while the chain's true height is below the
   announcement end block of attempt n — whatever the script, provided the current-block query
   reports the true height whenever it answers *)
Theorem model_respects_true_height :
  forall (ops : list N) (count self : N) (select : N -> list N -> sel) (s0 : Z)
         (script : list step) (hs : list Z),
    sees script hs ->
    let its := fst (sign_loop sign_consts ops count self select script 0 s0 false) in
    truth sign_consts s0 its (firstn (length its) hs).
Proof.
  intros. apply truth_ok_sound. apply sign_trace_truth. assumption.
Qed.

(* the executable property of a case is sound ... *)
Theorem spec_ok_sound :
  forall c : case,
    spec_ok c = true ->
    (forall it, In it (c_its c) -> iter_window false (consts_of (c_kind c)) (c_start c) it) /\
    trace_disjoint (consts_of (c_kind c)) (c_its c) /\
    (c_kind c = KSign -> truth sign_consts (c_start c) (c_its c) (c_truth c)).
Proof.
  intros c H. unfold spec_ok in H. apply andb_true_iff in H. destruct H as [H1 H2].
  destruct (spec_its_sound _ _ _ _ H1) as [Hw Hd]. split; [exact Hw|]. split; [exact Hd|].
  intro Ek. rewrite Ek in H2. cbn [is_sign consts_of] in H2. apply truth_ok_sound. exact H2.
Qed.

(* ... and holds of every run of the model on a chain whose height the script reports truthfully *)
Theorem model_cases_pass_spec_ok :
  forall c : case,
    c_its c = fst (Concrete.run c) ->
    (exists hs, sees (c_script c) hs /\ c_truth c = firstn (length (c_its c)) hs) ->
    spec_ok c = true.
Proof.
  intros c Hrun [hs [Hsees Htruth]]. unfold spec_ok. rewrite Htruth, Hrun. clear Htruth Hrun.
  unfold Concrete.run. destruct (c_kind c); cbn [is_sign consts_of].
  - apply andb_true_iff. split.
    + apply spec_its_weaken. apply sign_trace_spec, sign_consts_ok.
    + apply sign_trace_truth. exact Hsees.
  - rewrite andb_true_r. apply (dkg_trace_spec dkg_consts (c_ops c)), dkg_consts_ok.
Qed.

(* ---- the hypotheses are satisfiable: a signing run with a failed first attempt and a
   successful second one, and a key-generation run; the expected blocks are written with the
   window function so that the examples survive a change of the constants ---- *)
Definition ex_step (att : bool) : step :=
  {| st_cancel := 0; st_cur := Some 100; st_wait := true; st_ann := Some [1; 2; 3]%N;
     st_att := att; st_sig := true; st_done := true |}.
Example ex_sign_run :
  let r := sign_loop sign_consts [1; 2; 3]%N 3 1 (fun _ _ => SOk []) [ex_step false; ex_step true]
                     0 100 false in
  map i_attempt (fst r) =
    [Some (1%N, ann_end sign_consts 100 1, timeout sign_consts 100 1, [], false);
     Some (2%N, ann_end sign_consts 100 2, timeout sign_consts 100 2, [], true)] /\
  snd r = ODone (timeout sign_consts 100 2).
Proof. vm_compute. split; reflexivity. Qed.
Example ex_dkg_run :
  let r := dkg_loop dkg_consts 3 1 0 (fun _ _ => SOk []) [ex_step false; ex_step true]
                    0 100 false in
  map i_attempt (fst r) =
    [Some (1%N, ann_end dkg_consts 100 1, timeout dkg_consts 100 1, [], false);
     Some (2%N, ann_end dkg_consts 100 2, timeout dkg_consts 100 2, [], true)] /\
  snd r = ODone (timeout dkg_consts 100 2).
Proof. vm_compute. split; reflexivity. Qed.
(* a late starter: attempt 1 is over at the true height, attempt 2 is joined and fails, the
   chain is then past attempt 3, attempt 4 succeeds; [sees] holds of the script and its heights *)
Definition ex_late (h : Z) (ann : list N) : step :=
  {| st_cancel := 0; st_cur := Some h; st_wait := true; st_ann := Some ann;
     st_att := true; st_sig := true; st_done := true |}.
Example ex_late_run :
  let a := ann_end sign_consts 200 in
  let script := [ex_late (a 1) [1; 2; 3]; ex_late (a 1) [1]; ex_late (a 3) [1; 2; 3];
                 ex_late (a 3) [1; 2; 3]]%N in
  let hs := [a 1%N; a 1%N; a 3%N; a 3%N] in
  sees script hs /\
  let r := sign_loop sign_consts [1; 2; 3]%N 2 1 (fun _ _ => SOk []) script 0 200 false in
  map ann_no (fst r) = [None; Some 2%N; None; Some 4%N] /\
  snd r = ODone (timeout sign_consts 200 4) /\
  truth_ok sign_consts 200 (fst r) hs = true.
Proof.
  cbv zeta. split.
  - cbn [sees ex_late st_cur]. repeat split; intros c E; injection E as <-; reflexivity.
  - vm_compute. repeat split; reflexivity.
Qed.
