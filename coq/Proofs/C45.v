(* C45 — proofs about the model of generator.Scheduler / ProtocolLatch (Model/C45.v).  The
   statements restated in Props/C45.v are the theorems at the end of this file. *)
From Coq Require Import Arith NArith List Bool Lia.
From Coq Require Import ZifyBool ZifyNat ZifyN.
From KV Require Import Common.Verdict Model.C45.
Import ListNotations.

(* ------------------------------------------------------------------ *)
(* start / stop / resume / compute                                     *)
(* ------------------------------------------------------------------ *)

Lemma fold_start_frame ws : forall s,
  let s' := fold_left start ws s in
  working s' = working s /\ workers s' = workers s /\ latches s' = latches s /\
  regs s' = regs s /\ chk s' = chk s /\ map fst (live s') = map fst (live s) ++ ws.
Proof.
  induction ws as [|w t IH]; intros s; cbn [fold_left].
  - repeat split; try reflexivity. rewrite app_nil_r. reflexivity.
  - destruct (IH (start s w)) as [E1 [E2 [E3 [E4 [E5 E6]]]]]. cbn zeta.
    rewrite E1, E2, E3, E4, E5, E6. cbn [start working workers latches regs chk live].
    repeat split; try reflexivity. rewrite map_app. cbn [map fst]. rewrite <- app_assoc. reflexivity.
Qed.

Lemma stop_spec s :
  working (stop s) = false /\ (working s = false -> live s = [] -> live (stop s) = []) /\
  (working s = true -> live (stop s) = []) /\
  workers (stop s) = workers s /\ latches (stop s) = latches s /\ regs (stop s) = regs s /\
  chk (stop s) = chk s.
Proof.
  unfold stop. destruct (working s) eqn:E; cbn [working live workers latches regs chk];
    repeat split; try reflexivity; try assumption; try discriminate. intros _ H; exact H.
Qed.

Lemma resume_spec s :
  (working s = false -> live s = []) ->
  (working s = true -> map fst (live s) = workers s) ->
  working (resume s) = true /\ map fst (live (resume s)) = workers (resume s) /\
  workers (resume s) = workers s /\ latches (resume s) = latches s /\ regs (resume s) = regs s /\
  chk (resume s) = chk s.
Proof.
  intros H0 H1. unfold resume. destruct (working s) eqn:E.
  - repeat split; try reflexivity; try exact E; try (apply H1; reflexivity).
  - match goal with |- context [fold_left start ?ws ?s0] => destruct (fold_start_frame ws s0) as [E1 [E2 [E3 [E4 [E5 E6]]]]] end.
    cbn zeta in *. rewrite E1, E2, E3, E4, E5, E6. cbn [working workers latches regs chk live].
    rewrite (H0 eq_refl). repeat split; reflexivity.
Qed.

(* ------------------------------------------------------------------ *)
(* the invariant                                                       *)
(* ------------------------------------------------------------------ *)

Record Inv (s : sched) : Prop := {
  inv_work : working s = true -> map fst (live s) = workers s;
  inv_stop : working s = false -> live s = [];
  inv_chk : forall rem, chk s = Some rem -> rem <> [] /\ incl rem (regs s) }.

Lemma inv_set_chk s c :
  Inv s -> (forall rem, c = Some rem -> rem <> [] /\ incl rem (regs s)) -> Inv (set_chk s c).
Proof. intros [I1 I2 I3] H. constructor; cbn [set_chk working live workers chk regs]; assumption. Qed.

Lemma inv_stop_s s : Inv s -> Inv (stop s).
Proof.
  intros [I1 I2 I3]. destruct (stop_spec s) as [S1 [S2 [S3 [S4 [S5 [S6 S7]]]]]]. constructor.
  - rewrite S1. discriminate.
  - intros _. destruct (working s) eqn:E; [apply S3; reflexivity|apply S2; [reflexivity|apply I2; reflexivity]].
  - rewrite S6, S7. exact I3.
Qed.

Lemma inv_resume s : Inv s -> Inv (resume s).
Proof.
  intros [I1 I2 I3]. destruct (resume_spec s I2 I1) as [R1 [R2 [R3 [R4 [R5 R6]]]]]. constructor.
  - intros _. exact R2.
  - rewrite R1. discriminate.
  - rewrite R5, R6. exact I3.
Qed.

Lemma inv_compute s w : Inv s -> Inv (compute s w).
Proof.
  intros [I1 I2 I3]. unfold compute. destruct (working s) eqn:E.
  - constructor; cbn [start working live workers chk regs].
    + intros _. rewrite map_app. cbn [map fst]. rewrite (I1 eq_refl). reflexivity.
    + try rewrite E; discriminate.
    + exact I3.
  - constructor; cbn [working live workers chk regs].
    + try rewrite E; discriminate.
    + intros _. apply I2. reflexivity.
    + exact I3.
Qed.

Lemma init_inv nl : Inv (init nl).
Proof. constructor; cbn [init working live workers chk]; try reflexivity; discriminate. Qed.

Lemma step_inv s o : Inv s -> Inv (fst (step s o)).
Proof.
  intro I. pose proof I as [I1 I2 I3]. destruct o as [p|p|p|w|w| | |]; cbn [step].
  - cbn [fst]. constructor; cbn [set_latches working live workers chk regs]; assumption.
  - destruct (latch s p =? 0)%N; cbn [fst]; [exact I|].
    constructor; cbn [set_latches working live workers chk regs]; assumption.
  - destruct (chk s) eqn:Ec; cbn [fst]; [exact I|].
    constructor; cbn [working live workers chk regs]; try assumption. discriminate.
  - cbn [fst]. apply inv_compute. exact I.
  - exact I.
  - destruct (chk s) eqn:Ec; cbn [fst]; [exact I|].
    destruct (regs s) eqn:Er; cbn [fst]; [exact I|].
    destruct (existsb (executing s) (n :: l)); [apply inv_stop_s|apply inv_resume]; exact I.
  - destruct (chk s) eqn:Ec; cbn [fst]; [exact I|].
    destruct (regs s) eqn:Er; cbn [fst]; [exact I|].
    apply inv_set_chk; [exact I|]. intros rem E. inversion E; subst. rewrite Er.
    split; [discriminate|apply incl_refl].
  - unfold check_step. destruct (chk s) as [[|p rest]|] eqn:Ec; cbn [fst]; [| |exact I].
    + apply inv_set_chk; [apply inv_resume; exact I|discriminate].
    + destruct (executing s p); cbn [fst].
      * apply inv_set_chk; [apply inv_stop_s; exact I|discriminate].
      * destruct rest as [|q rest']; cbn [fst].
        -- apply inv_set_chk; [apply inv_resume; exact I|discriminate].
        -- apply inv_set_chk; [exact I|]. intros rem E. inversion E; subst.
           split; [discriminate|]. destruct (I3 _ eq_refl) as [_ Hin].
           intros x Hx. apply Hin. right; exact Hx.
Qed.

Lemma run_inv ops : forall s, Inv s -> Inv (run s ops).
Proof.
  unfold run. induction ops as [|o t IH]; intros s I; cbn [fold_left]; [exact I|].
  apply IH. apply step_inv. exact I.
Qed.

(* ---- in every reachable state ---- *)
Theorem one_live_context_per_worker_iff_working nl ops :
  let s := run (init nl) ops in
  (working s = true -> map fst (live s) = workers s) /\ (working s = false -> live s = []).
Proof.
  cbn zeta. pose proof (run_inv ops (init nl) (init_inv nl)) as [I1 I2 _]. split; assumption.
Qed.

(* ------------------------------------------------------------------ *)
(* the atomic check                                                    *)
(* ------------------------------------------------------------------ *)

Lemma existsb_executing s l :
  existsb (executing s) l = true <-> exists p, In p l /\ (0 < latch s p)%N.
Proof.
  rewrite existsb_exists. unfold executing. split; intros [p [H1 H2]]; exists p; split; try exact H1; lia.
Qed.

Lemma check_stops s :
  Inv s -> chk s = None -> (exists p, In p (regs s) /\ (0 < latch s p)%N) ->
  snd (step s Check) = RDone /\ working (fst (step s Check)) = false /\ live (fst (step s Check)) = [].
Proof.
  intros I Ec Hex. cbn [step]. rewrite Ec. destruct (regs s) as [|r0 rs] eqn:Er.
  - destruct Hex as [p [[] _]].
  - apply existsb_executing in Hex. rewrite Hex. cbn [fst snd].
    pose proof (inv_stop_s s I) as [_ J2 _]. destruct (stop_spec s) as [S1 _].
    repeat split; [exact S1|apply J2; exact S1].
Qed.

Lemma check_resumes s :
  Inv s -> chk s = None -> regs s <> [] -> (forall p, In p (regs s) -> latch s p = 0%N) ->
  snd (step s Check) = RDone /\ working (fst (step s Check)) = true /\
  map fst (live (fst (step s Check))) = workers (fst (step s Check)) /\
  workers (fst (step s Check)) = workers s.
Proof.
  intros I Ec Hne Hz. cbn [step]. rewrite Ec. destruct (regs s) as [|r0 rs] eqn:Er; [contradiction|].
  assert (Hf : existsb (executing s) (r0 :: rs) = false).
  { destruct (existsb (executing s) (r0 :: rs)) eqn:E; [|reflexivity].
    apply existsb_executing in E. destruct E as [p [Hp Hl]]. rewrite (Hz p Hp) in Hl. lia. }
  rewrite Hf. cbn [fst snd]. pose proof I as [I1 I2 _].
  destruct (resume_spec s I2 I1) as [R1 [R2 [R3 _]]]. repeat split; assumption.
Qed.

Theorem check_with_executing_protocol_stops nl ops :
  let s := run (init nl) ops in
  chk s = None -> (exists p, In p (regs s) /\ (0 < latch s p)%N) ->
  snd (step s Check) = RDone /\ working (fst (step s Check)) = false /\ live (fst (step s Check)) = [].
Proof. cbn zeta. apply check_stops. apply run_inv. apply init_inv. Qed.

Theorem check_with_no_executing_protocol_resumes nl ops :
  let s := run (init nl) ops in
  chk s = None -> regs s <> [] -> (forall p, In p (regs s) -> latch s p = 0%N) ->
  snd (step s Check) = RDone /\ working (fst (step s Check)) = true /\
  map fst (live (fst (step s Check))) = workers (fst (step s Check)) /\
  workers (fst (step s Check)) = workers s.
Proof. cbn zeta. apply check_resumes. apply run_inv. apply init_inv. Qed.

(* ------------------------------------------------------------------ *)
(* latches count                                                       *)
(* ------------------------------------------------------------------ *)

Lemma upd_length l : forall p f, length (upd l p f) = length l.
Proof. induction l as [|x t IH]; intros [|p] f; cbn [upd length]; try reflexivity. rewrite IH. reflexivity. Qed.

Lemma nth_upd l : forall p q f, (p < length l)%nat ->
  nth p (upd l q f) 0%N = if Nat.eqb q p then f (nth p l 0%N) else nth p l 0%N.
Proof.
  induction l as [|x t IH]; intros p q f Hp; cbn [length] in Hp; [lia|].
  destruct q as [|q], p as [|p]; cbn [upd nth Nat.eqb]; try reflexivity.
  apply IH. lia.
Qed.

Lemma step_latches s o p : (p < length (latches s))%nat ->
  (length (latches (fst (step s o))) = length (latches s)) /\
  latch (fst (step s o)) p = depth p (latch s p) [o].
Proof.
  intro Hp. unfold latch. destruct o as [q|q|q|w|w| | |]; cbn [step depth].
  - cbn [fst set_latches latches]. rewrite upd_length. split; [reflexivity|]. apply nth_upd. exact Hp.
  - destruct (N.eqb_spec (latch s q) 0) as [E|E]; cbn [fst].
    + split; [reflexivity|]. destruct (Nat.eqb_spec q p) as [Eq|Eq]; [|reflexivity].
      subst. unfold latch in E. rewrite E. reflexivity.
    + cbn [set_latches latches]. rewrite upd_length. split; [reflexivity|]. apply nth_upd. exact Hp.
  - destruct (chk s); cbn [fst latches]; split; reflexivity.
  - cbn [fst]. unfold compute. destruct (working s); cbn [start latches]; split; reflexivity.
  - cbn [fst]. split; reflexivity.
  - destruct (chk s); cbn [fst]; [split; reflexivity|].
    destruct (regs s); cbn [fst]; [split; reflexivity|].
    destruct (existsb (executing s) (n :: l)).
    + destruct (stop_spec s) as [_ [_ [_ [_ [S5 _]]]]]. rewrite S5. split; reflexivity.
    + unfold resume. destruct (working s); [split; reflexivity|].
      match goal with |- context [fold_left start ?ws ?s0] => destruct (fold_start_frame ws s0) as [_ [_ [E3 _]]] end.
      cbn zeta in E3. rewrite E3. split; reflexivity.
  - destruct (chk s); cbn [fst]; [split; reflexivity|].
    destruct (regs s); cbn [fst set_chk latches]; split; reflexivity.
  - unfold check_step.
    assert (Hres : latches (resume s) = latches s).
    { unfold resume. destruct (working s); [reflexivity|].
      match goal with |- context [fold_left start ?ws ?s0] => destruct (fold_start_frame ws s0) as [_ [_ [E3 _]]] end.
      exact E3. }
    assert (Hstop : latches (stop s) = latches s) by (destruct (stop_spec s) as [_ [_ [_ [_ [S5 _]]]]]; exact S5).
    destruct (chk s) as [[|q rest]|]; cbn [fst set_chk latches]; try (rewrite Hres; split; reflexivity);
      [|split; reflexivity].
    destruct (executing s q); cbn [fst set_chk latches]; [rewrite Hstop; split; reflexivity|].
    destruct rest; cbn [fst set_chk latches]; [rewrite Hres|]; split; reflexivity.
Qed.

Lemma depth_app p ops1 : forall d ops2, depth p d (ops1 ++ ops2) = depth p (depth p d ops1) ops2.
Proof.
  induction ops1 as [|o t IH]; intros d ops2; cbn [app depth]; [reflexivity|].
  destruct o; cbn [depth]; apply IH.
Qed.

Theorem latch_counts_locks_minus_unlocks ops : forall s p,
  (p < length (latches s))%nat -> latch (run s ops) p = depth p (latch s p) ops.
Proof.
  unfold run. induction ops as [|o t IH]; intros s p Hp; cbn [fold_left]; [reflexivity|].
  destruct (step_latches s o p Hp) as [El Ed]. rewrite IH by (rewrite El; exact Hp).
  rewrite Ed. change (o :: t) with ([o] ++ t). rewrite depth_app. reflexivity.
Qed.

Lemma init_latch nl p : latch (init nl) p = 0%N.
Proof.
  unfold latch, init. cbn [latches]. revert p. induction nl as [|n IH]; intros [|p]; cbn [repeat nth]; try reflexivity.
  apply IH.
Qed.

Theorem generation_stays_paused_while_an_execution_is_open nl ops p :
  (p < nl)%nat ->
  let s := run (init nl) ops in
  chk s = None -> In p (regs s) -> (0 < depth p 0 ops)%N ->
  working (fst (step s Check)) = false /\ live (fst (step s Check)) = [].
Proof.
  intros Hp s Ec Hin Hd.
  assert (Hl : latch s p = depth p 0 ops).
  { unfold s. rewrite latch_counts_locks_minus_unlocks.
    - rewrite init_latch. reflexivity.
    - cbn [init latches]. rewrite repeat_length. exact Hp. }
  destruct (check_stops s (run_inv ops _ (init_inv nl)) Ec) as [_ [H1 H2]].
  - exists p. split; [exact Hin|]. rewrite Hl. exact Hd.
  - split; assumption.
Qed.

(* ------------------------------------------------------------------ *)
(* the check interleaved with other operations                         *)
(* ------------------------------------------------------------------ *)

Lemma run_cons s o t : run s (o :: t) = run (fst (step s o)) t.
Proof. reflexivity. Qed.

(* held: p is registered and either the check in progress has yet to ask p, or the
   scheduler is stopped with no live context *)
Definition Held (p : nat) (s : sched) : Prop :=
  In p (regs s) /\
  ((exists rem, chk s = Some rem /\ In p rem) \/ (chk s = None /\ working s = false /\ live s = [])).

Lemma held_step p s o : Inv s -> Held p s -> (0 < latch s p)%N -> Held p (fst (step s o)).
Proof.
  intros I [Hr Hc] Hl. destruct o as [q|q|q|w|w| | |]; cbn [step].
  - cbn [fst]. split; [exact Hr|exact Hc].
  - destruct (latch s q =? 0)%N; cbn [fst]; split; assumption.
  - case_eq (chk s); [intros c0 Ec|intros Ec]; cbn [fst]; [split; assumption|].
    split; cbn [regs chk working live]; [apply in_or_app; left; exact Hr|].
    destruct Hc as [[rem [E _]]|[_ Hc]]; [congruence|right; split; [reflexivity|exact Hc]].
  - cbn [fst]. unfold compute. destruct Hc as [[rem [E Hin]]|[E [Hw Hlv]]].
    + destruct (working s); (split; cbn [start regs chk]; [exact Hr|left; exists rem; split; assumption]).
    + rewrite Hw. split; cbn [regs chk working live]; [exact Hr|right; repeat split; assumption].
  - cbn [fst]. split; assumption.
  - case_eq (chk s); [intros c0 Ec|intros Ec]; cbn [fst]; [split; assumption|].
    destruct Hc as [[rem [E _]]|[_ [Hw Hlv]]]; [congruence|].
    destruct (regs s) as [|r0 rs] eqn:Er; [destruct Hr|].
    assert (Hex : existsb (executing s) (r0 :: rs) = true).
    { apply existsb_executing. exists p. split; [exact Hr|exact Hl]. }
    rewrite Hex. cbn [fst]. unfold stop. rewrite Hw. split; [rewrite Er; exact Hr|].
    right. repeat split; assumption.
  - case_eq (chk s); [intros c0 Ec|intros Ec]; cbn [fst]; [split; assumption|].
    destruct (regs s) as [|r0 rs] eqn:Er; [destruct Hr|]. cbn [fst].
    split; cbn [set_chk regs chk]; [rewrite Er; exact Hr|]. left. exists (r0 :: rs). split; [reflexivity|exact Hr].
  - unfold check_step. destruct Hc as [[rem [E Hin]]|[E [Hw Hlv]]].
    + rewrite E. destruct rem as [|q rest]; [destruct Hin|].
      destruct (executing s q) eqn:Eq; cbn [fst].
      * destruct (stop_spec s) as [S1 [_ [_ [_ [_ [S6 _]]]]]]. pose proof (inv_stop_s s I) as [_ J2 _].
        split; cbn [set_chk regs chk working live]; [rewrite S6; exact Hr|]. right.
        repeat split; [exact S1|apply J2; exact S1].
      * destruct Hin as [Eqp|Hin]; [subst q; unfold executing in Eq; lia|].
        destruct rest as [|q' rest']; [destruct Hin|]. cbn [fst].
        split; cbn [set_chk regs chk]; [exact Hr|]. left. exists (q' :: rest'). split; [reflexivity|exact Hin].
    + rewrite E. cbn [fst]. split; [exact Hr|]. right. repeat split; assumption.
Qed.

Theorem interleaved_check_stops_if_held_throughout p ops : forall s,
  Inv s -> Held p s -> always (fun s => (0 < latch s p)%N) s ops ->
  chk (run s ops) = None -> working (run s ops) = false /\ live (run s ops) = [].
Proof.
  induction ops as [|o t IH]; intros s I H Ha Hc.
  - cbn [run fold_left] in *. destruct H as [_ [[rem [E _]]|[_ [Hw Hl]]]]; [rewrite E in Hc; discriminate|].
    split; assumption.
  - rewrite run_cons in *. cbn [always] in Ha. destruct Ha as [Hp Ha].
    apply IH; [apply step_inv; exact I|apply held_step; assumption|exact Ha|exact Hc].
Qed.

(* idle: every registered latch is at zero *)
Definition all_idle (s : sched) : Prop := forall p, In p (regs s) -> latch s p = 0%N.

Definition Idle (s : sched) : Prop :=
  (exists rem, chk s = Some rem) \/ (chk s = None /\ working s = true).

Lemma idle_step s o : Inv s -> Idle s -> all_idle s -> Idle (fst (step s o)).
Proof.
  intros I H Hz. pose proof I as [I1 I2 I3]. destruct o as [q|q|q|w|w| | |]; cbn [step].
  - cbn [fst]. exact H.
  - destruct (latch s q =? 0)%N; cbn [fst]; exact H.
  - case_eq (chk s); [intros c0 Ec|intros Ec]; cbn [fst]; [exact H|].
    destruct H as [[rem E]|[_ Hw]]; [congruence|]. right. split; [reflexivity|exact Hw].
  - cbn [fst]. unfold compute. destruct H as [[rem E]|[E Hw]].
    + left. exists rem. destruct (working s); cbn [start chk]; exact E.
    + right. rewrite Hw. cbn [start chk working]. split; [exact E|reflexivity].
  - cbn [fst]. exact H.
  - case_eq (chk s); [intros c0 Ec|intros Ec]; cbn [fst]; [exact H|].
    destruct H as [[rem E]|[_ Hw]]; [congruence|].
    destruct (regs s) as [|r0 rs] eqn:Er; cbn [fst]; [right; split; assumption|].
    assert (Hf : existsb (executing s) (r0 :: rs) = false).
    { destruct (existsb (executing s) (r0 :: rs)) eqn:E; [|reflexivity].
      apply existsb_executing in E. destruct E as [p [Hp Hl]]. unfold all_idle in Hz. rewrite Er in Hz.
      rewrite (Hz p Hp) in Hl. lia. }
    rewrite Hf. destruct (resume_spec s I2 I1) as [R1 [_ [_ [_ [_ R6]]]]]. right. rewrite R6. split; assumption.
  - case_eq (chk s); [intros c0 Ec|intros Ec]; cbn [fst]; [exact H|].
    destruct H as [[rem E]|[_ Hw]]; [congruence|].
    destruct (regs s) as [|r0 rs] eqn:Er; cbn [fst]; [right; split; assumption|].
    left. exists (r0 :: rs). reflexivity.
  - unfold check_step. destruct (chk s) as [[|q rest]|] eqn:Ec; cbn [fst].
    + destruct (resume_spec s I2 I1) as [R1 _]. right. cbn [set_chk chk working]. split; [reflexivity|exact R1].
    + destruct (I3 _ eq_refl) as [_ Hin].
      assert (Hq : executing s q = false).
      { unfold executing. rewrite (Hz q (Hin q (or_introl eq_refl))). reflexivity. }
      rewrite Hq. destruct rest as [|q' rest']; cbn [fst].
      * destruct (resume_spec s I2 I1) as [R1 _]. right. cbn [set_chk chk working]. split; [reflexivity|exact R1].
      * left. exists (q' :: rest'). reflexivity.
    + exact H.
Qed.

Theorem interleaved_check_resumes_if_idle_throughout ops : forall s,
  Inv s -> Idle s -> always all_idle s ops ->
  chk (run s ops) = None ->
  working (run s ops) = true /\ map fst (live (run s ops)) = workers (run s ops).
Proof.
  induction ops as [|o t IH]; intros s I H Ha Hc.
  - cbn [run fold_left] in *. destruct H as [[rem E]|[_ Hw]]; [rewrite E in Hc; discriminate|].
    split; [exact Hw|apply (inv_work s I); exact Hw].
  - rewrite run_cons in *. cbn [always] in Ha. destruct Ha as [Hp Ha].
    apply IH; [apply step_inv; exact I|apply idle_step; assumption|exact Ha|exact Hc].
Qed.

(* the statements of Props/C45.v start from a reachable state in which a check begins *)
Theorem interleaved_check_stops nl ops0 ops p :
  let s := run (init nl) ops0 in
  chk s = None -> In p (regs s) ->
  always (fun s => (0 < latch s p)%N) (fst (step s CheckBegin)) ops ->
  let s' := run s (CheckBegin :: ops) in
  chk s' = None -> working s' = false /\ live s' = [].
Proof.
  intros s Ec Hin Ha s' Hc. unfold s'. rewrite run_cons.
  assert (I : Inv s) by (apply run_inv; apply init_inv).
  apply (interleaved_check_stops_if_held_throughout p); [apply step_inv; exact I| |exact Ha|exact Hc].
  cbn [step]. rewrite Ec. destruct (regs s) as [|r0 rs] eqn:Er; [destruct Hin|]. cbn [fst].
  split; cbn [set_chk regs chk]; [rewrite Er; exact Hin|]. left. exists (r0 :: rs). split; [reflexivity|exact Hin].
Qed.

Theorem interleaved_check_resumes nl ops0 ops :
  let s := run (init nl) ops0 in
  chk s = None -> regs s <> [] ->
  always all_idle (fst (step s CheckBegin)) ops ->
  let s' := run s (CheckBegin :: ops) in
  chk s' = None -> working s' = true /\ map fst (live s') = workers s'.
Proof.
  intros s Ec Hne Ha s' Hc. unfold s'. rewrite run_cons.
  assert (I : Inv s) by (apply run_inv; apply init_inv).
  apply interleaved_check_resumes_if_idle_throughout; [apply step_inv; exact I| |exact Ha|exact Hc].
  cbn [step]. rewrite Ec. destruct (regs s) as [|r0 rs] eqn:Er; [contradiction|]. cbn [fst].
  left. exists (r0 :: rs). reflexivity.
Qed.

(* the atomic check is the interleaved one with nothing in between *)
Lemma check_steps_finish : forall rem s,
  Inv s -> chk s = Some rem -> rem <> [] ->
  let s' := run s (repeat CheckStep (length rem)) in
  chk s' = None /\
  (existsb (executing s) rem = true -> working s' = false /\ live s' = []) /\
  (existsb (executing s) rem = false -> working s' = true /\ map fst (live s') = workers s').
Proof.
  induction rem as [|q rest IH]; intros s I Ec Hne; [contradiction|].
  cbn [length repeat]. rewrite run_cons. cbn [step]. unfold check_step. rewrite Ec.
  pose proof I as [I1 I2 I3].
  assert (Hnone : forall n s0, chk s0 = None -> run s0 (repeat CheckStep n) = s0).
  { induction n as [|n IHn]; intros s0 E0; cbn [repeat]; [reflexivity|].
    rewrite run_cons. cbn [step]. unfold check_step. rewrite E0. cbn [fst]. apply IHn. exact E0. }
  cbn [existsb]. destruct (executing s q) eqn:Eq; cbn [fst orb].
  - rewrite Hnone by reflexivity. cbn [set_chk chk working live].
    destruct (stop_spec s) as [S1 _]. pose proof (inv_stop_s s I) as [_ J2 _].
    split; [reflexivity|]. split; [intros _; split; [exact S1|apply J2; exact S1]|discriminate].
  - destruct rest as [|q' rest'].
    + cbn [fst length repeat existsb]. unfold run. cbn [fold_left set_chk chk working live workers].
      destruct (resume_spec s I2 I1) as [R1 [R2 _]].
      split; [reflexivity|]. split; [discriminate|intros _; split; assumption].
    + cbn [fst]. set (s1 := set_chk s (Some (q' :: rest'))).
      assert (I' : Inv s1).
      { apply inv_set_chk; [exact I|]. intros rem E. inversion E; subst. split; [discriminate|].
        destruct (I3 _ Ec) as [_ Hin]. intros x Hx. apply Hin. right; exact Hx. }
      specialize (IH s1 I' eq_refl ltac:(discriminate)). cbn zeta in IH.
      assert (Eex : existsb (executing s1) (q' :: rest') = existsb (executing s) (q' :: rest')) by reflexivity.
      rewrite Eex in IH. exact IH.
Qed.

Theorem atomic_check_is_interleaved_check_without_interleaving nl ops0 :
  let s := run (init nl) ops0 in
  chk s = None ->
  let a := fst (step s Check) in
  let b := run s (CheckBegin :: repeat CheckStep (length (regs s))) in
  chk b = None /\ working b = working a /\ map fst (live b) = map fst (live a) /\ workers b = workers a.
Proof.
  intros s Ec a b. assert (I : Inv s) by (apply run_inv; apply init_inv).
  unfold a, b. rewrite run_cons. cbn [step]. rewrite Ec.
  destruct (regs s) as [|r0 rs] eqn:Er.
  - cbn [fst length repeat run fold_left]. repeat split; try reflexivity. exact Ec.
  - cbn [fst]. set (s1 := set_chk s (Some (r0 :: rs))).
    assert (I' : Inv s1).
    { apply inv_set_chk; [exact I|]. intros rem E. inversion E; subst. split; [discriminate|].
      rewrite Er. apply incl_refl. }
    destruct (check_steps_finish (r0 :: rs) s1 I' eq_refl ltac:(discriminate)) as [H1 [H2 H3]].
    assert (Eex : existsb (executing s1) (r0 :: rs) = existsb (executing s) (r0 :: rs)) by reflexivity.
    rewrite Eex in H2, H3. pose proof I as [I1 I2 _].
    assert (Hw : workers (run s1 (repeat CheckStep (length (r0 :: rs)))) = workers s).
    { clear. generalize (length (r0 :: rs)). intro n. revert s1. generalize (Some (r0 :: rs)). intros c s1.
      assert (G : forall n s0, workers (run s0 (repeat CheckStep n)) = workers s0).
      { induction n0 as [|n0 IHn]; intros s0; cbn [repeat]; [reflexivity|].
        rewrite run_cons, IHn. cbn [step]. unfold check_step.
        assert (Hres : workers (resume s0) = workers s0).
        { unfold resume. destruct (working s0); [reflexivity|].
          match goal with |- context [fold_left start ?ws ?x] => destruct (fold_start_frame ws x) as [_ [E2 _]] end.
          exact E2. }
        assert (Hstop : workers (stop s0) = workers s0) by (destruct (stop_spec s0) as [_ [_ [_ [S4 _]]]]; exact S4).
        destruct (chk s0) as [[|q rest]|]; cbn [fst set_chk workers]; try assumption; try reflexivity.
        destruct (executing s0 q); cbn [fst set_chk workers]; [exact Hstop|].
        destruct rest; cbn [fst set_chk workers]; [exact Hres|reflexivity]. }
      rewrite G. reflexivity. }
    destruct (existsb (executing s) (r0 :: rs)) eqn:Ex.
    + destruct (H2 eq_refl) as [Hb1 Hb2]. destruct (stop_spec s) as [S1 [_ [_ [S4 _]]]].
      pose proof (inv_stop_s s I) as [_ J2 _].
      split; [exact H1|]. rewrite Hb1, Hb2, S1, (J2 S1), Hw, S4. repeat split; reflexivity.
    + destruct (H3 eq_refl) as [Hb1 Hb2]. destruct (resume_spec s I2 I1) as [R1 [R2 [R3 _]]].
      split; [exact H1|]. rewrite Hb1, Hb2, R1, R2, Hw, R3. repeat split; reflexivity.
Qed.

(* ------------------------------------------------------------------ *)
(* the executable property                                             *)
(* ------------------------------------------------------------------ *)

Theorem consistent_sound ob :
  consistent ob = true ->
  length (o_live ob) = N.to_nat (o_nworkers ob) /\
  (o_working ob = true -> o_stops ob = o_nworkers ob /\ Forall (fun n => n = 1%N) (o_live ob)) /\
  (o_working ob = false -> o_stops ob = 0%N /\ Forall (fun n => n = 0%N) (o_live ob)).
Proof.
  unfold consistent. intro H. apply andb_prop in H. destruct H as [Hl H]. apply Nat.eqb_eq in Hl.
  split; [exact Hl|]. destruct (o_working ob); apply andb_prop in H; destruct H as [H1 H2];
    apply N.eqb_eq in H1; rewrite forallb_forall in H2; split; try discriminate; intros _;
    (split; [exact H1|]); apply Forall_forall; intros x Hx; specialize (H2 x Hx); apply N.eqb_eq in H2; congruence.
Qed.

Theorem check_verdict_sound rg w ob :
  check_verdict rg w ob = true -> rg <> [] ->
  ((exists p, In p rg /\ nth p (fst w) false = true) -> o_working ob = false) /\
  ((forall p, In p rg -> nth p (fst w) false = false) -> snd w = true -> o_working ob = true).
Proof.
  unfold check_verdict, any_reg_exec. intros H Hne. destruct rg as [|r0 rs]; [contradiction|].
  destruct (existsb (fun p => nth p (fst w) false) (r0 :: rs)) eqn:E.
  - split.
    + intros _. destruct (o_working ob); [discriminate|reflexivity].
    + intros Hz _. apply existsb_exists in E. destruct E as [p [Hp Ht]]. rewrite (Hz p Hp) in Ht. discriminate.
  - split.
    + intros [p [Hp Ht]]. assert (existsb (fun p => nth p (fst w) false) (r0 :: rs) = true).
      { apply existsb_exists. exists p. split; assumption. } congruence.
    + intros _ Hs. rewrite Hs in H. exact H.
Qed.

(* satisfiable hypotheses: nested locks keep the scheduler stopped until the last Unlock; an
   interleaved check during which latch 1 is held ends stopped although latch 0 was asked
   while idle *)
Example history_example :
  let ops := [Register 0; Register 1; Compute 0%N; Compute 1%N; Lock 0; Lock 0; Check; Unlock 0; Check] in
  let s := run (init 2) ops in
  working s = false /\ live s = [] /\ depth 0 0 ops = 1%N /\
  working (fst (step (fst (step s (Unlock 0))) Check)) = true /\
  always (fun s => (0 < latch s 1)%N) (fst (step (run (init 2) [Register 0; Register 1; Compute 0%N; Lock 1]) CheckBegin))
         [CheckStep; Lock 0; CheckStep].
Proof. vm_compute. repeat split; reflexivity. Qed.
