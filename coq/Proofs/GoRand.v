(* Facts about the model of Go's math/rand Shuffle (Common/GoRand.v): whatever the generator
   draws, the Fisher-Yates loop returns a permutation of its input. *)
From Coq Require Import ZArith List Lia Permutation.
From KV Require Import Common.GoRand.
Import ListNotations.

Section SwapPerm.
Context {A : Type}.

Lemma set_nth_perm : forall (t : list A) (j : nat) (b x : A),
  nth_error t j = Some b -> Permutation (b :: set_nth t j x) (x :: t).
Proof.
  induction t as [|c t IH]; intros j b x H.
  - destruct j; discriminate H.
  - destruct j as [|j]; cbn [nth_error set_nth] in *.
    + injection H as ->. apply perm_swap.
    + eapply perm_trans; [apply perm_swap|].
      eapply perm_trans; [apply perm_skip, (IH _ _ _ H)|].
      apply perm_swap.
Qed.

Lemma set_set_perm : forall (l : list A) (i j : nat) (a b : A),
  nth_error l i = Some a -> nth_error l j = Some b ->
  Permutation (set_nth (set_nth l i b) j a) l.
Proof.
  induction l as [|h t IH]; intros i j a b Hi Hj.
  - destruct i; discriminate Hi.
  - destruct i as [|i], j as [|j]; cbn [nth_error set_nth] in *.
    + injection Hi as ->. apply Permutation_refl.
    + injection Hi as ->. apply set_nth_perm; exact Hj.
    + injection Hj as ->. apply set_nth_perm; exact Hi.
    + apply perm_skip. apply IH; assumption.
Qed.

(* [swap] is a permutation for ANY pair of indices (out-of-range ones leave the list alone) *)
Lemma swap_perm : forall (l : list A) (i j : nat), Permutation (swap l i j) l.
Proof.
  intros l i j. unfold swap.
  destruct (nth_error l i) as [a|] eqn:Hi; [|apply Permutation_refl].
  destruct (nth_error l j) as [b|] eqn:Hj; [|apply Permutation_refl].
  apply set_set_perm; assumption.
Qed.

Lemma shuffle_loop_perm : forall (i : nat) (l : list A) (r : rng) (ok : bool),
  Permutation (fst (fst (shuffle_loop i l r ok))) l.
Proof.
  induction i as [|k IH]; intros l r ok.
  - apply Permutation_refl.
  - cbn [shuffle_loop].
    destruct (int31n (Z.of_nat (S k) + 1) r) as [[j r'] ok'].
    eapply perm_trans; [apply IH | apply swap_perm].
Qed.
End SwapPerm.

Theorem shuffle_with_perm : forall (A : Type) (g : rng) (l : list A),
  Permutation (fst (fst (shuffle_with g l))) l.
Proof. intros A g l. unfold shuffle_with. apply shuffle_loop_perm. Qed.
