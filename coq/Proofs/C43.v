(* C43 — proofs about Model/C43.v (statements are repeated in full in Props/C43.v). *)
From Coq Require Import ZArith List Bool Lia.
From KV Require Import Common.Verdict Gen.Consts_C43 Model.C43.
Import ListNotations.
Open Scope Z_scope.

(* ------------------------------------------------------------------ small helpers *)
Lemma list_eqb_refl : forall l, list_eqb l l = true.
Proof. induction l as [|x l IH]; cbn [list_eqb]; [reflexivity|]. now rewrite Z.eqb_refl, IH. Qed.

Lemma list_eqb_eq : forall a b, list_eqb a b = true -> a = b.
Proof.
  induction a as [|x a IH]; destruct b as [|y b]; cbn [list_eqb]; intro H; try discriminate; [reflexivity|].
  apply andb_true_iff in H as [H1 H2]. apply Z.eqb_eq in H1. f_equal; auto.
Qed.

Lemma zrange_length : forall n a, length (zrange a n) = n.
Proof. induction n as [|n IH]; intro a; cbn [zrange length]; [reflexivity|]. now rewrite IH. Qed.

Lemma zrange_snoc : forall n a, zrange a n ++ [a + Z.of_nat n] = zrange a (S n).
Proof.
  induction n as [|n IH]; intro a.
  - cbn. now rewrite Z.add_0_r.
  - change (zrange a (S n)) with (a :: zrange (a + 1) n).
    change (zrange a (S (S n))) with (a :: zrange (a + 1) (S n)).
    rewrite <- IH. cbn [app]. do 3 f_equal. lia.
Qed.

Lemma zrange_nth : forall n a i, (i < n)%nat -> nth_error (zrange a n) i = Some (a + Z.of_nat i).
Proof.
  induction n as [|n IH]; intros a i Hi; [lia|].
  destruct i as [|i]; cbn [zrange nth_error].
  - f_equal. lia.
  - rewrite IH by lia. f_equal. lia.
Qed.

Lemma two64_pos : 0 < two64.
Proof. reflexivity. Qed.

Lemma w64_small : forall z, 0 <= z < two64 -> w64 z = z.
Proof. intros z H. unfold w64. now apply Z.mod_small. Qed.

(* ------------------------------------------------------------------ monitor / fold lemmas *)
Section Facts.
  Variable EL : Z.
  Variable dp : bool.
  Hypothesis EL_pos : 0 < EL.

  Notation step := (step EL dp).
  Notation run := (run EL dp).
  Notation state_after := (state_after EL dp).
  Notation timeline := (timeline EL dp).
  Notation mon_step := (mon_step EL dp).
  Notation mon_run := (mon_run EL dp).
  Notation monitor := (monitor EL dp).
  Notation in_domain := (in_domain EL).
  Notation first_req := (first_req EL).
  Notation last_req := (last_req EL).
  Notation first_hdr := (first_hdr EL).
  Notation last_hdr := (last_hdr EL).
  Notation obs_auth := (obs_auth dp).
  Notation submit_legal := (submit_legal EL dp).
  Notation pend_after := (pend_after EL).
  Notation observe := (observe dp).

  Lemma mon_run_app : forall a b m,
      mon_run m (a ++ b) = match mon_run m a with Some m' => mon_run m' b | None => None end.
  Proof.
    induction a as [|x a IH]; intros b m; cbn [app Model.C43.mon_run]; [reflexivity|].
    destruct (mon_step m x); [apply IH|reflexivity].
  Qed.

  Lemma round_acc_snoc : forall l acc x,
      round_acc acc (l ++ [x]) = if boundary x then [] else round_acc acc l ++ [x].
  Proof.
    induction l as [|y l IH]; intros acc x; cbn [app round_acc].
    - destruct (boundary x); reflexivity.
    - destruct (boundary y); apply IH.
  Qed.

  Lemma current_round_snoc : forall l x,
      current_round (l ++ [x]) = if boundary x then [] else current_round l ++ [x].
  Proof. intros. unfold current_round. now apply round_acc_snoc. Qed.

  Lemma round_acc_after_boundary : forall a acc b mid,
      boundary b = true -> round_acc acc (a ++ b :: mid) = round_acc [] mid.
  Proof.
    induction a as [|y a IH]; intros acc b mid Hb; cbn [app round_acc].
    - now rewrite Hb.
    - destruct (boundary y); now apply IH.
  Qed.

  Lemma round_acc_in : forall l acc x, In x (round_acc acc l) -> In x acc \/ In x l.
  Proof.
    induction l as [|y l IH]; intros acc x H; cbn [round_acc] in H; [now left|].
    destruct (boundary y).
    - apply IH in H as [H|H]; [destruct H|right; now right].
    - apply IH in H as [H|H]; [|right; now right].
      apply in_app_or in H as [H|[H|[]]]; [now left|right; left; exact H].
  Qed.

  Lemma latest_snoc : forall A (sel : world * call -> option A) l x,
      latest sel (l ++ [x]) = match sel x with Some v => Some v | None => latest sel l end.
  Proof. intros. unfold latest. now rewrite fold_left_app. Qed.

  Lemma latest_in : forall A (sel : world * call -> option A) l v,
      latest sel l = Some v -> exists x, In x l /\ sel x = Some v.
  Proof.
    intros A sel l. induction l as [|x l IH] using rev_ind; intros v H.
    - discriminate.
    - rewrite latest_snoc in H. destruct (sel x) eqn:E.
      + exists x. split; [apply in_or_app; right; now left|]. now rewrite E, H.
      + destruct (IH _ H) as [y [Hy Hs]]. exists y. split; [apply in_or_app; now left|exact Hs].
  Qed.

  (* ---------------- what the monitor's state means ---------------- *)
  Definition reflects (pre : list (world * call)) (m : mstate) : Prop :=
    m_h m = obs_height (current_round pre) /\
    m_e m = obs_epoch (current_round pre) /\
    m_L m = obs_plen (current_round pre) /\
    m_ready m = obs_ready pre /\
    m_auth m = obs_auth pre.

  Lemma reflects_nil : reflects [] (m_init false).
  Proof. repeat split. Qed.

  Ltac snoc_all :=
    unfold obs_height, obs_epoch, obs_plen, obs_ready, Model.C43.obs_auth;
    rewrite ?latest_snoc.

  Lemma reflects_step : forall pre m x m',
      reflects pre m -> mon_step m x = Some m' -> reflects (pre ++ [x]) m'.
  Proof.
    intros pre m [w c] m' (Hh & He & HL & Hr & Ha) Hs.
    unfold reflects. rewrite current_round_snoc. unfold boundary. cbn [fst snd].
    unfold Model.C43.mon_step in Hs.
    destruct c as [|refund own| | | |hh|refund hs].
    - (* CReady *)
      injection Hs as <-. cbn [failed is_submit observe Model.C43.observe]. rewrite orb_false_r.
      destruct (isnone (w_ready w)) eqn:Ef; cbn [m_reset m_h m_e m_L m_ready m_auth];
        snoc_all; cbn [sel_height sel_epoch sel_plen sel_ready sel_auth snd fst flat];
        repeat split; auto.
    - (* CAuth *)
      injection Hs as <-. cbn [failed is_submit Model.C43.observe]. rewrite orb_false_r.
      destruct (Bool.eqb refund (negb dp) && own) eqn:Ek;
      destruct (isnone (ans_auth w refund)) eqn:Ef; cbn [m_reset m_h m_e m_L m_ready m_auth];
        snoc_all; cbn [sel_height sel_epoch sel_plen sel_ready sel_auth snd fst flat]; rewrite ?Ek;
        cbn [flat]; repeat split; auto.
    - (* CHeight *)
      injection Hs as <-. cbn [failed is_submit Model.C43.observe]. rewrite orb_false_r.
      destruct (isnone (w_height w)) eqn:Ef; cbn [m_reset m_h m_e m_L m_ready m_auth];
        snoc_all; cbn [sel_height sel_epoch sel_plen sel_ready sel_auth snd fst flat];
        repeat split; auto.
    - (* CEpoch *)
      injection Hs as <-. cbn [failed is_submit Model.C43.observe]. rewrite orb_false_r.
      destruct (isnone (w_epoch w)) eqn:Ef; cbn [m_reset m_h m_e m_L m_ready m_auth];
        snoc_all; cbn [sel_height sel_epoch sel_plen sel_ready sel_auth snd fst flat];
        repeat split; auto.
    - (* CPLen *)
      injection Hs as <-. cbn [failed is_submit Model.C43.observe]. rewrite orb_false_r.
      destruct (isnone (w_plen w)) eqn:Ef; cbn [m_reset m_h m_e m_L m_ready m_auth];
        snoc_all; cbn [sel_height sel_epoch sel_plen sel_ready sel_auth snd fst flat];
        repeat split; auto.
    - (* CHeader *)
      injection Hs as <-. cbn [failed is_submit Model.C43.observe]. rewrite orb_false_r.
      destruct (negb (w_header w)) eqn:Ef; cbn [m_reset m_h m_e m_L m_ready m_auth];
        snoc_all; cbn [sel_height sel_epoch sel_plen sel_ready sel_auth snd fst flat];
        repeat split; auto.
    - (* CSubmit *)
      cbn [is_submit]. rewrite orb_true_r.
      destruct (submit_legal m refund hs); [|discriminate]. injection Hs as <-.
      destruct (w_submit w); cbn [m_reset m_h m_e m_L m_ready m_auth];
        snoc_all; cbn [sel_height sel_epoch sel_plen sel_ready sel_auth snd fst flat];
        repeat split; auto.
  Qed.

  Lemma reflects_run : forall l pre m m',
      reflects pre m -> mon_run m l = Some m' -> reflects (pre ++ l) m'.
  Proof.
    induction l as [|x l IH]; intros pre m m' Hr Hm; cbn [Model.C43.mon_run] in Hm.
    - injection Hm as <-. now rewrite app_nil_r.
    - destruct (mon_step m x) as [m1|] eqn:E; [|discriminate].
      replace (pre ++ x :: l) with ((pre ++ [x]) ++ l) by now rewrite <- app_assoc.
      eapply IH; [eapply reflects_step; eauto|exact Hm].
  Qed.

  (* ---------------- soundness of the executable property ---------------- *)
  Lemma monitor_split : forall m obs pre x post,
      monitor m obs = true -> obs = pre ++ x :: post ->
      exists m1 m2, mon_run m pre = Some m1 /\ mon_step m1 x = Some m2 /\ mon_run m2 post <> None.
  Proof.
    intros m obs pre x post Hm ->. unfold Model.C43.monitor in Hm.
    rewrite mon_run_app in Hm. destruct (mon_run m pre) as [m1|] eqn:E1; [|discriminate].
    cbn [Model.C43.mon_run] in Hm. destruct (mon_step m1 x) as [m2|] eqn:E2; [|discriminate].
    exists m1, m2. split; [reflexivity|]. split; [exact E2|]. intro E. now rewrite E in Hm.
  Qed.

  Lemma submit_legal_inv : forall m r hs,
      submit_legal m r hs = true ->
      m_pend m = None /\ m_ready m = true /\ m_auth m = true /\ r = negb dp /\
      exists h e L, m_h m = Some h /\ m_e m = Some e /\ m_L m = Some L /\
        (in_domain e L = true ->
         hs = zrange (first_req e L) (Z.to_nat (2 * L)) /\ last_req e L <= h).
  Proof.
    intros m r hs H. unfold Model.C43.submit_legal in H.
    apply andb_true_iff in H as [H Hdata]. apply andb_true_iff in H as [H Hr].
    apply andb_true_iff in H as [H Ha]. apply andb_true_iff in H as [Hp Hrd].
    destruct (m_pend m); [discriminate|].
    destruct (m_h m) as [h|]; [|discriminate].
    destruct (m_e m) as [e|]; [|discriminate].
    destruct (m_L m) as [L|]; [|discriminate].
    split; [reflexivity|]. split; [exact Hrd|]. split; [exact Ha|]. split; [now apply eqb_prop|].
    exists h, e, L. split; [reflexivity|]. split; [reflexivity|]. split; [reflexivity|].
    intro Hd. rewrite Hd in Hdata. apply andb_true_iff in Hdata as [H1 H2].
    apply andb_true_iff in H1 as [H0 H1]. apply Z.eqb_eq in H0. apply list_eqb_eq in H1.
    split; [|now apply Z.leb_le]. rewrite <- H0, Nat2Z.id. exact H1.
  Qed.

  Theorem submission_justified : forall obs pre w r hs post,
      monitor (m_init false) obs = true ->
      obs = pre ++ (w, CSubmit r hs) :: post ->
      obs_ready pre = true /\ obs_auth pre = true /\ r = negb dp /\
      exists h e L,
        obs_height (current_round pre) = Some h /\
        obs_epoch (current_round pre) = Some e /\
        obs_plen (current_round pre) = Some L /\
        (in_domain e L = true ->
         hs = zrange (first_req e L) (Z.to_nat (2 * L)) /\ length hs = Z.to_nat (2 * L) /\
         last_req e L <= h).
  Proof.
    intros obs pre w r hs post Hm Ho.
    destruct (monitor_split _ _ _ _ _ Hm Ho) as (m1 & m2 & H1 & H2 & _).
    pose proof (reflects_run _ _ _ _ reflects_nil H1) as (Hh & He & HL & Hr & Ha). cbn [app] in *.
    cbn [Model.C43.mon_step] in H2. destruct (submit_legal m1 r hs) eqn:E; [|discriminate].
    apply submit_legal_inv in E as (_ & Er & Ea & Eq & h & e & L & Eh & Ee & EL' & Hd).
    split; [congruence|]. split; [congruence|]. split; [exact Eq|].
    exists h, e, L. split; [congruence|]. split; [congruence|]. split; [congruence|].
    intro Hdom. destruct (Hd Hdom) as [Hhs Hle]. split; [exact Hhs|]. split; [|exact Hle].
    rewrite Hhs. apply zrange_length.
  Qed.

  Lemma pending_blocks_submission : forall mid m T w2 r2 hs2 post,
      m_pend m = Some T ->
      mon_run m (mid ++ (w2, CSubmit r2 hs2) :: post) <> None ->
      exists x, In x mid /\ (failed (fst x) (snd x) = true \/ epoch_reached T x).
  Proof.
    induction mid as [|[w c] mid IH]; intros m T w2 r2 hs2 post Hp Hr; cbn [app Model.C43.mon_run] in Hr.
    - exfalso. apply Hr. cbn [Model.C43.mon_step]. unfold Model.C43.submit_legal. now rewrite Hp.
    - destruct (mon_step m (w, c)) as [m'|] eqn:E; [|now elim Hr].
      destruct (failed w c) eqn:Ef.
      { exists (w, c). split; [now left|now left]. }
      assert (Hcase : m_pend m' = Some T \/ epoch_reached T (w, c)).
      { unfold Model.C43.mon_step in E.
        destruct c as [|refund own| | | |hh|refund hs]; try (rewrite Ef in E; injection E as Em; subst m').
        - left. exact Hp.
        - left. cbn [Model.C43.observe]. destruct (Bool.eqb refund (negb dp) && own); exact Hp.
        - left. exact Hp.
        - cbn [Model.C43.observe m_pend]. rewrite Hp. cbn [failed] in Ef.
          destruct (w_epoch w) as [e'|] eqn:Ee; [|discriminate].
          destruct (T <=? e') eqn:Et; [right|now left].
          split; [reflexivity|]. exists e'. cbn [fst]. split; [exact Ee|now apply Z.leb_le].
        - left. exact Hp.
        - left. exact Hp.
        - unfold Model.C43.submit_legal in E. rewrite Hp in E. discriminate. }
      destruct Hcase as [Hp'|Hreach].
      + destruct (IH _ _ _ _ _ _ Hp' Hr) as [x [Hx Hc]]. exists x. split; [now right|exact Hc].
      + exists (w, c). split; [now left|now right].
  Qed.

  Theorem no_resubmission_before_epoch_advance :
    forall obs pre w1 r1 hs1 mid w2 r2 hs2 post e L,
      monitor (m_init false) obs = true ->
      obs = pre ++ (w1, CSubmit r1 hs1) :: mid ++ (w2, CSubmit r2 hs2) :: post ->
      w_submit w1 = true ->
      obs_epoch (current_round pre) = Some e -> obs_plen (current_round pre) = Some L ->
      in_domain e L = true ->
      exists x, In x mid /\ (failed (fst x) (snd x) = true \/ epoch_reached (e + 1) x).
  Proof.
    intros obs pre w1 r1 hs1 mid w2 r2 hs2 post e L Hm Ho Hok He HL Hd.
    destruct (monitor_split _ _ _ _ _ Hm Ho) as (m1 & m2 & H1 & H2 & H3).
    pose proof (reflects_run _ _ _ _ reflects_nil H1) as (_ & Re & RL & _). cbn [app] in *.
    cbn [Model.C43.mon_step] in H2. destruct (submit_legal m1 r1 hs1); [|discriminate].
    rewrite Hok in H2. injection H2 as <-.
    eapply pending_blocks_submission; [|exact H3].
    cbn [m_pend]. unfold Model.C43.pend_after. rewrite Re, RL, He, HL, Hd. reflexivity.
  Qed.

  Lemma obs_in : forall (sel : world * call -> option (option Z)) l v,
      flat (latest sel l) = Some v -> exists x, In x l /\ sel x = Some (Some v).
  Proof.
    intros sel l v H. destruct (latest sel l) as [o|] eqn:E; [|discriminate].
    cbn [flat] in H. subst o. now apply latest_in.
  Qed.

  Theorem failed_call_ends_round : forall obs pre wb cb mid w r hs post,
      monitor (m_init false) obs = true ->
      obs = pre ++ (wb, cb) :: mid ++ (w, CSubmit r hs) :: post ->
      boundary (wb, cb) = true ->
      exists wh we wl h e L,
        In (wh, CHeight) mid /\ w_height wh = Some h /\
        In (we, CEpoch) mid /\ w_epoch we = Some e /\
        In (wl, CPLen) mid /\ w_plen wl = Some L /\
        (in_domain e L = true -> hs = zrange (first_req e L) (Z.to_nat (2 * L)) /\ last_req e L <= h).
  Proof.
    intros obs pre wb cb mid w r hs post Hm Ho Hb.
    assert (Ho' : obs = (pre ++ (wb, cb) :: mid) ++ (w, CSubmit r hs) :: post)
      by (rewrite Ho, <- app_assoc; reflexivity).
    destruct (submission_justified _ _ _ _ _ _ Hm Ho') as (_ & _ & _ & h & e & L & Hh & He & HL & Hd).
    unfold current_round in *. rewrite (round_acc_after_boundary pre [] (wb, cb) mid Hb) in *.
    assert (Hin : forall x, In x (round_acc [] mid) -> In x mid).
    { intros x Hx. apply round_acc_in in Hx as [[]|Hx]. exact Hx. }
    apply obs_in in Hh as ([wh ch] & Ih & Sh). apply obs_in in He as ([we ce] & Ie & Se).
    apply obs_in in HL as ([wl cl] & Il & Sl).
    unfold sel_height in Sh. unfold sel_epoch in Se. unfold sel_plen in Sl. cbn [fst snd] in *.
    destruct ch; try discriminate. destruct ce; try discriminate. destruct cl; try discriminate.
    injection Sh as Sh. injection Se as Se. injection Sl as Sl.
    exists wh, we, wl, h, e, L. repeat split; auto.
    - apply Hd; assumption.
    - apply Hd; assumption.
  Qed.

  (* ---------------- the model is accepted by the monitor, for every script -------------- *)
  Definition elig (m : mstate) : Prop := m_ready m = true /\ m_auth m = true.
  Definition ranges (h e L : Z) (m : mstate) : Prop :=
    m_h m = Some h /\ m_e m = Some e /\ m_L m = Some L /\ last_hdr e L <= h.

  Definition inv (st : state) (m : mstate) : Prop :=
    match st with
    | SReady => m_pend m = None
    | SAuth => m_pend m = None /\ m_ready m = true
    | SHeight => m_pend m = None /\ elig m
    | SEpoch h => m_pend m = None /\ elig m /\ m_h m = Some h
    | SPLen h e => m_pend m = None /\ elig m /\ m_h m = Some h /\ m_e m = Some e
    | SFetch h e L cur acc =>
        m_pend m = None /\ elig m /\ ranges h e L m /\
        (in_domain e L = true ->
         first_req e L <= cur <= last_req e L /\
         acc = zrange (first_req e L) (Z.to_nat (cur - first_req e L)))
    | SSubmit h e L hs =>
        m_pend m = None /\ elig m /\ ranges h e L m /\
        (in_domain e L = true -> hs = zrange (first_req e L) (Z.to_nat (2 * L)))
    | SWait T => elig m /\ (m_pend m = None \/ m_pend m = Some T)
    end.

  Lemma in_domain_inv : forall e L, in_domain e L = true ->
      0 <= e /\ 0 <= L /\ L <= (e + 1) * EL /\ (e + 1) * EL + L < two64 /\ e + 1 < two64.
  Proof.
    intros e L H. unfold Model.C43.in_domain in H.
    repeat (apply andb_true_iff in H as [H ?]).
    repeat split; try (now apply Z.leb_le); now apply Z.ltb_lt.
  Qed.

  Lemma domain_exact : forall e L, in_domain e L = true ->
      new_epoch e = e + 1 /\ first_hdr e L = first_req e L /\ last_hdr e L = last_req e L /\
      last_req e L + 1 < two64 /\ last_req e L + 1 - first_req e L = 2 * L /\ 0 <= first_req e L /\ 0 <= L.
  Proof.
    intros e L H. apply in_domain_inv in H as (H0 & H1 & H2 & H3 & H4).
    assert (Hm : 0 <= (e + 1) * EL) by nia.
    unfold Model.C43.first_hdr, Model.C43.last_hdr, new_epoch_height, new_epoch, Model.C43.first_req, Model.C43.last_req.
    rewrite (w64_small (e + 1)) by lia.
    rewrite (w64_small ((e + 1) * EL)) by lia.
    destruct (Z.eq_dec L 0) as [->|Hn].
    - rewrite (w64_small ((e + 1) * EL - 0)) by lia.
      assert (1 <= (e + 1) * EL) by nia.
      rewrite (w64_small ((e + 1) * EL + 0 - 1)) by lia. lia.
    - rewrite (w64_small ((e + 1) * EL - L)) by lia.
      rewrite (w64_small ((e + 1) * EL + L - 1)) by lia. lia.
  Qed.

  Ltac go E :=
    cbn [fst snd Model.C43.mon_step]; eexists; (split; [reflexivity|]);
    cbn [failed Model.C43.observe inv m_reset]; rewrite ?E;
    cbn [isnone is_true negb m_pend m_ready m_auth m_h m_e m_L];
    unfold elig, ranges in *; cbn [m_pend m_ready m_auth m_h m_e m_L];
    repeat split; auto; try tauto.

  Lemma step_preserves : forall st w m,
      inv st m ->
      exists m', mon_step m (w, snd (fst (step st w))) = Some m' /\ inv (fst (fst (step st w))) m'.
  Proof.
    intros st w m Hi. destruct st as [| | |h|h e|h e L cur acc|h e L hs|T]; cbn [Model.C43.step].
    - (* SReady *)
      cbn [inv] in Hi. destruct (w_ready w) as [[|]|] eqn:E; go E.
    - (* SAuth *)
      destruct Hi as [Hp Hr].
      assert (Ea : ans_auth w (negb dp) = if dp then w_auth w else w_authr w) by (destruct dp; reflexivity).
      destruct (if dp then w_auth w else w_authr w) as [[|]|] eqn:E;
        cbn [fst snd Model.C43.mon_step]; eexists; (split; [reflexivity|]);
        cbn [failed Model.C43.observe]; rewrite eqb_reflx, Ea; cbn [andb inv m_reset isnone is_true];
        unfold elig; cbn [m_pend m_ready m_auth]; repeat split; auto.
    - (* SHeight *)
      destruct Hi as [Hp He]. destruct (w_height w) as [h|] eqn:E; go E.
    - (* SEpoch *)
      destruct Hi as (Hp & He & Hh). destruct (w_epoch w) as [e|] eqn:E; go E; now rewrite Hp.
    - (* SPLen *)
      destruct Hi as (Hp & He & Hh & Hee).
      destruct (w_plen w) as [L|] eqn:E; [|go E].
      destruct (last_hdr e L <=? h) eqn:Et; [|go E].
      cbn [fst snd Model.C43.mon_step]. eexists. split; [reflexivity|]. cbn [failed]. rewrite E. cbn [isnone].
      apply Z.leb_le in Et. unfold enter_fetch.
      destruct (first_hdr e L <=? last_hdr e L) eqn:Ef; cbn [inv Model.C43.observe]; unfold ranges;
        cbn [m_pend m_ready m_auth m_h m_e m_L];
        (split; [exact Hp|]); (split; [exact He|]); (split; [repeat split; auto|]); intro Hd;
        destruct (domain_exact _ _ Hd) as (D1 & D2 & D3 & D4 & D5 & D6 & D7); rewrite D2, D3 in Ef.
      + apply Z.leb_le in Ef. rewrite D2. split; [lia|]. now rewrite Z.sub_diag.
      + apply Z.leb_gt in Ef. replace (2 * L) with 0 by lia. reflexivity.
    - (* SFetch *)
      destruct Hi as (Hp & He & (Hh & Hee & HL & Hle) & Hd).
      destruct (w_header w) eqn:E; [|go E].
      cbn [fst snd Model.C43.mon_step]. eexists. split; [reflexivity|]. cbn [failed]. rewrite E. cbn [negb Model.C43.observe].
      destruct (w64 (cur + 1) <=? last_hdr e L) eqn:En; cbn [inv]; unfold ranges;
        (split; [exact Hp|]); (split; [exact He|]); (split; [repeat split; auto|]); intro Hdom;
        destruct (domain_exact _ _ Hdom) as (D1 & D2 & D3 & D4 & D5 & D6 & D7);
        destruct (Hd Hdom) as [Hc Hacc]; rewrite D3 in En;
        assert (Hw : w64 (cur + 1) = cur + 1) by (apply w64_small; lia); rewrite Hw in *.
      + apply Z.leb_le in En. split; [lia|]. rewrite Hacc.
        replace (Z.to_nat (cur + 1 - first_req e L)) with (S (Z.to_nat (cur - first_req e L))) by lia.
        rewrite <- zrange_snoc. do 2 f_equal. lia.
      + apply Z.leb_gt in En. rewrite Hacc.
        replace (Z.to_nat (2 * L)) with (S (Z.to_nat (cur - first_req e L))) by lia.
        rewrite <- zrange_snoc. do 2 f_equal. lia.
    - (* SSubmit *)
      destruct Hi as (Hp & [Hr Ha] & (Hh & Hee & HL & Hle) & Hd).
      assert (Hlegal : submit_legal m (negb dp) hs = true).
      { unfold Model.C43.submit_legal. rewrite Hp, Hr, Ha, eqb_reflx, Hh, Hee, HL. cbn [isnone andb].
        destruct (Model.C43.in_domain EL e L) eqn:Hdom; [|reflexivity].
        rewrite (Hd eq_refl), zrange_length, list_eqb_refl.
        destruct (domain_exact _ _ Hdom) as (_ & _ & _ & _ & _ & _ & D7).
        rewrite Z2Nat.id, Z.eqb_refl by lia. cbn [andb].
        destruct (domain_exact _ _ Hdom) as (D1 & D2 & D3 & _). apply Z.leb_le. now rewrite <- D3. }
      destruct (w_submit w) eqn:E; cbn [fst snd Model.C43.mon_step]; rewrite Hlegal, E; eexists;
        (split; [reflexivity|]); cbn [inv m_reset m_pend m_ready m_auth]; unfold elig; cbn [m_ready m_auth m_pend]; auto.
      split; [split; assumption|].
      unfold Model.C43.pend_after. rewrite Hee, HL.
      destruct (Model.C43.in_domain EL e L) eqn:Hdom; [right|now left].
      destruct (domain_exact _ _ Hdom) as (D1 & _). now rewrite D1.
    - (* SWait *)
      destruct Hi as [He Hp].
      destruct (w_epoch w) as [e'|] eqn:E; [|go E].
      destruct (T <=? e') eqn:Et; go E; destruct Hp as [Hp|Hp]; rewrite Hp, ?Et; auto.
  Qed.

  Lemma timeline_cons : forall st w t,
      timeline st (w :: t) = (w, snd (fst (step st w))) :: timeline (fst (fst (step st w))) t.
  Proof.
    intros. unfold Model.C43.timeline. cbn [Model.C43.run]. destruct (step st w) as [[st' c] r]. reflexivity.
  Qed.

  Lemma accepted_from : forall ws st m,
      inv st m -> exists m', mon_run m (timeline st ws) = Some m' /\ inv (state_after st ws) m'.
  Proof.
    induction ws as [|w t IH]; intros st m Hi.
    - exists m. split; [reflexivity|exact Hi].
    - rewrite timeline_cons. cbn [Model.C43.mon_run Model.C43.state_after].
      destruct (step_preserves st w m Hi) as (m1 & H1 & H2). rewrite H1. now apply IH.
  Qed.

  Theorem model_accepted : forall ws, monitor (m_init false) (timeline SReady ws) = true.
  Proof.
    intro ws. destruct (accepted_from ws SReady (m_init false) eq_refl) as (m' & H & _).
    unfold Model.C43.monitor. now rewrite H.
  Qed.

  Theorem model_accepted_next : forall ws, monitor (m_init true) (timeline SHeight ws) = true.
  Proof.
    intro ws.
    assert (Hi : inv SHeight (m_init true)) by (repeat split).
    destruct (accepted_from ws SHeight (m_init true) Hi) as (m' & H & _).
    unfold Model.C43.monitor. now rewrite H.
  Qed.

  (* every function-level run of the model (what the judge compares with) is accepted too *)
  Lemma run_fn_accepted_from : forall md ws st m,
      inv st m -> mon_run m (combine ws (fst (run_fn EL dp md st ws))) <> None.
  Proof.
    induction ws as [|w t IH]; intros st m Hi; cbn [run_fn].
    - cbn. discriminate.
    - destruct (step_preserves st w m Hi) as (m1 & H1 & H2).
      destruct (step st w) as [[st' c] r]. cbn [fst snd] in H1, H2.
      destruct (match r with Some r0 => stop md r0 | None => None end).
      + cbn [fst combine Model.C43.mon_run]. rewrite H1. destruct t; cbn; discriminate.
      + specialize (IH st' m1 H2). destruct (run_fn EL dp md st' t) as [tr f].
        cbn [fst combine Model.C43.mon_run] in *. now rewrite H1.
  Qed.

  Theorem model_outputs_pass_monitor : forall md ws,
      monitor (m_init (init_elig md)) (combine ws (fst (run_fn EL dp md (start md) ws))) = true.
  Proof.
    intros md ws. unfold Model.C43.monitor.
    assert (Hi : inv (start md) (m_init (init_elig md))) by (destruct md; repeat split).
    pose proof (run_fn_accepted_from md ws _ _ Hi) as H.
    destruct (mon_run _ _); [reflexivity|now elim H].
  Qed.

  Lemma run_fn_loop : forall ws st, run_fn EL dp MLoop st ws = (run st ws, FNone).
  Proof.
    induction ws as [|w t IH]; intro st; cbn [run_fn Model.C43.run]; [reflexivity|].
    destruct (step st w) as [[st' c] r]. rewrite IH.
    destruct r as [r|]; reflexivity.
  Qed.

  (* progress: with all required headers mined the model does not go idle, and conversely *)
  Theorem idle_only_when_headers_missing : forall h e L w,
      w_plen w = Some L -> in_domain e L = true ->
      (snd (step (SPLen h e) w) = Some (RNext NIdle) <-> h < last_req e L).
  Proof.
    intros h e L w Hw Hd. destruct (domain_exact _ _ Hd) as (_ & _ & D3 & _).
    cbn [Model.C43.step]. rewrite Hw, D3. destruct (last_req e L <=? h) eqn:E; cbn [snd].
    - apply Z.leb_le in E. split; [discriminate|lia].
    - apply Z.leb_gt in E. split; [intros _; exact E|reflexivity].
  Qed.

  (* ---------------- the model waits for the relay ---------------- *)
  Lemma timeline_length : forall ws st, length (timeline st ws) = length ws.
  Proof.
    induction ws as [|w t IH]; intro st; [reflexivity|]. rewrite timeline_cons. cbn [length]. now rewrite IH.
  Qed.

  Lemma timeline_fst : forall ws st, map fst (timeline st ws) = ws.
  Proof.
    induction ws as [|w t IH]; intro st; [reflexivity|]. rewrite timeline_cons. cbn [map fst]. now rewrite IH.
  Qed.

  Lemma timeline_app : forall a b st,
      timeline st (a ++ b) = timeline st a ++ timeline (state_after st a) b.
  Proof.
    induction a as [|w a IH]; intros b st; [reflexivity|].
    cbn [app]. rewrite !timeline_cons. cbn [app Model.C43.state_after]. now rewrite IH.
  Qed.

  Lemma app_eq_length : forall A (a b c d : list A),
      a ++ b = c ++ d -> length a = length c -> a = c /\ b = d.
  Proof.
    induction a as [|x a IH]; intros b c d H Hl; destruct c as [|y c]; cbn [length app] in *; try discriminate.
    - now split.
    - injection H as Hx H. subst y. destruct (IH _ _ _ H) as [Ha Hb]; [lia|]. subst. now split.
  Qed.

  Lemma timeline_split : forall ws st A B,
      timeline st ws = A ++ B ->
      A = timeline st (map fst A) /\ B = timeline (state_after st (map fst A)) (map fst B).
  Proof.
    intros ws st A B H.
    assert (Hw : ws = map fst A ++ map fst B) by (rewrite <- map_app, <- H; symmetry; apply timeline_fst).
    rewrite Hw, timeline_app in H. symmetry in H.
    apply app_eq_length in H; [destruct H as [H1 H2]; now split|].
    now rewrite timeline_length, map_length.
  Qed.

  Lemma wait_stays : forall mid T,
      (forall w, In w mid -> exists e', w_epoch w = Some e' /\ e' < T) ->
      state_after (SWait T) mid = SWait T /\ forall x, In x (timeline (SWait T) mid) -> snd x = CEpoch.
  Proof.
    induction mid as [|w mid IH]; intros T H.
    - split; [reflexivity|intros x []].
    - destruct (H w (or_introl eq_refl)) as (e' & Ee & Hlt).
      assert (Es : step (SWait T) w = (SWait T, CEpoch, None)).
      { cbn [Model.C43.step]. rewrite Ee. apply Z.leb_gt in Hlt. now rewrite Hlt. }
      rewrite timeline_cons. cbn [Model.C43.state_after]. rewrite Es. cbn [fst snd].
      destruct (IH T (fun w' Hw' => H w' (or_intror Hw'))) as [I1 I2].
      split; [exact I1|]. intros x [<-|Hx]; [reflexivity|now apply I2].
  Qed.

  Lemma only_submit_state_submits : forall st w r hs,
      snd (fst (step st w)) = CSubmit r hs -> exists h e L, st = SSubmit h e L hs.
  Proof.
    intros st w r hs H. destruct st as [| | |h|h e|h e L cur acc|h e L hs'|T]; cbn [Model.C43.step] in H.
    - destruct (w_ready w) as [[|]|]; discriminate.
    - destruct (if dp then w_auth w else w_authr w) as [[|]|]; discriminate.
    - destruct (w_height w); discriminate.
    - destruct (w_epoch w); discriminate.
    - destruct (w_plen w); [destruct (last_hdr e _ <=? h)|]; discriminate.
    - destruct (w_header w); [destruct (w64 (cur + 1) <=? last_hdr e L)|]; discriminate.
    - destruct (w_submit w); cbn [fst snd] in H; injection H as _ ->; now exists h, e, L.
    - destruct (w_epoch w) as [e'|]; [destruct (T <=? e')|]; discriminate.
  Qed.

  Theorem waits_for_relay : forall ws pre w1 r hs mid w2 c2 e L,
      timeline SReady ws = pre ++ (w1, CSubmit r hs) :: mid ++ [(w2, c2)] ->
      w_submit w1 = true ->
      obs_epoch (current_round pre) = Some e -> obs_plen (current_round pre) = Some L ->
      in_domain e L = true ->
      (forall x, In x mid -> exists e', w_epoch (fst x) = Some e' /\ e' < e + 1) ->
      (forall x, In x mid -> snd x = CEpoch) /\ c2 = CEpoch.
  Proof.
    intros ws pre w1 r hs mid w2 c2 e L Ht Hok He HL Hd Hlag.
    destruct (timeline_split _ _ _ _ Ht) as [Hpre Hrest].
    set (wsp := map fst pre) in *.
    destruct (accepted_from wsp SReady (m_init false) eq_refl) as (m1 & Hm1 & Hinv).
    rewrite <- Hpre in Hm1.
    pose proof (reflects_run _ _ _ _ reflects_nil Hm1) as (_ & Re & RL & _). cbn [app] in *.
    cbn [map fst] in Hrest. rewrite timeline_cons in Hrest. injection Hrest as Hc Hrest.
    symmetry in Hc. destruct (only_submit_state_submits _ _ _ _ Hc) as (h0 & e0 & L0 & Est).
    rewrite Est in Hinv, Hrest. cbn [inv] in Hinv. destruct Hinv as (_ & _ & (_ & Hee & HLL & _) & _).
    assert (e0 = e) by congruence. assert (L0 = L) by congruence. subst e0 L0.
    cbn [Model.C43.step] in Hrest. rewrite Hok in Hrest. cbn [fst] in Hrest.
    destruct (domain_exact _ _ Hd) as (D1 & _). rewrite D1 in Hrest.
    rewrite map_app in Hrest. cbn [map fst] in Hrest. rewrite timeline_app in Hrest.
    apply app_eq_length in Hrest; [|now rewrite timeline_length, map_length].
    destruct Hrest as [Hmid Hlast].
    assert (Hw : forall w, In w (map fst mid) -> exists e', w_epoch w = Some e' /\ e' < e + 1).
    { intros w Hw. apply in_map_iff in Hw as (x & <- & Hx). now apply Hlag. }
    destruct (wait_stays _ _ Hw) as [S1 S2]. split.
    - intros x Hx. apply S2. now rewrite <- Hmid.
    - rewrite S1 in Hlast. rewrite timeline_cons in Hlast. injection Hlast as Hc2. rewrite Hc2.
      cbn [Model.C43.step]. destruct (w_epoch w2) as [e'|]; [destruct (e + 1 <=? e')|]; reflexivity.
  Qed.

  (* ---------------- corollaries for the model ---------------- *)
  Theorem model_submission_justified : forall ws pre w r hs post,
      timeline SReady ws = pre ++ (w, CSubmit r hs) :: post ->
      obs_ready pre = true /\ obs_auth pre = true /\ r = negb dp /\
      exists h e L,
        obs_height (current_round pre) = Some h /\
        obs_epoch (current_round pre) = Some e /\
        obs_plen (current_round pre) = Some L /\
        (in_domain e L = true ->
         hs = zrange (first_req e L) (Z.to_nat (2 * L)) /\ length hs = Z.to_nat (2 * L) /\
         last_req e L <= h).
  Proof. intros. eapply submission_justified; [apply model_accepted|eassumption]. Qed.

  Theorem model_no_resubmission : forall ws pre w1 r1 hs1 mid w2 r2 hs2 post e L,
      timeline SReady ws = pre ++ (w1, CSubmit r1 hs1) :: mid ++ (w2, CSubmit r2 hs2) :: post ->
      w_submit w1 = true ->
      obs_epoch (current_round pre) = Some e -> obs_plen (current_round pre) = Some L ->
      in_domain e L = true ->
      exists x, In x mid /\ (failed (fst x) (snd x) = true \/ epoch_reached (e + 1) x).
  Proof. intros. eapply no_resubmission_before_epoch_advance; [apply model_accepted|eassumption..]. Qed.

  Theorem model_failed_call_ends_round : forall ws pre wb cb mid w r hs post,
      timeline SReady ws = pre ++ (wb, cb) :: mid ++ (w, CSubmit r hs) :: post ->
      boundary (wb, cb) = true ->
      exists wh we wl h e L,
        In (wh, CHeight) mid /\ w_height wh = Some h /\
        In (we, CEpoch) mid /\ w_epoch we = Some e /\
        In (wl, CPLen) mid /\ w_plen wl = Some L /\
        (in_domain e L = true -> hs = zrange (first_req e L) (Z.to_nat (2 * L)) /\ last_req e L <= h).
  Proof. intros. eapply failed_call_ends_round; [apply model_accepted|eassumption..]. Qed.
End Facts.

(* ------------------------------------------------------------------ judge-level facts *)
(* the executable [spec_ok] of the correspondence check contains the monitor *)
Lemma spec_ok_monitor : forall EL c,
    spec_ok EL c = true ->
    monitor EL (c_dp c) (m_init (init_elig (c_mode c))) (combine (script_of c) (c_trace c)) = true /\
    c_late c = 0.
Proof.
  intros EL c H. unfold spec_ok in H. apply andb_true_iff in H as [H1 H2].
  apply Z.eqb_eq in H1. split; [|exact H1]. unfold monitor.
  destruct (mon_run EL (c_dp c) _ _); [reflexivity|discriminate].
Qed.

Lemma epoch_length_positive : 0 < bitcoinDifficultyEpochLength.
Proof. reflexivity. Qed.

(* the control loop of the model, presented to the judge as a case, passes the executable property *)
Lemma model_loop_case_passes_spec : forall EL dp ws, 0 < EL ->
    spec_ok EL {| c_dp := dp; c_mode := MLoop; c_ws := ws;
                  c_trace := run EL dp SReady (ws ++ [err_world]); c_res := FNone; c_late := 0 |} = true.
Proof.
  intros EL dp ws HEL. unfold spec_ok, script_of. cbn [c_late c_dp c_mode c_ws c_trace c_res init_elig Z.eqb andb].
  pose proof (model_accepted EL dp HEL (ws ++ [err_world])) as H. unfold monitor, timeline in H.
  destruct (mon_run EL dp _ _); [reflexivity|discriminate].
Qed.

(* ------------------------------------------------------------------ non-vacuity *)
Definition okw (h e : Z) : world := mkw 1 1 1 h e 3 true true.
(* the example of the code comment: relay at epoch 258, proof length 3, chain at 522146 *)
Definition ex_script : list world :=
  [okw 522146 258; okw 522146 258;                        (* Ready, IsAuthorizedForRefund *)
   okw 522146 258; okw 522146 258; okw 522146 258;        (* height, epoch, proof length *)
   okw 522146 258; okw 522146 258; okw 522146 258; okw 522146 258; okw 522146 258; okw 522146 258;
   okw 522146 258;                                        (* RetargetWithRefund *)
   okw 522146 258; okw 522146 259].                       (* polls: lagging, then reached *)

Example ex_submits :
  run 2016 false SReady ex_script =
  [CReady; CAuth true true; CHeight; CEpoch; CPLen;
   CHeader 522141; CHeader 522142; CHeader 522143; CHeader 522144; CHeader 522145; CHeader 522146;
   CSubmit true [522141; 522142; 522143; 522144; 522145; 522146]; CEpoch; CEpoch]
  /\ in_domain 2016 258 3 = true.
Proof. split; vm_compute; reflexivity. Qed.

(* one block short: nothing is fetched or submitted *)
Example ex_one_block_short :
  run 2016 false SHeight [okw 522145 258; okw 522145 258; okw 522145 258; okw 522145 258] =
  [CHeight; CEpoch; CPLen; CHeight].
Proof. vm_compute. reflexivity. Qed.

(* A failed poll restarts the maintainer; if the relay still reports the old epoch it submits
   the same headers again (the error escape of no_resubmission_before_epoch_advance is real). *)
Definition ex_resubmit_script : list world :=
  firstn 12 ex_script ++ [mkw 1 1 1 522146 (-1) 3 true true] ++ firstn 12 ex_script.
Example ex_resubmission_after_failed_poll :
  exists pre w1 mid w2 post hs,
    timeline 2016 false SReady ex_resubmit_script =
      pre ++ (w1, CSubmit true hs) :: mid ++ (w2, CSubmit true hs) :: post /\
    w_submit w1 = true /\ hs = zrange 522141 6 /\
    forall x, In x mid -> ~ epoch_reached 259 x.
Proof.
  exists (firstn 11 (timeline 2016 false SReady ex_resubmit_script)), (okw 522146 258),
         (firstn 12 (skipn 12 (timeline 2016 false SReady ex_resubmit_script))), (okw 522146 258), [],
         (zrange 522141 6).
  split; [vm_compute; reflexivity|]. split; [reflexivity|]. split; [reflexivity|].
  intros x Hx [Hc (e' & He & Hle)]. vm_compute in Hx.
  repeat (destruct Hx as [<-|Hx]; [cbn in Hc, He; try discriminate; injection He as <-; lia|]).
  destruct Hx.
Qed.
