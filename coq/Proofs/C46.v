(* C46 — proofs about the deadline model of the wallet actions (Model/C46.v).  The facts about
   the Go constants are closed by computation over Gen.Consts_C46, so a changed constant
   re-opens them; everything else is generic arithmetic. *)
From Coq Require Import ZArith List Bool Lia.
From Coq Require Import ZifyBool.
From KV Require Import Common.Verdict Gen.Consts_C46 Model.C46.
Import ListNotations.
Open Scope Z_scope.

Lemma u64_small z : 0 <= z < two64 -> u64 z = z.
Proof. intros H. unfold u64. apply Z.mod_small. exact H. Qed.

Lemma u64_nonneg z : 0 <= u64 z.
Proof. unfold u64. apply Z.mod_pos_bound. reflexivity. Qed.

(* ---- obligations on the generated constants, closed by computation ---- *)
Lemma constants_nest a :
  constants_ok (is_tx a) (validity a) (signing_end_offset a) (safety_margin a)
               (signing_delay a + loop_blocks) (broadcast_timeout_ns a) = true.
Proof. destruct a; vm_compute; reflexivity. Qed.

Lemma signing_delay_nonneg a : 0 <= signing_delay a.
Proof. destruct a; vm_compute; congruence. Qed.

Lemma loop_blocks_nonneg : 0 <= loop_blocks.
Proof. apply u64_nonneg. Qed.

Lemma loop_blocks_no_wrap : loop_blocks = signingAttemptsLimit * attempt_max_blocks.
Proof. vm_compute. reflexivity. Qed.

Lemma duration_in_range : 0 <= coordinationDurationBlocks < 4611686018427387904.
Proof. split; [discriminate|reflexivity]. Qed.

(* ---- generic: what constants_ok gives for every start block ---- *)
Lemma windows_from_constants tx v off mg lp bt start :
  constants_ok tx v off mg lp bt = true -> 0 <= start -> start + v < two64 ->
  u64 (start + v) = start + v /\
  exists se, signing_end_of off (start + v) = Some se /\ se = start + v - off /\
    start <= se /\ se <= start + v - mg /\ start + lp <= se /\
    (tx = true -> se + blocks_of_ns bt <= start + v) /\
    (tx = false -> se <= start + v - mg /\ start + v - mg < start + v).
Proof.
  unfold constants_ok. intros H Hs Hov.
  assert (0 <= mg /\ mg <= off /\ off <= v /\ lp <= v - off) as [H1 [H2 [H3 H4]]] by lia.
  split; [apply u64_small; lia|].
  unfold signing_end_of. destruct (Z.ltb_spec (start + v) off) as [Hlt|Hge]; [lia|].
  exists (start + v - off). rewrite u64_small by lia.
  repeat split; try lia; try (intros E; rewrite E in *; lia).
Qed.

Lemma constants_ok_sound tx v off mg lp bt :
  constants_ok tx v off mg lp bt = true ->
  0 <= mg <= off /\ off <= v /\ lp <= v - off /\
  (tx = true -> blocks_of_ns bt <= off) /\ (tx = false -> 0 < mg).
Proof.
  unfold constants_ok. intros H. repeat split; try lia; intros ->; lia.
Qed.

(* ---- per action, every start block ---- *)
Lemma expiry_val a start :
  0 <= start -> start + validity a < two64 -> expiry a start = start + validity a.
Proof.
  intros Hs Hov. unfold expiry.
  apply (windows_from_constants _ _ _ _ _ _ start (constants_nest a) Hs Hov).
Qed.

Lemma signing_window_nests a start :
  0 <= start -> start + validity a < two64 ->
  exists se,
    signing_end a (expiry a start) = Some se /\
    start <= action_signing_start a start /\ action_signing_start a start <= se /\
    action_signing_start a start = start + signing_delay a /\
    se <= expiry a start - safety_margin a /\
    action_signing_start a start + signingAttemptsLimit * attempt_max_blocks <= se /\
    loop_timeout (action_signing_start a start) <= se.
Proof.
  intros Hs Hov. rewrite (expiry_val a start Hs Hov).
  destruct (windows_from_constants _ _ _ _ _ _ start (constants_nest a) Hs Hov)
    as [_ [se [E [Ev [H1 [H2 [H3 _]]]]]]].
  exists se. unfold signing_end, action_signing_start, loop_timeout. rewrite E.
  rewrite <- loop_blocks_no_wrap.
  pose proof (signing_delay_nonneg a) as Hd. pose proof loop_blocks_nonneg as Hl.
  destruct (constants_ok_sound _ _ _ _ _ _ (constants_nest a)) as [? [? [? _]]].
  rewrite (u64_small (start + signing_delay a)) by lia.
  repeat split; try lia.
  rewrite u64_small; lia.
Qed.

Lemma broadcast_ends_before_expiry a start se :
  is_tx a = true -> 0 <= start -> start + validity a < two64 ->
  signing_end a (expiry a start) = Some se ->
  se + blocks_of_ns (broadcast_timeout_ns a) <= expiry a start.
Proof.
  intros Htx Hs Hov Hse. rewrite (expiry_val a start Hs Hov) in *.
  destruct (windows_from_constants _ _ _ _ _ _ start (constants_nest a) Hs Hov)
    as [_ [se' [E [Ev [_ [_ [_ [Hb _]]]]]]]].
  unfold signing_end in Hse. rewrite E in Hse. injection Hse as Hse. rewrite <- Hse.
  apply Hb. exact Htx.
Qed.

Lemma heartbeat_claim_window start se :
  0 <= start -> start + validity Heartbeat < two64 ->
  signing_end Heartbeat (expiry Heartbeat start) = Some se ->
  se <= claim_end (expiry Heartbeat start) /\
  claim_end (expiry Heartbeat start) = expiry Heartbeat start - heartbeatTimeoutSafetyMarginBlocks /\
  claim_end (expiry Heartbeat start) < expiry Heartbeat start.
Proof.
  intros Hs Hov Hse. rewrite (expiry_val Heartbeat start Hs Hov) in *.
  destruct (windows_from_constants _ _ _ _ _ _ start (constants_nest Heartbeat) Hs Hov)
    as [_ [se' [E [Ev [H1 [H2 [_ [_ Hh]]]]]]]].
  unfold signing_end in Hse. rewrite E in Hse. injection Hse as Hse. rewrite <- Hse. clear Hse.
  destruct (Hh eq_refl) as [Ha Hb]. cbn [safety_margin] in *.
  destruct (constants_ok_sound _ _ _ _ _ _ (constants_nest Heartbeat)) as [Hm [Ho _]].
  cbn [safety_margin signing_end_offset validity signing_delay] in *.
  unfold claim_end. rewrite u64_small by lia. lia.
Qed.

Lemma action_start_val cb :
  0 <= cb < 4611686018427387904 ->
  action_start cb = cb + coordinationDurationBlocks /\ cb <= action_start cb.
Proof.
  intros H. pose proof duration_in_range as D. unfold action_start.
  rewrite u64_small; [lia|]. unfold two64. lia.
Qed.

(* broadcast check delay shorter than the broadcast timeout: at least one check happens *)
Lemma check_delay_within_timeout a :
  is_tx a = true -> 0 < broadcast_check_delay_ns a < broadcast_timeout_ns a.
Proof. destruct a; intros H; try discriminate; split; reflexivity. Qed.

(* ---- executable forms ---- *)
Lemma windows_ok_sound start exp mg lp ss se pe :
  windows_ok start exp mg lp ss se pe = true ->
  start <= ss /\ se <= exp - mg /\ lp <= se - start /\
  match pe with None => True | Some p => se <= p <= exp end.
Proof. unfold windows_ok. intros H. destruct pe; lia. Qed.

Lemma static_model_passes a start :
  is_tx a = true -> 0 <= start -> start + validity a < two64 ->
  judge (CStatic a start (start + validity a)
           {| s_validity := validity a; s_offset := signing_end_offset a;
              s_bt := broadcast_timeout_ns a; s_cd := broadcast_check_delay_ns a;
              s_start := start; s_expiry := start + validity a;
              s_limit := signingAttemptsLimit; s_attempt := attempt_max_blocks;
              s_loop := loop_blocks |}) = Agree.
Proof.
  intros Htx Hs Hov.
  assert (constants_ok (is_tx a) (validity a) (signing_end_offset a) (safety_margin a) loop_blocks
                       (broadcast_timeout_ns a) = true) as C.
  { pose proof (constants_nest a) as C0. pose proof (signing_delay_nonneg a). pose proof loop_blocks_nonneg.
    unfold constants_ok in *. destruct (is_tx a); lia. }
  rewrite Htx in C.
  assert (safety_margin a = signing_end_offset a) as Em by (destruct a; try discriminate; reflexivity).
  rewrite Em in C.
  destruct (constants_ok_sound _ _ _ _ _ _ C) as [H1 [H2 [H3 [H4 _]]]]. specialize (H4 eq_refl).
  unfold judge, well_formed, decide, spec_ok, agree. cbn [s_validity s_offset s_bt s_cd s_start s_expiry s_limit s_attempt s_loop].
  rewrite Htx, C. rewrite loop_blocks_no_wrap in *. unfold is_u64, windows_ok.
  rewrite !Z.eqb_refl. cbn [andb].
  replace (0 <=? start) with true by lia. replace (start <? two64) with true by lia.
  replace (0 <=? start + validity a) with true by lia.
  replace (start + validity a <? two64) with true by lia. cbn [andb].
  destruct (signing_end_offset a <=? start + validity a) eqn:E; [|reflexivity].
  replace (start <=? start) with true by lia.
  replace (start + validity a - signing_end_offset a <=? start + validity a - signing_end_offset a)
    with true by lia.
  replace (signingAttemptsLimit * attempt_max_blocks <=? start + validity a - signing_end_offset a - start)
    with true by lia.
  replace (start + validity a - signing_end_offset a <=?
           start + validity a - signing_end_offset a + blocks_of_ns (broadcast_timeout_ns a)) with true.
  2:{ assert (0 <= blocks_of_ns (broadcast_timeout_ns a)) by (destruct a; vm_compute; congruence). lia. }
  replace (start + validity a - signing_end_offset a + blocks_of_ns (broadcast_timeout_ns a) <=?
           start + validity a) with true by lia.
  reflexivity.
Qed.

Lemma heartbeat_model_passes start exp claims :
  0 <= start < two64 -> 0 <= exp < two64 ->
  judge (CHeartbeat start exp claims (heartbeat_model start exp claims)) = Agree.
Proof.
  intros Hs He.
  pose proof (constants_nest Heartbeat) as C.
  destruct (constants_ok_sound _ _ _ _ _ _ C) as [H1 [H2 [H3 [_ H4]]]]. specialize (H4 eq_refl).
  cbn [safety_margin signing_end_offset validity signing_delay] in *.
  unfold judge, well_formed, is_u64.
  replace ((0 <=? start) && (start <? two64) && ((0 <=? exp) && (exp <? two64))) with true by lia.
  assert (agree (CHeartbeat start exp claims (heartbeat_model start exp claims)) = true) as ->.
  { unfold agree. destruct (heartbeat_model start exp claims) as [a b c d].
    cbn [h_sign_start h_sign_end h_claim_end h_result].
    destruct a, b, c, d; cbn [optZ_eqb hb_eqb]; rewrite ?Z.eqb_refl; reflexivity. }
  unfold decide.
  assert (spec_ok (CHeartbeat start exp claims (heartbeat_model start exp claims)) = true) as ->; [|reflexivity].
  unfold spec_ok, heartbeat_model, signing_end, signing_end_of. cbn [signing_end_offset].
  destruct (Z.ltb_spec exp heartbeatInactivityClaimValidityBlocks) as [Hlt|Hge];
    cbn [h_result h_sign_start h_sign_end h_claim_end]; [reflexivity|].
  rewrite (u64_small (exp - heartbeatInactivityClaimValidityBlocks)) by lia.
  unfold signing_start.
  replace (start <=? start) with true by lia.
  replace (exp - heartbeatInactivityClaimValidityBlocks <=? exp - heartbeatTimeoutSafetyMarginBlocks)
    with true by lia. cbn [andb].
  assert ((if exp =? start + heartbeatTotalProposalValidityBlocks
           then loop_blocks <=? exp - heartbeatInactivityClaimValidityBlocks - start else true) = true) as ->.
  { destruct (Z.eqb_spec exp (start + heartbeatTotalProposalValidityBlocks)); [|reflexivity]. lia. }
  cbn [andb]. destruct claims; [|reflexivity].
  unfold claim_end. rewrite u64_small by lia. lia.
Qed.

(* hypotheses are satisfiable *)
Example deposit_sweep_example :
  let start := action_start 20000700 in
  start = 20000700 + coordinationDurationBlocks /\
  0 <= start /\ start + validity DepositSweep < two64 /\
  signing_end DepositSweep (expiry DepositSweep start) =
    Some (start + validity DepositSweep - signing_end_offset DepositSweep).
Proof. vm_compute. repeat split; congruence. Qed.

(* =====================================================================================
   withCancelOnBlock: the deadline is ENFORCED for every event history / waiter behaviour
   ===================================================================================== *)

Lemma ctx_cancelled_absorbing oe h : ctx_run oe CtxCancelled h = CtxCancelled.
Proof. induction h as [|e h IH]; [reflexivity|]. cbn [ctx_run fold_left ctx_step]. exact IH. Qed.

Lemma ctx_run_app oe s h1 h2 : ctx_run oe s (h1 ++ h2) = ctx_run oe (ctx_run oe s h1) h2.
Proof. unfold ctx_run. apply fold_left_app. Qed.

(* exact characterisation: open after a history iff no closing event occurred in it *)
Lemma ctx_open_iff oe h :
  ctx_run oe CtxOpen h = CtxOpen <-> forallb (fun e => negb (closing oe e)) h = true.
Proof.
  induction h as [|e h IH]; [cbn; tauto|].
  cbn [ctx_run fold_left ctx_step forallb].
  destruct (closing oe e) eqn:E; cbn [negb andb].
  - fold (ctx_run oe CtxCancelled h). rewrite ctx_cancelled_absorbing. split; discriminate.
  - exact IH.
Qed.

Lemma ctx_closed_at_first_closing_event oe s pre e post :
  closing oe e = true ->
  ctx_run oe s (pre ++ [e]) = CtxCancelled /\ ctx_run oe s (pre ++ e :: post) = CtxCancelled.
Proof.
  intros E.
  assert (ctx_run oe s (pre ++ [e]) = CtxCancelled) as H.
  { rewrite ctx_run_app. generalize (ctx_run oe s pre). intros s'. unfold ctx_run. cbn [fold_left].
    destruct s'; cbn [ctx_step]; [rewrite E|]; reflexivity. }
  split; [exact H|].
  replace (pre ++ e :: post) with ((pre ++ [e]) ++ post) by (rewrite <- app_assoc; reflexivity).
  rewrite ctx_run_app, H. apply ctx_cancelled_absorbing.
Qed.

Lemma ctx_closed_iff_closing_event oe h :
  ctx_run oe CtxOpen h = CtxCancelled <-> exists e, In e h /\ closing oe e = true.
Proof.
  split.
  - intros H. destruct (forallb (fun e => negb (closing oe e)) h) eqn:F.
    + apply ctx_open_iff in F. congruence.
    + assert (existsb (closing oe) h = true) as X.
      { clear H. induction h as [|e h IH]; [discriminate|]. cbn [forallb existsb] in *.
        destruct (closing oe e); [reflexivity|]. cbn [negb andb orb] in *. auto. }
      apply existsb_exists in X. exact X.
  - intros [e [Hin E]]. apply in_split in Hin. destruct Hin as [pre [post ->]].
    apply (ctx_closed_at_first_closing_event oe CtxOpen pre e post E).
Qed.

Lemma ctx_never_open_after_waiter_error s h :
  In EvWaiterError h -> ctx_run code_on_error s h = CtxCancelled.
Proof.
  intros Hin. apply in_split in Hin. destruct Hin as [pre [post ->]].
  apply (ctx_closed_at_first_closing_event code_on_error s pre EvWaiterError post). reflexivity.
Qed.

Lemma ctx_closed_iff_named_event (h : list event) :
  ctx_run code_on_error CtxOpen h = CtxCancelled <->
  exists e, In e h /\ (e = EvParentDone \/ e = EvBlockReached \/ e = EvWaiterError).
Proof.
  rewrite (ctx_closed_iff_closing_event code_on_error h).
  split; intros [e [Hin H]]; exists e; (split; [exact Hin|]).
  - destruct e; try discriminate; auto.
  - destruct H as [-> | [-> | ->]]; reflexivity.
Qed.

Lemma ctx_closed_at_first_named_event s pre e post :
  e = EvParentDone \/ e = EvBlockReached \/ e = EvWaiterError ->
  ctx_run code_on_error s (pre ++ [e]) = CtxCancelled /\
  ctx_run code_on_error s (pre ++ e :: post) = CtxCancelled.
Proof.
  intros H. apply ctx_closed_at_first_closing_event.
  destruct H as [-> | [-> | ->]]; reflexivity.
Qed.

(* a rule that does not cancel on a waiter error leaves the context open after the error *)
Lemma lenient_rule_stays_open_after_error h :
  (forall e, In e h -> e = EvWaiterError \/ e = EvQuiet) -> ctx_run false CtxOpen h = CtxOpen.
Proof.
  intros H. apply ctx_open_iff. apply forallb_forall. intros e Hin.
  destruct (H e Hin) as [-> | ->]; reflexivity.
Qed.

(* ---- the scripted world ---- *)
Definition winv (st : wstate) : Prop :=
  is_closed (w_ctx st) = w_parent st || returned (w_ret st) /\
  (w_parent st = true -> returned (w_ret st) = true).

Lemma winv_init : winv w_init.
Proof. split; [reflexivity|discriminate]. Qed.

Lemma world_step_parent oe m armed target st d :
  w_parent (world_step oe m armed target st d) = w_parent st || is_cancel d.
Proof.
  unfold world_step, step_events.
  destruct d as [b|]; cbn [is_cancel].
  - destruct (w_ret st); [destruct (fires m armed target b)|..]; cbn [w_parent]; rewrite orb_false_r; reflexivity.
  - destruct (w_parent st) eqn:P; [reflexivity|]. destruct (w_ret st); reflexivity.
Qed.

Lemma winv_step m armed target st d :
  winv st -> winv (world_step code_on_error m armed target st d).
Proof.
  intros [H1 H2]. unfold world_step, step_events.
  destruct st as [r p c]. cbn [w_ret w_parent w_ctx] in *.
  destruct d as [b|].
  - destruct r.
    + destruct (fires m armed target b); cbn [w_ret w_parent w_ctx ctx_run fold_left];
        (split; [|cbn [returned]; auto]).
      * cbn [returned] in *. destruct c; cbn [ctx_step closing]; exact H1.
      * destruct c; reflexivity || (cbn [ctx_step closing code_on_error is_closed returned]; rewrite orb_true_r; reflexivity).
      * destruct c; reflexivity || (cbn [ctx_step closing code_on_error is_closed returned]; rewrite orb_true_r; reflexivity).
    + cbn [w_ret w_parent w_ctx ctx_run fold_left]. split; [|reflexivity].
      destruct c; cbn [ctx_step closing]; exact H1.
    + cbn [w_ret w_parent w_ctx ctx_run fold_left]. split; [|reflexivity].
      destruct c; cbn [ctx_step closing]; exact H1.
  - destruct p.
    + cbn [w_ret w_parent w_ctx ctx_run fold_left]. split; [|exact H2].
      destruct c; cbn [ctx_step closing]; exact H1.
    + destruct r; cbn [w_ret w_parent w_ctx ctx_run fold_left]; (split; [|reflexivity]);
        destruct c; reflexivity.
Qed.

Lemma winv_run m armed target steps st :
  winv st -> winv (world_run code_on_error m armed target st steps).
Proof.
  revert st. induction steps as [|d ds IH]; intros st H; [exact H|].
  cbn [world_run fold_left]. apply IH. apply winv_step. exact H.
Qed.

Lemma world_run_app oe m armed target st s1 s2 :
  world_run oe m armed target st (s1 ++ s2) =
  world_run oe m armed target (world_run oe m armed target st s1) s2.
Proof. unfold world_run. apply fold_left_app. Qed.

(* under the rule of the code the derived context is closed exactly when the waiter has
   returned (nil or error) or the parent is done — at every point of every script *)
Lemma world_closed_iff_event m armed target steps :
  let st := world_run code_on_error m armed target w_init steps in
  is_closed (w_ctx st) = w_parent st || returned (w_ret st).
Proof. cbn zeta. apply (winv_run m armed target steps w_init winv_init). Qed.

Lemma world_step_cancelled_stays oe m armed target st d :
  w_ctx st = CtxCancelled -> w_ctx (world_step oe m armed target st d) = CtxCancelled.
Proof.
  intros H. unfold world_step. destruct (step_events m armed target st d) as [[evs r] pd].
  cbn [w_ctx]. rewrite H. apply ctx_cancelled_absorbing.
Qed.

Lemma world_run_cancelled_stays oe m armed target steps st :
  w_ctx st = CtxCancelled -> w_ctx (world_run oe m armed target st steps) = CtxCancelled.
Proof.
  revert st. induction steps as [|d ds IH]; intros st H; [exact H|].
  cbn [world_run fold_left]. apply IH. apply world_step_cancelled_stays. exact H.
Qed.

(* the block at which a scripted waiter returns by itself *)
Definition trigger (m : wmode) (armed target : Z) : option Z :=
  match m with WOk => Some target | WErrAfter k => Some (armed + k) | WHang => None end.

Lemma is_closed_true s : is_closed s = true -> s = CtxCancelled.
Proof. destruct s; [discriminate|reflexivity]. Qed.

(* for every waiter that returns — with nil at the block or with an error at any block — the
   derived context is closed as soon as the clock shows the block of that return, whatever
   happened before and whatever happens afterwards *)
Lemma deadline_enforced m armed target tr pre b post :
  trigger m armed target = Some tr -> tr <= b ->
  w_ctx (world_run code_on_error m armed target w_init (pre ++ [SAdvance b])) = CtxCancelled /\
  w_ctx (world_run code_on_error m armed target w_init (pre ++ SAdvance b :: post)) = CtxCancelled.
Proof.
  intros Ht Hb.
  assert (w_ctx (world_run code_on_error m armed target w_init (pre ++ [SAdvance b])) = CtxCancelled) as H.
  { rewrite world_run_app.
    pose proof (winv_run m armed target pre w_init winv_init) as [I1 I2].
    set (st := world_run code_on_error m armed target w_init pre) in *.
    cbn [world_run fold_left]. unfold world_step, step_events.
    destruct (w_ret st) eqn:R.
    - assert (fires m armed target b <> NotReturned) as F.
      { destruct m; cbn [trigger fires] in *; try discriminate; injection Ht as <-.
        - destruct (Z.leb_spec target b); [discriminate|lia].
        - destruct (Z.leb_spec (armed + k) b); [discriminate|lia]. }
      destruct (fires m armed target b); [congruence| |]; cbn [w_ctx ctx_run fold_left];
        destruct (w_ctx st); reflexivity.
    - cbn [w_ctx ctx_run fold_left]. cbn [returned] in I1. rewrite orb_true_r in I1.
      apply is_closed_true in I1. rewrite I1. reflexivity.
    - cbn [w_ctx ctx_run fold_left]. cbn [returned] in I1. rewrite orb_true_r in I1.
      apply is_closed_true in I1. rewrite I1. reflexivity. }
  split; [exact H|].
  replace (pre ++ SAdvance b :: post) with ((pre ++ [SAdvance b]) ++ post) by (rewrite <- app_assoc; reflexivity).
  rewrite world_run_app. apply world_run_cancelled_stays. exact H.
Qed.

(* a healthy waiter does not cut the phase short: while the clock stays below the target and
   the parent is not cancelled the context is open *)
Lemma healthy_waiter_open_before_deadline armed target steps :
  (forall d, In d steps -> exists b, d = SAdvance b /\ b < target) ->
  w_ctx (world_run code_on_error WOk armed target w_init steps) = CtxOpen /\
  w_ret (world_run code_on_error WOk armed target w_init steps) = NotReturned.
Proof.
  assert (forall st, w_ctx st = CtxOpen -> w_ret st = NotReturned ->
            (forall d, In d steps -> exists b, d = SAdvance b /\ b < target) ->
            w_ctx (world_run code_on_error WOk armed target st steps) = CtxOpen /\
            w_ret (world_run code_on_error WOk armed target st steps) = NotReturned) as G.
  { induction steps as [|d ds IH]; intros st Hc Hr Hs; [split; assumption|].
    cbn [world_run fold_left]. destruct (Hs d (or_introl eq_refl)) as [b [-> Hb]].
    apply IH.
    - unfold world_step, step_events. rewrite Hr. cbn [fires].
      destruct (Z.leb_spec target b); [lia|]. cbn [w_ctx ctx_run fold_left]. rewrite Hc. reflexivity.
    - unfold world_step, step_events. rewrite Hr. cbn [fires].
      destruct (Z.leb_spec target b); [lia|]. reflexivity.
    - intros d Hin. apply Hs. right. exact Hin. }
  intros H. apply G; [reflexivity|reflexivity|exact H].
Qed.

(* the rule "cancel only after a successful wait": a block counter that fails when the
   deadline is armed leaves the context open for ever (no parent to cancel it) *)
Lemma lenient_world_stays_open armed target steps :
  existsb is_cancel steps = false ->
  w_ctx (world_run false (WErrAfter 0) armed target w_init (all_steps armed steps)) = CtxOpen /\
  w_ret (world_run false (WErrAfter 0) armed target w_init (all_steps armed steps)) = RetErr.
Proof.
  intros Hs. unfold all_steps. cbn [world_run fold_left].
  assert (world_step false (WErrAfter 0) armed target w_init (SAdvance armed) =
          {| w_ret := RetErr; w_parent := false; w_ctx := CtxOpen |}) as ->.
  { unfold world_step, step_events. cbn [w_init w_ret fires].
    destruct (Z.leb_spec (armed + 0) armed); [reflexivity|lia]. }
  fold (world_run false (WErrAfter 0) armed target {| w_ret := RetErr; w_parent := false; w_ctx := CtxOpen |} steps).
  induction steps as [|d ds IH]; [split; reflexivity|].
  cbn [existsb] in Hs. apply orb_false_elim in Hs. destruct Hs as [Hd Hds].
  destruct d as [b|]; [|discriminate]. cbn [world_run fold_left].
  unfold world_step at 2 4. unfold step_events. cbn [w_ret w_parent w_ctx ctx_run fold_left ctx_step closing].
  apply IH. exact Hds.
Qed.

(* ---- the executable form ---- *)
Lemma enforce_ok_sound : forall steps obs pd,
  enforce_ok pd steps obs = true ->
  length obs = length steps /\
  forall i d o, nth_error steps i = Some d -> nth_error obs i = Some o ->
    o_closed o = (pd || existsb is_cancel (firstn (S i) steps)) || returned (o_ret o).
Proof.
  induction steps as [|d ds IH]; intros obs pd H.
  - destruct obs; [|discriminate]. split; [reflexivity|]. intros [|i] ? ? E; discriminate.
  - destruct obs as [|o os]; [discriminate|]. cbn [enforce_ok] in H.
    apply andb_prop in H. destruct H as [H1 H2]. apply eqb_prop in H1.
    destruct (IH os _ H2) as [L R]. split; [cbn; congruence|].
    intros [|i] d' o' Ed Eo.
    + cbn in Ed, Eo. injection Ed as <-. injection Eo as <-. cbn [firstn existsb]. rewrite orb_false_r. exact H1.
    + cbn [nth_error] in Ed, Eo. rewrite (R i d' o' Ed Eo).
      change (firstn (S (S i)) (d :: ds)) with (d :: firstn (S i) ds). cbn [existsb].
      rewrite orb_assoc. reflexivity.
Qed.

Lemma world_obs_enforce_ok m armed target steps st :
  winv st ->
  enforce_ok (w_parent st) steps (world_obs code_on_error m armed target st steps) = true.
Proof.
  revert st. induction steps as [|d ds IH]; intros st H; [reflexivity|].
  cbn [world_obs enforce_ok].
  pose proof (winv_step m armed target st d H) as H'.
  rewrite <- world_step_parent with (oe := code_on_error) (m := m) (armed := armed) (target := target).
  rewrite (IH _ H'). destruct H' as [H1 _]. unfold obs_of. cbn [o_closed o_ret]. rewrite H1.
  rewrite eqb_reflx. reflexivity.
Qed.

Lemma cobs_eqb_refl o : cobs_eqb o o = true.
Proof. destruct o as [r c]. unfold cobs_eqb. cbn. rewrite eqb_reflx. destruct r; reflexivity. Qed.
Lemma obs_eqb_refl l : obs_eqb l l = true.
Proof. induction l as [|o l IH]; [reflexivity|]. cbn [obs_eqb]. rewrite cobs_eqb_refl, IH. reflexivity. Qed.
Lemma optZ_eqb_refl o : optZ_eqb o o = true.
Proof. destruct o; [apply Z.eqb_refl|reflexivity]. Qed.

(* every armer: the model's deadline block is within what the property allows *)
Lemma armer_target_within ar :
  armer_wf ar = true ->
  exists t, armer_target ar = Some t /\ t <= armer_latest ar.
Proof.
  pose proof (constants_nest Heartbeat) as CH.
  destruct (constants_ok_sound _ _ _ _ _ _ CH) as [Hh1 [Hh2 [Hh3 [_ Hh4]]]]. specialize (Hh4 eq_refl).
  cbn [safety_margin signing_end_offset validity signing_delay] in *.
  destruct ar as [t p|s t|s e|s e|a s e]; unfold armer_wf, is_u64; intros W.
  - exists t. split; [reflexivity|cbn; lia].
  - exists t. split; [reflexivity|cbn; lia].
  - cbn [armer_target armer_latest]. unfold signing_end, signing_end_of. cbn [signing_end_offset].
    destruct (Z.ltb_spec e heartbeatInactivityClaimValidityBlocks); [lia|].
    eexists. split; [reflexivity|]. rewrite u64_small by lia. lia.
  - cbn [armer_target armer_latest]. unfold signing_end, signing_end_of. cbn [signing_end_offset].
    destruct (Z.ltb_spec e heartbeatInactivityClaimValidityBlocks); [lia|].
    eexists. split; [reflexivity|]. unfold claim_end. rewrite u64_small by lia. lia.
  - cbn [armer_target armer_latest]. unfold signing_end, signing_end_of.
    assert (safety_margin a = signing_end_offset a) as -> by (destruct a; try reflexivity; cbn in W; lia).
    destruct (Z.ltb_spec e (signing_end_offset a)); [lia|].
    eexists. split; [reflexivity|].
    pose proof (constants_nest a) as C. destruct (constants_ok_sound _ _ _ _ _ _ C) as [? [? _]].
    assert (0 <= signing_end_offset a) by (destruct a; cbn in *; lia).
    rewrite u64_small by lia. lia.
Qed.

Lemma enforce_model_passes ar armed m steps t :
  well_formed (CEnforce ar armed m steps (armer_sign_start ar) (armer_target ar) []) = true ->
  armer_target ar = Some t ->
  judge (CEnforce ar armed m steps (armer_sign_start ar) (armer_target ar) (model_obs m armed t steps)) = Agree.
Proof.
  intros W Et. unfold judge.
  assert (well_formed (CEnforce ar armed m steps (armer_sign_start ar) (armer_target ar) (model_obs m armed t steps)) = true) as -> by exact W.
  unfold decide.
  assert (agree (CEnforce ar armed m steps (armer_sign_start ar) (armer_target ar) (model_obs m armed t steps)) = true) as ->.
  { unfold agree. rewrite !optZ_eqb_refl, Et, obs_eqb_refl. reflexivity. }
  assert (spec_ok (CEnforce ar armed m steps (armer_sign_start ar) (armer_target ar) (model_obs m armed t steps)) = true) as ->; [|reflexivity].
  unfold spec_ok. rewrite Et.
  unfold well_formed in W. apply andb_prop in W. destruct W as [W _].
  apply andb_prop in W. destruct W as [W _]. apply andb_prop in W. destruct W as [W _].
  apply andb_prop in W. destruct W as [W _].
  destruct (armer_target_within ar W) as [t' [Et' Hle]]. rewrite Et in Et'. injection Et' as <-.
  replace (t <=? armer_latest ar) with true by lia. cbn [andb].
  assert (match armer_start ar, armer_sign_start ar with Some s0, Some s => s0 <=? s | _, _ => true end = true) as ->.
  { destruct ar as [? ?|? ?|? ?|? ?|a s e]; cbn [armer_start armer_sign_start]; unfold signing_start;
      try reflexivity; try lia.
    unfold action_signing_start. pose proof (signing_delay_nonneg a).
    unfold armer_wf, is_u64 in W. rewrite u64_small by lia. lia. }
  cbn [andb].
  assert (match ar, armer_sign_start ar with
          | AExec a start exp, Some s => if exp =? start + validity a then s + loop_blocks <=? t else true
          | _, _ => true
          end = true) as ->.
  { destruct ar as [? ?|? ?|? ?|? ?|a s e]; try reflexivity. cbn [armer_sign_start].
    destruct (Z.eqb_spec e (s + validity a)) as [->|]; [|reflexivity].
    unfold armer_wf, is_u64 in W. pose proof (signing_delay_nonneg a).
    cbn [armer_target] in Et. unfold signing_end, signing_end_of in Et.
    destruct (Z.ltb_spec (s + validity a) (signing_end_offset a)); [discriminate|].
    injection Et as <-.
    destruct (constants_ok_sound _ _ _ _ _ _ (constants_nest a)) as [? [? [? _]]].
    unfold action_signing_start. rewrite !u64_small by lia. lia. }
  cbn [andb]. unfold model_obs.
  exact (world_obs_enforce_ok m armed t (all_steps armed steps) w_init winv_init).
Qed.

(* ---- therefore: every action's signing phase is over by expiry - margin, for every waiter
   that returns by the deadline block (nil at the block, or an error at any earlier block),
   for every clock script ---- *)
Definition waiter_live (m : wmode) (armed se : Z) : Prop :=
  match m with WOk => True | WErrAfter k => armed + k <= se | WHang => False end.

Lemma signing_phase_enforced a start armed m pre b post :
  0 <= start -> start + validity a < two64 ->
  exists se,
    signing_end a (expiry a start) = Some se /\
    se <= expiry a start - safety_margin a /\
    (waiter_live m armed se -> se <= b ->
     w_ctx (world_run code_on_error m armed se w_init (pre ++ [SAdvance b])) = CtxCancelled /\
     w_ctx (world_run code_on_error m armed se w_init (pre ++ SAdvance b :: post)) = CtxCancelled).
Proof.
  intros Hs Hov. destruct (signing_window_nests a start Hs Hov) as [se [E [_ [_ [_ [Hm _]]]]]].
  exists se. split; [exact E|]. split; [exact Hm|]. intros L Hb.
  destruct m as [|k|]; cbn [waiter_live] in L.
  - apply (deadline_enforced WOk armed se se); [reflexivity|exact Hb].
  - apply (deadline_enforced (WErrAfter k) armed se (armed + k)); [reflexivity|lia].
  - contradiction.
Qed.

(* and the phase is not cut short by a healthy waiter: one complete retry loop still fits *)
Lemma signing_phase_not_cut_short a start armed steps :
  0 <= start -> start + validity a < two64 ->
  exists se,
    signing_end a (expiry a start) = Some se /\
    action_signing_start a start + signingAttemptsLimit * attempt_max_blocks <= se /\
    ((forall d, In d steps -> exists b, d = SAdvance b /\ b < se) ->
     w_ctx (world_run code_on_error WOk armed se w_init steps) = CtxOpen).
Proof.
  intros Hs Hov. destruct (signing_window_nests a start Hs Hov) as [se [E [_ [_ [_ [_ [Hl _]]]]]]].
  exists se. split; [exact E|]. split; [exact Hl|]. intros H.
  apply (healthy_waiter_open_before_deadline armed se steps H).
Qed.

Example enforce_example :
  judge (CEnforce (AHbSign 1000 1600) 1000 (WErrAfter 0) [SAdvance 1001; SAdvance 1300]
           (Some 1000) (Some 1300) (model_obs (WErrAfter 0) 1000 1300 [SAdvance 1001; SAdvance 1300])) = Agree
  /\ judge (CEnforce (AHbSign 1000 1600) 1000 (WErrAfter 0) [SAdvance 1001; SAdvance 1300]
           (Some 1000) (Some 1300)
           [ {| o_ret := RetErr; o_closed := false |}; {| o_ret := RetErr; o_closed := false |};
             {| o_ret := RetErr; o_closed := false |} ]) = SpecFail.
Proof. vm_compute. split; reflexivity. Qed.

(* ---------------- the signing executor's retry loop under the action deadline ---------------- *)
Definition send_before (b : Z) (x : Z * bool) : Prop := snd x = true -> fst x < b.

Lemma wait_until_bound cl c0 t b : t <= Z.max c0 cl -> wait_until cl t b <= Z.max c0 cl.
Proof. unfold wait_until. lia. Qed.

Lemma Forall_rev_cons {A} (P : A -> Prop) x acc : P x -> Forall P acc -> Forall P (rev (x :: acc)).
Proof.
  intros Hx Ha. apply Forall_rev. constructor; assumption.
Qed.

(* every result of the loop: returned (or out of fuel) with the clock no later than the first of
   call time / closing time, every live announcement strictly before the closing time *)
Lemma run_loop_bounded cl s c0 :
  forall fuel script k t acc,
    t <= Z.max c0 cl -> Forall (send_before cl) acc ->
    let o := run_loop cl s script fuel k t acc in
    (l_end o = -1 \/ l_end o <= Z.max c0 cl) /\ Forall (send_before cl) (l_sends o) /\
    (l_end o <> -1 -> l_err o = true).
Proof.
  induction fuel as [|f IH]; intros script k t acc Ht Hacc; cbn [run_loop].
  - cbn [l_end l_sends l_err]. repeat split; [left; reflexivity | apply Forall_rev; exact Hacc | congruence].
  - destruct (cl <=? t) eqn:E0.
    { cbn [l_end l_sends l_err]. repeat split; [right; exact Ht | apply Forall_rev; exact Hacc]. }
    destruct (ann_end s k <=? t) eqn:E1; [apply IH; assumption|].
    destruct (hd FMinority script); [|apply IH; assumption].
    set (t1 := wait_until cl t (ann_start s k)).
    assert (Ht1 : t1 <= Z.max c0 cl) by (apply wait_until_bound; exact Ht).
    assert (Hacc' : Forall (send_before cl) ((t1, negb (cl <=? t1)) :: acc)).
    { constructor; [|exact Hacc]. unfold send_before. cbn [fst snd]. intros Hl.
      destruct (cl <=? t1) eqn:E; [discriminate|]. lia. }
    destruct (cl <=? t1) eqn:E2.
    { cbn [l_end l_sends l_err]. repeat split; [right; exact Ht1 | apply Forall_rev; exact Hacc']. }
    set (t2 := wait_until cl t1 (ann_end s k)).
    assert (Ht2 : t2 <= Z.max c0 cl) by (apply wait_until_bound; exact Ht1).
    destruct (cl <=? t2) eqn:E3.
    { cbn [l_end l_sends l_err]. repeat split; [right; exact Ht2 | apply Forall_rev; exact Hacc']. }
    apply IH; assumption.
Qed.

Lemma close_time_obeys s d : close_time true s d = Z.min (s + loop_blocks) d.
Proof. reflexivity. Qed.

Lemma signing_ends_by_deadline_weak s d c0 script :
  let o := sign_model true s d c0 script in
  (l_end o = -1 \/ l_end o <= Z.max c0 (Z.min (s + loop_blocks) d)) /\
  Forall (send_before d) (l_sends o) /\
  (l_end o <> -1 -> l_err o = true).
Proof.
  cbv zeta. unfold sign_model. rewrite close_time_obeys.
  destruct (run_loop_bounded (Z.min (s + loop_blocks) d) s c0 (loop_fuel script) script 0 c0 [])
    as [H1 [H2 H3]]; [lia | constructor |].
  repeat split; [exact H1 | | exact H3].
  eapply Forall_impl; [|exact H2]. unfold send_before. intros x Hx Hl. specialize (Hx Hl). lia.
Qed.

(* the loop always returns: the fuel of sign_model is enough *)
Lemma attempt_constants_nonneg :
  0 <= signingAttemptAnnouncementDelayBlocks /\ 0 <= signingAttemptAnnouncementActiveBlocks /\
  0 <= attempt_max_blocks /\ 0 <= signingAttemptsLimit.
Proof. vm_compute. repeat split; congruence. Qed.

Lemma run_loop_returns cl s :
  cl <= s + loop_blocks ->
  forall fuel script k t acc,
    0 <= k -> 0 <= t ->
    (length script + Z.to_nat (signingAttemptsLimit - k) + 1 <= fuel)%nat ->
    0 <= l_end (run_loop cl s script fuel k t acc).
Proof.
  intros Hcl. destruct attempt_constants_nonneg as [Cd [Ca [Cm Cl]]].
  pose proof loop_blocks_no_wrap as LB.
  induction fuel as [|f IH]; intros script k t acc Hk Ht Hf; [lia|].
  cbn [run_loop].
  destruct (cl <=? t) eqn:E0; [cbn [l_end]; exact Ht|].
  assert (Hstep : (length (tl script) + Z.to_nat (signingAttemptsLimit - (k + 1)) + 1 <= f)%nat \/
                  (script = [] /\ signingAttemptsLimit <= k)).
  { destruct script as [|x script'].
    - cbn [tl length] in *. destruct (Z_lt_le_dec k signingAttemptsLimit); [left; lia|right; split; [reflexivity|lia]].
    - left. cbn [tl length] in *. lia. }
  assert (Hlate : signingAttemptsLimit <= k -> cl <= ann_start s k).
  { intros Hl. unfold ann_start. rewrite LB in Hcl. nia. }
  destruct (ann_end s k <=? t) eqn:E1.
  { destruct Hstep as [Hs|[_ Hl]]; [apply IH; lia|].
    specialize (Hlate Hl). unfold ann_end in E1. lia. }
  destruct (hd FMinority script) eqn:Eh.
  2:{ destruct Hstep as [Hs|[Hn _]]; [apply IH; lia|]. subst script. discriminate. }
  unfold wait_until.
  destruct (cl <=? Z.max t (Z.min (ann_start s k) cl)) eqn:E2; [cbn [l_end]; lia|].
  destruct (cl <=? Z.max (Z.max t (Z.min (ann_start s k) cl)) (Z.min (ann_end s k) cl)) eqn:E3; [cbn [l_end]; lia|].
  destruct Hstep as [Hs|[_ Hl]]; [apply IH; lia|].
  specialize (Hlate Hl). lia.
Qed.

Lemma sign_model_returns par s d c0 script :
  0 <= c0 -> 0 <= l_end (sign_model par s d c0 script).
Proof.
  intros Hc. unfold sign_model. apply run_loop_returns; [|lia|exact Hc|].
  - unfold close_time. destruct par; lia.
  - unfold loop_fuel. rewrite Z.sub_0_r. lia.
Qed.

Lemma signing_ends_by_deadline_lemma s d c0 script :
  0 <= c0 ->
  let o := sign_model true s d c0 script in
  0 <= l_end o <= Z.max c0 (Z.min (s + loop_blocks) d) /\
  Forall (send_before d) (l_sends o) /\ l_err o = true.
Proof.
  intros Hc. cbv zeta. pose proof (sign_model_returns true s d c0 script Hc) as H0.
  destruct (signing_ends_by_deadline_weak s d c0 script) as [H1 [H2 H3]].
  repeat split; [exact H0 | lia | exact H2 | apply H3; lia].
Qed.

(* soundness of the executable form *)
Lemma loop_spec_ok_sound s d c0 o :
  loop_spec_ok s d c0 o = true ->
  0 <= l_end o <= Z.max c0 (Z.min (s + loop_blocks) d) /\
  (forall b, In (b, true) (l_sends o) -> b < d) /\ l_err o = true.
Proof.
  unfold loop_spec_ok. intros H.
  apply andb_prop in H. destruct H as [H He]. apply andb_prop in H. destruct H as [H Hs].
  apply andb_prop in H. destruct H as [H0 H1].
  repeat split; [lia | lia | | exact He].
  intros b Hb. rewrite forallb_forall in Hs. specialize (Hs _ Hb). unfold live_before in Hs.
  cbn [fst snd negb orb] in Hs. lia.
Qed.

(* ... and it holds of every model output *)
Lemma sign_model_passes_spec s d c0 script :
  0 <= c0 -> loop_spec_ok s d c0 (sign_model true s d c0 script) = true.
Proof.
  intros Hc.
  destruct (signing_ends_by_deadline_lemma s d c0 script Hc) as [[H0 H1] [H2 H3]].
  unfold loop_spec_ok. rewrite H3, andb_true_r.
  apply andb_true_intro. split; [apply andb_true_intro; split; lia|].
  apply forallb_forall. intros [b l] Hin. rewrite Forall_forall in H2. specialize (H2 _ Hin).
  unfold send_before, live_before in *. cbn [fst snd] in *. destruct l; cbn [negb orb]; [|reflexivity].
  specialize (H2 eq_refl). lia.
Qed.

Lemma sends_eqb_refl l : sends_eqb l l = true.
Proof. induction l as [|[x p] l IH]; [reflexivity|]. cbn [sends_eqb]. rewrite Z.eqb_refl, eqb_reflx, IH. reflexivity. Qed.

Lemma loop_model_passes s d c0 script :
  well_formed (CLoop s d c0 script (sign_model true s d c0 script)) = true ->
  judge (CLoop s d c0 script (sign_model true s d c0 script)) = Agree.
Proof.
  intros W. unfold judge. rewrite W. cbn [well_formed] in W. unfold is_u64 in W.
  unfold decide, spec_ok, agree. rewrite sign_model_passes_spec by lia.
  unfold loop_obs_eqb. rewrite sends_eqb_refl, Z.eqb_refl, eqb_reflx. reflexivity.
Qed.

(* a loop context without the caller's context as parent (seeded change C46b): a message starting
   100 blocks before the deadline keeps announcing attempts after it and returns 105 blocks late *)
Lemma orphan_loop_overruns :
  let o := sign_model false 10000 10100 9998 [] in
  l_end o = 10205 /\ In (10124, true) (l_sends o) /\ loop_spec_ok 10000 10100 9998 o = false.
Proof. vm_compute. repeat split; try reflexivity. right; right; right; left; reflexivity. Qed.

Example loop_case_cut_by_deadline :
  judge (CLoop 10000 10100 9998 [] (sign_model true 10000 10100 9998 [])) = Agree /\
  l_end (sign_model true 10000 10100 9998 []) = 10100.
Proof. vm_compute. split; reflexivity. Qed.
