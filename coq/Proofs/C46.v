(* C46 — proofs about the deadline model of the wallet actions (Model/C46.v).  The facts about
   the Go constants are closed by computation over Gen.Consts_C46, so a changed constant
   re-opens them; everything else is generic arithmetic. *)
From Coq Require Import ZArith List Bool Lia.
From Coq Require Import ZifyBool.
From KV Require Import Common.Verdict Gen.Consts_C46 Model.C46.
Import ListNotations.
Open Scope Z_scope.

Lemma u64_small z : 0 <= z < two64 -> u64 z = z.
Proof. intros H. unfold u64. apply Z.mod_small. exact H. Qed.

Lemma u64_nonneg z : 0 <= u64 z.
Proof. unfold u64. apply Z.mod_pos_bound. reflexivity. Qed.

(* ---- obligations on the generated constants, closed by computation ---- *)
Lemma constants_nest a :
  constants_ok (is_tx a) (validity a) (signing_end_offset a) (safety_margin a) loop_blocks
               (broadcast_timeout_ns a) = true.
Proof. destruct a; vm_compute; reflexivity. Qed.

Lemma loop_blocks_no_wrap : loop_blocks = signingAttemptsLimit * attempt_max_blocks.
Proof. vm_compute. reflexivity. Qed.

Lemma duration_in_range : 0 <= coordinationDurationBlocks < 4611686018427387904.
Proof. split; [discriminate|reflexivity]. Qed.

(* ---- generic: what constants_ok gives for every start block ---- *)
Lemma windows_from_constants tx v off mg lp bt start :
  constants_ok tx v off mg lp bt = true -> 0 <= start -> start + v < two64 ->
  u64 (start + v) = start + v /\
  exists se, signing_end_of off (start + v) = Some se /\ se = start + v - off /\
    start <= se /\ se <= start + v - mg /\ start + lp <= se /\
    (tx = true -> se + blocks_of_ns bt <= start + v) /\
    (tx = false -> se <= start + v - mg /\ start + v - mg < start + v).
Proof.
  unfold constants_ok. intros H Hs Hov.
  assert (0 <= mg /\ mg <= off /\ off <= v /\ lp <= v - off) as [H1 [H2 [H3 H4]]] by lia.
  split; [apply u64_small; lia|].
  unfold signing_end_of. destruct (Z.ltb_spec (start + v) off) as [Hlt|Hge]; [lia|].
  exists (start + v - off). rewrite u64_small by lia.
  repeat split; try lia; try (intros E; rewrite E in *; lia).
Qed.

Lemma constants_ok_sound tx v off mg lp bt :
  constants_ok tx v off mg lp bt = true ->
  0 <= mg <= off /\ off <= v /\ lp <= v - off /\
  (tx = true -> blocks_of_ns bt <= off) /\ (tx = false -> 0 < mg).
Proof.
  unfold constants_ok. intros H. repeat split; try lia; intros ->; lia.
Qed.

(* ---- per action, every start block ---- *)
Lemma expiry_val a start :
  0 <= start -> start + validity a < two64 -> expiry a start = start + validity a.
Proof.
  intros Hs Hov. unfold expiry.
  apply (windows_from_constants _ _ _ _ _ _ start (constants_nest a) Hs Hov).
Qed.

Lemma signing_window_nests a start :
  0 <= start -> start + validity a < two64 ->
  exists se,
    signing_end a (expiry a start) = Some se /\
    start <= signing_start start /\ signing_start start <= se /\
    se <= expiry a start - safety_margin a /\
    signing_start start + signingAttemptsLimit * attempt_max_blocks <= se /\
    loop_timeout start <= se.
Proof.
  intros Hs Hov. rewrite (expiry_val a start Hs Hov).
  destruct (windows_from_constants _ _ _ _ _ _ start (constants_nest a) Hs Hov)
    as [_ [se [E [Ev [H1 [H2 [H3 _]]]]]]].
  exists se. unfold signing_end, signing_start, loop_timeout. rewrite E.
  rewrite <- loop_blocks_no_wrap.
  repeat split; try lia.
  rewrite u64_small; [lia|]. pose proof (u64_nonneg (signingAttemptsLimit * attempt_max_blocks)).
  fold loop_blocks in H. destruct (constants_ok_sound _ _ _ _ _ _ (constants_nest a)) as [? [? [? _]]].
  lia.
Qed.

Lemma broadcast_ends_before_expiry a start se :
  is_tx a = true -> 0 <= start -> start + validity a < two64 ->
  signing_end a (expiry a start) = Some se ->
  se + blocks_of_ns (broadcast_timeout_ns a) <= expiry a start.
Proof.
  intros Htx Hs Hov Hse. rewrite (expiry_val a start Hs Hov) in *.
  destruct (windows_from_constants _ _ _ _ _ _ start (constants_nest a) Hs Hov)
    as [_ [se' [E [Ev [_ [_ [_ [Hb _]]]]]]]].
  unfold signing_end in Hse. rewrite E in Hse. injection Hse as Hse. rewrite <- Hse.
  apply Hb. exact Htx.
Qed.

Lemma heartbeat_claim_window start se :
  0 <= start -> start + validity Heartbeat < two64 ->
  signing_end Heartbeat (expiry Heartbeat start) = Some se ->
  se <= claim_end (expiry Heartbeat start) /\
  claim_end (expiry Heartbeat start) = expiry Heartbeat start - heartbeatTimeoutSafetyMarginBlocks /\
  claim_end (expiry Heartbeat start) < expiry Heartbeat start.
Proof.
  intros Hs Hov Hse. rewrite (expiry_val Heartbeat start Hs Hov) in *.
  destruct (windows_from_constants _ _ _ _ _ _ start (constants_nest Heartbeat) Hs Hov)
    as [_ [se' [E [Ev [H1 [H2 [_ [_ Hh]]]]]]]].
  unfold signing_end in Hse. rewrite E in Hse. injection Hse as Hse. rewrite <- Hse. clear Hse.
  destruct (Hh eq_refl) as [Ha Hb]. cbn [safety_margin] in *.
  destruct (constants_ok_sound _ _ _ _ _ _ (constants_nest Heartbeat)) as [Hm [Ho _]].
  cbn [safety_margin signing_end_offset validity] in *.
  unfold claim_end. rewrite u64_small by lia. lia.
Qed.

Lemma action_start_val cb :
  0 <= cb < 4611686018427387904 ->
  action_start cb = cb + coordinationDurationBlocks /\ cb <= action_start cb.
Proof.
  intros H. pose proof duration_in_range as D. unfold action_start.
  rewrite u64_small; [lia|]. unfold two64. lia.
Qed.

(* broadcast check delay shorter than the broadcast timeout: at least one check happens *)
Lemma check_delay_within_timeout a :
  is_tx a = true -> 0 < broadcast_check_delay_ns a < broadcast_timeout_ns a.
Proof. destruct a; intros H; try discriminate; split; reflexivity. Qed.

(* ---- executable forms ---- *)
Lemma windows_ok_sound start exp mg lp ss se pe :
  windows_ok start exp mg lp ss se pe = true ->
  start <= ss /\ se <= exp - mg /\ lp <= se - start /\
  match pe with None => True | Some p => se <= p <= exp end.
Proof. unfold windows_ok. intros H. destruct pe; lia. Qed.

Lemma static_model_passes a start :
  is_tx a = true -> 0 <= start -> start + validity a < two64 ->
  judge (CStatic a start (start + validity a)
           {| s_validity := validity a; s_offset := signing_end_offset a;
              s_bt := broadcast_timeout_ns a; s_cd := broadcast_check_delay_ns a;
              s_start := start; s_expiry := start + validity a;
              s_limit := signingAttemptsLimit; s_attempt := attempt_max_blocks;
              s_loop := loop_blocks |}) = Agree.
Proof.
  intros Htx Hs Hov.
  pose proof (constants_nest a) as C. rewrite Htx in C.
  assert (safety_margin a = signing_end_offset a) as Em by (destruct a; try discriminate; reflexivity).
  rewrite Em in C.
  destruct (constants_ok_sound _ _ _ _ _ _ C) as [H1 [H2 [H3 [H4 _]]]]. specialize (H4 eq_refl).
  unfold judge, well_formed, decide, spec_ok, agree. cbn [s_validity s_offset s_bt s_cd s_start s_expiry s_limit s_attempt s_loop].
  rewrite Htx, C. rewrite loop_blocks_no_wrap in *. unfold is_u64, windows_ok.
  rewrite !Z.eqb_refl. cbn [andb].
  replace (0 <=? start) with true by lia. replace (start <? two64) with true by lia.
  replace (0 <=? start + validity a) with true by lia.
  replace (start + validity a <? two64) with true by lia. cbn [andb].
  destruct (signing_end_offset a <=? start + validity a) eqn:E; [|reflexivity].
  replace (start <=? start) with true by lia.
  replace (start + validity a - signing_end_offset a <=? start + validity a - signing_end_offset a)
    with true by lia.
  replace (signingAttemptsLimit * attempt_max_blocks <=? start + validity a - signing_end_offset a - start)
    with true by lia.
  replace (start + validity a - signing_end_offset a <=?
           start + validity a - signing_end_offset a + blocks_of_ns (broadcast_timeout_ns a)) with true.
  2:{ assert (0 <= blocks_of_ns (broadcast_timeout_ns a)) by (destruct a; vm_compute; congruence). lia. }
  replace (start + validity a - signing_end_offset a + blocks_of_ns (broadcast_timeout_ns a) <=?
           start + validity a) with true by lia.
  reflexivity.
Qed.

Lemma heartbeat_model_passes start exp claims :
  0 <= start < two64 -> 0 <= exp < two64 ->
  judge (CHeartbeat start exp claims (heartbeat_model start exp claims)) = Agree.
Proof.
  intros Hs He.
  pose proof (constants_nest Heartbeat) as C.
  destruct (constants_ok_sound _ _ _ _ _ _ C) as [H1 [H2 [H3 [_ H4]]]]. specialize (H4 eq_refl).
  cbn [safety_margin signing_end_offset validity] in *.
  unfold judge, well_formed, is_u64.
  replace ((0 <=? start) && (start <? two64) && ((0 <=? exp) && (exp <? two64))) with true by lia.
  assert (agree (CHeartbeat start exp claims (heartbeat_model start exp claims)) = true) as ->.
  { unfold agree. destruct (heartbeat_model start exp claims) as [a b c d].
    cbn [h_sign_start h_sign_end h_claim_end h_result].
    destruct a, b, c, d; cbn [optZ_eqb hb_eqb]; rewrite ?Z.eqb_refl; reflexivity. }
  unfold decide.
  assert (spec_ok (CHeartbeat start exp claims (heartbeat_model start exp claims)) = true) as ->; [|reflexivity].
  unfold spec_ok, heartbeat_model, signing_end, signing_end_of. cbn [signing_end_offset].
  destruct (Z.ltb_spec exp heartbeatInactivityClaimValidityBlocks) as [Hlt|Hge];
    cbn [h_result h_sign_start h_sign_end h_claim_end]; [reflexivity|].
  rewrite (u64_small (exp - heartbeatInactivityClaimValidityBlocks)) by lia.
  unfold signing_start.
  replace (start <=? start) with true by lia.
  replace (exp - heartbeatInactivityClaimValidityBlocks <=? exp - heartbeatTimeoutSafetyMarginBlocks)
    with true by lia. cbn [andb].
  assert ((if exp =? start + heartbeatTotalProposalValidityBlocks
           then loop_blocks <=? exp - heartbeatInactivityClaimValidityBlocks - start else true) = true) as ->.
  { destruct (Z.eqb_spec exp (start + heartbeatTotalProposalValidityBlocks)); [|reflexivity]. lia. }
  cbn [andb]. destruct claims; [|reflexivity].
  unfold claim_end. rewrite u64_small by lia. lia.
Qed.

(* hypotheses are satisfiable *)
Example deposit_sweep_example :
  let start := action_start 20000700 in
  start = 20000700 + coordinationDurationBlocks /\
  0 <= start /\ start + validity DepositSweep < two64 /\
  signing_end DepositSweep (expiry DepositSweep start) =
    Some (start + validity DepositSweep - signing_end_offset DepositSweep).
Proof. vm_compute. repeat split; congruence. Qed.
