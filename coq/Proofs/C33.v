(* C33 — proofs about the model of proposal discovery (Model/C33.v).  The statements restated
   in Props/C33.v are the theorems of the sections "deposits", "redemptions", "generator". *)
From Coq Require Import ZArith NArith List Bool Lia Permutation Sorted.
From Coq Require Import ZifyBool ZifyNat ZifyN.
From KV Require Import Common.Verdict Gen.Consts_C33 Model.C33.
Import ListNotations.
Open Scope Z_scope.

(* ------------------------------------------------------------------ *)
(* stable sort                                                         *)
(* ------------------------------------------------------------------ *)
Section Sort.
  Context {A : Type} (key : A -> Z).
  Definition key_le (a b : A) : Prop := key a <= key b.

  Lemma insert_by_perm x l : Permutation (insert_by key x l) (x :: l).
  Proof.
    induction l as [|y t IH]; cbn [insert_by]; [apply Permutation_refl|].
    destruct (key x <=? key y); [apply Permutation_refl|].
    eapply perm_trans; [apply perm_skip; exact IH|apply perm_swap].
  Qed.

  Lemma stable_sort_perm l : Permutation (stable_sort key l) l.
  Proof.
    induction l as [|x t IH]; cbn [stable_sort fold_right]; [apply perm_nil|].
    eapply perm_trans; [apply insert_by_perm|apply perm_skip; exact IH].
  Qed.

  Lemma insert_by_sorted x l :
    StronglySorted key_le l -> StronglySorted key_le (insert_by key x l).
  Proof.
    induction 1 as [|y t Hs IH Hall]; cbn [insert_by].
    - constructor; constructor.
    - destruct (key x <=? key y) eqn:E.
      + constructor; [constructor; assumption|].
        constructor; [unfold key_le; lia|].
        rewrite Forall_forall in *. intros z Hz. specialize (Hall z Hz). unfold key_le in *. lia.
      + constructor; [exact IH|].
        rewrite Forall_forall in *. intros z Hz.
        apply (Permutation_in _ (insert_by_perm x t)) in Hz. destruct Hz as [<-|Hz].
        * unfold key_le. lia.
        * apply Hall; exact Hz.
  Qed.

  Lemma stable_sort_sorted l : StronglySorted key_le (stable_sort key l).
  Proof.
    induction l as [|x t IH]; cbn [stable_sort fold_right]; [constructor|].
    apply insert_by_sorted. exact IH.
  Qed.

  (* stability: elements with equal keys keep their relative order *)
  Lemma insert_by_stable k x l :
    StronglySorted key_le l ->
    filter (fun y => key y =? k) (insert_by key x l) = filter (fun y => key y =? k) (x :: l).
  Proof.
    induction 1 as [|y t Hs IH Hall]; cbn [insert_by]; [reflexivity|].
    destruct (key x <=? key y) eqn:E; [reflexivity|].
    cbn [filter] in *. rewrite IH.
    destruct (key y =? k) eqn:Ey; destruct (key x =? k) eqn:Ex; try reflexivity. lia.
  Qed.

  Lemma stable_sort_stable k l :
    filter (fun y => key y =? k) (stable_sort key l) = filter (fun y => key y =? k) l.
  Proof.
    induction l as [|x t IH]; cbn [stable_sort fold_right]; [reflexivity|].
    rewrite insert_by_stable by apply stable_sort_sorted.
    cbn [filter]. fold (stable_sort key t). rewrite IH. reflexivity.
  Qed.
End Sort.

(* a sorted list is determined by its per-key sub-lists: "stable sort" is a specification *)
Lemma sorted_by_key_unique {A} (key : A -> Z) (l1 : list A) : forall l2,
  StronglySorted (key_le key) l1 -> StronglySorted (key_le key) l2 ->
  (forall k, filter (fun y => key y =? k) l1 = filter (fun y => key y =? k) l2) -> l1 = l2.
Proof.
  induction l1 as [|a t1 IH]; intros l2 S1 S2 Hf.
  - destruct l2 as [|b t2]; [reflexivity|]. specialize (Hf (key b)). cbn [filter] in Hf.
    rewrite Z.eqb_refl in Hf. discriminate.
  - destruct l2 as [|b t2].
    + specialize (Hf (key a)). cbn [filter] in Hf. rewrite Z.eqb_refl in Hf. discriminate.
    + inversion S1 as [|a' t1' S1' F1]; subst. inversion S2 as [|b' t2' S2' F2]; subst.
      rewrite Forall_forall in F1, F2.
      assert (Hab : key a = key b).
      { assert (Ha : In a (filter (fun y => key y =? key a) (b :: t2))).
        { rewrite <- Hf. cbn [filter]. rewrite Z.eqb_refl. left; reflexivity. }
        assert (Hb : In b (filter (fun y => key y =? key b) (a :: t1))).
        { rewrite Hf. cbn [filter]. rewrite Z.eqb_refl. left; reflexivity. }
        apply filter_In in Ha. apply filter_In in Hb. destruct Ha as [Ha _]. destruct Hb as [Hb _].
        assert (key b <= key a) by (destruct Ha as [<-|Ha]; [lia|apply (F2 _ Ha)]).
        assert (key a <= key b) by (destruct Hb as [<-|Hb]; [lia|apply (F1 _ Hb)]).
        lia. }
      pose proof (Hf (key a)) as Hk. cbn [filter] in Hk. rewrite Z.eqb_refl in Hk.
      rewrite <- Hab, Z.eqb_refl in Hk. inversion Hk as [[Hab' Hrest]]. subst b. f_equal.
      apply IH; try assumption. intro k. specialize (Hf k). cbn [filter] in Hf.
      destruct (key a =? k); [inversion Hf; reflexivity|exact Hf].
Qed.

Theorem stable_sort_unique {A} (key : A -> Z) (l s : list A) :
  StronglySorted (fun a b => key a <= key b) s ->
  (forall k, filter (fun y => key y =? k) s = filter (fun y => key y =? k) l) ->
  s = stable_sort key l.
Proof.
  intros Hs Hf. apply (sorted_by_key_unique key); [exact Hs|apply stable_sort_sorted|].
  intro k. rewrite Hf, stable_sort_stable. reflexivity.
Qed.

(* ------------------------------------------------------------------ *)
(* the collect-up-to-cap loop                                          *)
(* ------------------------------------------------------------------ *)
Definition taken {A B} (f : A -> step B) (x : A) : option B :=
  match f x with Take b => Some b | _ => None end.
Definition fails {A B} (f : A -> step B) (x : A) : Prop := exists e, f x = Fail e.

Lemma scan_ok {A B} (f : A -> step B) (l : list A) : forall room r,
  0 <= room -> scan f room l = inr r -> r = firstn (Z.to_nat room) (filter_map (taken f) l).
Proof.
  induction l as [|x rest IH]; intros room r Hr H; cbn [scan] in H.
  - inversion H. cbn [filter_map]. rewrite firstn_nil. reflexivity.
  - destruct (room =? 0) eqn:E0.
    + inversion H. assert (room = 0) as -> by lia. reflexivity.
    + cbn [filter_map]. unfold taken at 1. destruct (f x) as [b| |e].
      * destruct (scan f (room - 1) rest) as [e|r'] eqn:Es; [discriminate|]. inversion H; subst r.
        replace (Z.to_nat room) with (S (Z.to_nat (room - 1))) by lia. cbn [firstn].
        f_equal. apply IH; [lia|exact Es].
      * apply IH; assumption.
      * discriminate.
Qed.

Lemma scan_no_fail {A B} (f : A -> step B) (l : list A) : forall room,
  (forall x, In x l -> ~ fails f x) -> exists r, scan f room l = inr r.
Proof.
  induction l as [|x rest IH]; intros room Hnf; cbn [scan]; [eexists; reflexivity|].
  destruct (room =? 0); [eexists; reflexivity|].
  destruct (f x) as [b| |e] eqn:E.
  - destruct (IH (room - 1)) as [r Hr]; [intros y Hy; apply Hnf; right; exact Hy|].
    rewrite Hr. eexists; reflexivity.
  - apply IH. intros y Hy; apply Hnf; right; exact Hy.
  - exfalso. apply (Hnf x (or_introl eq_refl)). exists e; exact E.
Qed.

Lemma scan_fail {A B} (f : A -> step B) (l : list A) : forall room e,
  scan f room l = inl e -> exists x, In x l /\ f x = Fail e.
Proof.
  induction l as [|x rest IH]; intros room e H; cbn [scan] in H; [discriminate|].
  destruct (room =? 0); [discriminate|].
  destruct (f x) as [b| |e'] eqn:E.
  - destruct (scan f (room - 1) rest) as [e''|r'] eqn:Es; [|discriminate]. inversion H; subst e''.
    destruct (IH _ _ Es) as [y [Hy Hf]]. exists y. split; [right; exact Hy|exact Hf].
  - destruct (IH _ _ H) as [y [Hy Hf]]. exists y. split; [right; exact Hy|exact Hf].
  - inversion H; subst e'. exists x. split; [left; reflexivity|exact E].
Qed.

(* the loop fails exactly when a failing element is reached before the result is full *)
Lemma scan_fail_iff {A B} (f : A -> step B) (l : list A) : forall room e,
  0 <= room ->
  (scan f room l = inl e <->
   exists pre x post, l = pre ++ x :: post /\ f x = Fail e /\
                      (forall y, In y pre -> ~ fails f y) /\
                      len (filter_map (taken f) pre) < room).
Proof.
  induction l as [|x rest IH]; intros room e Hr; cbn [scan].
  - split; [discriminate|]. intros [pre [y [post [H _]]]]. destruct pre; discriminate.
  - destruct (room =? 0) eqn:E0.
    + split; [discriminate|]. intros [pre [y [post [_ [_ [_ Hl]]]]]]. unfold len in Hl. lia.
    + destruct (f x) as [b| |e'] eqn:E.
      * split.
        -- intro H. destruct (scan f (room - 1) rest) as [e''|r'] eqn:Es; [|discriminate].
           inversion H; subst e''. apply IH in Es; [|lia].
           destruct Es as [pre [y [post [-> [Hf [Hnf Hl]]]]]].
           exists (x :: pre), y, post. repeat split; try assumption.
           ++ intros z [<-|Hz]; [intros [e2 He2]; congruence|apply Hnf; exact Hz].
           ++ cbn [filter_map]. unfold taken at 1. rewrite E. unfold len in *. cbn [length]. lia.
        -- intros [pre [y [post [Hl [Hf [Hnf Hlen]]]]]]. destruct pre as [|p pre]; cbn [app] in Hl.
           ++ inversion Hl; subst. congruence.
           ++ inversion Hl; subst p rest.
              assert (Es : scan f (room - 1) (pre ++ y :: post) = inl e).
              { apply IH; [lia|]. exists pre, y, post. repeat split; try assumption.
                - intros z Hz. apply Hnf. right; exact Hz.
                - cbn [filter_map] in Hlen. unfold taken at 1 in Hlen. rewrite E in Hlen.
                  unfold len in *. cbn [length] in Hlen. lia. }
              rewrite Es. reflexivity.
      * rewrite IH by exact Hr. split.
        -- intros [pre [y [post [-> [Hf [Hnf Hl]]]]]]. exists (x :: pre), y, post.
           repeat split; try assumption.
           ++ intros z [<-|Hz]; [intros [e2 He2]; congruence|apply Hnf; exact Hz].
           ++ cbn [filter_map]. unfold taken at 1. rewrite E. exact Hl.
        -- intros [pre [y [post [Hl [Hf [Hnf Hlen]]]]]]. destruct pre as [|p pre]; cbn [app] in Hl.
           ++ inversion Hl; subst. congruence.
           ++ inversion Hl; subst p rest. exists pre, y, post. repeat split; try assumption.
              ** intros z Hz. apply Hnf. right; exact Hz.
              ** cbn [filter_map] in Hlen. unfold taken at 1 in Hlen. rewrite E in Hlen. exact Hlen.
      * split.
        -- intro H. inversion H; subst e'. exists [], x, rest. repeat split; try assumption.
           ++ intros y [].
           ++ unfold len. cbn. lia.
        -- intros [pre [y [post [Hl [Hf [Hnf Hlen]]]]]]. destruct pre as [|p pre]; cbn [app] in Hl.
           ++ inversion Hl; subst. congruence.
           ++ inversion Hl; subst p. exfalso. apply (Hnf x (or_introl eq_refl)). exists e'; exact E.
Qed.

Lemma filter_map_perm {A B} (f : A -> option B) (l l' : list A) :
  Permutation l l' -> Permutation (filter_map f l) (filter_map f l').
Proof.
  induction 1 as [|x l l' _ IH|x y l|l l' l'' _ IH1 _ IH2]; cbn [filter_map].
  - apply perm_nil.
  - destruct (f x); [apply perm_skip|]; exact IH.
  - destruct (f x), (f y); try apply Permutation_refl. apply perm_swap.
  - eapply perm_trans; eassumption.
Qed.

Lemma filter_perm {A} (f : A -> bool) (l l' : list A) :
  Permutation l l' -> Permutation (filter f l) (filter f l').
Proof.
  induction 1 as [|x l l' _ IH|x y l|l l' l'' _ IH1 _ IH2]; cbn [filter].
  - apply perm_nil.
  - destruct (f x); [apply perm_skip|]; exact IH.
  - destruct (f x), (f y); try apply Permutation_refl. apply perm_swap.
  - eapply perm_trans; eassumption.
Qed.

Lemma filter_sorted {A} (R : A -> A -> Prop) (f : A -> bool) (l : list A) :
  StronglySorted R l -> StronglySorted R (filter f l).
Proof.
  induction 1 as [|x t Hs IH Hall]; cbn [filter]; [constructor|].
  destruct (f x); [|exact IH]. constructor; [exact IH|].
  rewrite Forall_forall in *. intros y Hy. apply filter_In in Hy. apply Hall. apply Hy.
Qed.

Lemma filter_map_In {A B} (f : A -> option B) (l : list A) (b : B) :
  In b (filter_map f l) <-> exists a, In a l /\ f a = Some b.
Proof.
  induction l as [|x t IH]; cbn [filter_map].
  - split; [intros []|intros [a [[] _]]].
  - destruct (f x) as [b'|] eqn:E.
    + cbn [In]. rewrite IH. split.
      * intros [<-|[a [Ha Hf]]]; [exists x; split; [left; reflexivity|exact E]|].
        exists a. split; [right; exact Ha|exact Hf].
      * intros [a [[<-|Ha] Hf]]; [left; congruence|right; exists a; split; assumption].
    + rewrite IH. split.
      * intros [a [Ha Hf]]. exists a. split; [right; exact Ha|exact Hf].
      * intros [a [[<-|Ha] Hf]]; [congruence|exists a; split; assumption].
Qed.

(* ================================================================== *)
(* deposits                                                            *)
(* ================================================================== *)
Section DepositsP.
  Variable dep_req : N * N -> dep_look.
  Variable confs : N -> option Z.

  Lemma dep_taken now ma ss su e :
    taken (dep_step dep_req confs now ma ss su) e = dep_eligible dep_req confs now ma ss su e.
  Proof. reflexivity. Qed.

  (* what "eligible" means *)
  Theorem dep_eligible_iff now ma ss su e d :
    dep_eligible dep_req confs now ma ss su e = Some d <->
    exists revealed_at swept_at amount,
      dep_req (de_tx e, de_idx e) = DFound revealed_at swept_at amount /\
      revealed_at + ma < now /\
      (ss = true -> swept_at = 0) /\
      (su = true -> DepositSweepRequiredFundingTxConfirmations
                    <= match confs (de_tx e) with Some c => c | None => 0 end) /\
      d = {| d_tx := de_tx e; d_idx := de_idx e; d_block := de_block e; d_wallet := de_wallet e;
             d_swept := negb (swept_at =? 0); d_amount := amount;
             d_conf := match confs (de_tx e) with Some c => c | None => 0 end |}.
  Proof.
    unfold dep_eligible, dep_step.
    destruct (dep_req (de_tx e, de_idx e)) as [r s a| |] eqn:E.
    - destruct (r + ma <? now) eqn:E1; cbn [negb].
      + destruct (ss && negb (s =? 0)) eqn:E2.
        * split; [discriminate|]. intros [r' [s' [a' [H [_ [Hs _]]]]]]. inversion H; subst.
          apply andb_true_iff in E2. destruct E2 as [-> E2]. specialize (Hs eq_refl). lia.
        * destruct (su && (match confs (de_tx e) with Some c => c | None => 0 end
                           <? DepositSweepRequiredFundingTxConfirmations)) eqn:E3.
          -- split; [discriminate|]. intros [r' [s' [a' [H [_ [_ [Hc _]]]]]]].
             apply andb_true_iff in E3. destruct E3 as [-> E3]. specialize (Hc eq_refl). lia.
          -- split.
             ++ intro H. inversion H; subst d. exists r, s, a. repeat split; try lia.
             ++ intros [r' [s' [a' [H [_ [_ [_ ->]]]]]]]. inversion H; subst. reflexivity.
      + split; [discriminate|]. intros [r' [s' [a' [H [Hlt _]]]]]. inversion H; subst. lia.
    - split; [discriminate|]. intros [r' [s' [a' [H _]]]]. discriminate.
    - split; [discriminate|]. intros [r' [s' [a' [H _]]]]. discriminate.
  Qed.

  Definition dep_sorted (wallet : N) (evs : list dep_event) : list dep_event :=
    stable_sort de_block (filter (dep_visible wallet) evs).
  Definition dep_cap (max : Z) (sorted : list dep_event) : Z :=
    if 0 <? max then max else len sorted.

  Lemma dep_cap_nonneg max sorted : 0 <= dep_cap max sorted.
  Proof. unfold dep_cap, len. destruct (0 <? max) eqn:E; lia. Qed.

  Theorem find_deposits_sound now min_age events wallet max ss su l :
    find_deposits dep_req confs now min_age events wallet max ss su = DepOk l ->
    exists ma evs, min_age = Some ma /\ events = Some evs /\
      l = firstn (Z.to_nat (dep_cap max (dep_sorted wallet evs)))
                 (filter_map (dep_eligible dep_req confs now ma ss su) (dep_sorted wallet evs)).
  Proof.
    unfold find_deposits. destruct min_age as [ma|]; [|discriminate].
    destruct events as [evs|]; [|discriminate].
    fold (dep_sorted wallet evs). fold (dep_cap max (dep_sorted wallet evs)).
    destruct (scan _ _ _) as [e|r] eqn:Es; [destruct e; discriminate|].
    intro H. inversion H; subst r. exists ma, evs. repeat split.
    apply scan_ok in Es; [exact Es|apply dep_cap_nonneg].
  Qed.

  (* no error when every visible deposit has a readable request *)
  Theorem find_deposits_complete now ma evs wallet max ss su :
    (forall e, In e evs -> dep_visible wallet e = true ->
               exists r s a, dep_req (de_tx e, de_idx e) = DFound r s a) ->
    exists l, find_deposits dep_req confs now (Some ma) (Some evs) wallet max ss su = DepOk l.
  Proof.
    intro Hall. unfold find_deposits.
    destruct (scan_no_fail (dep_step dep_req confs now ma ss su)
                (stable_sort de_block (filter (dep_visible wallet) evs))
                (if 0 <? max then max else len (stable_sort de_block (filter (dep_visible wallet) evs))))
      as [r Hr].
    - intros e He [er Hf].
      apply (Permutation_in _ (stable_sort_perm de_block _)) in He. apply filter_In in He.
      destruct (Hall e (proj1 He) (proj2 He)) as [r [s [a Hreq]]].
      unfold dep_step in Hf. rewrite Hreq in Hf.
      destruct (negb (r + ma <? now)); [discriminate|].
      destruct (ss && negb (s =? 0)); [discriminate|].
      destruct (su && _); discriminate.
    - rewrite Hr. eexists; reflexivity.
  Qed.

  (* an error needs a failing chain call *)
  Theorem find_deposits_error now min_age events wallet max ss su :
    match find_deposits dep_req confs now min_age events wallet max ss su with
    | DepErrChain =>
        min_age = None \/ events = None \/
        exists evs e, events = Some evs /\ In e evs /\ dep_visible wallet e = true /\
                      dep_req (de_tx e, de_idx e) = DLookErr
    | DepErrNoRequest =>
        exists evs e, events = Some evs /\ In e evs /\ dep_visible wallet e = true /\
                      dep_req (de_tx e, de_idx e) = DMissing
    | DepErrWallet | DepPanic => False
    | DepOk _ => True
    end.
  Proof.
    unfold find_deposits. destruct min_age as [ma|]; [|left; reflexivity].
    destruct events as [evs|]; [|right; left; reflexivity].
    destruct (scan _ _ _) as [e|r] eqn:Es; [|exact I].
    apply scan_fail in Es. destruct Es as [x [Hx Hf]].
    apply (Permutation_in _ (stable_sort_perm de_block _)) in Hx. apply filter_In in Hx.
    unfold dep_step in Hf.
    destruct (dep_req (de_tx x, de_idx x)) as [r s a| |] eqn:Er.
    - exfalso. destruct (negb (r + ma <? now)); [discriminate|].
      destruct (ss && negb (s =? 0)); [discriminate|]. destruct (su && _); discriminate.
    - inversion Hf; subst e. exists evs, x. repeat split; try apply Hx. exact Er.
    - inversion Hf; subst e. right; right. exists evs, x. repeat split; try apply Hx. exact Er.
  Qed.

  Theorem find_deposits_to_sweep_sound now min_age events wallet max l :
    find_deposits_to_sweep dep_req confs now min_age events wallet max = DepOk l ->
    wallet <> 0%N /\
    exists l', find_deposits dep_req confs now min_age events wallet max true true = DepOk l' /\
               l = map to_ref l'.
  Proof.
    unfold find_deposits_to_sweep. destruct (N.eqb wallet 0) eqn:E; [discriminate|].
    apply N.eqb_neq in E.
    destruct (find_deposits dep_req confs now min_age events wallet max true true) as [l'| | | |];
      try discriminate.
    intro H. inversion H; subst l. split; [exact E|]. exists l'. split; reflexivity.
  Qed.
End DepositsP.

(* the stable sort by reveal block, characterised without reference to the algorithm *)
Theorem dep_sorted_spec wallet evs :
  let sorted := dep_sorted wallet evs in
  (forall e, In e sorted <-> In e evs /\ dep_visible wallet e = true) /\
  Permutation sorted (filter (dep_visible wallet) evs) /\
  StronglySorted (fun a b => de_block a <= de_block b) sorted /\
  (forall b, filter (fun e => de_block e =? b) sorted
             = filter (fun e => de_block e =? b) (filter (dep_visible wallet) evs)).
Proof.
  cbn zeta. unfold dep_sorted. split; [|split; [|split]].
  - intro e. split.
    + intro H. apply (Permutation_in _ (stable_sort_perm de_block _)) in H. apply filter_In in H. exact H.
    + intro H. apply (Permutation_in _ (Permutation_sym (stable_sort_perm de_block _))).
      apply filter_In. exact H.
  - apply stable_sort_perm.
  - apply (stable_sort_sorted de_block).
  - intro b. apply stable_sort_stable.
Qed.

Theorem dep_sorted_unique wallet evs s :
  StronglySorted (fun a b => de_block a <= de_block b) s ->
  (forall b, filter (fun e => de_block e =? b) s
             = filter (fun e => de_block e =? b) (filter (dep_visible wallet) evs)) ->
  s = dep_sorted wallet evs.
Proof. apply stable_sort_unique. Qed.

(* ---- executable form ---- *)
Lemma deposit_eqb_eq a b : deposit_eqb a b = true <-> a = b.
Proof.
  unfold deposit_eqb. destruct a, b; cbn.
  rewrite !andb_true_iff, !N.eqb_eq, !Z.eqb_eq, eqb_true_iff. split.
  - intros [[[[[[-> ->] ->] ->] ->] ->] ->]. reflexivity.
  - intro H; inversion H; subst. repeat split.
Qed.
Lemma deposits_eqb_eq a : forall b, deposits_eqb a b = true <-> a = b.
Proof.
  induction a as [|x a IH]; intros [|y b]; cbn [deposits_eqb]; split; intro H;
    try reflexivity; try discriminate.
  - apply andb_true_iff in H. destruct H as [H1 H2]. apply deposit_eqb_eq in H1. apply IH in H2.
    subst; reflexivity.
  - inversion H; subst. apply andb_true_iff. split; [apply deposit_eqb_eq|apply IH]; reflexivity.
Qed.

Definition dep_case_flags (c : dep_case) : bool * bool :=
  if dc_to_sweep c then (true, true) else (dc_skip_swept c, dc_skip_unconf c).

Theorem dep_spec_ok_sound c l :
  dep_spec_ok c = true -> dc_out c = DepOk l ->
  exists ma evs, dc_min_age c = Some ma /\ dc_events c = Some evs /\
    let sorted := dep_sorted (dc_wallet c) evs in
    let want := firstn (Z.to_nat (dep_cap (dc_max c) sorted))
                  (filter_map (dep_eligible (dc_req c) (dc_conf c) (dc_now c) ma
                                 (fst (dep_case_flags c)) (snd (dep_case_flags c))) sorted) in
    l = if dc_to_sweep c then map to_ref want else want.
Proof.
  unfold dep_spec_ok, dep_case_flags. intros H Ho. rewrite Ho in H.
  destruct (dc_min_age c) as [ma|]; [|discriminate]. destruct (dc_events c) as [evs|]; [|discriminate].
  apply andb_true_iff in H. destruct H as [_ H]. apply deposits_eqb_eq in H.
  exists ma, evs. repeat split. cbn zeta. unfold dep_sorted, dep_cap.
  destruct (dc_to_sweep c); cbn [fst snd]; exact H.
Qed.

Theorem dep_spec_ok_sound' c l :
  dep_spec_ok c = true -> dc_out c = DepOk l ->
  exists ma evs, dc_min_age c = Some ma /\ dc_events c = Some evs /\
    let sorted := dep_sorted (dc_wallet c) evs in
    let ss := if dc_to_sweep c then true else dc_skip_swept c in
    let su := if dc_to_sweep c then true else dc_skip_unconf c in
    let want := firstn (Z.to_nat (dep_cap (dc_max c) sorted))
                  (filter_map (dep_eligible (dc_req c) (dc_conf c) (dc_now c) ma ss su) sorted) in
    l = if dc_to_sweep c then map to_ref want else want.
Proof.
  intros H Ho. destruct (dep_spec_ok_sound c l H Ho) as [ma [evs [H1 [H2 H3]]]].
  exists ma, evs. split; [exact H1|]. split; [exact H2|].
  cbn zeta in *. unfold dep_case_flags in H3. destruct (dc_to_sweep c); exact H3.
Qed.

Theorem dep_model_passes c : dc_out c = model_deposits c -> dep_spec_ok c = true.
Proof.
  intro Ho. unfold dep_spec_ok. rewrite Ho. unfold model_deposits.
  destruct (dc_to_sweep c) eqn:Ets.
  - unfold find_deposits_to_sweep. destruct (N.eqb (dc_wallet c) 0) eqn:Ew; [reflexivity|].
    pose proof (find_deposits_error (dc_req c) (dc_conf c) (dc_now c) (dc_min_age c) (dc_events c)
                  (dc_wallet c) (dc_max c) true true) as Herr.
    destruct (find_deposits (dc_req c) (dc_conf c) (dc_now c) (dc_min_age c) (dc_events c)
                (dc_wallet c) (dc_max c) true true) as [l| | | |] eqn:Ef.
    + apply find_deposits_sound in Ef. destruct Ef as [ma [evs [-> [-> ->]]]].
      cbn [andb negb]. apply deposits_eqb_eq. reflexivity.
    + destruct (dc_min_age c); [|reflexivity]. destruct (dc_events c) as [evs|]; [|reflexivity].
      destruct Herr as [H|[H|[evs' [e [H [Hin [Hv Hr]]]]]]]; try discriminate. inversion H; subst evs'.
      apply existsb_exists. exists e. split; [apply filter_In; split; assumption|].
      unfold dep_failing. rewrite Hr. reflexivity.
    + destruct (dc_min_age c); [|reflexivity]. destruct (dc_events c) as [evs|]; [|reflexivity].
      destruct Herr as [evs' [e [H [Hin [Hv Hr]]]]]. inversion H; subst evs'.
      apply existsb_exists. exists e. split; [apply filter_In; split; assumption|].
      unfold dep_failing. rewrite Hr. reflexivity.
    + destruct Herr.
    + destruct Herr.
  - pose proof (find_deposits_error (dc_req c) (dc_conf c) (dc_now c) (dc_min_age c) (dc_events c)
                  (dc_wallet c) (dc_max c) (dc_skip_swept c) (dc_skip_unconf c)) as Herr.
    destruct (find_deposits (dc_req c) (dc_conf c) (dc_now c) (dc_min_age c) (dc_events c)
                (dc_wallet c) (dc_max c) (dc_skip_swept c) (dc_skip_unconf c)) as [l| | | |] eqn:Ef.
    + apply find_deposits_sound in Ef. destruct Ef as [ma [evs [-> [-> ->]]]].
      cbn [andb negb]. apply deposits_eqb_eq. reflexivity.
    + destruct (dc_min_age c); [|reflexivity]. destruct (dc_events c) as [evs|]; [|reflexivity].
      destruct Herr as [H|[H|[evs' [e [H [Hin [Hv Hr]]]]]]]; try discriminate. inversion H; subst evs'.
      apply existsb_exists. exists e. split; [apply filter_In; split; assumption|].
      unfold dep_failing. rewrite Hr. reflexivity.
    + destruct (dc_min_age c); [|reflexivity]. destruct (dc_events c) as [evs|]; [|reflexivity].
      destruct Herr as [evs' [e [H [Hin [Hv Hr]]]]]. inversion H; subst evs'.
      apply existsb_exists. exists e. split; [apply filter_In; split; assumption|].
      unfold dep_failing. rewrite Hr. reflexivity.
    + destruct Herr.
    + destruct Herr.
Qed.

(* ================================================================== *)
(* redemptions                                                         *)
(* ================================================================== *)
(* ---- eventsSet: one entry per key, the last event of that key ---- *)
Definition keyed (k : N) (e : red_event) : bool :=
  match re_key e with Some k' => N.eqb k k' | None => false end.
(* the last event of [evs] whose key is [k] ([init] when there is none) *)
Definition last_with (k : N) (evs : list red_event) (init : option red_event) : option red_event :=
  fold_left (fun acc e => if keyed k e then Some e else acc) evs init.

Lemma assoc_upsert k k' e m :
  assoc N.eqb k (upsert k' e m) = if N.eqb k k' then Some e else assoc N.eqb k m.
Proof.
  induction m as [|[k2 e2] t IH]; cbn [upsert assoc].
  - destruct (N.eqb k k'); reflexivity.
  - destruct (N.eqb k' k2) eqn:E1; cbn [assoc].
    + apply N.eqb_eq in E1. subst k2. destruct (N.eqb k k'); reflexivity.
    + rewrite IH. destruct (N.eqb k k2) eqn:E2; [|reflexivity].
      apply N.eqb_eq in E2. subst k2. rewrite N.eqb_sym, E1. reflexivity.
Qed.

Lemma upsert_keys k e m x :
  In x (map fst (upsert k e m)) <-> x = k \/ In x (map fst m).
Proof.
  induction m as [|[k2 e2] t IH]; cbn [upsert map fst In].
  - split; [intros [<-|[]]; left; reflexivity|intros [->|[]]; left; reflexivity].
  - destruct (N.eqb k k2) eqn:E; cbn [map fst In].
    + apply N.eqb_eq in E. subst k2. split.
      * intros [<-|H]; [left; reflexivity|right; right; exact H].
      * intros [->|[<-|H]]; [left|left|right]; try reflexivity; exact H.
    + rewrite IH. split.
      * intros [<-|[->|H]]; [right; left|left|right; right]; try reflexivity; exact H.
      * intros [->|[<-|H]]; [right; left|left|right; right]; try reflexivity; exact H.
Qed.

Lemma upsert_nodup k e m : NoDup (map fst m) -> NoDup (map fst (upsert k e m)).
Proof.
  induction m as [|[k2 e2] t IH]; cbn [upsert map fst]; intro H.
  - constructor; [intros []|constructor].
  - inversion H as [|x l Hn Ht]; subst. destruct (N.eqb k k2) eqn:E; cbn [map fst].
    + apply N.eqb_eq in E. subst k2. constructor; assumption.
    + apply N.eqb_neq in E. constructor; [|apply IH; exact Ht].
      intro Hin. apply upsert_keys in Hin. destruct Hin as [->|Hin]; [congruence|exact (Hn Hin)].
Qed.

Theorem build_set_spec evs : forall m set,
  build_set evs m = Some set -> NoDup (map fst m) ->
  NoDup (map fst set) /\
  forall k, assoc N.eqb k set = last_with k evs (assoc N.eqb k m).
Proof.
  induction evs as [|e rest IH]; intros m set H Hn; cbn [build_set] in H.
  - inversion H; subst set. split; [exact Hn|reflexivity].
  - destruct (re_key e) as [k0|] eqn:Ek; [|discriminate].
    destruct (IH _ _ H (upsert_nodup k0 e m Hn)) as [Hn' Ha]. split; [exact Hn'|].
    intro k. rewrite Ha, assoc_upsert. unfold last_with. cbn [fold_left].
    assert (keyed k e = N.eqb k k0) as -> by (unfold keyed; rewrite Ek; reflexivity).
    reflexivity.
Qed.

Lemma last_with_in k evs : forall init e,
  last_with k evs init = Some e -> (In e evs /\ re_key e = Some k) \/ init = Some e.
Proof.
  induction evs as [|x rest IH]; intros init e H; cbn [last_with fold_left] in H.
  - right; exact H.
  - apply IH in H. destruct H as [[Hin Hk]|H].
    + left. split; [right; exact Hin|exact Hk].
    + destruct (keyed k x) eqn:E; [|right; exact H].
      inversion H; subst x. left. split; [left; reflexivity|].
      unfold keyed in E. destruct (re_key e) as [k'|]; [|discriminate].
      apply N.eqb_eq in E. subst; reflexivity.
Qed.

Lemma assoc_in {B} k (m : list (N * B)) v : assoc N.eqb k m = Some v -> In (k, v) m.
Proof.
  induction m as [|[k2 v2] t IH]; cbn [assoc]; [discriminate|].
  destruct (N.eqb k k2) eqn:E.
  - apply N.eqb_eq in E. subst. intro H; inversion H; subst. left; reflexivity.
  - intro H. right. apply IH; exact H.
Qed.
Lemma in_assoc {B} k (m : list (N * B)) v :
  NoDup (map fst m) -> In (k, v) m -> assoc N.eqb k m = Some v.
Proof.
  induction m as [|[k2 v2] t IH]; cbn [assoc map fst]; intros Hn Hin; [destruct Hin|].
  inversion Hn as [|x l Hni Ht]; subst. destruct Hin as [H|H].
  - inversion H; subst. rewrite N.eqb_refl. reflexivity.
  - destruct (N.eqb k k2) eqn:E.
    + apply N.eqb_eq in E. subst k2. exfalso. apply Hni.
      apply in_map_iff. exists (k, v). split; [reflexivity|exact H].
    + apply IH; assumption.
Qed.

(* the set built from [evs]: distinct keys; (k, e) is an entry iff e is the last event with key k *)
Theorem build_set_entries evs set :
  build_set evs [] = Some set ->
  NoDup (map fst set) /\
  (forall k e, In (k, e) set <-> last_with k evs None = Some e) /\
  (forall k e, In (k, e) set -> In e evs /\ re_key e = Some k).
Proof.
  intro H. destruct (build_set_spec evs [] set H (NoDup_nil _)) as [Hn Ha].
  assert (Hiff : forall k e, In (k, e) set <-> last_with k evs None = Some e).
  { intros k e. specialize (Ha k). cbn [assoc] in Ha. rewrite <- Ha.
    split; [apply in_assoc; exact Hn|apply assoc_in]. }
  repeat split; try apply Hiff; try exact Hn.
  - apply Hiff in H0. apply last_with_in in H0. destruct H0 as [[H1 _]|H1]; [exact H1|discriminate].
  - apply Hiff in H0. apply last_with_in in H0. destruct H0 as [[_ H1]|H1]; [exact H1|discriminate].
Qed.

Section RedP.
  Variable pending : N * N -> red_look.
  Variable delay : N * N -> option Z.
  Variable iter : list (N * red_event) -> list (N * red_event).
  Hypothesis iter_perm : forall m, Permutation (iter m) m.

  Definition pend_of (e : red_event) : option pend :=
    match pending (re_wallet e, re_script e) with RFound t => Some (e, t) | _ => None end.
  Definition takeb (now tmo ma : Z) (p : pend) : bool :=
    match red_step delay now tmo ma p with Take _ => true | _ => false end.
  (* an eligible entry with its request time *)
  Definition elig_pend (now tmo ma : Z) (e : red_event) : option pend :=
    match red_eligible pending delay now tmo ma e with Some t => Some (e, t) | None => None end.

  Lemma collect_pending_spec l : forall pd,
    collect_pending pending l = Some pd -> pd = filter_map pend_of (map snd l).
  Proof.
    induction l as [|[k e] t IH]; intros pd H; cbn [collect_pending] in H.
    - inversion H; reflexivity.
    - cbn [map snd filter_map]. unfold pend_of at 1.
      destruct (pending (re_wallet e, re_script e)) as [tm| |]; [| |discriminate].
      + destruct (collect_pending pending t) as [r|]; [|discriminate]. inversion H; subst pd.
        f_equal. apply IH; reflexivity.
      + apply IH; exact H.
  Qed.

  Lemma taken_red_step now tmo ma l :
    filter_map (taken (red_step delay now tmo ma)) l
    = map (fun p : pend => re_script (fst p)) (filter (takeb now tmo ma) l).
  Proof.
    induction l as [|[e t] rest IH]; cbn [filter_map filter]; [reflexivity|].
    unfold taken at 1, takeb at 1.
    destruct (red_step delay now tmo ma (e, t)) as [b| |er] eqn:E; try exact IH.
    cbn [map fst]. f_equal; [|exact IH].
    unfold red_step in E. destruct (t <? now - tmo); [discriminate|].
    destruct (delay (re_wallet e, re_script e)) as [d|]; [|discriminate].
    destruct (now - (if ma <? d then d else ma) <? t); [discriminate|].
    inversion E; reflexivity.
  Qed.

  Lemma filter_takeb_pend_of now tmo ma L :
    filter (takeb now tmo ma) (filter_map pend_of L) = filter_map (elig_pend now tmo ma) L.
  Proof.
    induction L as [|e rest IH]; cbn [filter_map]; [reflexivity|].
    unfold pend_of at 1, elig_pend at 1, red_eligible.
    destruct (pending (re_wallet e, re_script e)) as [t| |]; [|exact IH|exact IH].
    cbn [filter]. unfold takeb at 1, red_step.
    destruct (delay (re_wallet e, re_script e)) as [d|].
    - destruct (t <? now - tmo) eqn:E1.
      + assert ((now - tmo <=? t) = false) as -> by lia. cbn [andb]. exact IH.
      + assert ((now - tmo <=? t) = true) as -> by lia. cbn [andb].
        destruct (now - (if ma <? d then d else ma) <? t) eqn:E2.
        * assert ((t <=? now - Z.max ma d) = false) as ->.
          { destruct (ma <? d) eqn:E3; lia. }
          exact IH.
        * assert ((t <=? now - Z.max ma d) = true) as ->.
          { destruct (ma <? d) eqn:E3; lia. }
          f_equal. exact IH.
    - destruct (t <? now - tmo); exact IH.
  Qed.

  Lemma length_filter_map_pend_of L :
    length (filter_map pend_of L) = length (filter (is_pending pending) L).
  Proof.
    induction L as [|e rest IH]; cbn [filter_map filter]; [reflexivity|].
    unfold pend_of at 1, is_pending at 1.
    destruct (pending (re_wallet e, re_script e)); cbn [length]; lia.
  Qed.

  Definition red_sorted (wallet : N) (cur tmo abt : Z) (evs : list red_event) : list red_event :=
    stable_sort re_block (filter (red_visible wallet (start_block cur tmo abt)) evs).
  Definition red_cap (limit : Z) (set : list (N * red_event)) : Z :=
    if 0 <? limit then limit else len (filter (is_pending pending) (map snd set)).

  Theorem red_sound now current min_age timeout abt events wallet limit l :
    find_redemptions pending delay iter now current min_age timeout abt events wallet limit
      = RedOk l ->
    wallet <> 0%N /\ abt <> 0 /\
    exists cur ma tmo evs set,
      current = Some cur /\ min_age = Some ma /\ timeout = Some tmo /\ events = Some evs /\
      build_set (red_sorted wallet cur tmo abt evs) [] = Some set /\
      exists el : list pend,
        Permutation el (filter_map (elig_pend now tmo ma) (map snd set)) /\
        StronglySorted (fun a b : pend => snd a <= snd b) el /\
        l = map (fun p : pend => re_script (fst p)) (firstn (Z.to_nat (red_cap limit set)) el).
  Proof.
    unfold find_redemptions. destruct (N.eqb wallet 0) eqn:Ew; [discriminate|].
    destruct current as [cur|]; [|discriminate]. destruct min_age as [ma|]; [|discriminate].
    destruct timeout as [tmo|]; [|discriminate]. destruct (abt =? 0) eqn:Ea; [discriminate|].
    destruct events as [evs|]; [|discriminate].
    fold (red_sorted wallet cur tmo abt evs).
    destruct (build_set (red_sorted wallet cur tmo abt evs) []) as [set|] eqn:Eb; [|discriminate].
    destruct (collect_pending pending (iter set)) as [pd|] eqn:Ec; [|discriminate].
    destruct (scan _ _ _) as [e|r] eqn:Es; [discriminate|]. intro H. inversion H; subst r.
    apply collect_pending_spec in Ec.
    assert (Hpp : Permutation pd (filter_map pend_of (map snd set))).
    { rewrite Ec. apply filter_map_perm. apply Permutation_map. apply iter_perm. }
    assert (Hlen : len pd = len (filter (is_pending pending) (map snd set))).
    { unfold len. rewrite (Permutation_length Hpp), length_filter_map_pend_of. reflexivity. }
    assert (Hcap : (if 0 <? limit then limit else len pd) = red_cap limit set).
    { unfold red_cap. rewrite Hlen. reflexivity. }
    rewrite Hcap in Es. apply scan_ok in Es.
    2:{ unfold red_cap, len. destruct (0 <? limit) eqn:E; lia. }
    split; [apply N.eqb_neq; exact Ew|]. split; [lia|].
    exists cur, ma, tmo, evs, set. do 4 (split; [reflexivity|]). split; [exact Eb|].
    exists (filter (takeb now tmo ma) (stable_sort snd pd)). split; [|split].
    - rewrite <- filter_takeb_pend_of. apply filter_perm.
      eapply perm_trans; [apply stable_sort_perm|exact Hpp].
    - apply filter_sorted. apply (stable_sort_sorted (A:=pend) snd).
    - rewrite Es, taken_red_step. apply firstn_map.
  Qed.

  (* an error needs a failing chain call *)
  Theorem red_error now current min_age timeout abt events wallet limit :
    find_redemptions pending delay iter now current min_age timeout abt events wallet limit
      = RedErrChain ->
    current = None \/ min_age = None \/ timeout = None \/ events = None \/
    exists evs e, events = Some evs /\ In e evs /\
                  (re_key e = None \/ pending (re_wallet e, re_script e) = RLookErr \/
                   delay (re_wallet e, re_script e) = None).
  Proof.
    unfold find_redemptions. destruct (N.eqb wallet 0) eqn:Ew; [discriminate|].
    destruct current as [cur|]; [|left; reflexivity].
    destruct min_age as [ma|]; [|right; left; reflexivity].
    destruct timeout as [tmo|]; [|right; right; left; reflexivity].
    destruct (abt =? 0) eqn:Ea; [discriminate|].
    destruct events as [evs|]; [|right; right; right; left; reflexivity].
    intro H. right; right; right; right. exists evs.
    set (sorted := stable_sort re_block (filter (red_visible wallet (start_block cur tmo abt)) evs)) in *.
    assert (Hsub : forall e, In e sorted -> In e evs).
    { intros e He. apply (Permutation_in _ (stable_sort_perm re_block _)) in He.
      apply filter_In in He. apply He. }
    destruct (build_set sorted []) as [set|] eqn:Eb.
    - destruct (build_set_entries _ _ Eb) as [_ [_ Hent]].
      destruct (collect_pending pending (iter set)) as [pd|] eqn:Ec.
      + destruct (scan _ _ _) as [e|r] eqn:Es; [|discriminate].
        apply scan_fail in Es. destruct Es as [[e0 t] [Hin Hf]].
        apply (Permutation_in _ (stable_sort_perm snd _)) in Hin.
        apply collect_pending_spec in Ec. rewrite Ec in Hin. apply filter_map_In in Hin.
        destruct Hin as [a [Ha Hp]]. unfold pend_of in Hp.
        destruct (pending (re_wallet a, re_script a)); try discriminate. inversion Hp; subst a t.
        apply in_map_iff in Ha. destruct Ha as [[k e1] [He1 Hin]]. cbn [snd] in He1. subst e1.
        apply (Permutation_in _ (iter_perm set)) in Hin. apply Hent in Hin.
        exists e0. split; [reflexivity|]. split; [apply Hsub; apply Hin|]. right; right.
        unfold red_step in Hf. destruct (_ <? _); [discriminate|].
        destruct (delay (re_wallet e0, re_script e0)); [|reflexivity].
        destruct (_ <? _); discriminate.
      + assert (G : forall l, collect_pending pending l = None ->
                     exists k e, In (k, e) l /\ pending (re_wallet e, re_script e) = RLookErr).
        { induction l as [|[k e] t IH]; cbn [collect_pending]; [discriminate|].
          destruct (pending (re_wallet e, re_script e)) eqn:Ep.
          - destruct (collect_pending pending t); [discriminate|]. intros _.
            destruct (IH eq_refl) as [k' [e' [Hin Hp]]]. exists k', e'. split; [right|]; assumption.
          - intro Hn. destruct (IH Hn) as [k' [e' [Hin Hp]]]. exists k', e'. split; [right|]; assumption.
          - intros _. exists k, e. split; [left; reflexivity|exact Ep]. }
        destruct (G _ Ec) as [k [e [Hin Hp]]].
        apply (Permutation_in _ (iter_perm set)) in Hin. apply Hent in Hin.
        exists e. split; [reflexivity|]. split; [apply Hsub; apply Hin|]. right; left; exact Hp.
    - assert (G : forall l m, build_set l m = None -> exists e, In e l /\ re_key e = None).
      { induction l as [|e t IH]; intros m; cbn [build_set]; [discriminate|].
        destruct (re_key e) eqn:Ek.
        - intro Hn. destruct (IH _ Hn) as [e' [Hin Hk]]. exists e'. split; [right|]; assumption.
        - intros _. exists e. split; [left; reflexivity|exact Ek]. }
      destruct (G _ _ Eb) as [e [Hin Hk]]. exists e. split; [reflexivity|]. split; [apply Hsub; exact Hin|left; exact Hk].
  Qed.
End RedP.

(* what "eligible" means for a redemption request *)
Theorem red_eligible_iff pending delay now tmo ma e t :
  red_eligible pending delay now tmo ma e = Some t <->
  pending (re_wallet e, re_script e) = RFound t /\
  exists d, delay (re_wallet e, re_script e) = Some d /\
            now - tmo <= t <= now - Z.max ma d.
Proof.
  unfold red_eligible. destruct (pending (re_wallet e, re_script e)) as [t'| |].
  - destruct (delay (re_wallet e, re_script e)) as [d|].
    + destruct ((now - tmo <=? t') && (t' <=? now - Z.max ma d)) eqn:E.
      * split.
        -- intro H; inversion H; subst. split; [reflexivity|]. exists d. split; [reflexivity|lia].
        -- intros [H _]. inversion H; reflexivity.
      * split; [discriminate|]. intros [H [d' [Hd Hw]]]. inversion H; inversion Hd; subst. lia.
    + split; [discriminate|]. intros [_ [d' [Hd _]]]. discriminate.
  - split; [discriminate|]. intros [H _]; discriminate.
  - split; [discriminate|]. intros [H _]; discriminate.
Qed.

(* ================================================================== *)
(* generator                                                           *)
(* ================================================================== *)
Lemma generate_spec tasks cl :
  match first_decisive tasks cl with
  | None => fst (generate tasks cl) = GNoop
  | Some a => match outcome tasks a with
              | Some (TProp p) => fst (generate tasks cl) = GProp p
              | Some TErr => fst (generate tasks cl) = GErr
              | _ => False
              end
  end.
Proof.
  induction cl as [|a rest IH]; cbn [first_decisive generate]; [reflexivity|].
  unfold skips, outcome. destruct (index_of tasks a 0%N) as [[i t]|] eqn:Ei.
  - destruct (tk_out t) eqn:Et.
    + rewrite Ei, Et. reflexivity.
    + destruct (generate tasks rest) as [r tr]. exact IH.
    + rewrite Ei, Et. reflexivity.
  - exact IH.
Qed.

Definition skipsP (tasks : list task) (a : N) : Prop :=
  outcome tasks a = None \/ outcome tasks a = Some TNone.

Lemma skips_iff tasks a : skips tasks a = true <-> skipsP tasks a.
Proof.
  unfold skips, skipsP. destruct (outcome tasks a) as [[p| |]|]; split; intro H;
    try reflexivity; try discriminate; try (left; reflexivity); try (right; reflexivity);
    destruct H; discriminate.
Qed.

Lemma first_decisive_some tasks cl a :
  first_decisive tasks cl = Some a <->
  exists pre post, cl = pre ++ a :: post /\ Forall (skipsP tasks) pre /\ skips tasks a = false.
Proof.
  induction cl as [|b rest IH]; cbn [first_decisive].
  - split; [discriminate|]. intros [pre [post [H _]]]. destruct pre; discriminate.
  - destruct (skips tasks b) eqn:Eb.
    + rewrite IH. split.
      * intros [pre [post [-> [Hf Hs]]]]. exists (b :: pre), post. repeat split; try assumption.
        constructor; [apply skips_iff; exact Eb|exact Hf].
      * intros [pre [post [Hl [Hf Hs]]]]. destruct pre as [|p pre]; cbn [app] in Hl.
        -- inversion Hl; subst. congruence.
        -- inversion Hl; subst. inversion Hf; subst. exists pre, post. repeat split; assumption.
    + split.
      * intro H. inversion H; subst. exists [], rest. repeat split; [constructor|exact Eb].
      * intros [pre [post [Hl [Hf Hs]]]]. destruct pre as [|p pre]; cbn [app] in Hl.
        -- inversion Hl; subst. reflexivity.
        -- inversion Hl; subst. inversion Hf; subst. apply skips_iff in H1. congruence.
Qed.

Lemma first_decisive_none tasks cl :
  first_decisive tasks cl = None <-> Forall (skipsP tasks) cl.
Proof.
  induction cl as [|b rest IH]; cbn [first_decisive].
  - split; [constructor|reflexivity].
  - destruct (skips tasks b) eqn:Eb.
    + rewrite IH. split.
      * intro H. constructor; [apply skips_iff; exact Eb|exact H].
      * intro H. inversion H; assumption.
    + split; [discriminate|]. intro H. inversion H; subst. apply skips_iff in H2. congruence.
Qed.

(* the generator returns the result of the first checklist action that yields one *)
Theorem generate_first_success tasks cl :
  (forall p, fst (generate tasks cl) = GProp p <->
     exists pre a post, cl = pre ++ a :: post /\ Forall (skipsP tasks) pre /\
                        outcome tasks a = Some (TProp p)) /\
  (fst (generate tasks cl) = GErr <->
     exists pre a post, cl = pre ++ a :: post /\ Forall (skipsP tasks) pre /\
                        outcome tasks a = Some TErr) /\
  (fst (generate tasks cl) = GNoop <-> Forall (skipsP tasks) cl).
Proof.
  pose proof (generate_spec tasks cl) as S.
  assert (Huniq : forall pre a post, cl = pre ++ a :: post -> Forall (skipsP tasks) pre ->
            skips tasks a = false -> first_decisive tasks cl = Some a).
  { intros pre a post H1 H2 H3. apply first_decisive_some. exists pre, post. repeat split; assumption. }
  destruct (first_decisive tasks cl) as [a|] eqn:Ef.
  - pose proof (proj1 (first_decisive_some tasks cl a) Ef) as [pre [post [Hl [Hf Hs]]]].
    assert (Hsame : forall pre' a' post', cl = pre' ++ a' :: post' -> Forall (skipsP tasks) pre' ->
              skips tasks a' = false -> a' = a).
    { intros pre' a' post' H1 H2 H3. pose proof (Huniq _ _ _ H1 H2 H3) as H. congruence. }
    assert (Hnn : ~ Forall (skipsP tasks) cl).
    { intro H. apply first_decisive_none in H. congruence. }
    destruct (outcome tasks a) as [[p| |]|] eqn:Eo; try (exfalso; exact S).
    + split; [|split].
      * intro q. split.
        -- intro H. rewrite S in H. inversion H; subst q. exists pre, a, post. repeat split; assumption.
        -- intros [pre' [a' [post' [H1 [H2 H3]]]]].
           assert (a' = a) as -> by (eapply Hsame; try eassumption; unfold skips; rewrite H3; reflexivity).
           rewrite S. congruence.
      * split; [rewrite S; discriminate|].
        intros [pre' [a' [post' [H1 [H2 H3]]]]].
        assert (a' = a) as -> by (eapply Hsame; try eassumption; unfold skips; rewrite H3; reflexivity).
        congruence.
      * split; [rewrite S; discriminate|]. intro H. contradiction.
    + split; [|split].
      * intro q. split; [rewrite S; discriminate|].
        intros [pre' [a' [post' [H1 [H2 H3]]]]].
        assert (a' = a) as -> by (eapply Hsame; try eassumption; unfold skips; rewrite H3; reflexivity).
        congruence.
      * split; [intros _; exists pre, a, post; repeat split; assumption|intros _; exact S].
      * split; [rewrite S; discriminate|]. intro H. contradiction.
  - pose proof (proj1 (first_decisive_none tasks cl) Ef) as Hall.
    assert (Hno : forall pre a post, cl = pre ++ a :: post -> skips tasks a = false -> False).
    { intros pre a post H1 H3. rewrite H1 in Hall. apply Forall_app in Hall. destruct Hall as [_ Hall].
      inversion Hall; subst. apply skips_iff in H2. congruence. }
    split; [|split].
    + intro q. split; [rewrite S; discriminate|].
      intros [pre' [a' [post' [H1 [H2 H3]]]]]. exfalso. eapply Hno; [exact H1|].
      unfold skips; rewrite H3; reflexivity.
    + split; [rewrite S; discriminate|].
      intros [pre' [a' [post' [H1 [H2 H3]]]]]. exfalso. eapply Hno; [exact H1|].
      unfold skips; rewrite H3; reflexivity.
    + split; [intros _; exact Hall|intros _; exact S].
Qed.

(* the tasks run are those of the checklist actions up to the deciding one, each once, in order *)
Fixpoint upto_decisive (tasks : list task) (cl : list N) : list N :=
  match cl with
  | [] => []
  | a :: rest => if skips tasks a then a :: upto_decisive tasks rest else [a]
  end.
Theorem generate_trace tasks cl :
  snd (generate tasks cl)
  = filter_map (fun a => option_map fst (index_of tasks a 0%N)) (upto_decisive tasks cl).
Proof.
  induction cl as [|a rest IH]; cbn [generate upto_decisive]; [reflexivity|].
  unfold skips, outcome. destruct (index_of tasks a 0%N) as [[i t]|] eqn:Ei.
  - destruct (tk_out t) eqn:Et; cbn [filter_map]; rewrite ?Ei; cbn [option_map fst snd]; try reflexivity.
    destruct (generate tasks rest) as [r tr]. cbn [snd] in *. f_equal. exact IH.
  - cbn [filter_map]. rewrite Ei. cbn [option_map]. exact IH.
Qed.

Lemma gres_eqb_eq a b : gres_eqb a b = true <-> a = b.
Proof.
  destruct a, b; cbn [gres_eqb]; split; intro H; try reflexivity; try discriminate.
  - apply N.eqb_eq in H. subst; reflexivity.
  - inversion H; subst. apply N.eqb_refl.
Qed.

(* the executable form pins the result down *)
Theorem gen_spec_ok_iff c :
  gen_spec_ok c = true <-> gc_out c = fst (generate (gc_tasks c) (gc_checklist c)).
Proof.
  unfold gen_spec_ok. pose proof (generate_spec (gc_tasks c) (gc_checklist c)) as S.
  destruct (first_decisive (gc_tasks c) (gc_checklist c)) as [a|].
  - destruct (outcome (gc_tasks c) a) as [[p| |]|]; try (exfalso; exact S); rewrite S.
    + destruct (gc_out c) as [q| |]; split; intro H; try discriminate.
      * apply N.eqb_eq in H. subst; reflexivity.
      * inversion H; subst. apply N.eqb_refl.
    + destruct (gc_out c) as [q| |]; split; intro H; try discriminate; reflexivity.
  - rewrite S. destruct (gc_out c) as [q| |]; split; intro H; try discriminate; reflexivity.
Qed.

(* ================================================================== *)
(* soundness of the executable redemption property                      *)
(* ================================================================== *)
Lemma memN_In x l : memN x l = true <-> In x l.
Proof.
  unfold memN. rewrite existsb_exists. split.
  - intros [y [Hy He]]. apply N.eqb_eq in He. subst; exact Hy.
  - intro H. exists x. split; [exact H|apply N.eqb_refl].
Qed.
Lemma nodupb_NoDup l : nodupb l = true -> NoDup l.
Proof.
  induction l as [|x t IH]; cbn [nodupb]; intro H; [constructor|].
  apply andb_true_iff in H. destruct H as [H1 H2]. constructor; [|apply IH; exact H2].
  intro Hin. apply memN_In in Hin. rewrite Hin in H1. discriminate.
Qed.
Lemma sortedb_sorted l : sortedb l = true -> StronglySorted Z.le l.
Proof.
  induction l as [|a t IH]; intro H; [constructor|].
  destruct t as [|b t']; [constructor; constructor|].
  cbn [sortedb] in H. apply andb_true_iff in H. destruct H as [H1 H2].
  specialize (IH H2). constructor; [exact IH|].
  inversion IH as [|b' t'' Hs Hall]; subst. constructor; [lia|].
  rewrite Forall_forall in *. intros z Hz. specialize (Hall z Hz). lia.
Qed.
Lemma sorted_le_last l d : StronglySorted Z.le l -> forall x, In x l -> x <= last l d.
Proof.
  induction 1 as [|a t Hs IH Hall]; intros x Hx; [destruct Hx|].
  destruct t as [|b t'].
  - cbn [last]. destruct Hx as [<-|[]]. lia.
  - change (last (a :: b :: t') d) with (last (b :: t') d). destruct Hx as [<-|Hx].
    + rewrite Forall_forall in Hall.
      assert (Hb : b <= last (b :: t') d) by (apply IH; left; reflexivity).
      specialize (Hall b (or_introl eq_refl)). lia.
    + apply IH; exact Hx.
Qed.
Lemma length_filter_map_some {A B} (f : A -> option B) (l : list A) :
  length (filter_map f l) = length (filter (fun x => match f x with Some _ => true | None => false end) l).
Proof.
  induction l as [|x t IH]; cbn [filter_map filter]; [reflexivity|].
  destruct (f x); cbn [length]; lia.
Qed.

(* the property of a selected script list [l], in components *)
Definition red_prop (pending : N * N -> red_look) (delay : N * N -> option Z)
           (now tmo ma : Z) (entries : list red_event) (cap : Z) (l : list N) : Prop :=
  NoDup l /\
  exists times : list Z,
    Forall2 (fun s t => exists e, In e entries /\ re_script e = s /\
                                  red_eligible pending delay now tmo ma e = Some t) l times /\
    StronglySorted Z.le times /\
    ((forall e, In e entries -> delay (re_wallet e, re_script e) <> None) ->
     len l = Z.min cap (len (filter (fun e => match red_eligible pending delay now tmo ma e with
                                              | Some _ => true | None => false end) entries)) /\
     forall e t, In e entries -> red_eligible pending delay now tmo ma e = Some t ->
                 In (re_script e) l \/ forall t', In t' times -> t' <= t).

Theorem red_spec_ok_sound c l :
  red_spec_ok c = true -> rc_out c = RedOk l ->
  rc_wallet c <> 0%N /\ rc_abt c <> 0 /\
  exists cur ma tmo evs set,
    rc_current c = Some cur /\ rc_min_age c = Some ma /\ rc_timeout c = Some tmo /\
    rc_events c = Some evs /\
    build_set (red_sorted (rc_wallet c) cur tmo (rc_abt c) evs) [] = Some set /\
    red_prop (rc_pend c) (rc_del c) (rc_now c) tmo ma (map snd set)
             (red_cap (rc_pend c) (rc_limit c) set) l.
Proof.
  unfold red_spec_ok. intros H Ho. rewrite Ho in H.
  destruct (rc_current c) as [cur|]; [|discriminate].
  destruct (rc_min_age c) as [ma|]; [|discriminate].
  destruct (rc_timeout c) as [tmo|]; [|discriminate].
  destruct (rc_events c) as [evs|]; [|discriminate].
  apply andb_true_iff in H. destruct H as [H H3]. apply andb_true_iff in H. destruct H as [H1 H2].
  apply negb_true_iff, N.eqb_neq in H1. apply negb_true_iff in H2.
  split; [exact H1|]. split; [lia|].
  fold (red_sorted (rc_wallet c) cur tmo (rc_abt c) evs) in H3.
  destruct (build_set (red_sorted (rc_wallet c) cur tmo (rc_abt c) evs) []) as [set|] eqn:Eb; [|discriminate].
  exists cur, ma, tmo, evs, set. do 4 (split; [reflexivity|]). split; [exact Eb|].
  set (entries := map snd set) in *.
  set (elig := filter_map (fun e => match red_eligible (rc_pend c) (rc_del c) (rc_now c) tmo ma e with
                                    | Some t => Some (re_script e, t) | None => None end) entries) in *.
  fold (red_cap (rc_pend c) (rc_limit c) set) in H3.
  set (cap := red_cap (rc_pend c) (rc_limit c) set) in *.
  apply andb_true_iff in H3. destruct H3 as [H3 He]. apply andb_true_iff in H3. destruct H3 as [H3 Hs].
  apply andb_true_iff in H3. destruct H3 as [Hnd Hall].
  assert (Helig : forall s t, In (s, t) elig ->
            exists e, In e entries /\ re_script e = s /\
                      red_eligible (rc_pend c) (rc_del c) (rc_now c) tmo ma e = Some t).
  { intros s t Hin. apply filter_map_In in Hin. destruct Hin as [e [Hin Hf]].
    destruct (red_eligible (rc_pend c) (rc_del c) (rc_now c) tmo ma e) as [t'|] eqn:E; [|discriminate].
    inversion Hf; subst. exists e. repeat split; assumption. }
  split; [apply nodupb_NoDup; exact Hnd|].
  exists (filter_map (fun s => assoc N.eqb s elig) l). split; [|split].
  - clear -Hall Helig. induction l as [|s t IH]; cbn [filter_map]; [constructor|].
    cbn [forallb] in Hall. apply andb_true_iff in Hall. destruct Hall as [Hs Ht].
    destruct (assoc N.eqb s elig) as [tm|] eqn:Ea; [|discriminate].
    constructor; [apply Helig; apply assoc_in; exact Ea|apply IH; exact Ht].
  - apply sortedb_sorted. exact Hs.
  - intro Hclean.
    assert (Hc : forallb (fun e => match rc_del c (re_wallet e, re_script e) with
                                   | Some _ => true | None => false end) entries = true).
    { apply forallb_forall. intros e Hin. specialize (Hclean e Hin).
      destruct (rc_del c (re_wallet e, re_script e)); [reflexivity|congruence]. }
    rewrite Hc in He. cbn [negb orb] in He. apply andb_true_iff in He. destruct He as [Hlen Hrest].
    split.
    + assert (len elig = len (filter (fun e => match red_eligible (rc_pend c) (rc_del c) (rc_now c) tmo ma e with
                                               | Some _ => true | None => false end) entries)) as <-.
      { unfold len, elig. rewrite length_filter_map_some. f_equal. f_equal.
        clear. induction entries as [|e t IH]; cbn [filter]; [reflexivity|].
        destruct (red_eligible (rc_pend c) (rc_del c) (rc_now c) tmo ma e); rewrite IH; reflexivity. }
      apply Z.eqb_eq in Hlen. exact Hlen.
    + intros e t Hin Hel.
      assert (Hin2 : In (re_script e, t) elig).
      { apply filter_map_In. exists e. split; [exact Hin|]. rewrite Hel. reflexivity. }
      rewrite forallb_forall in Hrest. specialize (Hrest _ Hin2). cbn [fst snd] in Hrest.
      apply orb_true_iff in Hrest. destruct Hrest as [Hm|Hl]; [left; apply memN_In; exact Hm|].
      right. intros t' Ht'. unfold last_or in Hl.
      pose proof (sorted_le_last _ t (sortedb_sorted _ Hs) t' Ht'). lia.
Qed.

(* ------------------------------------------------------------------ *)
(* hypotheses are satisfiable / the definitions compute                 *)
(* ------------------------------------------------------------------ *)
Example deposits_example :
  find_deposits
    (fun k => if N.eqb (fst k) 3 then DFound 990 0 5 else DFound 100 0 7) (fun _ => Some 6)
    1000 (Some 50) (Some [ {| de_tx := 1; de_idx := 0; de_block := 12; de_wallet := 1 |};
                           {| de_tx := 2; de_idx := 0; de_block := 10; de_wallet := 1 |};
                           {| de_tx := 3; de_idx := 0; de_block := 10; de_wallet := 1 |};
                           {| de_tx := 4; de_idx := 0; de_block := 10; de_wallet := 2 |};
                           {| de_tx := 5; de_idx := 1; de_block := 11; de_wallet := 1 |} ])
    1%N 2 true true
  = DepOk [ {| d_tx := 2; d_idx := 0; d_block := 10; d_wallet := 1; d_swept := false; d_amount := 7; d_conf := 6 |};
            {| d_tx := 5; d_idx := 1; d_block := 11; d_wallet := 1; d_swept := false; d_amount := 7; d_conf := 6 |} ].
Proof. vm_compute. reflexivity. Qed.

Example redemptions_example :
  find_redemptions
    (fun k => if N.eqb (snd k) 3 then RMissing else RFound (if N.eqb (snd k) 1 then 700 else 500))
    (fun _ => Some 0) (fun m => rev m)
    1000 (Some 5000) (Some 100) (Some 600) 12
    (Some [ {| re_block := 4000; re_wallet := 1; re_script := 1; re_key := Some 11%N |};
            {| re_block := 3990; re_wallet := 1; re_script := 2; re_key := Some 12%N |};
            {| re_block := 4500; re_wallet := 1; re_script := 1; re_key := Some 11%N |};
            {| re_block := 4600; re_wallet := 1; re_script := 3; re_key := Some 13%N |} ])
    1%N 0
  = RedOk [2%N; 1%N]
  /\ Permutation (rev [(11%N, 1%N); (12%N, 2%N)]) [(11%N, 1%N); (12%N, 2%N)].
Proof. split; [vm_compute; reflexivity|apply Permutation_sym, Permutation_rev]. Qed.

(* ------------------------------------------------------------------ *)
(* the production generator on one window                               *)
(* ------------------------------------------------------------------ *)
Definition pg_skipsP (c : pg_case) (a : N) : Prop :=
  (a = 2%N /\ dep_spec_ok (with_dout (pg_dep c) (DepOk [])) = true) \/
  (a = 3%N /\ red_spec_ok (with_rout (pg_red c) (RedOk [])) = true) \/
  (a <> 1%N /\ a <> 2%N /\ a <> 3%N).
Definition pg_decidesP (c : pg_case) (a : N) : Prop :=
  (a = 2%N /\
   ((exists l, pg_out c = PSweep l /\ l <> [] /\
               dep_spec_ok (with_dout (pg_dep c) (DepOk l)) = true) \/
    (pg_out c = PErr /\
     exists o, (o = DepErrChain \/ o = DepErrNoRequest \/ o = DepErrWallet) /\
               dep_spec_ok (with_dout (pg_dep c) o) = true))) \/
  (a = 3%N /\
   ((exists l, pg_out c = PRedeem l /\ l <> [] /\
               red_spec_ok (with_rout (pg_red c) (RedOk l)) = true) \/
    (pg_out c = PErr /\
     exists o, (o = RedErrChain \/ o = RedErrWallet) /\
               red_spec_ok (with_rout (pg_red c) o) = true))) \/
  (a = 1%N /\
   ((pg_out c = PHeartbeat /\ pg_hb_ok c = true) \/ (pg_out c = PErr /\ pg_hb_ok c = false))).

Lemma nonempty_iff {A} (l : list A) : nonempty l = true <-> l <> [].
Proof. destruct l; cbn; split; congruence. Qed.

Lemma pg_skips_iff c a : pg_skips c a = true <-> pg_skipsP c a.
Proof.
  unfold pg_skips, pg_skipsP, dep_allows, red_allows.
  destruct (N.eqb_spec a 2) as [E2|E2]; [subst; split; [intro H; left; auto|]|].
  { intros [[_ H]|[[H _]|[_ [H _]]]]; [exact H|discriminate|congruence]. }
  destruct (N.eqb_spec a 3) as [E3|E3]; [subst; split; [intro H; right; left; auto|]|].
  { intros [[H _]|[[_ H]|[_ [_ H]]]]; [discriminate|exact H|congruence]. }
  destruct (N.eqb_spec a 1) as [E1|E1]; cbn; split; intro H; try discriminate; auto.
  - destruct H as [[H _]|[[H _]|[H _]]]; congruence.
Qed.

Lemma pg_decides_iff c a : pg_decides c a = true <-> pg_decidesP c a.
Proof.
  unfold pg_decides, pg_decidesP, dep_allows, red_allows.
  destruct (N.eqb_spec a 2) as [E2|E2].
  { subst. split.
    - intro H. left. split; [reflexivity|].
      destruct (pg_out c) as [l| | | | |] eqn:Eo; try discriminate.
      + apply andb_true_iff in H. destruct H as [H1 H2]. left. exists l.
        split; [reflexivity|]. split; [apply nonempty_iff; exact H1|exact H2].
      + right. split; [reflexivity|].
        apply orb_true_iff in H. destruct H as [H|H]; [apply orb_true_iff in H; destruct H as [H|H]|].
        * exists DepErrChain. auto.
        * exists DepErrNoRequest. auto.
        * exists DepErrWallet. auto.
    - intros [[_ H]|[[H _]|[H _]]]; try discriminate.
      destruct H as [[l [Eo [Hn H]]]|[Eo [o [Ho H]]]]; rewrite Eo.
      + apply andb_true_iff. split; [apply nonempty_iff; exact Hn|exact H].
      + destruct Ho as [Ho|[Ho|Ho]]; subst o; rewrite H; rewrite ?orb_true_r; reflexivity. }
  destruct (N.eqb_spec a 3) as [E3|E3].
  { subst. split.
    - intro H. right. left. split; [reflexivity|].
      destruct (pg_out c) as [|l| | | |] eqn:Eo; try discriminate.
      + apply andb_true_iff in H. destruct H as [H1 H2]. left. exists l.
        split; [reflexivity|]. split; [apply nonempty_iff; exact H1|exact H2].
      + right. split; [reflexivity|].
        apply orb_true_iff in H. destruct H as [H|H].
        * exists RedErrChain. auto.
        * exists RedErrWallet. auto.
    - intros [[H _]|[[_ H]|[H _]]]; try discriminate.
      destruct H as [[l [Eo [Hn H]]]|[Eo [o [Ho H]]]]; rewrite Eo.
      + apply andb_true_iff. split; [apply nonempty_iff; exact Hn|exact H].
      + destruct Ho as [Ho|Ho]; subst o; rewrite H; rewrite ?orb_true_r; reflexivity. }
  destruct (N.eqb_spec a 1) as [E1|E1].
  { subst. split.
    - intro H. right. right. split; [reflexivity|].
      destruct (pg_out c); try discriminate.
      + left. auto.
      + right. split; [reflexivity|]. destruct (pg_hb_ok c); [discriminate|reflexivity].
    - intros [[H _]|[[H _]|[_ H]]]; try discriminate.
      destruct H as [[Eo H]|[Eo H]]; rewrite Eo, H; reflexivity. }
  split; [discriminate|]. intros [[H _]|[[H _]|[H _]]]; congruence.
Qed.

Lemma pg_walk_iff c : forall cl,
  pg_walk c cl = true <->
  (pg_out c = PNoop /\ Forall (pg_skipsP c) cl) \/
  exists pre a post, cl = pre ++ a :: post /\ Forall (pg_skipsP c) pre /\ pg_decidesP c a.
Proof.
  induction cl as [|a rest IH]; cbn [pg_walk].
  - split.
    + intro H. left. split; [destruct (pg_out c); try discriminate; reflexivity|constructor].
    + intros [[Eo _]|[pre [a [post [E _]]]]]; [rewrite Eo; reflexivity|].
      destruct pre; discriminate.
  - rewrite orb_true_iff, andb_true_iff, pg_decides_iff, pg_skips_iff, IH. split.
    + intros [Hd|[Hs [[Eo Hf]|[pre [b [post [E [Hf Hd]]]]]]]].
      * right. exists [], a, rest. split; [reflexivity|]. split; [constructor|exact Hd].
      * left. split; [exact Eo|constructor; assumption].
      * right. exists (a :: pre), b, post. subst rest. split; [reflexivity|].
        split; [constructor; assumption|exact Hd].
    + intros [[Eo Hf]|[pre [b [post [E [Hf Hd]]]]]].
      * inversion Hf; subst. right. split; [assumption|]. left. split; assumption.
      * destruct pre as [|x pre]; cbn in E; inversion E; subst.
        { left. exact Hd. }
        inversion Hf; subst. right. split; [assumption|].
        right. exists pre, b, post. split; [reflexivity|]. split; assumption.
Qed.

Theorem pg_spec_ok_iff c :
  pg_spec_ok c = true <->
  (pg_out c = PNoop /\ Forall (pg_skipsP c) (pg_checklist c)) \/
  exists pre a post, pg_checklist c = pre ++ a :: post /\ Forall (pg_skipsP c) pre /\
                     pg_decidesP c a.
Proof. apply pg_walk_iff. Qed.

(* a deposit sweep proposal returned by the generator carries exactly the first eligible
   deposits of THAT window's chain state *)
Theorem pg_sweep_content c l :
  pg_wf c = true -> pg_spec_ok c = true -> pg_out c = PSweep l ->
  l <> [] /\
  exists ma evs, dc_min_age (pg_dep c) = Some ma /\ dc_events (pg_dep c) = Some evs /\
    let sorted := dep_sorted (dc_wallet (pg_dep c)) evs in
    l = map to_ref
          (firstn (Z.to_nat (dep_cap (dc_max (pg_dep c)) sorted))
             (filter_map (dep_eligible (dc_req (pg_dep c)) (dc_conf (pg_dep c))
                            (dc_now (pg_dep c)) ma true true) sorted)).
Proof.
  intros Hwf H Eo. unfold pg_wf in Hwf.
  apply andb_true_iff in Hwf. destruct Hwf as [Hwf _].
  apply andb_true_iff in Hwf. destruct Hwf as [_ Hts].
  apply pg_spec_ok_iff in H. destruct H as [[E _]|[pre [a [post [_ [_ Hd]]]]]]; [congruence|].
  destruct Hd as [[_ Hd]|[[_ Hd]|[_ Hd]]].
  - destruct Hd as [[l' [E [Hn Hs]]]|[E _]]; [|congruence].
    rewrite Eo in E. inversion E; subst l'. split; [exact Hn|].
    destruct (dep_spec_ok_sound' _ l Hs eq_refl) as [ma [evs [H1 [H2 H3]]]].
    cbn [with_dout dc_min_age dc_events dc_wallet dc_max dc_now dc_to_sweep] in *.
    exists ma, evs. split; [exact H1|]. split; [exact H2|].
    cbn zeta in *. unfold dc_req, dc_conf in *.
    cbn [with_dout dc_reqs dc_confs dc_to_sweep] in H3. rewrite Hts in H3. exact H3.
  - destruct Hd as [[l' [E _]]|[E _]]; congruence.
  - destruct Hd as [[E _]|[E _]]; congruence.
Qed.

(* ------------------------------------------------------------------ *)
(* window histories on the long-lived objects: no memory                *)
(* ------------------------------------------------------------------ *)
Theorem history_no_memory n ws : history_st n ws = map explain ws.
Proof.
  revert n. induction ws as [|w t IH]; intro n; [reflexivity|].
  cbn [history_st window_st map]. rewrite IH. reflexivity.
Qed.

Theorem history_past_future_irrelevant n before after w :
  nth_error (history_st n (before ++ w :: after)) (length before) = Some (explain w).
Proof.
  rewrite history_no_memory, map_app. cbn [map].
  rewrite nth_error_app2; rewrite map_length; [|apply Nat.le_refl].
  rewrite Nat.sub_diag. reflexivity.
Qed.

Lemma agree_list_map ws : agree_list ws (map explain ws) = forallb agree_of ws.
Proof. induction ws as [|w t IH]; [reflexivity|]. cbn. rewrite IH. reflexivity. Qed.

Theorem hist_agree_iff ws : hist_agree ws = forallb agree_of ws.
Proof. unfold hist_agree. rewrite history_no_memory. apply agree_list_map. Qed.

Lemma forallb_nth {A} (f : A -> bool) (l : list A) :
  forallb f l = true <-> forall i x, nth_error l i = Some x -> f x = true.
Proof.
  rewrite forallb_forall. split.
  - intros H i x Hx. apply H. eapply nth_error_In; eassumption.
  - intros H x Hx. apply In_nth_error in Hx. destruct Hx as [i Hi]. eapply H; eassumption.
Qed.

Theorem hist_spec_iff ws :
  hist_spec ws = true <-> forall i w, nth_error ws i = Some w -> spec_of w = true.
Proof. apply forallb_nth. Qed.

(* a history is accepted iff every window, judged alone against its own state, is *)
Theorem judge_hist_agree ws :
  judge_any (CHist ws) = Agree <->
  ws <> [] /\ forall i w, nth_error ws i = Some w -> judge w = Agree.
Proof.
  cbn [judge_any]. rewrite hist_agree_iff. unfold hist_spec, judge, decide. split.
  - intro H. destruct (nonempty ws) eqn:En; [|discriminate]. cbn [andb] in H.
    destruct (forallb wf_of ws) eqn:Ew; [|discriminate].
    destruct (forallb spec_of ws) eqn:Es; [|discriminate].
    destruct (forallb agree_of ws) eqn:Ea; [|discriminate].
    split; [apply nonempty_iff; exact En|]. intros i w Hw.
    rewrite (proj1 (forallb_nth _ _) Ew i w Hw), (proj1 (forallb_nth _ _) Es i w Hw),
            (proj1 (forallb_nth _ _) Ea i w Hw). reflexivity.
  - intros [Hn H]. apply nonempty_iff in Hn. rewrite Hn. cbn [andb].
    assert (Hall : forall f, (forall w, judge w = Agree -> f w = true) -> forallb f ws = true).
    { intros f Hf. apply forallb_nth. intros i w Hw. apply Hf. unfold judge, decide. eapply H; eassumption. }
    rewrite (Hall wf_of), (Hall spec_of), (Hall agree_of); [reflexivity| | |];
      intros w Hw; unfold judge, decide in Hw;
      destruct (wf_of w); try discriminate; destruct (spec_of w); try discriminate;
      destruct (agree_of w); try discriminate; reflexivity.
Qed.

(* every model history of deposit searches and generator calls satisfies the history property *)
Theorem model_history_passes ws :
  Forall (fun w => match w with
                   | CDep c => dc_out c = model_deposits c
                   | CGen c => gc_out c = fst (generate (gc_tasks c) (gc_checklist c))
                   | _ => False
                   end) ws ->
  hist_spec ws = true.
Proof.
  intro H. unfold hist_spec. apply forallb_forall. intros w Hw.
  rewrite Forall_forall in H. specialize (H w Hw).
  destruct w as [c|c|c|c]; cbn [spec_of]; try contradiction.
  - apply dep_model_passes; exact H.
  - apply gen_spec_ok_iff; exact H.
Qed.

Example history_example :
  let w1 := CGen {| gc_tasks := [ {| tk_action := 2; tk_out := TProp 7 |}; {| tk_action := 3; tk_out := TNone |} ];
                    gc_checklist := [3; 2]%N; gc_out := GProp 7; gc_trace := [1; 0]%N |} in
  let w2 := CGen {| gc_tasks := [ {| tk_action := 2; tk_out := TNone |}; {| tk_action := 3; tk_out := TProp 9 |} ];
                    gc_checklist := [3; 2]%N; gc_out := GProp 9; gc_trace := [1]%N |} in
  judge_any (CHist [w1; w2]) = Agree /\ judge_any (CHist [w1; w1; w2]) = Agree.
Proof. vm_compute. split; reflexivity. Qed.
