(* C18 — proofs about Model/C18.v *)
From Coq Require Import ZArith NArith List Bool Lia.
From KV Require Import Common.Verdict Model.C18.
Import ListNotations.

Section Generic.
  Variables Ty Payload Val Bytes Key Peer OpKey : Type.
  Variable registry : Ty -> option (Payload -> option Val).
  Variable decode_id : Bytes -> option Key.
  Variable idOf : Key -> Peer.
  Variable to_op : Key -> option OpKey.
  Variable peer_eqb : Peer -> Peer -> bool.
  Hypothesis peer_eqb_spec : forall a b, peer_eqb a b = true <-> a = b.

  Notation process := (process Ty Payload Val Bytes Key Peer OpKey registry decode_id idOf to_op peer_eqb).
  Notation step := (step Ty Payload Val Bytes Key Peer OpKey registry decode_id idOf to_op peer_eqb).
  Notation run := (run Ty Payload Val Bytes Key Peer OpKey registry decode_id idOf to_op peer_eqb).
  Notation delivered := (delivered Ty Payload Val Bytes Key Peer OpKey registry decode_id idOf to_op peer_eqb).

  Lemma delivered_iff : forall from (e : envelope Ty Payload Bytes) m,
    process from e = Deliver m <->
    exists dec v k ok,
      registry (e_type e) = Some dec /\ dec (e_payload e) = Some v /\
      decode_id (e_sender e) = Some k /\ idOf k = from /\ to_op k = Some ok /\
      m = {| m_sender := from; m_payload := v; m_type := e_type e; m_key := ok; m_seqno := e_seqno e |}.
  Proof.
    intros from e m. unfold C18.process. split.
    - destruct (registry (e_type e)) as [dec|]; [|discriminate].
      destruct (dec (e_payload e)) as [v|] eqn:Ev; [|discriminate].
      destruct (decode_id (e_sender e)) as [k|]; [|discriminate].
      destruct (peer_eqb from (idOf k)) eqn:Ep; cbn [negb]; [|discriminate].
      apply peer_eqb_spec in Ep.
      destruct (to_op k) as [ok|] eqn:Eo; [|discriminate].
      intro H. injection H as <-. exists dec, v, k, ok. rewrite <- Ep. repeat split; auto.
    - intros (dec & v & k & ok & -> & Hv & -> & Hi & Ho & ->). rewrite Hv.
      assert (Ep : peer_eqb from (idOf k) = true) by (apply peer_eqb_spec; auto).
      rewrite Ep, Ho. cbn [negb]. rewrite Hi. reflexivity.
  Qed.

  Lemma delivered_key_is_inner_key : forall from (e : envelope Ty Payload Bytes) m,
    process from e = Deliver m ->
    m_sender m = from /\ m_seqno m = e_seqno e /\ m_type m = e_type e /\
    exists k, decode_id (e_sender e) = Some k /\ idOf k = from /\ to_op k = Some (m_key m) /\
              (* when peer IDs determine keys, it is THE key of the authenticated author *)
              ((forall k1 k2, idOf k1 = idOf k2 -> k1 = k2) -> forall k', idOf k' = from -> k' = k).
  Proof.
    intros from e m H. apply delivered_iff in H.
    destruct H as (dec & v & k & ok & _ & _ & Hk & Hi & Ho & ->). cbn.
    repeat split; auto. exists k. repeat split; auto.
    intros Hinj k' Hk'. apply Hinj. congruence.
  Qed.

  Lemma drop_reasons : forall from (e : envelope Ty Payload Bytes) r,
    process from e = Drop r ->
    match r with
    | ErrType => registry (e_type e) = None
    | ErrPayload => exists dec, registry (e_type e) = Some dec /\ dec (e_payload e) = None
    | ErrIdentity => decode_id (e_sender e) = None
    | ErrMismatch => exists k, decode_id (e_sender e) = Some k /\ idOf k <> from
    | ErrKeyType => exists k, decode_id (e_sender e) = Some k /\ idOf k = from /\ to_op k = None
    end.
  Proof.
    intros from e r. unfold C18.process.
    destruct (registry (e_type e)) as [dec|]; [|intro H; injection H as <-; reflexivity].
    destruct (dec (e_payload e)) as [v|] eqn:Ev; [|intro H; injection H as <-; eauto].
    destruct (decode_id (e_sender e)) as [k|]; [|intro H; injection H as <-; reflexivity].
    destruct (peer_eqb from (idOf k)) eqn:Ep; cbn [negb].
    - apply peer_eqb_spec in Ep.
      destruct (to_op k) as [ok|] eqn:Eo; [discriminate|]. intro H; injection H as <-. eauto.
    - intro H; injection H as <-. exists k. split; [reflexivity|]. intro Hc.
      assert (peer_eqb from (idOf k) = true) by (apply peer_eqb_spec; auto). congruence.
  Qed.

  (* a dropped envelope leaves every handler untouched; the effect of a sequence of
     envelopes on every handler is the concatenation of the individual deliveries, so no
     envelope (dropped or not) influences what happens to another *)
  Lemma run_explicit : forall es hs,
    run hs es = map (fun q => q ++ filter_map delivered es) hs.
  Proof.
    induction es as [|fe t IH]; intro hs; cbn [C18.run fold_left filter_map].
    - rewrite <- (map_id hs) at 1. apply map_ext. intro q. rewrite app_nil_r. reflexivity.
    - fold (run (step hs fe) t). rewrite IH. unfold C18.step, C18.delivered.
      destruct (process (fst fe) (snd fe)) as [m|r].
      + rewrite map_map. apply map_ext. intro q. rewrite <- app_assoc. reflexivity.
      + reflexivity.
  Qed.

  Lemma drop_is_local : forall hs fe r,
    process (fst fe) (snd fe) = Drop r ->
    step hs fe = hs /\
    forall pre post, run hs (pre ++ fe :: post) = run hs (pre ++ post).
  Proof.
    intros hs fe r H. split.
    - unfold C18.step. rewrite H. reflexivity.
    - intros pre post. rewrite !run_explicit. apply map_ext. intro q. f_equal.
      induction pre as [|a pre IH]; cbn [app filter_map].
      + unfold C18.delivered at 1. rewrite H. reflexivity.
      + destruct (delivered a); rewrite IH; reflexivity.
  Qed.
End Generic.

(* ---------- the executable forms ---------- *)
Open Scope N_scope.

Lemma dmsg_eqb_eq : forall a b, dmsg_eqb a b = true <-> a = b.
Proof.
  intros [a1 a2 a3 a4 a5] [b1 b2 b3 b4 b5]. unfold dmsg_eqb. cbn.
  rewrite !andb_true_iff, !N.eqb_eq. split.
  - intros ((((-> & ->) & ->) & ->) & ->). reflexivity.
  - intro H. injection H as -> -> -> -> ->. auto.
Qed.

Lemma remove1_in : forall d l l', remove1 d l = Some l' -> In d l /\ forall x, In x l <-> x = d \/ In x l'.
Proof.
  intros d l. induction l as [|x t IH]; intros l' H; cbn in H; [discriminate|].
  destruct (dmsg_eqb d x) eqn:E.
  - apply dmsg_eqb_eq in E. subst x. injection H as <-. split; [left; reflexivity|].
    intro y. cbn. intuition.
  - destruct (remove1 d t) as [t'|] eqn:Er; [|discriminate]. injection H as <-.
    destruct (IH t' eq_refl) as [Hin Hiff]. split; [right; exact Hin|].
    intro y. cbn. rewrite Hiff. intuition.
Qed.

Lemma same_multiset_in : forall a b, same_multiset a b = true -> forall x, In x a <-> In x b.
Proof.
  induction a as [|d t IH]; intros b H x; cbn in H.
  - destruct b; [tauto | discriminate].
  - destruct (remove1 d b) as [b'|] eqn:Er; [|discriminate].
    destruct (remove1_in d b b' Er) as [Hin Hiff]. specialize (IH b' H x).
    cbn. rewrite Hiff, <- IH. intuition.
Qed.

Lemma same_multiset_refl : forall l, same_multiset l l = true.
Proof.
  induction l as [|d t IH]; [reflexivity|]. cbn.
  assert (E : dmsg_eqb d d = true) by (apply dmsg_eqb_eq; reflexivity). rewrite E. exact IH.
Qed.

Lemma filter_map_in : forall {A B} (f : A -> option B) l y,
  In y (filter_map f l) <-> exists x, In x l /\ f x = Some y.
Proof.
  intros A B f l y. induction l as [|a t IH]; cbn.
  - split; [tauto | intros (x & [] & _)].
  - destruct (f a) as [b|] eqn:E; cbn; rewrite IH; split.
    + intros [<- | (x & Hx & Hf)]; eauto.
    + intros (x & [<- | Hx] & Hf); [left; congruence | right; eauto].
    + intros (x & Hx & Hf); eauto.
    + intros (x & [<- | Hx] & Hf); [congruence | eauto].
Qed.

Lemma memN_in : forall x l, memN x l = true <-> In x l.
Proof.
  intros x l. unfold memN. rewrite existsb_exists. split.
  - intros (y & Hy & E). apply N.eqb_eq in E. subst. exact Hy.
  - intro H. exists x. split; [exact H | apply N.eqb_refl].
Qed.

Lemma allowed_attributed : forall reg envs e d, In e envs -> allowed reg e = Some d -> attributed reg envs d.
Proof.
  intros reg envs e d Hin H. unfold allowed in H.
  destruct (c_inner e) as [i|] eqn:Ei; [|discriminate].
  destruct (c_payload e) as [p|] eqn:Ep; [|discriminate].
  destruct (memN (c_type e) reg && (i_peer i =? c_from e) && (i_pid i =? i_peer i)) eqn:Ec; [|discriminate].
  destruct (i_op i) as [k|] eqn:Eo; [|discriminate]. injection H as <-.
  apply andb_prop in Ec. destruct Ec as [Ec _]. apply andb_prop in Ec. destruct Ec as [E1 E2].
  apply memN_in in E1. apply N.eqb_eq in E2.
  exists e, i, p, k. repeat split; auto.
Qed.

Lemma spec_ok_sound : forall c, spec_ok c = true ->
  forall h, In h (c_handlers c) ->
    (forall d, In d h -> attributed (c_registered c) (c_envs c) d) /\
    (forall e d, In e (c_envs c) -> allowed (c_registered c) e = Some d -> In d h).
Proof.
  intros c H h Hh. unfold spec_ok in H.
  apply andb_prop in H. destruct H as [H _]. apply andb_prop in H. destruct H as [H _].
  rewrite forallb_forall in H. specialize (H h Hh).
  pose proof (same_multiset_in _ _ H) as Hiff. split.
  - intros d Hd. apply Hiff in Hd. apply filter_map_in in Hd. destruct Hd as (e & He & Ha).
    eapply allowed_attributed; eauto.
  - intros e d He Ha. apply Hiff. apply filter_map_in. eauto.
Qed.

(* the model's deliveries are exactly the allowed ones whenever identity.Unmarshal's peer ID
   is the ID of the decoded key *)
Lemma model_delivers_allowed : forall reg e,
  match c_inner e with Some i => i_pid i = i_peer i | None => True end ->
  option_map to_dmsg (delivered N (option N) N (option inner) inner N N (c_registry reg) (fun b => b) i_pid i_op N.eqb (to_envelope e))
  = allowed reg e.
Proof.
  intros reg e Hc. unfold delivered, process, allowed, to_envelope, c_registry. cbn.
  destruct (c_inner e) as [i|]; destruct (memN (c_type e) reg); destruct (c_payload e) as [p|]; cbn; auto.
  rewrite Hc. rewrite N.eqb_refl, andb_true_r. rewrite (N.eqb_sym (i_peer i)).
  destruct (N.eqb_spec (c_from e) (i_peer i)) as [E|NE]; cbn; auto. destruct (i_op i); cbn; auto.
  unfold to_dmsg. cbn. f_equal. f_equal. auto.
Qed.

Lemma filter_map_map : forall {A B C} (f : A -> option B) (g : B -> C) l,
  map g (filter_map f l) = filter_map (fun a => option_map g (f a)) l.
Proof.
  intros A B C f g l. induction l as [|a t IH]; [reflexivity|]. cbn.
  destruct (f a); cbn; rewrite IH; reflexivity.
Qed.
Lemma filter_map_ext_in : forall {A B} (f g : A -> option B) l,
  (forall a, In a l -> f a = g a) -> filter_map f l = filter_map g l.
Proof.
  intros A B f g l H. induction l as [|a t IH]; [reflexivity|]. cbn.
  rewrite (H a (or_introl eq_refl)). rewrite IH; [reflexivity|]. intros; apply H; right; auto.
Qed.
Lemma filter_map_compose : forall {A B C} (f : B -> option C) (g : A -> B) l,
  filter_map f (map g l) = filter_map (fun a => f (g a)) l.
Proof.
  intros A B C f g l. induction l as [|a t IH]; [reflexivity|]. cbn.
  destruct (f (g a)); rewrite IH; reflexivity.
Qed.

(* every case whose observations are the model's outputs passes the executable property,
   provided the identity oracle is coherent (the peer ID returned by identity.Unmarshal is the
   ID of the key it decoded) and the identity round trips succeeded *)
Lemma model_passes_spec : forall reg envs nh rt,
  (forall e, In e envs -> match c_inner e with Some i => i_pid i = i_peer i | None => True end) ->
  forallb roundtrip_ok rt = true ->
  let final := c_run reg (repeat [] nh) (map to_envelope envs) in
  spec_ok {| c_registered := reg; c_envs := envs;
             c_errs := map (fun fe => is_drop (c_process reg (fst fe) (snd fe))) (map to_envelope envs);
             c_handlers := map (map to_dmsg) final; c_roundtrip := rt |} = true.
Proof.
  intros reg envs nh rt Hcoh Hrt final. unfold spec_ok. cbn [c_handlers c_registered c_envs c_roundtrip].
  rewrite Hrt, andb_true_r. apply andb_true_intro. split.
  - apply forallb_forall. intros h Hh. unfold final, c_run in Hh.
    rewrite (run_explicit N (option N) N (option inner) inner N N) in Hh.
    rewrite map_map in Hh. apply in_map_iff in Hh. destruct Hh as (q & <- & Hq).
    apply repeat_spec in Hq. subst q. cbn [app].
    rewrite filter_map_map, filter_map_compose.
    rewrite (filter_map_ext_in _ (allowed reg)); [apply same_multiset_refl|].
    intros e He. apply model_delivers_allowed. apply Hcoh. exact He.
  - apply forallb_forall. intros e He. specialize (Hcoh e He).
    destruct (c_inner e); [apply N.eqb_eq; exact Hcoh | reflexivity].
Qed.

Example hypotheses_satisfiable :
  let i := {| i_key := 1; i_pid := 7; i_peer := 7; i_op := Some 3 |} in
  let e := {| c_from := 7; c_type := 2; c_payload := Some 5; c_inner := Some i; c_seqno := 9 |} in
  explain {| c_registered := [2]; c_envs := [e]; c_errs := [false]; c_handlers := []; c_roundtrip := [] |}
  = [SDeliver {| d_sender := 7; d_key := 3; d_type := 2; d_seqno := 9; d_payload := 5 |}].
Proof. reflexivity. Qed.

(* the executable property rejects a delivery made on behalf of an author whose peer ID (here 8,
   e.g. a hashed RSA ID that does not inline its key) is not the ID of the inner identity's key (7):
   the shape of an impersonation through a skipped sender comparison.  Peer IDs are opaque to the
   model and to spec_ok: only equality with idOf(inner key) matters. *)
Example impersonation_is_flagged :
  let i := {| i_key := 1; i_pid := 7; i_peer := 7; i_op := Some 3 |} in
  let e := {| c_from := 8; c_type := 2; c_payload := Some 5; c_inner := Some i; c_seqno := 9 |} in
  judge {| c_registered := [2]; c_envs := [e]; c_errs := [false];
           c_handlers := [[{| d_sender := 7; d_key := 3; d_type := 2; d_seqno := 9; d_payload := 5 |}]];
           c_roundtrip := [] |} = SpecFail.
Proof. reflexivity. Qed.

(* in general: whatever a handler received beyond (or short of) the allowed messages fails spec_ok;
   in particular a message for an envelope whose author differs from the inner key's peer ID *)
Lemma spec_ok_rejects_unattributed : forall c h d,
  In h (c_handlers c) -> In d h ->
  (forall e, In e (c_envs c) -> allowed (c_registered c) e <> Some d) ->
  spec_ok c = false.
Proof.
  intros c h d Hh Hd Hno. destruct (spec_ok c) eqn:E; [|reflexivity]. exfalso.
  unfold spec_ok in E. apply andb_prop in E. destruct E as [E _]. apply andb_prop in E. destruct E as [E _].
  rewrite forallb_forall in E. specialize (E h Hh).
  apply (same_multiset_in _ _ E) in Hd. apply filter_map_in in Hd. destruct Hd as (e & He & Ha).
  exact (Hno e He Ha).
Qed.
