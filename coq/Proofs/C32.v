(* C32 — proofs about the model of getProofInfo and of a proving round (Model/C32.v). *)
From Coq Require Import ZArith List Bool Lia.
From KV Require Import Common.Verdict Gen.Consts_C32 Model.C32.
Import ListNotations.
Open Scope Z_scope.

(* ---------- statements shared with Props/C32.v ---------- *)

(* first header of the proof and last header of a proof with [factor] headers *)
Definition S_of (i : input) : Z := i_latest i - i_conf i + 1.
Definition E_of (i : input) : Z := S_of i + i_factor i - 1.

(* the explicit guards *)
Definition guards (i : input) : Prop :=
  0 <= i_latest i < two64 /\ 0 <= i_conf i <= i_latest i + 1 /\
  1 <= i_factor i < two64 /\ E_of i < two64 /\
  0 <= i_epoch i < two64 /\
  1 <= i_dcur i /\ 1 <= i_dprev i /\
  i_dprev i * i_factor i <= i_dcur i * 2 ^ 63.

(* work of [n] consecutive headers starting at height [start], when a header of epoch [e]
   has difficulty [diff e] *)
Fixpoint work (L : Z) (diff : Z -> Z) (start : Z) (n : nat) : Z :=
  match n with
  | O => 0
  | S k => diff (start / L) + work L diff (start + 1) k
  end.

Section Proofs.
  Variable L : Z.
  Hypothesis HL : 2 <= L < 2 ^ 32.

  Lemma two64_val : two64 = 18446744073709551616.
  Proof. reflexivity. Qed.

  Lemma div_eq_iff : forall x e, x / L = e <-> e * L <= x < (e + 1) * L.
  Proof.
    intros x e. split.
    - intros <-. pose proof (Z.div_mod x L ltac:(lia)) as Hd.
      pose proof (Z.mod_pos_bound x L ltac:(lia)) as Hm. nia.
    - intros [H1 H2]. symmetry. apply (Z.div_unique x L e (x - e * L)); lia.
  Qed.

  Lemma w64_id : forall z, 0 <= z < two64 -> w64 z = z.
  Proof. intros z Hz. unfold w64. apply Z.mod_small. exact Hz. Qed.

  Lemma big_u64_id : forall z, 0 <= z < two64 -> big_u64 z = z.
  Proof. intros z Hz. unfold big_u64. rewrite Z.abs_eq by lia. apply Z.mod_small. exact Hz. Qed.

  Lemma in_domain_guards : forall i, in_domain i = true <-> guards i.
  Proof.
    intros i. unfold in_domain, guards, E_of, S_of.
    rewrite !andb_true_iff, !Z.leb_le, !Z.ltb_lt. lia.
  Qed.

  Lemma n_prev_val : forall s, 0 <= s -> n_prev L s = L - s mod L /\ 1 <= L - s mod L <= L.
  Proof.
    intros s Hs. pose proof (Z.mod_pos_bound s L ltac:(lia)) as Hm.
    unfold n_prev. rewrite w64_id; [lia|]. rewrite two64_val. lia.
  Qed.

  (* ceiling division as the code computes it *)
  Lemma n_cur_spec : forall dprev dcur factor s,
      0 <= s -> 1 <= dcur -> 1 <= dprev -> L - s mod L < factor ->
      let np := L - s mod L in
      let nc := n_cur L dprev dcur factor s in
      1 <= nc /\ nc * dcur >= (factor - np) * dprev /\ (nc - 1) * dcur < (factor - np) * dprev.
  Proof.
    intros dprev dcur factor s Hs Hc Hp Hnp np nc.
    destruct (n_prev_val s Hs) as [Hnpv Hnpb].
    subst nc. unfold n_cur. rewrite Hnpv. fold np.
    set (T := dprev * factor - np * dprev).
    assert (HT : T = (factor - np) * dprev) by (unfold T; ring).
    assert (HTpos : 1 <= T) by (rewrite HT; nia).
    unfold euclid_div, euclid_mod. rewrite (Z.abs_eq dcur) by lia.
    pose proof (Z.div_mod T dcur ltac:(lia)) as Hd.
    pose proof (Z.mod_pos_bound T dcur ltac:(lia)) as Hm.
    assert (Hq : (T - T mod dcur) / dcur = T / dcur).
    { replace (T - T mod dcur) with (T / dcur * dcur) by lia. apply Z.div_mul. lia. }
    rewrite Hq. rewrite <- HT.
    assert (Hq0 : 0 <= T / dcur) by (apply Z.div_pos; lia).
    destruct (0 <? T mod dcur) eqn:Hr.
    - apply Z.ltb_lt in Hr. nia.
    - apply Z.ltb_ge in Hr. assert (T mod dcur = 0) by lia. nia.
  Qed.

  (* the model on guarded inputs, with every wrap-around resolved *)
  Definition unwrapped (i : input) : result :=
    let s := S_of i in let e := E_of i in let cur := i_epoch i in
    if ((s / L =? cur) && (e / L =? cur)) || ((s / L =? cur - 1) && (e / L =? cur - 1))
    then Info true (i_conf i) (i_factor i)
    else if (s / L =? cur - 1) && (e / L =? cur)
    then Info true (i_conf i) (L - s mod L + n_cur L (i_dprev i) (i_dcur i) (i_factor i) s)
    else Info false 0 0.

  Lemma span_np_lt_factor : forall s f e,
      0 <= s -> s / L = e - 1 -> (s + f - 1) / L = e -> L - s mod L < f.
  Proof.
    intros s f e Hs H1 H2. apply div_eq_iff in H1. apply div_eq_iff in H2.
    pose proof (Z.div_mod s L ltac:(lia)) as Hd.
    pose proof (Z.mod_pos_bound s L ltac:(lia)) as Hm.
    assert (Hq : s / L = e - 1) by (apply div_eq_iff; lia). rewrite Hq in Hd. lia.
  Qed.

  Lemma n_cur_bound : forall dprev dcur factor s,
      0 <= s -> 1 <= dcur -> 1 <= dprev -> L - s mod L < factor ->
      dprev * factor <= dcur * 2 ^ 63 ->
      n_cur L dprev dcur factor s <= 2 ^ 63.
  Proof.
    intros dprev dcur factor s Hs Hc Hp Hnp Hov.
    destruct (n_cur_spec dprev dcur factor s Hs Hc Hp Hnp) as (H1 & H2 & H3).
    destruct (n_prev_val s Hs) as [_ Hb].
    assert ((n_cur L dprev dcur factor s - 1) * dcur < 2 ^ 63 * dcur) by nia.
    assert (n_cur L dprev dcur factor s - 1 < 2 ^ 63) by nia. lia.
  Qed.

  (* range guards only (no assumption on the difficulties) *)
  Definition range_guards (i : input) : Prop :=
    0 <= i_latest i < two64 /\ 0 <= i_conf i <= i_latest i + 1 /\
    1 <= i_factor i < two64 /\ E_of i < two64 /\ 0 <= i_epoch i < two64.

  Definition shape (i : input) : result :=
    let s := S_of i in let e := E_of i in let cur := i_epoch i in
    if ((s / L =? cur) && (e / L =? cur)) || ((s / L =? cur - 1) && (e / L =? cur - 1))
    then Info true (i_conf i) (i_factor i)
    else if (s / L =? cur - 1) && (e / L =? cur)
    then if i_dcur i =? 0 then Panic
         else Info true (i_conf i) (span_required L (i_dprev i) (i_dcur i) (i_factor i) s)
    else Info false 0 0.

  Lemma model_shape : forall i,
      range_guards i -> i_fail i = NoFail -> get_proof_info L i = shape i.
  Proof.
    intros i G HF. unfold range_guards in G.
    destruct G as (Hlat & Hconf & Hf & HE & Hep).
    assert (HS : 0 <= S_of i < two64) by (unfold E_of, S_of in *; lia).
    assert (Hfr : 0 <= i_factor i < two64) by lia.
    unfold get_proof_info, shape. rewrite HF. cbn [is_fail].
    unfold proof_start, proof_end. fold (S_of i).
    rewrite (w64_id (S_of i)) by exact HS.
    rewrite (big_u64_id (i_factor i)) by exact Hfr.
    fold (E_of i). replace (S_of i + i_factor i - 1) with (E_of i) by reflexivity.
    rewrite (w64_id (E_of i)) by (unfold E_of in *; lia).
    set (s := S_of i) in *. set (e := E_of i) in *. set (cur := i_epoch i) in *.
    assert (Hse : s / L <= e / L) by (apply Z.div_le_mono; unfold e, E_of; fold s; lia).
    assert (HsL : 0 <= s / L) by (apply Z.div_pos; lia).
    assert (HsU : s / L < two64 - 1).
    { assert (s / L <= s / 2) by (apply Z.div_le_compat_l; lia).
      assert (s / 2 < two64 - 1); [|lia].
      apply Z.div_lt_upper_bound; [lia|]. rewrite two64_val in *. lia. }
    destruct (Z.eq_dec cur 0) as [C0 | C0].
    - (* no previous epoch: w64 (-1) = 2^64 - 1 is never the epoch of a block *)
      assert (Hprev : w64 (cur - 1) = two64 - 1).
      { rewrite C0. unfold w64. rewrite two64_val. reflexivity. }
      rewrite Hprev.
      assert (Hn1 : (s / L =? two64 - 1) = false) by (apply Z.eqb_neq; lia).
      assert (Hn2 : (s / L =? cur - 1) = false) by (apply Z.eqb_neq; lia).
      rewrite Hn1, Hn2. cbn [andb orb].
      destruct ((s / L =? cur) && (e / L =? cur)); reflexivity.
    - rewrite (w64_id (cur - 1)) by lia.
      destruct ((s / L =? cur) && (e / L =? cur)) eqn:Hcc; [reflexivity|].
      cbn [orb].
      destruct ((s / L =? cur - 1) && (e / L =? cur - 1)) eqn:Hpp; reflexivity.
  Qed.

  Lemma guards_range : forall i, guards i -> range_guards i.
  Proof. intros i G. unfold guards in G. unfold range_guards. tauto. Qed.

  Lemma model_unwrapped : forall i,
      guards i -> i_fail i = NoFail -> get_proof_info L i = unwrapped i.
  Proof.
    intros i G HF. rewrite (model_shape i (guards_range i G) HF).
    unfold guards in G.
    destruct G as (Hlat & Hconf & Hf & HE & Hep & Hdc & Hdp & Hov).
    unfold shape, unwrapped.
    set (s := S_of i) in *. set (e := E_of i) in *. set (cur := i_epoch i) in *.
    destruct (((s / L =? cur) && (e / L =? cur)) || ((s / L =? cur - 1) && (e / L =? cur - 1)));
      [reflexivity|].
    destruct ((s / L =? cur - 1) && (e / L =? cur)) eqn:Hpc; [|reflexivity].
    apply andb_true_iff in Hpc. destruct Hpc as [Hp1 Hp2].
    apply Z.eqb_eq in Hp1. apply Z.eqb_eq in Hp2.
    assert (Hz : (i_dcur i =? 0) = false) by (apply Z.eqb_neq; lia). rewrite Hz.
    f_equal. unfold span_required.
    assert (Hs0 : 0 <= s) by (unfold s, S_of; lia).
    destruct (n_prev_val s Hs0) as [Hnp Hnpb]. rewrite Hnp.
    assert (Hlt : L - s mod L < i_factor i).
    { apply (span_np_lt_factor s (i_factor i) cur Hs0 Hp1). exact Hp2. }
    destruct (n_cur_spec (i_dprev i) (i_dcur i) (i_factor i) s Hs0 Hdc Hdp Hlt) as (Hn1 & _ & _).
    pose proof (n_cur_bound (i_dprev i) (i_dcur i) (i_factor i) s Hs0 Hdc Hdp Hlt Hov) as Hnb.
    rewrite big_u64_id by (rewrite two64_val; lia).
    apply w64_id. rewrite two64_val. lia.
  Qed.

  (* ---------- classification ---------- *)
  Definition in_relay_range (i : input) : Prop :=
    (S_of i / L = i_epoch i - 1 \/ S_of i / L = i_epoch i) /\
    (E_of i / L = i_epoch i - 1 \/ E_of i / L = i_epoch i).

  Lemma S_le_E_epoch : forall i, guards i -> S_of i / L <= E_of i / L.
  Proof.
    intros i G. destruct G as (Hlat & Hconf & Hf & _).
    apply Z.div_le_mono; unfold E_of; lia.
  Qed.

  Theorem classification_exact : forall i,
      guards i -> i_fail i = NoFail ->
      exists w acc req, get_proof_info L i = Info w acc req /\
                        (w = true <-> in_relay_range i) /\
                        (w = true -> acc = i_conf i).
  Proof.
    intros i G HF. rewrite (model_unwrapped i G HF). unfold unwrapped, in_relay_range.
    pose proof (S_le_E_epoch i G) as Hle.
    set (s := S_of i) in *. set (e := E_of i) in *. set (cur := i_epoch i) in *.
    destruct (s / L =? cur) eqn:A1; destruct (e / L =? cur) eqn:A2;
      destruct (s / L =? cur - 1) eqn:A3; destruct (e / L =? cur - 1) eqn:A4;
      cbn [andb orb];
      rewrite ?Z.eqb_eq, ?Z.eqb_neq in *;
      (eexists; eexists; eexists; split; [reflexivity|]);
      split; try (intros _; reflexivity); try (split; [intros _ | intros _; reflexivity]; lia);
      try (split; [discriminate | lia]); try discriminate.
  Qed.

  Theorem same_epoch_required : forall i,
      guards i -> i_fail i = NoFail -> in_relay_range i -> S_of i / L = E_of i / L ->
      get_proof_info L i = Info true (i_conf i) (i_factor i).
  Proof.
    intros i G HF [HS HE] Heq. rewrite (model_unwrapped i G HF). unfold unwrapped.
    set (s := S_of i) in *. set (e := E_of i) in *. set (cur := i_epoch i) in *.
    destruct HS as [HS | HS].
    - assert (A : (s / L =? cur - 1) && (e / L =? cur - 1) = true).
      { apply andb_true_iff; split; apply Z.eqb_eq; lia. }
      rewrite A, orb_true_r. reflexivity.
    - assert (A : (s / L =? cur) && (e / L =? cur) = true).
      { apply andb_true_iff; split; apply Z.eqb_eq; lia. }
      rewrite A. reflexivity.
  Qed.

  Theorem span_required_sufficient_minimal : forall i,
      guards i -> i_fail i = NoFail ->
      S_of i / L = i_epoch i - 1 -> E_of i / L = i_epoch i ->
      let np := L - S_of i mod L in
      exists nc,
        get_proof_info L i = Info true (i_conf i) (np + nc) /\
        1 <= np < i_factor i /\ 1 <= nc /\
        np * i_dprev i + nc * i_dcur i >= i_factor i * i_dprev i /\
        np * i_dprev i + (nc - 1) * i_dcur i < i_factor i * i_dprev i.
  Proof.
    intros i G HF HS HE np. rewrite (model_unwrapped i G HF). unfold unwrapped.
    pose proof G as G'. destruct G' as (Hlat & Hconf & Hf & HEb & Hep & Hdc & Hdp & Hov).
    assert (Hs0 : 0 <= S_of i) by (unfold S_of; lia).
    set (s := S_of i) in *. set (e := E_of i) in *. set (cur := i_epoch i) in *.
    assert (A : ((s / L =? cur) && (e / L =? cur)) || ((s / L =? cur - 1) && (e / L =? cur - 1)) = false).
    { apply orb_false_iff; split; apply andb_false_iff.
      - left. apply Z.eqb_neq. lia.
      - right. apply Z.eqb_neq. lia. }
    rewrite A.
    assert (B : (s / L =? cur - 1) && (e / L =? cur) = true).
    { apply andb_true_iff; split; apply Z.eqb_eq; assumption. }
    rewrite B.
    assert (Hlt : L - s mod L < i_factor i).
    { apply (span_np_lt_factor s (i_factor i) cur Hs0 HS). exact HE. }
    destruct (n_cur_spec (i_dprev i) (i_dcur i) (i_factor i) s Hs0 Hdc Hdp Hlt) as (Hn1 & Hn2 & Hn3).
    destruct (n_prev_val s Hs0) as [_ Hnpb].
    exists (n_cur L (i_dprev i) (i_dcur i) (i_factor i) s). fold np in Hn2, Hn3, Hlt, Hnpb |- *.
    split; [reflexivity|]. split; [lia|]. split; [lia|]. split; nia.
  Qed.

  (* ---------- header-sum reading of acc_work ---------- *)
  Lemma work_app : forall diff a b s,
      work L diff s (a + b) = work L diff s a + work L diff (s + Z.of_nat a) b.
  Proof.
    intros diff a. induction a as [|a IH]; intros b s.
    - cbn [work Nat.add Z.of_nat]. rewrite Z.add_0_r. lia.
    - cbn [work Nat.add]. rewrite IH.
      replace (s + 1 + Z.of_nat a) with (s + Z.of_nat (S a)) by lia. lia.
  Qed.

  Lemma work_one_epoch : forall diff n s e,
      e * L <= s -> s + Z.of_nat n <= (e + 1) * L ->
      work L diff s n = Z.of_nat n * diff e.
  Proof.
    intros diff n. induction n as [|n IH]; intros s e H1 H2.
    - cbn [work]. lia.
    - cbn [work]. assert (Hd : s / L = e) by (apply div_eq_iff; lia).
      rewrite Hd. rewrite (IH (s + 1) e) by lia. lia.
  Qed.

  (* [n] headers from [s], which lies in epoch [e-1], none of them beyond epoch [e] *)
  Lemma work_two_epochs : forall diff n s e,
      0 <= s -> s / L = e - 1 -> s + Z.of_nat n <= (e + 1) * L ->
      work L diff s n = acc_work (L - s mod L) (diff (e - 1)) (diff e) (Z.of_nat n).
  Proof.
    intros diff n s e Hs Hse Hend.
    pose proof (Z.div_mod s L ltac:(lia)) as Hd.
    pose proof (Z.mod_pos_bound s L ltac:(lia)) as Hm.
    rewrite Hse in Hd. apply div_eq_iff in Hse.
    set (np := L - s mod L) in *.
    assert (Hb : s + np = e * L) by (unfold np; lia).
    unfold acc_work.
    destruct (Z_le_gt_dec (Z.of_nat n) np) as [Hle | Hgt].
    - rewrite (work_one_epoch diff n s (e - 1)) by lia.
      rewrite Z.min_l by lia. rewrite Z.max_l by lia. lia.
    - replace n with (Z.to_nat np + (n - Z.to_nat np))%nat by lia.
      rewrite work_app.
      rewrite (work_one_epoch diff (Z.to_nat np) s (e - 1)) by lia.
      rewrite (work_one_epoch diff (n - Z.to_nat np) (s + Z.of_nat (Z.to_nat np)) e) by lia.
      replace (Z.of_nat (Z.to_nat np + (n - Z.to_nat np))) with (Z.of_nat n) by lia.
      rewrite Z.min_r by lia. rewrite Z.max_r by lia. lia.
  Qed.

  Lemma acc_work_mono : forall np dp dc n m,
      0 <= dp -> 0 <= dc -> n <= m -> acc_work np dp dc n <= acc_work np dp dc m.
  Proof. intros. unfold acc_work. nia. Qed.

  (* the required count is the LEAST number of consecutive headers, starting at the
     transaction's block, whose accumulated difficulty reaches factor * dPrev *)
  Theorem span_least_header_count : forall i (diff : Z -> Z) req,
      guards i -> i_fail i = NoFail ->
      S_of i / L = i_epoch i - 1 -> E_of i / L = i_epoch i ->
      diff (i_epoch i - 1) = i_dprev i -> diff (i_epoch i) = i_dcur i ->
      get_proof_info L i = Info true (i_conf i) req ->
      (S_of i + req - 1) / L = i_epoch i ->
      i_factor i * i_dprev i <= work L diff (S_of i) (Z.to_nat req) /\
      forall n, (n < Z.to_nat req)%nat -> work L diff (S_of i) n < i_factor i * i_dprev i.
  Proof.
    intros i diff req G HF HS HE Hdp Hdc Hget Hin.
    destruct (span_required_sufficient_minimal i G HF HS HE) as (nc & Hget' & Hnp & Hnc & Hsuf & Hmin).
    rewrite Hget' in Hget. injection Hget as Hreq.
    pose proof G as G'. destruct G' as (Hlat & Hconf & Hf & HEb & Hep & Hdc1 & Hdp1 & Hov).
    assert (Hs0 : 0 <= S_of i) by (unfold S_of; lia).
    set (s := S_of i) in *. set (np := L - s mod L) in *. set (cur := i_epoch i) in *.
    apply div_eq_iff in Hin.
    assert (Hreq0 : 1 <= req) by lia.
    assert (Hw : forall n, (n <= Z.to_nat req)%nat ->
                           work L diff s n = acc_work np (i_dprev i) (i_dcur i) (Z.of_nat n)).
    { intros n Hn. rewrite <- Hdp, <- Hdc. apply work_two_epochs; try assumption. lia. }
    split.
    - rewrite Hw by lia. rewrite Z2Nat.id by lia. unfold acc_work.
      rewrite <- Hreq. rewrite Z.min_r by lia. rewrite Z.max_r by lia. nia.
    - intros n Hn. rewrite Hw by lia.
      assert (Hle : acc_work np (i_dprev i) (i_dcur i) (Z.of_nat n)
                    <= acc_work np (i_dprev i) (i_dcur i) (req - 1)).
      { apply acc_work_mono; lia. }
      assert (acc_work np (i_dprev i) (i_dcur i) (req - 1) < i_factor i * i_dprev i); [|lia].
      unfold acc_work. rewrite <- Hreq. rewrite Z.min_r by lia. rewrite Z.max_r by lia. nia.
  Qed.

  (* ---------- guards are needed ---------- *)
  Theorem zero_current_difficulty_panics : forall i,
      range_guards i -> i_fail i = NoFail -> i_dcur i = 0 ->
      S_of i / L = i_epoch i - 1 -> E_of i / L = i_epoch i ->
      get_proof_info L i = Panic.
  Proof.
    intros i G HF Hz HS HE. rewrite (model_shape i G HF). unfold shape.
    assert (A : ((S_of i / L =? i_epoch i) && (E_of i / L =? i_epoch i))
                || ((S_of i / L =? i_epoch i - 1) && (E_of i / L =? i_epoch i - 1)) = false).
    { apply orb_false_iff; split; apply andb_false_iff.
      - left. apply Z.eqb_neq. lia.
      - right. apply Z.eqb_neq. lia. }
    assert (B : (S_of i / L =? i_epoch i - 1) && (E_of i / L =? i_epoch i) = true).
    { apply andb_true_iff; split; apply Z.eqb_eq; assumption. }
    rewrite A, B, Hz. reflexivity.
  Qed.

  (* ---------- the executable form ---------- *)
  Definition spec_prop (i : input) (r : result) : Prop :=
    exists w acc req, r = Info w acc req /\
      (w = true <-> in_relay_range i) /\
      (w = true ->
         acc = i_conf i /\
         (S_of i / L = E_of i / L -> req = i_factor i) /\
         (S_of i / L <> E_of i / L ->
            let np := L - S_of i mod L in
            i_factor i * i_dprev i <= acc_work np (i_dprev i) (i_dcur i) req /\
            acc_work np (i_dprev i) (i_dcur i) (req - 1) < i_factor i * i_dprev i)).

  Theorem spec_ok_sound : forall i r,
      guards i -> i_fail i = NoFail -> spec_ok L i r = true -> spec_prop i r.
  Proof.
    intros i r G HF H. unfold spec_ok in H.
    apply in_domain_guards in G. rewrite G, HF in H. cbn [negb] in H.
    destruct r as [w acc req| |]; try discriminate H.
    exists w, acc, req. split; [reflexivity|].
    fold (S_of i) in H. change (S_of i + i_factor i - 1) with (E_of i) in H.
    apply andb_true_iff in H. destruct H as [Hw Hrest].
    apply eqb_prop in Hw.
    split.
    - rewrite Hw. unfold in_relay_range.
      rewrite andb_true_iff, !orb_true_iff, !Z.eqb_eq. tauto.
    - intros ->. apply andb_true_iff in Hrest. destruct Hrest as [Ha Hr].
      apply Z.eqb_eq in Ha. split; [exact Ha|].
      destruct (S_of i / L =? E_of i / L) eqn:Heq.
      + apply Z.eqb_eq in Heq. apply Z.eqb_eq in Hr. split; [intros _; exact Hr | intros Hne; contradiction].
      + apply Z.eqb_neq in Heq. split; [intros He; contradiction|].
        intros _. apply andb_true_iff in Hr. destruct Hr as [H1 H2].
        apply Z.leb_le in H1. apply Z.ltb_lt in H2. split; assumption.
  Qed.

  Theorem model_passes_spec : forall i, spec_ok L i (get_proof_info L i) = true.
  Proof.
    intros i. unfold spec_ok.
    destruct (in_domain i) eqn:D; [|reflexivity]. cbn [negb].
    destruct (i_fail i) eqn:HF; try reflexivity.
    apply in_domain_guards in D.
    destruct (classification_exact i D HF) as (w & acc & req & Hget & Hw & Hacc).
    rewrite Hget.
    fold (S_of i). change (S_of i + i_factor i - 1) with (E_of i).
    apply andb_true_iff. split.
    - apply eqb_true_iff. unfold in_relay_range in Hw.
      destruct w.
      + symmetry. destruct Hw as [Hw _]. specialize (Hw eq_refl).
        rewrite andb_true_iff, !orb_true_iff, !Z.eqb_eq. tauto.
      + symmetry. apply not_true_is_false. intros Hc. destruct Hw as [_ Hw].
        rewrite andb_true_iff, !orb_true_iff, !Z.eqb_eq in Hc.
        assert (false = true) by (apply Hw; tauto). discriminate.
    - destruct w; [|reflexivity].
      destruct Hw as [Hw _]. specialize (Hw eq_refl). specialize (Hacc eq_refl).
      apply andb_true_iff. split; [apply Z.eqb_eq; exact Hacc|].
      destruct (S_of i / L =? E_of i / L) eqn:Heq.
      + apply Z.eqb_eq in Heq.
        rewrite (same_epoch_required i D HF Hw Heq) in Hget. injection Hget as _ Hr.
        apply Z.eqb_eq. symmetry. exact Hr.
      + apply Z.eqb_neq in Heq.
        pose proof (S_le_E_epoch i D) as Hle.
        destruct Hw as [HS HE].
        assert (HS' : S_of i / L = i_epoch i - 1) by lia.
        assert (HE' : E_of i / L = i_epoch i) by lia.
        destruct (span_required_sufficient_minimal i D HF HS' HE') as (nc & Hget' & Hnp & Hnc & Hsuf & Hmin).
        rewrite Hget' in Hget. injection Hget as Hr. subst req.
        set (np := L - S_of i mod L) in *.
        destruct D as (Hlat & Hconf & Hf & HEb & Hep & Hdc1 & Hdp1 & Hov).
        unfold acc_work.
        apply andb_true_iff. split.
        * apply Z.leb_le. rewrite Z.min_r by lia. rewrite Z.max_r by lia. nia.
        * apply Z.ltb_lt. rewrite Z.min_r by lia. rewrite Z.max_r by lia. nia.
  Qed.
  (* ---------- proving rounds (proveTransactions) ---------- *)

  (* a transaction of a round on which the property speaks and no failure is injected *)
  Definition tx_clean (r : round) (t : rtx) : Prop :=
    guards (tx_input r t) /\ t_fail t = NoFail /\ t_subfail t = false.

  (* no state across transactions: a round is the per-transaction function mapped over the
     round's transactions, every one judged with the round's own factor and difficulties *)
  Theorem round_is_map : forall r txs,
      (forall t, In t txs -> tx_clean r t) ->
      run_txs L r txs = (map (tx_outcome L r) txs, Done).
  Proof.
    intros r txs. induction txs as [|t ts IH]; intros H.
    - reflexivity.
    - cbn [run_txs map].
      assert (Ht : tx_clean r t) by (apply H; left; reflexivity).
      destruct Ht as (G & HF & HS).
      destruct (classification_exact _ G HF) as (w & acc & req & Hget & _ & _).
      unfold tx_outcome at 1. rewrite Hget.
      rewrite IH by (intros t' Hin; apply H; right; exact Hin).
      unfold outcome_of, cons_out. cbn [fst snd]. rewrite HS.
      destruct w; cbn [negb andb]; [destruct (acc <? req); reflexivity | reflexivity].
  Qed.

  (* with failures (any inputs): the outcomes are still the map over the processed prefix *)
  Theorem round_prefix : forall r txs,
      exists n, (n <= length txs)%nat /\
        fst (run_txs L r txs) = map (tx_outcome L r) (firstn n txs) /\
        (snd (run_txs L r txs) = Done -> n = length txs).
  Proof.
    intros r txs. induction txs as [|t ts IH].
    - exists 0%nat. repeat split; reflexivity.
    - destruct IH as (n & Hn & Hf & Hd).
      cbn [run_txs].
      destruct (get_proof_info L (tx_input r t)) as [w acc req| |] eqn:Hget.
      + assert (Hout : tx_outcome L r t = outcome_of (Info w acc req))
          by (unfold tx_outcome; rewrite Hget; reflexivity).
        destruct w; cbn [negb].
        * destruct (acc <? req) eqn:Hlt.
          -- exists (S n). cbn [length firstn map cons_out fst snd].
             rewrite Hout, Hf. cbn [outcome_of andb]. rewrite Hlt. cbn [negb].
             repeat split; [lia | intros Hs; f_equal; auto].
          -- destruct (t_subfail t).
             ++ exists 1%nat. cbn [length firstn map fst snd].
                rewrite Hout. cbn [outcome_of andb]. rewrite Hlt. cbn [negb].
                repeat split; [lia | discriminate].
             ++ exists (S n). cbn [length firstn map cons_out fst snd].
                rewrite Hout, Hf. cbn [outcome_of andb]. rewrite Hlt. cbn [negb].
                repeat split; [lia | intros Hs; f_equal; auto].
        * exists (S n). cbn [length firstn map cons_out fst snd].
          rewrite Hout, Hf. cbn [outcome_of andb].
          repeat split; [lia | intros Hs; f_equal; auto].
      + exists 0%nat. cbn [length firstn map fst snd]. repeat split; [lia | discriminate].
      + exists 0%nat. cbn [length firstn map fst snd]. repeat split; [lia | discriminate].
  Qed.

  (* a transaction is submitted iff its proof is in the relay's range and its confirmations
     reach its OWN required number (the one of theorems 2 and 3), with exactly that number *)
  Theorem round_submission_exact : forall r t,
      guards (tx_input r t) -> t_fail t = NoFail ->
      let i := tx_input r t in
      (forall q, tx_outcome L r t = Submitted q <->
                 in_relay_range i /\ get_proof_info L i = Info true (i_conf i) q /\ q <= i_conf i) /\
      (tx_outcome L r t = Skipped <->
         ~ in_relay_range i \/
         exists q, get_proof_info L i = Info true (i_conf i) q /\ i_conf i < q).
  Proof.
    intros r t G HF i.
    destruct (classification_exact _ G HF) as (w & acc & req & Hget & Hw & Hacc).
    fold i in Hget, Hw, Hacc. unfold tx_outcome. fold i. rewrite Hget. unfold outcome_of.
    destruct w.
    - specialize (Hacc eq_refl). subst acc. destruct Hw as [Hw _]. specialize (Hw eq_refl).
      cbn [andb]. destruct (i_conf i <? req) eqn:Hlt; cbn [negb].
      + apply Z.ltb_lt in Hlt. split.
        * intros q. split; [discriminate|]. intros (_ & Hq & Hle). injection Hq as Hq. lia.
        * split; [|reflexivity]. intros _. right. exists req. split; [reflexivity | exact Hlt].
      + apply Z.ltb_ge in Hlt. split.
        * intros q. split.
          -- intros Hq. injection Hq as Hq. subst q. repeat split; [apply Hw | apply Hw | exact Hlt].
          -- intros (_ & Hq & _). injection Hq as Hq. subst q. reflexivity.
        * split; [discriminate|]. intros [Hn | (q & Hq & Hlt')]; [contradiction|].
          injection Hq as Hq. lia.
    - cbn [andb]. split.
      + intros q. split; [discriminate|]. intros (Hr & _ & _).
        destruct Hw as [_ Hw]. specialize (Hw Hr). discriminate.
      + split; [|reflexivity]. intros _. left. intros Hr.
        destruct Hw as [_ Hw]. specialize (Hw Hr). discriminate.
  Qed.

  (* the executable form for one transaction of a round *)
  Definition tx_prop (i : input) (o : tx_out) : Prop :=
    match o with
    | Submitted req =>
        in_relay_range i /\ req <= i_conf i /\
        (S_of i / L = E_of i / L -> req = i_factor i) /\
        (S_of i / L <> E_of i / L ->
           let np := L - S_of i mod L in
           i_factor i * i_dprev i <= acc_work np (i_dprev i) (i_dcur i) req /\
           acc_work np (i_dprev i) (i_dcur i) (req - 1) < i_factor i * i_dprev i)
    | Skipped =>
        ~ in_relay_range i \/
        (S_of i / L = E_of i / L /\ i_conf i < i_factor i) \/
        (S_of i / L <> E_of i / L /\
           acc_work (L - S_of i mod L) (i_dprev i) (i_dcur i) (i_conf i) < i_factor i * i_dprev i)
    end.

  Lemma tx_ok_sound : forall i o,
      guards i -> i_fail i = NoFail -> tx_ok L i o = true -> tx_prop i o.
  Proof.
    intros i o G HF H. unfold tx_ok in H.
    pose proof G as D. apply in_domain_guards in D. rewrite D, HF in H. cbn [negb] in H.
    destruct o as [req|].
    - apply andb_true_iff in H. destruct H as [Hs Hle]. apply Z.leb_le in Hle.
      destruct (spec_ok_sound i _ G HF Hs) as (w & acc & q & Heq & Hw & Hrest).
      injection Heq as <- <- <-.
      destruct (Hrest eq_refl) as (_ & Hsame & Hdiff).
      cbn [tx_prop]. repeat split; [apply Hw; reflexivity | apply Hw; reflexivity | exact Hle
                                    | exact Hsame | apply Hdiff; assumption | apply Hdiff; assumption].
    - fold (S_of i) in H. change (S_of i + i_factor i - 1) with (E_of i) in H.
      cbn [tx_prop]. apply orb_true_iff in H. destruct H as [H | H].
      + left. intros Hr. apply negb_true_iff in H. unfold in_relay_range in Hr.
        assert (Hc : ((S_of i / L =? i_epoch i - 1) || (S_of i / L =? i_epoch i))
                     && ((E_of i / L =? i_epoch i - 1) || (E_of i / L =? i_epoch i)) = true).
        { rewrite andb_true_iff, !orb_true_iff, !Z.eqb_eq. exact Hr. }
        rewrite Hc in H. discriminate.
      + right. destruct (S_of i / L =? E_of i / L) eqn:Heq.
        * left. apply Z.eqb_eq in Heq. apply Z.ltb_lt in H. split; assumption.
        * right. apply Z.eqb_neq in Heq. apply Z.ltb_lt in H. split; assumption.
  Qed.

  Lemma tx_ok_outcome : forall i,
      guards i -> i_fail i = NoFail -> tx_ok L i (outcome_of (get_proof_info L i)) = true.
  Proof.
    intros i G HF.
    destruct (spec_ok_sound i _ G HF (model_passes_spec i)) as (w & acc & req & Hget & Hw & Hrest).
    pose proof (model_passes_spec i) as Hm.
    rewrite Hget in Hm |- *. unfold outcome_of, tx_ok.
    pose proof G as D. apply in_domain_guards in D.
    destruct w.
    - destruct (Hrest eq_refl) as (Hacc & Hsame & Hdiff). subst acc. cbn [andb].
      destruct (i_conf i <? req) eqn:Hlt; cbn [negb]; rewrite D, HF; cbn [negb].
      + apply Z.ltb_lt in Hlt.
        fold (S_of i). change (S_of i + i_factor i - 1) with (E_of i).
        apply orb_true_iff. right.
        destruct (S_of i / L =? E_of i / L) eqn:Heq.
        * apply Z.eqb_eq in Heq. apply Z.ltb_lt. rewrite <- (Hsame Heq). exact Hlt.
        * apply Z.eqb_neq in Heq. destruct (Hdiff Heq) as [_ Hmin]. apply Z.ltb_lt.
          destruct G as (_ & _ & _ & _ & _ & Hdc & Hdp & _).
          assert (Hle : acc_work (L - S_of i mod L) (i_dprev i) (i_dcur i) (i_conf i)
                        <= acc_work (L - S_of i mod L) (i_dprev i) (i_dcur i) (req - 1))
            by (apply acc_work_mono; lia).
          lia.
      + apply Z.ltb_ge in Hlt. rewrite Hm. apply Z.leb_le. exact Hlt.
    - cbn [andb]. rewrite D, HF. cbn [negb].
      fold (S_of i). change (S_of i + i_factor i - 1) with (E_of i).
      apply orb_true_iff. left. apply negb_true_iff.
      destruct (((S_of i / L =? i_epoch i - 1) || (S_of i / L =? i_epoch i))
                && ((E_of i / L =? i_epoch i - 1) || (E_of i / L =? i_epoch i))) eqn:Hc; [|reflexivity].
      rewrite andb_true_iff, !orb_true_iff, !Z.eqb_eq in Hc.
      destruct Hw as [_ Hw]. symmetry. apply Hw. exact Hc.
  Qed.

  Lemma round_ok_cons : forall r t ts o os e,
      in_domain (tx_input r t) = true -> t_fail t = NoFail ->
      round_ok L r (t :: ts) (o :: os) e =
      tx_ok L (tx_input r t) o &&
      match o with
      | Submitted _ => if t_subfail t then true else round_ok L r ts os e
      | Skipped => round_ok L r ts os e
      end.
  Proof. intros r t ts o os e D HF. cbn [round_ok]. rewrite D, HF. reflexivity. Qed.

  (* soundness of the executable round property: on a round of clean transactions it forces a
     normal end and, transaction by transaction, the per-transaction property *)
  Theorem round_ok_sound : forall r txs outs e,
      (forall t, In t txs -> tx_clean r t) ->
      round_ok L r txs outs e = true ->
      e = Done /\ Forall2 (fun t o => tx_prop (tx_input r t) o) txs outs.
  Proof.
    intros r txs. induction txs as [|t ts IH]; intros outs e H Hok.
    - cbn [round_ok] in Hok. destruct outs; [|discriminate]. destruct e; try discriminate.
      split; [reflexivity | constructor].
    - assert (Ht : tx_clean r t) by (apply H; left; reflexivity).
      destruct Ht as (G & HF & HS).
      pose proof G as D. apply in_domain_guards in D.
      destruct outs as [|o os].
      + cbn [round_ok] in Hok. rewrite D, HF in Hok. discriminate.
      + rewrite (round_ok_cons r t ts o os e D HF) in Hok.
        apply andb_true_iff in Hok. destruct Hok as [Ho Hrest].
        assert (Hr : round_ok L r ts os e = true).
        { destruct o; [rewrite HS in Hrest|]; exact Hrest. }
        destruct (IH os e (fun t' Hin => H t' (or_intror Hin)) Hr) as [He Hall].
        split; [exact He|]. constructor; [|exact Hall].
        apply tx_ok_sound; assumption.
  Qed.

  (* ... and it holds of every round of the model, for ALL rounds (failures, unguarded inputs) *)
  Theorem round_model_passes : forall r txs,
      round_ok L r txs (fst (run_txs L r txs)) (snd (run_txs L r txs)) = true.
  Proof.
    intros r txs. induction txs as [|t ts IH].
    - reflexivity.
    - destruct (in_domain (tx_input r t)) eqn:D;
        [|cbn [round_ok]; rewrite D; reflexivity].
      destruct (t_fail t) eqn:HF; try (cbn [round_ok]; rewrite D, HF; reflexivity).
      pose proof D as G. apply in_domain_guards in G.
      destruct (classification_exact _ G HF) as (w & acc & req & Hget & _ & _).
      pose proof (tx_ok_outcome _ G HF) as Hok. rewrite Hget in Hok.
      cbn [run_txs]. rewrite Hget.
      destruct w; cbn [negb].
      + destruct (acc <? req) eqn:Hlt.
        * cbn [outcome_of andb] in Hok. rewrite Hlt in Hok. cbn [negb] in Hok.
          unfold cons_out. cbn [fst snd].
          rewrite (round_ok_cons r t ts _ _ _ D HF). rewrite Hok, IH. reflexivity.
        * cbn [outcome_of andb] in Hok. rewrite Hlt in Hok. cbn [negb] in Hok.
          destruct (t_subfail t) eqn:HS.
          -- cbn [fst snd]. rewrite (round_ok_cons r t ts _ _ _ D HF). rewrite Hok, HS. reflexivity.
          -- unfold cons_out. cbn [fst snd].
             rewrite (round_ok_cons r t ts _ _ _ D HF). rewrite Hok, HS, IH. reflexivity.
      + cbn [outcome_of andb] in Hok. unfold cons_out. cbn [fst snd].
        rewrite (round_ok_cons r t ts _ _ _ D HF). rewrite Hok, IH. reflexivity.
  Qed.
End Proofs.

(* the hypotheses are satisfiable: the example of the code comment (previous difficulty 50,
   current 30, factor 6, two headers in the previous epoch: 9 headers are required, 8 are
   not enough, and the naive count 6 would have been insufficient) *)
Definition example_input : input :=
  {| i_latest := 300 * 2016 - 2 + 11; i_conf := 12; i_factor := 6; i_epoch := 300;
     i_dcur := 30; i_dprev := 50; i_fail := NoFail |}.
Example example_guards : guards example_input.
Proof. unfold guards, E_of, S_of, two64. cbn. lia. Qed.
Example example_span :
  S_of example_input / 2016 = 299 /\ E_of example_input / 2016 = 300 /\
  get_proof_info 2016 example_input = Info true 12 9.
Proof. vm_compute. repeat split; reflexivity. Qed.

(* a round on which the round theorems speak: the spanning transaction of the example comes
   FIRST and is followed by a current-epoch transaction with 4 confirmations (skipped: 6 are
   required) and one with 10 (submitted with 6); the outcomes are the map of the
   per-transaction function, each with the round's factor 6 *)
Definition example_round : round :=
  {| r_factor := 6; r_epoch := 300; r_dcur := 30; r_dprev := 50;
     r_txs := [ {| t_latest := 300 * 2016 + 28; t_conf := 31; t_fail := NoFail; t_subfail := false |};
                {| t_latest := 300 * 2016 + 28; t_conf := 4; t_fail := NoFail; t_subfail := false |};
                {| t_latest := 300 * 2016 + 28; t_conf := 10; t_fail := NoFail; t_subfail := false |} ] |}.
Example example_round_clean : forall t, In t (r_txs example_round) -> tx_clean example_round t.
Proof.
  intros t [<- | [<- | [<- | []]]];
    (split; [unfold guards, E_of, S_of, two64; cbn; lia | split; reflexivity]).
Qed.
Example example_round_outcome :
  prove_round 2016 example_round = ([Submitted 9; Skipped; Submitted 6], Done).
Proof. vm_compute. reflexivity. Qed.

Lemma L_bounds : 2 <= difficultyEpochLength < 2 ^ 32.
Proof. unfold difficultyEpochLength. lia. Qed.

(* ---------- the theorems for the epoch length the code uses (regenerated constant) ---------- *)
Module AtConst.
  Definition classification_exact := classification_exact difficultyEpochLength L_bounds.
  Definition same_epoch_required := same_epoch_required difficultyEpochLength L_bounds.
  Definition span_required_sufficient_minimal :=
    span_required_sufficient_minimal difficultyEpochLength L_bounds.
  Definition span_least_header_count := span_least_header_count difficultyEpochLength L_bounds.
  Definition zero_current_difficulty_panics :=
    zero_current_difficulty_panics difficultyEpochLength L_bounds.
  Definition spec_ok_sound := spec_ok_sound difficultyEpochLength L_bounds.
  Definition model_passes_spec := model_passes_spec difficultyEpochLength L_bounds.
  Definition round_is_map := round_is_map difficultyEpochLength L_bounds.
  Definition round_prefix := round_prefix difficultyEpochLength.
  Definition round_submission_exact := round_submission_exact difficultyEpochLength L_bounds.
  Definition round_ok_sound := round_ok_sound difficultyEpochLength L_bounds.
  Definition round_model_passes := round_model_passes difficultyEpochLength L_bounds.
End AtConst.
