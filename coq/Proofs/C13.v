(* C13 — lemmas about the support-collection model (Model/C13.v). *)
From Coq Require Import ZArith NArith List Bool Lia Sorted Permutation.
Require Import ZifyBool ZifyNat ZifyN.
From KV Require Import Common.Verdict Model.C12 Model.C13 Proofs.C12.
Import ListNotations.
Open Scope N_scope.

(* ---------- association lists sorted by key ---------- *)
Definition sorted (m : list (N * N)) : Prop := StronglySorted N.lt (map fst m).

Lemma lookup_upsert k v i : forall m,
  lookup i (upsert k v m) = if i =? k then Some v else lookup i m.
Proof.
  induction m as [|[k' v'] t IH]; cbn [upsert lookup].
  - destruct (i =? k); reflexivity.
  - destruct (N.ltb_spec k k') as [Hlt|Hge].
    + cbn [lookup]. destruct (N.eqb_spec i k); reflexivity.
    + destruct (N.eqb_spec k k') as [He|Hne].
      * subst k'. cbn [lookup]. destruct (N.eqb_spec i k); reflexivity.
      * cbn [lookup]. rewrite IH.
        destruct (N.eqb_spec i k'); destruct (N.eqb_spec i k); try reflexivity. lia.
Qed.

Lemma upsert_keys_lb x k v : forall m,
  x < k -> Forall (N.lt x) (map fst m) -> Forall (N.lt x) (map fst (upsert k v m)).
Proof.
  induction m as [|[k' v'] t IH]; intros Hx Hall; cbn [upsert].
  - constructor; [exact Hx | constructor].
  - cbn [map fst] in Hall. inversion Hall as [|? ? Hh Ht]; subst.
    destruct (k <? k'); [|destruct (k =? k')]; cbn [map fst].
    + constructor; [exact Hx | constructor; assumption].
    + constructor; assumption.
    + constructor; [assumption | now apply IH].
Qed.

Lemma upsert_sorted k v : forall m, sorted m -> sorted (upsert k v m).
Proof.
  unfold sorted. induction m as [|[k' v'] t IH]; intros Hs; cbn [upsert].
  - cbn. constructor; constructor.
  - cbn [map fst] in Hs. inversion Hs as [|? ? Hst Hall]; subst.
    destruct (N.ltb_spec k k') as [Hlt|Hge].
    + cbn [map fst]. constructor; [exact Hs|].
      constructor; [exact Hlt|].
      eapply Forall_impl; [|exact Hall]. intros a Ha. cbn in Ha. lia.
    + destruct (N.eqb_spec k k') as [He|Hne].
      * subst k'. cbn [map fst]. constructor; assumption.
      * cbn [map fst]. constructor; [now apply IH|].
        apply upsert_keys_lb; [lia | exact Hall].
Qed.

Lemma lookup_none_lb x : forall m, Forall (N.lt x) (map fst m) -> lookup x m = None.
Proof.
  induction m as [|[k v] t IH]; intros Hall; cbn [lookup]; [reflexivity|].
  cbn [map fst] in Hall. inversion Hall as [|? ? Hh Ht]; subst.
  destruct (N.eqb_spec x k); [lia | now apply IH].
Qed.

Lemma In_lookup i s : forall m, sorted m -> (In (i, s) m <-> lookup i m = Some s).
Proof.
  unfold sorted. induction m as [|[k v] t IH]; intros Hs; cbn [lookup In].
  - split; [intros [] | discriminate].
  - cbn [map fst] in Hs. inversion Hs as [|? ? Hst Hall]; subst.
    destruct (N.eqb_spec i k) as [He|Hne].
    + subst k. split.
      * intros [Heq | Hin]; [congruence|].
        apply IH in Hin; [|assumption].
        rewrite (lookup_none_lb i t Hall) in Hin. discriminate.
      * intros Heq. left. congruence.
    + rewrite <- IH by assumption. split.
      * intros [Heq | Hin]; [congruence | assumption].
      * intros Hin. now right.
Qed.

Lemma sorted_ext : forall m1 m2, sorted m1 -> sorted m2 ->
  (forall i, lookup i m1 = lookup i m2) -> m1 = m2.
Proof.
  unfold sorted. induction m1 as [|[k1 v1] t1 IH]; intros m2 Hs1 Hs2 Hext.
  - destruct m2 as [|[k2 v2] t2]; [reflexivity|].
    specialize (Hext k2). cbn [lookup] in Hext. rewrite N.eqb_refl in Hext. discriminate.
  - destruct m2 as [|[k2 v2] t2].
    + specialize (Hext k1). cbn [lookup] in Hext. rewrite N.eqb_refl in Hext. discriminate.
    + cbn [map fst] in Hs1, Hs2.
      inversion Hs1 as [|? ? Hst1 Hall1]; subst. inversion Hs2 as [|? ? Hst2 Hall2]; subst.
      assert (Hk : k1 = k2).
      { destruct (N.lt_trichotomy k1 k2) as [Hlt | [He | Hgt]]; [|exact He|].
        - specialize (Hext k1). cbn [lookup] in Hext. rewrite N.eqb_refl in Hext.
          destruct (N.eqb_spec k1 k2); [lia|].
          rewrite lookup_none_lb in Hext; [discriminate|].
          eapply Forall_impl; [|exact Hall2]. intros a Ha. cbn in Ha. lia.
        - specialize (Hext k2). cbn [lookup] in Hext. rewrite N.eqb_refl in Hext.
          destruct (N.eqb_spec k2 k1); [lia|].
          rewrite lookup_none_lb in Hext; [discriminate|].
          eapply Forall_impl; [|exact Hall1]. intros a Ha. cbn in Ha. lia. }
      subst k2.
      assert (Hv : v1 = v2).
      { specialize (Hext k1). cbn [lookup] in Hext. rewrite N.eqb_refl in Hext. congruence. }
      subst v2. f_equal. apply IH; try assumption.
      intros i. specialize (Hext i). cbn [lookup] in Hext.
      destruct (N.eqb_spec i k1) as [He|Hne]; [|exact Hext].
      subst i. rewrite (lookup_none_lb k1 t1 Hall1), (lookup_none_lb k1 t2 Hall2). reflexivity.
Qed.

Lemma sorted_NoDup : forall l, StronglySorted N.lt l -> NoDup l.
Proof.
  induction l as [|a t IH]; intros Hs; [constructor|].
  inversion Hs as [|? ? Hst Hall]; subst. constructor; [|now apply IH].
  intros Hin. rewrite Forall_forall in Hall. specialize (Hall a Hin). lia.
Qed.

Lemma keys_increasing_sorted : forall m, keys_increasing m = true <-> sorted m.
Proof.
  unfold sorted. induction m as [|[a va] t IH]; cbn [keys_increasing].
  - split; [constructor | reflexivity].
  - destruct t as [|[b vb] t'].
    + split; [intros _; cbn; constructor; constructor | reflexivity].
    + rewrite andb_true_iff, N.ltb_lt, IH. cbn [map fst]. split.
      * intros [Hab Hs]. constructor; [exact Hs|].
        inversion Hs as [|? ? Hst Hall]; subst.
        constructor; [exact Hab|].
        eapply Forall_impl; [|exact Hall]. intros x Hx. cbn in Hx. lia.
      * intros Hs. inversion Hs as [|? ? Hst Hall]; subst.
        inversion Hall; subst. split; assumption.
Qed.

Lemma sigmap_eqb_eq : forall a b, sigmap_eqb a b = true <-> a = b.
Proof.
  unfold sigmap_eqb. induction a as [|[k v] t IH]; intros [|[k' v'] t'];
    cbn [length combine forallb fst snd Nat.eqb andb]; try (split; [discriminate|discriminate]).
  - split; reflexivity.
  - specialize (IH t'). rewrite !andb_true_iff in *. rewrite !N.eqb_eq. split.
    + intros [Hl [[Hk Hv] Hf]]. subst. f_equal. apply IH. split; assumption.
    + intros He. injection He as Hk Hv Ht. subst.
      destruct (proj2 IH eq_refl) as [Hl Hf]. repeat split; assumption.
Qed.

(* ---------- filters ---------- *)
Lemma from_In i l r : In r (from i l) <-> In r l /\ r_idx r = i.
Proof. unfold from. rewrite filter_In, N.eqb_eq. tauto. Qed.

Lemma from_single i l r :
  In r l -> r_idx r = i -> (length (from i l) < 2)%nat -> from i l = [r].
Proof.
  intros Hin Hi Hlen. assert (Hr : In r (from i l)) by (apply from_In; split; assumption).
  destruct (from i l) as [|a [|b t]]; cbn in *; [destruct Hr | | lia].
  destruct Hr as [Hr|[]]. now subst.
Qed.

Lemma filter_perm {A} (f : A -> bool) l l' :
  Permutation l l' -> Permutation (filter f l) (filter f l').
Proof.
  induction 1 as [| x l l' Hp IH | x y l | l l' l'' H1 IH1 H2 IH2]; cbn [filter].
  - constructor.
  - destruct (f x); [now constructor | assumption].
  - destruct (f x), (f y); try apply Permutation_refl. apply perm_swap.
  - eapply Permutation_trans; eassumption.
Qed.

(* dedup_first keeps exactly the first message of every sender that has not been seen *)
Lemma from_dedup i : forall l seen,
  from i (dedup_first seen l) =
  if memN i seen then [] else match from i l with [] => [] | r :: _ => [r] end.
Proof.
  unfold from.
  induction l as [|x t IH]; intros seen; cbn [dedup_first filter].
  - destruct (memN i seen); reflexivity.
  - destruct (memN (r_idx x) seen) eqn:Hm.
    + rewrite IH. destruct (N.eqb_spec (r_idx x) i) as [He|Hne].
      * subst i. rewrite Hm. reflexivity.
      * reflexivity.
    + cbn [filter]. rewrite IH. destruct (N.eqb_spec (r_idx x) i) as [He|Hne].
      * subst i. rewrite Hm. unfold memN. cbn [existsb]. rewrite N.eqb_refl. reflexivity.
      * unfold memN. cbn [existsb]. destruct (N.eqb_spec i (r_idx x)); [congruence|].
        reflexivity.
Qed.

Lemma dedup_In : forall l seen x, In x (dedup_first seen l) -> In x l.
Proof.
  induction l as [|y t IH]; intros seen x; cbn [dedup_first]; [tauto|].
  destruct (memN (r_idx y) seen).
  - intros H. right. now apply IH in H.
  - intros [H|H]; [now left | right; now apply IH in H].
Qed.

(* ---------- the generic fold ---------- *)
Definition gstep (pass : raw -> bool) (acc : list (N * N)) (r : raw) : list (N * N) :=
  if pass r then upsert (r_idx r) (r_sig r) acc else acc.

Lemma gfold_sorted pass : forall l acc, sorted acc -> sorted (fold_left (gstep pass) l acc).
Proof.
  induction l as [|r t IH]; intros acc Hs; cbn [fold_left]; [exact Hs|].
  apply IH. unfold gstep. destruct (pass r); [now apply upsert_sorted | exact Hs].
Qed.

Lemma gfold_snoc pass l r acc :
  fold_left (gstep pass) (l ++ [r]) acc = gstep pass (fold_left (gstep pass) l acc) r.
Proof. now rewrite fold_left_app. Qed.

(* whoever is in the result was put there by a passing message *)
Lemma gfold_lookup_some pass i s : forall l,
  lookup i (fold_left (gstep pass) l []) = Some s ->
  exists r, In r l /\ r_idx r = i /\ pass r = true /\ r_sig r = s.
Proof.
  induction l as [|x l IH] using rev_ind; [discriminate|].
  rewrite gfold_snoc. unfold gstep at 1. destruct (pass x) eqn:Hp.
  - rewrite lookup_upsert. destruct (N.eqb_spec i (r_idx x)) as [He|Hne].
    + intros Hs. injection Hs as Hs. exists x. rewrite in_app_iff. cbn. auto.
    + intros Hs. destruct (IH Hs) as [r [Hin Hr]]. exists r. rewrite in_app_iff. tauto.
  - intros Hs. destruct (IH Hs) as [r [Hin Hr]]. exists r. rewrite in_app_iff. tauto.
Qed.

(* a passing message of member i puts i in the result when all passing messages of i agree *)
Lemma gfold_lookup_intro pass i s : forall l,
  (forall x, In x l -> r_idx x = i -> pass x = true -> r_sig x = s) ->
  (exists x, In x l /\ r_idx x = i /\ pass x = true) ->
  lookup i (fold_left (gstep pass) l []) = Some s.
Proof.
  induction l as [|y l IH] using rev_ind; intros Hall [x [Hin Hx]]; [destruct Hin|].
  rewrite gfold_snoc. unfold gstep at 1. destruct (pass y) eqn:Hp.
  - rewrite lookup_upsert. destruct (N.eqb_spec i (r_idx y)) as [He|Hne].
    + f_equal. apply Hall; [rewrite in_app_iff; cbn; auto | congruence | exact Hp].
    + apply IH.
      * intros z Hz. apply Hall. rewrite in_app_iff. now left.
      * apply in_app_iff in Hin. destruct Hin as [Hin|[Hin|[]]].
        -- exists x. tauto.
        -- subst y. destruct Hx as [Hx _]. congruence.
  - apply IH.
    + intros z Hz. apply Hall. rewrite in_app_iff. now left.
    + apply in_app_iff in Hin. destruct Hin as [Hin|[Hin|[]]].
      * exists x. tauto.
      * subst y. destruct Hx as [_ Hx]. congruence.
Qed.

Lemma fold_left_ext {A B} (f g : A -> B -> A) : (forall a b, f a b = g a b) ->
  forall l a, fold_left f l a = fold_left g l a.
Proof. intros H. induction l as [|b t IH]; intros a; cbn; [reflexivity|]. now rewrite H, IH. Qed.

Section WithOracles.
  Variable addr_of : N -> N.
  Variable verify : N -> N -> N -> bool.

  Definition justified (c : cfg) (raws : list raw) (i s : N) : Prop :=
    exists r, In r raws /\ r_idx r = i /\ r_sig r = s /\ r_hash r = f_hash c /\
              r_pubkey r = r_key r /\ r_session r = f_session c /\
              holds_index (f_ops c) i (addr_of (r_key r)) /\
              is_operating (f_grp c) i = true /\
              verify (r_hash r) (r_sig r) (r_key r) = true.

  Definition checks (c : cfg) (r : raw) : bool :=
    (r_hash r =? f_hash c) && verify (r_hash r) (r_sig r) (r_pubkey r).
  Definition bpass (c : cfg) (all : list raw) (r : raw) : bool :=
    negb (r_idx r =? f_self c) && negb (duplicated (r_idx r) all) && checks c r.

  Lemma beacon_step_gstep c all acc r :
    beacon_step verify c all acc r = gstep (bpass c all) acc r.
  Proof.
    unfold beacon_step, gstep, bpass, checks.
    destruct (r_idx r =? f_self c); [reflexivity|].
    destruct (duplicated (r_idx r) all); [reflexivity|].
    destruct (r_hash r =? f_hash c); [|reflexivity].
    destruct (verify (r_hash r) (r_sig r) (r_pubkey r)); reflexivity.
  Qed.
  Lemma first_step_gstep c acc r : first_step verify c acc r = gstep (checks c) acc r.
  Proof.
    unfold first_step, gstep, checks.
    destruct (r_hash r =? f_hash c); [|reflexivity].
    destruct (verify (r_hash r) (r_sig r) (r_pubkey r)); reflexivity.
  Qed.

  Definition bfold c msgs := fold_left (gstep (bpass c msgs)) msgs [].
  Definition ffold c msgs := fold_left (gstep (checks c)) (dedup_first [] msgs) [].

  Lemma beacon_verify_eq c msgs :
    beacon_verify verify c msgs = upsert (f_self c) (f_selfsig c) (bfold c msgs).
  Proof.
    unfold beacon_verify, bfold. f_equal. apply fold_left_ext. apply beacon_step_gstep.
  Qed.
  Lemma first_verify_eq c msgs :
    first_verify verify c msgs = upsert (f_self c) (f_selfsig c) (ffold c msgs).
  Proof.
    unfold first_verify, ffold. f_equal. apply fold_left_ext. apply first_step_gstep.
  Qed.

  Lemma sorted_nil : sorted [].
  Proof. unfold sorted. cbn. constructor. Qed.

  Lemma bfold_sorted c msgs : sorted (bfold c msgs).
  Proof. apply gfold_sorted, sorted_nil. Qed.
  Lemma ffold_sorted c msgs : sorted (ffold c msgs).
  Proof. apply gfold_sorted, sorted_nil. Qed.

  (* membership in the final map, for another member *)
  Lemma In_final c F i s : sorted F -> i <> f_self c ->
    (In (i, s) (upsert (f_self c) (f_selfsig c) F) <-> lookup i F = Some s).
  Proof.
    intros Hs Hi. rewrite In_lookup by now apply upsert_sorted.
    rewrite lookup_upsert. destruct (N.eqb_spec i (f_self c)); [contradiction|tauto].
  Qed.

  Lemma beacon_exact c msgs i s : i <> f_self c ->
    (In (i, s) (beacon_verify verify c msgs) <->
     exists r, from i msgs = [r] /\ r_sig r = s /\ r_hash r = f_hash c /\
               verify (r_hash r) (r_sig r) (r_pubkey r) = true).
  Proof.
    intros Hi. rewrite beacon_verify_eq, In_final by (try apply bfold_sorted; assumption).
    unfold bfold. split.
    - intros Hl. apply gfold_lookup_some in Hl. destruct Hl as [r [Hin [Hri [Hp Hs]]]].
      unfold bpass, checks in Hp. rewrite !andb_true_iff, !negb_true_iff in Hp.
      destruct Hp as [[_ Hd] [Hh Hv]]. apply N.eqb_eq in Hh.
      exists r. repeat split; try assumption.
      apply from_single; try assumption.
      unfold duplicated in Hd. rewrite Hri in Hd. apply Nat.leb_gt in Hd. exact Hd.
    - intros [r [Hf [Hs [Hh Hv]]]].
      assert (Hr : In r msgs /\ r_idx r = i).
      { apply from_In. rewrite Hf. now left. }
      destruct Hr as [Hin Hri].
      assert (Huniq : forall x, In x msgs -> r_idx x = i -> x = r).
      { intros x Hx Hxi. assert (Hx' : In x (from i msgs)) by (apply from_In; tauto).
        rewrite Hf in Hx'. destruct Hx' as [Hx'|[]]. now symmetry. }
      apply gfold_lookup_intro.
      + intros x Hx Hxi _. rewrite (Huniq x Hx Hxi). exact Hs.
      + exists r. repeat split; try assumption.
        unfold bpass, checks. rewrite !andb_true_iff, !negb_true_iff. repeat split.
        * apply N.eqb_neq. congruence.
        * unfold duplicated. rewrite Hri, Hf. reflexivity.
        * now apply N.eqb_eq.
        * exact Hv.
  Qed.

  Lemma first_exact c msgs i s : i <> f_self c ->
    (In (i, s) (first_verify verify c msgs) <->
     exists r, hd_error (from i msgs) = Some r /\ r_sig r = s /\ r_hash r = f_hash c /\
               verify (r_hash r) (r_sig r) (r_pubkey r) = true).
  Proof.
    intros Hi. rewrite first_verify_eq, In_final by (try apply ffold_sorted; assumption).
    unfold ffold.
    assert (Hd : from i (dedup_first [] msgs) = match from i msgs with [] => [] | r :: _ => [r] end).
    { rewrite from_dedup. reflexivity. }
    split.
    - intros Hl. apply gfold_lookup_some in Hl. destruct Hl as [r [Hin [Hri [Hp Hs]]]].
      unfold checks in Hp. rewrite andb_true_iff in Hp. destruct Hp as [Hh Hv].
      apply N.eqb_eq in Hh.
      assert (Hr : In r (from i (dedup_first [] msgs))) by (apply from_In; tauto).
      rewrite Hd in Hr. destruct (from i msgs) as [|r0 t]; [destruct Hr|].
      destruct Hr as [Hr|[]]. subst r0. exists r. cbn. repeat split; assumption.
    - intros [r [Hhd [Hs [Hh Hv]]]].
      destruct (from i msgs) as [|r0 t] eqn:Hf; [discriminate|]. cbn in Hhd.
      injection Hhd as Hhd. subst r0.
      assert (Huniq : forall x, In x (dedup_first [] msgs) -> r_idx x = i -> x = r).
      { intros x Hx Hxi. assert (Hx' : In x (from i (dedup_first [] msgs))) by (apply from_In; tauto).
        rewrite Hd in Hx'. destruct Hx' as [Hx'|[]]. now symmetry. }
      assert (Hrd : In r (dedup_first [] msgs) /\ r_idx r = i).
      { apply from_In. rewrite Hd. now left. }
      apply gfold_lookup_intro.
      + intros x Hx Hxi _. rewrite (Huniq x Hx Hxi). exact Hs.
      + exists r. destruct Hrd as [Hrd Hri]. repeat split; try assumption.
        unfold checks. rewrite andb_true_iff. split; [now apply N.eqb_eq | exact Hv].
  Qed.

  Lemma beacon_support_exact c raws i s : i <> f_self c ->
    (In (i, s) (support addr_of verify Beacon c raws) <->
     exists r, from i (history addr_of c raws) = [r] /\ r_sig r = s /\
               r_hash r = f_hash c /\ verify (r_hash r) (r_sig r) (r_pubkey r) = true).
  Proof. intros Hi. cbn [support]. now apply beacon_exact. Qed.

  Lemma first_support_exact p c raws i s : p <> Beacon -> i <> f_self c ->
    (In (i, s) (support addr_of verify p c raws) <->
     exists r, hd_error (from i (history addr_of c raws)) = Some r /\ r_sig r = s /\
               r_hash r = f_hash c /\ verify (r_hash r) (r_sig r) (r_pubkey r) = true).
  Proof.
    intros Hp Hi. destruct p; [contradiction| |]; cbn [support]; now apply first_exact.
  Qed.

  (* what admission guarantees *)
  Lemma admitted_facts c r :
    (length (f_ops c) <= 255)%nat -> r_idx r < 256 ->
    admitted addr_of c r = true ->
    r_idx r <> f_self c /\ r_pubkey r = r_key r /\ r_session r = f_session c /\
    holds_index (f_ops c) (r_idx r) (addr_of (r_key r)) /\
    is_operating (f_grp c) (r_idx r) = true.
  Proof.
    intros Hlen Hidx Ha. unfold admitted in Ha. rewrite !andb_true_iff in Ha.
    destruct Ha as [[Hs Hk] Hse]. apply should_accept_true in Hs.
    destruct Hs as [Hself [Hv Hop]]. apply N.eqb_eq in Hk, Hse.
    repeat split; try assumption; try congruence.
    - apply (valid_membership_holds_index addr_of) in Hv; try assumption. apply Hv.
    - apply (valid_membership_holds_index addr_of) in Hv; try assumption. apply Hv.
  Qed.

  Lemma justified_of_history c raws r :
    (length (f_ops c) <= 255)%nat -> (forall x, In x raws -> r_idx x < 256) ->
    In r (history addr_of c raws) -> r_hash r = f_hash c ->
    verify (r_hash r) (r_sig r) (r_pubkey r) = true ->
    justified c raws (r_idx r) (r_sig r).
  Proof.
    intros Hlen Hidx Hin Hh Hv. unfold history in Hin. apply filter_In in Hin.
    destruct Hin as [Hin Ha].
    destruct (admitted_facts c r Hlen (Hidx r Hin) Ha) as [_ [Hk [Hse [Hhold Hop]]]].
    exists r. repeat split; try assumption; try apply Hhold. now rewrite <- Hk.
  Qed.

  Lemma support_sorted p c raws : sorted (support addr_of verify p c raws).
  Proof.
    destruct p; cbn [support]; rewrite ?beacon_verify_eq, ?first_verify_eq;
      apply upsert_sorted; try apply bfold_sorted; apply ffold_sorted.
  Qed.

  Lemma support_self p c raws :
    lookup (f_self c) (support addr_of verify p c raws) = Some (f_selfsig c).
  Proof.
    destruct p; cbn [support]; rewrite ?beacon_verify_eq, ?first_verify_eq;
      rewrite lookup_upsert, N.eqb_refl; reflexivity.
  Qed.

  Lemma support_justified p c raws i s :
    (length (f_ops c) <= 255)%nat -> (forall r, In r raws -> r_idx r < 256) ->
    In (i, s) (support addr_of verify p c raws) -> i <> f_self c -> justified c raws i s.
  Proof.
    intros Hlen Hidx Hin Hi.
    assert (Hex : exists r, In r (history addr_of c raws) /\ r_idx r = i /\ r_sig r = s /\
                            r_hash r = f_hash c /\ verify (r_hash r) (r_sig r) (r_pubkey r) = true).
    { destruct p.
      - apply beacon_support_exact in Hin; [|assumption].
        destruct Hin as [r [Hf [Hs [Hh Hv]]]]. exists r.
        assert (Hr : In r (history addr_of c raws) /\ r_idx r = i)
          by (apply from_In; rewrite Hf; now left).
        tauto.
      - apply first_support_exact in Hin; [|discriminate|assumption].
        destruct Hin as [r [Hf [Hs [Hh Hv]]]]. exists r.
        destruct (from i (history addr_of c raws)) as [|r0 t] eqn:He; [discriminate|].
        cbn in Hf. injection Hf as Hf. subst r0.
        assert (Hr : In r (history addr_of c raws) /\ r_idx r = i)
          by (apply from_In; rewrite He; now left).
        tauto.
      - apply first_support_exact in Hin; [|discriminate|assumption].
        destruct Hin as [r [Hf [Hs [Hh Hv]]]]. exists r.
        destruct (from i (history addr_of c raws)) as [|r0 t] eqn:He; [discriminate|].
        cbn in Hf. injection Hf as Hf. subst r0.
        assert (Hr : In r (history addr_of c raws) /\ r_idx r = i)
          by (apply from_In; rewrite He; now left).
        tauto. }
    destruct Hex as [r [Hr [Hri [Hs [Hh Hv]]]]]. subst i s.
    now apply justified_of_history.
  Qed.

  Lemma support_sound p c raws :
    (length (f_ops c) <= 255)%nat ->
    (forall r, In r raws -> r_idx r < 256) ->
    let sigs := support addr_of verify p c raws in
    lookup (f_self c) sigs = Some (f_selfsig c) /\
    StronglySorted N.lt (map fst sigs) /\
    forall i s, In (i, s) sigs -> i <> f_self c -> justified c raws i s.
  Proof.
    intros Hlen Hidx sigs. split; [apply support_self|]. split; [apply support_sorted|].
    intros i s. now apply support_justified.
  Qed.

  Lemma option_ext (a b : option N) : (forall s, a = Some s <-> b = Some s) -> a = b.
  Proof.
    intros H. destruct a as [x|]; destruct b as [y|]; try reflexivity.
    - symmetry. now apply H.
    - symmetry. now apply H.
    - now apply H.
  Qed.

  Lemma beacon_order_irrelevant c raws raws' :
    Permutation raws raws' ->
    support addr_of verify Beacon c raws = support addr_of verify Beacon c raws'.
  Proof.
    intros Hp. apply sorted_ext; try apply support_sorted.
    intros i. destruct (N.eq_dec i (f_self c)) as [He|Hne].
    - subst i. now rewrite !support_self.
    - apply option_ext. intros s.
      rewrite <- !In_lookup by apply support_sorted.
      rewrite !beacon_support_exact by assumption.
      assert (Hperm : forall a b, Permutation a b ->
                Permutation (from i (history addr_of c a)) (from i (history addr_of c b))).
      { intros a b Hab. unfold from, history. now apply filter_perm, filter_perm. }
      split; intros [r [Hf Hrest]]; exists r; (split; [|exact Hrest]).
      + apply Permutation_length_1_inv. rewrite <- Hf. apply Hperm. exact Hp.
      + apply Permutation_length_1_inv. rewrite <- Hf. apply Hperm. now apply Permutation_sym.
  Qed.

  Lemma submit_only_if_threshold p pa c raws env_ok :
    (length (f_ops c) <= 255)%nat ->
    (forall r, In r raws -> r_idx r < 256) ->
    submits p pa (support addr_of verify p c raws) env_ok = true ->
    exists members : list N,
      NoDup members /\
      (threshold p pa <= Z.of_nat (length members))%Z /\
      forall i, In i members ->
        i = f_self c \/ exists s, justified c raws i s.
  Proof.
    intros Hlen Hidx Hsub. unfold submits, gate in Hsub.
    rewrite andb_true_iff, negb_true_iff in Hsub. destruct Hsub as [Hg _].
    apply Z.ltb_ge in Hg. unfold count in Hg.
    exists (map fst (support addr_of verify p c raws)). split; [|split].
    - apply sorted_NoDup. apply support_sorted.
    - now rewrite map_length.
    - intros i Hin. apply in_map_iff in Hin. destruct Hin as [[i' s] [Hfst Hin]].
      cbn in Hfst. subst i'. destruct (N.eq_dec i (f_self c)) as [He|Hne]; [now left|].
      right. exists s. now apply support_justified with (p := p).
  Qed.

  (* ---------- executable form ---------- *)
  Lemma justifies_b_true c i s r :
    justifies_b addr_of verify c i s r = true <->
    r_idx r = i /\ r_sig r = s /\ r_hash r = f_hash c /\ r_pubkey r = r_key r /\
    r_session r = f_session c /\ holds_index (f_ops c) i (addr_of (r_key r)) /\
    is_operating (f_grp c) i = true /\ verify (r_hash r) (r_sig r) (r_key r) = true.
  Proof.
    unfold justifies_b. rewrite !andb_true_iff, !N.eqb_eq, holds_index_b_true. tauto.
  Qed.

  Lemma support_ok_sound c raws sigs :
    support_ok_b addr_of verify c raws sigs = true ->
    lookup (f_self c) sigs = Some (f_selfsig c) /\
    StronglySorted N.lt (map fst sigs) /\
    forall i s, In (i, s) sigs -> i <> f_self c -> justified c raws i s.
  Proof.
    unfold support_ok_b. rewrite !andb_true_iff. intros [[Hk Hl] Hf].
    split; [|split].
    - destruct (lookup (f_self c) sigs) as [x|]; [|discriminate].
      apply N.eqb_eq in Hl. now subst.
    - now apply keys_increasing_sorted.
    - intros i s Hin Hi. rewrite forallb_forall in Hf. specialize (Hf (i, s) Hin).
      cbn [fst snd] in Hf. apply orb_true_iff in Hf. destruct Hf as [Hf|Hf].
      + apply N.eqb_eq in Hf. contradiction.
      + apply existsb_exists in Hf. destruct Hf as [r [Hr Hj]].
        apply justifies_b_true in Hj. exists r. tauto.
  Qed.

  Lemma support_ok_complete c raws sigs :
    lookup (f_self c) sigs = Some (f_selfsig c) ->
    sorted sigs ->
    (forall i s, In (i, s) sigs -> i <> f_self c -> justified c raws i s) ->
    support_ok_b addr_of verify c raws sigs = true.
  Proof.
    intros Hl Hs Hj. unfold support_ok_b. rewrite !andb_true_iff. split; [split|].
    - now apply keys_increasing_sorted.
    - rewrite Hl. apply N.eqb_refl.
    - apply forallb_forall. intros [i s] Hin. cbn [fst snd].
      destruct (N.eqb_spec i (f_self c)) as [He|Hne]; [reflexivity|]. cbn [orb].
      destruct (Hj i s Hin Hne) as [r [Hr Hrest]].
      apply existsb_exists. exists r. split; [exact Hr|].
      apply justifies_b_true. tauto.
  Qed.
End WithOracles.

Lemma submit_ok_sound p pa sigs l :
  submit_ok_b p pa sigs (Some l) = true -> l = sigs /\ (threshold p pa <= count sigs)%Z.
Proof.
  unfold submit_ok_b. rewrite andb_true_iff. intros [He Ht].
  apply sigmap_eqb_eq in He. subst l. split; [reflexivity | now apply Z.leb_le].
Qed.

Lemma submit_iff_threshold p pa sigs env_ok :
  submits p pa sigs env_ok = true <-> ((threshold p pa <= count sigs)%Z /\ env_ok = true).
Proof.
  unfold submits, gate. rewrite andb_true_iff, negb_true_iff, Z.ltb_ge. tauto.
Qed.

Lemma beacon_threshold_value pa : (0 <= p_honest pa <= p_gsize pa)%Z ->
  threshold Beacon pa = (p_honest pa + (p_gsize pa - p_honest pa) / 2)%Z /\
  (p_honest pa <= threshold Beacon pa <= p_gsize pa)%Z.
Proof.
  intros H. cbn [threshold]. unfold beacon_threshold.
  rewrite Z.quot_div_nonneg by lia.
  split; [reflexivity|].
  assert (0 <= (p_gsize pa - p_honest pa) / 2 <= p_gsize pa - p_honest pa)%Z.
  { split; [apply Z.div_pos; lia | apply Z.div_le_upper_bound; lia]. }
  lia.
Qed.

Lemma model_outputs_pass_spec addr_of verify p pa c raws env_ok :
  (length (f_ops c) <= 255)%nat ->
  (forall r, In r raws -> r_idx r < 256) ->
  let sigs := support addr_of verify p c raws in
  support_ok_b addr_of verify c raws sigs = true /\
  submit_ok_b p pa sigs (if submits p pa sigs env_ok then Some sigs else None) = true.
Proof.
  intros Hlen Hidx sigs. split.
  - apply support_ok_complete.
    + apply support_self.
    + apply support_sorted.
    + intros i s. now apply support_justified.
  - destruct (submits p pa sigs env_ok) eqn:Hs; [|reflexivity].
    unfold submit_ok_b. rewrite andb_true_iff. split; [now apply sigmap_eqb_eq|].
    unfold submits, gate in Hs. rewrite andb_true_iff, negb_true_iff in Hs.
    destruct Hs as [Hg _]. apply Z.ltb_ge in Hg. now apply Z.leb_le.
Qed.

(* hypotheses are satisfiable and the two per-sender rules differ: member 3 sends two admitted
   messages (the second with a foreign hash): beacon drops member 3, tecdsa keeps its first one;
   member 4's signature is invalid, member 5 signs with a key that is not its network key *)
Example support_example :
  let c := {| f_self := 1; f_ops := [1; 2; 2; 3; 4]; f_grp := {| g_size := 5; g_ia := []; g_dq := [] |};
              f_session := 7; f_hash := 9; f_selfsig := 2 * (4096 * 1 + 9) + 1 |} in
  let sg k h ok := 2 * (4096 * k + h) + ok in
  let raws := [ {| r_idx := 2; r_key := 2; r_pubkey := 2; r_hash := 9; r_sig := sg 2 9 1; r_session := 7 |};
                {| r_idx := 3; r_key := 2; r_pubkey := 2; r_hash := 9; r_sig := sg 2 9 1; r_session := 7 |};
                {| r_idx := 3; r_key := 2; r_pubkey := 2; r_hash := 8; r_sig := sg 2 8 1; r_session := 7 |};
                {| r_idx := 4; r_key := 3; r_pubkey := 3; r_hash := 9; r_sig := sg 3 9 0; r_session := 7 |};
                {| r_idx := 5; r_key := 4; r_pubkey := 3; r_hash := 9; r_sig := sg 3 9 1; r_session := 7 |};
                {| r_idx := 4; r_key := 2; r_pubkey := 2; r_hash := 9; r_sig := sg 2 9 1; r_session := 7 |} ] in
  support (fun k => k) stub_verify Beacon c raws = [(1, sg 1 9 1); (2, sg 2 9 1)] /\
  support (fun k => k) stub_verify Tecdsa c raws = [(1, sg 1 9 1); (2, sg 2 9 1); (3, sg 2 9 1)].
Proof. vm_compute. split; reflexivity. Qed.

(* the gate: the same five-seat group with H = 3 (beacon threshold 3 + (5-3)/2 = 4, quorum 4):
   with members 2, 3, 4 supporting the set has 4 entries and every protocol submits; with member
   4's signature invalid it has 3 entries: beacon and tecdsa (threshold 4) do not submit, the
   inactivity claim (honest threshold 3) does *)
Example submit_example :
  let c := {| f_self := 1; f_ops := [1; 2; 2; 3; 4]; f_grp := {| g_size := 5; g_ia := []; g_dq := [] |};
              f_session := 7; f_hash := 9; f_selfsig := 2 * (4096 * 1 + 9) + 1 |} in
  let pa := {| p_gsize := 5; p_honest := 3; p_quorum := 4 |} in
  let sg k h ok := 2 * (4096 * k + h) + ok in
  let m i k ok := {| r_idx := i; r_key := k; r_pubkey := k; r_hash := 9; r_sig := sg k 9 ok; r_session := 7 |} in
  let full := [m 2 2 1; m 3 2 1; m 4 3 1] in
  let short := [m 2 2 1; m 3 2 1; m 4 3 0] in
  let sub p raws := submits p pa (support (fun k => k) stub_verify p c raws) true in
  (sub Beacon full, sub Tecdsa full, sub Inactivity full) = (true, true, true) /\
  (sub Beacon short, sub Tecdsa short, sub Inactivity short) = (false, false, true) /\
  threshold Beacon pa = 4%Z.
Proof. vm_compute. repeat split; reflexivity. Qed.
