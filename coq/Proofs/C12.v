(* C12 — lemmas about the admission model (Model/C12.v). *)
From Coq Require Import ZArith NArith List Bool Lia.
Require Import ZifyBool ZifyNat ZifyN.
From KV Require Import Common.Verdict Model.C12.
Import ListNotations.
Open Scope N_scope.

Ltac Zify.zify_post_hook ::= Z.div_mod_to_equations.

(* ---------- generic ---------- *)
Lemma memN_In x l : memN x l = true <-> In x l.
Proof.
  unfold memN. rewrite existsb_exists. split.
  - intros [y [Hin Heq]]. apply N.eqb_eq in Heq. now subst.
  - intros Hin. exists x. split; [assumption | apply N.eqb_refl].
Qed.

Lemma positions_from_spec a ops : forall k p,
  In p (positions_from a ops k) <->
  exists j : nat, p = k + N.of_nat j /\ nth_error ops j = Some a.
Proof.
  induction ops as [|o t IH]; intros k p; cbn [positions_from].
  - split; [intros [] | intros [j [_ Hn]]; destruct j; discriminate].
  - destruct (N.eqb_spec o a) as [Heq|Hne].
    + cbn [In]. rewrite IH. split.
      * intros [Hp | [j [Hp Hn]]].
        -- exists 0%nat. split; [lia | cbn; now subst].
        -- exists (S j). split; [lia | exact Hn].
      * intros [[|j] [Hp Hn]].
        -- left. lia.
        -- right. exists j. split; [lia | exact Hn].
    + rewrite IH. split.
      * intros [j [Hp Hn]]. exists (S j). split; [lia | exact Hn].
      * intros [[|j] [Hp Hn]].
        -- cbn in Hn. congruence.
        -- exists j. split; [lia | exact Hn].
Qed.

Lemma positions_spec a ops p :
  In p (positions a ops) <-> exists j : nat, p = N.of_nat j /\ nth_error ops j = Some a.
Proof. unfold positions. rewrite positions_from_spec. now setoid_rewrite N.add_0_l. Qed.

Lemma positions_from_sorted a ops : forall k p q t,
  positions_from a ops k = p :: t -> In q t -> p < q.
Proof.
  induction ops as [|o r IH]; intros k p q t; cbn [positions_from]; [discriminate|].
  destruct (N.eqb_spec o a) as [Heq|Hne].
  - intros Hc Hq. injection Hc as Hp Ht. subst p t.
    apply positions_from_spec in Hq. destruct Hq as [j [Hq _]]. lia.
  - apply IH.
Qed.

Lemma positions_from_ge a ops : forall k p, In p (positions_from a ops k) -> k <= p.
Proof. intros k p H. apply positions_from_spec in H. destruct H as [j [H _]]. lia. Qed.

(* ---------- the members map of NewMembershipValidator ---------- *)
Definition members_list (a : N) (m : members) : list N :=
  match members_get a m with Some ps => ps | None => [] end.

Lemma members_append_list a b p m :
  members_list a (members_append b p m) =
  if b =? a then members_list a m ++ [p] else members_list a m.
Proof.
  unfold members_list. induction m as [|[c ps] t IH]; cbn [members_append members_get].
  - destruct (b =? a); reflexivity.
  - destruct (N.eqb_spec c b) as [Hcb|Hcb]; cbn [members_get].
    + subst c. destruct (b =? a); reflexivity.
    + destruct (N.eqb_spec c a) as [Hca|Hca].
      * subst c. apply N.eqb_neq in Hcb. rewrite N.eqb_sym in Hcb. rewrite Hcb. reflexivity.
      * exact IH.
Qed.

Lemma members_from_list a ops : forall i m,
  members_list a (members_from ops i m) = members_list a m ++ positions_from a ops i.
Proof.
  induction ops as [|o t IH]; intros i m; cbn [members_from positions_from].
  - now rewrite app_nil_r.
  - rewrite IH, members_append_list. destruct (o =? a); [now rewrite <- app_assoc | reflexivity].
Qed.

(* the map holds, for every address, exactly the positions of its seats, in seat order *)
Lemma new_validator_list a ops : members_list a (new_validator ops) = positions a ops.
Proof. unfold new_validator, positions. now rewrite members_from_list. Qed.

Section WithOracle.
  Variable addr_of : N -> N.

  Lemma existsb_eqb_In x l : existsb (N.eqb x) l = true <-> In x l.
  Proof. exact (memN_In x l). Qed.

  (* IsValidMembership says exactly: the seat at position uint8(idx-1) belongs to the sender *)
  Lemma valid_membership_exact ops idx key :
    valid_membership addr_of ops idx key = true <->
    nth_error ops (N.to_nat (wrap_pred idx)) = Some (addr_of key).
  Proof.
    unfold valid_membership.
    assert (Hex : existsb (N.eqb (wrap_pred idx)) (positions (addr_of key) ops) = true <->
                  nth_error ops (N.to_nat (wrap_pred idx)) = Some (addr_of key)).
    { rewrite existsb_eqb_In, positions_spec. split.
      - intros [j [Hp Hn]]. rewrite Hp, Nat2N.id. exact Hn.
      - intros Hn. exists (N.to_nat (wrap_pred idx)). split; [now rewrite N2Nat.id | exact Hn]. }
    destruct (positions (addr_of key) ops) as [|p t] eqn:Hpos.
    - cbn in Hex. rewrite <- Hex. split; discriminate.
    - exact Hex.
  Qed.

  Lemma holds_index_iff_wrap ops idx a :
    (length ops <= 255)%nat -> idx < 256 ->
    (nth_error ops (N.to_nat (wrap_pred idx)) = Some a <-> holds_index ops idx a).
  Proof.
    intros Hlen Hidx. unfold holds_index, wrap_pred. split.
    - intros Hn.
      assert (Hlt : (N.to_nat ((idx + 255) mod 256) < length ops)%nat).
      { apply nth_error_Some. congruence. }
      assert (Hpos : 1 <= idx) by lia.
      split; [exact Hpos|].
      replace (idx - 1) with ((idx + 255) mod 256) by lia. exact Hn.
    - intros [Hpos Hn].
      replace ((idx + 255) mod 256) with (idx - 1) by lia. exact Hn.
  Qed.

  Lemma valid_membership_holds_index ops idx key :
    (length ops <= 255)%nat -> idx < 256 ->
    (valid_membership addr_of ops idx key = true <-> holds_index ops idx (addr_of key)).
  Proof.
    intros Hlen Hidx. rewrite valid_membership_exact. now apply holds_index_iff_wrap.
  Qed.

  Lemma index0_never_valid ops key :
    (length ops <= 255)%nat -> valid_membership addr_of ops 0 key = false.
  Proof.
    intros Hlen. destruct (valid_membership addr_of ops 0 key) eqn:Hv; [|reflexivity].
    apply valid_membership_holds_index in Hv; [|assumption|lia].
    destruct Hv as [Hpos _]. lia.
  Qed.

  (* index above the group size is never valid either *)
  Lemma index_above_size_never_valid ops idx key :
    (length ops <= 255)%nat -> idx < 256 -> N.of_nat (length ops) < idx ->
    valid_membership addr_of ops idx key = false.
  Proof.
    intros Hlen Hidx Hgt. destruct (valid_membership addr_of ops idx key) eqn:Hv; [|reflexivity].
    apply valid_membership_holds_index in Hv; [|assumption|assumption].
    destruct Hv as [Hpos Hn].
    assert (Hlt : (N.to_nat (idx - 1) < length ops)%nat) by (apply nth_error_Some; congruence).
    lia.
  Qed.

  Lemma should_accept_true self g ops idx key :
    should_accept addr_of self g ops idx key = true <->
    idx <> self /\ valid_membership addr_of ops idx key = true /\ is_operating g idx = true.
  Proof.
    unfold should_accept. rewrite !andb_true_iff, negb_true_iff, N.eqb_neq. tauto.
  Qed.

  (* every branch of [admission] that acts on the message has passed IsValidMembership *)
  Lemma acted_valid s x m :
    acted (admission addr_of s x m) = true ->
    valid_membership addr_of (x_ops x) (m_idx m) (m_key m) = true.
  Proof.
    unfold admission.
    destruct (kind_of s); destruct (m_pay m); cbn [acted]; try discriminate.
    - destruct (should_accept addr_of (self1 x) (x_grp x) (x_ops x) (m_idx m) (m_key m)) eqn:Hs;
        cbn [andb]; [|discriminate].
      intros _. now apply should_accept_true in Hs.
    - destruct (should_accept addr_of (self1 x) (x_grp x) (x_ops x) (m_idx m) (m_key m)) eqn:Hs;
        cbn [andb]; [|discriminate].
      intros _. now apply should_accept_true in Hs.
    - destruct (m_idx m =? self1 x); [discriminate|].
      destruct (valid_membership addr_of (x_ops x) (m_idx m) (m_key m)); [reflexivity|discriminate].
    - destruct (leader_id x); [|discriminate].
      destruct (memN (m_idx m) (x_self x)); [discriminate|].
      destruct (valid_membership addr_of (x_ops x) (m_idx m) (m_key m)); [reflexivity|discriminate].
    - destruct (memN (m_idx m) (x_done x)); [discriminate|].
      destruct (memN (m_idx m) (x_attempt x)); [|discriminate]. cbn [negb].
      destruct (valid_membership addr_of (x_ops x) (m_idx m) (m_key m)); [reflexivity|discriminate].
  Qed.

  Lemma admitted_implies_holds_index s x m :
    (length (x_ops x) <= 255)%nat -> m_idx m < 256 ->
    acted (admission addr_of s x m) = true ->
    holds_index (x_ops x) (m_idx m) (addr_of (m_key m)).
  Proof.
    intros Hlen Hidx Ha. apply valid_membership_holds_index; try assumption.
    now apply acted_valid with (s := s).
  Qed.

  (* for group sizes above 255 (not used by keep-core) the statement that survives *)
  Lemma admitted_implies_seat_wrapped s x m :
    acted (admission addr_of s x m) = true ->
    nth_error (x_ops x) (N.to_nat (wrap_pred (m_idx m))) = Some (addr_of (m_key m)).
  Proof. intros Ha. apply valid_membership_exact. now apply acted_valid with (s := s). Qed.

  Lemma ignored_self s x m :
    documents_self s = true ->
    match kind_of s with
    | KFollower => In (m_idx m) (x_self x)
    | _ => m_idx m = self1 x
    end ->
    acted (admission addr_of s x m) = false.
  Proof.
    unfold documents_self, admission. intros Hdoc Hself.
    destruct (kind_of s) eqn:Hk; destruct (m_pay m); cbn [acted]; try reflexivity;
      try discriminate.
    - unfold should_accept. rewrite Hself, N.eqb_refl. reflexivity.
    - unfold should_accept. rewrite Hself, N.eqb_refl. reflexivity.
    - rewrite Hself, N.eqb_refl. reflexivity.
    - destruct (leader_id x); [|reflexivity].
      apply memN_In in Hself. rewrite Hself. reflexivity.
  Qed.

  Lemma ignored_other_session s x m :
    same_session x m = false -> acted (admission addr_of s x m) = false.
  Proof.
    unfold same_session, admission. intros Hs.
    destruct (kind_of s); destruct (m_pay m); cbn [acted]; try reflexivity.
    - rewrite Hs, andb_false_r. reflexivity.
    - rewrite Hs, andb_false_r. reflexivity.
    - apply andb_false_iff in Hs.
      destruct (m_idx m =? self1 x); [reflexivity|].
      destruct (valid_membership addr_of (x_ops x) (m_idx m) (m_key m)); [|reflexivity].
      cbn [negb]. destruct Hs as [Hs|Hs]; rewrite Hs; cbn [negb]; [reflexivity|].
      destruct (protocol =? x_protocol x); reflexivity.
    - apply andb_false_iff in Hs.
      destruct (leader_id x); [|reflexivity].
      destruct (memN (m_idx m) (x_self x)); [reflexivity|].
      destruct (valid_membership addr_of (x_ops x) (m_idx m) (m_key m)); [|reflexivity].
      cbn [negb]. destruct Hs as [Hs|Hs]; rewrite Hs; cbn [negb]; [reflexivity|].
      destruct (x_session x =? block); reflexivity.
    - apply andb_false_iff in Hs.
      destruct (memN (m_idx m) (x_done x)); [reflexivity|].
      destruct (memN (m_idx m) (x_attempt x)); [|reflexivity]. cbn [negb].
      destruct (valid_membership addr_of (x_ops x) (m_idx m) (m_key m)); [|reflexivity].
      cbn [negb]. destruct Hs as [Hs|Hs]; rewrite Hs; cbn [negb]; [reflexivity|].
      destruct (message =? x_protocol x); reflexivity.
  Qed.

  Lemma ignored_excluded s x m :
    excluded_at s x (m_idx m) = true ->
    acted (admission addr_of s x m) = false.
  Proof.
    unfold excluded_at, admission. intros Hex.
    destruct (kind_of s); try discriminate; destruct (m_pay m); cbn [acted]; try reflexivity.
    - apply negb_true_iff in Hex. unfold should_accept. rewrite Hex, andb_false_r. reflexivity.
    - apply negb_true_iff in Hex. unfold should_accept. rewrite Hex, andb_false_r. reflexivity.
    - rewrite Hex. destruct (memN (m_idx m) (x_done x)); reflexivity.
  Qed.

  Lemma ignored_excluded_prop s x m :
    match kind_of s with
    | KPlain | KKeyed => is_operating (x_grp x) (m_idx m) = false
    | KDone => ~ In (m_idx m) (x_attempt x)
    | KAnnounce | KFollower => False
    end ->
    acted (admission addr_of s x m) = false.
  Proof.
    intros H. apply ignored_excluded. unfold excluded_at.
    destruct (kind_of s); try contradiction.
    - now rewrite H.
    - now rewrite H.
    - apply negb_true_iff. destruct (memN (m_idx m) (x_attempt x)) eqn:Hm; [|reflexivity].
      apply memN_In in Hm. contradiction.
  Qed.

  Lemma documents_excluded_exact s x idx :
    documents_excluded s = false -> excluded_at s x idx = false.
  Proof. unfold documents_excluded, excluded_at. destruct (kind_of s); try discriminate; reflexivity. Qed.

  (* exclusion = marked inactive or disqualified, or not a member index at all *)
  Lemma excluded_not_operating g idx :
    In idx (g_ia g) \/ In idx (g_dq g) -> is_operating g idx = false.
  Proof.
    unfold is_operating. intros [H|H]; apply memN_In in H; rewrite H; cbn;
      now rewrite ?andb_false_r.
  Qed.

  (* the done check does NOT ignore the member's own index (it counts the member's own done
     message): the self rule is documented exactly for the other 29 steps *)
  Lemma done_check_counts_self :
    exists x m, In (m_idx m) (x_self x) /\ admission (fun k => k) SigningDoneCheck x m = Stored.
  Proof.
    exists {| x_self := [1]; x_ops := [7; 8]; x_grp := {| g_size := 2; g_ia := []; g_dq := [] |};
              x_session := 3; x_protocol := 9; x_leader := 7; x_allowed := []; x_timeout := 100;
              x_done := []; x_attempt := [1; 2] |}.
    exists {| m_idx := 1; m_key := 7; m_pay := PDone 9 3 50 true |}.
    split; [now left | vm_compute; reflexivity].
  Qed.

  (* ---------- histories ---------- *)
  Lemma after_ops s x m o : x_ops (after s x m o) = x_ops x.
  Proof. unfold after. destruct (kind_of s); destruct o; reflexivity. Qed.

  Lemma run_sound s : forall msgs x m o,
    (length (x_ops x) <= 255)%nat ->
    (forall m', In m' msgs -> m_idx m' < 256) ->
    In (m, o) (run addr_of s x msgs) -> acted o = true ->
    holds_index (x_ops x) (m_idx m) (addr_of (m_key m)).
  Proof.
    induction msgs as [|m0 t IH]; intros x m o Hlen Hidx Hin Hact; cbn [run] in Hin; [destruct Hin|].
    assert (Hhead : (m, o) = (m0, admission addr_of s x m0) ->
                    holds_index (x_ops x) (m_idx m) (addr_of (m_key m))).
    { intros He. injection He as Hm Ho. subst m o.
      apply admitted_implies_holds_index with (s := s); try assumption.
      apply Hidx. now left. }
    assert (Htail : In (m, o) (run addr_of s (after s x m0 (admission addr_of s x m0)) t) ->
                    holds_index (x_ops x) (m_idx m) (addr_of (m_key m))).
    { intros Ht. rewrite <- (after_ops s x m0 (admission addr_of s x m0)).
      apply IH with (o := o); try assumption.
      - now rewrite after_ops.
      - intros m' Hm'. apply Hidx. now right. }
    destruct (admission addr_of s x m0) eqn:Hadm; cbn [In] in Hin;
      try (destruct Hin as [Hin|Hin]; [apply Hhead; now symmetry | now apply Htail]).
  Qed.

  (* ---------- the executable form ---------- *)
  Lemma holds_index_b_true ops idx a : holds_index_b ops idx a = true <-> holds_index ops idx a.
  Proof.
    unfold holds_index_b, holds_index. rewrite andb_true_iff, N.leb_le.
    destruct (nth_error ops (N.to_nat (idx - 1))) as [o|].
    - rewrite N.eqb_eq. split; intros [H1 H2]; split; congruence.
    - split; intros [H1 H2]; discriminate.
  Qed.

  Lemma spec_ok_sound s x m a o :
    spec_ok s x m a o = true -> acted o = true ->
    holds_index (x_ops x) (m_idx m) a /\
    (documents_self s = true -> ~ In (m_idx m) (x_self x)) /\
    same_session x m = true /\
    excluded_at s x (m_idx m) = false.
  Proof.
    unfold spec_ok. intros Hs Ha.
    assert (H : holds_index_b (x_ops x) (m_idx m) a
                && (negb (documents_self s) || negb (memN (m_idx m) (x_self x)))
                && same_session x m
                && negb (excluded_at s x (m_idx m)) = true).
    { destruct o; try exact Hs; discriminate. }
    rewrite !andb_true_iff in H. destruct H as [[[H1 H2] H3] H4].
    split; [|split; [|split]].
    - now apply holds_index_b_true.
    - intros Hd Hin. apply memN_In in Hin. rewrite Hd, Hin in H2. discriminate.
    - exact H3.
    - now apply negb_true_iff.
  Qed.

  Lemma same_session_of_acted s x m :
    acted (admission addr_of s x m) = true -> same_session x m = true.
  Proof.
    intros Ha. destruct (same_session x m) eqn:Hs; [reflexivity|].
    rewrite ignored_other_session in Ha by assumption. discriminate.
  Qed.

  (* own indexes: for the steps other than the follower the receiver has exactly one *)
  Lemma model_outputs_pass_spec s x m :
    (length (x_ops x) <= 255)%nat -> m_idx m < 256 ->
    (kind_of s <> KFollower -> x_self x = [self1 x]) ->
    admission addr_of s x m <> Malformed ->
    spec_ok s x m (addr_of (m_key m)) (admission addr_of s x m) = true.
  Proof.
    intros Hlen Hidx Hself Hnm.
    destruct (acted (admission addr_of s x m)) eqn:Ha.
    2:{ unfold spec_ok. destruct (admission addr_of s x m); try reflexivity; try discriminate.
        now elim Hnm. }
    assert (H1 : holds_index_b (x_ops x) (m_idx m) (addr_of (m_key m)) = true).
    { apply holds_index_b_true. now apply admitted_implies_holds_index with (s := s). }
    assert (H3 : same_session x m = true) by now apply same_session_of_acted with (s := s).
    assert (H2 : negb (documents_self s) || negb (memN (m_idx m) (x_self x)) = true).
    { destruct (documents_self s) eqn:Hd; [|reflexivity]. cbn [negb orb].
      destruct (memN (m_idx m) (x_self x)) eqn:Hm; [|reflexivity].
      apply memN_In in Hm.
      rewrite ignored_self in Ha; [discriminate|assumption|].
      destruct (kind_of s) eqn:Hk; try exact Hm;
        (rewrite Hself in Hm by discriminate; destruct Hm as [Hm|[]]; now symmetry). }
    assert (H4 : negb (excluded_at s x (m_idx m)) = true).
    { destruct (excluded_at s x (m_idx m)) eqn:Ho; [|reflexivity].
      rewrite ignored_excluded in Ha by assumption. discriminate. }
    unfold spec_ok. rewrite H1, H2, H3, H4.
    destruct (admission addr_of s x m); try reflexivity. now elim Hnm.
  Qed.

  (* ---------- the validator has no memory ---------- *)
  (* a call leaves the validator object as it was ... *)
  Lemma validator_call_state mv idx key : fst (validator_call addr_of mv idx key) = mv.
  Proof. reflexivity. Qed.

  (* ... and on the object built by NewMembershipValidator it answers the pure function *)
  Lemma validator_call_pure ops idx key :
    snd (validator_call addr_of (new_validator ops) idx key) = valid_membership addr_of ops idx key.
  Proof.
    unfold validator_call, valid_membership. cbn [snd].
    rewrite <- (new_validator_list (addr_of key) ops). unfold members_list.
    destruct (members_get (addr_of key) (new_validator ops)) as [[|p t]|]; reflexivity.
  Qed.

  (* history independence: the answers of ANY history of calls on one shared validator are the
     map of the pure function over the calls *)
  Lemma validator_history_independent ops : forall calls,
    validator_run addr_of (new_validator ops) calls =
    map (fun c => valid_membership addr_of ops (fst c) (snd c)) calls.
  Proof.
    induction calls as [|[idx key] t IH]; [reflexivity|].
    cbn [validator_run map fst snd].
    pose proof (validator_call_pure ops idx key) as Hp.
    pose proof (validator_call_state (new_validator ops) idx key) as Hs.
    destruct (validator_call addr_of (new_validator ops) idx key) as [mv' b].
    cbn [fst snd] in Hp, Hs. subst mv' b. now rewrite IH.
  Qed.

  (* the same, per call: whatever was validated before and after it (in particular: any
     interleaving of the member goroutines' calls, each call taken as one atomic step) *)
  Lemma validator_answer_independent ops pre post idx key :
    nth_error (validator_run addr_of (new_validator ops) (pre ++ (idx, key) :: post)) (length pre)
    = Some (valid_membership addr_of ops idx key).
  Proof.
    rewrite validator_history_independent, map_app. cbn [map fst snd].
    rewrite nth_error_app2; rewrite map_length; [|lia].
    now rewrite Nat.sub_diag.
  Qed.

  (* no call of any history accepts a foreign index *)
  Lemma validator_history_sound ops calls idx key :
    (length ops <= 255)%nat -> idx < 256 ->
    In ((idx, key), true) (combine calls (validator_run addr_of (new_validator ops) calls)) ->
    holds_index ops idx (addr_of key).
  Proof.
    intros Hlen Hidx Hin. rewrite validator_history_independent in Hin.
    apply valid_membership_holds_index; try assumption.
    revert Hin. induction calls as [|[i k] t IH]; cbn [map combine In fst snd]; [intros []|].
    intros [He|Ht]; [|now apply IH]. injection He as -> -> Hv. exact Hv.
  Qed.

  (* at the steps that keep no state between messages (all but the done check; the follower
     stops at its first proposal) the outcome of a message does not depend on the earlier ones *)
  Lemma run_history_independent s x : 
    kind_of s <> KDone -> kind_of s <> KFollower -> forall msgs,
    run addr_of s x msgs = map (fun m => (m, admission addr_of s x m)) msgs.
  Proof.
    intros Hd Hf. induction msgs as [|m t IH]; [reflexivity|]. cbn [run map].
    assert (Hafter : after s x m (admission addr_of s x m) = x).
    { unfold after. destruct (kind_of s); try reflexivity. now elim Hd. }
    rewrite Hafter, IH.
    destruct (admission addr_of s x m) eqn:Ha; try reflexivity.
    exfalso. unfold admission in Ha.
    destruct (kind_of s); destruct (m_pay m); try discriminate;
      try (now elim Hf);
      repeat match type of Ha with
             | (if ?c then _ else _) = _ => destruct c; try discriminate
             end.
  Qed.
End WithOracle.

(* ---------- the executable history specs ---------- *)
Lemma hist_spec_ok_sound ops tab calls :
  hist_spec_ok ops tab calls = true ->
  forall c, In c calls -> 0 < v_acc c -> holds_index ops (v_idx c) (tab_addr tab (v_key c)).
Proof.
  unfold hist_spec_ok. rewrite forallb_forall. intros H c Hin Hacc.
  specialize (H c Hin). apply orb_true_iff in H. destruct H as [H|H].
  - apply N.eqb_eq in H. lia.
  - now apply holds_index_b_true.
Qed.

(* observations that agree with the model (every single answer is the validator's) pass it *)
Lemma hist_agree_passes_spec ops tab : forall calls,
  (length ops <= 255)%nat ->
  (forall c, In c calls -> v_idx c < 256) ->
  hist_agree (validator_run (tab_addr tab) (new_validator ops)
                            (map (fun c => (v_idx c, v_key c)) calls)) calls = true ->
  hist_spec_ok ops tab calls = true.
Proof.
  intros calls Hlen. rewrite validator_history_independent. unfold hist_spec_ok.
  induction calls as [|c t IH]; intros Hidx Hag; [reflexivity|].
  cbn [map hist_agree fst snd forallb] in *.
  apply andb_true_iff in Hag. destruct Hag as [Hc Ht].
  rewrite IH; [|intros c' Hc'; apply Hidx; now right|exact Ht]. rewrite andb_true_r.
  destruct (valid_membership (tab_addr tab) ops (v_idx c) (v_key c)) eqn:Hv.
  - apply valid_membership_holds_index in Hv; [|assumption|apply Hidx; now left].
    apply holds_index_b_true in Hv. rewrite Hv. apply orb_true_r.
  - rewrite Hc. reflexivity.
Qed.

Lemma run_spec_ok_sound r :
  run_spec_ok r = true ->
  forall m o, In (m, o) (r_msgs r) -> acted o = true ->
  holds_index (x_ops (r_ctx r)) (m_idx m) (tab_addr (r_tab r) (m_key m)) /\
  (documents_self (r_step r) = true -> ~ In (m_idx m) (x_self (r_ctx r))) /\
  same_session (r_ctx r) m = true /\
  excluded_at (r_step r) (r_ctx r) (m_idx m) = false.
Proof.
  unfold run_spec_ok. rewrite forallb_forall. intros H m o Hin Hact.
  specialize (H (m, o) Hin). cbn [fst snd] in H.
  now apply spec_ok_sound with (o := o).
Qed.

(* hypotheses are satisfiable / the object is exercised: one validator of a group with a
   two-seat operator, a history mixing owners, spoofers, an outsider, index 0 *)
Example history_on_one_validator :
  validator_run (fun k => k) (new_validator [10; 20; 20; 30])
                [(1, 10); (1, 20); (2, 20); (3, 20); (1, 20); (4, 99); (0, 30); (1, 10)]
  = [true; false; true; true; false; false; false; true]
  /\ new_validator [10; 20; 20; 30] = [(10, [0]); (20, [1; 2]); (30, [3])].
Proof. vm_compute. split; reflexivity. Qed.

(* hypotheses are satisfiable: an operator holding seats 2 and 3 of a 5-seat group is admitted
   with either of its indexes and with no other *)
Example multi_seat_operator :
  let x := {| x_self := [1]; x_ops := [10; 20; 20; 30; 40];
              x_grp := {| g_size := 5; g_ia := []; g_dq := [4] |};
              x_session := 7; x_protocol := 0; x_leader := 0; x_allowed := []; x_timeout := 0;
              x_done := []; x_attempt := [] |} in
  map (fun i => admission (fun k => k) GjkrEphemeralKey x {| m_idx := i; m_key := 20; m_pay := PPlain 7 |})
      [0; 1; 2; 3; 4; 5; 6; 255]
  = [Ignored; Ignored; Stored; Stored; Ignored; Ignored; Ignored; Ignored]
  /\ admission (fun k => k) GjkrEphemeralKey x {| m_idx := 4; m_key := 30; m_pay := PPlain 7 |} = Ignored
  /\ admission (fun k => k) GjkrEphemeralKey x {| m_idx := 5; m_key := 40; m_pay := PPlain 7 |} = Stored
  /\ admission (fun k => k) GjkrEphemeralKey x {| m_idx := 5; m_key := 40; m_pay := PPlain 8 |} = Ignored.
Proof. vm_compute. repeat split; reflexivity. Qed.

(* ---------- admission after the production result pipeline, on one group object ---------- *)
Lemma pipe_run_group : forall steps g, fst (pipe_run g steps) = g.
Proof.
  induction steps as [|s t IH]; intro g; simpl; [reflexivity|].
  specialize (IH g). destruct (pipe_run g t) as [g2 os]. simpl in *. exact IH.
Qed.

(* history = map: what a read-only step returns depends on the group alone *)
Lemma pipe_run_outputs : forall steps g, snd (pipe_run g steps) = map (fun s => snd (pstep_run s g)) steps.
Proof.
  induction steps as [|s t IH]; intro g; simpl; [reflexivity|].
  specialize (IH g). destruct (pipe_run g t) as [g2 os]. simpl in *. rewrite IH. reflexivity.
Qed.

Lemma memN_app : forall x a b, memN x (a ++ b) = memN x a || memN x b.
Proof. intros. unfold memN. apply existsb_app. Qed.

Lemma apply_mark_monotone : forall g m i, is_operating g i = false -> is_operating (apply_mark g m) i = false.
Proof.
  intros g [d j] i H. unfold apply_mark, mark_disqualified, mark_inactive. simpl.
  destruct d; destruct (is_operating g j); try exact H; unfold is_operating in *; simpl;
  rewrite memN_app; rewrite !andb_false_iff in *; rewrite !negb_false_iff in *;
  destruct H as [[H|H]|H]; auto; [right|left; right]; rewrite H; reflexivity.
Qed.

Lemma apply_mark_excludes : forall g d i, is_operating (apply_mark g (d, i)) i = false.
Proof.
  intros g d i. unfold apply_mark, mark_disqualified, mark_inactive. simpl.
  destruct d; destruct (is_operating g i) eqn:E; try exact E; unfold is_operating; simpl;
  rewrite memN_app; unfold memN at 2 3; simpl; rewrite N.eqb_refl; simpl;
  rewrite ?orb_true_r; simpl; rewrite ?andb_false_r; reflexivity.
Qed.

Lemma marks_exclude : forall marks g i,
  is_operating g i = false \/ In i (map snd marks) ->
  is_operating (fold_left apply_mark marks g) i = false.
Proof.
  induction marks as [|m t IH]; intros g i H; simpl.
  - destruct H as [H|[]]. exact H.
  - apply IH. destruct H as [H|[H|H]].
    + left. apply apply_mark_monotone. exact H.
    + left. destruct m as [d j]. simpl in H. subst j. apply apply_mark_excludes.
    + right. exact H.
Qed.

Lemma marked_member_excluded : forall size marks d i,
  In (d, i) marks -> is_operating (apply_marks size marks) i = false.
Proof.
  intros size marks d i H. unfold apply_marks. apply marks_exclude. right.
  apply in_map_iff. exists (d, i). split; [reflexivity|exact H].
Qed.

(* a member excluded by a mark stays excluded through every read-only pipeline, and its message is
   not acted on by any shouldAcceptMessage step whose group is that object *)
Lemma pipe_excluded_never_admitted : forall (addr_of : N -> N) s x m size marks steps,
  match kind_of s with KPlain | KKeyed => True | _ => False end ->
  x_grp x = fst (pipe_run (apply_marks size marks) steps) ->
  In (m_idx m) (map snd marks) ->
  acted (admission addr_of s x m) = false.
Proof.
  intros addr_of s x m size marks steps Hk Hg Hin. apply ignored_excluded_prop.
  destruct (kind_of s); try contradiction;
  rewrite Hg, pipe_run_group; unfold apply_marks; apply marks_exclude; right; exact Hin.
Qed.

(* soundness of the executable pipeline spec: whatever the state acted on came from a member the
   marks did not exclude, under the key that holds the index *)
Lemma pipe_spec_ok_sound : forall q,
  pipe_well_formed q = true -> pipe_spec_ok q = true ->
  forall m o sn, In (m, o, sn) (q_msgs q) -> acted o = true ->
  holds_index (q_ops q) (m_idx m) (tab_addr (q_tab q) (m_key m)) /\
  m_idx m <> q_self q /\
  is_operating (pipe_grp q) (m_idx m) = true /\
  ~ In (m_idx m) (map snd (q_marks q)).
Proof.
  intros q Hwf Hs m o sn Hin Ha.
  assert (Hin' : In (m, o) (r_msgs (pipe_as_run q))).
  { simpl. apply in_map_iff. exists (m, o, sn). split; [reflexivity|exact Hin]. }
  destruct (run_spec_ok_sound (pipe_as_run q) Hs m o Hin' Ha) as [H1 [H2 [_ H4]]].
  unfold pipe_well_formed in Hwf. apply andb_true_iff in Hwf as [Hk _].
  simpl in *. split; [exact H1|].
  assert (Hop : is_operating (pipe_grp q) (m_idx m) = true).
  { unfold excluded_at in H4. simpl in H4. destruct (kind_of (q_step q)); try discriminate;
    apply negb_false_iff in H4; exact H4. }
  split; [|split; [exact Hop|]].
  - intro E. apply H2; [|left; symmetry; exact E].
    unfold documents_self. destruct (kind_of (q_step q)); try discriminate; reflexivity.
  - intro Hm. unfold pipe_grp, apply_marks in Hop. rewrite marks_exclude in Hop; [discriminate|right; exact Hm].
Qed.

(* the hypotheses are satisfiable: disqualified {2} then inactive {5} on six seats; conversion and
   the operating view leave the group as marked; member 5 is excluded *)
Example ex_pipeline :
  let g := apply_marks 6 [(true, 2); (false, 5)] in
  g = {| g_size := 6; g_ia := [5]; g_dq := [2] |} /\
  pipe_run g [PConvert; POperating; PSign] = (g, [[2; 5]; [1; 3; 4; 6]; []]) /\
  is_operating g 5 = false /\ is_operating g 3 = true.
Proof. vm_compute. repeat split. Qed.
