(* C05 — proofs about the model of the tail of beacon ExecuteDKG (Model/C05.v).
   The statements restated in Props/C05.v are the theorems at the end of this file. *)
From Coq Require Import ZArith NArith List Bool Lia Permutation Sorted.
From Coq Require Import ZifyBool ZifyNat ZifyN.
From KV Require Import Common.Verdict Gen.Consts_C05 Model.C05.
Import ListNotations.
Open Scope Z_scope.

(* ------------------------------------------------------------------ *)
(* boolean equalities                                                  *)
(* ------------------------------------------------------------------ *)
Lemma bytes_eqb_eq (a b : list N) : bytes_eqb a b = true <-> a = b.
Proof.
  revert b; induction a as [|x a IH]; intros [|y b]; cbn [bytes_eqb]; split; intro H;
    try reflexivity; try discriminate.
  - apply andb_prop in H. destruct H as [H1 H2].
    apply N.eqb_eq in H1. apply IH in H2. subst; reflexivity.
  - inversion H; subst. rewrite N.eqb_refl. cbn [andb]. apply IH. reflexivity.
Qed.

Lemma listN_eqb_eq (a b : list N) : listN_eqb a b = true <-> a = b.
Proof.
  revert b; induction a as [|x a IH]; intros [|y b]; cbn [listN_eqb]; split; intro H;
    try reflexivity; try discriminate.
  - apply andb_prop in H. destruct H as [H1 H2].
    apply N.eqb_eq in H1. apply IH in H2. subst; reflexivity.
  - inversion H; subst. rewrite N.eqb_refl. cbn [andb]. apply IH. reflexivity.
Qed.

Lemma memN_In (x : N) (l : list N) : memN x l = true <-> In x l.
Proof.
  unfold memN. rewrite existsb_exists. split.
  - intros (y & Hy & E). apply N.eqb_eq in E. subst. exact Hy.
  - intro H. exists x. split; [exact H|apply N.eqb_refl].
Qed.
Lemma memN_not_In (x : N) (l : list N) : memN x l = false <-> ~ In x l.
Proof.
  split.
  - intros H Hin. apply memN_In in Hin. congruence.
  - intro H. destruct (memN x l) eqn:E; [|reflexivity]. apply memN_In in E. contradiction.
Qed.

(* ------------------------------------------------------------------ *)
(* insertion sort                                                      *)
(* ------------------------------------------------------------------ *)
Lemma insert_perm (x : N) (l : list N) : Permutation (insert x l) (x :: l).
Proof.
  induction l as [|y t IH]; cbn [insert]; [apply Permutation_refl|].
  destruct (x <=? y)%N; [apply Permutation_refl|].
  eapply perm_trans; [apply perm_skip; exact IH|apply perm_swap].
Qed.

Lemma sort_perm (l : list N) : Permutation (sort_ids l) l.
Proof.
  induction l as [|x t IH]; cbn [sort_ids fold_right]; [apply perm_nil|].
  eapply perm_trans; [apply insert_perm|apply perm_skip; exact IH].
Qed.

Lemma insert_sorted (x : N) (l : list N) :
  StronglySorted N.le l -> StronglySorted N.le (insert x l).
Proof.
  induction 1 as [|y t Hs IH Hf]; cbn [insert].
  - constructor; constructor.
  - destruct (N.leb_spec x y) as [Hle|Hgt].
    + constructor; [constructor; assumption|].
      constructor; [exact Hle|].
      eapply Forall_impl; [|exact Hf]. cbn beta. intros z Hz. lia.
    + constructor; [exact IH|].
      eapply Permutation_Forall; [apply Permutation_sym; apply insert_perm|].
      constructor; [lia|exact Hf].
Qed.

Lemma sort_sorted (l : list N) : StronglySorted N.le (sort_ids l).
Proof.
  induction l as [|x t IH]; cbn [sort_ids fold_right]; [constructor|].
  apply insert_sorted. exact IH.
Qed.

Lemma sort_of_sorted (l : list N) : StronglySorted N.le l -> sort_ids l = l.
Proof.
  induction 1 as [|x t Hs IH Hf]; [reflexivity|].
  cbn [sort_ids fold_right]. fold (sort_ids t). rewrite IH.
  destruct t as [|y t']; [reflexivity|].
  cbn [insert]. inversion Hf as [|y' t'' Hxy _]; subst.
  destruct (N.leb_spec x y) as [_|Hgt]; [reflexivity|lia].
Qed.

Lemma StronglySorted_lt_le (l : list N) : StronglySorted N.lt l -> StronglySorted N.le l.
Proof.
  induction 1 as [|x t Hs IH Hf]; constructor; [exact IH|].
  eapply Forall_impl; [|exact Hf]. cbn beta. intros z Hz. lia.
Qed.

Lemma StronglySorted_filter (R : N -> N -> Prop) (f : N -> bool) (l : list N) :
  StronglySorted R l -> StronglySorted R (filter f l).
Proof.
  induction 1 as [|x t Hs IH Hf]; cbn [filter]; [constructor|].
  destruct (f x); [|exact IH].
  constructor; [exact IH|].
  rewrite Forall_forall in *. intros z Hz. apply filter_In in Hz. apply Hf. tauto.
Qed.

(* ------------------------------------------------------------------ *)
(* members                                                             *)
(* ------------------------------------------------------------------ *)
Lemma members_small_aux (n start : nat) :
  (start + n <= 256)%nat ->
  map (fun i => (N.of_nat i mod 256)%N) (seq start n) = map N.of_nat (seq start n).
Proof.
  intro H. apply map_ext_in. intros i Hi. apply in_seq in Hi.
  apply N.mod_small. lia.
Qed.

Lemma members_small (size : nat) :
  (size <= 255)%nat -> members size = map N.of_nat (seq 1 size).
Proof. intro H. unfold members. apply members_small_aux. lia. Qed.

Lemma seq_sorted (n start : nat) : StronglySorted N.lt (map N.of_nat (seq start n)).
Proof.
  revert start; induction n as [|n IH]; intro start; cbn [seq map]; constructor; [apply IH|].
  rewrite Forall_forall. intros z Hz. apply in_map_iff in Hz. destruct Hz as (i & E & Hi).
  apply in_seq in Hi. lia.
Qed.

Lemma members_sorted (size : nat) : (size <= 255)%nat -> StronglySorted N.lt (members size).
Proof. intro H. rewrite members_small by exact H. apply seq_sorted. Qed.

Lemma members_range (size : nat) (m : N) :
  (size <= 255)%nat -> In m (members size) -> (1 <= m /\ m <= N.of_nat size)%N.
Proof.
  intros H Hin. rewrite members_small in Hin by exact H.
  apply in_map_iff in Hin. destruct Hin as (i & E & Hi). apply in_seq in Hi. lia.
Qed.

(* ------------------------------------------------------------------ *)
(* lookups                                                             *)
(* ------------------------------------------------------------------ *)
Lemma index_of_in_range (id : N) :
  (1 <= id)%N -> (id <= 255)%N -> index_of id = (N.to_nat id - 1)%nat.
Proof.
  intros H1 H2. unfold index_of.
  replace (id + 255)%N with ((id - 1) + 1 * 256)%N by lia.
  rewrite N.mod_add by lia. rewrite N.mod_small by lia. lia.
Qed.

Lemma in_range_iff (selected : list N) (id : N) :
  in_range selected id = true <-> (1 <= id /\ id <= 255)%N /\ Z.of_N id <= len selected.
Proof. unfold in_range. lia. Qed.

Lemma lookup_all_in_range (selected : list N) (ids : list N) :
  forallb (in_range selected) ids = true ->
  lookup_all selected ids = Some (pick selected ids).
Proof.
  induction ids as [|id t IH]; intro H; cbn [lookup_all pick map]; [reflexivity|].
  cbn [forallb] in H. apply andb_prop in H. destruct H as [H1 H2].
  apply in_range_iff in H1. destruct H1 as [[Ha Hb] Hc]. unfold len in Hc.
  rewrite index_of_in_range by assumption.
  assert (Hlt : (N.to_nat id - 1 < length selected)%nat) by lia.
  rewrite (nth_error_nth' selected 0%N Hlt).
  fold (pick selected t). rewrite (IH H2). reflexivity.
Qed.

Lemma forallb_perm (f : N -> bool) (l l' : list N) :
  Permutation l l' -> forallb f l = forallb f l'.
Proof.
  induction 1 as [|x l l' _ IH|x y l|l l' l'' _ IH1 _ IH2]; cbn [forallb].
  - reflexivity.
  - rewrite IH. reflexivity.
  - destruct (f x), (f y); reflexivity.
  - congruence.
Qed.

Lemma pick_length (selected ids : list N) : length (pick selected ids) = length ids.
Proof. unfold pick. apply map_length. Qed.

Lemma sort_length (l : list N) : length (sort_ids l) = length l.
Proof. apply Permutation_length. apply sort_perm. Qed.

(* ------------------------------------------------------------------ *)
(* resolve                                                             *)
(* ------------------------------------------------------------------ *)
Lemma sizes_consistent_iff (selected operating : list N) (c : cfg) :
  sizes_consistent selected operating c = true <->
  len selected = group_size c /\ honest_threshold c <= len operating.
Proof. unfold sizes_consistent. lia. Qed.

Lemma resolve_in_range (selected operating : list N) (c : cfg) :
  sizes_consistent selected operating c = true ->
  forallb (in_range selected) operating = true ->
  resolve selected operating c = ROk (pick selected (sort_ids operating)).
Proof.
  intros Hs Hr. unfold resolve. rewrite Hs. cbn [negb].
  rewrite lookup_all_in_range; [reflexivity|].
  rewrite (forallb_perm _ _ _ (sort_perm operating)). exact Hr.
Qed.

Lemma resolve_spec (selected operating : list N) (c : cfg) :
  spec_resolve selected operating c (resolve selected operating c) = true.
Proof.
  destruct (sizes_consistent selected operating c) eqn:Hs.
  - destruct (forallb (in_range selected) operating) eqn:Hr.
    + rewrite (resolve_in_range _ _ _ Hs Hr). cbn [spec_resolve]. rewrite Hs, Hr.
      cbn [negb orb andb]. apply listN_eqb_eq. reflexivity.
    + unfold resolve. rewrite Hs. cbn [negb].
      destruct (lookup_all selected (sort_ids operating)); cbn [spec_resolve];
        rewrite ?Hs, Hr; reflexivity.
  - unfold resolve. rewrite Hs. cbn [negb spec_resolve]. rewrite Hs. reflexivity.
Qed.

(* sorted, in-range operating lists (what ExecuteDKG passes) *)
Lemma resolve_members (selected operating : list N) (c : cfg) (size : nat) :
  (size <= 255)%nat -> Z.of_nat size = group_size c ->
  StronglySorted N.lt operating -> (forall m, In m operating -> In m (members size)) ->
  resolve selected operating c =
  if sizes_consistent selected operating c then ROk (pick selected operating) else RErrInvalid.
Proof.
  intros Hsz Hg Hsorted Hsub.
  destruct (sizes_consistent selected operating c) eqn:Hs.
  - rewrite resolve_in_range; [|exact Hs|].
    + rewrite sort_of_sorted; [reflexivity|apply StronglySorted_lt_le; exact Hsorted].
    + apply forallb_forall. intros m Hm. apply in_range_iff.
      apply sizes_consistent_iff in Hs. destruct Hs as [Hl _].
      pose proof (members_range size m Hsz (Hsub m Hm)). lia.
  - unfold resolve. rewrite Hs. reflexivity.
Qed.

(* ------------------------------------------------------------------ *)
(* fate                                                                *)
(* ------------------------------------------------------------------ *)
Lemma decide_fate_ok (me : N) (key : option (list N)) (size : nat) (w : wait_res) (ops : list N) :
  decide_fate me key size w = FateOk ops <->
  exists e, w = WEvent e /\ key = Some (ev_key e) /\ ~ In me (ev_misbehaved e) /\
            ops = non_misbehaved e (members size).
Proof.
  unfold decide_fate. split.
  - destruct w as [e| |]; try discriminate.
    destruct key as [k|]; [|discriminate].
    destruct (bytes_eqb k (ev_key e)) eqn:Ek; cbn [negb]; [|discriminate].
    destruct (memN me (ev_misbehaved e)) eqn:Em; [discriminate|].
    intro H. inversion H; subst. exists e.
    apply bytes_eqb_eq in Ek. apply memN_not_In in Em. subst. repeat split. exact Em.
  - intros (e & -> & -> & Hm & ->).
    assert (E : bytes_eqb (ev_key e) (ev_key e) = true) by (apply bytes_eqb_eq; reflexivity).
    rewrite E. cbn [negb]. apply memN_not_In in Hm. rewrite Hm. reflexivity.
Qed.

Lemma decide_fate_no_panic (me : N) (key : option (list N)) (size : nat) (w : wait_res) :
  decide_fate me key size w <> FatePanic.
Proof.
  unfold decide_fate. destruct w; try discriminate. destruct key; try discriminate.
  destruct (negb _); try discriminate. destruct (memN _ _); discriminate.
Qed.

Lemma wait_event_inv (start : Z) (c : cfg) (werr : bool) (h : hist) (pick_event : bool) (e : event) :
  wait_for_event start c werr h pick_event = WEvent e ->
  werr = false /\ exists b, h = EventAt b e /\ b <= timeout_block start c.
Proof.
  unfold wait_for_event. destruct werr; [discriminate|].
  destruct h as [|b e']; [discriminate|]. cbn zeta.
  destruct (Z.ltb_spec b (timeout_block start c)) as [Hlt|Hge].
  - intro H. inversion H; subst. split; [reflexivity|]. exists b. split; [reflexivity|lia].
  - destruct (Z.ltb_spec (timeout_block start c) b) as [Hgt|Hle]; [discriminate|].
    destruct pick_event; [|discriminate].
    intro H. inversion H; subst. split; [reflexivity|]. exists b. split; [reflexivity|lia].
Qed.

Lemma non_misbehaved_sorted (e : event) (size : nat) :
  (size <= 255)%nat -> StronglySorted N.lt (non_misbehaved e (members size)).
Proof. intro H. apply StronglySorted_filter. apply members_sorted. exact H. Qed.

Lemma local_operating_sorted (marked : list N) (size : nat) :
  (size <= 255)%nat -> StronglySorted N.lt (local_operating size marked).
Proof. intro H. apply StronglySorted_filter. apply members_sorted. exact H. Qed.

(* ================================================================== *)
(* theorems restated in Props/C05.v                                    *)
(* ================================================================== *)

Theorem stays_only_if_same_key_and_not_misbehaved :
  forall me key size start c werr h pick_event ops,
    decide_fate me key size (wait_for_event start c werr h pick_event) = FateOk ops ->
    exists b e, h = EventAt b e /\ b <= timeout_block start c /\ werr = false /\
                key = Some (ev_key e) /\ ~ In me (ev_misbehaved e) /\
                ops = filter (fun m => negb (memN m (ev_misbehaved e))) (members size).
Proof.
  intros me key size start c werr h pick_event ops H.
  apply decide_fate_ok in H. destruct H as (e & Hw & Hk & Hm & Ho).
  apply wait_event_inv in Hw. destruct Hw as (Hwe & b & Hh & Hb).
  exists b, e. repeat split; assumption.
Qed.

Theorem stays_if_chain_accepted_same_key_in_time :
  forall me size start c b e pick_event,
    b < timeout_block start c -> ~ In me (ev_misbehaved e) ->
    decide_fate me (Some (ev_key e)) size
                (wait_for_event start c false (EventAt b e) pick_event)
    = FateOk (filter (fun m => negb (memN m (ev_misbehaved e))) (members size)).
Proof.
  intros me size start c b e pick_event Hb Hm.
  apply decide_fate_ok. exists e. repeat split; [|exact Hm].
  unfold wait_for_event. cbn zeta.
  destruct (Z.ltb_spec b (timeout_block start c)); [reflexivity|lia].
Qed.

Theorem timeout_means_error :
  forall me key size start c werr pick_event,
    (exists k, decide_fate me key size (wait_for_event start c werr NoEvent pick_event) = FateErr k) /\
    forall b e, timeout_block start c < b ->
      exists k, decide_fate me key size (wait_for_event start c werr (EventAt b e) pick_event)
                = FateErr k.
Proof.
  intros me key size start c werr pick_event. split.
  - unfold wait_for_event. destruct werr; cbn [decide_fate]; eexists; reflexivity.
  - intros b e Hb. unfold wait_for_event. destruct werr; cbn [decide_fate]; [eexists; reflexivity|].
    cbn zeta.
    destruct (Z.ltb_spec b (timeout_block start c)); [lia|].
    destruct (Z.ltb_spec (timeout_block start c) b); [|lia].
    cbn [decide_fate]. eexists; reflexivity.
Qed.

Theorem operators_exactly_selected_in_index_order :
  forall selected operating c l,
    resolve selected operating c = ROk l ->
    (forall id, In id operating -> (1 <= id <= 255)%N /\ Z.of_N id <= len selected) ->
    l = map (fun id => nth (N.to_nat id - 1) selected 0%N) (sort_ids operating) /\
    Permutation (sort_ids operating) operating /\
    StronglySorted N.le (sort_ids operating).
Proof.
  intros selected operating c l H Hr.
  assert (Hs : sizes_consistent selected operating c = true).
  { unfold resolve in H. destruct (sizes_consistent selected operating c); [reflexivity|discriminate]. }
  assert (Hall : forallb (in_range selected) operating = true).
  { apply forallb_forall. intros id Hid. apply in_range_iff. exact (Hr id Hid). }
  rewrite (resolve_in_range _ _ _ Hs Hall) in H. inversion H; subst.
  split; [reflexivity|]. split; [apply sort_perm|apply sort_sorted].
Qed.

Theorem resolve_error_exactly_when_sizes_inconsistent :
  forall selected operating c,
    resolve selected operating c = RErrInvalid <->
    (len selected <> group_size c \/ len operating < honest_threshold c).
Proof.
  intros selected operating c. unfold resolve.
  destruct (sizes_consistent selected operating c) eqn:Hs; cbn [negb].
  - apply sizes_consistent_iff in Hs. split.
    + destruct (lookup_all selected (sort_ids operating)); discriminate.
    + lia.
  - split; [|reflexivity]. intros _.
    unfold sizes_consistent in Hs. lia.
Qed.

Theorem resolve_panics_only_on_out_of_range_index :
  forall selected operating c,
    resolve selected operating c = RPanic ->
    exists id, In id operating /\ ~ ((1 <= id <= 255)%N /\ Z.of_N id <= len selected).
Proof.
  intros selected operating c H.
  destruct (sizes_consistent selected operating c) eqn:Hs;
    [|unfold resolve in H; rewrite Hs in H; discriminate].
  destruct (forallb (in_range selected) operating) eqn:Hr.
  - rewrite (resolve_in_range _ _ _ Hs Hr) in H. discriminate.
  - assert (Hex : existsb (fun id => negb (in_range selected id)) operating = true).
    { clear -Hr. induction operating as [|x t IH]; cbn [forallb existsb] in *; [discriminate|].
      destruct (in_range selected x); cbn [negb andb orb] in *; [apply IH; exact Hr|reflexivity]. }
    apply existsb_exists in Hex. destruct Hex as (id & Hin & Hn).
    exists id. split; [exact Hin|]. intro Hc.
    assert (E : in_range selected id = true) by (apply in_range_iff; tauto).
    rewrite E in Hn. discriminate.
Qed.

(* the tail of ExecuteDKG, publication failed *)
Theorem membership_only_as_chain_decided :
  forall me key size marked start c werr h pick_event selected l,
    (size <= 255)%nat -> Z.of_nat size = group_size c ->
    execute_tail me key size marked false (wait_for_event start c werr h pick_event) selected c
    = TSigner l ->
    exists b e, h = EventAt b e /\ b <= timeout_block start c /\
                key = Some (ev_key e) /\ ~ In me (ev_misbehaved e) /\
                let staying := filter (fun m => negb (memN m (ev_misbehaved e))) (members size) in
                l = map (fun m => nth (N.to_nat m - 1) selected 0%N) staying /\
                StronglySorted N.lt staying /\
                len selected = group_size c /\ honest_threshold c <= len l.
Proof.
  intros me key size marked start c werr h pick_event selected l Hsz Hg H.
  unfold execute_tail in H.
  destruct (decide_fate me key size (wait_for_event start c werr h pick_event)) as [ops|k|] eqn:Hf;
    try discriminate.
  apply stays_only_if_same_key_and_not_misbehaved in Hf.
  destruct Hf as (b & e & Hh & Hb & _ & Hk & Hm & Ho).
  exists b, e. split; [exact Hh|]. split; [exact Hb|]. split; [exact Hk|]. split; [exact Hm|].
  cbn zeta. fold (non_misbehaved e (members size)). fold (non_misbehaved e (members size)) in Ho.
  subst ops.
  rewrite (resolve_members selected _ c size Hsz Hg (non_misbehaved_sorted e size Hsz)) in H
    by (intros m Hin; apply filter_In in Hin; tauto).
  destruct (sizes_consistent selected (non_misbehaved e (members size)) c) eqn:Hs; [|discriminate].
  inversion H; subst.
  apply sizes_consistent_iff in Hs. destruct Hs as [Hl Ht].
  split; [reflexivity|]. split; [apply non_misbehaved_sorted; exact Hsz|].
  split; [exact Hl|]. unfold len in *. fold (pick selected (non_misbehaved e (members size))).
  rewrite pick_length. exact Ht.
Qed.

(* publication succeeded: the locally operating members *)
Theorem published_result_keeps_local_operating_members :
  forall me key size marked w c selected l,
    (size <= 255)%nat -> Z.of_nat size = group_size c ->
    execute_tail me key size marked true w selected c = TSigner l ->
    l = map (fun m => nth (N.to_nat m - 1) selected 0%N)
            (filter (fun m => negb (memN m marked)) (members size)).
Proof.
  intros me key size marked w c selected l Hsz Hg H. unfold execute_tail in H.
  rewrite (resolve_members selected _ c size Hsz Hg (local_operating_sorted marked size Hsz)) in H
    by (intros m Hin; apply filter_In in Hin; tauto).
  destruct (sizes_consistent selected (local_operating size marked) c); [|discriminate].
  inversion H. reflexivity.
Qed.

Theorem tail_never_panics :
  forall me key size marked publish_ok w c selected,
    (size <= 255)%nat -> Z.of_nat size = group_size c ->
    execute_tail me key size marked publish_ok w selected c <> TPanic.
Proof.
  intros me key size marked publish_ok w c selected Hsz Hg. unfold execute_tail.
  destruct publish_ok.
  - rewrite (resolve_members selected _ c size Hsz Hg (local_operating_sorted marked size Hsz))
      by (intros m Hin; apply filter_In in Hin; tauto).
    destruct (sizes_consistent selected (local_operating size marked) c); discriminate.
  - destruct (decide_fate me key size w) as [ops|k|] eqn:Hf; try discriminate.
    + apply decide_fate_ok in Hf. destruct Hf as (e & _ & _ & _ & ->).
      rewrite (resolve_members selected _ c size Hsz Hg (non_misbehaved_sorted e size Hsz))
        by (intros m Hin; apply filter_In in Hin; tauto).
      destruct (sizes_consistent selected (non_misbehaved e (members size)) c); discriminate.
    + exfalso. exact (decide_fate_no_panic me key size w Hf).
Qed.

(* the waiting window: without uint64 overflow the timeout block is the Go expression over the
   integers and lies strictly after the start of the publication (constants from /repo) *)
Theorem timeout_block_value :
  forall start c,
    0 <= start -> 0 <= group_size c < two64 -> 0 <= step c ->
    start + pre_publication_blocks + group_size c * step c < two64 ->
    timeout_block start c = start + pre_publication_blocks + group_size c * step c /\
    start < timeout_block start c.
Proof.
  intros start c H1 H2 H3 H4. unfold timeout_block, u64 in *.
  assert (Hp : 0 < pre_publication_blocks) by (vm_compute; reflexivity).
  assert (Hm : 0 <= group_size c * step c) by (apply Z.mul_nonneg_nonneg; lia).
  rewrite (Z.mod_small (group_size c)) by lia.
  rewrite (Z.mod_small (start + pre_publication_blocks)) by lia.
  rewrite (Z.mod_small (group_size c * step c)) by lia.
  rewrite Z.mod_small by lia. lia.
Qed.

(* ---- executable forms: soundness ---- *)
Theorem spec_fate_sound :
  forall me key size h ops,
    spec_fate me key size h (FateOk ops) = true ->
    exists b e, h = EventAt b e /\ key = Some (ev_key e) /\ ~ In me (ev_misbehaved e) /\
                ops = filter (fun m => negb (memN m (ev_misbehaved e))) (members size).
Proof.
  intros me key size h ops H. cbn [spec_fate] in H. unfold stays_ok in H.
  destruct h as [|b e]; [discriminate|]. destruct key as [k|]; [|discriminate].
  apply andb_prop in H. destruct H as [H H3]. apply andb_prop in H. destruct H as [H1 H2].
  apply bytes_eqb_eq in H1. apply listN_eqb_eq in H3.
  exists b, e. subst. repeat split.
  apply memN_not_In. destruct (memN me (ev_misbehaved e)); [discriminate|reflexivity].
Qed.

Theorem spec_resolve_sound :
  forall selected operating c,
    (forall l, spec_resolve selected operating c (ROk l) = true ->
       len selected = group_size c /\ honest_threshold c <= len operating /\
       ((forall id, In id operating -> (1 <= id <= 255)%N /\ Z.of_N id <= len selected) ->
        l = map (fun id => nth (N.to_nat id - 1) selected 0%N) (sort_ids operating))) /\
    (spec_resolve selected operating c RErrInvalid = true ->
       len selected <> group_size c \/ len operating < honest_threshold c) /\
    (spec_resolve selected operating c RPanic = true ->
       ~ forall id, In id operating -> (1 <= id <= 255)%N /\ Z.of_N id <= len selected).
Proof.
  intros selected operating c. split; [|split].
  - intros l H. cbn [spec_resolve] in H. apply andb_prop in H. destruct H as [H1 H2].
    apply sizes_consistent_iff in H1. destruct H1 as [Ha Hb].
    split; [exact Ha|]. split; [exact Hb|]. intro Hr.
    assert (Hall : forallb (in_range selected) operating = true).
    { apply forallb_forall. intros id Hid. apply in_range_iff. exact (Hr id Hid). }
    rewrite Hall in H2. cbn [negb orb] in H2. apply listN_eqb_eq in H2. exact H2.
  - cbn [spec_resolve]. unfold sizes_consistent. lia.
  - cbn [spec_resolve]. intros H Hr.
    assert (Hall : forallb (in_range selected) operating = true).
    { apply forallb_forall. intros id Hid. apply in_range_iff. exact (Hr id Hid). }
    rewrite Hall in H. discriminate.
Qed.

Theorem spec_tail_sound :
  forall me key size marked h selected c l,
    spec_tail me key size marked false h selected c (TSigner l) = true ->
    exists b e, h = EventAt b e /\ key = Some (ev_key e) /\ ~ In me (ev_misbehaved e) /\
                l = map (fun m => nth (N.to_nat m - 1) selected 0%N)
                        (filter (fun m => negb (memN m (ev_misbehaved e))) (members size)) /\
                len selected = group_size c /\ honest_threshold c <= len l.
Proof.
  intros me key size marked h selected c l H. cbn [spec_tail] in H.
  apply andb_prop in H. destruct H as [Hs H].
  destruct h as [|b e]; [discriminate|]. destruct key as [k|]; [|discriminate].
  apply andb_prop in H. destruct H as [H H3]. apply andb_prop in H. destruct H as [H1 H2].
  apply bytes_eqb_eq in H1. apply listN_eqb_eq in H3. apply sizes_consistent_iff in Hs.
  exists b, e. subst k. repeat split; try tauto.
  apply memN_not_In. destruct (memN me (ev_misbehaved e)); [discriminate|reflexivity].
Qed.

(* ---- the model's outputs satisfy the executable forms ---- *)
Theorem model_outputs_pass_spec :
  forall me key size marked publish_ok start c werr h pick_event selected operating,
    spec_fate me key size h
      (decide_fate me key size (wait_for_event start c werr h pick_event)) = true /\
    spec_resolve selected operating c (resolve selected operating c) = true /\
    ((size <= 255)%nat -> Z.of_nat size = group_size c ->
     spec_tail me key size marked publish_ok h selected c
       (execute_tail me key size marked publish_ok
                     (wait_for_event start c werr h pick_event) selected c) = true).
Proof.
  intros me key size marked publish_ok start c werr h pick_event selected operating.
  assert (Hfate : forall ops,
            decide_fate me key size (wait_for_event start c werr h pick_event) = FateOk ops ->
            exists b e, h = EventAt b e /\ key = Some (ev_key e) /\
                        memN me (ev_misbehaved e) = false /\
                        ops = non_misbehaved e (members size)).
  { intros ops Hf. apply stays_only_if_same_key_and_not_misbehaved in Hf.
    destruct Hf as (b & e & Hh & _ & _ & Hk & Hm & Ho).
    exists b, e. repeat split; try assumption. apply memN_not_In. exact Hm. }
  split; [|split].
  - destruct (decide_fate me key size (wait_for_event start c werr h pick_event)) as [ops|k|] eqn:Hf.
    + destruct (Hfate ops eq_refl) as (b & e & -> & -> & Hm & ->).
      cbn [spec_fate]. unfold stays_ok. rewrite Hm.
      assert (E1 : bytes_eqb (ev_key e) (ev_key e) = true) by (apply bytes_eqb_eq; reflexivity).
      assert (E2 : listN_eqb (non_misbehaved e (members size)) (non_misbehaved e (members size)) = true)
        by (apply listN_eqb_eq; reflexivity).
      rewrite E1, E2. reflexivity.
    + reflexivity.
    + exfalso. exact (decide_fate_no_panic _ _ _ _ Hf).
  - apply resolve_spec.
  - intros Hsz Hg. unfold execute_tail. destruct publish_ok.
    + rewrite (resolve_members selected _ c size Hsz Hg (local_operating_sorted marked size Hsz))
        by (intros m Hin; apply filter_In in Hin; tauto).
      destruct (sizes_consistent selected (local_operating size marked) c) eqn:Hs; [|reflexivity].
      cbn [spec_tail].
      assert (Hs' : sizes_consistent selected (pick selected (local_operating size marked)) c = true).
      { apply sizes_consistent_iff in Hs. apply sizes_consistent_iff.
        unfold len in *. rewrite pick_length. exact Hs. }
      rewrite Hs'. apply listN_eqb_eq. reflexivity.
    + destruct (decide_fate me key size (wait_for_event start c werr h pick_event)) as [ops|k|] eqn:Hf.
      * destruct (Hfate ops eq_refl) as (b & e & -> & -> & Hm & ->).
        rewrite (resolve_members selected _ c size Hsz Hg (non_misbehaved_sorted e size Hsz))
          by (intros m Hin; apply filter_In in Hin; tauto).
        destruct (sizes_consistent selected (non_misbehaved e (members size)) c) eqn:Hs; [|reflexivity].
        cbn [spec_tail].
        assert (Hs' : sizes_consistent selected (pick selected (non_misbehaved e (members size))) c = true).
        { apply sizes_consistent_iff in Hs. apply sizes_consistent_iff.
          unfold len in *. rewrite pick_length. exact Hs. }
        rewrite Hs', Hm.
        assert (E1 : bytes_eqb (ev_key e) (ev_key e) = true) by (apply bytes_eqb_eq; reflexivity).
        rewrite E1. cbn [negb andb]. apply listN_eqb_eq. reflexivity.
      * reflexivity.
      * exfalso. exact (decide_fate_no_panic _ _ _ _ Hf).
Qed.

(* hypotheses are satisfiable: group of 5, threshold 3, member 2 keeps its membership when the
   chain accepted its key and lists member 4 as misbehaving *)
Example satisfiable :
  let c := {| group_size := 5; honest_threshold := 3; step := 3 |} in
  let e := {| ev_key := [7; 8]%N; ev_misbehaved := [4%N] |} in
  execute_tail 2%N (Some [7; 8]%N) 5 [] false
               (wait_for_event 100 c false (EventAt 110 e) true) [11; 12; 13; 14; 15]%N c
  = TSigner [11; 12; 13; 15]%N /\ timeout_block 100 c = 121.
Proof. vm_compute. split; reflexivity. Qed.
