(* C01 — crash-fault agreement, part 4: the invariant carried through the twelve steps of the joint
   run, the joint run restricted to the honest seats IS [run] under the crash adversary's script,
   and the end-to-end theorems.  Statements are repeated in Props/C01.v. *)
From Coq Require Import ZArith Znumtheory NArith List Bool Lia Permutation.
From KV Require Import Common.Verdict Model.C01 Model.C01_crash Proofs.C01 Proofs.C02_arith
  Proofs.C01_crash_base Proofs.C01_crash_phases Proofs.C01_crash_key.
Import ListNotations.
Open Scope N_scope.

Lemma firstn_app_exact : forall T (l1 l2 : list T) n, length l1 = n -> firstn n (l1 ++ l2) = l1.
Proof.
  intros T l1 l2 n H. subst n. rewrite firstn_app, firstn_all, Nat.sub_diag. cbn. apply app_nil_r.
Qed.
Lemma skipn_app_exact : forall T (l1 l2 : list T) n, length l1 = n -> skipn n (l1 ++ l2) = l2.
Proof.
  intros T l1 l2 n H. subst n. rewrite skipn_app, skipn_all, Nat.sub_diag. reflexivity.
Qed.

(* ================================================================================= *)
(* 1. The invariant through the twelve steps                                          *)
(* ================================================================================= *)
Section Chain.
  Variable c : cfg.
  Variable ord : list (N * list (N * list nat)).
  Variable K : N -> N.
  Variable ids : list N.
  Variables A B : N -> list Z.
  Variable L0 : list mstate.
  Hypothesis Hops : length (ops c) = N.to_nat (gn c).
  Hypothesis Hids_nd : NoDup ids.
  Hypothesis Hids_in : forall i, In i ids <-> in_group c i = true.
  Hypothesis HA : forall i, in_group c i = true -> length (A i) = tcount c /\ length (B i) = tcount c.
  Hypothesis Hq : (0 < q c)%Z.
  Local Notation alive := (alive K).
  Local Notation sc := (order_script ord).

  Definition StageP (p : N) (P : N -> mstate -> Prop) (X : list mstate) : Prop :=
    map me X = ids /\ forall s, In s X -> if alive p (me s) then P (me s) s else failed s = true.

  Hypothesis HL0 : StageP 0 (Inv0 c A B) L0.
  Hypothesis Hord : arrival_orders_ok c ord K L0.
  (* phase 11, proved separately for the two adversary classes *)
  Hypothesis HT11 : forall i s, Inv10r c K A B i s -> alive 10 i = true ->
    Inv11 c K A B i (phase11 c s) /\ me (phase11 c s) = i.
  Hypothesis Hinterp : forall m shm, memN m (EX c K) = true -> shspec c K A m shm ->
    interpolate0 (q c) shm = (hd0 A m mod q c)%Z.

  Lemma xstep : forall p p0 f (P P' P'' : N -> mstate -> Prop) X,
    p <> 0 -> p0 <= p ->
    (forall i s, P i s -> failed s = false /\ me s = i) ->
    (forall i s, P i s -> alive p i = true -> exists s1, f s = (s1, cmsg c K A B p i) /\ P' i s1) ->
    (forall i s, P' i s -> failed s = false /\ me s = i) ->
    (forall i s1 L, P' i s1 -> Permutation L (allmsgs c K ids p (cmsg c K A B p)) ->
                    P'' i (fold_left (receive c p) L s1)) ->
    StageP p0 P X ->
    (forall s, In s (map (kill K p) X) -> failed s = false ->
       is_perm (length (pub c f (map (kill K p) X)))
               (order_for sc (me s) p (length (pub c f (map (kill K p) X)))) = true) ->
    StageP p P'' (exchange c sc p f [] (map (kill K p) X)).
  Proof.
    intros p p0 f P P' P'' X Hp Hle HPf Hf HP'f Hrecv [Hme HX] Hperm.
    destruct (exchange_stage c K ids sc p p0 f P P' (cmsg c K A B p) Hp
                (fun i => alive_mono K p0 p i Hle) HPf Hf HP'f X Hme HX) as [Hpub Hrest].
    rewrite Hpub in Hperm. destruct (Hrest Hperm) as [Hme' HX']. split; [exact Hme'|].
    intros s2 Hs2. specialize (HX' s2 Hs2). destruct (alive p (me s2)); [|exact HX'].
    destruct HX' as (s1 & L & HP1 & HL & ->). apply Hrecv; assumption.
  Qed.
  Lemma qstep : forall p0 (P P' : N -> mstate -> Prop) f X,
    (forall i s, P i s -> failed s = false /\ me s = i) ->
    (forall i s, P i s -> alive p0 i = true -> P' i (f s) /\ me (f s) = i) ->
    StageP p0 P X -> StageP p0 P' (quiet f X).
  Proof.
    intros p0 P P' f X HPf Hf [Hme HX]. apply (quiet_stage K ids p0 P P' f X HPf Hf Hme HX).
  Qed.

  Local Notation J1 := (J1 K L0).
  Local Notation S1 := (S1 c ord K L0).
  Local Notation S2 := (S2 c ord K L0).
  Local Notation J3 := (J3 c ord K L0).
  Local Notation S3 := (S3 c ord K L0).
  Local Notation J4 := (J4 c ord K L0).
  Local Notation S4 := (S4 c ord K L0).
  Local Notation S5 := (S5 c ord K L0).
  Local Notation S6 := (S6 c ord K L0).
  Local Notation J7 := (J7 c ord K L0).
  Local Notation S7 := (S7 c ord K L0).
  Local Notation J8 := (J8 c ord K L0).
  Local Notation S8 := (S8 c ord K L0).
  Local Notation S9 := (S9 c ord K L0).
  Local Notation J10 := (J10 c ord K L0).
  Local Notation S10 := (S10 c ord K L0).
  Local Notation S11 := (S11 c ord K L0).
  Local Notation S12 := (S12 c ord K L0).

  Ltac ordtac := intros s Hs Hf; apply (Hord _ _ _ s); [unfold joint_steps; cbn [In]; repeat (first [left; reflexivity | right])|exact Hs|exact Hf].

  Lemma st1 : StageP 1 (Inv1 c K A B) S1.
  Proof.
    apply (xstep 1 0 (f1 c) (Inv0 c A B) (Inv0 c A B) (Inv1 c K A B) L0); try lia; try exact HL0.
    - intros; eapply Inv0_f; eassumption.
    - intros i s H _. eapply T1_send; eassumption.
    - intros; eapply Inv0_f; eassumption.
    - intros i s1 L H HL. eapply T1_recv; eassumption.
    - ordtac.
  Qed.
  Lemma st2 : StageP 1 (Inv2 c K A B) S2.
  Proof.
    apply (qstep 1 (Inv1 c K A B) (Inv2 c K A B)); [intros; eapply Inv1_f; eassumption| |exact st1].
    intros i s H Ha. eapply T2; eassumption.
  Qed.
  Lemma Inv3r_f : forall i s, Inv3r c K A B i s -> failed s = false /\ me s = i.
  Proof. intros i s (X & Y & _ & _ & H). intros; eapply Inv3_f; eassumption. Qed.
  Lemma st3 : StageP 3 (Inv3r c K A B) S3.
  Proof.
    apply (xstep 3 1 (phase3 c) (Inv2 c K A B) (fun i => Inv3 c K A B i [] []) (Inv3r c K A B) S2); try lia; try exact st2.
    - intros; eapply Inv2_f; eassumption.
    - intros i s H Ha. eapply T3_send; eassumption.
    - intros i s H. intros; eapply Inv3_f; eassumption.
    - intros i s1 L H HL. eapply T3_recv; eassumption.
    - ordtac.
  Qed.
  Lemma Inv4r_f : forall i s, Inv4r c K A B i s -> failed s = false /\ me s = i.
  Proof. intros i s (X & _ & H). intros; eapply Inv4_f; eassumption. Qed.
  Lemma st4 : StageP 4 (Inv4r c K A B) S4.
  Proof.
    apply (xstep 4 3 (phase4 c) (Inv3r c K A B) (fun i => Inv4 c K A B (I4 c K) i []) (Inv4r c K A B) S3); try lia; try exact st3.
    - apply Inv3r_f.
    - intros i s H Ha. eapply T4_send; eassumption.
    - intros i s H. intros; eapply Inv4_f; eassumption.
    - intros i s1 L H HL. eapply T4_recv; eassumption.
    - ordtac.
  Qed.
  Lemma Inv5_f : forall i s, Inv5 c K A B i s -> failed s = false /\ me s = i.
  Proof. intros i s (X & H). intros; eapply Inv4_f; eassumption. Qed.
  Lemma st5 : StageP 4 (Inv5 c K A B) S5.
  Proof.
    apply (qstep 4 (Inv4r c K A B) (Inv5 c K A B)); [apply Inv4r_f| |exact st4].
    intros i s H Ha. eapply T5; eassumption.
  Qed.
  Lemma st6 : StageP 4 (Inv5 c K A B) S6.
  Proof.
    apply (qstep 4 (Inv5 c K A B) (Inv5 c K A B)); [apply Inv5_f| |exact st5].
    intros i s H _. eapply T6; eassumption.
  Qed.
  Lemma Inv7r_f : forall i s, Inv7r c K A B i s -> failed s = false /\ me s = i.
  Proof. intros i s (X & _ & H). intros; eapply Inv7_f; eassumption. Qed.
  Lemma st7 : StageP 7 (Inv7r c K A B) S7.
  Proof.
    apply (xstep 7 4 (phase7 c) (Inv5 c K A B) (fun i => Inv7 c K A B i []) (Inv7r c K A B) S6); try lia; try exact st6.
    - apply Inv5_f.
    - intros i s H _. eapply T7_send; eassumption.
    - intros i s H. intros; eapply Inv7_f; eassumption.
    - intros i s1 L H HL. eapply T7_recv; eassumption.
    - ordtac.
  Qed.
  Lemma Inv8r_f : forall i s, Inv8r c K A B i s -> failed s = false /\ me s = i.
  Proof. intros i s (X & _ & H). intros; eapply Inv8_f; eassumption. Qed.
  Lemma st8 : StageP 8 (Inv8r c K A B) S8.
  Proof.
    apply (xstep 8 7 (phase8 c) (Inv7r c K A B) (fun i => Inv8 c K A B (I8 c K) i []) (Inv8r c K A B) S7); try lia; try exact st7.
    - apply Inv7r_f.
    - intros i s H Ha. eapply T8_send; eassumption.
    - intros i s H. intros; eapply Inv8_f; eassumption.
    - intros i s1 L H HL. eapply T8_recv; eassumption.
    - ordtac.
  Qed.
  Lemma Inv9_f : forall i s, Inv9 c K A B i s -> failed s = false /\ me s = i.
  Proof. intros i s (X & H). intros; eapply Inv8_f; eassumption. Qed.
  Lemma st9 : StageP 8 (Inv9 c K A B) S9.
  Proof.
    apply (qstep 8 (Inv8r c K A B) (Inv9 c K A B)); [apply Inv8r_f| |exact st8].
    intros i s H Ha. eapply T9; eassumption.
  Qed.
  Lemma Inv10r_f : forall i s, Inv10r c K A B i s -> failed s = false /\ me s = i.
  Proof. intros i s (X & _ & H). intros; eapply Inv10_f; eassumption. Qed.
  Lemma st10 : StageP 10 (Inv10r c K A B) S10.
  Proof.
    apply (xstep 10 8 (phase10 c) (Inv9 c K A B) (fun i => Inv10 c K A B i []) (Inv10r c K A B) S9); try lia; try exact st9.
    - apply Inv9_f.
    - intros i s H Ha. eapply T10_send; eassumption.
    - intros i s H. intros; eapply Inv10_f; eassumption.
    - intros i s1 L H HL. eapply T10_recv; eassumption.
    - ordtac.
  Qed.
  Lemma Inv11_f : forall i s, Inv11 c K A B i s -> failed s = false /\ me s = i.
  Proof.
    intros i s [_ (IE & SY & LE & LS & QS & CM & VP & ISH & ICM & ISA & IPT & IPA & IRV & sh & RV & _ & _ & _ & ->)]. auto.
  Qed.
  Lemma st11 : StageP 10 (Inv11 c K A B) S11.
  Proof. apply (qstep 10 (Inv10r c K A B) (Inv11 c K A B)); [apply Inv10r_f|exact HT11|exact st10]. Qed.
  Lemma st12 : StageP 10 (Final c K A) S12.
  Proof.
    apply (qstep 10 (Inv11 c K A B) (Final c K A)); [apply Inv11_f| |exact st11].
    intros i s H Ha. eapply T12; eassumption.
  Qed.
End Chain.

(* ================================================================================= *)
(* 2. [run] under the crash adversary's script is the honest part of the joint run    *)
(* ================================================================================= *)
Lemma order_for_ord : forall sc1 sc2 r p len, order sc1 = order sc2 -> order_for sc1 r p len = order_for sc2 r p len.
Proof. intros sc1 sc2 r p len H. unfold order_for. rewrite H. reflexivity. Qed.

Lemma exchange_split : forall c sc1 sc2 p f H C, order sc1 = order sc2 ->
  firstn (length H) (exchange c sc1 p f [] (H ++ C)) = exchange c sc2 p f (pub c f C) H.
Proof.
  intros c sc1 sc2 p f H C Ho. unfold exchange, pub. cbv zeta.
  rewrite !map_app, flat_map_app, app_nil_r.
  rewrite firstn_app_exact by (rewrite !map_length; reflexivity).
  apply map_ext. intros s. rewrite (order_for_ord sc1 sc2) by exact Ho. reflexivity.
Qed.
Lemma map_fix : forall T (f : T -> T) l, (forall x, In x l -> f x = x) -> map f l = l.
Proof.
  intros T f l. induction l as [|x r IH]; intros H; cbn [map]; [reflexivity|].
  rewrite (H x (or_introl eq_refl)), IH; [reflexivity|]. intros y Hy. apply H. right. exact Hy.
Qed.
Lemma firstn_incl : forall T (l : list T) n x, In x (firstn n l) -> In x l.
Proof. intros T l n x H. rewrite <- (firstn_skipn n l). apply in_or_app. left. exact H. Qed.
Lemma NoDup_app_disj : forall T (l1 l2 : list T) x, NoDup (l1 ++ l2) -> In x l1 -> In x l2 -> False.
Proof.
  intros T l1. induction l1 as [|y l1 IH]; intros l2 x Hnd H1 H2; [destruct H1|].
  cbn [app] in Hnd. inversion Hnd as [|? ? Hn Hnd']. subst. destruct H1 as [->|H1].
  - apply Hn. apply in_or_app. right. exact H2.
  - apply (IH l2 x Hnd' H1 H2).
Qed.

Definition coefB_of (hs : list hmember) (m : N) : list Z :=
  match find (fun h => N.eqb (h_id h) m) hs with Some h => h_coefB h | None => [] end.

Section Bridge.
  Variable c : cfg.
  Variable honest : list hmember.
  Variable cs : list crasher.
  Variable sc : script.
  Local Notation K := (crash_from cs).
  Local Notation nh := (length honest).
  Local Notation L0 := (all_seats honest cs).
  Local Notation ord := (order sc).
  Local Notation osc := (order_script (order sc)).
  Local Notation all := (honest ++ map cr_member cs).
  Local Notation ids := (map h_id honest ++ crash_ids cs).
  Local Notation A := (coef_of all).
  Local Notation B := (coefB_of all).
  Local Notation alive := (alive K).

  Hypothesis Hops : length (ops c) = N.to_nat (gn c).
  Hypothesis Hq : (0 < q c)%Z.
  Hypothesis Hseats : seats_ok c honest cs.
  Hypothesis Hadv : crash_adversary c honest cs sc.
  Hypothesis Hord : crash_orders_ok c honest cs sc.
  Hypothesis HT11 : forall i s, Inv10r c K A B i s -> alive 10 i = true ->
    Inv11 c K A B i (phase11 c s) /\ me (phase11 c s) = i.
  Hypothesis Hinterp : forall m shm, memN m (EX c K) = true -> shspec c K A m shm ->
    interpolate0 (q c) shm = (hd0 A m mod q c)%Z.

  Lemma ids_all : map h_id all = ids.
  Proof. rewrite map_app, map_map. reflexivity. Qed.
  Lemma Hids_nd : NoDup ids.
  Proof. apply Hseats. Qed.
  Lemma Hids_in : forall i, In i ids <-> in_group c i = true.
  Proof.
    destruct Hseats as (Hnd & Hg & Hlen & _). intros i. split; [apply Hg|].
    intros Hi. apply in_group_members in Hi. revert i Hi. apply NoDup_length_incl.
    - exact Hnd.
    - rewrite Hlen. unfold members. rewrite map_length, seq_length. lia.
    - intros i Hi. apply in_group_members. apply Hg. exact Hi.
  Qed.
  Lemma find_member : forall h, In h all -> find (fun x => N.eqb (h_id x) (h_id h)) all = Some h.
  Proof.
    pose proof Hids_nd as Hnd. rewrite <- ids_all in Hnd. revert Hnd.
    generalize all. intros l. induction l as [|x r IH]; intros Hnd h Hin; [destruct Hin|].
    cbn [find]. cbn [map] in Hnd. inversion Hnd as [|? ? Hn Hnd']. subst. destruct Hin as [->|Hin].
    - rewrite N.eqb_refl. reflexivity.
    - destruct (N.eqb (h_id x) (h_id h)) eqn:E.
      + apply N.eqb_eq in E. exfalso. apply Hn. rewrite E. apply in_map. exact Hin.
      + apply IH; assumption.
  Qed.
  Lemma HA : forall i, in_group c i = true -> length (A i) = tcount c /\ length (B i) = tcount c.
  Proof.
    intros i Hi. apply Hids_in in Hi. rewrite <- ids_all in Hi. apply in_map_iff in Hi.
    destruct Hi as [h [<- Hh]]. unfold coef_of, coefB_of. rewrite (find_member h Hh).
    destruct Hseats as (_ & _ & _ & Hc). apply Hc. exact Hh.
  Qed.
  Lemma HL0 : StageP K ids 0 (Inv0 c A B) L0.
  Proof.
    split.
    - unfold all_seats. rewrite map_map. rewrite <- ids_all. apply map_ext. reflexivity.
    - intros s Hs. cbn. unfold all_seats in Hs. apply in_map_iff in Hs. destruct Hs as [h [<- Hh]].
      change (me (init_state h)) with (h_id h). split.
      + apply Hids_in. rewrite <- ids_all. apply in_map. exact Hh.
      + unfold init_state, coef_of, coefB_of. cbn [me]. rewrite (find_member h Hh). reflexivity.
  Qed.
  Lemma K_honest : forall m, In m (map h_id honest) -> K m = 13.
  Proof.
    intros m Hm. unfold crash_from. destruct (find _ cs) as [x|] eqn:E; [|reflexivity].
    apply find_some in E. destruct E as [Hx E]. apply N.eqb_eq in E. exfalso.
    apply (NoDup_app_disj _ _ _ m Hids_nd Hm). unfold crash_ids. rewrite <- E. apply in_map_iff. exists x. auto.
  Qed.

  Ltac ctx := pose proof Hids_nd as Hn'; pose proof Hids_in as Hi'; pose proof HA as Ha'; pose proof HL0 as Hl0';
              pose proof Hord as Ho'; unfold crash_orders_ok in Ho'.
  Ltac stt L := eapply L; eassumption.

  Lemma firstn_ids : firstn nh ids = map h_id honest.
  Proof. apply firstn_app_exact. apply map_length. Qed.
  Lemma firstn_kill : forall p S, p <= 10 -> map me S = ids -> firstn nh (map (kill K p) S) = firstn nh S.
  Proof.
    intros p S Hp Hme. rewrite firstn_map. apply map_fix. intros s Hs.
    assert (Hm : In (me s) (map h_id honest)).
    { rewrite <- firstn_ids, <- Hme, firstn_map. apply in_map. exact Hs. }
    unfold kill. rewrite (K_honest _ Hm). destruct (N.leb_spec 13 p); [lia|reflexivity].
  Qed.
  Lemma bq : forall f R S, R = firstn nh S -> quiet f R = firstn nh (quiet f S).
  Proof. intros f R S ->. unfold quiet. rewrite firstn_map. reflexivity. Qed.
  Lemma bx : forall p f adv R S, p <= 10 -> map me S = ids -> R = firstn nh S ->
    adv = pub c f (skipn nh (map (kill K p) S)) ->
    exchange c sc p f adv R = firstn nh (exchange c osc p f [] (map (kill K p) S)).
  Proof.
    intros p f adv R S Hp Hme -> ->.
    set (J := map (kill K p) S).
    assert (Hlen : length (firstn nh J) = nh).
    { apply firstn_length_le. unfold J. rewrite map_length. rewrite <- (map_length me), Hme, app_length, map_length. lia. }
    transitivity (firstn (length (firstn nh J)) (exchange c osc p f [] (firstn nh J ++ skipn nh J))).
    2:{ rewrite Hlen, firstn_skipn. reflexivity. }
    rewrite (exchange_split c osc sc) by reflexivity.
    unfold J. rewrite (firstn_kill p S Hp Hme). reflexivity.
  Qed.

  (* the stages of [run_states] *)
  Definition R1 := exchange c sc 1 (fun s => (s, phase1 c s)) (adv1 sc) (map init_state honest).
  Definition R2 := quiet (phase2 c) R1.
  Definition R3 := exchange c sc 3 (phase3 c) (adv3 sc) R2.
  Definition R4 := exchange c sc 4 (phase4 c) (adv4 sc) R3.
  Definition R5 := quiet (phase5 c) R4.
  Definition R6 := quiet (phase6 c) R5.
  Definition R7 := exchange c sc 7 (phase7 c) (adv7 sc) R6.
  Definition R8 := exchange c sc 8 (phase8 c) (adv8 sc) R7.
  Definition R9 := quiet (phase9 c) R8.
  Definition R10 := exchange c sc 10 (phase10 c) (adv10 sc) R9.
  Definition R11 := quiet (phase11 c) R10.
  Definition R12 := quiet (phase12 c) R11.

  Lemma adv_eqs :
    adv1 sc = pub c (f1 c) (skipn nh (map (kill K 1) L0)) /\
    adv3 sc = pub c (phase3 c) (skipn nh (map (kill K 3) (S2 c ord K L0))) /\
    adv4 sc = pub c (phase4 c) (skipn nh (map (kill K 4) (S3 c ord K L0))) /\
    adv7 sc = pub c (phase7 c) (skipn nh (map (kill K 7) (S6 c ord K L0))) /\
    adv8 sc = pub c (phase8 c) (skipn nh (map (kill K 8) (S7 c ord K L0))) /\
    adv10 sc = pub c (phase10 c) (skipn nh (map (kill K 10) (S9 c ord K L0))).
  Proof.
    unfold crash_adversary in Hadv.
    repeat split; rewrite Hadv at 1; reflexivity.
  Qed.

  Lemma e1 : R1 = firstn nh (S1 c ord K L0).
  Proof.
    ctx. unfold R1, S1, J1. apply (bx 1 (f1 c) (adv1 sc) _ L0); [lia|apply Hl0'| |apply adv_eqs].
    unfold all_seats. rewrite map_app. symmetry. apply firstn_app_exact. apply map_length.
  Qed.
  Lemma e2 : R2 = firstn nh (S2 c ord K L0).
  Proof. unfold R2, S2. apply bq. exact e1. Qed.
  Lemma e3 : R3 = firstn nh (S3 c ord K L0).
  Proof.
    ctx. unfold R3, S3, J3. apply (bx 3 (phase3 c) (adv3 sc) R2 (S2 c ord K L0)); [lia| |exact e2|apply adv_eqs].
    eapply proj1. stt st2.
  Qed.
  Lemma e4 : R4 = firstn nh (S4 c ord K L0).
  Proof.
    ctx. unfold R4, S4, J4. apply (bx 4 (phase4 c) (adv4 sc) R3 (S3 c ord K L0)); [lia| |exact e3|apply adv_eqs].
    eapply proj1. stt st3.
  Qed.
  Lemma e6 : R6 = firstn nh (S6 c ord K L0).
  Proof. unfold R6, R5, S6, S5. apply bq. apply bq. exact e4. Qed.
  Lemma e7 : R7 = firstn nh (S7 c ord K L0).
  Proof.
    ctx. unfold R7, S7, J7. apply (bx 7 (phase7 c) (adv7 sc) R6 (S6 c ord K L0)); [lia| |exact e6|apply adv_eqs].
    eapply proj1. stt st6.
  Qed.
  Lemma e8 : R8 = firstn nh (S8 c ord K L0).
  Proof.
    ctx. unfold R8, S8, J8. apply (bx 8 (phase8 c) (adv8 sc) R7 (S7 c ord K L0)); [lia| |exact e7|apply adv_eqs].
    eapply proj1. stt st7.
  Qed.
  Lemma e9 : R9 = firstn nh (S9 c ord K L0).
  Proof. unfold R9, S9. apply bq. exact e8. Qed.
  Lemma e10 : R10 = firstn nh (S10 c ord K L0).
  Proof.
    ctx. unfold R10, S10, J10. apply (bx 10 (phase10 c) (adv10 sc) R9 (S9 c ord K L0)); [lia| |exact e9|apply adv_eqs].
    eapply proj1. stt st9.
  Qed.
  Lemma run_is_joint :
    run_states {| i_cfg := c; i_honest := honest; i_script := sc |} = firstn nh (S12 c ord K L0).
  Proof.
    change (run_states {| i_cfg := c; i_honest := honest; i_script := sc |}) with R12.
    unfold R12, R11, S12, S11. apply bq. apply bq. exact e10.
  Qed.

  (* every honest member finishes with the inactive list [crash_inactive], no disqualified member
     and the group key [crash_key] *)
  Definition crash_outcome (r : list (N * outcome)) : Prop :=
    map fst r = map h_id honest /\
    forall m o, In (m, o) r ->
      exists sh ps, o = Finished (crash_inactive c K) [] (crash_key c K A) sh ps.

  Lemma crash_run_outcome : crash_outcome (run {| i_cfg := c; i_honest := honest; i_script := sc |}).
  Proof.
    unfold run. rewrite run_is_joint.
    ctx. assert (H12 : StageP K ids 10 (Final c K A) (S12 c ord K L0)) by stt st12.
    destruct H12 as [Hme HX]. split.
    - transitivity (map me (firstn nh (S12 c ord K L0))); [rewrite map_map; apply map_ext; reflexivity|].
      rewrite <- firstn_map, Hme. apply firstn_ids.
    - intros m o Hin. apply in_map_iff in Hin. destruct Hin as [s [E Hs]]. inversion E. subst m o. clear E.
      assert (Hm : In (me s) (map h_id honest)).
      { rewrite <- firstn_ids, <- Hme, firstn_map. apply in_map. exact Hs. }
      apply firstn_incl in Hs. specialize (HX s Hs).
      assert (Ha : alive 10 (me s) = true).
      { unfold C01_crash_base.alive. rewrite (K_honest _ Hm). reflexivity. }
      rewrite Ha in HX. destruct HX as (Hf & _ & Hia & Hdq & Hk).
      unfold outcome_of. rewrite Hf, Hia, Hdq, Hk. eexists. eexists. f_equal.
      unfold I11, I9, I8, I5, I4, I2, crash_inactive. rewrite <- !app_assoc. reflexivity.
  Qed.
End Bridge.

(* ================================================================================= *)
(* 3. End-to-end theorems                                                             *)
(* ================================================================================= *)
(* what [crash_outcome] means for the property *)
Lemma silent_between_K : forall c K p0 p1 m, In m (silent_between c K p0 p1) -> K m <= p1.
Proof.
  intros c K p0 p1 m H. unfold silent_between in H. apply filter_In in H. destruct H as [_ H].
  apply andb_true_iff in H. destruct H as [_ H]. apply negb_true_iff, N.ltb_ge in H. exact H.
Qed.
Lemma crash_inactive_K : forall c K m, In m (crash_inactive c K) -> K m <= 10.
Proof.
  intros c K m H. unfold crash_inactive in H.
  repeat (apply in_app_or in H; destruct H as [H|H]; [apply silent_between_K in H; lia|]).
  apply silent_between_K in H. lia.
Qed.

Theorem crash_outcome_property : forall c honest cs r,
  seats_ok c honest cs -> crash_outcome c honest cs r ->
  agreement r /\ never_marked (map h_id honest) r
  /\ (forall m o, In (m, o) r -> o <> Failed) /\ map fst r = map h_id honest.
Proof.
  intros c honest cs r Hseats [Hfst Hout]. split; [|split; [|split; [|exact Hfst]]].
  - intros i j a d k sh ps a' d' k' sh' ps' Hi Hj.
    destruct (Hout _ _ Hi) as (s1 & p1 & E1). destruct (Hout _ _ Hj) as (s2 & p2 & E2).
    inversion E1. inversion E2. subst. split; [reflexivity|]. intros m. reflexivity.
  - intros i a d k sh ps m Hi Hm Hh. destruct (Hout _ _ Hi) as (s1 & p1 & E1). inversion E1. subst.
    rewrite app_nil_r in Hm. apply crash_inactive_K in Hm.
    rewrite (K_honest c honest cs Hseats m Hh) in Hm. lia.
  - intros m o Hin. destruct (Hout _ _ Hin) as (s1 & p1 & ->). discriminate.
Qed.

(* ---- stages (i) and (ii): no seat crashes between phase 4 and phase 7, i.e. after having
   distributed its shares and before having published its public key share points ---- *)
Definition no_crash_after_shares (cs : list crasher) : Prop :=
  forall x, In x cs -> cr_from x <= 3 \/ 7 < cr_from x.

Lemma EX_nil : forall c cs, no_crash_after_shares cs -> EX c (crash_from cs) = [].
Proof.
  intros c cs H. unfold EX.
  assert (G : forall l, filter (fun m => alive (crash_from cs) 3 m && negb (alive (crash_from cs) 7 m)) l = []).
  { induction l as [|m l IH]; [reflexivity|]. cbn [filter]. rewrite IH.
    assert (E : alive (crash_from cs) 3 m && negb (alive (crash_from cs) 7 m) = false).
    { unfold alive, crash_from. cbn [N.eqb orb]. destruct (find _ cs) as [x|] eqn:Ef.
      - apply find_some in Ef. destruct (H x (proj1 Ef)) as [Hx|Hx].
        + assert (E3 : (3 <? cr_from x) = false) by (apply N.ltb_ge; lia). rewrite E3. reflexivity.
        + assert (E7 : (7 <? cr_from x) = true) by (apply N.ltb_lt; lia). rewrite E7. apply andb_false_r.
      - reflexivity. }
    rewrite E. reflexivity. }
  apply G.
Qed.

Theorem crash_run_early_or_late : forall c honest cs sc,
  length (ops c) = N.to_nat (gn c) -> (0 < q c)%Z -> seats_ok c honest cs ->
  no_crash_after_shares cs -> crash_adversary c honest cs sc -> crash_orders_ok c honest cs sc ->
  crash_outcome c honest cs (run {| i_cfg := c; i_honest := honest; i_script := sc |}).
Proof.
  intros c honest cs sc Hops Hq Hseats Hno Hadv Hord.
  pose proof (EX_nil c cs Hno) as HEX.
  apply crash_run_outcome; try assumption.
  - intros i s H Ha. eapply T11_none; try eassumption;
      solve [eapply Hids_nd; eassumption | eapply Hids_in; eassumption].
  - intros m shm Hm. rewrite HEX in Hm. discriminate Hm.
Qed.

Lemma is_perm_seq : forall len, is_perm len (seq 0 len) = true.
Proof.
  intros len. unfold is_perm. rewrite seq_length, Nat.eqb_refl. cbn [andb].
  apply forallb_forall. intros k Hk. apply existsb_exists. exists k. split; [exact Hk|apply Nat.eqb_refl].
Qed.
(* the default arrival order (no entry in [order]) is a permutation *)
Lemma default_orders_ok : forall c honest cs sc, order sc = [] -> crash_orders_ok c honest cs sc.
Proof.
  intros c honest cs sc Ho. unfold crash_orders_ok, arrival_orders_ok. rewrite Ho.
  intros p f J s _ _ _. apply is_perm_seq.
Qed.

(* stage (i): no faults at all *)
Theorem no_faults_run : forall c honest sc,
  length (ops c) = N.to_nat (gn c) -> (0 < q c)%Z -> seats_ok c honest [] ->
  crash_adversary c honest [] sc -> crash_orders_ok c honest [] sc ->
  crash_outcome c honest [] (run {| i_cfg := c; i_honest := honest; i_script := sc |}).
Proof.
  intros c honest sc Hops Hq Hseats Hadv Hord. apply crash_run_early_or_late; try assumption.
  intros x [].
Qed.

(* ---------- non-vacuity: n = 5, t = 2, honest seats 2,3,4; seat 1 is silent from the first phase,
   seat 5 from phase [k5] ---------- *)
Definition ex_cs (k5 : N) : list crasher :=
  [ {| cr_member := {| h_id := 1; h_coefA := wit_a1; h_coefB := wit_b1 |}; cr_from := 1 |};
    {| cr_member := {| h_id := 5; h_coefA := wit_a5; h_coefB := wit_b5 |}; cr_from := k5 |} ].
Definition ex_honest : list hmember := i_honest wit_input.
Definition ex_script (k5 : N) : script :=
  crash_script_of wit_cfg [] (crash_from (ex_cs k5)) (all_seats ex_honest (ex_cs k5)) 3.
Definition ex_outcome : list (N * outcome) :=
  [(2, Finished [1; 5] [] 95 701 [(3, 1304%Z); (4, 2107%Z)]);
   (3, Finished [1; 5] [] 95 1304 [(2, 701%Z); (4, 2107%Z)]);
   (4, Finished [1; 5] [] 95 2107 [(2, 701%Z); (3, 1304%Z)])].

Lemma ex_seats_ok : forall k5, seats_ok wit_cfg ex_honest (ex_cs k5).
Proof.
  intros k5. unfold seats_ok. cbn. repeat split.
  - repeat constructor; cbn; intuition discriminate.
  - intros m Hm. repeat (destruct Hm as [<-|Hm]; [reflexivity|]). destruct Hm.
  - repeat (destruct H as [<-|H]; [reflexivity|]). destruct H.
  - repeat (destruct H as [<-|H]; [reflexivity|]). destruct H.
Qed.

(* seat 1 silent from phase 1, seat 5 silent from phase 8 (it published its points) *)
Example crash_early_or_late_example :
  seats_ok wit_cfg ex_honest (ex_cs 8) /\ no_crash_after_shares (ex_cs 8)
  /\ crash_adversary wit_cfg ex_honest (ex_cs 8) (ex_script 8)
  /\ crash_orders_ok wit_cfg ex_honest (ex_cs 8) (ex_script 8)
  /\ adv7 (ex_script 8) = [wrap wit_cfg (Points 5 1 wit_a5)] /\ adv8 (ex_script 8) = []
  /\ run {| i_cfg := wit_cfg; i_honest := ex_honest; i_script := ex_script 8 |} = ex_outcome.
Proof.
  split; [apply ex_seats_ok|]. split.
  { intros x Hx. repeat (destruct Hx as [<-|Hx]; [cbn; lia|]). destruct Hx. }
  split; [unfold crash_adversary; vm_compute; reflexivity|]. split; [apply default_orders_ok; reflexivity|].
  split; [vm_compute; reflexivity|]. split; [vm_compute; reflexivity|]. vm_compute. reflexivity.
Qed.

(* the property itself for that class *)
Theorem agreement_crash_early_or_late : forall c honest cs sc,
  length (ops c) = N.to_nat (gn c) -> (0 < q c)%Z -> seats_ok c honest cs ->
  no_crash_after_shares cs -> crash_adversary c honest cs sc -> crash_orders_ok c honest cs sc ->
  let i := {| i_cfg := c; i_honest := honest; i_script := sc |} in
  agreement (run i) /\ never_marked (honest_ids i) (run i)
  /\ (forall m o, In (m, o) (run i) -> o <> Failed) /\ map fst (run i) = honest_ids i.
Proof.
  intros c honest cs sc Hops Hq Hseats Hno Hadv Hord i.
  apply (crash_outcome_property c honest cs (run i) Hseats).
  apply crash_run_early_or_late; assumption.
Qed.

Lemma filter_false : forall (f : N -> bool) l, (forall x, f x = false) -> filter f l = [].
Proof. intros f l H. induction l as [|x l IH]; [reflexivity|]. cbn [filter]. rewrite H. exact IH. Qed.
Lemma sb_nil : forall c p0 p1, p1 <= 10 -> silent_between c (crash_from []) p0 p1 = [].
Proof.
  intros c p0 p1 Hp. unfold silent_between. apply filter_false. intros x. unfold crash_from. cbn [find].
  assert (E : (p1 <? 13) = true) by (apply N.ltb_lt; lia). rewrite E. apply andb_false_r.
Qed.
Lemma crash_inactive_nil : forall c, crash_inactive c (crash_from []) = [].
Proof.
  intros c. unfold crash_inactive.
  rewrite (sb_nil c 0 1), (sb_nil c 1 3), (sb_nil c 3 4), (sb_nil c 4 7), (sb_nil c 7 8), (sb_nil c 8 10) by lia.
  reflexivity.
Qed.
Theorem no_faults_run' : forall c honest sc,
  length (ops c) = N.to_nat (gn c) -> (0 < q c)%Z -> seats_ok c honest [] ->
  crash_adversary c honest [] sc -> crash_orders_ok c honest [] sc ->
  let r := run {| i_cfg := c; i_honest := honest; i_script := sc |} in
  map fst r = map h_id honest /\
  forall m o, In (m, o) r ->
    exists sh ps, o = Finished [] [] (crash_key c (crash_from []) (coef_of (honest ++ []))) sh ps.
Proof.
  intros c honest sc H1 H2 H3 H4 H5 r.
  pose proof (no_faults_run c honest sc H1 H2 H3 H4 H5) as [Ha Hb]. split; [exact Ha|].
  intros m o Hin. destruct (Hb m o Hin) as (sh & ps & ->). rewrite crash_inactive_nil. cbn [map]. exists sh, ps. reflexivity.
Qed.
