(* C09 — proofs about the model of pkg/tecdsa/retry (Model/C09.v).  The statements restated in
   Props/C09.v are the theorems at the end of this file. *)
From Coq Require Import ZArith NArith List Bool Lia Permutation Sorted.
From Coq Require Import ZifyBool ZifyNat ZifyN.
From KV Require Import Common.Verdict Common.GoRand Model.C09 Proofs.GoRand.
Import ListNotations.
Open Scope Z_scope.

(* ------------------------------------------------------------------ *)
(* generic list facts                                                  *)
(* ------------------------------------------------------------------ *)

Lemma NoDup_app_intro {A} (l1 l2 : list A) :
  NoDup l1 -> NoDup l2 -> (forall x, In x l1 -> ~ In x l2) -> NoDup (l1 ++ l2).
Proof.
  induction l1 as [|a t IH]; intros H1 H2 Hd; cbn [app]; [exact H2|].
  inversion H1 as [|a' t' Hna Ht]; subst.
  constructor.
  - intro Hin. apply in_app_or in Hin. destruct Hin as [Hin|Hin]; [exact (Hna Hin)|].
    exact (Hd a (or_introl eq_refl) Hin).
  - apply IH; [exact Ht|exact H2|]. intros x Hx. apply Hd. right; exact Hx.
Qed.

Lemma Permutation_filter {A} (f : A -> bool) (l l' : list A) :
  Permutation l l' -> Permutation (filter f l) (filter f l').
Proof.
  induction 1 as [|x l l' _ IH|x y l|l l' l'' _ IH1 _ IH2]; cbn [filter].
  - apply perm_nil.
  - destruct (f x); [apply perm_skip|]; exact IH.
  - destruct (f x), (f y); try apply Permutation_refl. apply perm_swap.
  - eapply perm_trans; eassumption.
Qed.

Lemma filter_neg_len {A} (f : A -> bool) (l : list A) :
  len (filter (fun o => negb (f o)) l) = len l - len (filter f l).
Proof.
  unfold len. induction l as [|a t IH]; cbn [filter length]; [reflexivity|].
  destruct (f a); cbn [negb length]; lia.
Qed.

Lemma SSorted_lt_NoDup (l : list N) : StronglySorted N.lt l -> NoDup l.
Proof.
  induction 1 as [|a t _ IH Hall]; constructor; [|exact IH].
  intro Hin. rewrite Forall_forall in Hall. specialize (Hall a Hin). lia.
Qed.

(* two strictly sorted lists with the same members are equal *)
Lemma SSorted_lt_ext (l1 : list N) : forall l2,
  StronglySorted N.lt l1 -> StronglySorted N.lt l2 ->
  (forall x, In x l1 <-> In x l2) -> l1 = l2.
Proof.
  induction l1 as [|a t1 IH]; intros l2 S1 S2 Hin.
  - destruct l2 as [|b t2]; [reflexivity|].
    exfalso. apply (proj2 (Hin b)). left; reflexivity.
  - destruct l2 as [|b t2].
    + exfalso. apply (proj1 (Hin a)). left; reflexivity.
    + inversion S1 as [|a' t1' S1' F1]; subst. inversion S2 as [|b' t2' S2' F2]; subst.
      rewrite Forall_forall in F1, F2.
      assert (a = b) as ->.
      { destruct (proj1 (Hin a) (or_introl eq_refl)) as [E|Ha]; [symmetry; exact E|].
        destruct (proj2 (Hin b) (or_introl eq_refl)) as [E|Hb]; [exact E|].
        specialize (F1 b Hb). specialize (F2 a Ha). lia. }
      f_equal. apply IH; [exact S1'|exact S2'|].
      intro x; split; intro Hx.
      * destruct (proj1 (Hin x) (or_intror Hx)) as [E|Hx2]; [|exact Hx2].
        specialize (F1 x Hx). lia.
      * destruct (proj2 (Hin x) (or_intror Hx)) as [E|Hx1]; [|exact Hx1].
        specialize (F2 x Hx). lia.
Qed.

(* ------------------------------------------------------------------ *)
(* sort_keys                                                           *)
(* ------------------------------------------------------------------ *)

Lemma insert_uniq_In (x : N) (l : list N) (y : N) :
  In y (insert_uniq x l) <-> y = x \/ In y l.
Proof.
  induction l as [|z t IH]; cbn [insert_uniq].
  - cbn [In]. intuition.
  - destruct (N.ltb_spec x z) as [Hlt|Hge].
    + cbn [In]. intuition.
    + destruct (N.eqb_spec x z) as [->|Hne].
      * cbn [In]. intuition.
      * cbn [In]. rewrite IH. intuition.
Qed.

Lemma insert_uniq_sorted (x : N) (l : list N) :
  StronglySorted N.lt l -> StronglySorted N.lt (insert_uniq x l).
Proof.
  induction 1 as [|z t S IH F]; cbn [insert_uniq].
  - constructor; constructor.
  - rewrite Forall_forall in F.
    destruct (N.ltb_spec x z) as [Hlt|Hge].
    + constructor; [constructor; [exact S|apply Forall_forall; exact F]|].
      apply Forall_forall. intros y [<-|Hy]; [exact Hlt|].
      specialize (F y Hy). lia.
    + destruct (N.eqb_spec x z) as [->|Hne].
      * constructor; [exact S|apply Forall_forall; exact F].
      * constructor; [exact IH|]. apply Forall_forall. intros y Hy.
        apply insert_uniq_In in Hy. destruct Hy as [->|Hy]; [lia|exact (F y Hy)].
Qed.

Lemma sort_keys_sorted (l : list N) : StronglySorted N.lt (sort_keys l).
Proof.
  unfold sort_keys. induction l as [|a t IH]; cbn [fold_right]; [constructor|].
  apply insert_uniq_sorted; exact IH.
Qed.

Lemma sort_keys_In (l : list N) (x : N) : In x (sort_keys l) <-> In x l.
Proof.
  unfold sort_keys. induction l as [|a t IH]; cbn [fold_right]; [reflexivity|].
  rewrite insert_uniq_In, IH. cbn [In]. intuition.
Qed.

Lemma sort_keys_NoDup (l : list N) : NoDup (sort_keys l).
Proof. apply SSorted_lt_NoDup, sort_keys_sorted. Qed.

(* the sorted key list does not depend on the order in which the keys were produced *)
Lemma sort_keys_perm (l l' : list N) : Permutation l l' -> sort_keys l = sort_keys l'.
Proof.
  intro P. apply SSorted_lt_ext; try apply sort_keys_sorted.
  intro x. rewrite !sort_keys_In. split; apply Permutation_in; [exact P|apply Permutation_sym, P].
Qed.

(* ------------------------------------------------------------------ *)
(* counting seats                                                      *)
(* ------------------------------------------------------------------ *)

Definition sumc (seats : list N) (l : list N) : Z :=
  fold_right (fun o s => seat_count seats o + s) 0 l.

Lemma memN_In (x : N) (l : list N) : memN x l = true <-> In x l.
Proof.
  unfold memN. rewrite existsb_exists. split.
  - intros [y [Hy E]]. apply N.eqb_eq in E. subst; exact Hy.
  - intro H. exists x. split; [exact H|apply N.eqb_refl].
Qed.

Lemma memN_notIn (x : N) (l : list N) : ~ In x l -> memN x l = false.
Proof.
  intro H. destruct (memN x l) eqn:E; [|reflexivity]. apply memN_In in E. contradiction.
Qed.

Lemma filter_mem_cons (seats : list N) (a : N) (acc : list N) :
  ~ In a acc ->
  len (filter (fun s => memN s (a :: acc)) seats) =
  seat_count seats a + len (filter (fun s => memN s acc) seats).
Proof.
  intro Hna. unfold len, seat_count, memN.
  induction seats as [|s t IH]; cbn [filter existsb length]; [reflexivity|].
  cbn [existsb] in IH.
  destruct (N.eqb_spec s a) as [->|Hne].
  - rewrite N.eqb_refl. fold (memN a acc). rewrite (memN_notIn _ _ Hna).
    cbn [orb length]. lia.
  - destruct (N.eqb_spec a s) as [E|_]; [congruence|]. cbn [orb].
    destruct (existsb (N.eqb s) acc); cbn [length]; lia.
Qed.

Lemma filter_mem_sum (seats acc : list N) :
  NoDup acc -> len (filter (fun s => memN s acc) seats) = sumc seats acc.
Proof.
  induction 1 as [|a acc Hna _ IH].
  - cbn [sumc fold_right]. unfold len.
    induction seats as [|s t IHs]; cbn [filter memN existsb length]; [reflexivity|exact IHs].
  - rewrite filter_mem_cons by exact Hna. rewrite IH. reflexivity.
Qed.

Lemma filter_mem_all (seats K : list N) :
  (forall s, In s seats -> In s K) -> filter (fun s => memN s K) seats = seats.
Proof.
  induction seats as [|s t IH]; intro H; cbn [filter]; [reflexivity|].
  rewrite (proj2 (memN_In s K)) by (apply H; left; reflexivity).
  f_equal. apply IH. intros x Hx. apply H. right; exact Hx.
Qed.

Lemma sumc_total (seats K : list N) :
  NoDup K -> (forall s, In s seats -> In s K) -> sumc seats K = len seats.
Proof.
  intros ND H. rewrite <- (filter_mem_sum seats K ND). rewrite filter_mem_all by exact H.
  reflexivity.
Qed.

Lemma seat_count_nonneg seats o : 0 <= seat_count seats o.
Proof. unfold seat_count. lia. Qed.

(* ------------------------------------------------------------------ *)
(* accept_until                                                        *)
(* ------------------------------------------------------------------ *)

Lemma accept_until_ok (seats : list N) (need : Z) : forall (ops acc : list N) (got : Z),
  NoDup acc -> NoDup ops -> (forall x, In x acc -> ~ In x ops) ->
  got = sumc seats acc -> need <= got + sumc seats ops ->
  exists acc', accept_until seats ops need acc got = Some acc' /\ NoDup acc' /\
               need <= sumc seats acc'.
Proof.
  induction ops as [|o t IH]; intros acc got NDa NDo Hd Hg Hn; cbn [accept_until].
  - cbn [sumc fold_right] in Hn.
    destruct (Z.leb_spec need got) as [Hle|Hgt]; [|lia].
    exists acc. subst got. auto.
  - destruct (Z.leb_spec need got) as [Hle|Hgt].
    + exists acc. subst got. auto.
    + inversion NDo as [|o' t' Hno NDt]; subst o' t'.
      apply IH.
      * constructor; [|exact NDa]. intro Hin. apply (Hd o Hin). left; reflexivity.
      * exact NDt.
      * intros x [<-|Hx]; [exact Hno|]. intro Hxt. apply (Hd x Hx). right; exact Hxt.
      * cbn [sumc fold_right]. fold (sumc seats acc). lia.
      * cbn [sumc fold_right] in Hn. fold (sumc seats t) in Hn. lia.
Qed.

(* ------------------------------------------------------------------ *)
(* pairs_from / triples_from                                           *)
(* ------------------------------------------------------------------ *)

Lemma pairs_from_In {A} (l : list A) (a b : A) :
  In (a, b) (pairs_from l) -> In a l /\ In b l.
Proof.
  induction l as [|h t IH]; cbn [pairs_from]; [intros []|].
  intro H. apply in_app_or in H. destruct H as [H|H].
  - apply in_map_iff in H. destruct H as [y [E Hy]]. injection E as <- <-.
    split; [left; reflexivity|right; exact Hy].
  - destruct (IH H) as [Ha Hb]. split; right; assumption.
Qed.

Lemma pairs_from_NoDup {A} (l : list A) : NoDup l -> NoDup (pairs_from l).
Proof.
  induction 1 as [|h t Hnh NDt IH]; cbn [pairs_from]; [constructor|].
  apply NoDup_app_intro.
  - apply FinFun.Injective_map_NoDup; [|exact NDt].
    intros x y E. injection E as ->. reflexivity.
  - exact IH.
  - intros [a b] H1 H2. apply in_map_iff in H1. destruct H1 as [y [E _]]. injection E as <- <-.
    apply pairs_from_In in H2. exact (Hnh (proj1 H2)).
Qed.

Lemma pairs_from_lt (l : list N) (a b : N) :
  StronglySorted N.lt l -> In (a, b) (pairs_from l) -> (a < b)%N.
Proof.
  induction 1 as [|h t _ IH F]; cbn [pairs_from]; [intros []|].
  intro H. apply in_app_or in H. destruct H as [H|H]; [|exact (IH H)].
  apply in_map_iff in H. destruct H as [y [E Hy]]. injection E as <- <-.
  rewrite Forall_forall in F. exact (F y Hy).
Qed.

Lemma triples_from_In1 {A} (l : list A) (a b c : A) :
  In (a, b, c) (triples_from l) -> In a l.
Proof.
  induction l as [|h t IH]; cbn [triples_from]; [intros []|].
  intro H. apply in_app_or in H. destruct H as [H|H].
  - apply in_map_iff in H. destruct H as [y [E _]]. injection E as <- _ _. left; reflexivity.
  - right. exact (IH H).
Qed.

Lemma triples_from_NoDup {A} (l : list A) : NoDup l -> NoDup (triples_from l).
Proof.
  induction 1 as [|h t Hnh NDt IH]; cbn [triples_from]; [constructor|].
  apply NoDup_app_intro.
  - apply FinFun.Injective_map_NoDup; [|apply pairs_from_NoDup; exact NDt].
    intros [x1 x2] [y1 y2] E. cbn [fst snd] in E. injection E as -> ->. reflexivity.
  - exact IH.
  - intros [[a b] c] H1 H2. apply in_map_iff in H1. destruct H1 as [y [E _]].
    injection E as <- _ _. apply triples_from_In1 in H2. exact (Hnh H2).
Qed.

Lemma triples_from_lt (l : list N) (a b c : N) :
  StronglySorted N.lt l -> In (a, b, c) (triples_from l) -> (a < b)%N /\ (b < c)%N.
Proof.
  induction 1 as [|h t S IH F]; cbn [triples_from]; [intros []|].
  intro H. apply in_app_or in H. destruct H as [H|H]; [|exact (IH H)].
  apply in_map_iff in H. destruct H as [[y1 y2] [E Hy]]. cbn [fst snd] in E.
  injection E as <- <- <-.
  split; [|exact (pairs_from_lt _ _ _ S Hy)].
  rewrite Forall_forall in F. apply F. exact (proj1 (pairs_from_In _ _ _ Hy)).
Qed.

(* ------------------------------------------------------------------ *)
(* the exclusion enumeration as one list                               *)
(* ------------------------------------------------------------------ *)

Definition f1 (o : N) : list N := [o].
Definition f2 (p : N * N) : list N := [fst p; snd p].
Definition f3 (p : N * N * N) : list N := let '(a, b, c) := p in [a; b; c].

Lemma stage_pos {A B C} (g1 : A -> list N) (g2 : B -> list N) (g3 : C -> list N)
      (L1 : list A) (L2 : list B) (L3 : list C) (i : nat) (e : list N) :
  (forall x, length (g1 x) = 1%nat) -> (forall x, length (g2 x) = 2%nat) ->
  (forall x, length (g3 x) = 3%nat) ->
  nth_error (map g1 L1 ++ map g2 L2 ++ map g3 L3) i = Some e ->
  (i < length L1 /\ length e = 1)%nat \/
  (length L1 <= i < length L1 + length L2 /\ length e = 2)%nat \/
  (length L1 + length L2 <= i /\ length e = 3)%nat.
Proof.
  intros H1 H2 H3 H.
  destruct (Nat.lt_ge_cases i (length L1)) as [Hi|Hi].
  - rewrite nth_error_app1 in H by (rewrite map_length; exact Hi).
    rewrite nth_error_map in H. destruct (nth_error L1 i) as [x|]; [|discriminate H].
    injection H as <-. left. rewrite H1. lia.
  - rewrite nth_error_app2 in H by (rewrite map_length; exact Hi). rewrite map_length in H.
    destruct (Nat.lt_ge_cases (i - length L1) (length L2)) as [Hj|Hj].
    + rewrite nth_error_app1 in H by (rewrite map_length; exact Hj).
      rewrite nth_error_map in H. destruct (nth_error L2 _) as [x|]; [|discriminate H].
      injection H as <-. right; left. rewrite H2. lia.
    + rewrite nth_error_app2 in H by (rewrite map_length; exact Hj).
      rewrite nth_error_map in H. destruct (nth_error L3 _) as [x|]; [|discriminate H].
      injection H as <-. right; right. rewrite H3. lia.
Qed.

Section Enumeration.
  Variable rngT : Type.
  Variable shuffle : forall A : Type, rngT -> list A -> list A.
  Variable iter : list N -> list N.
  Hypothesis Hsh : forall A g l, Permutation (shuffle A g l) l.
  Variable seats : list N.
  Variable g : rngT.
  Variable count : Z.

  Let s1 := singles iter seats count.
  Let s2 := pairs iter seats count.
  Let s3 := triples iter seats count.
  Let L1 := shuffle N g s1.
  Let L2 := shuffle (N * N)%type g s2.
  Let L3 := shuffle (N * N * N)%type g s3.

  Definition excl_all : list (list N) := map f1 L1 ++ map f2 L2 ++ map f3 L3.

  Lemma exclusion_nth (r : N) :
    exclusion rngT shuffle iter seats g r count = nth_error excl_all (N.to_nat r).
  Proof.
    pose proof (Permutation_length (Hsh N g s1)) as E1.
    pose proof (Permutation_length (Hsh _ g s2)) as E2.
    pose proof (Permutation_length (Hsh _ g s3)) as E3.
    unfold exclusion, excl_all. cbv zeta.
    fold s1 s2 s3. fold L1 L2 L3. unfold len.
    destruct (Z.ltb_spec (Z.of_N r) (Z.of_nat (length s1))) as [Ha|Ha].
    - rewrite nth_error_app1 by (rewrite map_length; fold L1 in E1; lia).
      rewrite nth_error_map. replace (Z.to_nat (Z.of_N r)) with (N.to_nat r) by lia.
      reflexivity.
    - rewrite nth_error_app2 by (rewrite map_length; fold L1 in E1; lia).
      rewrite map_length.
      destruct (Z.ltb_spec (Z.of_N r - Z.of_nat (length s1)) (Z.of_nat (length s2))) as [Hb|Hb].
      + rewrite nth_error_app1 by (rewrite map_length; fold L1 in E1; fold L2 in E2; lia).
        rewrite nth_error_map.
        replace (Z.to_nat (Z.of_N r - Z.of_nat (length s1))) with (N.to_nat r - length L1)%nat
          by (fold L1 in E1; lia).
        reflexivity.
      + rewrite nth_error_app2 by (rewrite map_length; fold L1 in E1; fold L2 in E2; lia).
        rewrite map_length. rewrite nth_error_map.
        replace (Z.to_nat (Z.of_N r - Z.of_nat (length s1) - Z.of_nat (length s2)))
          with (N.to_nat r - length L1 - length L2)%nat
          by (fold L1 in E1; fold L2 in E2; lia).
        destruct (Z.ltb_spec (Z.of_N r - Z.of_nat (length s1) - Z.of_nat (length s2))
                             (Z.of_nat (length s3))) as [Hc|Hc]; [reflexivity|].
        assert (nth_error L3 (N.to_nat r - length L1 - length L2) = None) as ->; [|reflexivity].
        apply nth_error_None. fold L1 in E1; fold L2 in E2; fold L3 in E3. lia.
  Qed.

  Lemma s1_sorted : StronglySorted N.lt s1.
  Proof. apply sort_keys_sorted. Qed.

  Lemma s2_NoDup : NoDup s2.
  Proof. apply NoDup_filter, pairs_from_NoDup, SSorted_lt_NoDup, s1_sorted. Qed.

  Lemma s3_NoDup : NoDup s3.
  Proof. apply NoDup_filter, triples_from_NoDup, SSorted_lt_NoDup, s1_sorted. Qed.

  Lemma f1_len x : length (f1 x) = 1%nat. Proof. reflexivity. Qed.
  Lemma f2_len x : length (f2 x) = 2%nat. Proof. reflexivity. Qed.
  Lemma f3_len x : length (f3 x) = 3%nat. Proof. destruct x as [[a b] c]; reflexivity. Qed.

  Lemma excl_all_NoDup : NoDup excl_all.
  Proof.
    unfold excl_all. apply NoDup_app_intro; [|apply NoDup_app_intro|].
    - apply FinFun.Injective_map_NoDup.
      + intros x y E. injection E as ->. reflexivity.
      + apply (Permutation_NoDup (Permutation_sym (Hsh N g s1))).
        apply SSorted_lt_NoDup, s1_sorted.
    - apply FinFun.Injective_map_NoDup.
      + intros [x1 x2] [y1 y2] E. unfold f2 in E. cbn [fst snd] in E. injection E as -> ->.
        reflexivity.
      + apply (Permutation_NoDup (Permutation_sym (Hsh _ g s2))). exact s2_NoDup.
    - apply FinFun.Injective_map_NoDup.
      + intros [[x1 x2] x3] [[y1 y2] y3] E. unfold f3 in E. injection E as -> -> ->.
        reflexivity.
      + apply (Permutation_NoDup (Permutation_sym (Hsh _ g s3))). exact s3_NoDup.
    - intros x H2 H3. apply in_map_iff in H2. destruct H2 as [y2 [<- _]].
      apply in_map_iff in H3. destruct H3 as [y3 [E _]].
      apply (f_equal (@length N)) in E. rewrite f2_len, f3_len in E. discriminate E.
    - intros x H1 H23. apply in_map_iff in H1. destruct H1 as [y1 [<- _]].
      apply in_app_or in H23. destruct H23 as [H|H]; apply in_map_iff in H;
        destruct H as [y [E _]]; apply (f_equal (@length N)) in E;
        rewrite ?f1_len, ?f2_len, ?f3_len in E; discriminate E.
  Qed.

  Lemma excl_all_elem (e : list N) :
    In e excl_all -> StronglySorted N.lt e /\ (1 <= length e <= 3)%nat.
  Proof.
    unfold excl_all. intro H. apply in_app_or in H. destruct H as [H|H];
      [|apply in_app_or in H; destruct H as [H|H]];
      apply in_map_iff in H; destruct H as [y [<- Hy]].
    - split; [|cbn; lia]. unfold f1. repeat constructor.
    - split; [|cbn; lia].
      apply (Permutation_in _ (Hsh _ g s2)) in Hy. unfold s2, pairs in Hy.
      apply filter_In in Hy. destruct Hy as [Hy _]. destruct y as [a b].
      apply (pairs_from_lt _ _ _ s1_sorted) in Hy.
      unfold f2; cbn [fst snd]. repeat constructor. exact Hy.
    - split; [|rewrite f3_len; lia].
      apply (Permutation_in _ (Hsh _ g s3)) in Hy. unfold s3, triples in Hy.
      apply filter_In in Hy. destruct Hy as [Hy _]. destruct y as [[a b] c].
      apply (triples_from_lt _ _ _ _ s1_sorted) in Hy. destruct Hy as [Hab Hbc].
      unfold f3. repeat constructor; lia.
  Qed.

  Lemma excl_all_mono (i j : nat) (e1 e2 : list N) :
    (i < j)%nat -> nth_error excl_all i = Some e1 -> nth_error excl_all j = Some e2 ->
    (length e1 <= length e2)%nat.
  Proof.
    intros Hij H1 H2.
    apply (stage_pos _ _ _ _ _ _ _ _ f1_len f2_len f3_len) in H1.
    apply (stage_pos _ _ _ _ _ _ _ _ f1_len f2_len f3_len) in H2.
    lia.
  Qed.

  Lemma enumeration (r1 r2 : N) :
    (r1 < r2)%N ->
    match exclusion rngT shuffle iter seats g r1 count,
          exclusion rngT shuffle iter seats g r2 count with
    | Some e1, Some e2 =>
        StronglySorted N.lt e1 /\ StronglySorted N.lt e2 /\
        (1 <= length e1 <= 3)%nat /\ (length e1 <= length e2 <= 3)%nat /\ e1 <> e2
    | Some e1, None => StronglySorted N.lt e1 /\ (1 <= length e1 <= 3)%nat
    | None, Some _ => False
    | None, None => True
    end.
  Proof.
    intro Hr. rewrite !exclusion_nth.
    assert (N.to_nat r1 < N.to_nat r2)%nat as Hn by lia.
    destruct (nth_error excl_all (N.to_nat r1)) as [e1|] eqn:E1;
      destruct (nth_error excl_all (N.to_nat r2)) as [e2|] eqn:E2.
    - destruct (excl_all_elem e1 (nth_error_In _ _ E1)) as [S1 B1].
      destruct (excl_all_elem e2 (nth_error_In _ _ E2)) as [S2 B2].
      pose proof (excl_all_mono _ _ _ _ Hn E1 E2) as Hm.
      repeat split; try assumption; try lia.
      intros ->.
      assert (N.to_nat r1 = N.to_nat r2); [|lia].
      apply (proj1 (NoDup_nth_error excl_all) excl_all_NoDup).
      + apply nth_error_Some. congruence.
      + congruence.
    - exact (excl_all_elem e1 (nth_error_In _ _ E1)).
    - apply nth_error_None in E1.
      assert (nth_error excl_all (N.to_nat r2) = None) by (apply nth_error_None; lia).
      congruence.
    - exact I.
  Qed.

  Lemma complete_gen (e : list N) :
    In e excl_all -> exists r, exclusion rngT shuffle iter seats g r count = Some e.
  Proof.
    intro H. apply In_nth_error in H. destruct H as [n Hn].
    exists (N.of_nat n). rewrite exclusion_nth, Nat2N.id. exact Hn.
  Qed.

  Lemma complete1 o : In o s1 -> In [o] excl_all.
  Proof.
    intro H. unfold excl_all. apply in_or_app. left.
    apply (in_map f1). apply (Permutation_in _ (Permutation_sym (Hsh _ g s1))). exact H.
  Qed.
  Lemma complete2 a b : In (a, b) s2 -> In [a; b] excl_all.
  Proof.
    intro H. unfold excl_all. apply in_or_app. right. apply in_or_app. left.
    apply (in_map f2 _ (a, b)). apply (Permutation_in _ (Permutation_sym (Hsh _ g s2))). exact H.
  Qed.
  Lemma complete3 a b c : In (a, b, c) s3 -> In [a; b; c] excl_all.
  Proof.
    intro H. unfold excl_all. apply in_or_app. right. apply in_or_app. right.
    apply (in_map f3 _ (a, b, c)). apply (Permutation_in _ (Permutation_sym (Hsh _ g s3))).
    exact H.
  Qed.

  (* whatever is excluded leaves at least [count] seats *)
  Lemma excl_all_count (e : list N) :
    In e excl_all -> count <= len (filter (fun o => negb (memN o e)) seats).
  Proof.
    intro H. rewrite filter_neg_len.
    destruct (excl_all_elem e H) as [S _].
    rewrite (filter_mem_sum seats e (SSorted_lt_NoDup _ S)).
    unfold excl_all in H. apply in_app_or in H. destruct H as [H|H];
      [|apply in_app_or in H; destruct H as [H|H]];
      apply in_map_iff in H; destruct H as [y [<- Hy]].
    - apply (Permutation_in _ (Hsh _ g s1)) in Hy. unfold s1, singles in Hy.
      apply sort_keys_In, filter_In in Hy. destruct Hy as [_ Hy].
      unfold eligible1 in Hy. unfold f1. cbn [sumc fold_right]. lia.
    - apply (Permutation_in _ (Hsh _ g s2)) in Hy. unfold s2, pairs in Hy.
      apply filter_In in Hy. destruct Hy as [_ Hy].
      unfold eligible2 in Hy. unfold f2. cbn [sumc fold_right]. lia.
    - apply (Permutation_in _ (Hsh _ g s3)) in Hy. unfold s3, triples in Hy.
      apply filter_In in Hy. destruct Hy as [_ Hy]. destruct y as [[a b] c].
      unfold eligible3 in Hy. unfold f3. cbn [sumc fold_right]. lia.
  Qed.
End Enumeration.

(* ------------------------------------------------------------------ *)
(* the theorems restated in Props/C09.v                                *)
(* ------------------------------------------------------------------ *)

Definition whole_operator_sublist (seats l : list N) : Prop :=
  exists keep : N -> bool, l = filter keep seats.

Lemma keys_props (iter : list N -> list N) (seats : list N) :
  (forall l, Permutation (iter l) l) ->
  forall x, In x (sort_keys (distinct_keys iter seats)) <-> In x seats.
Proof.
  intros Hit x. rewrite sort_keys_In. unfold distinct_keys. split; intro H.
  - apply (Permutation_in _ (Hit _)) in H. apply nodup_In in H. exact H.
  - apply (Permutation_in _ (Permutation_sym (Hit _))). apply nodup_In. exact H.
Qed.

Theorem signing_sound :
  forall (rngT : Type) (mkrng : Z -> rngT) (shuffle : forall A : Type, rngT -> list A -> list A)
         (iter : list N -> list N),
    (forall A g l, Permutation (shuffle A g l) l) ->
    (forall l, Permutation (iter l) l) ->
    forall seats seed retry count,
      match signing rngT mkrng shuffle iter seats seed retry count with
      | Ok l => whole_operator_sublist seats l /\ Z.of_N count <= len l
      | ErrTooMany => len seats < Z.of_N count
      | ErrRetry | Panic => False
      end.
Proof.
  intros rngT mkrng shuffle iter Hsh Hit seats seed retry count. unfold signing.
  destruct (Z.ltb_spec (len seats) (Z.of_N count)) as [Hlt|Hge]; [exact Hlt|].
  set (keys := sort_keys (distinct_keys iter seats)).
  set (ops := shuffle N _ keys).
  assert (NoDup ops) as NDo.
  { apply (Permutation_NoDup (Permutation_sym (Hsh _ _ _))). apply sort_keys_NoDup. }
  assert (forall s, In s seats -> In s ops) as Hall.
  { intros s Hs. apply (Permutation_in _ (Permutation_sym (Hsh _ _ _))).
    apply (keys_props iter seats Hit). exact Hs. }
  destruct (accept_until_ok seats (Z.of_N count) ops [] 0) as [acc [E [NDa Hle]]].
  - constructor.
  - exact NDo.
  - intros x [].
  - reflexivity.
  - rewrite (sumc_total seats ops NDo Hall). lia.
  - rewrite E. split; [eexists; reflexivity|].
    rewrite (filter_mem_sum seats acc NDa). exact Hle.
Qed.

Theorem keygen_sound :
  forall (rngT : Type) (mkrng : Z -> rngT) (shuffle : forall A : Type, rngT -> list A -> list A)
         (iter : list N -> list N),
    (forall A g l, Permutation (shuffle A g l) l) ->
    (forall l, Permutation (iter l) l) ->
    forall seats seed retry count,
      match keygen rngT mkrng shuffle iter seats seed retry count with
      | Ok l => whole_operator_sublist seats l /\ Z.of_N count <= len l /\
                exists ex, exclusion rngT shuffle iter seats (mkrng seed) retry (Z.of_N count) = Some ex /\
                           l = filter (fun o => negb (memN o ex)) seats
      | ErrTooMany => len seats < Z.of_N count
      | ErrRetry => exclusion rngT shuffle iter seats (mkrng seed) retry (Z.of_N count) = None
      | Panic => False
      end.
Proof.
  intros rngT mkrng shuffle iter Hsh Hit seats seed retry count. unfold keygen, keygen_g.
  destruct (Z.ltb_spec (len seats) (Z.of_N count)) as [Hlt|Hge]; [exact Hlt|].
  destruct (exclusion rngT shuffle iter seats (mkrng seed) retry (Z.of_N count)) as [ex|] eqn:E;
    [|reflexivity].
  split; [eexists; reflexivity|]. split; [|exists ex; split; reflexivity].
  rewrite (exclusion_nth rngT shuffle iter Hsh) in E. apply nth_error_In in E.
  exact (excl_all_count rngT shuffle iter Hsh seats (mkrng seed) (Z.of_N count) ex E).
Qed.

Theorem keygen_enumeration :
  forall (rngT : Type) (shuffle : forall A : Type, rngT -> list A -> list A)
         (iter : list N -> list N),
    (forall A g l, Permutation (shuffle A g l) l) ->
    (forall l, Permutation (iter l) l) ->
    forall seats g count r1 r2,
      (r1 < r2)%N ->
      match exclusion rngT shuffle iter seats g r1 count,
            exclusion rngT shuffle iter seats g r2 count with
      | Some e1, Some e2 =>
          StronglySorted N.lt e1 /\ StronglySorted N.lt e2 /\
          (1 <= length e1 <= 3)%nat /\ (length e1 <= length e2 <= 3)%nat /\ e1 <> e2
      | Some e1, None => StronglySorted N.lt e1 /\ (1 <= length e1 <= 3)%nat
      | None, Some _ => False
      | None, None => True
      end.
Proof.
  intros rngT shuffle iter Hsh _ seats g count r1 r2.
  exact (enumeration rngT shuffle iter Hsh seats g count r1 r2).
Qed.

Theorem keygen_enumeration_complete :
  forall (rngT : Type) (shuffle : forall A : Type, rngT -> list A -> list A)
         (iter : list N -> list N),
    (forall A g l, Permutation (shuffle A g l) l) ->
    (forall l, Permutation (iter l) l) ->
    forall seats g count,
      (forall o, In o (singles iter seats count) ->
                 exists r, exclusion rngT shuffle iter seats g r count = Some [o]) /\
      (forall a b, In (a, b) (pairs iter seats count) ->
                   exists r, exclusion rngT shuffle iter seats g r count = Some [a; b]) /\
      (forall a b c, In (a, b, c) (triples iter seats count) ->
                     exists r, exclusion rngT shuffle iter seats g r count = Some [a; b; c]).
Proof.
  intros rngT shuffle iter Hsh _ seats g count. repeat split.
  - intros o H. apply (complete_gen rngT shuffle iter Hsh), (complete1 rngT shuffle iter Hsh), H.
  - intros a b H. apply (complete_gen rngT shuffle iter Hsh), (complete2 rngT shuffle iter Hsh), H.
  - intros a b c H.
    apply (complete_gen rngT shuffle iter Hsh), (complete3 rngT shuffle iter Hsh), H.
Qed.

Theorem map_order_irrelevant :
  forall (rngT : Type) (mkrng : Z -> rngT) (shuffle : forall A : Type, rngT -> list A -> list A)
         (iter iter' : list N -> list N),
    (forall l, Permutation (iter l) l) ->
    (forall l, Permutation (iter' l) l) ->
    forall seats seed retry count,
      signing rngT mkrng shuffle iter seats seed retry count =
      signing rngT mkrng shuffle iter' seats seed retry count /\
      keygen rngT mkrng shuffle iter seats seed retry count =
      keygen rngT mkrng shuffle iter' seats seed retry count.
Proof.
  intros rngT mkrng shuffle iter iter' Hit Hit' seats seed retry count.
  assert (Permutation (distinct_keys iter seats) (distinct_keys iter' seats)) as P.
  { unfold distinct_keys. eapply perm_trans; [apply Hit|apply Permutation_sym, Hit']. }
  split.
  - unfold signing. rewrite (sort_keys_perm _ _ P). reflexivity.
  - assert (forall c, singles iter seats c = singles iter' seats c) as Es.
    { intro c. unfold singles. apply sort_keys_perm, Permutation_filter, P. }
    unfold keygen, keygen_g, exclusion, triples, pairs. rewrite !Es. reflexivity.
Qed.

(* ---- the executable form ---- *)

Lemma list_eqb_eq (a : list N) : forall b, list_eqb a b = true <-> a = b.
Proof.
  induction a as [|x a IH]; intros [|y b]; cbn [list_eqb]; try (split; [discriminate|discriminate]).
  - split; reflexivity.
  - rewrite andb_true_iff, N.eqb_eq, IH. split; [intros [-> ->]; reflexivity|].
    intro E; injection E as -> ->. split; reflexivity.
Qed.

(* the boolean [whole_sublist] is exactly "l = filter keep seats for some keep" *)
Lemma whole_sublist_complete (seats : list N) (keep : N -> bool) :
  whole_sublist seats (filter keep seats) = true.
Proof.
  unfold whole_sublist. apply list_eqb_eq. apply filter_ext_in. intros s Hs.
  destruct (keep s) eqn:K.
  - symmetry. apply memN_In. apply filter_In. split; assumption.
  - symmetry. apply memN_notIn. intro H. apply filter_In in H. destruct H as [_ H]. congruence.
Qed.

Theorem out_ok_sound :
  forall seats count l,
    out_ok seats count (Ok l) = true ->
    whole_operator_sublist seats l /\ Z.of_N count <= len l.
Proof.
  intros seats count l H. cbn [out_ok] in H. apply andb_true_iff in H. destruct H as [H1 H2].
  split; [|lia]. unfold whole_sublist in H1. apply list_eqb_eq in H1.
  eexists. exact H1.
Qed.

Lemma concrete_shuffle_perm :
  forall (A : Type) (g : rng) (l : list A), Permutation (Concrete.shuffle A g l) l.
Proof. exact shuffle_with_perm. Qed.

Theorem model_outputs_pass_spec :
  forall seats seed retry count,
    out_ok seats count (Concrete.signing seats seed retry count) = true /\
    out_ok seats count (Concrete.keygen seats seed retry count) = true.
Proof.
  intros seats seed retry count.
  assert (forall l, Permutation (Concrete.iter l) l) as Hit by (intro l; apply Permutation_refl).
  split.
  - pose proof (signing_sound rng rng_seed Concrete.shuffle Concrete.iter concrete_shuffle_perm Hit
                              seats seed retry count) as H.
    unfold Concrete.signing.
    destruct (signing rng rng_seed Concrete.shuffle Concrete.iter seats seed retry count) as [l| | |];
      cbn [out_ok]; try contradiction.
    + destruct H as [[keep ->] Hc]. rewrite whole_sublist_complete. cbn [andb]. lia.
    + lia.
  - pose proof (keygen_sound rng rng_seed Concrete.shuffle Concrete.iter concrete_shuffle_perm Hit
                             seats seed retry count) as H.
    unfold Concrete.keygen.
    destruct (keygen rng rng_seed Concrete.shuffle Concrete.iter seats seed retry count) as [l| | |];
      cbn [out_ok]; try contradiction.
    + destruct H as [[keep ->] [Hc _]]. rewrite whole_sublist_complete. cbn [andb]. lia.
    + lia.
    + reflexivity.
Qed.

(* ---- the hypotheses are satisfiable and every outcome occurs: an uneven seat list (operator 1
   holds 5 of 10 seats, operator 4 holds 3) with the concrete Go permutation source ---- *)
Definition example_seats : list N := [3; 2; 4; 4; 4; 1; 1; 1; 1; 1]%N.

Example signing_example :
  Concrete.signing example_seats 42 0 6 = Ok [3; 4; 4; 4; 1; 1; 1; 1; 1]%N /\
  Concrete.signing example_seats 42 0 11 = ErrTooMany.
Proof. vm_compute. split; reflexivity. Qed.

(* three eligible single operators (operator 1 is not: excluding it leaves 5 < 6 seats), then
   the three eligible pairs, then the retries are used up *)
Example keygen_example :
  map (fun r => Concrete.keygen example_seats 42 r 6) [0; 1; 2; 3; 4; 5; 6; 7]%N =
  [Ok [3; 2; 1; 1; 1; 1; 1]; Ok [3; 4; 4; 4; 1; 1; 1; 1; 1]; Ok [2; 4; 4; 4; 1; 1; 1; 1; 1];
   Ok [2; 1; 1; 1; 1; 1]; Ok [4; 4; 4; 1; 1; 1; 1; 1]; Ok [3; 1; 1; 1; 1; 1];
   ErrRetry; ErrRetry]%N.
Proof. vm_compute. reflexivity. Qed.
