(* C39 — proofs about the model of generator.ParameterPool (Model/C39.v).  The statements
   restated in Props/C39.v are the theorems at the end of this file. *)
From Coq Require Import Arith NArith List Bool Lia Permutation.
From Coq Require Import ZifyBool ZifyNat ZifyN.
From KV Require Import Common.Verdict Model.C39.
Import ListNotations.

(* ------------------------------------------------------------------ *)
(* list facts                                                          *)
(* ------------------------------------------------------------------ *)

Lemma memN_In (x : N) (l : list N) : memN x l = true <-> In x l.
Proof.
  unfold memN. rewrite existsb_exists. split.
  - intros [y [Hy E]]. apply N.eqb_eq in E. subst. exact Hy.
  - intro H. exists x. split; [exact H|apply N.eqb_refl].
Qed.
Lemma memN_false (x : N) (l : list N) : memN x l = false <-> ~ In x l.
Proof.
  rewrite <- memN_In. destruct (memN x l); split; intro H.
  - discriminate.
  - exfalso. apply H. reflexivity.
  - intro H'. discriminate.
  - reflexivity.
Qed.

Lemma NoDup_app_iff {A} (a b : list A) :
  NoDup (a ++ b) <-> NoDup a /\ NoDup b /\ (forall x, In x a -> ~ In x b).
Proof.
  induction a as [|h t IH]; cbn [app].
  - split; [intro H; repeat split; [constructor|exact H|intros x []]|intros [_ [H _]]; exact H].
  - split.
    + intro H. inversion H as [|h' t' Hn Ht]; subst. apply IH in Ht. destruct Ht as [Ha [Hb Hd]].
      repeat split.
      * constructor; [|exact Ha]. intro Hin. apply Hn. apply in_or_app. left; exact Hin.
      * exact Hb.
      * intros x [E|Hx]; [subst; intro Hin; apply Hn; apply in_or_app; right; exact Hin|].
        apply Hd. exact Hx.
    + intros [Ha [Hb Hd]]. inversion Ha as [|h' t' Hn Ht]; subst. constructor.
      * intro Hin. apply in_app_or in Hin. destruct Hin as [Hin|Hin]; [exact (Hn Hin)|].
        exact (Hd h (or_introl eq_refl) Hin).
      * apply IH. repeat split; [exact Ht|exact Hb|]. intros x Hx. apply Hd. right; exact Hx.
Qed.

Lemma remove1_notin (x : N) (l : list N) : ~ In x l -> remove1 x l = l.
Proof.
  induction l as [|y t IH]; cbn [remove1]; [reflexivity|]. intro Hn.
  destruct (N.eqb_spec x y) as [E|E]; [exfalso; apply Hn; left; symmetry; exact E|].
  f_equal. apply IH. intro H. apply Hn. right; exact H.
Qed.
Lemma remove1_perm (x : N) (l : list N) : In x l -> Permutation l (x :: remove1 x l).
Proof.
  induction l as [|y t IH]; cbn [remove1]; [intros []|]. intro Hin.
  destruct (N.eqb_spec x y) as [E|E]; [subst; apply Permutation_refl|].
  destruct Hin as [Hy|Ht]; [exfalso; apply E; symmetry; exact Hy|].
  eapply perm_trans; [apply perm_skip; apply IH; exact Ht|apply perm_swap].
Qed.
Lemma remove1_In (x y : N) (l : list N) : In y (remove1 x l) -> In y l.
Proof.
  induction l as [|z t IH]; cbn [remove1]; [intros []|].
  destruct (N.eqb x z); [intro H; right; exact H|].
  intros [E|H]; [left; exact E|right; apply IH; exact H].
Qed.
Lemma remove1_NoDup (x : N) (l : list N) : NoDup l -> NoDup (remove1 x l).
Proof.
  induction 1 as [|y t Hn Ht IH]; cbn [remove1]; [constructor|].
  destruct (N.eqb x y); [exact Ht|]. constructor; [|exact IH].
  intro H. apply Hn. eapply remove1_In; exact H.
Qed.
Lemma remove1_gone (x : N) (l : list N) : NoDup l -> ~ In x (remove1 x l).
Proof.
  induction 1 as [|y t Hn Ht IH]; cbn [remove1]; [intros []|].
  destruct (N.eqb_spec x y) as [E|E]; [subst; exact Hn|].
  intros [H|H]; [apply E; symmetry; exact H|exact (IH H)].
Qed.
Lemma remove1_keeps (x y : N) (l : list N) : In y l -> y <> x -> In y (remove1 x l).
Proof.
  induction l as [|z t IH]; cbn [remove1]; [intros []|]. intros Hin Hne.
  destruct (N.eqb_spec x z) as [E|E].
  - subst. destruct Hin as [H|H]; [exfalso; apply Hne; symmetry; exact H|exact H].
  - destruct Hin as [H|H]; [left; exact H|right; apply IH; assumption].
Qed.

Lemma take_getter_perm (t : N) (l : list (N * N)) (x : N) (g : list (N * N)) :
  take_getter t l = Some (x, g) -> Permutation (map snd l) (x :: map snd g).
Proof.
  revert x g. induction l as [|[t' y] r IH]; cbn [take_getter]; [discriminate|]. intros x g.
  destruct (N.eqb t t').
  - intro E. inversion E; subst. apply Permutation_refl.
  - destruct (take_getter t r) as [[z r']|]; [|discriminate]. intro E. inversion E; subst.
    cbn [map snd]. eapply perm_trans; [apply perm_skip; apply IH; reflexivity|apply perm_swap].
Qed.

Lemma firstn_In {A} (n : nat) (l : list A) (x : A) : In x (firstn n l) -> In x l.
Proof.
  revert l. induction n as [|n IH]; intros [|a t]; cbn [firstn]; try (intro H0; exact H0); try (intros []; fail).
  intros [E|H]; [left; exact E|right; apply IH; exact H].
Qed.
Lemma firstn_NoDup {A} (n : nat) (l : list A) : NoDup l -> NoDup (firstn n l).
Proof.
  revert l. induction n as [|n IH]; intros [|a t] H; cbn [firstn]; try constructor.
  - inversion H; subst. intro Hin. apply firstn_In in Hin. contradiction.
  - inversion H; subst. apply IH. assumption.
Qed.

(* [l'] is contained in [l] as a multiset *)
Definition subperm (l' l : list N) : Prop := exists r, Permutation (l' ++ r) l.
Lemma subperm_NoDup l' l : subperm l' l -> NoDup l -> NoDup l'.
Proof.
  intros [r P] H. apply Permutation_sym in P. apply (Permutation_NoDup P) in H.
  apply NoDup_app_iff in H. tauto.
Qed.
Lemma subperm_In l' l x : subperm l' l -> In x l' -> In x l.
Proof.
  intros [r P] H. eapply Permutation_in; [exact P|]. apply in_or_app. left; exact H.
Qed.
Lemma subperm_of_perm l' l : Permutation l' l -> subperm l' l.
Proof. intro P. exists []. rewrite app_nil_r. exact P. Qed.

Lemma perm_mid3 (a b c : list N) (x : N) : Permutation (a ++ b ++ x :: c) (x :: a ++ b ++ c).
Proof. apply Permutation_sym. rewrite !app_assoc. apply Permutation_middle. Qed.
Lemma perm_mid (a b c : list N) (x : N) : Permutation (a ++ (b ++ [x]) ++ c) (x :: a ++ b ++ c).
Proof. rewrite <- app_assoc. cbn [app]. apply perm_mid3. Qed.
Lemma perm_end (a b c : list N) (x : N) : Permutation (a ++ b ++ c ++ [x]) (x :: a ++ b ++ c).
Proof. apply Permutation_sym. rewrite !app_assoc. apply Permutation_cons_append. Qed.

(* ------------------------------------------------------------------ *)
(* the invariant                                                       *)
(* ------------------------------------------------------------------ *)

(* everything the process holds in memory: channel buffer, blocked senders, GetNow callers *)
Definition held (s : mst) : list N := pool s ++ saved s ++ map snd (getters s).

Record Inv (k : nat) (s : mst) : Prop := {
  inv_store : NoDup (store s);
  inv_held : NoDup (held s);
  inv_incl : forall x, In x (held s) -> In x (store s);
  inv_hs : forall x, In x (handed s) -> ~ In x (store s);
  inv_handed : NoDup (handed s);
  inv_len : length (pool s) <= k }.

Lemma inv_sub k s s' :
  Inv k s -> store s' = store s -> handed s' = handed s ->
  subperm (held s') (held s) -> length (pool s') <= k -> Inv k s'.
Proof.
  intros [I1 I2 I3 I4 I5 I6] Es Eh Hsub Hlen. constructor.
  - rewrite Es. exact I1.
  - eapply subperm_NoDup; eassumption.
  - intros x Hx. rewrite Es. apply I3. eapply subperm_In; eassumption.
  - rewrite Es, Eh. exact I4.
  - rewrite Eh. exact I5.
  - exact Hlen.
Qed.

Lemma push_inv k s v : Inv k s -> Inv k (push k s v).
Proof.
  intro I. unfold push.
  destruct (memN v (saved s)) eqn:Em; cbn [andb]; [|exact I].
  destruct (Nat.ltb_spec (length (pool s)) k) as [Hlt|Hge]; [|exact I].
  apply memN_In in Em.
  eapply inv_sub; [exact I|reflexivity|reflexivity| |].
  - apply subperm_of_perm. unfold held; cbn [pool saved getters].
    rewrite <- app_assoc. apply Permutation_app_head. cbn [app].
    apply Permutation_sym. eapply perm_trans.
    + apply Permutation_app_tail. apply remove1_perm. exact Em.
    + apply Permutation_refl.
  - cbn [pool]. rewrite app_length. cbn [length]. lia.
Qed.

Lemma push_all_inv k l : forall s, Inv k s -> Inv k (fold_left (push k) l s).
Proof.
  induction l as [|v t IH]; intros s I; cbn [fold_left]; [exact I|].
  apply IH. apply push_inv. exact I.
Qed.

Lemma push_frame k s v : store (push k s v) = store s /\ handed (push k s v) = handed s.
Proof.
  unfold push. destruct (memN v (saved s) && Nat.ltb (length (pool s)) k); split; reflexivity.
Qed.
Lemma push_all_frame k l : forall s,
  store (fold_left (push k) l s) = store s /\ handed (fold_left (push k) l s) = handed s.
Proof.
  induction l as [|v t IH]; intros s; cbn [fold_left]; [split; reflexivity|].
  destruct (IH (push k s v)) as [E1 E2]. destruct (push_frame k s v) as [F1 F2].
  rewrite E1, E2, F1, F2. split; reflexivity.
Qed.

(* a freshly generated value: the generator never repeats itself *)
Definition fresh (s : mst) (o : mop) : Prop :=
  match o with MSave v _ => ~ In v (store s) /\ ~ In v (handed s) | _ => True end.

Lemma held_in_store_not k s x : Inv k s -> ~ In x (store s) -> ~ In x (held s).
Proof. intros I Hn Hin. apply Hn. apply (inv_incl k s I). exact Hin. Qed.

Lemma step_inv k s o : Inv k s -> fresh s o -> Inv k (fst (mstep k s o)).
Proof.
  intros I Hf. destruct o as [v f|v| |v| |t|t f|f]; cbn [mstep fst].
  - (* MSave *)
    destruct Hf as [Hns Hnh]. pose proof I as [I1 I2 I3 I4 I5 I6].
    assert (Hnheld : ~ In v (held s)) by (eapply held_in_store_not; eassumption).
    destruct f; cbn [fst].
    + constructor; cbn [store held pool saved getters handed].
      * apply NoDup_app_iff. repeat split; [exact I1|constructor; [intros []|constructor]|].
        intros x Hx [E|[]]. subst. contradiction.
      * assert (P : Permutation (pool s ++ (saved s ++ [v]) ++ map snd (getters s)) (v :: held s)).
        { unfold held. apply perm_mid. }
        eapply Permutation_NoDup; [apply Permutation_sym; exact P|]. constructor; assumption.
      * intros x Hx.
        assert (Hx' : In x (v :: held s)).
        { eapply Permutation_in; [|exact Hx]. unfold held. apply perm_mid. }
        apply in_or_app. destruct Hx' as [E|Hx']; [right; left; exact E|left; apply I3; exact Hx'].
      * intros x Hx Hin. apply in_app_or in Hin. destruct Hin as [Hin|[E|[]]].
        -- exact (I4 x Hx Hin).
        -- subst. contradiction.
      * exact I5.
      * exact I6.
    + exact I.
    + constructor; cbn [store held pool saved getters handed].
      * apply NoDup_app_iff. repeat split; [exact I1|constructor; [intros []|constructor]|].
        intros x Hx [E|[]]. subst. contradiction.
      * exact I2.
      * intros x Hx. apply in_or_app. left. apply I3. exact Hx.
      * intros x Hx Hin. apply in_app_or in Hin. destruct Hin as [Hin|[E|[]]].
        -- exact (I4 x Hx Hin).
        -- subst. contradiction.
      * exact I5.
      * exact I6.
  - apply push_inv. exact I.
  - apply push_all_inv. exact I.
  - (* MDrop *)
    eapply inv_sub; [exact I|reflexivity|reflexivity| |exact (inv_len k s I)].
    unfold held; cbn [pool saved getters].
    destruct (in_dec N.eq_dec v (saved s)) as [Hin|Hnin].
    + exists [v]. eapply perm_trans; [apply Permutation_sym; apply Permutation_cons_append|].
      apply perm_trans with (pool s ++ (v :: remove1 v (saved s)) ++ map snd (getters s)).
      * cbn [app]. apply Permutation_middle.
      * apply Permutation_app_head. apply Permutation_app_tail. apply Permutation_sym.
        apply remove1_perm. exact Hin.
    + rewrite remove1_notin by exact Hnin. apply subperm_of_perm. apply Permutation_refl.
  - (* MDropAll *)
    eapply inv_sub; [exact I|reflexivity|reflexivity| |exact (inv_len k s I)].
    unfold held; cbn [pool saved getters app]. exists (saved s).
    rewrite <- app_assoc. apply Permutation_app_head. apply Permutation_app_comm.
  - (* MRecv *)
    destruct (pool s) as [|x r] eqn:Ep.
    + destruct (saved s) as [|x r] eqn:Es; cbn [fst]; [exact I|].
      eapply inv_sub; [exact I|reflexivity|reflexivity| |cbn [pool length]; lia].
      apply subperm_of_perm. unfold held; cbn [pool saved getters]. rewrite Ep, Es. cbn [app].
      rewrite map_app. cbn [map snd]. apply Permutation_sym. rewrite app_assoc.
      apply Permutation_cons_append.
    + cbn [fst]. eapply inv_sub; [exact I|reflexivity|reflexivity| |].
      * apply subperm_of_perm. unfold held; cbn [pool saved getters]. rewrite Ep. cbn [app].
        rewrite map_app. cbn [map snd]. apply perm_end.
      * pose proof (inv_len k s I) as H. rewrite Ep in H. cbn [pool length] in *. lia.
  - (* MDel *)
    destruct (take_getter t (getters s)) as [[x g]|] eqn:Et; cbn [fst]; [|exact I].
    pose proof (take_getter_perm _ _ _ _ Et) as P.
    assert (Ph : Permutation (held s) (x :: pool s ++ saved s ++ map snd g)).
    { unfold held. eapply perm_trans; [apply Permutation_app_head; apply Permutation_app_head; exact P|].
      apply perm_mid3. }
    pose proof I as [I1 I2 I3 I4 I5 I6].
    assert (Hxs : In x (store s)).
    { apply I3. eapply Permutation_in; [apply Permutation_sym; exact Ph|]. left; reflexivity. }
    assert (Hnd : NoDup (x :: pool s ++ saved s ++ map snd g)).
    { eapply Permutation_NoDup; [exact Ph|exact I2]. }
    inversion Hnd as [|x' l' Hxn Hnd']; subst.
    assert (Hsubst : forall y, In y (pool s ++ saved s ++ map snd g) -> In y (store s) /\ y <> x).
    { intros y Hy. split.
      - apply I3. eapply Permutation_in; [apply Permutation_sym; exact Ph|]. right; exact Hy.
      - intro E. subst. contradiction. }
    destruct f; cbn [fst].
    + constructor; cbn [store held pool saved getters handed].
      * apply remove1_NoDup. exact I1.
      * exact Hnd'.
      * intros y Hy. destruct (Hsubst y Hy) as [Hys Hne]. apply remove1_keeps; assumption.
      * intros y Hy Hin. apply in_app_or in Hy. destruct Hy as [Hy|[E|[]]].
        -- apply (I4 y Hy). eapply remove1_In; exact Hin.
        -- subst. exact (remove1_gone y (store s) I1 Hin).
      * apply NoDup_app_iff. repeat split; [exact I5|constructor; [intros []|constructor]|].
        intros y Hy [E|[]]. subst. exact (I4 y Hy Hxs).
      * exact I6.
    + eapply inv_sub; [exact I|reflexivity|reflexivity| |exact I6].
      exists [x]. unfold held at 1; cbn [pool saved getters].
      eapply perm_trans; [|apply Permutation_sym; exact Ph].
      apply Permutation_sym. apply Permutation_cons_append.
    + constructor; cbn [store held pool saved getters handed].
      * apply remove1_NoDup. exact I1.
      * exact Hnd'.
      * intros y Hy. destruct (Hsubst y Hy) as [Hys Hne]. apply remove1_keeps; assumption.
      * intros y Hy Hin. apply (I4 y Hy). eapply remove1_In; exact Hin.
      * exact I5.
      * exact I6.
  - (* MRestart *)
    pose proof I as [I1 I2 I3 I4 I5 I6].
    constructor; cbn [store held pool saved getters handed map app]; try assumption.
    + rewrite app_nil_r. destruct f; [apply firstn_NoDup; exact I1|constructor].
    + intros x Hx. rewrite app_nil_r in Hx. destruct f; [eapply firstn_In; exact Hx|destruct Hx].
    + destruct f; [|cbn [length]; lia]. rewrite firstn_length. lia.
Qed.

(* what a step can add to the storage / to the handed-out values *)
Lemma step_footprint k s o y :
  Inv k s ->
  In y (store (fst (mstep k s o))) \/ In y (handed (fst (mstep k s o))) ->
  In y (store s) \/ In y (handed s) \/ exists f, o = MSave y f.
Proof.
  intros I. destruct o as [v f|v| |v| |t|t f|f]; cbn [mstep fst].
  - destruct f; cbn [fst store handed]; try tauto.
    + intros [H|H]; [|tauto]. apply in_app_or in H. destruct H as [H|[E|[]]]; [tauto|].
      subst. right; right. eexists; reflexivity.
    + intros [H|H]; [|tauto]. apply in_app_or in H. destruct H as [H|[E|[]]]; [tauto|].
      subst. right; right. eexists; reflexivity.
  - destruct (push_frame k s v) as [E1 E2]. rewrite E1, E2. tauto.
  - destruct (push_all_frame k (saved s) s) as [E1 E2]. rewrite E1, E2. tauto.
  - cbn [store handed]. tauto.
  - cbn [store handed]. tauto.
  - destruct (pool s); [destruct (saved s)|]; cbn [fst store handed]; tauto.
  - destruct (take_getter t (getters s)) as [[x g]|] eqn:Et; cbn [fst]; [|tauto].
    assert (Hxs : In x (store s)).
    { apply (inv_incl k s I). unfold held. apply in_or_app. right. apply in_or_app. right.
      eapply Permutation_in; [apply Permutation_sym; eapply take_getter_perm; exact Et|]. left; reflexivity. }
    destruct f; cbn [fst store handed].
    + intros [H|H]; [left; eapply remove1_In; exact H|].
      apply in_app_or in H. destruct H as [H|[E|[]]]; [tauto|subst; tauto].
    + tauto.
    + intros [H|H]; [left; eapply remove1_In; exact H|tauto].
  - cbn [store handed]. tauto.
Qed.

Lemma step_handed_mono k s o x : In x (handed s) -> In x (handed (fst (mstep k s o))).
Proof.
  intro H. destruct o as [v f|v| |v| |t|t f|f]; cbn [mstep fst].
  - destruct f; exact H.
  - rewrite (proj2 (push_frame k s v)). exact H.
  - rewrite (proj2 (push_all_frame k (saved s) s)). exact H.
  - exact H.
  - exact H.
  - destruct (pool s); [destruct (saved s)|]; exact H.
  - destruct (take_getter t (getters s)) as [[y g]|]; [|exact H].
    destruct f; cbn [fst handed]; [apply in_or_app; left; exact H|exact H|exact H].
  - exact H.
Qed.

(* ------------------------------------------------------------------ *)
(* histories                                                           *)
(* ------------------------------------------------------------------ *)

Definition fresh_hist (s : mst) (ops : list mop) : Prop :=
  NoDup (gens ops) /\ forall v, In v (gens ops) -> ~ In v (store s) /\ ~ In v (handed s).

Lemma fresh_hist_step k s o ops :
  Inv k s -> fresh_hist s (o :: ops) -> fresh s o /\ fresh_hist (fst (mstep k s o)) ops.
Proof.
  intros I [Hnd Hfr]. split.
  - destruct o as [v f|v| |v| |t|t f|f]; cbn [fresh]; try exact Logic.I.
    apply Hfr. cbn [gens]. left; reflexivity.
  - assert (Hsub : forall v, In v (gens ops) -> In v (gens (o :: ops))).
    { intros v Hv. destruct o; cbn [gens]; try exact Hv. right; exact Hv. }
    split.
    + destruct o; cbn [gens] in Hnd; try exact Hnd. inversion Hnd; assumption.
    + intros v Hv.
      assert (Hno : ~ (In v (store (fst (mstep k s o))) \/ In v (handed (fst (mstep k s o))))).
      { intro H. apply (step_footprint k s o v I) in H. destruct (Hfr v (Hsub v Hv)) as [H1 H2].
        destruct H as [H|[H|[f E]]]; [exact (H1 H)|exact (H2 H)|].
        subst o. cbn [gens] in Hnd. inversion Hnd; subst. contradiction. }
      tauto.
Qed.

Lemma run_inv k ops : forall s, Inv k s -> fresh_hist s ops -> Inv k (mrun k s ops).
Proof.
  unfold mrun. induction ops as [|o t IH]; intros s I Hf; cbn [fold_left]; [exact I|].
  destruct (fresh_hist_step k s o t I Hf) as [Hfo Hft].
  apply IH; [apply step_inv; assumption|exact Hft].
Qed.

Lemma run_app k s a b : mrun k s (a ++ b) = mrun k (mrun k s a) b.
Proof. unfold mrun. apply fold_left_app. Qed.

Lemma run_handed_mono k ops : forall s x, In x (handed s) -> In x (handed (mrun k s ops)).
Proof.
  unfold mrun. induction ops as [|o t IH]; intros s x H; cbn [fold_left]; [exact H|].
  apply IH. apply step_handed_mono. exact H.
Qed.

Lemma run_footprint k ops : forall s y,
  Inv k s -> fresh_hist s ops ->
  In y (store (mrun k s ops)) \/ In y (handed (mrun k s ops)) ->
  In y (store s) \/ In y (handed s) \/ In y (gens ops).
Proof.
  unfold mrun. induction ops as [|o t IH]; intros s y I Hf; cbn [fold_left]; [tauto|].
  destruct (fresh_hist_step k s o t I Hf) as [Hfo Hft].
  intro H. apply IH in H; [|apply step_inv; assumption|exact Hft].
  destruct H as [H|[H|H]].
  - destruct (step_footprint k s o y I (or_introl H)) as [H'|[H'|[f E]]]; [tauto|tauto|].
    subst. cbn [gens]. right; right; left; reflexivity.
  - destruct (step_footprint k s o y I (or_intror H)) as [H'|[H'|[f E]]]; [tauto|tauto|].
    subst. cbn [gens]. right; right; left; reflexivity.
  - right; right. destruct o; cbn [gens]; try exact H. right; exact H.
Qed.

Lemma gens_app a b : gens (a ++ b) = gens a ++ gens b.
Proof.
  induction a as [|o t IH]; cbn [app gens]; [reflexivity|].
  destruct o; cbn [gens app]; rewrite ?IH; reflexivity.
Qed.

Lemma boot_inv k st0 f : NoDup st0 -> Inv k (boot k st0 f).
Proof.
  intro H. unfold boot. apply step_inv; [|exact Logic.I].
  constructor; cbn [store held pool saved getters handed map app length].
  - exact H.
  - constructor.
  - intros x [].
  - intros x [].
  - constructor.
  - lia.
Qed.

Lemma boot_frame k st0 f : store (boot k st0 f) = st0 /\ handed (boot k st0 f) = [].
Proof. unfold boot. cbn [mstep fst store handed]. split; reflexivity. Qed.

(* the hypothesis of the theorems: the generator never repeats itself and never produces
   something that is already stored *)
Definition hist_ok (st0 : list N) (ops : list mop) : Prop := NoDup (st0 ++ gens ops).

Lemma hist_ok_fresh k st0 f ops : hist_ok st0 ops -> NoDup st0 /\ fresh_hist (boot k st0 f) ops.
Proof.
  unfold hist_ok. intro H. apply NoDup_app_iff in H. destruct H as [H1 [H2 H3]].
  split; [exact H1|]. split; [exact H2|]. intros v Hv.
  destruct (boot_frame k st0 f) as [E1 E2]. rewrite E1, E2. split; [|intros []].
  intro Hin. exact (H3 v Hin Hv).
Qed.

Lemma reach_inv k st0 f ops : hist_ok st0 ops -> Inv k (mrun k (boot k st0 f) ops).
Proof.
  intro H. destruct (hist_ok_fresh k st0 f ops H) as [H1 H2].
  apply run_inv; [apply boot_inv; exact H1|exact H2].
Qed.

(* ---- the theorems about all histories ---- *)

Theorem no_value_handed_out_twice k st0 f ops :
  hist_ok st0 ops -> NoDup (handed (mrun k (boot k st0 f) ops)).
Proof. intro H. exact (inv_handed _ _ (reach_inv k st0 f ops H)). Qed.

Theorem handed_values_are_genuine k st0 f ops x :
  hist_ok st0 ops -> In x (handed (mrun k (boot k st0 f) ops)) -> In x (st0 ++ gens ops).
Proof.
  intros H Hx. destruct (hist_ok_fresh k st0 f ops H) as [H1 H2].
  destruct (run_footprint k ops (boot k st0 f) x (boot_inv k st0 f H1) H2 (or_intror Hx)) as [Hs|[Hh|Hg]].
  - rewrite (proj1 (boot_frame k st0 f)) in Hs. apply in_or_app. left; exact Hs.
  - rewrite (proj2 (boot_frame k st0 f)) in Hh. destruct Hh.
  - apply in_or_app. right; exact Hg.
Qed.

Theorem pool_never_exceeds_capacity k st0 f ops :
  hist_ok st0 ops -> length (pool (mrun k (boot k st0 f) ops)) <= k.
Proof. intro H. exact (inv_len _ _ (reach_inv k st0 f ops H)). Qed.

Theorem handed_out_is_gone_for_good k st0 f ops1 ops2 x :
  hist_ok st0 (ops1 ++ ops2) ->
  In x (handed (mrun k (boot k st0 f) ops1)) ->
  let s := mrun k (boot k st0 f) (ops1 ++ ops2) in
  ~ In x (store s) /\ ~ In x (pool s) /\ ~ In x (saved s) /\ ~ In x (map snd (getters s)).
Proof.
  intros H Hx s. pose proof (reach_inv k st0 f _ H) as I. fold s in I.
  assert (Hh : In x (handed s)).
  { unfold s. rewrite run_app. apply run_handed_mono. exact Hx. }
  assert (Hns : ~ In x (store s)) by (apply (inv_hs k s I); exact Hh).
  assert (Hnh : ~ In x (held s)) by (eapply held_in_store_not; eassumption).
  unfold held in Hnh. repeat split; [exact Hns| | |]; intro Hin; apply Hnh; apply in_or_app.
  - left; exact Hin.
  - right; apply in_or_app; left; exact Hin.
  - right; apply in_or_app; right; exact Hin.
Qed.

(* a value is returned only by the step in which Delete succeeded *)
Theorem handout_step_deleted_first k s o s' x :
  mstep k s o = (s', RVal x) ->
  (exists t, o = MDel t DelOk) /\ store s' = remove1 x (store s) /\ handed s' = handed s ++ [x] /\
  (NoDup (store s) -> ~ In x (store s')).
Proof.
  destruct o as [v f|v| |v| |t|t f|f]; cbn [mstep].
  - destruct f; intro E; inversion E.
  - intro E; inversion E.
  - intro E; inversion E.
  - intro E; inversion E.
  - intro E; inversion E.
  - destruct (pool s); [destruct (saved s)|]; intro E; inversion E.
  - destruct (take_getter t (getters s)) as [[y g]|]; [|intro E; inversion E].
    destruct f; intro E; inversion E; subst. cbn [store handed].
    repeat split; [exists t; reflexivity|]. intro H. apply remove1_gone. exact H.
  - intro E; inversion E.
Qed.

(* ------------------------------------------------------------------ *)
(* the driver's operations are histories                               *)
(* ------------------------------------------------------------------ *)

Fixpoint crun (k : nat) (w : faults) (s : mst) (ops : list op) : mst :=
  match ops with
  | [] => s
  | o :: t => crun k (wnext w o) (fst (cstep k w s o)) t
  end.

Theorem driver_histories_are_histories k ops : forall w s,
  crun k w s ops = mrun k s (hist w ops).
Proof.
  induction ops as [|o t IH]; intros w s; cbn [crun hist]; [reflexivity|].
  rewrite run_app. rewrite IH. unfold cstep. cbn [fst]. reflexivity.
Qed.

Lemma gens_expand1 w o : gens (expand w o) = op_gens o.
Proof. destruct o as [v f|  |v b|t'|t' f|t'| | |f|f d|f d|f d]; reflexivity. Qed.

Lemma gens_hist ops : forall w, gens (hist w ops) = flat_map op_gens ops.
Proof.
  induction ops as [|o t IH]; intro w; cbn [hist flat_map]; [reflexivity|].
  rewrite gens_app, IH, gens_expand1. reflexivity.
Qed.

(* a fault window that is open decides the outcome of the call, one that is closed leaves it
   to the operation; [d] calls after [Calls d] was set the window is closed again, a [Forever]
   window never closes *)
Lemma eff_open {A} (w : A * dur) (f : A) : active (snd w) = true -> eff w f = fst w.
Proof. unfold eff. intro H. rewrite H. reflexivity. Qed.
Lemma eff_closed {A} (w : A * dur) (f : A) : active (snd w) = false -> eff w f = f.
Proof. unfold eff. intro H. rewrite H. reflexivity. Qed.
Fixpoint ticks (m : nat) (d : dur) : dur :=
  match m with 0 => d | S m' => tick (ticks m' d) end.
Lemma tick_iter_calls (n m : nat) :
  ticks m (Calls (N.of_nat n)) = Calls (N.of_nat (n - m)).
Proof.
  revert n. induction m as [|m IH]; intro n; cbn [ticks]; [rewrite Nat.sub_0_r; reflexivity|].
  rewrite IH. cbn [tick]. f_equal. lia.
Qed.
Theorem window_lasts_exactly (n m : nat) :
  active (ticks m (Calls (N.of_nat n))) = Nat.ltb m n /\
  active (ticks m Forever) = true.
Proof.
  split.
  - rewrite tick_iter_calls. cbn [active].
    destruct (Nat.ltb_spec m n) as [H|H]; destruct (N.eqb_spec (N.of_nat (n - m)) 0) as [E|E];
      cbn [negb]; try reflexivity; exfalso; lia.
  - assert (E : ticks m Forever = Forever).
    { induction m as [|m IH]; cbn [ticks]; [reflexivity|]. rewrite IH. reflexivity. }
    rewrite E. reflexivity.
Qed.

(* while the Delete window is open with an error, GetNow hands out nothing: the single Delete
   attempt of pool.go fails and the call returns the error *)
Theorem failing_delete_hands_out_nothing k w s t f x :
  active (snd (fw_del w)) = true -> fst (fw_del w) <> DelOk ->
  snd (cstep k w s (GetEnd t f)) <> RVal x /\
  handed (fst (cstep k w s (GetEnd t f))) = handed s.
Proof.
  intros Ha Hf. unfold cstep. cbn [expand fst snd mrun fold_left]. rewrite (eff_open _ f Ha).
  cbn [mstep]. destruct (take_getter t (getters s)) as [[y g]|]; [|split; [discriminate|reflexivity]].
  destruct (fst (fw_del w)); [contradiction| |]; cbn [fst snd handed]; split; try discriminate; reflexivity.
Qed.

(* what one operation hands out is what its observable result says *)
Lemma cstep_handed k w s o : handed (fst (cstep k w s o)) = handed s ++ res_handed (snd (cstep k w s o)).
Proof.
  unfold cstep. cbn [fst snd]. destruct o as [v f|  |v b|t|t f|t| | |f|f d|f d|f d]; cbn [expand mrun fold_left].
  - cbn [mstep fst snd]. rewrite (proj2 (push_all_frame k _ _)).
    destruct (eff (fw_save w) f); cbn [mstep fst snd handed res_handed]; rewrite app_nil_r; reflexivity.
  - cbn [res_handed]. rewrite app_nil_r. reflexivity.
  - destruct b; cbn [mstep fst snd handed res_handed]; rewrite app_nil_r; reflexivity.
  - cbn [mstep fst snd]. rewrite (proj2 (push_all_frame k _ _)).
    destruct (pool s); [destruct (saved s)|]; cbn [fst snd handed res_handed]; rewrite app_nil_r; reflexivity.
  - cbn [mstep]. destruct (take_getter t (getters s)) as [[x g]|];
      [destruct (eff (fw_del w) f)|]; cbn [fst snd handed res_handed]; rewrite ?app_nil_r; reflexivity.
  - cbn [mstep]. destruct (take_getter t (getters s)) as [[x g]|];
      cbn [fst snd handed res_handed]; rewrite ?app_nil_r; reflexivity.
  - cbn [mstep fst snd handed res_handed]. rewrite app_nil_r. reflexivity.
  - cbn [res_handed]. rewrite app_nil_r. reflexivity.
  - cbn [mstep fst snd handed res_handed]. rewrite app_nil_r. reflexivity.
  - cbn [res_handed]. rewrite app_nil_r. reflexivity.
  - cbn [res_handed]. rewrite app_nil_r. reflexivity.
  - cbn [res_handed]. rewrite app_nil_r. reflexivity.
Qed.

(* ------------------------------------------------------------------ *)
(* the executable property                                             *)
(* ------------------------------------------------------------------ *)

Lemma disjointb_spec (a b : list N) :
  disjointb a b = true <-> forall x, In x a -> ~ In x b.
Proof.
  unfold disjointb. rewrite forallb_forall. split.
  - intros H x Hx. apply memN_false. specialize (H x Hx). destruct (memN x b); [discriminate|reflexivity].
  - intros H x Hx. apply (proj2 (memN_false x b)) in H; [|exact Hx]. rewrite H. reflexivity.
Qed.

Lemma res_handed_cases r : res_handed r = [] \/ exists x, r = RVal x /\ res_handed r = [x].
Proof. destruct r; cbn [res_handed]; try (left; reflexivity). right. eexists; split; reflexivity. Qed.

Definition obs_fine (k : N) (ob : obs) : Prop :=
  (o_count ob <= k)%N /\ o_res ob <> RPanic /\ o_res ob <> RNil.

Lemma obs_ok_elim k known hd ob :
  obs_ok k known hd ob = true ->
  obs_fine k ob /\ o_kept ob = false /\
  (forall x, In x (res_handed (o_res ob)) -> In x known /\ ~ In x hd) /\
  (forall x, In x (res_handed (o_res ob) ++ hd) -> ~ In x (o_store ob)).
Proof.
  unfold obs_ok. intro H. apply andb_prop in H. destruct H as [H H4].
  apply andb_prop in H. destruct H as [H H3]. apply andb_prop in H.
  destruct H as [H1 H2]. apply N.leb_le in H2. rewrite disjointb_spec in H3.
  split; [|split; [|split]].
  - split; [exact H2|]. destruct (o_res ob); try discriminate; split; discriminate.
  - destruct (o_kept ob); [discriminate|reflexivity].
  - intros x Hx. destruct (o_res ob); cbn [res_handed] in Hx; try (destruct Hx; fail).
    destruct Hx as [E|[]]. subst. apply andb_prop in H1. destruct H1 as [Ha Hb].
    apply memN_In in Ha. split; [exact Ha|]. apply memN_false. destruct (memN x hd); [discriminate|reflexivity].
  - exact H3.
Qed.

Lemma steps_ok_sound k : forall steps known hd,
  steps_ok k known hd steps = true -> NoDup hd ->
  NoDup (handed_obs (map snd steps) ++ hd) /\
  (forall x, In x (handed_obs (map snd steps)) ->
             In x (flat_map (fun so => op_gens (fst so)) steps ++ known)) /\
  (forall ob, In ob (map snd steps) -> obs_fine k ob /\ o_kept ob = false) /\
  (forall l1 ob l2, map snd steps = l1 ++ ob :: l2 ->
     forall x, In x (handed_obs (l1 ++ [ob])) \/ In x hd -> ~ In x (o_store ob)).
Proof.
  induction steps as [|[o ob] t IH]; intros known hd Hok Hnd.
  - cbn [map handed_obs flat_map app]. split; [exact Hnd|]. split; [intros x []|]. split; [intros ob []|].
    intros l1 ob l2 E. destruct l1; discriminate.
  - cbn [steps_ok] in Hok. apply andb_prop in Hok. destruct Hok as [Hob Ht].
    apply obs_ok_elim in Hob. destruct Hob as [Hfine [Hkept [Hrh Hdis]]].
    set (rh := res_handed (o_res ob)) in *.
    assert (Hnd' : NoDup (rh ++ hd)).
    { destruct (res_handed_cases (o_res ob)) as [E|[x [_ E]]]; fold rh in E; rewrite E; [exact Hnd|].
      cbn [app]. constructor; [|exact Hnd]. apply Hrh. rewrite E. left; reflexivity. }
    destruct (IH _ _ Ht Hnd') as [J1 [J2 [J3 J4]]].
    cbn [map snd handed_obs flat_map fst]. fold (handed_obs (map snd t)). fold rh.
    split; [|split; [|split]].
    + eapply Permutation_NoDup; [|exact J1].
      rewrite <- app_assoc. rewrite !app_assoc. apply Permutation_app_tail. apply Permutation_app_comm.
    + intros x Hx. apply in_app_or in Hx. destruct Hx as [Hx|Hx].
      * destruct (Hrh x Hx) as [Hk _]. apply in_app_or in Hk. apply in_or_app.
        destruct Hk as [Hk|Hk]; [left; apply in_or_app; left; exact Hk|right; exact Hk].
      * apply J2 in Hx. apply in_app_or in Hx. apply in_or_app. destruct Hx as [Hx|Hx].
        -- left. apply in_or_app. right; exact Hx.
        -- apply in_app_or in Hx. destruct Hx as [Hx|Hx]; [left; apply in_or_app; left; exact Hx|right; exact Hx].
    + intros ob' [E|Hin]; [subst; split; [exact Hfine|exact Hkept]|apply J3; exact Hin].
    + intros l1 ob' l2 E x Hx. destruct l1 as [|ob0 l1'].
      * cbn [app] in E. inversion E; subst. apply Hdis. cbn [app handed_obs flat_map] in Hx.
        rewrite app_nil_r in Hx. fold rh in Hx. apply in_or_app. exact Hx.
      * cbn [app] in E. inversion E; subst. apply (J4 l1' ob' l2 H1 x).
        cbn [app handed_obs flat_map] in Hx. fold (handed_obs (l1' ++ [ob'])) in Hx. fold rh in Hx.
        destruct Hx as [Hx|Hx].
        -- apply in_app_or in Hx. destruct Hx as [Hx|Hx]; [right; apply in_or_app; left; exact Hx|left; exact Hx].
        -- right. apply in_or_app. right; exact Hx.
Qed.

Theorem spec_ok_sound c : spec_ok c = true -> spec_prop c.
Proof.
  unfold spec_ok, spec_prop. intro H.
  destruct (steps_ok_sound _ _ _ _ H (NoDup_nil N)) as [J1 [J2 [J3 J4]]].
  cbn [map snd flat_map fst op_gens app] in J1, J2, J3, J4. rewrite app_nil_r in J1.
  unfold obs_list, case_gens.
  split; [exact J1|]. split; [|split; [intros ob Hob; exact (proj1 (J3 ob Hob))|split; [intros ob Hob; exact (proj2 (J3 ob Hob))|]]].
  { intros x Hx. apply J2 in Hx. apply in_app_or in Hx. apply in_or_app. tauto. }
  intros l1 ob l2 E x Hx. apply (J4 l1 ob l2 E x). left; exact Hx.
Qed.

(* ---- the model's own observations satisfy the executable property ---- *)

Lemma cstep_res_fine k w s o : snd (cstep k w s o) <> RPanic /\ snd (cstep k w s o) <> RNil.
Proof.
  unfold cstep. cbn [snd]. destruct o as [v f|  |v b|t|t f|t| | |f|f d|f d|f d]; cbn [expand]; try (split; discriminate).
  - destruct (eff (fw_save w) f); cbn [mstep snd]; split; discriminate.
  - destruct b; cbn [mstep snd]; split; discriminate.
  - cbn [mstep]. destruct (pool s); [destruct (saved s)|]; cbn [snd]; split; discriminate.
  - cbn [mstep]. destruct (take_getter t (getters s)) as [[x g]|]; [destruct (eff (fw_del w) f)|]; cbn [snd]; split; discriminate.
Qed.

Lemma one_gen_fresh w s o known :
  (forall x, In x (store s) \/ In x (handed s) -> In x known) ->
  (forall v, In v (op_gens o) -> ~ In v known) ->
  fresh_hist s (expand w o).
Proof.
  intros Hk Hf. rewrite <- (gens_expand1 w) in Hf. split.
  - rewrite gens_expand1. destruct o; cbn [op_gens]; repeat constructor; intros [].
  - intros v Hv. specialize (Hf v Hv). split; intro H; apply Hf; apply Hk; tauto.
Qed.

Lemma model_steps_ok k : forall ops w s known hd,
  Inv k s -> (forall x, In x hd <-> In x (handed s)) ->
  (forall x, In x (store s) \/ In x (handed s) -> In x known) ->
  NoDup (flat_map op_gens ops) -> (forall v, In v (flat_map op_gens ops) -> ~ In v known) ->
  steps_ok (N.of_nat k) known hd (model_steps k w s ops) = true.
Proof.
  induction ops as [|o t IH]; intros w s known hd I Hhd Hk Hnd Hfr; cbn [model_steps steps_ok]; [reflexivity|].
  cbn [flat_map] in Hnd, Hfr. apply NoDup_app_iff in Hnd. destruct Hnd as [Hnd1 [Hnd2 Hnd3]].
  assert (Hfo : fresh_hist s (expand w o)).
  { apply (one_gen_fresh w s o known Hk). intros v Hv. apply Hfr. apply in_or_app. left; exact Hv. }
  set (s' := fst (cstep k w s o)). set (r := snd (cstep k w s o)).
  assert (Es' : s' = mrun k s (expand w o)) by reflexivity.
  assert (I' : Inv k s') by (rewrite Es'; apply run_inv; assumption).
  assert (Eh : handed s' = handed s ++ res_handed r) by apply cstep_handed.
  assert (Hk' : forall x, In x (store s') \/ In x (handed s') -> In x (op_gens o ++ known)).
  { intros x Hx. rewrite Es' in Hx. apply (run_footprint k _ s x I Hfo) in Hx.
    apply in_or_app. rewrite gens_expand1 in Hx. destruct Hx as [Hx|[Hx|Hx]]; [right; apply Hk; tauto|right; apply Hk; tauto|left; exact Hx]. }
  assert (Hhd' : forall x, In x (res_handed r ++ hd) <-> In x (handed s')).
  { intro x. rewrite Eh. split; intro H; apply in_app_or in H; apply in_or_app;
      (destruct H as [H|H]; [right|left]); try exact H; apply Hhd; exact H. }
  apply andb_true_intro. split.
  - unfold obs_ok. cbn [model_obs o_res o_count o_store o_kept]. fold s' r.
    apply andb_true_intro. split; [apply andb_true_intro; split; [apply andb_true_intro; split|]|].
    + destruct (cstep_res_fine k w s o) as [Hp Hn]. fold r in Hp, Hn.
      destruct r as [| |x|x| | |]; try reflexivity; try contradiction.
      apply andb_true_intro. split.
      * apply memN_In. apply Hk'. right. rewrite Eh. apply in_or_app. right. left; reflexivity.
      * pose proof (inv_handed k s' I') as Hn'. rewrite Eh in Hn'. cbn [res_handed] in Hn'.
        apply NoDup_app_iff in Hn'. destruct Hn' as [_ [_ Hd]].
        destruct (memN x hd) eqn:Em; [|reflexivity]. apply memN_In in Em. apply Hhd in Em.
        exfalso. apply (Hd x Em). left; reflexivity.
    + apply N.leb_le. pose proof (inv_len k s' I'). lia.
    + apply disjointb_spec. intros x Hx. apply (inv_hs k s' I'). apply Hhd'. exact Hx.
    + destruct r as [| |x|x| | |]; try reflexivity.
      destruct (memN x (store s')) eqn:Em; [|reflexivity]. exfalso. apply memN_In in Em.
      apply (inv_hs k s' I' x); [|exact Em]. rewrite Eh. apply in_or_app. right. left; reflexivity.
  - fold s' r. cbn [model_obs o_res]. apply IH; try assumption.
    intros v Hv Hin. apply in_app_or in Hin. destruct Hin as [Hin|Hin].
    + exact (Hnd3 v Hin Hv).
    + apply (Hfr v); [apply in_or_app; right; exact Hv|exact Hin].
Qed.

Theorem model_passes_spec k st0 f ops :
  NoDup (st0 ++ flat_map op_gens ops) -> spec_ok (model_case k st0 f ops) = true.
Proof.
  intro H. apply NoDup_app_iff in H. destruct H as [H1 [H2 H3]].
  unfold spec_ok, model_case. cbn [c_k c_store0 c_obs0 c_steps steps_ok op_gens app].
  pose proof (boot_inv k st0 f H1) as I. destruct (boot_frame k st0 f) as [E1 E2].
  apply andb_true_intro. split.
  - unfold obs_ok. cbn [model_obs o_res o_count o_store o_kept res_handed app disjointb forallb negb].
    rewrite !andb_true_r. cbn [andb]. apply N.leb_le. pose proof (inv_len k _ I). lia.
  - cbn [model_obs o_res res_handed app]. apply model_steps_ok; try assumption.
    + intro x. rewrite E2. tauto.
    + intros x [Hx|Hx]; [rewrite E1 in Hx; exact Hx|rewrite E2 in Hx; destruct Hx].
    + intros v Hv Hin. exact (H3 v Hin Hv).
Qed.

(* satisfiable hypotheses: a history with a Save fault, a blocked send, a crash between the
   receive and Delete, and a restart hands out 101 and 2, each once *)
Example history_example :
  let ops := [Gen 1 SaveErr; Gen 2 SaveOk; Gen 3 SaveOk; GetBegin 1; GetEnd 1 DelOk; GetBegin 2;
              Restart ReadOk; GetBegin 3; GetEnd 3 DelOk] in
  hist_ok [101%N] (hist no_faults ops) /\
  handed (crun 1 no_faults (boot 1 [101%N] ReadOk) ops) = [101%N; 2%N] /\
  judge (model_case 1 [101%N] ReadOk ops) = Agree.
Proof. vm_compute. repeat split. repeat constructor; cbn; intuition discriminate. Qed.

(* a Delete fault that lasts three calls: 101 is received and not handed out three times (each
   time it stays in the storage and the restart loads it again); the fourth attempt, after the
   window has closed, hands it out once; draining the pool after one more restart yields
   nothing more *)
Example persistent_delete_example :
  let get t := [GetBegin t; GetEnd t DelOk] in
  let ops := [FaultDel DelErr (Calls 3)] ++ get 1%N ++ [Restart ReadOk] ++ get 2%N ++ [Restart ReadOk]
             ++ get 3%N ++ [Restart ReadOk] ++ get 4%N ++ [Restart ReadOk] ++ get 5%N in
  hist_ok [101%N] (hist no_faults ops) /\
  handed (crun 1 no_faults (boot 1 [101%N] ReadOk) ops) = [101%N] /\
  map (fun so => o_res (snd so)) (c_steps (model_case 1 [101%N] ReadOk ops)) =
    [RNone; RInDel 101; RErr; RNone; RInDel 101; RErr; RNone; RInDel 101; RErr; RNone;
     RInDel 101; RVal 101; RNone; REmpty; RNone] /\
  judge (model_case 1 [101%N] ReadOk ops) = Agree.
Proof. vm_compute. repeat split. repeat constructor; cbn; intuition discriminate. Qed.
