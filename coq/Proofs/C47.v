(* C47 — proofs about the model of the submission slots and early exits (Model/C47.v). *)
From Coq Require Import ZArith List Bool Lia.
From Coq Require Import ZifyBool.
From KV Require Import Common.Verdict Gen.Consts_C47 Model.C47.
Import ListNotations.
Open Scope Z_scope.

Lemma u64_small z : 0 <= z < two64 -> u64 z = z.
Proof. intros H. unfold u64. apply Z.mod_small. exact H. Qed.

Lemma u8_small z : 0 <= z < 256 -> u8 z = z.
Proof. intros H. unfold u8. apply Z.mod_small. exact H. Qed.

Lemma two64_val : two64 = 18446744073709551616.
Proof. reflexivity. Qed.

(* ------------------------------------------------------------------ *)
(* beacon DKG result                                                    *)
(* ------------------------------------------------------------------ *)

Lemma beacon_dkg_slot_val start step m :
  0 <= start -> 0 < step -> 1 <= m <= 255 -> start + 255 * step < two64 ->
  beacon_dkg_slot start step m = start + (m - 1) * step.
Proof.
  intros Hs Hst Hm Hov. unfold beacon_dkg_slot.
  assert (0 <= (m - 1) * step <= 254 * step) by nia.
  rewrite (u64_small (m - 1)) by (rewrite two64_val; lia).
  rewrite (u64_small ((m - 1) * step)) by lia.
  apply u64_small. lia.
Qed.

Lemma beacon_dkg_inj start step m1 m2 :
  0 <= start -> 0 < step -> 1 <= m1 <= 255 -> 1 <= m2 <= 255 -> start + 255 * step < two64 ->
  beacon_dkg_slot start step m1 = beacon_dkg_slot start step m2 -> m1 = m2.
Proof.
  intros Hs Hst H1 H2 Hov E.
  rewrite !beacon_dkg_slot_val in E by assumption. nia.
Qed.

(* ------------------------------------------------------------------ *)
(* relay entry                                                          *)
(* ------------------------------------------------------------------ *)

Lemma queue_index_val m first n :
  1 <= m <= n -> 0 <= first < n -> n <= 255 ->
  queue_index m first n = if first <=? m then m - first else m + n - first.
Proof.
  intros Hm Hf Hn. unfold queue_index.
  destruct (Z.leb_spec first m).
  - apply u64_small. rewrite two64_val. lia.
  - rewrite (u64_small (m + n)) by (rewrite two64_val; lia).
    apply u64_small. rewrite two64_val. lia.
Qed.

Lemma queue_index_range m first n :
  1 <= m <= n -> 0 <= first < n -> n <= 255 ->
  0 <= queue_index m first n <= n /\
  (queue_index m first n = n <-> first = 0 /\ m = n) /\
  (first + queue_index m first n) mod n = m mod n.
Proof.
  intros Hm Hf Hn. rewrite queue_index_val by assumption.
  destruct (Z.leb_spec first m); (split; [lia|split; [lia|]]).
  - f_equal. lia.
  - replace (first + (m + n - first)) with (m + 1 * n) by lia. apply Z_mod_plus_full.
Qed.

Lemma queue_index_inj m1 m2 first n :
  1 <= m1 <= n -> 1 <= m2 <= n -> 0 <= first < n -> n <= 255 ->
  queue_index m1 first n = queue_index m2 first n -> m1 = m2.
Proof.
  intros H1 H2 Hf Hn. rewrite !queue_index_val by assumption.
  destruct (Z.leb_spec first m1), (Z.leb_spec first m2); lia.
Qed.

Lemma relay_first_range entry n : 0 < n -> 0 <= relay_first entry n < n.
Proof. intros Hn. unfold relay_first. apply Z.mod_pos_bound. exact Hn. Qed.

Lemma relay_slot_val start step n entry m :
  0 <= start -> 0 < step -> 0 < n <= 255 -> 1 <= m <= n -> start + 255 * step < two64 ->
  relay_slot start step n entry m =
  start + queue_index m (relay_first entry n) n * step.
Proof.
  intros Hs Hst Hn Hm Hov. unfold relay_slot.
  pose proof (relay_first_range entry n ltac:(lia)) as Hf.
  destruct (queue_index_range m (relay_first entry n) n Hm Hf ltac:(lia)) as [Hq _].
  set (q := queue_index m (relay_first entry n) n) in *.
  assert (0 <= q * step <= 255 * step) by nia.
  rewrite (u64_small (q * step)) by lia. apply u64_small. lia.
Qed.

Lemma relay_inj start step n entry m1 m2 :
  0 <= start -> 0 < step -> 0 < n <= 255 -> 1 <= m1 <= n -> 1 <= m2 <= n ->
  start + 255 * step < two64 ->
  relay_slot start step n entry m1 = relay_slot start step n entry m2 -> m1 = m2.
Proof.
  intros Hs Hst Hn H1 H2 Hov E. rewrite !relay_slot_val in E by assumption.
  pose proof (relay_first_range entry n ltac:(lia)) as Hf.
  apply (queue_index_inj m1 m2 (relay_first entry n) n); try assumption; try lia. nia.
Qed.

(* every slot is at most at the timeout, and exactly at the timeout for the last member when
   entry mod n = 0 *)
Lemma relay_slot_bound start step n entry m :
  0 <= start -> 0 < step -> 0 < n <= 255 -> 1 <= m <= n -> start + 255 * step < two64 ->
  start <= relay_slot start step n entry m <= start + n * step /\
  (relay_slot start step n entry m = start + n * step <-> entry mod n = 0 /\ m = n).
Proof.
  intros Hs Hst Hn Hm Hov. rewrite relay_slot_val by assumption.
  pose proof (relay_first_range entry n ltac:(lia)) as Hf.
  destruct (queue_index_range m (relay_first entry n) n Hm Hf ltac:(lia)) as [Hq [Hqn _]].
  fold (relay_first entry n).
  set (q := queue_index m (relay_first entry n) n) in *.
  split; [nia|]. rewrite <- Hqn. split; intro H; nia.
Qed.

Lemma relay_before_timeout_partial start step n entry m :
  0 <= start -> 0 < step -> 0 < n <= 255 -> 1 <= m <= n -> start + 255 * step < two64 ->
  entry mod n <> 0 ->
  relay_slot start step n entry m < start + n * step.
Proof.
  intros Hs Hst Hn Hm Hov Hne.
  destruct (relay_slot_bound start step n entry m Hs Hst Hn Hm Hov) as [Hb Heq].
  assert (relay_slot start step n entry m <> start + n * step) by (intro E; apply Heq in E; tauto).
  lia.
Qed.

Lemma relay_before_timeout_unless_last start step n entry m :
  0 <= start -> 0 < step -> 0 < n <= 255 -> 1 <= m <= n -> start + 255 * step < two64 ->
  m <> n ->
  relay_slot start step n entry m < start + n * step.
Proof.
  intros Hs Hst Hn Hm Hov Hne.
  destruct (relay_slot_bound start step n entry m Hs Hst Hn Hm Hov) as [Hb Heq].
  assert (relay_slot start step n entry m <> start + n * step) by (intro E; apply Heq in E; tauto).
  lia.
Qed.

(* the defect: production configuration of pkg/chain/ethereum (64 members, step 1, timeout 64),
   an entry divisible by 64, member 64 *)
Lemma relay_before_timeout_refuted :
  exists start step n entry m,
    0 <= start /\ 0 < step /\ 0 < n <= 255 /\ 1 <= m <= n /\ start + 255 * step < two64 /\
    ~ relay_slot start step n entry m < start + n * step.
Proof.
  exists 1000, 1, 64, 128, 64.
  repeat split; try (vm_compute; congruence); try lia.
Qed.

(* when entry mod n = 0 nobody is eligible at the start block: the queue starts at 1 *)
Lemma relay_nobody_first_when_zero start step n entry m :
  0 <= start -> 0 < step -> 0 < n <= 255 -> 1 <= m <= n -> start + 255 * step < two64 ->
  entry mod n = 0 -> relay_slot start step n entry m = start + m * step.
Proof.
  intros Hs Hst Hn Hm Hov Hz. rewrite relay_slot_val by assumption.
  unfold relay_first. rewrite Hz. rewrite queue_index_val by lia.
  destruct (Z.leb_spec 0 m); [|lia]. f_equal. f_equal. lia.
Qed.

(* ------------------------------------------------------------------ *)
(* pkg/tbtc: index-based delays with the generated step constants       *)
(* ------------------------------------------------------------------ *)

Lemma tbtc_delay_val step m :
  0 < step < 4294967296 -> 1 <= m <= 255 -> tbtc_delay step m = (m - 1) * step.
Proof.
  intros Hst Hm. unfold tbtc_delay. rewrite u8_small by lia.
  apply u64_small. rewrite two64_val. nia.
Qed.

Lemma steps_in_range :
  0 < dkgResultSubmissionDelayStepBlocks < 4294967296 /\
  0 < dkgResultApprovalDelayStepBlocks < 4294967296 /\
  0 < inactivityClaimSubmissionDelayStepBlocks < 4294967296.
Proof. repeat split; reflexivity. Qed.

Lemma tbtc_dkg_slot_val cur m :
  0 <= cur < 4611686018427387904 -> 1 <= m <= 255 ->
  tbtc_dkg_slot cur m = cur + (m - 1) * dkgResultSubmissionDelayStepBlocks.
Proof.
  intros Hc Hm. unfold tbtc_dkg_slot.
  destruct steps_in_range as [H _]. rewrite tbtc_delay_val by assumption.
  apply u64_small. rewrite two64_val. nia.
Qed.

Lemma tbtc_dkg_inj cur m1 m2 :
  0 <= cur < 4611686018427387904 -> 1 <= m1 <= 255 -> 1 <= m2 <= 255 ->
  tbtc_dkg_slot cur m1 = tbtc_dkg_slot cur m2 -> m1 = m2.
Proof.
  intros Hc H1 H2 E. rewrite !tbtc_dkg_slot_val in E by assumption.
  destruct steps_in_range as [H _]. nia.
Qed.

Lemma inactivity_slot_val cur m :
  0 <= cur < 4611686018427387904 -> 1 <= m <= 255 ->
  inactivity_slot cur m = cur + (m - 1) * inactivityClaimSubmissionDelayStepBlocks.
Proof.
  intros Hc Hm. unfold inactivity_slot.
  destruct steps_in_range as [_ [_ H]]. rewrite tbtc_delay_val by assumption.
  apply u64_small. rewrite two64_val. nia.
Qed.

Lemma inactivity_inj cur m1 m2 :
  0 <= cur < 4611686018427387904 -> 1 <= m1 <= 255 -> 1 <= m2 <= 255 ->
  inactivity_slot cur m1 = inactivity_slot cur m2 -> m1 = m2.
Proof.
  intros Hc H1 H2 E. rewrite !inactivity_slot_val in E by assumption.
  destruct steps_in_range as [_ [_ H]]. nia.
Qed.

Lemma approval_slot_val sub challenge prec submitter m :
  0 <= sub < 4611686018427387904 -> 0 <= challenge < 4294967296 -> 0 <= prec < 4294967296 ->
  1 <= m <= 255 ->
  approval_slot sub challenge prec submitter m =
  if m =? submitter then sub + challenge + 1
  else sub + challenge + 1 + prec + (m - 1) * dkgResultApprovalDelayStepBlocks.
Proof.
  intros Hs Hc Hp Hm. unfold approval_slot, approval_precedence_start.
  rewrite (u64_small (sub + challenge)) by (rewrite two64_val; lia).
  rewrite (u64_small (sub + challenge + 1)) by (rewrite two64_val; lia).
  destruct (m =? submitter); [reflexivity|].
  destruct steps_in_range as [_ [H _]]. rewrite tbtc_delay_val by assumption.
  rewrite (u64_small (sub + challenge + 1 + prec)) by (rewrite two64_val; lia).
  apply u64_small. rewrite two64_val. nia.
Qed.

(* two different members share an approval slot exactly when one is the submitter, the other
   is member 1 and the precedence period is zero *)
Lemma approval_collision_iff sub challenge prec submitter m1 m2 :
  0 <= sub < 4611686018427387904 -> 0 <= challenge < 4294967296 -> 0 <= prec < 4294967296 ->
  1 <= m1 <= 255 -> 1 <= m2 <= 255 -> m1 <> m2 ->
  (approval_slot sub challenge prec submitter m1 = approval_slot sub challenge prec submitter m2
   <-> prec = 0 /\ ((m1 = submitter /\ m2 = 1) \/ (m2 = submitter /\ m1 = 1))).
Proof.
  intros Hs Hc Hp H1 H2 Hne. rewrite !approval_slot_val by assumption.
  destruct steps_in_range as [_ [H _]].
  destruct (Z.eqb_spec m1 submitter), (Z.eqb_spec m2 submitter); split; intro E; nia.
Qed.

Lemma approval_guard_needed :
  exists sub challenge submitter m1 m2,
    m1 <> m2 /\ 1 <= m1 <= 255 /\ 1 <= m2 <= 255 /\
    approval_slot sub challenge 0 submitter m1 = approval_slot sub challenge 0 submitter m2.
Proof. exists 1000, 100, 5, 5, 1. repeat split; try lia. Qed.

(* ------------------------------------------------------------------ *)
(* all kinds at once, on [slot]                                         *)
(* ------------------------------------------------------------------ *)

Lemma params_ok_ref p : params_ok p = true -> 0 <= p_ref p < 4611686018427387904.
Proof. unfold params_ok. intros H. lia. Qed.

Lemma slot_inj p a b :
  params_ok p = true -> member_ok p a = true -> member_ok p b = true -> a <> b ->
  slot p a = slot p b -> may_share p a b = true.
Proof.
  intros Hp Ha Hb Hne E. pose proof (params_ok_ref p Hp) as Hr.
  unfold params_ok in Hp. unfold member_ok in Ha, Hb. unfold slot in E. unfold may_share.
  destruct (p_kind p) eqn:K.
  - exfalso. apply Hne. apply (beacon_dkg_inj (p_ref p) (p_step p)); try lia.
    rewrite two64_val. lia.
  - exfalso. apply Hne. apply (relay_inj (p_ref p) (p_step p) (p_n p) (p_entry p)); try lia.
    rewrite two64_val. lia.
  - exfalso. apply Hne. apply (tbtc_dkg_inj (p_ref p)); try lia.
  - apply approval_collision_iff in E; lia.
  - exfalso. apply Hne. apply (inactivity_inj (p_ref p)); try lia.
Qed.

Lemma slot_not_before_reference p m :
  params_ok p = true -> member_ok p m = true -> earliest p <= slot p m.
Proof.
  intros Hp Hm. pose proof (params_ok_ref p Hp) as Hr.
  unfold params_ok in Hp. unfold member_ok in Hm. unfold slot, earliest.
  destruct (p_kind p) eqn:K.
  - rewrite beacon_dkg_slot_val; try lia; [nia|rewrite two64_val; lia].
  - apply relay_slot_bound; try lia. rewrite two64_val; lia.
  - rewrite tbtc_dkg_slot_val by lia. destruct steps_in_range as [H _]. nia.
  - rewrite approval_slot_val by lia. destruct steps_in_range as [_ [H _]].
    destruct (m =? p_submitter p); nia.
  - rewrite inactivity_slot_val by lia. destruct steps_in_range as [_ [_ H]]. nia.
Qed.

(* ------------------------------------------------------------------ *)
(* the code's slot (uint8 / uint64 arithmetic) IS the documented slot   *)
(* (unbounded arithmetic) for every seat 1..255 and the generated steps *)
(* ------------------------------------------------------------------ *)

Lemma slot_eq_doc p m :
  params_ok p = true -> member_ok p m = true -> slot p m = doc_slot p m.
Proof.
  intros Hp Hm. pose proof (params_ok_ref p Hp) as Hr.
  unfold params_ok in Hp. unfold member_ok in Hm. unfold slot, doc_slot.
  destruct (p_kind p) eqn:K.
  - apply beacon_dkg_slot_val; try lia. rewrite two64_val; lia.
  - rewrite relay_slot_val; try lia; [|rewrite two64_val; lia].
    pose proof (relay_first_range (p_entry p) (p_n p) ltac:(lia)) as Hf.
    rewrite queue_index_val by lia. reflexivity.
  - apply tbtc_dkg_slot_val; lia.
  - apply approval_slot_val; lia.
  - apply inactivity_slot_val; lia.
Qed.

(* the documented slots grow with the seat: one delay step per seat.  Relay entry slots grow
   with the queue position instead (next lemma); the result submitter approves first. *)
Lemma doc_slot_step p a b :
  p_kind p <> KRelay ->
  (p_kind p = KApproval -> a <> p_submitter p /\ b <> p_submitter p) ->
  doc_slot p b - doc_slot p a =
  (b - a) * match p_kind p with
            | KBeaconDkg => p_step p
            | KRelay => 0
            | KTbtcDkg => dkgResultSubmissionDelayStepBlocks
            | KApproval => dkgResultApprovalDelayStepBlocks
            | KInactivity => inactivityClaimSubmissionDelayStepBlocks
            end.
Proof.
  intros Hk Ha. unfold doc_slot. destruct (p_kind p); try congruence; try ring.
  destruct (Ha eq_refl) as [Ha1 Ha2].
  destruct (Z.eqb_spec a (p_submitter p)); [contradiction|].
  destruct (Z.eqb_spec b (p_submitter p)); [contradiction|]. ring.
Qed.

Lemma slot_monotone p a b :
  params_ok p = true -> member_ok p a = true -> member_ok p b = true ->
  p_kind p <> KRelay ->
  (p_kind p = KApproval -> a <> p_submitter p /\ b <> p_submitter p) ->
  a < b -> slot p a < slot p b.
Proof.
  intros Hp Ha Hb Hk Hs Hlt. rewrite !slot_eq_doc by assumption.
  pose proof (doc_slot_step p a b Hk Hs) as E.
  destruct steps_in_range as [S1 [S2 S3]].
  unfold params_ok in Hp.
  destruct (p_kind p); try congruence; nia.
Qed.

Lemma relay_slot_monotone p a b :
  params_ok p = true -> p_kind p = KRelay -> member_ok p a = true -> member_ok p b = true ->
  doc_queue_index a (p_entry p mod p_n p) (p_n p) < doc_queue_index b (p_entry p mod p_n p) (p_n p) ->
  slot p a < slot p b.
Proof.
  intros Hp K Ha Hb Hq. rewrite !slot_eq_doc by assumption.
  unfold doc_slot. rewrite K. unfold params_ok in Hp. rewrite K in Hp. nia.
Qed.

Lemma approval_submitter_first p m :
  params_ok p = true -> p_kind p = KApproval -> member_ok p m = true ->
  slot p (p_submitter p) <= slot p m.
Proof.
  intros Hp K Hm.
  assert (member_ok p (p_submitter p) = true) as Hs.
  { unfold member_ok. unfold params_ok in Hp. rewrite K in *. lia. }
  rewrite !slot_eq_doc by assumption. unfold doc_slot. rewrite K.
  rewrite Z.eqb_refl. destruct steps_in_range as [_ [S2 _]].
  unfold params_ok in Hp. rewrite K in Hp. unfold member_ok in Hm.
  destruct (m =? p_submitter p); nia.
Qed.

(* what goes wrong when the seat delay is multiplied in the uint8 member index type instead of
   uint64: seat 19 of a tBTC group would get a slot 256 blocks before the documented one *)
Lemma uint8_delay_is_early :
  exists m, 1 <= m <= 100 /\
    u64 (u8 ((m - 1) * dkgResultApprovalDelayStepBlocks)) < (m - 1) * dkgResultApprovalDelayStepBlocks.
Proof. exists 19. vm_compute. repeat split; congruence. Qed.

(* ------------------------------------------------------------------ *)
(* executable forms                                                     *)
(* ------------------------------------------------------------------ *)

Lemma distinct_slots_sound p l :
  distinct_slots p l = true ->
  forall i j a sa b sb, (i < j)%nat ->
    nth_error l i = Some (a, sa) -> nth_error l j = Some (b, sb) ->
    sa <> sb \/ may_share p a b = true.
Proof.
  induction l as [|[x sx] t IH]; intros H i j a sa b sb Hij Hi Hj.
  - destruct i; discriminate.
  - cbn [distinct_slots] in H. apply andb_true_iff in H. destruct H as [Hall Ht].
    destruct j as [|j]; [lia|]. cbn in Hj. destruct i as [|i]; cbn in Hi.
    + inversion Hi; subst. rewrite forallb_forall in Hall.
      specialize (Hall (b, sb) (nth_error_In _ _ Hj)). cbn [fst snd] in Hall.
      apply orb_true_iff in Hall. destruct Hall as [Hn|Hs]; [left|right; exact Hs].
      apply negb_true_iff in Hn. apply Z.eqb_neq in Hn. exact Hn.
    + apply (IH Ht i j); [lia|assumption|assumption].
Qed.

Lemma slots_ok_sound p l :
  slots_ok p l = true ->
  (forall i j a sa b sb, (i < j)%nat ->
     nth_error l i = Some (a, sa) -> nth_error l j = Some (b, sb) ->
     sa <> sb \/ may_share p a b = true) /\
  (forall m s, In (m, s) l ->
     earliest p <= s /\ doc_slot p m <= s /\
     (p_kind p = KRelay -> s < p_ref p + p_timeout p)).
Proof.
  unfold slots_ok. intros H. apply andb_true_iff in H. destruct H as [Hd Hw].
  split; [apply distinct_slots_sound; exact Hd|].
  intros m s Hin. rewrite forallb_forall in Hw. specialize (Hw (m, s) Hin).
  cbn [fst snd] in Hw. unfold slot_in_window in Hw. apply andb_true_iff in Hw.
  destruct Hw as [He Hr]. apply andb_true_iff in He. destruct He as [He Hd'].
  split; [lia|]. split; [lia|]. intros K. rewrite K in Hr. lia.
Qed.

Lemma distinct_slots_model p ms :
  params_ok p = true -> forallb (member_ok p) ms = true -> NoDup ms ->
  distinct_slots p (map (fun m => (m, slot p m)) ms) = true.
Proof.
  intros Hp. induction ms as [|a t IH]; intros Hm Hnd; [reflexivity|].
  cbn [map distinct_slots]. cbn [forallb] in Hm. apply andb_true_iff in Hm.
  destruct Hm as [Ha Ht]. inversion Hnd as [|a' t' Hna Hnd']; subst.
  apply andb_true_iff. split; [|apply IH; assumption].
  apply forallb_forall. intros [b sb] Hin. apply in_map_iff in Hin.
  destruct Hin as [b' [Eb Hb]]. inversion Eb; subst. cbn [fst snd].
  destruct (Z.eqb_spec (slot p a) (slot p b)) as [E|Hne]; cbn [negb orb]; [|reflexivity].
  apply slot_inj; try assumption.
  - rewrite forallb_forall in Ht. apply Ht. exact Hb.
  - intros ->. exact (Hna Hb).
Qed.

Lemma slots_model_pass p ms :
  params_ok p = true -> forallb (member_ok p) ms = true -> NoDup ms ->
  (p_kind p = KRelay -> p_entry p mod p_n p <> 0) ->
  slots_ok p (map (fun m => (m, slot p m)) ms) = true.
Proof.
  intros Hp Hm Hnd Hrel. unfold slots_ok. apply andb_true_iff. split.
  - apply distinct_slots_model; assumption.
  - apply forallb_forall. intros [m s] Hin. apply in_map_iff in Hin.
    destruct Hin as [m' [E Hin]]. inversion E; subst. cbn [snd].
    rewrite forallb_forall in Hm. specialize (Hm m Hin).
    unfold slot_in_window. cbn [fst]. apply andb_true_iff. split.
    + apply andb_true_iff. split.
      * apply Z.leb_le. apply slot_not_before_reference; assumption.
      * apply Z.leb_le. rewrite slot_eq_doc by assumption. lia.
    + destruct (p_kind p) eqn:K; try reflexivity.
      pose proof (params_ok_ref p Hp) as Hr.
      unfold params_ok in Hp. rewrite K in Hp. unfold member_ok in Hm. rewrite K in Hm.
      unfold slot. rewrite K. apply Z.ltb_lt.
      replace (p_timeout p) with (p_n p * p_step p) by lia.
      apply relay_before_timeout_partial; try lia; [rewrite two64_val; lia|].
      apply Hrel. reflexivity.
Qed.

(* ------------------------------------------------------------------ *)
(* early exit                                                           *)
(* ------------------------------------------------------------------ *)

(* nothing among the first k events lets the member act or tells it to stop *)
Definition quiet (s : Z) (h : list ev) (k : nat) : Prop :=
  forall j e, (j < k)%nat -> nth_error h j = Some e ->
    match e with Head b => b < s | Competing => False | Timeout _ => True end.

Definition quiet_relay (s : Z) (h : list ev) (k : nat) : Prop :=
  forall j e, (j < k)%nat -> nth_error h j = Some e ->
    match e with Head b => b < s | Competing => False | Timeout _ => False end.

Lemma run_simple_submit s h : forall i0 i b e,
  run_simple s i0 h = (Some (i, b), e) ->
  exists k, i = (i0 + k)%nat /\ nth_error h k = Some (Head b) /\ s <= b /\ quiet s h k /\ e = ExNil.
Proof.
  induction h as [|x t IH]; intros i0 i b e H; cbn [run_simple] in H; [discriminate|].
  destruct x as [b'| |b'].
  - destruct (Z.leb_spec s b').
    + inversion H; subst. exists 0%nat. repeat split; try lia; try reflexivity.
      intros j e' Hj. lia.
    + destruct (IH _ _ _ _ H) as [k [Ei [Hn [Hs [Hq Ee]]]]].
      exists (S k). repeat split; try lia; try assumption.
      intros j e' Hj Hnth. destruct j as [|j]; cbn in Hnth.
      * inversion Hnth; subst. exact H0.
      * apply (Hq j e'); [lia|exact Hnth].
  - discriminate.
  - destruct (IH _ _ _ _ H) as [k [Ei [Hn [Hs [Hq Ee]]]]].
    exists (S k). repeat split; try lia; try assumption.
    intros j e' Hj Hnth. destruct j as [|j]; cbn in Hnth.
    + inversion Hnth; subst. exact I.
    + apply (Hq j e'); [lia|exact Hnth].
Qed.

Lemma run_simple_competing_first s h k : forall i0,
  nth_error h k = Some Competing ->
  (forall j b, (j < k)%nat -> nth_error h j = Some (Head b) -> b < s) ->
  run_simple s i0 h = (None, ExNil).
Proof.
  revert k. induction h as [|x t IH]; intros k i0 Hk Hq; [destruct k; discriminate|].
  destruct k as [|k]; cbn in Hk.
  - inversion Hk; subst. reflexivity.
  - cbn [run_simple]. destruct x as [b'| |b'].
    + specialize (Hq 0%nat b' ltac:(lia) eq_refl) as Hb.
      destruct (Z.leb_spec s b'); [lia|].
      apply (IH k); [exact Hk|]. intros j b Hj Hn. apply (Hq (S j) b); [lia|exact Hn].
    + reflexivity.
    + apply (IH k); [exact Hk|]. intros j b Hj Hn. apply (Hq (S j) b); [lia|exact Hn].
Qed.

Lemma run_simple_reaches_slot s h k b : forall i0,
  nth_error h k = Some (Head b) -> s <= b -> quiet s h k ->
  run_simple s i0 h = (Some ((i0 + k)%nat, b), ExNil).
Proof.
  revert k. induction h as [|x t IH]; intros k i0 Hk Hs Hq; [destruct k; discriminate|].
  destruct k as [|k]; cbn in Hk.
  - inversion Hk; subst. cbn [run_simple]. destruct (Z.leb_spec s b); [|lia].
    rewrite Nat.add_0_r. reflexivity.
  - cbn [run_simple].
    assert (quiet s t k) as Hq'.
    { intros j e Hj Hn. apply (Hq (S j) e); [lia|exact Hn]. }
    pose proof (Hq 0%nat x ltac:(lia) eq_refl) as H0.
    destruct x as [b'| |b'].
    + destruct (Z.leb_spec s b'); [lia|].
      rewrite (IH k (S i0) Hk Hs Hq'). replace (i0 + S k)%nat with (S i0 + k)%nat by lia. reflexivity.
    + destruct H0.
    + rewrite (IH k (S i0) Hk Hs Hq'). replace (i0 + S k)%nat with (S i0 + k)%nat by lia. reflexivity.
Qed.

Lemma run_relay_submit s h : forall i0 sub i b e,
  run_relay s i0 sub h = (Some (i, b), e) ->
  sub = Some (i, b) \/
  (sub = None /\ exists k, i = (i0 + k)%nat /\ nth_error h k = Some (Head b) /\ s <= b /\
                           quiet_relay s h k).
Proof.
  induction h as [|x t IH]; intros i0 sub i b e H; cbn [run_relay] in H.
  - inversion H; subst. left. reflexivity.
  - destruct x as [b'| |b'].
    + destruct sub as [p|].
      * destruct (IH _ _ _ _ _ H) as [E|[E _]]; [left; exact E|discriminate].
      * destruct (Z.leb_spec s b').
        -- destruct (IH _ _ _ _ _ H) as [E|[E _]]; [|discriminate].
           inversion E; subst. right. split; [reflexivity|]. exists 0%nat.
           repeat split; try lia; try reflexivity. intros j e' Hj. lia.
        -- destruct (IH _ _ _ _ _ H) as [E|[_ [k [Ei [Hn [Hs Hq]]]]]]; [discriminate|].
           right. split; [reflexivity|]. exists (S k). repeat split; try lia; try assumption.
           intros j e' Hj Hnth. destruct j as [|j]; cbn in Hnth.
           ++ inversion Hnth; subst. exact H0.
           ++ apply (Hq j e'); [lia|exact Hnth].
    + inversion H; subst. left. reflexivity.
    + inversion H; subst. left. reflexivity.
Qed.

Lemma run_relay_stops_first s h k : forall i0,
  (nth_error h k = Some Competing \/ exists b, nth_error h k = Some (Timeout b)) ->
  (forall j b, (j < k)%nat -> nth_error h j = Some (Head b) -> b < s) ->
  (forall j, (j < k)%nat -> nth_error h j <> Some Competing /\
                            forall b, nth_error h j <> Some (Timeout b)) ->
  fst (run_relay s i0 None h) = None.
Proof.
  revert k. induction h as [|x t IH]; intros k i0 Hk Hq Hno; [reflexivity|].
  destruct k as [|k]; cbn in Hk.
  - cbn [run_relay]. destruct Hk as [Hk|[b Hk]]; inversion Hk; subst; reflexivity.
  - cbn [run_relay]. destruct x as [b'| |b'].
    + specialize (Hq 0%nat b' ltac:(lia) eq_refl) as Hb.
      destruct (Z.leb_spec s b'); [lia|].
      apply (IH k); [exact Hk| |].
      * intros j b Hj Hn. apply (Hq (S j) b); [lia|exact Hn].
      * intros j Hj. apply (Hno (S j)). lia.
    + reflexivity.
    + reflexivity.
Qed.

(* the executable run property holds of every model output *)
Lemma firstn_no_terminal_simple s h : forall i0 i b e,
  no_timeout h = true ->
  run_simple s i0 h = (Some (i, b), e) ->
  existsb is_terminal (firstn (i - i0) h) = false.
Proof.
  induction h as [|x t IH]; intros i0 i b e Hnt H; cbn [run_simple] in H; [discriminate|].
  cbn [no_timeout forallb] in Hnt. apply andb_true_iff in Hnt. destruct Hnt as [Hx Hnt].
  destruct x as [b'| |b']; [| discriminate | discriminate].
  destruct (Z.leb_spec s b').
  - inversion H; subst. rewrite Nat.sub_diag. reflexivity.
  - pose proof (run_simple_submit _ _ _ _ _ _ H) as [k [Ei _]].
    replace (i - i0)%nat with (S (i - S i0)) by lia. cbn [firstn existsb is_terminal orb].
    apply (IH _ _ _ _ Hnt H).
Qed.

Lemma firstn_no_terminal_relay s h : forall i0 i b e,
  run_relay s i0 None h = (Some (i, b), e) ->
  existsb is_terminal (firstn (i - i0) h) = false /\ (i0 <= i)%nat.
Proof.
  induction h as [|x t IH]; intros i0 i b e H; cbn [run_relay] in H; [discriminate|].
  destruct x as [b'| |b']; [| discriminate | discriminate].
  destruct (Z.leb_spec s b').
  - destruct (run_relay_submit _ _ _ _ _ _ _ H) as [E|[E _]]; [|discriminate].
    inversion E; subst. rewrite Nat.sub_diag. split; [reflexivity|lia].
  - destruct (IH _ _ _ _ H) as [H1 H2].
    replace (i - i0)%nat with (S (i - S i0)) by lia. cbn [firstn existsb is_terminal orb].
    split; [exact H1|lia].
Qed.

Lemma run_ok_model p m pre h :
  params_ok p = true -> member_ok p m = true ->
  (p_kind p <> KRelay -> no_timeout h = true) ->
  let '(s, (sub, ex)) := run p m pre h in
  run_ok p m pre h {| o_slot := s; o_submit := sub; o_exit := ex |} = true.
Proof.
  intros Hp Hm Hnt. unfold run.
  destruct (pre && has_precheck (p_kind p)) eqn:Hpre; [reflexivity|].
  unfold run_ok. cbn [o_submit o_slot]. rewrite Hpre. cbn [negb andb].
  pose proof (slot_eq_doc p m Hp Hm) as Hdoc.
  set (s := slot p m) in *.
  destruct (p_kind p) eqn:K.
  all: try (destruct (run_simple s 0 h) as [[[i b]|] ex] eqn:R; [|reflexivity];
            pose proof (run_simple_submit _ _ _ _ _ _ R) as [k [Ei [Hn [Hs [Hq Ee]]]]];
            cbn in Ei; subst i; rewrite Hn; cbn [is_head_ge];
            pose proof (firstn_no_terminal_simple s h 0 k b ex (Hnt ltac:(discriminate)) R) as Hf;
            rewrite Nat.sub_0_r in Hf; rewrite Hf;
            destruct (Z.leb_spec s b); [|lia]; rewrite Z.eqb_refl;
            destruct (Z.leb_spec (doc_slot p m) b); [reflexivity|lia]).
  destruct (run_relay s 0 None h) as [[[i b]|] ex] eqn:R; [|reflexivity].
  destruct (run_relay_submit _ _ _ _ _ _ _ R) as [E|[_ [k [Ei [Hn [Hs Hq]]]]]]; [discriminate|].
  cbn in Ei; subst i. rewrite Hn. cbn [is_head_ge].
  destruct (firstn_no_terminal_relay s h 0 k b ex R) as [Hf _].
  rewrite Nat.sub_0_r in Hf. rewrite Hf.
  destruct (Z.leb_spec s b); [|lia]. rewrite Z.eqb_refl.
  destruct (Z.leb_spec (doc_slot p m) b); [reflexivity|lia].
Qed.

(* the model never acts before the documented slot of the seat, whatever the history *)
Lemma no_action_before_doc_slot p m pre h s i b ex :
  params_ok p = true -> member_ok p m = true ->
  run p m pre h = (s, (Some (i, b), ex)) ->
  s = Some (doc_slot p m) /\ nth_error h i = Some (Head b) /\ doc_slot p m <= b.
Proof.
  intros Hp Hm. unfold run.
  destruct (pre && has_precheck (p_kind p)); [discriminate|].
  rewrite (slot_eq_doc p m Hp Hm). set (d := doc_slot p m).
  destruct (p_kind p); intros E; inversion E as [[E1 E2]]; clear E; split; try reflexivity.
  all: try (pose proof (run_simple_submit _ _ _ _ _ _ E2) as [k [Ei [Hn [Hs _]]]];
            cbn in Ei; subst i; split; [exact Hn|exact Hs]).
  destruct (run_relay_submit _ _ _ _ _ _ _ E2) as [E'|[_ [k [Ei [Hn [Hs _]]]]]]; [discriminate|].
  cbn in Ei; subst i. split; [exact Hn|exact Hs].
Qed.

Lemma nth_error_firstn_lt {A} (l : list A) : forall i j,
  (j < i)%nat -> nth_error (firstn i l) j = nth_error l j.
Proof.
  induction l as [|a t IH]; intros i j Hj.
  - rewrite firstn_nil. reflexivity.
  - destruct i as [|i]; [lia|]. destruct j as [|j]; [reflexivity|].
    cbn. apply IH. lia.
Qed.

Lemma run_ok_sound p m pre h s i b ex :
  run_ok p m pre h {| o_slot := s; o_submit := Some (i, b); o_exit := ex |} = true ->
  (pre && has_precheck (p_kind p) = false) /\
  exists s', s = Some s' /\ nth_error h i = Some (Head b) /\ s' <= b /\ doc_slot p m <= b /\
             forall j e, (j < i)%nat -> nth_error h j = Some e -> is_terminal e = false.
Proof.
  unfold run_ok. cbn [o_submit o_slot]. intros H.
  apply andb_true_iff in H. destruct H as [Hpre H].
  split; [apply negb_true_iff; exact Hpre|].
  destruct s as [s'|]; [|discriminate]. exists s'. split; [reflexivity|].
  apply andb_true_iff in H. destruct H as [H Hterm].
  apply andb_true_iff in H. destruct H as [Hge Hb].
  apply andb_true_iff in Hge. destruct Hge as [Hge Hdoc].
  destruct (nth_error h i) as [[b'| |b']|] eqn:Hn; try discriminate.
  cbn [is_head_ge] in Hge. apply Z.eqb_eq in Hb. subst b'.
  split; [reflexivity|]. split; [lia|]. split; [lia|].
  intros j e Hj Hnj. apply negb_true_iff in Hterm.
  destruct (is_terminal e) eqn:Ht; [|reflexivity].
  exfalso. rewrite <- Bool.not_true_iff_false in Hterm. apply Hterm.
  apply existsb_exists. exists e. split; [|exact Ht].
  assert (nth_error (firstn i h) j = Some e) as Hf.
  { rewrite nth_error_firstn_lt by exact Hj. exact Hnj. }
  eapply nth_error_In. exact Hf.
Qed.

(* hypotheses are satisfiable: the production beacon configuration, an entry not divisible by
   the group size, all 64 members *)
Example relay_example :
  let p := {| p_kind := KRelay; p_ref := 1000; p_step := 1; p_n := 64; p_timeout := 64;
              p_entry := 130; p_challenge := 0; p_prec := 0; p_submitter := 0 |} in
  params_ok p = true /\ slot p 2 = 1000 /\ slot p 1 = 1063 /\ slot p 64 = 1062 /\
  run p 2 false [Head 999; Head 1000; Competing] = (Some 1000, (Some (1%nat, 1000), ExNil)) /\
  run p 3 false [Head 999; Head 1000; Competing] = (Some 1001, (None, ExNil)).
Proof. vm_compute. repeat split; reflexivity. Qed.
