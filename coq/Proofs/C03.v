(* C03 — lemmas about the model of threshold BLS recovery (plain Coq part). *)
From Coq Require Import ZArith Znumtheory NArith List Bool Lia Permutation.
From KV Require Import Common.Verdict Model.C03 Proofs.C03_inv Proofs.C03_lagrange.
Import ListNotations.
Open Scope Z_scope.

(* ---------- the first loops collect a prefix of the valid shares ---------- *)
Lemma collect_sig_spec : forall l t n acc, n <= t ->
  collect_sig l t n acc = acc ++ firstn (Z.to_nat (t - n)) (valid_shares l).
Proof.
  induction l as [|e l IH]; intros t n acc Hn; cbn [collect_sig valid_shares].
  - rewrite firstn_nil, app_nil_r. reflexivity.
  - destruct (Z.eqb_spec n t) as [->|Hne].
    + rewrite Z.sub_diag. cbn. rewrite app_nil_r. reflexivity.
    + destruct (usable e) as [s|].
      * rewrite IH by lia. rewrite <- app_assoc. cbn [app]. f_equal.
        replace (Z.to_nat (t - n)) with (S (Z.to_nat (t - (n + 1)))) by lia. reflexivity.
      * apply IH. lia.
Qed.

Lemma collect_sig_all : forall l t n acc, t < n ->
  collect_sig l t n acc = acc ++ valid_shares l.
Proof.
  induction l as [|e l IH]; intros t n acc Hn; cbn [collect_sig valid_shares].
  - rewrite app_nil_r. reflexivity.
  - destruct (Z.eqb_spec n t) as [->|Hne]; [lia|].
    destruct (usable e) as [s|].
    + rewrite IH by lia. rewrite <- app_assoc. reflexivity.
    + apply IH. lia.
Qed.

Lemma collect_pub_spec : forall l t n acc, n < t ->
  collect_pub l t n acc = acc ++ firstn (Z.to_nat (t - n)) (valid_shares l).
Proof.
  induction l as [|e l IH]; intros t n acc Hn; cbn [collect_pub valid_shares].
  - rewrite firstn_nil, app_nil_r. reflexivity.
  - destruct (usable e) as [s|].
    + replace (Z.to_nat (t - n)) with (S (Z.to_nat (t - (n + 1)))) by lia. cbn [firstn].
      destruct (Z.eqb_spec (n + 1) t) as [E|Hne].
      * rewrite E, Z.sub_diag. reflexivity.
      * rewrite IH by lia. rewrite <- app_assoc. reflexivity.
    + apply IH. lia.
Qed.

Lemma collect_pub_all : forall l t n acc, t <= n ->
  collect_pub l t n acc = acc ++ valid_shares l.
Proof.
  induction l as [|e l IH]; intros t n acc Hn; cbn [collect_pub valid_shares].
  - rewrite app_nil_r. reflexivity.
  - destruct (usable e) as [s|].
    + destruct (Z.eqb_spec (n + 1) t) as [E|Hne]; [lia|].
      rewrite IH by lia. rewrite <- app_assoc. reflexivity.
    + apply IH. lia.
Qed.

Lemma valid_nonneg l s : In s (valid_shares l) -> 0 <= fst s.
Proof.
  induction l as [|e l IH]; cbn [valid_shares]; [intros []|].
  destruct (usable e) as [s'|] eqn:E; [|assumption].
  intros [<-|H]; [|auto].
  destruct e as [|i [v|]]; cbn in E; try discriminate.
  destruct (Z.ltb_spec i 0); [discriminate|]. injection E as <-. cbn. lia.
Qed.

(* ---------- Lagrange recovery from any list of correct shares ---------- *)
Definition correct_share (r : Z) (cs : list Z) (s : Z * Z) : Prop :=
  0 <= fst s < r /\ snd s mod r = eval cs (fst s) mod r.

Lemma combine_ok r : prime r -> forall cs used,
  (forall s, In s used -> correct_share r cs s) ->
  NoDup (map fst used) -> (length cs <= length used)%nat ->
  combine_shares r used = Ok (nth 0 cs 0 mod r).
Proof.
  intros Hp cs used Hc Hnd Hlen.
  apply combine_correct; try assumption.
  - intros i j Hi Hj E.
    assert (Hi' : In (nth i used (0, 0)) used) by (apply nth_In; exact Hi).
    assert (Hj' : In (nth j used (0, 0)) used) by (apply nth_In; exact Hj).
    destruct (Hc _ Hi') as [Ri _], (Hc _ Hj') as [Rj _].
    rewrite !Z.mod_small in E by assumption.
    apply (proj1 (NoDup_nth (map fst used) 0) Hnd); rewrite ?map_length; try assumption.
    change 0 with (fst (0, 0)). rewrite !map_nth. exact E.
  - intros i Hi. apply Hc. apply nth_In. exact Hi.
Qed.

Lemma firstn_correct {A} (P : A -> Prop) n (l : list A) :
  (forall s, In s l -> P s) -> forall s, In s (firstn n l) -> P s.
Proof.
  intros H s Hs. apply H.
  rewrite <- (firstn_skipn n l). apply in_or_app. left. exact Hs.
Qed.

Lemma NoDup_firstn {A} n (l : list A) : NoDup l -> NoDup (firstn n l).
Proof.
  revert n; induction l as [|a l IH]; intros [|n] H; cbn [firstn]; try constructor.
  - inversion H as [|? ? Hn Hd]; subst. intros Hin. apply Hn.
    rewrite <- (firstn_skipn n l). apply in_or_app. left. exact Hin.
  - inversion H; subst. auto.
Qed.

Lemma map_firstn' {A B} (f : A -> B) n l : map f (firstn n l) = firstn n (map f l).
Proof. revert l; induction n; destruct l; cbn; congruence. Qed.

Theorem recover_unique r : prime r ->
  forall (cs : list Z) (entries : list entry) (threshold : Z),
  (forall s, In s (valid_shares entries) -> fst s < r /\ snd s mod r = eval cs (fst s) mod r) ->
  NoDup (map fst (valid_shares entries)) ->
  Z.of_nat (length cs) <= threshold <= Z.of_nat (length (valid_shares entries)) ->
  recover_signature r entries threshold = Ok (nth 0 cs 0 mod r) /\
  recover_public_key r entries threshold = Ok (nth 0 cs 0 mod r).
Proof.
  intros Hp cs entries t Hc Hnd [Hcs Ht].
  set (valid := valid_shares entries) in *.
  assert (Hc' : forall s, In s valid -> correct_share r cs s).
  { intros s Hs. destruct (Hc s Hs). split; [|assumption].
    split; [apply (valid_nonneg entries); exact Hs|assumption]. }
  assert (Hused : combine_shares r (firstn (Z.to_nat t) valid) = Ok (nth 0 cs 0 mod r)).
  { apply combine_ok; try assumption.
    - apply firstn_correct. exact Hc'.
    - rewrite map_firstn'. apply NoDup_firstn. exact Hnd.
    - rewrite firstn_length. lia. }
  assert (Hlen : len (firstn (Z.to_nat t) valid) = t).
  { unfold len. rewrite firstn_length. lia. }
  split.
  - unfold recover_signature. rewrite collect_sig_spec by lia. cbn [app].
    rewrite Z.sub_0_r. fold valid. rewrite Hlen, Z.ltb_irrefl. exact Hused.
  - unfold recover_public_key.
    destruct (Z.eq_dec t 0) as [->|Hne].
    + rewrite collect_pub_all by lia. cbn [app]. fold valid.
      destruct (Z.ltb_spec (len valid) 0) as [H|_]; [unfold len in H; lia|].
      apply combine_ok; try assumption. lia.
    + rewrite collect_pub_spec by lia. cbn [app].
      rewrite Z.sub_0_r. fold valid. rewrite Hlen, Z.ltb_irrefl. exact Hused.
Qed.

(* any two admissible share lists (other subset, other order, other skippable entries)
   give the same group signature *)
Corollary recover_same r : prime r ->
  forall cs e1 e2 t,
  (forall s, In s (valid_shares e1) -> fst s < r /\ snd s mod r = eval cs (fst s) mod r) ->
  (forall s, In s (valid_shares e2) -> fst s < r /\ snd s mod r = eval cs (fst s) mod r) ->
  NoDup (map fst (valid_shares e1)) -> NoDup (map fst (valid_shares e2)) ->
  Z.of_nat (length cs) <= t <= Z.of_nat (length (valid_shares e1)) ->
  t <= Z.of_nat (length (valid_shares e2)) ->
  recover_signature r e1 t = recover_signature r e2 t /\
  exists s, recover_signature r e1 t = Ok s /\ verify_g1 r (nth 0 cs 0) s = true.
Proof.
  intros Hp cs e1 e2 t H1 H2 N1 N2 L1 L2.
  destruct (recover_unique r Hp cs e1 t H1 N1 L1) as [-> _].
  destruct (recover_unique r Hp cs e2 t H2 N2 ltac:(lia)) as [-> _].
  split; [reflexivity|]. eexists; split; [reflexivity|].
  unfold verify_g1. rewrite Z.mod_mod by (pose proof (prime_ge_2 r Hp); lia). apply Z.eqb_refl.
Qed.

(* ---------- the executable property ---------- *)
Lemma distinctb_NoDup l : distinctb l = true -> NoDup l.
Proof.
  induction l as [|x l IH]; cbn [distinctb]; [constructor|].
  rewrite andb_true_iff, negb_true_iff. intros [H1 H2]. constructor; [|auto].
  intros Hin. assert (existsb (Z.eqb x) l = true); [|congruence].
  apply existsb_exists. exists x. split; [assumption|apply Z.eqb_refl].
Qed.

Lemma premises_sound r entries t cs : premises r entries t cs = true ->
  (forall s, In s (valid_shares entries) -> fst s < r /\ snd s mod r = eval cs (fst s) mod r) /\
  NoDup (map fst (valid_shares entries)) /\
  Z.of_nat (length cs) <= t <= Z.of_nat (length (valid_shares entries)).
Proof.
  unfold premises, len'. rewrite !andb_true_iff, forallb_forall, !Z.leb_le.
  intros [[[H1 H2] H3] H4]. split; [|split; [apply distinctb_NoDup; assumption|lia]].
  intros s Hs. specialize (H1 s Hs). rewrite andb_true_iff, Z.ltb_lt, Z.eqb_eq in H1. exact H1.
Qed.

Lemma concl_sound r cs o : concl r cs o = true ->
  exists z, o = OPoint (Some z) true /\ z mod r = nth 0 cs 0 mod r.
Proof.
  destruct o as [[z|] [|]| |]; cbn; try discriminate.
  rewrite Z.eqb_eq. eauto.
Qed.

Theorem model_passes_spec r : prime r -> forall f entries t cs o,
  spec_rec r {| c_fn := f; c_entries := entries; c_threshold := t; c_coeffs := cs;
                c_obs := model_obs r cs (run_rec r {| c_fn := f; c_entries := entries;
                           c_threshold := t; c_coeffs := cs; c_obs := o |}) |} = true.
Proof.
  intros Hp f entries t cs o. unfold spec_rec. cbn [c_entries c_threshold c_coeffs c_obs].
  destruct (premises r entries t cs) eqn:E; [|reflexivity]. cbn [implb].
  apply premises_sound in E. destruct E as [H1 [H2 H3]].
  destruct (recover_unique r Hp cs entries t H1 H2 H3) as [Hs Hk].
  unfold run_rec. cbn [c_fn c_entries c_threshold].
  assert (Hm : (nth 0 cs 0 mod r) mod r = nth 0 cs 0 mod r)
    by (apply Z.mod_mod; pose proof (prime_ge_2 r Hp); lia).
  destruct f; rewrite ?Hs, ?Hk; cbn [model_obs concl]; rewrite Z.eqb_refl, Hm; apply Z.eqb_refl.
Qed.

(* ---------- relay entry glue ---------- *)
Lemma extract_validated r pks m s : extract_and_validate r pks m = Some s ->
  m_wellformed m = true /\ s = m_share m /\
  exists pk, lookup (m_sender m) pks = Some pk /\ verify_g1 r pk s = true.
Proof.
  unfold extract_and_validate.
  destruct (m_wellformed m); [|discriminate]. cbn [negb].
  destruct (lookup (m_sender m) pks) as [pk|]; [|discriminate].
  destruct (verify_g1 r pk (m_share m)) eqn:V; [|discriminate].
  intros [= <-]. eauto.
Qed.

Definition verified_entry (r : Z) (self : N) (share : Z) (pks : list (N * Z)) (kv : N * Z) : Prop :=
  (fst kv = self /\ snd kv = share) \/
  exists pk, lookup (fst kv) pks = Some pk /\ verify_g1 r pk (snd kv) = true.

Lemma in_assign {A} k (v : A) m kv : In kv (assign k v m) -> kv = (k, v) \/ In kv m.
Proof.
  induction m as [|[k' v'] m IH]; cbn [assign].
  - intros [<-|[]]. auto.
  - destruct (N.eqb k k').
    + intros [<-|H]; [auto|right; right; exact H].
    + intros [<-|H]; [right; left; reflexivity|]. destruct (IH H); [auto|right; right; assumption].
Qed.

(* a share enters receivedValidShares only through extractAndValidateShare *)
Theorem received_shares_verified r self share pks t : forall msgs received,
  (forall kv, In kv received -> verified_entry r self share pks kv) ->
  forall kv, In kv (receive r self pks t msgs received) -> verified_entry r self share pks kv.
Proof.
  induction msgs as [|m msgs IH]; intros received Hinv kv; cbn [receive].
  - destruct (t <=? len received); apply Hinv.
  - destruct (t <=? len received); [apply Hinv|].
    destruct (N.eqb self (m_sender m)); [apply IH; exact Hinv|].
    destruct (extract_and_validate r pks m) as [s|] eqn:E; [|apply IH; exact Hinv].
    apply IH. intros kv' Hin. apply in_assign in Hin. destruct Hin as [->|Hin]; [|auto].
    apply extract_validated in E. destruct E as [_ [_ [pk [L V]]]].
    right. exists pk. cbn. auto.
Qed.

Lemma assign_keys {A} k (v : A) m : NoDup (map fst m) -> NoDup (map fst (assign k v m)).
Proof.
  induction m as [|[k' v'] m IH]; cbn [assign map fst]; intros H.
  - constructor; [intros []|constructor].
  - inversion H as [|? ? Hn Hd]; subst.
    destruct (N.eqb_spec k k') as [->|Hne]; cbn [map fst]; [constructor; assumption|].
    constructor; [|auto].
    intros Hin. apply in_map_iff in Hin. destruct Hin as [[k2 v2] [E Hin]]. cbn in E. subst k2.
    apply in_assign in Hin. destruct Hin as [[= -> _]|Hin]; [congruence|].
    apply Hn. apply in_map_iff. exists (k', v2). auto.
Qed.

Lemma receive_keys r self pks t : forall msgs received,
  NoDup (map fst received) -> NoDup (map fst (receive r self pks t msgs received)).
Proof.
  induction msgs as [|m msgs IH]; intros received H; cbn [receive].
  - destruct (t <=? len received); exact H.
  - destruct (t <=? len received); [exact H|].
    destruct (N.eqb self (m_sender m)); [auto|].
    destruct (extract_and_validate r pks m); [|auto].
    apply IH. apply assign_keys. exact H.
Qed.

Lemma valid_of_map (l : list (N * Z)) :
  valid_shares (map (fun kv => EShare (Z.of_N (fst kv)) (Some (snd kv))) l)
  = map (fun kv => (Z.of_N (fst kv), snd kv)) l.
Proof.
  induction l as [|[k v] l IH]; [reflexivity|]. cbn [map valid_shares usable fst snd].
  destruct (Z.ltb_spec (Z.of_N k) 0); [lia|]. rewrite IH. reflexivity.
Qed.

(* with the key shares of the polynomial, whatever messages arrive and in whatever order the
   map is iterated, a completed signature is the group signature f(0) * M *)
Theorem entry_signature_unique r : prime r ->
  forall (cs : list Z) self share pks t msgs (iter : list (N * Z) -> list (N * Z)),
  (forall l, Permutation (iter l) l) ->
  share mod r = eval cs (Z.of_N self) mod r -> Z.of_N self < r ->
  (forall k pk, lookup k pks = Some pk -> pk mod r = eval cs (Z.of_N k) mod r /\ Z.of_N k < r) ->
  let received := receive r self pks t msgs [(self, share)] in
  Z.of_nat (length cs) <= t <= Z.of_nat (length received) ->
  complete_signature r iter received t = Ok (nth 0 cs 0 mod r).
Proof.
  intros Hp cs self share pks t msgs iter Hiter Hself Hselfr Hpks received Ht.
  unfold complete_signature.
  pose proof (Hiter received) as HP.
  apply recover_unique; try assumption; rewrite valid_of_map.
  - intros s Hs. apply in_map_iff in Hs. destruct Hs as [[k v] [<- Hin]]. cbn [fst snd].
    apply (Permutation_in _ HP) in Hin.
    pose proof (received_shares_verified r self share pks t msgs [(self, share)]) as Hv.
    destruct (Hv ltac:(intros kv [<-|[]]; left; auto) _ Hin) as [[E1 E2]|[pk [L V]]]; cbn [fst snd] in *.
    + subst. auto.
    + destruct (Hpks _ _ L) as [E R]. split; [assumption|].
      unfold verify_g1 in V. apply Z.eqb_eq in V. congruence.
  - rewrite map_map. cbn [fst].
    assert (Hnd : NoDup (map fst (iter received))).
    { apply (Permutation_NoDup (l := map fst received)).
      - apply Permutation_map. apply Permutation_sym. exact HP.
      - apply receive_keys. cbn. constructor; [intros []|constructor]. }
    rewrite <- (map_map fst Z.of_N). apply FinFun.Injective_map_NoDup; [|exact Hnd].
    intros a b. apply N2Z.inj.
  - rewrite map_length, (Permutation_length HP). exact Ht.
Qed.

(* the hypotheses of recover_unique are satisfiable: 3 shares of f = 5 + 3x + 2x^2 out of
   order, mixed with the three kinds of skipped entries *)
Example recover_example :
  let cs := [5; 3; 2] in
  let entries := [ENil; EShare 3 (Some (eval cs 3)); EShare (-1) (Some 77); EShare 1 (Some (eval cs 1));
                  EShare 4 None; EShare 2 (Some (eval cs 2))] in
  premises Concrete.order entries 3 cs = true /\
  recover_signature Concrete.order entries 3 = Ok 5.
Proof. vm_compute. split; reflexivity. Qed.

(* premises is also complete w.r.t. the Prop form, so spec_rec = true gives the conclusion *)
Lemma NoDup_distinctb l : NoDup l -> distinctb l = true.
Proof.
  induction 1 as [|x l Hn Hd IH]; cbn [distinctb]; [reflexivity|].
  rewrite IH, andb_true_r, negb_true_iff.
  destruct (existsb (Z.eqb x) l) eqn:E; [|reflexivity].
  apply existsb_exists in E. destruct E as [y [Hy E]]. apply Z.eqb_eq in E. subst. contradiction.
Qed.

Theorem spec_sound r c : spec_rec r c = true ->
  (forall s, In s (valid_shares (c_entries c)) ->
     fst s < r /\ snd s mod r = eval (c_coeffs c) (fst s) mod r) ->
  NoDup (map fst (valid_shares (c_entries c))) ->
  Z.of_nat (length (c_coeffs c)) <= c_threshold c <= Z.of_nat (length (valid_shares (c_entries c))) ->
  exists z, c_obs c = OPoint (Some z) true /\ z mod r = nth 0 (c_coeffs c) 0 mod r.
Proof.
  unfold spec_rec. intros Hs H1 H2 H3.
  assert (P : premises r (c_entries c) (c_threshold c) (c_coeffs c) = true).
  { unfold premises, len'. rewrite !andb_true_iff, forallb_forall, !Z.leb_le.
    repeat split; try lia; [|apply NoDup_distinctb; assumption].
    intros s Hin. destruct (H1 s Hin). rewrite andb_true_iff, Z.ltb_lt, Z.eqb_eq. auto. }
  rewrite P in Hs. cbn [implb] in Hs. apply concl_sound. exact Hs.
Qed.

Theorem mod_inverse_correct :
  forall r, prime r -> forall g,
  (g mod r <> 0 -> exists inv, mod_inverse g r = Some inv) /\
  (forall inv, mod_inverse g r = Some inv -> (g * inv) mod r = 1 mod r /\ 0 <= inv < r).
Proof.
  intros r Hp g. split.
  - exact (mod_inverse_complete g r Hp).
  - intros inv. apply mod_inverse_sound. pose proof (prime_ge_2 r Hp). lia.
Qed.

Theorem unverified_share_never_used :
  forall r self share pks threshold msgs kv,
  In kv (receive r self pks threshold msgs [(self, share)]) ->
  (fst kv = self /\ snd kv = share) \/
  exists pk, lookup (fst kv) pks = Some pk /\ verify_g1 r pk (snd kv) = true.
Proof.
  intros r self share pks t msgs kv H.
  refine (received_shares_verified r self share pks t msgs [(self, share)] _ kv H).
  intros kv' [<-|[]]. left. split; reflexivity.
Qed.

(* ---------------- call histories in one process ---------------- *)

(* history independence: the process state after any history is the one before it, and the
   answers are the pure function [run_rec] mapped over the calls *)
Theorem run_history_is_map r st h : run_history r st h = (st, map (run_rec r) h).
Proof.
  induction h as [|c t IH]; cbn [run_history call map]; [reflexivity|].
  rewrite IH. reflexivity.
Qed.

(* whatever was recovered before and whatever is recovered afterwards, an admissible call
   (correct shares, distinct indices, at least threshold of them) returns the group signature /
   the group public key *)
Theorem history_recovers_unique r : prime r ->
  forall st (pre post : list rec_case) (c : rec_case),
  (forall s, In s (valid_shares (c_entries c)) ->
     fst s < r /\ snd s mod r = eval (c_coeffs c) (fst s) mod r) ->
  NoDup (map fst (valid_shares (c_entries c))) ->
  Z.of_nat (length (c_coeffs c)) <= c_threshold c <= Z.of_nat (length (valid_shares (c_entries c))) ->
  nth_error (snd (run_history r st (pre ++ c :: post))) (length pre)
  = Some (Ok (nth 0 (c_coeffs c) 0 mod r)).
Proof.
  intros Hp st pre post c H1 H2 H3.
  rewrite run_history_is_map. cbn [snd]. rewrite map_app. cbn [map].
  rewrite nth_error_app2; rewrite map_length; [|lia].
  rewrite Nat.sub_diag. cbn [nth_error]. f_equal.
  destruct (recover_unique r Hp (c_coeffs c) (c_entries c) (c_threshold c) H1 H2 H3) as [Hs Hk].
  unfold run_rec. destruct (c_fn c); assumption.
Qed.

(* the answers to a history do not depend on the calls made before it *)
Theorem history_suffix_independent r st pre h :
  snd (run_history r st (pre ++ h))
  = snd (run_history r st pre) ++ snd (run_history r st h).
Proof. rewrite !run_history_is_map. cbn [snd]. apply map_app. Qed.

Theorem spec_hist_sound r h : spec_hist r h = true ->
  forall c, In c h ->
  (forall s, In s (valid_shares (c_entries c)) ->
     fst s < r /\ snd s mod r = eval (c_coeffs c) (fst s) mod r) ->
  NoDup (map fst (valid_shares (c_entries c))) ->
  Z.of_nat (length (c_coeffs c)) <= c_threshold c <= Z.of_nat (length (valid_shares (c_entries c))) ->
  exists z, c_obs c = OPoint (Some z) true /\ z mod r = nth 0 (c_coeffs c) 0 mod r.
Proof.
  unfold spec_hist. rewrite forallb_forall. intros H c Hin. apply spec_sound. apply H. exact Hin.
Qed.

Theorem model_histories_pass_spec r : prime r ->
  forall h, spec_hist r (map (with_model_obs r) h) = true.
Proof.
  intros Hp h. unfold spec_hist. rewrite forallb_forall. intros c Hin.
  apply in_map_iff in Hin. destruct Hin as [[f es t cs o] [<- _]].
  unfold with_model_obs. cbn [c_fn c_entries c_threshold c_coeffs].
  apply model_passes_spec. exact Hp.
Qed.

(* the pair of the seeded regression: members [1;12;3] then [11;2;3] of one polynomial *)
Example history_example :
  let cs := [5; 3; 2] in
  let sh i := EShare i (Some (eval cs i)) in
  let mk es := {| c_fn := FSig; c_entries := es; c_threshold := 3; c_coeffs := cs; c_obs := OErr |} in
  snd (run_history Concrete.order tt [mk [sh 1; sh 12; sh 3]; mk [ENil; sh 11; sh 2; sh 3]])
  = [Ok 5; Ok 5].
Proof. vm_compute. reflexivity. Qed.
